#!/opt/veriftools/pyvenv/bin/python3
import json, jsonschema, glob, sys
jsonschema.validate(json.load(open('/verif/MANIFEST.json')), json.load(open('/root/.vp/MANIFEST.schema.json')))
m = json.load(open('/verif/MANIFEST.json'))
ids = [json.loads(l)['id'] for l in open('/verif/properties.jsonl')]
cl = [c['property_id'] for c in m['checks']]; na = [n['property_id'] for n in m.get('not_applicable', [])]
assert sorted(cl + na) == sorted(ids), (set(ids) - set(cl + na), set(cl) & set(na))
for c in cl:
    try:
        jsonschema.validate(json.load(open('/verif/evidence/%s.json' % c)), json.load(open('/root/.vp/EVIDENCE.schema.json')))
    except Exception as e:
        print('EVIDENCE PROBLEM', c, str(e)[:300])
for c in cl:
    e = json.load(open("/verif/evidence/%s.json" % c))["coverage"]
    assert e["obligations"] == e["discharged"] and e["obligations"] > 0, (c, e["obligations"], e["discharged"])
print("manifest ok; claimed", cl)
