/*
 * native_main.c — entry point of a natively compiled proof unit (gcc -DVERIF_NATIVE).
 *   replay.exe                 run the harness once on the input compiled in from the verifier's trace
 *   replay.exe bytes <hex>     run the harness once on IN given as raw bytes
 *   replay.exe search <seed> <seconds>
 *                              seeded boundary/random search around the trace input for an input on
 *                              which a harness-level CHECK fails (used when the verifier's counterexample
 *                              starts from a havocked loop state and does not replay as is)
 * exit: 1 + "REPLAY-FAIL ..." a CHECK failed; 77 an ASSUME was false; 0 passed.
 */
#include <stdio.h>
#include <stdlib.h>
#include <string.h>
#include <time.h>
#include <unistd.h>
#include <sys/wait.h>

void VERIF_HARNESS(void);
extern unsigned long verif_in_size;
extern void *verif_in_addr;
extern const unsigned char *verif_in_override;

static unsigned long long rs;
static unsigned long long rnd(void)
{
	rs ^= rs << 13; rs ^= rs >> 7; rs ^= rs << 17;
	return rs;
}

static void put_word(unsigned char *b, unsigned long off, int w, unsigned long long v)
{
	memcpy(b + off, &v, w);
}
static unsigned long long get_word(unsigned char *b, unsigned long off, int w)
{
	unsigned long long v = 0;
	memcpy(&v, b + off, w);
	return v;
}

int main(int argc, char **argv)
{
	if (argc >= 3 && !strcmp(argv[1], "bytes")) {
		unsigned char *b = calloc(1, verif_in_size + 1);
		for (unsigned long i = 0; i < verif_in_size && argv[2][2 * i] && argv[2][2 * i + 1]; i++) {
			unsigned int x;
			sscanf(argv[2] + 2 * i, "%2x", &x);
			b[i] = x;
		}
		verif_in_override = b;
		VERIF_HARNESS();
		puts("REPLAY-PASS");
		return 0;
	}
	if (argc >= 4 && !strcmp(argv[1], "search")) {
		static const int widths[4] = {1, 2, 4, 8};
		unsigned long n = verif_in_size;
		unsigned char *base = malloc(n + 8), *cur = malloc(n + 8);
		time_t t_end = time(0) + atoi(argv[3]);
		unsigned long trials = 0;
		rs = strtoull(argv[2], 0, 10) * 2654435761ULL + 88172645463325252ULL;
		/* baseline = the compiled-in trace input: run the loader once in a child to obtain its bytes */
		int pfd[2];
		if (pipe(pfd)) return 2;
		if (fork() == 0) {
			extern void verif_export_in(int fd);
			verif_export_in(pfd[1]);
			_exit(0);
		}
		close(pfd[1]);
		unsigned long got = 0;
		while (got < n) {
			long r = read(pfd[0], base + got, n - got);
			if (r <= 0) break;
			got += r;
		}
		wait(0);
		if (got != n) memset(base, 0, n);
		while (time(0) < t_end) {
			memcpy(cur, base, n);
			int nm = 1 + rnd() % 3;
			for (int m = 0; m < nm; m++) {
				int w = widths[rnd() % 4];
				if ((unsigned long)w > n) w = 1;
				unsigned long off = (rnd() % (n / w ? n / w : 1)) * w;
				unsigned long off2 = (rnd() % (n / w ? n / w : 1)) * w;
				unsigned long long v = get_word(cur, off, w), v2 = get_word(cur, off2, w);
				switch (rnd() % 8) {
				case 0: v += 1; break;
				case 1: v -= 1; break;
				case 2: v = v2; break;
				case 3: v = v2 + 1; break;
				case 4: v = v2 - 1; break;
				case 5: v = rnd() % 16; break;
				case 6: v = rnd(); break;
				default: v ^= 1ULL << (rnd() % (8 * w)); break;
				}
				put_word(cur, off, w, v);
			}
			trials++;
			fflush(stdout);
			pid_t pid = fork();
			if (pid == 0) {
				verif_in_override = cur;
				alarm(5);
				VERIF_HARNESS();
				_exit(0);
			}
			int st = 0;
			waitpid(pid, &st, 0);
			if (WIFEXITED(st) && WEXITSTATUS(st) == 1) {
				printf("SEARCH-FOUND trials=%lu bytes=", trials);
				for (unsigned long i = 0; i < n; i++) printf("%02x", cur[i]);
				printf("\n");
				return 1;
			}
			/* a passing input that satisfied every assumption becomes the new base now and then */
			if (WIFEXITED(st) && WEXITSTATUS(st) == 0 && rnd() % 4 == 0)
				memcpy(base, cur, n);
		}
		printf("SEARCH-NONE trials=%lu\n", trials);
		return 0;
	}
	VERIF_HARNESS();
	puts("REPLAY-PASS");
	return 0;
}
