#include <stdio.h>
void VERIF_HARNESS(void);
int main(void) { VERIF_HARNESS(); puts("REPLAY-PASS"); return 0; }
