/*
 * verif.h — harness vocabulary shared by every proof unit under /verif/proofs.
 *
 * Two compilation modes of the SAME unit file:
 *   (default)       goto-cc / CBMC: contracts are CBMC code contracts,
 *                   CHECK() is an obligation, REACH() is a must-fail canary
 *                   used by the driver as a vacuity guard.
 *   -DVERIF_NATIVE  gcc: contract clauses vanish, IN is loaded from the
 *                   counterexample the driver extracted, CHECK() prints and
 *                   exits 1 when false, ASSUME() exits 77 when false.
 */
#ifndef VERIF_H
#define VERIF_H

#ifdef VERIF_NATIVE
#include <stdio.h>
#include <stdlib.h>
#define REQUIRES(...)
#define ENSURES(...)
#define ASSIGNS(...)
#define FRESH(p, n) 1
#define ASSUME(c) do { if (!(c)) { fprintf(stderr, "replay: assumption not met: %s\n", #c); exit(77); } } while (0)
#define CHECK(c, name) do { if (!(c)) { printf("REPLAY-FAIL %s: %s\n", name, #c); exit(1); } } while (0)
#define REACH(name) ((void)0)
#define LOAD_IN() verif_load_in()
#define OLD(x) (x)
#define RET 0
#else
#define REQUIRES(...) __CPROVER_requires(__VA_ARGS__)
#define ENSURES(...) __CPROVER_ensures(__VA_ARGS__)
#define ASSIGNS(...) __CPROVER_assigns(__VA_ARGS__)
#define FRESH(p, n) __CPROVER_is_fresh(p, n)
#define ASSUME(c) __CPROVER_assume(c)
#define CHECK(c, name) __CPROVER_assert(c, "CHECK:" name)
#define REACH(name) __CPROVER_assert(0, "REACH:" name)
#define LOAD_IN() do { __typeof__(IN) verif_nd_in; IN = verif_nd_in; } while (0)
#define OLD(x) __CPROVER_old(x)
#define RET __CPROVER_return_value
#endif

/* ghost index used instead of quantifiers (DESIGN §1) */
#ifndef VERIF_NO_GHOST_K
extern unsigned long long verif_k;
#endif

#endif
