/*
 * e2fsprogs_verif.h — found only on /verif/include; included by files in the
 * repository when -DE2FSPROGS_VERIF is given.  The repository's own fallback
 * (guard off) defines both macros to nothing.
 */
#ifndef E2FSPROGS_VERIF_H
#define E2FSPROGS_VERIF_H
#ifdef VERIF_NATIVE
#define VERIF_LOOP(...)
#define VERIF_GHOST(...)
#else
/* loop contract clauses are written as the macro's arguments */
#define VERIF_LOOP(...) __VA_ARGS__
/* ghost statement executed only under the verifier */
#define VERIF_GHOST(...) __VA_ARGS__
#endif

/*
 * Named anchors: some in-place annotations only name their loop ("VERIF_LOOP(VERIF_INV_<FUNCTION>_<LOOP>)");
 * the unit that proves the function defines the invariant text before including the real file.  Units that do not
 * (they replace the function by its contract, or unwind the loop) get the empty default.
 */
#ifndef VERIF_INV_CRC32_BODY_ALIGN
#define VERIF_INV_CRC32_BODY_ALIGN
#endif
#ifndef VERIF_INV_CRC32_BODY_WORDS
#define VERIF_INV_CRC32_BODY_WORDS
#endif
#ifndef VERIF_INV_CRC32_BODY_TAIL
#define VERIF_INV_CRC32_BODY_TAIL
#endif
#ifndef VERIF_INV_INITIALIZE_GROUPS
#define VERIF_INV_INITIALIZE_GROUPS
#endif
#ifndef VERIF_INV_ALLOCATE_GROUP_TABLE_ITABLE
#define VERIF_INV_ALLOCATE_GROUP_TABLE_ITABLE
#endif
#ifndef VERIF_INV_CHECK_BACKUP_SUPER_BLOCK
#define VERIF_INV_CHECK_BACKUP_SUPER_BLOCK
#endif
#ifndef VERIF_INV_CHECK_ZERO_BLOCK
#define VERIF_INV_CHECK_ZERO_BLOCK
#endif
#ifndef VERIF_INV_IND_PUNCH
#define VERIF_INV_IND_PUNCH
#endif
#ifndef VERIF_GHOST_IND_PUNCH_ITER
#define VERIF_GHOST_IND_PUNCH_ITER
#endif
#ifndef VERIF_INV_BLOCK_ALLOC_STATS_RANGE
#define VERIF_INV_BLOCK_ALLOC_STATS_RANGE
#endif
#ifndef VERIF_INV_FILE_READ
#define VERIF_INV_FILE_READ
#endif
#ifndef VERIF_INV_FILE_WRITE
#define VERIF_INV_FILE_WRITE
#endif
#ifndef VERIF_INV_PASS2_CHECK_NAME
#define VERIF_INV_PASS2_CHECK_NAME
#endif
#ifndef VERIF_GHOST_CRC32_BODY_BYTE
#define VERIF_GHOST_CRC32_BODY_BYTE
#endif
#ifndef VERIF_GHOST_CRC32_BODY_WORDS
#define VERIF_GHOST_CRC32_BODY_WORDS
#endif

/* ghost state referenced by the in-place loop contracts (defined by each unit) */
#ifndef VERIF_NATIVE
extern unsigned long long verif_k;	/* ghost index: one arbitrary bit / byte / slot */
extern int verif_old_bit;		/* value of bit verif_k on entry */
/* generic ghost registers for loop invariants (meaning documented by the unit that defines them) */
extern unsigned long long verif_g0, verif_g1, verif_g2, verif_g3, verif_g4, verif_g5, verif_g6, verif_g7;
extern const unsigned char *verif_p0, *verif_p1, *verif_p2, *verif_p3;
/* bit k of a byte array, as 0/1 (no function calls are allowed in invariants) */
#define VERIF_BIT(arr, k) ((((const unsigned char *)(arr))[(k) >> 3] >> ((k) & 7)) & 1)
#endif
#endif
