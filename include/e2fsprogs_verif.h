/*
 * e2fsprogs_verif.h — found only on /verif/include; included by files in the
 * repository when -DE2FSPROGS_VERIF is given.  The repository's own fallback
 * (guard off) defines both macros to nothing.
 */
#ifndef E2FSPROGS_VERIF_H
#define E2FSPROGS_VERIF_H
#ifdef VERIF_NATIVE
#define VERIF_LOOP(...)
#define VERIF_GHOST(...)
#else
/* loop contract clauses are written as the macro's arguments */
#define VERIF_LOOP(...) __VA_ARGS__
/* ghost statement executed only under the verifier */
#define VERIF_GHOST(...) __VA_ARGS__
#endif
#endif
