/* included by a unit right after it has declared its global input struct IN */
#ifdef VERIF_NATIVE
#include <string.h>
unsigned long verif_in_size = sizeof(IN);
void *verif_in_addr = &IN;
const unsigned char *verif_in_override;	/* set by native_main.c in search / bytes mode */
static void verif_load_in(void)
{
	if (verif_in_override) {
		memcpy(&IN, verif_in_override, sizeof(IN));
		return;
	}
	memset(&IN, 0, sizeof(IN));
#include VERIF_REPLAY_FILE
}
#endif
#ifdef VERIF_NATIVE
#include <unistd.h>
void verif_export_in(int fd)
{
	verif_load_in();
	if (write(fd, &IN, sizeof(IN)) < 0)
		_exit(2);
}
#endif
