/* included by a unit right after it has declared its global input struct IN */
#ifdef VERIF_NATIVE
static void verif_load_in(void)
{
#include VERIF_REPLAY_FILE
}
#endif
