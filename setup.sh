#!/bin/sh
# offline set-up: make sure the repository's generated headers exist (config.h, ext2_err.h, crc32c_table.h ...)
set -e
cd /repo
if [ ! -f lib/config.h ] || [ ! -f Makefile ]; then
	./configure >/dev/null 2>&1
fi
make -s -C lib/et >/dev/null 2>&1 || true
make -s -C lib/ext2fs ext2_err.h crc32c_table.h >/dev/null 2>&1 || true
make -s -C lib/support prof_err.h >/dev/null 2>&1 || true
command -v cbmc >/dev/null && command -v goto-cc >/dev/null && command -v goto-instrument >/dev/null
mkdir -p /verif/evidence /verif/replays
echo setup ok
