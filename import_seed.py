#!/usr/bin/env python3
"""./import_seed.py <seed_out_dir> <new id> <confirm log line> : copy a confirmed seeded change into /verif/seeded/<id>/ with meta.json"""
import sys, os, json, shutil, re, subprocess
src, sid, line = sys.argv[1], sys.argv[2], sys.argv[3]
prop = sid.split('_')[0]
dst = '/verif/seeded/' + sid
os.makedirs(dst, exist_ok=True)
for f in os.listdir(src):
    if os.path.isfile(os.path.join(src, f)) and os.path.getsize(os.path.join(src, f)) < 400000:
        shutil.copy(os.path.join(src, f), dst)
title = [json.loads(l)['title'] for l in open('/verif/properties.jsonl') if json.loads(l)['id'] == prop][0]
files = re.findall(r'^\+\+\+ b/(\S+)', open(src + '/patch.diff').read(), re.M)
notes = open(src + '/notes.md').read() if os.path.exists(src + '/notes.md') else ''
m = re.search(r'(?is)(needs?[^\n]*manifest[^\n]*\n.*?)(\n#|\n\n\n|\Z)', notes)
meta = {'id': sid, 'breaks_property': prop, 'property_title': title, 'files_changed': files,
        'needs_to_manifest': (m.group(1).strip()[:1200] if m else 'see notes.md (written by the independent sub-agent that produced the change)'),
        'produced_by': 'fresh sub-agent given only the property text and a scratch worktree, nothing from /verif',
        'confirmed_by_me': {'how': '/verif/confirm_seed.sh in a scratch worktree: demo.sh on the clean build (must exit 0), git apply patch.diff, make, demo.sh (must exit non-zero), make -k check, revert',
                            'result': line}}
json.dump(meta, open(dst + '/meta.json', 'w'), indent=1)
print('imported', sid, files)
