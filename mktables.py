#!/usr/bin/env python3
"""regenerates the generated blocks of DESIGN.md (between <!-- BEGIN x --> / <!-- END x -->):
   units  = table of all proof units by property
   seeded = table of seeded changes with the checks that catch them (from seeded/*/result.json)"""
import json, re, glob, os, subprocess
V = '/verif'
def units():
    out = []
    for path in sorted(glob.glob(V + '/proofs/*/*.c')):
        for m in re.finditer(r'/\*\s*VERIF-UNIT\s*(\{.*?\n\})\s*\*/', open(path).read(), re.S):
            try: u = json.loads(m.group(1))
            except Exception: continue
            if 'name' not in u: continue
            u['id'] = os.path.basename(os.path.dirname(path)) + '/' + u['name']
            out.append(u)
    return out
def units_table():
    us = units()
    props = sorted(set(p for u in us for p in u.get('props', [])))
    lines = ['| property | quick units (level) | thorough-only units | observation / under construction |', '|---|---|---|---|']
    for p in props:
        mine = [u for u in us if p in u.get('props', [])]
        def fmt(t):
            return ', '.join('`%s` (%s)' % (u['id'], u.get('level', '?')) for u in mine if u.get('tier', 'quick') == t) or '—'
        other = ', '.join('`%s` (%s, %s)' % (u['id'], u.get('level', '?'), u.get('tier')) for u in mine if u.get('tier', 'quick') not in ('quick', 'thorough')) or '—'
        lines.append('| %s | %s | %s | %s |' % (p, fmt('quick'), fmt('thorough'), other))
    return '\n'.join(lines)
def seeded_table():
    lines = ['| seeded change | property | file(s) changed | what it needs to manifest | caught? | by which obligations |', '|---|---|---|---|---|---|']
    for d in sorted(glob.glob(V + '/seeded/*')):
        try: m = json.load(open(d + '/meta.json'))
        except Exception: continue
        r = {}
        if os.path.exists(d + '/result.json'):
            r = json.load(open(d + '/result.json'))
        caught = 'not evaluated'
        obl = ''
        if r:
            caught = ('**yes**' + (' (thorough tier)' if r.get('caught_by_tier') == 'thorough' else '')) if r.get('caught') else 'no'
            ob = []
            for p, v in r.get('runs', {}).items():
                for l in v.get('failed_obligations', [])[:3]:
                    mm = re.search(r'unit=(\S+) (\S+)', l)
                    if mm: ob.append('%s: `%s` %s' % (p, mm.group(1), mm.group(2)))
            obl = '; '.join(ob[:4])
            if not r.get('caught'):
                obl = r.get('why_missed', m.get('why_missed', ''))
        need = re.sub(r'\s+', ' ', m.get('needs_short', m.get('needs_to_manifest', '')))[:160].replace('|', '/')
        lines.append('| %s | %s | %s | %s | %s | %s |' % (m['id'], m['breaks_property'], ', '.join(m.get('files_changed', [])), need, caught, obl.replace('|', '/')))
    return '\n'.join(lines)
s = open(V + '/DESIGN.md').read()
def summary_table():
    us = units()
    meta = json.load(open(V + '/propmeta.json'))
    man = json.load(open(V + '/MANIFEST.json'))
    claimed = set(c['property_id'] for c in man['checks'])
    lines = ['| id | claimed? | what the contracts decide (claim) | quick / thorough units | levels | bounded (not counted) |', '|---|---|---|---|---|---|']
    ids = [json.loads(l)['id'] for l in open(V + '/properties.jsonl')]
    for p in ids:
        mine = [u for u in us if p in u.get('props', []) and u.get('tier', 'quick') in ('quick', 'thorough')]
        q = sum(1 for u in mine if u.get('tier', 'quick') == 'quick'); t = len(mine) - q
        lv = sorted(set(str(u.get('level', '?')) for u in mine if not str(u.get('level', '')).startswith('B')))
        bd = sum(1 for u in mine if str(u.get('level', '')).startswith('B'))
        if p in claimed:
            lines.append('| %s | partial | %s | %d / %d | %s | %d |' % (p, meta.get(p, {}).get('claim', '')[:400].replace('|', '/'), q, t, ', '.join(lv), bd))
        else:
            lines.append('| %s | **not applicable** | see §7 | 0 / 0 | — | 0 |' % p)
    return '\n'.join(lines)
def findings_table():
    lines = ['| property | status | what failed (unit / obligation / native replay) | fix commit |', '|---|---|---|---|']
    for l in open(V + '/known_findings.txt'):
        l = l.strip()
        m = re.match(r'fixed:\s+property=(\S+)\s+(\S+)\s+(.*)', l)
        if m:
            subj = subprocess.run(['git', '-C', '/repo', 'log', '--format=%s', '-1', m.group(2)], stdout=subprocess.PIPE, stderr=subprocess.DEVNULL).stdout.decode().strip()
            lines.append('| %s | repaired | %s | `%s` %s |' % (m.group(1), m.group(3).replace('|', '/'), m.group(2), subj.replace('|', '/')))
            continue
        m = re.match(r'known:\s+property=(\S+)\s+unit=(\S+)\s+obligation=(\S+)\s+(.*)', l)
        if m:
            lines.append('| %s | **known finding (not repaired)** | unit `%s`, obligations `%s`: %s | — |' % (m.group(1), m.group(2), m.group(3).replace('|', ' / '), m.group(4).replace('|', '/')))
    return '\n'.join(lines)
for name, fn in (('units', units_table), ('seeded', seeded_table), ('summary', summary_table), ('findings', findings_table)):
    b, e = '<!-- BEGIN %s -->' % name, '<!-- END %s -->' % name
    if b in s and e in s:
        s = s[:s.index(b) + len(b)] + '\n' + fn() + '\n' + s[s.index(e):]
open(V + '/DESIGN.md', 'w').write(s)
print('tables regenerated')
