/*
 * fsckds_sorted.h — abstract view of a "sorted array used as a map / set" WITHOUT quantifiers.
 * Written from the textbook definition of a strictly ascending array and of its lower bound, not from e2fsprogs.
 *
 * An array a[0..n) of keys is strictly ascending iff for EVERY key K there is a position P in 0..n (the lower bound
 * of K) such that
 *
 *        a[i] <  K   for every i <  P
 *        a[P] >= K   (if P < n)
 *        a[i] >  K   for every i >  P         (strictness: no key occurs twice)
 *
 * FSCKDS_PART(key_at_i, i, n, K, P) is this statement for ONE index i ("partition instance").  The units use it
 *   - as the representation invariant "well_formed" of the container: REQUIRED of the pre-state at the finitely many
 *     indices an operation is going to look at (ghost indices chosen by the harness before the call, plus the index
 *     probed by a binary search, see the units), and
 *   - ENSURED of the post-state at an ARBITRARY ghost index for an ARBITRARY key K — which is the universally
 *     quantified statement again (the ghost-index rule of DESIGN §1).
 * Because K is arbitrary, "partition for every K" is equivalent to "strictly ascending": take K = a[j] for i < j.
 *
 * The MAP VIEW of such an array of (key, value) pairs at the ghost key K is
 *        view(K) = (P < n && key[P] == K) ? value[P] : 0
 * and the SET VIEW is  member(K) = (P < n && key[P] == K).
 */
#ifndef FSCKDS_SORTED_H
#define FSCKDS_SORTED_H

#define FSCKDS_PART(KEY_AT_I, I, N, K, P) \
	((I) >= (N) || ((I) < (P) ? (KEY_AT_I) < (K) : ((I) == (P) ? (KEY_AT_I) >= (K) : (KEY_AT_I) > (K))))

/* P is a legal lower-bound position */
#define FSCKDS_POS_OK(N, P) ((P) <= (N))

#endif
