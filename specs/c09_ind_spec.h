/*
 * c09_ind_spec.h — the ext2 indirect block map and what "punch the logical range [s, e)" means for it, written from
 * the on-disk format (Documentation/filesystems/ext4 "The Contents of inode.i_block", kernel fs/ext2/inode.c
 * ext2_block_to_path()), NOT from lib/ext2fs/punch.c or bmap.c:
 *
 *   i_block[0..11]  map logical blocks 0..11 directly;
 *   i_block[12]     is the number of a block holding A = blocksize/4 little-endian 32-bit block numbers which map
 *                   logical blocks 12 .. 12+A-1;
 *   i_block[13]     double indirect: A numbers of single-indirect blocks, logical 12+A .. 12+A+A^2-1;
 *   i_block[14]     triple indirect: A numbers of double-indirect blocks, logical 12+A+A^2 .. 12+A+A^2+A^3-1;
 *   a slot holding 0 is a hole.
 *
 * Generalised: an ARRAY OF LEVEL j is a sequence of slots each of which covers A^j consecutive logical blocks
 * (level 0: a data block number; level j > 0: the number of a block that holds an array of level j-1 with A slots).
 * Slot i of a level-j array whose first logical block is `base` covers [base + i*A^j, base + (i+1)*A^j).
 * i_block[0..11] is a level-0 array (12 slots, base 0); &i_block[12] is a level-1 array with ONE slot (base 12);
 * &i_block[13] a level-2 array with one slot (base 12+A); &i_block[14] a level-3 array with one slot.
 *
 * Only blocksize 1024 is instantiated here (A = 256 = 2^8): every product is a shift (symbolic products do not
 * terminate in the solver).
 *
 * Punching the range [s, e) (relative to the array's base) — the meaning the property C09 needs:
 *   - a level-0 slot is cleared and its block released iff it is non-zero and its block lies in [s, e);
 *   - a level-j slot (j > 0) whose span does not meet [s, e), or which is 0, is untouched together with everything
 *     below it;
 *   - a level-j slot whose span meets [s, e): the child array is punched with the same range made relative to the
 *     child ([max(s - lo, 0), e - lo), lo = first block of the slot), written back, and the slot is cleared and the
 *     child block released iff the child array is all zero afterwards.
 *
 * Everything is stated POINTWISE for one ghost path (no quantifiers): c09_K[j] is the slot index the ghost logical
 * block selects in its level-j array.  A file-relative logical block L in tree T (T = 0 direct, 1 ind, 2 dind, 3 tind)
 * has c09_K[T] = (L - base_T) >> (8*T) and c09_K[j] = ((L - base_T) >> (8*j)) & 255 for j < T.
 */
#ifndef C09_IND_SPEC_H
#define C09_IND_SPEC_H

#define C09_NDIR	12u
#define C09_ABITS	8		/* log2(addresses per 1 KiB block) */
#define C09_APB		256u

typedef unsigned long long c09_u64;

/* first logical block (relative to the array) of slot k of a level-j array, and one past its last */
#define C09_LO(j, k)	((c09_u64)(k) << (C09_ABITS * (j)))
#define C09_HI(j, k)	(C09_LO(j, k) + ((c09_u64)1 << (C09_ABITS * (j))))
/* slot k of a level-j array holding v0 is affected by punching [s, e) */
#define C09_HIT(j, k, v0, s, e)	((v0) != 0 && C09_LO(j, k) < (e) && C09_HI(j, k) > (s))
/* the range relative to the child array of slot k */
#define C09_S2(j, k, s)	((s) > C09_LO(j, k) ? (s) - C09_LO(j, k) : (c09_u64)0)
#define C09_E2(j, k, e)	((e) - C09_LO(j, k))

/* base of tree T in file-relative logical blocks: 0, 12, 12+256, 12+256+65536 */
#define C09_BASE(T)	((T) == 0 ? (c09_u64)0 : (T) == 1 ? (c09_u64)C09_NDIR : (T) == 2 ? (c09_u64)C09_NDIR + C09_APB : \
			 (c09_u64)C09_NDIR + C09_APB + C09_APB * C09_APB)
/* number of logical blocks of tree T: 12, 256, 256^2, 256^3 */
#define C09_SIZE(T)	((T) == 0 ? (c09_u64)C09_NDIR : (c09_u64)1 << (C09_ABITS * (T)))

/* a 1 KiB block seen as 256 words is all zero (independent of check_zero_block).  A loop-free expression: it is
 * evaluated inside contracts, where a helper with local variables would violate the (empty) frame. */
#define C09_Z4(w, i)	((w)[(i)] == 0 && (w)[(i) + 1] == 0 && (w)[(i) + 2] == 0 && (w)[(i) + 3] == 0)
#define C09_Z16(w, i)	(C09_Z4(w, i) && C09_Z4(w, (i) + 4) && C09_Z4(w, (i) + 8) && C09_Z4(w, (i) + 12))
#define C09_Z64(w, i)	(C09_Z16(w, i) && C09_Z16(w, (i) + 16) && C09_Z16(w, (i) + 32) && C09_Z16(w, (i) + 48))
#define C09_Z256(w)	(C09_Z64(w, 0) && C09_Z64(w, 64) && C09_Z64(w, 128) && C09_Z64(w, 192))
static int c09_all_zero_1k(const void *buf)
{
	return C09_Z256((const unsigned int *)buf);
}
#endif
