/*
 * c16_ba_memops.h — pointwise models of libc memset / memcpy / realloc for the verifier (trusted libc semantics,
 * C11 7.24.6.1, 7.24.2.1, 7.22.3.5).  CBMC's built-in array models are exact but make the formula explode when
 * both the length and the (freshly allocated) object size are symbolic; these models havoc the destination range
 * and then state the libc postcondition for ONE ghost byte of the destination:
 *     the byte at OBJECT OFFSET verif_g3 of the object the destination points into.
 * Everything outside dst[0..n) is untouched (only the slice is havocked).  Both regions must be valid (asserted),
 * memcpy regions must not overlap (asserted).
 * An 8-byte memcpy is done exactly, as one pointer-typed assignment: ext2fs_get_mem / ext2fs_free_mem /
 * ext2fs_resize_mem move POINTERS with memcpy(ptr, &pp, sizeof(pp)), which must keep their provenance.
 * realloc: new block, the ghost byte is preserved if it lies below min(old size, new size), the old block is freed;
 * may fail (returns NULL, old block untouched) exactly when malloc may.
 * Vanishes in native replays (real libc is used there).
 */
#ifndef C16_BA_MEMOPS_H
#define C16_BA_MEMOPS_H
#ifndef VERIF_NATIVE
#include <stddef.h>
#include <stdlib.h>
extern unsigned long long verif_g3;	/* ghost: object offset of one arbitrary destination byte (chosen by the harness) */
#define C16_MEMOPS_OFF(p) ((unsigned long long)__CPROVER_POINTER_OFFSET(p))

void *memset(void *s, int c, size_t n)
{
	__CPROVER_assert(n == 0 || __CPROVER_w_ok(s, n), "CHECK:memset writes n bytes inside the destination object");
	if (n > 0) {
		size_t j = (size_t)(verif_g3 - C16_MEMOPS_OFF(s));
		__CPROVER_havoc_slice(s, n);
		if (j < n)
			__CPROVER_assume(((unsigned char *)s)[j] == (unsigned char)c);
	}
	return s;
}

void *memcpy(void *dst, const void *src, size_t n)
{
	__CPROVER_assert(n == 0 || (__CPROVER_w_ok(dst, n) && __CPROVER_r_ok(src, n)),
			 "CHECK:memcpy reads/writes n bytes inside the source/destination objects");
	__CPROVER_assert(n == 0 || !__CPROVER_same_object(dst, src) ||
			 C16_MEMOPS_OFF(dst) + n <= C16_MEMOPS_OFF(src) || C16_MEMOPS_OFF(src) + n <= C16_MEMOPS_OFF(dst),
			 "CHECK:memcpy regions do not overlap");
	if (n == sizeof(void *)) {
		*(void **)dst = *(void *const *)src;	/* exact: keeps pointer provenance */
	} else if (n > 0) {
		size_t j = (size_t)(verif_g3 - C16_MEMOPS_OFF(dst));
		unsigned char v = (j < n) ? ((const unsigned char *)src)[j] : 0;
		__CPROVER_havoc_slice(dst, n);
		if (j < n)
			__CPROVER_assume(((unsigned char *)dst)[j] == v);
	}
	return dst;
}

void *realloc(void *ptr, size_t size)
{
	if (ptr == 0)
		return malloc(size);
	__CPROVER_assert(C16_MEMOPS_OFF(ptr) == 0 && __CPROVER_DYNAMIC_OBJECT(ptr), "CHECK:realloc of a heap block");
	size_t old = __CPROVER_OBJECT_SIZE(ptr);
	unsigned char *res = malloc(size);
	if (res == 0)
		return 0;
	if (verif_g3 < old && verif_g3 < size)
		__CPROVER_assume(res[verif_g3] == ((const unsigned char *)ptr)[verif_g3]);
	free(ptr);
	return res;
}
#endif
#endif
