/*
 * c16_memcmp_model.h — pointwise model of libc memcmp for the verifier (trusted libc semantics, C11 7.24.4.1):
 *   result == 0  =>  a[j] == b[j] for every j < n          (stated for the ONE ghost byte address verif_p1 on the a side)
 *   result != 0  =>  there is a w < n with a[w] != b[w]    (witness chosen by the verifier)
 * plus: both regions must be readable.  The sign of a non-zero result is left arbitrary (no caller here uses it).
 * Used instead of CBMC's built-in byte loop, which needs unwinding up to n.  Vanishes in native replays.
 */
#ifndef C16_MEMCMP_MODEL_H
#define C16_MEMCMP_MODEL_H
#ifndef VERIF_NATIVE
#include <stddef.h>
extern const unsigned char *verif_p1;	/* ghost: address of one arbitrary byte */
int memcmp(const void *a, const void *b, size_t n)
{
	const unsigned char *pa = (const unsigned char *)a, *pb = (const unsigned char *)b;
	int r;		/* uninitialised local = arbitrary value for the verifier */
	size_t w;
	__CPROVER_assert(n == 0 || (__CPROVER_r_ok(pa, n) && __CPROVER_r_ok(pb, n)), "CHECK:memcmp reads n bytes of both regions");
	if (r == 0) {
		if (__CPROVER_same_object(verif_p1, pa) && verif_p1 >= pa && verif_p1 < pa + n)
			__CPROVER_assume(*verif_p1 == pb[verif_p1 - pa]);
	} else {
		__CPROVER_assume(w < n);
		__CPROVER_assume(pa[w] != pb[w]);
	}
	return r;
}
#endif
#endif
