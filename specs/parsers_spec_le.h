/*
 * parsers_spec_le.h — little/big-endian field decoding straight from bytes, used by the
 * "parsers" units as the independent reading of on-disk structures (no struct overlays,
 * no repository macros).
 */
#ifndef PARSERS_SPEC_LE_H
#define PARSERS_SPEC_LE_H
#define PSPEC_LE16(b, off) ((unsigned int)((const unsigned char *)(b))[(off)] | \
			    ((unsigned int)((const unsigned char *)(b))[(off) + 1] << 8))
#define PSPEC_LE32(b, off) ((unsigned int)((const unsigned char *)(b))[(off)] | \
			    ((unsigned int)((const unsigned char *)(b))[(off) + 1] << 8) | \
			    ((unsigned int)((const unsigned char *)(b))[(off) + 2] << 16) | \
			    ((unsigned int)((const unsigned char *)(b))[(off) + 3] << 24))
#define PSPEC_BE16(b, off) ((unsigned int)((const unsigned char *)(b))[(off) + 1] | \
			    ((unsigned int)((const unsigned char *)(b))[(off)] << 8))
#define PSPEC_BE32(b, off) ((unsigned int)((const unsigned char *)(b))[(off) + 3] | \
			    ((unsigned int)((const unsigned char *)(b))[(off) + 2] << 8) | \
			    ((unsigned int)((const unsigned char *)(b))[(off) + 1] << 16) | \
			    ((unsigned int)((const unsigned char *)(b))[(off)] << 24))
#define PSPEC_BE64(b, off) (((unsigned long long)PSPEC_BE32(b, off) << 32) | PSPEC_BE32(b, (off) + 4))
#endif
