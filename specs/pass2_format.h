/*
 * pass2_format.h — INDEPENDENT local format predicates for one linear directory entry, used by the
 * pass-2 checker units (proofs/pass2/).  Written from the ext4 on-disk format
 * (Documentation/filesystems/ext4/directory.rst, "Linear (Classic) Directories") and from the kernel's
 * view of '.'/'..' (fs/ext4/namei.c: ext4_init_dot_dotdot, ext4_check_dir_entry) — NOT from e2fsck:
 *
 *   off+0  __le32 inode      0 = unused entry
 *   off+4  __le16 rec_len    distance to the next entry; >= 8 + name_len rounded up to 4; multiple of 4
 *   off+6  __u8   name_len
 *   off+7  __u8   file_type  with INCOMPAT_FILETYPE: 0 Unknown, 1 regular, 2 directory, 3 char dev,
 *                            4 block dev, 5 FIFO, 6 socket, 7 symlink.
 *                            without the feature the byte is the HIGH byte of a 16-bit name_len and must be 0
 *                            (names are at most 255 bytes)
 *   off+8  name[name_len]    no '/' and no NUL inside a name (a name is a path component)
 *
 *   first entry of block 0 of a directory:  '.'  -> inode == the directory's own inode, name_len 1, name "."
 *   second entry:                           '..' -> inode != 0 (the parent), name_len 2, name ".."
 *
 * Two strengths are distinguished on purpose:
 *   *_FORMAT_OK  what the on-disk format demands.  An entry VIOLATING it is inconsistent; the checker must
 *                raise a problem for it that counts for the exit status (C02).
 *   *_HEALTHY    FORMAT_OK plus the conventions every writer (kernel, mke2fs, libext2fs) follows and that e2fsck
 *                documents as expected: '.' has rec_len exactly 12 (ext4_init_dot_dotdot, ext2fs_new_dir_block: no
 *                slack in which stale entries could hide), the byte after "."/".." is NUL (both writers strcpy the
 *                name), file_type is the exact type of the inode (not "Unknown").
 *                A HEALTHY entry must not be touched nor reported (C05).
 * Entries that are FORMAT_OK but not HEALTHY are the (documented) grey zone: e2fsck may normalise them.
 *
 * The verification host is little-endian, as is the in-memory form of a directory block inside e2fsck.
 */
#ifndef PASS2_FORMAT_H
#define PASS2_FORMAT_H

#define P2F_INO(b, o)  ((unsigned)(b)[(o)] | ((unsigned)(b)[(o) + 1] << 8) | ((unsigned)(b)[(o) + 2] << 16) | ((unsigned)(b)[(o) + 3] << 24))
#define P2F_REC(b, o)  ((unsigned)(b)[(o) + 4] | ((unsigned)(b)[(o) + 5] << 8))
#define P2F_NL(b, o)   ((unsigned)(b)[(o) + 6])
#define P2F_FT(b, o)   ((unsigned)(b)[(o) + 7])
#define P2F_NAME(b, o, i) ((b)[(o) + 8 + (i)])
/* smallest legal rec_len of an entry with an n-byte name */
#define P2F_NEED(n) ((8u + (unsigned)(n) + 3u) & ~3u)

/* INCOMPAT_FILETYPE, from the superblock format (s_feature_incompat bit 1) */
#define P2F_INCOMPAT_FILETYPE 0x0002u

/* rec_len of a '.'/'..' slot: room for the 8-byte header + up to 4 name bytes, 4-aligned */
#define P2F_REC_OK12(b, o) (P2F_REC(b, o) >= 12u && (P2F_REC(b, o) & 3u) == 0)

#define P2F_DOT_FORMAT_OK(b, o, dir_ino) \
	(P2F_INO(b, o) == (dir_ino) && P2F_NL(b, o) == 1u && P2F_NAME(b, o, 0) == '.' && P2F_REC_OK12(b, o))
#define P2F_DOT_HEALTHY(b, o, dir_ino) \
	(P2F_DOT_FORMAT_OK(b, o, dir_ino) && P2F_NAME(b, o, 1) == 0 && P2F_REC(b, o) == 12u)

#define P2F_DOTDOT_FORMAT_OK(b, o) \
	(P2F_INO(b, o) != 0 && P2F_NL(b, o) == 2u && P2F_NAME(b, o, 0) == '.' && P2F_NAME(b, o, 1) == '.' && \
	 P2F_REC_OK12(b, o))
#define P2F_DOTDOT_HEALTHY(b, o) \
	(P2F_DOTDOT_FORMAT_OK(b, o) && P2F_NAME(b, o, 2) == 0)

/* a character that may not occur inside a name */
#define P2F_BAD_CHAR(c) ((c) == '/' || (c) == 0)

/* the name of the entry at o is a legal path component (loop over the 8-bit name_len; the caller unwinds 256) */
static inline int p2f_name_ok(const unsigned char *b, unsigned o)
{
	unsigned i, n = P2F_NL(b, o);

	for (i = 0; i < n; i++)
		if (P2F_BAD_CHAR(P2F_NAME(b, o, i)))
			return 0;
	return 1;
}

/* Encrypted directories (fscrypt): an encrypted file name is ciphertext padded to at least one cipher block,
 * FS_CRYPTO_BLOCK_SIZE = 16 bytes (fscrypt_fname_encrypted_size(): max(len, FS_CRYPTO_BLOCK_SIZE) rounded to the
 * padding policy) */
#define P2F_ENCRYPTED_NAME_MIN 16u
#define P2F_ENCRYPTED_NAME_OK(b, o) (P2F_NL(b, o) >= P2F_ENCRYPTED_NAME_MIN)

/* file type code of an i_mode (S_IFMT values of the inode format: 0x1000 FIFO, 0x2000 CHR, 0x4000 DIR,
 * 0x6000 BLK, 0x8000 REG, 0xA000 LNK, 0xC000 SOCK); anything else has no type code (0 = Unknown) */
static inline unsigned p2f_type_of_mode(unsigned mode)
{
	switch (mode & 0xF000u) {
	case 0x8000u: return 1;
	case 0x4000u: return 2;
	case 0x2000u: return 3;
	case 0x6000u: return 4;
	case 0x1000u: return 5;
	case 0xC000u: return 6;
	case 0xA000u: return 7;
	default:      return 0;
	}
}

/* file_type byte of the entry at o against the feature flag and the mode of the inode it names */
#define P2F_FT_FORMAT_OK(b, o, incompat, mode) \
	(((incompat) & P2F_INCOMPAT_FILETYPE) ? \
	 (P2F_FT(b, o) == 0 || P2F_FT(b, o) == p2f_type_of_mode(mode)) : P2F_FT(b, o) == 0)
#define P2F_FT_HEALTHY(b, o, incompat, mode) \
	(((incompat) & P2F_INCOMPAT_FILETYPE) ? P2F_FT(b, o) == p2f_type_of_mode(mode) : P2F_FT(b, o) == 0)

#endif
