/*
 * parsers_spec_xattr.h — the xattr entry/block hash, transcribed from the kernel's definition
 * (fs/ext4/xattr.c: ext4_xattr_hash_entry, ext4_xattr_hash_entry_signed, ext4_xattr_rehash):
 *     name phase : hash = rol32(hash, 5)  ^ (unsigned char | signed char) name[i]      i = 0 .. name_len-1
 *     value phase: hash = rol32(hash, 16) ^ le32(value word j)                          j = 0 .. ceil(size/4)-1
 *                  (skipped when the value lives in an EA inode or is empty; for an EA-inode entry the
 *                   EA inode's own hash is folded in as ONE value word instead)
 *     block hash : rol32(hash, 16) ^ e_hash over the entries, 0 as soon as one entry hash is 0.
 * Step macros only (usable inside loop invariants and ghost statements).
 */
#ifndef PARSERS_SPEC_XATTR_H
#define PARSERS_SPEC_XATTR_H
#define PSPEC_ROL32(x, r) ((((unsigned int)(x)) << (r)) | (((unsigned int)(x)) >> (32 - (r))))
#define PSPEC_XATTR_NAME_STEP_U(h, byte) (PSPEC_ROL32(h, 5) ^ (unsigned int)(unsigned char)(byte))
/* the legacy "signed char" variant sign-extends the byte to 32 bits before the xor */
#define PSPEC_XATTR_NAME_STEP_S(h, byte) (PSPEC_ROL32(h, 5) ^ (((byte) & 0x80) ? (0xFFFFFF00u | (unsigned int)(unsigned char)(byte)) \
									       : (unsigned int)(unsigned char)(byte)))
#define PSPEC_XATTR_VALUE_STEP(h, word) (PSPEC_ROL32(h, 16) ^ (unsigned int)(word))
#define PSPEC_XATTR_LE32_AT(p, off) ((unsigned int)((const unsigned char *)(p))[(off)] | \
				     ((unsigned int)((const unsigned char *)(p))[(off) + 1] << 8) | \
				     ((unsigned int)((const unsigned char *)(p))[(off) + 2] << 16) | \
				     ((unsigned int)((const unsigned char *)(p))[(off) + 3] << 24))
#define PSPEC_XATTR_NWORDS(size) (((unsigned int)(size) + 3u) >> 2)
#endif
