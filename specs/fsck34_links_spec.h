/*
 * fsck34_links_spec.h — what i_links_count of an in-use inode has to be, read from the ext4 on-disk format and the
 * kernel's link accounting (fs/ext4/namei.c), independently of e2fsck/pass4.c.
 *
 *   - i_links_count is the number of directory entries that name the inode ("hard link count"); a directory is named
 *     by its entry in the parent, by its own "." and by the ".." of every subdirectory.
 *   - EXT4_LINK_MAX is 65000.  With RO_COMPAT_DIR_NLINK a directory may have more than 64998 subdirectories; its
 *     i_links_count is then 1 ("Directory has >65000 subdirs; i_links_count is set to 1", ext4 disk layout, feature
 *     dir_nlink).
 *   - kernel: ext4_inc_count() sets i_nlink of an indexed (dx) directory to 1 when it would exceed EXT4_LINK_MAX, and
 *     ext4_dec_count() never decrements a directory's i_nlink below 2 nor away from 1: an indexed directory whose
 *     i_links_count is 1 stays at 1 however many subdirectories are removed again.  So for an indexed directory the
 *     value 1 is legal with any number (> 1) of references ("nlink 1 = unknown").
 *   - an inode that no directory entry (and no xattr, for EA inodes) references is not reachable: orphan.
 *
 * All macros (no function calls: usable in loop invariants).
 */
#ifndef FSCK34_LINKS_SPEC_H
#define FSCK34_LINKS_SPEC_H

#define FSCK34_LINK_MAX 65000u

/* the value a consistent filesystem stores for an inode with `counted` references */
#define FSCK34_EXPECTED_LINKS(counted, isdir) \
	(((isdir) && (unsigned) (counted) > FSCK34_LINK_MAX) ? 1u : (unsigned) (counted))

/* a recorded value that is consistent with `counted` references */
#define FSCK34_LINKS_LEGAL(recorded, counted, isdir, indexed) \
	((unsigned) (recorded) == FSCK34_EXPECTED_LINKS(counted, isdir) || \
	 ((isdir) && (indexed) && (unsigned) (recorded) == 1u && (unsigned) (counted) > 1u))

/*
 * Inodes that are in use without being named by any directory entry (hidden / reserved inodes), ext4 disk layout
 * "Special inodes": 1 bad blocks, 3/4 user/group quota, 5 boot loader, 6 undelete, 7 resize, 8 journal, 9 exclude,
 * 10 replica, i.e. every number below s_first_ino except the root (2); plus the project-quota inode
 * (s_prj_quota_inum) and the orphan file (s_orphan_file_inum), which live at ordinary inode numbers.
 */
#define FSCK34_HIDDEN_INODE(ino, first_ino, prj_quota_inum, orphan_file_inum) \
	((ino) == 1u || ((ino) > 2u && (ino) < (first_ino)) || (ino) == (prj_quota_inum) || (ino) == (orphan_file_inum))

#endif
