/*
 * xattr2_ea_inode_spec.h — the on-disk conventions of "EA inodes" (inodes that hold one extended-attribute value,
 * feature ea_inode) and of the i_blocks accounting of the inode that OWNS the attribute, transcribed from the
 * kernel (fs/ext4/xattr.c, fs/quota/dquot.c, include/linux/quotaops.h) independently of lib/ext2fs/ext_attr.c.
 *
 *   reference count  ext4_xattr_inode_get_ref():  ((u64) inode_get_ctime_sec(ea_inode) << 32) |
 *                                                 (u32) inode_peek_iversion_raw(ea_inode)
 *                    on disk: i_ctime (seconds) and the low 32 bits of i_version = osd1.linux1.l_i_version
 *   value hash       ext4_xattr_inode_get_hash(): (u32) inode_get_atime_sec(ea_inode)          on disk: i_atime
 *                    ext4_xattr_inode_hash():     ext4_chksum(sbi, sbi->s_csum_seed, buffer, size)
 *                                                 = crc32c seeded with s_csum_seed over the value bytes
 *   creation         ext4_xattr_inode_create():   ext4_new_inode(.., S_IFREG | 0600, .., EXT4_EA_INODE_FL),
 *                                                 ext4_xattr_inode_set_ref(ea_inode, 1), ..set_hash(ea_inode, hash);
 *                    ext4_xattr_inode_write():    i_size_write(ea_inode, wsize) with wsize = the value length
 *   lookup           ext4_xattr_inode_iget() / ext4_iget(EXT4_IGET_EA_INODE): the inode must carry EXT4_EA_INODE_FL;
 *                    ext4_xattr_inode_get(): i_size_read(ea_inode) != size  =>  -EFSCORRUPTED
 *   release          ext4_xattr_inode_update_ref(): ref_count += ref_change; when it reaches 0: clear_nlink(),
 *                    ext4_orphan_add()  (the inode and its blocks are freed by the final iput, once)
 *   value size limit VFS: XATTR_SIZE_MAX = 65536 (include/uapi/linux/limits.h); lib/ext2fs reads at most 64 KiB
 *
 *   i_blocks of the OWNER (not of the EA inode, whose own blocks are counted in its own i_blocks):
 *                    ext4_xattr_inode_alloc_quota(inode, len): dquot_alloc_space_nodirty(inode,
 *                    round_up_cluster(inode, len))  ->  __dquot_alloc_space() -> inode_add_bytes(inode, number)
 *                    (also when quota is off or not compiled in), and ext4_xattr_inode_free_quota() gives the same
 *                    amount back (dquot_free_space_nodirty -> inode_sub_bytes) when the attribute is replaced or
 *                    removed.  round_up_cluster(): (len + cluster_size - 1) & ~(cluster_size - 1) bytes.
 *                    i_blocks is in 512-byte sectors (unless HUGE_FILE_FL).
 *                    e2fsck/pass1.c follows the kernel: check_large_ea_inode() -> size_to_quota_blocks(e_value_size)
 *                    is added to pb.num_blocks of the owner (ea_ibody_quota / ea_block_quota).
 *
 * Macros only.
 */
#ifndef XATTR2_EA_INODE_SPEC_H
#define XATTR2_EA_INODE_SPEC_H
#define X2SPEC_EA_INODE_FL 0x00200000u			/* EXT4_EA_INODE_FL */
#define X2SPEC_EXTENTS_FL 0x00080000u			/* EXT4_EXTENTS_FL */
#define X2SPEC_INLINE_DATA_FL 0x10000000u		/* EXT4_INLINE_DATA_FL */
#define X2SPEC_S_IFREG_0600 (0100000 | 0600)
#define X2SPEC_VALUE_MAX 65536ull			/* XATTR_SIZE_MAX */
/* ip: struct ext2_inode * */
#define X2SPEC_EA_INODE_REF(ip) ((((unsigned long long)(ip)->i_ctime) << 32) | (unsigned long long)(ip)->osd1.linux1.l_i_version)
#define X2SPEC_EA_INODE_HASH(ip) ((ip)->i_atime)
/* blocks of the owner's i_blocks one EA-inode value of 'len' bytes is charged with (fs blocks; cluster = blocksize << ratio_bits) */
#define X2SPEC_CHARGE_CLUSTERS(len, blocksize, ratio_bits) \
	((((unsigned long long)(len)) + (((unsigned long long)(blocksize)) << (ratio_bits)) - 1ull) / (((unsigned long long)(blocksize)) << (ratio_bits)))
#define X2SPEC_CHARGE_BLOCKS(len, blocksize, ratio_bits) (X2SPEC_CHARGE_CLUSTERS(len, blocksize, ratio_bits) << (ratio_bits))
/* ... in 512-byte sectors */
#define X2SPEC_CHARGE_SECTORS(len, blocksize, ratio_bits) (X2SPEC_CHARGE_BLOCKS(len, blocksize, ratio_bits) * (((unsigned long long)(blocksize)) / 512ull))
#endif
