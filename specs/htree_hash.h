/*
 * htree_hash.h — the ext4 directory-name hash, transcribed from the KERNEL definition
 * (linux/fs/ext4/hash.c), independently of lib/ext2fs/dirhash.c.  Used as the specification of
 * ext2fs_dirhash / ext2fs_dirhash2 ("the name hash used for index placement must equal the kernel's", C10).
 *
 * Kernel functions transcribed, and the shape chosen here (deliberately not the shape of dirhash.c):
 *   TEA_transform()              -> hh_tea()          16 Feistel double-rounds, Davies-Meyer feed-forward
 *   half_md4_transform()         -> hh_md4()          table driven (message index / rotation tables in the
 *                                                     RFC 1320 style, RFC forms of F and G, constants in hex)
 *   dx_hack_hash_signed/unsigned -> hh_legacy()
 *   str2hashbuf_signed/unsigned  -> hh_word()         closed form of ONE output word (no running cursor)
 *   __ext4fs_dirhash()           -> hh_dirhash()      seed default, version switch, chunk loop, "& ~1",
 *                                                     and the EOF clamp (hh_eof_clamp)
 *   ext4fs_dirhash()             -> described in the unit (casefold wrapper)
 *
 * Hash versions (kernel DX_HASH_*, on-disk values of dx_root_info.hash_version / s_def_hash_version):
 *   0 LEGACY  1 HALF_MD4  2 TEA  3 LEGACY_UNSIGNED  4 HALF_MD4_UNSIGNED  5 TEA_UNSIGNED   (6 SIPHASH: not in libext2fs)
 */
#ifndef HTREE_HASH_H
#define HTREE_HASH_H

typedef unsigned int hh_u32;

#define HH_LEGACY		0
#define HH_HALF_MD4		1
#define HH_TEA			2
#define HH_LEGACY_UNSIGNED	3
#define HH_HALF_MD4_UNSIGNED	4
#define HH_TEA_UNSIGNED		5

/* kernel: EXT4_HTREE_EOF_32BIT ((1UL << (32 - 1)) - 1) */
#define HH_EOF_32BIT 0x7fffffffu

struct hh_state { hh_u32 b[4]; };

/* kernel rol32() */
static inline hh_u32 hh_rol32(hh_u32 w, unsigned s)
{
	return (w << s) | (w >> (32u - s));
}

/*
 * The transforms are given as statement macros (HH_*_RUN) and used twice each: in a state-to-state function (hh_tea,
 * hh_md4, hh_word — composed by hh_step / hh_dirhash) and in a SINGLE-LEVEL value function / pure expression (hh_tea_word,
 * hh_md4_word, HH_WORD) for contract clauses
 * (the contract instrumentation does not support function calls nested inside a function called from a clause).
 */

/*
 * kernel TEA_transform(buf, in): keyed with in[0..3], block (buf[0], buf[1]);  sum += 0x9E3779B9 each round,
 *   b0 += ((b1 << 4) + a) ^ (b1 + sum) ^ ((b1 >> 5) + b);   b1 += ((b0 << 4) + c) ^ (b0 + sum) ^ ((b0 >> 5) + d)
 * 16 times, then buf[0] += b0, buf[1] += b1;  buf[2], buf[3] untouched.
 */
#define HH_TEA_RUN(y, z, k) do { \
		hh_u32 sum_ = 0; \
		for (int r_ = 0; r_ < 16; r_++) { \
			sum_ += 0x9E3779B9u; \
			(y) += (((z) << 4) + (k)[0]) ^ ((z) + sum_) ^ (((z) >> 5) + (k)[1]); \
			(z) += (((y) << 4) + (k)[2]) ^ ((y) + sum_) ^ (((y) >> 5) + (k)[3]); \
		} \
	} while (0)

/* word i (0 or 1) of buf after the kernel's TEA_transform of (o0, o1, ., .) under key k — single-level, for contract clauses */
static inline hh_u32 hh_tea_word(hh_u32 o0, hh_u32 o1, const hh_u32 *k, int i)
{
	hh_u32 y = o0, z = o1;
	HH_TEA_RUN(y, z, k);
	return i == 0 ? o0 + y : o1 + z;
}

/*
 * HH_TEA_WORD / HH_MD4_WORD: the compression functions as used by the composed specification (hh_step, hh_dirhash).
 * A unit that proves the composition for an ARBITRARY compression function (parametric proof: the real helper is replaced
 * by a contract naming the same function symbol) defines them as uninterpreted functions before including this header.
 */
#ifndef HH_TEA_WORD
#define HH_TEA_WORD(o0, o1, k, i) hh_tea_word(o0, o1, k, i)
#endif
#ifndef HH_MD4_WORD
#define HH_MD4_WORD(o0, o1, o2, o3, in, i) hh_md4_word(o0, o1, o2, o3, in, i)
#endif

static inline struct hh_state hh_tea(struct hh_state s, const hh_u32 k[4])
{
	hh_u32 o0 = s.b[0], o1 = s.b[1];
	s.b[0] = HH_TEA_WORD(o0, o1, k, 0);
	s.b[1] = HH_TEA_WORD(o0, o1, k, 1);
	return s;
}

/*
 * kernel half_md4_transform(buf, in): three rounds of eight steps.  Step j of round r works on the register that
 * plays "a" in the rotating assignment (a,b,c,d), (d,a,b,c), (c,d,a,b), (b,c,d,a):
 *     a = rol32(a + f_r(b, c, d) + in[idx_r[j]] + K_r, rot_r[j % 4])
 *   round 1: F (selection),  K = 0,           in[0..7] in order,          rotations 3 7 11 19
 *   round 2: G (majority),   K = 0x5A827999,  in[1 3 5 7 0 2 4 6],        rotations 3 5 9 13
 *   round 3: H (parity),     K = 0x6ED9EBA1,  in[3 7 2 6 1 5 0 4],        rotations 3 9 11 15
 * then buf[i] += register i.  F and G in their RFC 1320 forms.
 */
#define HH_MD4_F(r, x, y, z) \
	((r) == 0 ? (((x) & (y)) | (~(x) & (z))) : (r) == 1 ? (((x) & (y)) | ((x) & (z)) | ((y) & (z))) : ((x) ^ (y) ^ (z)))
#define HH_ROL32(w, s) (((w) << (s)) | ((w) >> (32u - (s))))
/* automatic (not static) tables: the contract instrumentation havocs static objects */
#define HH_MD4_RUN(v, in) do { \
		const unsigned char idx_[3][8] = { \
			{ 0, 1, 2, 3, 4, 5, 6, 7 }, \
			{ 1, 3, 5, 7, 0, 2, 4, 6 }, \
			{ 3, 7, 2, 6, 1, 5, 0, 4 } }; \
		const unsigned char rot_[3][4] = { { 3, 7, 11, 19 }, { 3, 5, 9, 13 }, { 3, 9, 11, 15 } }; \
		const hh_u32 K_[3] = { 0u, 0x5A827999u, 0x6ED9EBA1u }; \
		for (int r_ = 0; r_ < 3; r_++) \
			for (int j_ = 0; j_ < 8; j_++) { \
				int t_ = (4 - (j_ & 3)) & 3;	/* which register plays "a" in this step */ \
				hh_u32 a_ = (v)[t_], b_ = (v)[(t_ + 1) & 3], c_ = (v)[(t_ + 2) & 3], d_ = (v)[(t_ + 3) & 3]; \
				a_ += HH_MD4_F(r_, b_, c_, d_) + ((in)[idx_[r_][j_]] + K_[r_]); \
				(v)[t_] = HH_ROL32(a_, (unsigned)rot_[r_][j_ & 3]); \
			} \
	} while (0)

/* word i (0..3) of buf after the kernel's half_md4_transform of (o0..o3) with message in[0..7] — single-level, for contract clauses */
static inline hh_u32 hh_md4_word(hh_u32 o0, hh_u32 o1, hh_u32 o2, hh_u32 o3, const hh_u32 *in, int i)
{
	hh_u32 v[4];
	v[0] = o0; v[1] = o1; v[2] = o2; v[3] = o3;
	HH_MD4_RUN(v, in);
	return i == 0 ? o0 + v[0] : i == 1 ? o1 + v[1] : i == 2 ? o2 + v[2] : o3 + v[3];
}

static inline struct hh_state hh_md4(struct hh_state s, const hh_u32 in[8])
{
	hh_u32 o0 = s.b[0], o1 = s.b[1], o2 = s.b[2], o3 = s.b[3];
	s.b[0] = HH_MD4_WORD(o0, o1, o2, o3, in, 0);
	s.b[1] = HH_MD4_WORD(o0, o1, o2, o3, in, 1);
	s.b[2] = HH_MD4_WORD(o0, o1, o2, o3, in, 2);
	s.b[3] = HH_MD4_WORD(o0, o1, o2, o3, in, 3);
	return s;
}

/* one name byte as the kernel reads it: `(int) *ucp` resp. `(int) *scp` — value of the byte as unsigned / signed char */
#define HH_CHAR(name, i, unsigned_variant) \
	((unsigned_variant) ? (int)((const unsigned char *)(name))[i] : (int)((const signed char *)(name))[i])

/*
 * kernel dx_hack_hash_signed / dx_hack_hash_unsigned:
 *   hash0 = 0x12a3fe2d, hash1 = 0x37abe8f9;  per byte: hash = hash1 + (hash0 ^ (c * 7152373));
 *   if (hash & 0x80000000) hash -= 0x7fffffff;  hash1 = hash0; hash0 = hash;     result hash0 << 1
 * (the multiplication is an `int` product in the kernel, built with -fwrapv/-fno-strict-overflow; |c| <= 255 so it
 * never overflows anyway).
 */
#define HH_LEGACY_H0 0x12a3fe2du
#define HH_LEGACY_H1 0x37abe8f9u
#define HH_LEGACY_MIX(h0, h1, c) ((hh_u32)(h1) + ((hh_u32)(h0) ^ (hh_u32)((c) * 7152373)))
/* one byte c: (h0, h1) := (fold(mix), h0) — a statement, h0 and h1 are lvalues */
#define HH_LEGACY_STEP(h0, h1, c) do { \
		hh_u32 h_ = HH_LEGACY_MIX(h0, h1, c); \
		if (h_ & 0x80000000u) \
			h_ -= 0x7fffffffu; \
		(h1) = (h0); \
		(h0) = h_; \
	} while (0)
static inline hh_u32 hh_legacy(const unsigned char *name, int len, int unsigned_variant)
{
	hh_u32 h0 = HH_LEGACY_H0, h1 = HH_LEGACY_H1;
	for (int i = 0; i < len; i++)
		HH_LEGACY_STEP(h0, h1, HH_CHAR(name, i, unsigned_variant));
	return h0 << 1;
}

/*
 * kernel str2hashbuf_signed / str2hashbuf_unsigned (msg, len, buf, num), closed form of output word w (0 <= w < num):
 *   pad = len | len << 8 | len << 16 | len << 24     (len as __u32: only the low byte survives in every lane
 *                                                     when len < 256; the kernel computes exactly
 *                                                     pad = (__u32)len | ((__u32)len << 8); pad |= pad << 16)
 *   the word starts as pad and takes in, in order, the bytes msg[4w .. min(4w+4, len, 4*num) - 1] by
 *        val = (int)byte + (val << 8)        (an ADDITION of the sign-extended byte: the historical signed-char
 *                                             behaviour is part of the on-disk format)
 *   words behind the end of the name are pad.
 */
#define HH_PAD(len) (((hh_u32)(len) | ((hh_u32)(len) << 8)) | (((hh_u32)(len) | ((hh_u32)(len) << 8)) << 16))
#define HH_LIM(len, num) ((len) > (num) * 4 ? (num) * 4 : (len))
/* val after taking in byte number idx of msg, if that byte belongs to the chunk */
#define HH_TAKE(val, msg, idx, len, num, uns) \
	((idx) < HH_LIM(len, num) ? (hh_u32)HH_CHAR(msg, idx, uns) + ((val) << 8) : (val))
/* output word w as a PURE EXPRESSION (usable directly in a contract clause) */
#define HH_WORD(msg, len, num, w, uns) \
	HH_TAKE(HH_TAKE(HH_TAKE(HH_TAKE(HH_PAD(len), msg, 4 * (w), len, num, uns), msg, 4 * (w) + 1, len, num, uns), \
			msg, 4 * (w) + 2, len, num, uns), msg, 4 * (w) + 3, len, num, uns)

static inline hh_u32 hh_word(const unsigned char *msg, int len, int num, int w, int unsigned_variant)
{
	return HH_WORD(msg, len, num, w, unsigned_variant);
}

/* kernel __ext4fs_dirhash(), tail: "hash = hash & ~1; if (hash == (EXT4_HTREE_EOF_32BIT << 1)) hash = (EXT4_HTREE_EOF_32BIT - 1) << 1;" */
static inline hh_u32 hh_eof_clamp(hh_u32 hash)
{
	return hash == (HH_EOF_32BIT << 1) ? (HH_EOF_32BIT - 1) << 1 : hash;
}

/* kernel __ext4fs_dirhash(), head: default seed, replaced by hinfo->seed iff that has a non-zero word */
static inline struct hh_state hh_seed(const hh_u32 *seed)
{
	struct hh_state s;
	s.b[0] = 0x67452301u; s.b[1] = 0xefcdab89u; s.b[2] = 0x98badcfeu; s.b[3] = 0x10325476u;
	if (seed && (seed[0] | seed[1] | seed[2] | seed[3])) {
		s.b[0] = seed[0]; s.b[1] = seed[1]; s.b[2] = seed[2]; s.b[3] = seed[3];
	}
	return s;
}

/* one chunk step of the kernel's `while (len > 0) { str2hashbuf(p, len, in, N); transform(buf, in); len -= 4N; p += 4N; }` */
static inline struct hh_state hh_step(struct hh_state s, int version, const unsigned char *p, int len)
{
	hh_u32 in[8];
	int uns = version >= HH_LEGACY_UNSIGNED;
	if (version == HH_HALF_MD4 || version == HH_HALF_MD4_UNSIGNED) {
		for (int w = 0; w < 8; w++)
			in[w] = HH_WORD(p, len, 8, w, uns);
		return hh_md4(s, in);
	}
	for (int w = 0; w < 4; w++)
		in[w] = HH_WORD(p, len, 4, w, uns);
	return hh_tea(s, in);
}

#ifndef HH_MAX_NAME
#define HH_MAX_NAME 255		/* ext4 name_len is an 8-bit field */
#endif

/*
 * kernel __ext4fs_dirhash(): returns 0 and the major hash (before the EOF clamp, i.e. "hash & ~1") in *major, the
 * minor hash in *minor; -1 for an unknown version (the kernel then sets hash = minor_hash = 0).
 * The value the kernel stores/looks up is hh_eof_clamp(*major).
 */
static inline int hh_dirhash(int version, const unsigned char *name, int len, const hh_u32 *seed,
			     hh_u32 *major, hh_u32 *minor)
{
	struct hh_state s = hh_seed(seed);
	hh_u32 hash, mh = 0;
	int chunk;

	switch (version) {
	case HH_LEGACY:
	case HH_LEGACY_UNSIGNED:
		hash = hh_legacy(name, len, version == HH_LEGACY_UNSIGNED);
		break;
	case HH_HALF_MD4:
	case HH_HALF_MD4_UNSIGNED:
	case HH_TEA:
	case HH_TEA_UNSIGNED:
		chunk = (version == HH_TEA || version == HH_TEA_UNSIGNED) ? 16 : 32;
		/* the kernel's own loop shape: while (len > 0) { str2hashbuf(p, len, in, N); transform(buf, in); len -= 4N; p += 4N; } */
		while (len > 0) {
			s = hh_step(s, version, name, len);
			len -= chunk;
			name += chunk;
		}
		if (chunk == 16) {
			hash = s.b[0];
			mh = s.b[1];
		} else {
			hash = s.b[1];
			mh = s.b[2];
		}
		break;
	default:
		*major = 0;
		*minor = 0;
		return -1;
	}
	*major = hash & ~1u;
	*minor = mh;
	return 0;
}

#endif
