/*
 * htree_hash.h — the ext4 directory-name hash, transcribed from the KERNEL definition
 * (linux/fs/ext4/hash.c), independently of lib/ext2fs/dirhash.c.  Used as the specification of
 * ext2fs_dirhash / ext2fs_dirhash2 ("the name hash used for index placement must equal the kernel's", C10).
 *
 * Kernel functions transcribed, and the shape chosen here (deliberately not the shape of dirhash.c):
 *   TEA_transform()              -> hh_tea()          16 Feistel double-rounds, Davies-Meyer feed-forward
 *   half_md4_transform()         -> hh_md4()          table driven (message index / rotation tables in the
 *                                                     RFC 1320 style, RFC forms of F and G, constants in hex)
 *   dx_hack_hash_signed/unsigned -> hh_legacy()
 *   str2hashbuf_signed/unsigned  -> hh_word()         closed form of ONE output word (no running cursor)
 *   __ext4fs_dirhash()           -> hh_dirhash()      seed default, version switch, chunk loop, "& ~1",
 *                                                     and the EOF clamp (hh_eof_clamp)
 *   ext4fs_dirhash()             -> described in the unit (casefold wrapper)
 *
 * Hash versions (kernel DX_HASH_*, on-disk values of dx_root_info.hash_version / s_def_hash_version):
 *   0 LEGACY  1 HALF_MD4  2 TEA  3 LEGACY_UNSIGNED  4 HALF_MD4_UNSIGNED  5 TEA_UNSIGNED   (6 SIPHASH: not in libext2fs)
 */
#ifndef HTREE_HASH_H
#define HTREE_HASH_H

typedef unsigned int hh_u32;

#define HH_LEGACY		0
#define HH_HALF_MD4		1
#define HH_TEA			2
#define HH_LEGACY_UNSIGNED	3
#define HH_HALF_MD4_UNSIGNED	4
#define HH_TEA_UNSIGNED		5

/* kernel: EXT4_HTREE_EOF_32BIT ((1UL << (32 - 1)) - 1) */
#define HH_EOF_32BIT 0x7fffffffu

struct hh_state { hh_u32 b[4]; };

/* kernel rol32() */
static inline hh_u32 hh_rol32(hh_u32 w, unsigned s)
{
	return (w << s) | (w >> (32u - s));
}

/*
 * kernel TEA_transform(buf, in): keyed with in[0..3], block (buf[0], buf[1]);  sum += 0x9E3779B9 each round,
 *   b0 += ((b1 << 4) + a) ^ (b1 + sum) ^ ((b1 >> 5) + b);   b1 += ((b0 << 4) + c) ^ (b0 + sum) ^ ((b0 >> 5) + d)
 * 16 times, then buf[0] += b0, buf[1] += b1;  buf[2], buf[3] untouched.
 */
static inline struct hh_state hh_tea(struct hh_state s, const hh_u32 k[4])
{
	hh_u32 y = s.b[0], z = s.b[1], sum = 0;
	for (int r = 0; r < 16; r++) {
		sum += 0x9E3779B9u;
		y += ((z << 4) + k[0]) ^ (z + sum) ^ ((z >> 5) + k[1]);
		z += ((y << 4) + k[2]) ^ (y + sum) ^ ((y >> 5) + k[3]);
	}
	s.b[0] += y;
	s.b[1] += z;
	return s;
}

/*
 * kernel half_md4_transform(buf, in): three rounds of eight steps.  Step j of round r works on the register that
 * plays "a" in the rotating assignment (a,b,c,d), (d,a,b,c), (c,d,a,b), (b,c,d,a):
 *     a = rol32(a + f_r(b, c, d) + in[idx_r[j]] + K_r, rot_r[j % 4])
 *   round 1: F (selection),  K = 0,           in[0..7] in order,          rotations 3 7 11 19
 *   round 2: G (majority),   K = 0x5A827999,  in[1 3 5 7 0 2 4 6],        rotations 3 5 9 13
 *   round 3: H (parity),     K = 0x6ED9EBA1,  in[3 7 2 6 1 5 0 4],        rotations 3 9 11 15
 * then buf[i] += register i.
 */
static inline hh_u32 hh_md4_f(int r, hh_u32 x, hh_u32 y, hh_u32 z)
{
	if (r == 0)
		return (x & y) | (~x & z);		/* RFC 1320 F */
	if (r == 1)
		return (x & y) | (x & z) | (y & z);	/* RFC 1320 G */
	return x ^ y ^ z;				/* RFC 1320 H */
}

static inline struct hh_state hh_md4(struct hh_state s, const hh_u32 in[8])
{
	/* automatic (not static) tables: the contract instrumentation havocs static objects */
	const unsigned char idx[3][8] = {
		{ 0, 1, 2, 3, 4, 5, 6, 7 },
		{ 1, 3, 5, 7, 0, 2, 4, 6 },
		{ 3, 7, 2, 6, 1, 5, 0, 4 } };
	const unsigned char rot[3][4] = { { 3, 7, 11, 19 }, { 3, 5, 9, 13 }, { 3, 9, 11, 15 } };
	const hh_u32 K[3] = { 0u, 0x5A827999u, 0x6ED9EBA1u };
	hh_u32 v[4];
	v[0] = s.b[0]; v[1] = s.b[1]; v[2] = s.b[2]; v[3] = s.b[3];
	for (int r = 0; r < 3; r++)
		for (int j = 0; j < 8; j++) {
			int t = (4 - (j & 3)) & 3;	/* which register plays "a" in this step */
			hh_u32 a = v[t], b = v[(t + 1) & 3], c = v[(t + 2) & 3], d = v[(t + 3) & 3];
			a += hh_md4_f(r, b, c, d) + (in[idx[r][j]] + K[r]);
			v[t] = hh_rol32(a, rot[r][j & 3]);
		}
	s.b[0] += v[0]; s.b[1] += v[1]; s.b[2] += v[2]; s.b[3] += v[3];
	return s;
}

/* one name byte as the kernel reads it: `(int) *ucp` resp. `(int) *scp` — value of the byte as unsigned / signed char */
static inline int hh_char(const unsigned char *name, int i, int unsigned_variant)
{
	return unsigned_variant ? (int)name[i] : (int)(signed char)name[i];
}

/*
 * kernel dx_hack_hash_signed / dx_hack_hash_unsigned:
 *   hash0 = 0x12a3fe2d, hash1 = 0x37abe8f9;  per byte: hash = hash1 + (hash0 ^ (c * 7152373));
 *   if (hash & 0x80000000) hash -= 0x7fffffff;  hash1 = hash0; hash0 = hash;     result hash0 << 1
 * (the multiplication is an `int` product in the kernel, built with -fwrapv/-fno-strict-overflow; |c| <= 255 so it
 * never overflows anyway)
 */
static inline hh_u32 hh_legacy(const unsigned char *name, int len, int unsigned_variant)
{
	hh_u32 h0 = 0x12a3fe2du, h1 = 0x37abe8f9u, h;
	for (int i = 0; i < len; i++) {
		h = h1 + (h0 ^ (hh_u32)(hh_char(name, i, unsigned_variant) * 7152373));
		if (h & 0x80000000u)
			h -= 0x7fffffffu;
		h1 = h0;
		h0 = h;
	}
	return h0 << 1;
}

/*
 * kernel str2hashbuf_signed / str2hashbuf_unsigned (msg, len, buf, num), closed form of output word w (0 <= w < num):
 *   pad = len | len << 8 | len << 16 | len << 24     (len as __u32: only the low byte survives in every lane
 *                                                     when len < 256; the kernel computes exactly
 *                                                     pad = (__u32)len | ((__u32)len << 8); pad |= pad << 16)
 *   the word starts as pad and takes in, in order, the bytes msg[4w .. min(4w+4, len, 4*num) - 1] by
 *        val = (int)byte + (val << 8)        (an ADDITION of the sign-extended byte: the historical signed-char
 *                                             behaviour is part of the on-disk format)
 *   words behind the end of the name are pad.
 */
static inline hh_u32 hh_word(const unsigned char *msg, int len, int num, int w, int unsigned_variant)
{
	hh_u32 pad = (hh_u32)len | ((hh_u32)len << 8);
	hh_u32 val;
	int lim = len > num * 4 ? num * 4 : len;
	pad |= pad << 16;
	val = pad;
	for (int k = 0; k < 4; k++)
		if (4 * w + k < lim)
			val = (hh_u32)hh_char(msg, 4 * w + k, unsigned_variant) + (val << 8);
	return val;
}

/* kernel __ext4fs_dirhash(), tail: "hash = hash & ~1; if (hash == (EXT4_HTREE_EOF_32BIT << 1)) hash = (EXT4_HTREE_EOF_32BIT - 1) << 1;" */
static inline hh_u32 hh_eof_clamp(hh_u32 hash)
{
	return hash == (HH_EOF_32BIT << 1) ? (HH_EOF_32BIT - 1) << 1 : hash;
}

/* kernel __ext4fs_dirhash(), head: default seed, replaced by hinfo->seed iff that has a non-zero word */
static inline struct hh_state hh_seed(const hh_u32 *seed)
{
	struct hh_state s;
	s.b[0] = 0x67452301u; s.b[1] = 0xefcdab89u; s.b[2] = 0x98badcfeu; s.b[3] = 0x10325476u;
	if (seed && (seed[0] | seed[1] | seed[2] | seed[3])) {
		s.b[0] = seed[0]; s.b[1] = seed[1]; s.b[2] = seed[2]; s.b[3] = seed[3];
	}
	return s;
}

/* one chunk step of the kernel's `while (len > 0) { str2hashbuf(p, len, in, N); transform(buf, in); len -= 4N; p += 4N; }` */
static inline struct hh_state hh_step(struct hh_state s, int version, const unsigned char *p, int len)
{
	hh_u32 in[8];
	int uns = version >= HH_LEGACY_UNSIGNED;
	if (version == HH_HALF_MD4 || version == HH_HALF_MD4_UNSIGNED) {
		for (int w = 0; w < 8; w++)
			in[w] = hh_word(p, len, 8, w, uns);
		return hh_md4(s, in);
	}
	for (int w = 0; w < 4; w++)
		in[w] = hh_word(p, len, 4, w, uns);
	return hh_tea(s, in);
}

#ifndef HH_MAX_NAME
#define HH_MAX_NAME 255		/* ext4 name_len is an 8-bit field */
#endif

/*
 * kernel __ext4fs_dirhash(): returns 0 and the major hash (before the EOF clamp, i.e. "hash & ~1") in *major, the
 * minor hash in *minor; -1 for an unknown version (the kernel then sets hash = minor_hash = 0).
 * The value the kernel stores/looks up is hh_eof_clamp(*major).
 */
static inline int hh_dirhash(int version, const unsigned char *name, int len, const hh_u32 *seed,
			     hh_u32 *major, hh_u32 *minor)
{
	struct hh_state s = hh_seed(seed);
	hh_u32 hash, mh = 0;
	int chunk;

	switch (version) {
	case HH_LEGACY:
	case HH_LEGACY_UNSIGNED:
		hash = hh_legacy(name, len, version == HH_LEGACY_UNSIGNED);
		break;
	case HH_HALF_MD4:
	case HH_HALF_MD4_UNSIGNED:
	case HH_TEA:
	case HH_TEA_UNSIGNED:
		chunk = (version == HH_TEA || version == HH_TEA_UNSIGNED) ? 16 : 32;
		for (int off = 0; off < len; off += chunk)
			s = hh_step(s, version, name + off, len - off);
		if (chunk == 16) {
			hash = s.b[0];
			mh = s.b[1];
		} else {
			hash = s.b[1];
			mh = s.b[2];
		}
		break;
	default:
		*major = 0;
		*minor = 0;
		return -1;
	}
	*major = hash & ~1u;
	*minor = mh;
	return 0;
}

#endif
