/*
 * lpf_pass1_rules.h — what the NEXT e2fsck run demands of a one-block directory that the PREVIOUS run has created
 * (property C01: after `e2fsck -fy` claims success an immediately following `e2fsck -fn` reports no problem).
 *
 * The rules are the acceptance conditions of e2fsck/pass1.c (e2fsck_pass1's per-inode tests and check_blocks) for a
 * directory inode, read off the problem codes pass 1 raises — they are NOT taken from e2fsck/pass3.c, the producer
 * that is measured against them:
 *
 *   R1  in use, not deleted            i_links_count != 0 (an in-use inode with i_dtime set: PR_1_SET_DTIME)
 *   R2  a directory                    (i_mode & S_IFMT) == S_IFDIR (else pass 2 / pass 3 of the next run object:
 *                                      PR_3_ROOT_NOT_DIR_ABORT, PR_3_LPF_NOTDIR)
 *   R3  EXT4_EXTENTS_FL only on a filesystem with INCOMPAT_EXTENTS        PR_1_EXTENT_FEATURE / PR_1_EXTENTS_SET
 *   R4  no EXT4_EXTENTS_FL, extents filesystem: i_block must not look like an extent header   PR_1_UNSET_EXTENT_FL
 *   R5  EXT4_INLINE_DATA_FL only with INCOMPAT_INLINE_DATA; no EXT2_INDEX_FL on a directory that has no index block
 *       (PR_1_INLINE_DATA_FEATURE, handle_htree: PR_1_HTREE_*); the new directory carries no other flag
 *   R6  the block map is readable and names exactly the one data block:
 *         extent mapped (check_blocks_extents): valid header in i_block (PR_1_MISSING_EXTENT_HEADER), depth 0, one
 *           extent (lblk 0, len 1, initialised) -> the block;
 *         block mapped (ext2fs_block_iterate3/process_block): i_block[0] = the block, i_block[1..14] = 0
 *   R7  i_blocks == (clusters in use) * cluster ratio * (blocksize / 512) with no EXT4_HUGE_FILE_FL, high part 0
 *                                                                          PR_1_BAD_I_BLOCKS
 *   R8  i_size == (last block + 1) * blocksize, i_size_high == 0           PR_1_BAD_I_SIZE (bad_size 1, 2, 5)
 *   R9  on a bigalloc filesystem a directory (root or a non-reserved inode) with data blocks is extent mapped or
 *       inline                                                             PR_1_NO_BIGALLOC_BLOCKMAP_FILES
 *   R10 nothing pass 1 zeroes:  i_faddr, the fragment fields, i_file_acl (no EA block was made)
 *                                                                          PR_1_SET_FADDR / PR_1_SET_FRAG / ...
 *
 * Link count (pass 4, PR_4_BAD_REF_COUNT) and the documented permissions are separate predicates below.
 *
 * Plus the convention of everything else that creates directories (lib/ext2fs/mkdir.c, the kernel): on a filesystem
 * with the extents feature a new directory IS extent mapped.  Pass 1 does not insist on this outside bigalloc, so it
 * is a separate predicate (lpf_follows_mkdir_convention) and not part of C01.
 *
 * Constants are from the on-disk format (lib/ext2fs/ext2_fs.h, ext3_extents.h), repeated here on purpose.
 */
#ifndef LPF_PASS1_RULES_H
#define LPF_PASS1_RULES_H

#define LPF_S_IFMT		0170000u
#define LPF_S_IFDIR		0040000u
#define LPF_EXTENTS_FL		0x00080000u
#define LPF_INLINE_DATA_FL	0x10000000u
#define LPF_INDEX_FL		0x00001000u
#define LPF_HUGE_FILE_FL	0x00040000u
#define LPF_EXT_MAGIC		0xF30Au
#define LPF_ROOT_INO		2u

/* the filesystem as the next run sees it */
struct lpf_fs {
	unsigned int blocksize;			/* 1024 << s_log_block_size */
	unsigned int cluster_ratio_bits;	/* s_log_cluster_size - s_log_block_size, 0 without bigalloc */
	unsigned char extents, bigalloc, inline_data, huge_file;	/* feature bits */
	unsigned int first_ino;			/* s_first_ino */
	unsigned long long first_data_block, blocks_count;
};

/* the inode as it lies on disk after the creating run */
struct lpf_dir {
	unsigned int ino;
	unsigned int mode, links, flags, dtime;
	unsigned int size_lo, size_high;
	unsigned int blocks_lo, blocks_hi;
	unsigned int faddr, file_acl, file_acl_high, frag, fsize;
	unsigned int iblock[15];
	unsigned long long data_block;		/* the one block that holds '.' and '..' */
};

static unsigned int lpf_log2_sect(unsigned int bs)	/* log2(blocksize / 512) */
{
	return bs == 1024u ? 1 : bs == 2048u ? 2 : bs == 4096u ? 3 : bs == 8192u ? 4 : bs == 16384u ? 5 : bs == 32768u ? 6 : 7;
}

/* ext3_extent_header at the start of i_block (little-endian host): magic, entries | max, depth | generation;
 * 60 bytes hold the 12-byte header and at most 4 entries of 12 bytes; the checker tolerates max in 2..4 */
static int lpf_header_ok(const unsigned int *ib)
{
	unsigned int magic = ib[0] & 0xFFFFu, entries = ib[0] >> 16, max = ib[1] & 0xFFFFu;

	return magic == LPF_EXT_MAGIC && entries <= max && max <= 4u && max >= 2u;
}
/* depth-0 tree with exactly one initialised extent lblk 0, len 1 -> blk:
 * ext3_extent = ee_block(32) ee_len(16) ee_start_hi(16) ee_start(32), placed right behind the header */
static int lpf_one_extent_maps(const unsigned int *ib, unsigned long long blk)
{
	unsigned int entries = ib[0] >> 16, depth = ib[1] >> 16;
	unsigned int ee_block = ib[3], ee_len = ib[4] & 0xFFFFu, ee_start_hi = ib[4] >> 16, ee_start = ib[5];

	return lpf_header_ok(ib) && depth == 0 && entries == 1 && ee_block == 0 && ee_len == 1 &&
	       ((((unsigned long long) ee_start_hi) << 32) | ee_start) == blk;
}

static int lpf_is_blockmapped(const struct lpf_dir *d)
{
	return !(d->flags & (LPF_EXTENTS_FL | LPF_INLINE_DATA_FL));
}

/* R9 alone (the rule the reports are about) */
static int lpf_r9_bigalloc(const struct lpf_fs *f, const struct lpf_dir *d)
{
	if (!f->bigalloc)
		return 1;
	if (!(d->ino == LPF_ROOT_INO || d->ino >= f->first_ino))
		return 1;
	return !lpf_is_blockmapped(d);
}

/* R6 */
static int lpf_r6_map(const struct lpf_fs *f, const struct lpf_dir *d)
{
	unsigned int i;

	if (d->data_block < f->first_data_block || d->data_block >= f->blocks_count || d->data_block == 0)
		return 0;
	if (d->flags & LPF_EXTENTS_FL)
		return lpf_one_extent_maps(d->iblock, d->data_block);
	if (d->iblock[0] != d->data_block)		/* also: a block-mapped file cannot name a block >= 2^32 */
		return 0;
	for (i = 1; i < 15; i++)
		if (d->iblock[i] != 0)
			return 0;
	return 1;
}

/* R1 .. R10: pass 1 of the next run raises nothing for this inode */
static int lpf_pass1_accepts(const struct lpf_fs *f, const struct lpf_dir *d)
{
	unsigned int sect_shift = lpf_log2_sect(f->blocksize) + f->cluster_ratio_bits;

	if (d->links == 0 || d->dtime != 0)						/* R1 */
		return 0;
	if ((d->mode & LPF_S_IFMT) != LPF_S_IFDIR)					/* R2 */
		return 0;
	if ((d->flags & LPF_EXTENTS_FL) && !f->extents)					/* R3 */
		return 0;
	if (!(d->flags & LPF_EXTENTS_FL) && f->extents && lpf_header_ok(d->iblock))	/* R4 */
		return 0;
	if (d->flags & ~LPF_EXTENTS_FL)							/* R5 (nothing else is set) */
		return 0;
	if (!lpf_r6_map(f, d))								/* R6 */
		return 0;
	if (d->blocks_lo != (1u << sect_shift) || d->blocks_hi != 0)			/* R7: one cluster */
		return 0;
	if (d->size_lo != f->blocksize || d->size_high != 0)				/* R8 */
		return 0;
	if (!lpf_r9_bigalloc(f, d))							/* R9 */
		return 0;
	if (d->faddr || d->file_acl || d->file_acl_high || d->frag || d->fsize)	/* R10 */
		return 0;
	return 1;
}

/* what ext2fs_mkdir / the kernel do: extents filesystem => extent-mapped directory (stronger than C01 needs) */
static int lpf_follows_mkdir_convention(const struct lpf_fs *f, const struct lpf_dir *d)
{
	return !f->extents || (d->flags & LPF_EXTENTS_FL) != 0;
}

/* pass 4 of the next run: an empty directory has two links ('.' and the entry in its parent); the root, whose '..'
 * is itself, also two */
static int lpf_links_of_empty_dir(const struct lpf_dir *d)
{
	return d->links == 2;
}
#endif
