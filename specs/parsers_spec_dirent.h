/*
 * parsers_spec_dirent.h — directory-entry record length, written from the kernel's definition
 * (fs/ext4/ext4.h: ext4_rec_len_from_disk / ext4_rec_len_to_disk) and the on-disk format:
 *   struct ext4_dir_entry_2 { le32 inode; le16 rec_len; u8 name_len; u8 file_type; char name[]; }
 * On-disk rec_len is 16 bits.  For block sizes below 64 KiB it is the length itself.  For block
 * sizes of 64 KiB and more: 0 and 65535 both mean "the whole block"; otherwise the two low bits
 * (always zero in a real length, lengths are multiples of 4) carry bits 16 and 17 of the length.
 * Macros only, so that they can be used inside loop invariants.
 */
#ifndef PARSERS_SPEC_DIRENT_H
#define PARSERS_SPEC_DIRENT_H
#define PSPEC_RECLEN_DECODE(v, bs) \
	((bs) < 65536u ? (unsigned int)(v) : \
	 (((v) == 65535u || (v) == 0u) ? (unsigned int)(bs) : \
	  (((unsigned int)(v) & 0xFFFCu) | (((unsigned int)(v) & 3u) << 16))))
/* legal in-memory lengths: multiples of 4 up to the block size */
#define PSPEC_RECLEN_LEGAL(len, bs) (((len) & 3u) == 0 && (len) <= (bs))
#define PSPEC_RECLEN_ENCODE(len, bs) \
	((len) < 65536u ? (unsigned int)(len) : \
	 ((len) == (bs) ? ((bs) == 65536u ? 65535u : 0u) : \
	  (((unsigned int)(len) & 0xFFFCu) | (((unsigned int)(len) >> 16) & 3u))))
/* fields of the entry that starts at byte k of buf (little-endian on disk) */
#define PSPEC_DE_RAW_RECLEN(buf, k) ((unsigned int)((const unsigned char *)(buf))[(k) + 4] | \
				     ((unsigned int)((const unsigned char *)(buf))[(k) + 5] << 8))
#define PSPEC_DE_NAMELEN(buf, k) ((unsigned int)((const unsigned char *)(buf))[(k) + 6])
#define PSPEC_DE_RECLEN(buf, k, bs) PSPEC_RECLEN_DECODE(PSPEC_DE_RAW_RECLEN(buf, k), bs)
/* shape every live or deleted entry must have: header fits, 4-byte granular, name fits */
#define PSPEC_DE_SHAPE_OK(buf, k, bs) (PSPEC_DE_RECLEN(buf, k, bs) >= 8u && \
				       (PSPEC_DE_RECLEN(buf, k, bs) & 3u) == 0 && \
				       PSPEC_DE_NAMELEN(buf, k) + 8u <= PSPEC_DE_RECLEN(buf, k, bs))
#endif
