/*
 * mkfs_alloc.h — what the library's search-style allocators promise (C07: "bitmaps and inode tables are placed ...
 * without overlap").  Written from the interface descriptions (lib/ext2fs/ext2fs.h prototypes, libext2fs.texinfo
 * "ext2fs_get_free_blocks: find num consecutive free blocks starting the search at start and ending before finish",
 * "ext2fs_new_inode: search forward from the parent directory's block group"), not from the loops.
 *
 * Everything is a macro over plain integers (loop invariants may not call functions).
 *
 * ext2fs_get_free_blocks2(fs, start, finish, num, map, &ret)
 *   cr     cluster ratio of the map (1 << granularity); candidates are multiples of cr
 *   b0     where the search begins: start (first data block if start == 0), rounded down to a cluster
 *   f      where it ends (exclusive): finish (start if finish == 0), rounded down to a cluster
 *   n      num (1 if num == 0)
 *   LINEAR search (f > start):  candidates are the aligned blocks of [b0, f)
 *   CYCLIC search (f <= start): candidates are the aligned blocks >= b0 up to the end of the filesystem, then the
 *                               aligned blocks of [first data block, f)
 *   a candidate k is ELIGIBLE when k .. k+n-1 lie in the filesystem (k >= fdb, k + n - 1 < blocks_count)
 *   success: ret is an eligible candidate reported free for n blocks by the map, and no eligible candidate that comes
 *            EARLIER in the search order is free (first fit);   failure: no eligible candidate is free.
 */
#ifndef MKFS_ALLOC_H
#define MKFS_ALLOC_H

#define MKFS_IMPL(a, b)		(!(a) || (b))
#define MKFS_ALIGNED(k, cr)	((((unsigned long long)(k)) & ((unsigned long long)(cr) - 1ULL)) == 0)
#define MKFS_GFB_B0(start, fdb, cr) (((start) ? (unsigned long long)(start) : (unsigned long long)(fdb)) & ~((unsigned long long)(cr) - 1ULL))
#define MKFS_GFB_F(start, finish, cr) (((finish) ? (unsigned long long)(finish) : (unsigned long long)(start)) & ~((unsigned long long)(cr) - 1ULL))
#define MKFS_GFB_N(num)		((num) ? (unsigned long long)(num) : 1ULL)
#define MKFS_GFB_LINEAR(start, f) ((f) > (unsigned long long)(start))
#define MKFS_GFB_ELIGIBLE(k, n, fdb, bc, cr) \
	(MKFS_ALIGNED(k, cr) && (k) >= (unsigned long long)(fdb) && (k) < (bc) && (n) <= (bc) - (k))
/* is k a candidate of the search at all */
#define MKFS_GFB_CANDIDATE(k, linear, b0, f) ((linear) ? ((k) >= (b0) && (k) < (f)) : ((k) >= (b0) || (k) < (f)))
/* does candidate k come before candidate r in the search order */
#define MKFS_GFB_BEFORE(k, r, linear, b0, f) \
	((linear) ? ((k) >= (b0) && (k) < (r)) : \
	 ((r) >= (b0) ? ((k) >= (b0) && (k) < (r)) : ((k) >= (b0) || (k) < (r))))

/*
 * ext2fs_new_inode(fs, dir, mode, map, &ret): inode numbers are 1-based, group g holds g*ipg+1 .. (g+1)*ipg.
 *   s0     where the search begins: the first inode of dir's group (dir > 0), never below the first non-reserved inode
 *   success: ret in [first_ino, inodes_count], clear in the map, and first in the cyclic order s0, s0+1, ...,
 *            inodes_count, first_ino, ..., s0-1;    failure: no inode of [first_ino, inodes_count] is clear.
 */
#define MKFS_NI_BEFORE(k, r, s0) ((r) >= (s0) ? ((k) >= (s0) && (k) < (r)) : ((k) >= (s0) || (k) < (r)))
#endif
