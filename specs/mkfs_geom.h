/*
 * mkfs_geom.h — what the ext2/3/4 on-disk format demands of the geometry fields of a superblock (C07 "has the
 * requested geometry", "every group can hold its metadata").  Written from Documentation/filesystems/ext4
 * ("Layout", "Block Groups", "The Super Block") and the kernel's mount-time checks (fs/ext4/super.c:
 * ext4_check_geometry, ext4_fill_super), NOT from lib/ext2fs/initialize.c.  Plain integers, constant divisors.
 *
 *   bs    block size in bytes (1024 << s_log_block_size)         fdb  s_first_data_block
 *   bpg   s_blocks_per_group   ipg  s_inodes_per_group           isize s_inode_size   dsize descriptor size (32 / s_desc_size)
 */
#ifndef MKFS_GEOM_H
#define MKFS_GEOM_H

typedef unsigned long long mkfs_u64;

/* one bitmap block describes the blocks (clusters) / inodes of a group */
#define MKFS_MAX_PER_BITMAP(bs)		(8u * (bs))
/* first data block: the superblock lives at byte 1024; with 1 KiB blocks (no bigalloc) block 0 is the boot block */
#define MKFS_FDB(bs, bigalloc)		(((bs) == 1024u && !(bigalloc)) ? 1u : 0u)
/* number of block groups: every block from fdb on belongs to exactly one group of bpg blocks, the last may be short */
#define MKFS_GROUPS_OK(gdc, blocks, fdb, bpg) \
	((gdc) >= 1 && (mkfs_u64)((gdc) - 1) * (bpg) < (blocks) - (fdb) && (blocks) - (fdb) <= (mkfs_u64)(gdc) * (bpg))
/* number of blocks in the last group */
#define MKFS_LAST_GROUP_BLOCKS(gdc, blocks, fdb, bpg)	((blocks) - (fdb) - (mkfs_u64)((gdc) - 1) * (bpg))
/* blocks of an inode table: ipg inodes of isize bytes */
#define MKFS_ITABLE_BLOCKS(ipg, isize, bs)	((((mkfs_u64)(ipg) * (isize)) + (bs) - 1) / (bs))
/* descriptor blocks: gdc descriptors of dsize bytes */
#define MKFS_DESC_BLOCKS(gdc, dsize, bs)	((((mkfs_u64)(gdc)) + ((bs) / (dsize)) - 1) / ((bs) / (dsize)))
/* metadata a group must be able to hold: bitmaps + inode table, and for a group with a superblock copy the copy, the
 * descriptor blocks (one per meta group with META_BG) and the reserved GDT blocks */
#define MKFS_GROUP_OVERHEAD(has_super, ibpg, desc_blocks, rsv_gdt, meta_bg) \
	(2u + (ibpg) + ((has_super) ? 1u + ((meta_bg) ? 1u : (desc_blocks) + (rsv_gdt)) : 0u))
#endif
