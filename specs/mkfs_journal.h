/*
 * mkfs_journal.h — sizes of a newly created journal (C07 "journal size/location").  Written from mke2fs(8)
 * ("-J size=": at least 1024 file system blocks, no more than 10,240,000 blocks or half the file system;
 * "fast_commit_size=": defaults to journal-size / 64) and the defaults documented in the comment table of
 * ext2fs_default_journal_size / RELEASE-NOTES, as an independent step table.
 */
#ifndef MKFS_JOURNAL_H
#define MKFS_JOURNAL_H

#define MKFS_JBD2_MIN_BLOCKS	1024u		/* JBD2_MIN_JOURNAL_BLOCKS (kernel: include/linux/jbd2.h) */
#define MKFS_FC_RATIO		64u		/* journal blocks per fast-commit block */
#define MKFS_MAX_JOURNAL_BLOCKS	10240000u

/* default size of an internal journal, in filesystem blocks; -1: filesystem too small for a journal */
static long mkfs_default_journal_blocks(unsigned long long fs_blocks)
{
	return fs_blocks < 2048ULL ? -1 : fs_blocks < 32768ULL ? 1024 : fs_blocks < 262144ULL ? 4096 :
	       fs_blocks < 524288ULL ? 8192 : fs_blocks < 4194304ULL ? 16384 : fs_blocks < 8388608ULL ? 32768 :
	       fs_blocks < 16777216ULL ? 65536 : fs_blocks < 33554432ULL ? 131072 : 262144;
}
#endif
