/*
 * csumio_spec.h -- on-disk format facts used by the proofs/csumio units (C14 "read paths report the checksum error,
 * write paths set the checksum last", C06 "structure validated before the checksum code derives lengths from it").
 * Written from the kernel documentation (Documentation/filesystems/ext4: ifork.rst "Extent Tree", directory.rst,
 * attributes.rst, mmp.rst, inodes.rst, bitmaps.rst, group_descr.rst), numeric offsets only; no repository declarations.
 */
#ifndef CSUMIO_SPEC_H
#define CSUMIO_SPEC_H

#define CS_U8(b, o)   ((unsigned int)((const unsigned char *)(b))[o])
#define CS_LE16(b, o) (CS_U8(b, o) | (CS_U8(b, (o) + 1) << 8))
#define CS_LE32(b, o) (CS_LE16(b, o) | (CS_LE16(b, (o) + 2) << 16))

/* feature bits (super.rst) */
#define CS_RO_COMPAT_GDT_CSUM		0x0010u
#define CS_RO_COMPAT_METADATA_CSUM	0x0400u

/*
 * Extent tree node (ifork.rst): 12-byte header {le16 eh_magic = 0xF30A @0, le16 eh_entries @2, le16 eh_max @4,
 * le16 eh_depth @6, le32 eh_generation @8}, then eh_max 12-byte slots; in a tree BLOCK (not the inode root) a 4-byte
 * struct ext4_extent_tail {le32 eb_checksum} follows the eh_max slots:  tail offset = 12 + 12 * eh_max.
 * The checksum covers bytes [0, 12 + 12 * eh_max) of the block.
 */
#define CS_EXT_MAGIC		0xF30Au
#define CS_EH_MAGIC(b)		CS_LE16(b, 0)
#define CS_EH_ENTRIES(b)	CS_LE16(b, 2)
#define CS_EH_MAX(b)		CS_LE16(b, 4)
#define CS_EH_DEPTH(b)		CS_LE16(b, 6)
#define CS_EXT_TAIL_OFF(b)	(12ul + 12ul * CS_EH_MAX(b))
/* what the checksum code may rely on: the tail (and so every byte it feeds to the CRC) lies inside the node */
#define CS_EXT_TAIL_FITS(b, size) (CS_EH_MAGIC(b) == CS_EXT_MAGIC && CS_EXT_TAIL_OFF(b) + 4ul <= (unsigned long)(size))
/* a header is acceptable for a node stored in `size` bytes iff magic is right, entries <= max, the max slots fit and the
 * slack behind them is less than three slots (room for the tail) -- no division */
#define CS_EXT_HEADER_OK(b, size) (CS_EH_MAGIC(b) == CS_EXT_MAGIC && CS_EH_ENTRIES(b) <= CS_EH_MAX(b) && \
	12l + 12l * (long)CS_EH_MAX(b) <= (long)(size) && (long)(size) < 12l + 12l * ((long)CS_EH_MAX(b) + 3))
/* index slot (interior node): le32 ei_block @0, le32 ei_leaf_lo @4, le16 ei_leaf_hi @8, le16 unused @10 */
#define CS_EI_LEAF(s)		((unsigned long long)CS_LE32(s, 4) | ((unsigned long long)CS_LE16(s, 8) << 32))

/*
 * Directory leaf block (directory.rst): with metadata_csum the last 12 bytes are struct ext4_dir_entry_tail
 * {le32 det_reserved_zero1 = 0; le16 det_rec_len = 12; u8 det_reserved_zero2 = 0; u8 det_reserved_ft = 0xDE; le32 det_checksum}.
 * Extended attribute block (attributes.rst): header magic le32 0xEA020000 @0, h_checksum le32 @16.
 * MMP block (mmp.rst): le32 mmp_magic = 0x004D4D50 @0, le32 mmp_seq @4, ..., le32 mmp_checksum @1020 (last word of the
 * 1024-byte structure).
 */
#define CS_EA_MAGIC		0xEA020000u
#define CS_MMP_MAGIC		0x004D4D50u
#define CS_MMP_CSUM_OFF		1020

#endif
