/*
 * ro_monitor.h — ghost monitor for C13 "read-only invocations never modify the device" (protocol level).
 *
 * Written from the property statement, not from the code: a device can only change through
 *   (1) a write method of an io_channel (write_blk / write_blk64 / write_byte / discard / zeroout), on a channel whose
 *       descriptor was opened for writing, i.e. whose manager->open() was asked for IO_FLAG_RW
 *       (lib/ext2fs/unix_io.c:unix_open, unit unixio/unix_open: O_RDWR iff IO_FLAG_RW);
 *   (2) the library's own write entry points, which end in (1).
 * A read-only invocation is one where the tool did not ask for write access: e2fsck: ctx->options & E2F_OPT_READONLY,
 * library handle: !(fs->flags & EXT2_FLAG_RW).
 *
 * The monitor therefore keeps, per stub channel, whether it was opened with IO_FLAG_RW, and counts
 *   ro_mon.opens_rw       manager->open() calls that asked for IO_FLAG_RW
 *   ro_mon.writes         write-method calls on any channel              (the ATTEMPT; stronger than the property)
 *   ro_mon.writes_rw      write-method calls on a channel opened IO_FLAG_RW (these change the device: the property)
 *   ro_mon.dirtied        buffers / handles marked dirty (where a unit chooses to count that)
 * and the three statements, each checked at the place where the event happens (so a trace points at the event):
 *   RO_OPEN(ro, flags)    read-only  =>  the open does not ask for IO_FLAG_RW
 *   RO_WRITE(ro, ch_rw)   read-only  =>  no write method is reached on a channel that is open for writing   [property]
 *   RO_ATTEMPT(ro)        read-only  =>  no write method is reached at all                                   [hygiene]
 */
#ifndef RO_MONITOR_H
#define RO_MONITOR_H

struct ro_monitor {
	unsigned int opens, opens_rw, writes, writes_rw, dirtied, closes, flushes;
};
struct ro_monitor ro_mon;

#define RO_MON_RESET() do { ro_mon.opens = ro_mon.opens_rw = ro_mon.writes = ro_mon.writes_rw = 0; \
			    ro_mon.dirtied = ro_mon.closes = ro_mon.flushes = 0; } while (0)

/* event: manager->open(name, flags, ..) */
#define RO_EV_OPEN(ro, flags, what) do { ro_mon.opens++; if ((flags) & IO_FLAG_RW) ro_mon.opens_rw++; \
	CHECK(!(ro) || !((flags) & IO_FLAG_RW), "read-only: " what " is not opened with IO_FLAG_RW"); } while (0)

/* event: a write method reached on a channel; ch_rw = the channel was opened with IO_FLAG_RW */
#define RO_EV_WRITE(ro, ch_rw, what) do { ro_mon.writes++; if (ch_rw) ro_mon.writes_rw++; \
	CHECK(!(ro) || !(ch_rw), "read-only: no write reaches " what " open for writing"); \
	CHECK(!(ro), "read-only: no write is attempted on " what); } while (0)

/* event: a write method that must not be reached at all in a read-only invocation */
#define RO_EV_FORBIDDEN(ro, what) do { ro_mon.writes++; CHECK(!(ro), "read-only: " what " is not reached"); } while (0)

#endif
