/*
 * undo_spec.h — specification vocabulary for the undo I/O manager (property C12).
 * Written from the io_channel interface convention (lib/ext2fs/ext2_io.h, unix_io.c raw_write_blk)
 * and the undo file format comment, not from undo_io.c's arithmetic.
 *
 * io_channel convention: a (block, count) pair on a channel with block size bs denotes the byte range
 *      [block*bs, block*bs + SIZE)   SIZE = bs           if count == 1
 *                                           -count       if count <  0
 *                                           count*bs     otherwise
 * in FILESYSTEM coordinates, i.e. relative to the filesystem offset ("offset=" option): the backing unix
 * channel adds its own data->offset when it seeks.  write_byte(offset,size) denotes [offset, offset+size)
 * in the same coordinates; zeroout/discard(block,count) denote [block*bs, (block+count)*bs).
 */
#ifndef UNDO_SPEC_H
#define UNDO_SPEC_H

#define UNDO_SIZE(bs, count) ((count) == 1 ? (long long)(bs) : \
			      (count) < 0 ? -(long long)(count) : (long long)(count) * (long long)(bs))
#define UNDO_LO(bs, block) ((unsigned long long)(block) * (unsigned long long)(bs))

/* legal block sizes enumerated by the units (symbolic products/divisions do not terminate) */
#define UNDO_BS_OK(bs) ((bs) == 1024 || (bs) == 4096 || (bs) == 32768)

/* largest block number / offset for which block*bs + offset + size stays far inside 63 bits */
#define UNDO_MAX_BLOCK (1ULL << 44)
#define UNDO_MAX_OFFSET (1LL << 60)

#endif
