/*
 * undo_spec.h — specification vocabulary for the undo I/O manager (property C12).
 * Written from the io_channel interface convention (lib/ext2fs/ext2_io.h, unix_io.c raw_write_blk)
 * and the undo file format comment, not from undo_io.c's arithmetic.
 *
 * io_channel convention: a (block, count) pair on a channel with block size bs denotes the byte range
 *      [block*bs, block*bs + SIZE)   SIZE = bs           if count == 1
 *                                           -count       if count <  0
 *                                           count*bs     otherwise
 * in FILESYSTEM coordinates, i.e. relative to the filesystem offset ("offset=" option): the backing unix
 * channel adds its own data->offset when it seeks.  write_byte(offset,size) denotes [offset, offset+size)
 * in the same coordinates; zeroout/discard(block,count) denote [block*bs, (block+count)*bs).
 */
#ifndef UNDO_SPEC_H
#define UNDO_SPEC_H

#define UNDO_SIZE(bs, count) ((count) == 1 ? (long long)(bs) : \
			      (count) < 0 ? -(long long)(count) : (long long)(count) * (long long)(bs))
#define UNDO_LO(bs, block) ((unsigned long long)(block) * (unsigned long long)(bs))

/* legal block sizes enumerated by the units (symbolic products/divisions do not terminate) */
#define UNDO_BS_OK(bs) ((bs) == 1024 || (bs) == 4096 || (bs) == 32768)

/* largest block number / offset for which block*bs + offset + size stays far inside 63 bits */
#define UNDO_MAX_BLOCK (1ULL << 44)
#define UNDO_MAX_OFFSET (1LL << 60)
/* no filesystem byte the preconditions above admit lies beyond this one */
#define UNDO_MAX_BYTE (1ULL << 61)

/*
 * Undo blocks (C12 mechanism 2, "a bitmap of already-saved blocks").  The undo manager cuts the filesystem into
 * undo blocks of tdb bytes (tdb = undo_header.block_size); bit t of written_block_map says "the old content of
 * undo block t is in the undo file".  Where the numbering comes from (independent of undo_write_tdb):
 * an undo key (fsblk, size) describes the FILESYSTEM bytes [fsblk*fs_block_size, +size) — that is how e2undo
 * replays it (io_channel_write_blk64(channel, fsblk, -size) on a channel of block size fs_block_size that has
 * been given the filesystem offset) — and try_reopen_undo_file() turns a key back into the bits
 * fsblk*fs_block_size/tdb ...; so undo block t stands for the filesystem bytes
 *      R(t) = [(t - ORG)*tdb, (t - ORG + 1)*tdb)
 * with numbering origin ORG = 0 at the time an undo file is re-opened (the filesystem offset is still 0 then: the
 * "offset=" option reaches the channel only after open).  Within one channel lifetime the origin is private to the
 * manager; the pinned tree numbers the blocks from the device start rounded down to an undo block, i.e.
 * ORG = offset/tdb (undo_write_tdb reads block t at t*tdb + offset%tdb - offset), which agrees with the re-open
 * numbering for offset < tdb.  findings/C12_tdb_unaligned_offset/proposed-fix.patch changes the code to ORG = 0;
 * units built for the patched tree pass -DUNDO_ORIGIN_FSREL.
 */
#ifdef UNDO_ORIGIN_FSREL
#define UNDO_ORIGIN(off, tdb) 0ULL
#else
#define UNDO_ORIGIN(off, tdb) ((unsigned long long)(off) / (unsigned long long)(tdb))
#endif
/* undo block of a filesystem byte, first filesystem byte of an undo block */
#define UNDO_TBLK(fsbyte, off, tdb) ((unsigned long long)(fsbyte) / (unsigned long long)(tdb) + UNDO_ORIGIN(off, tdb))
#define UNDO_TSTART(t, off, tdb) (((unsigned long long)(t) - UNDO_ORIGIN(off, tdb)) * (unsigned long long)(tdb))

#endif
