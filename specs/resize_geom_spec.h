/*
 * resize_geom_spec.h — what a resized filesystem's size-dependent superblock fields must be, from the on-disk format
 * (Documentation/filesystems/ext4: "Layout", "Block Groups", "Super Block"), not from resize/resize2fs.c.
 *
 * A filesystem of B blocks with first data block f and g blocks per group has  ceil((B - f) / g)  groups; every group but
 * the last is full; the last one holds  (B - f) mod g  blocks (a full group when that is 0).  A group must at least hold its
 * own bookkeeping: block bitmap, inode bitmap, inode table and, when it carries a backup, the superblock copy, the
 * descriptor copies and the reserved GDT blocks.  resize2fs additionally wants 50 blocks of slack in a short last group
 * and otherwise drops that group (the reported size is then the end of the previous group).
 * s_inodes_count = groups * s_inodes_per_group must fit 32 bits.  The descriptor table has ceil(groups / dpb) blocks.
 *
 * No symbolic products or divisions: blocks per group (bpg), inodes per group and descriptors per block are constants of
 * the configuration the unit enumerates.
 */
#ifndef RESIZE_GEOM_SPEC_H
#define RESIZE_GEOM_SPEC_H

typedef unsigned long long rgs_u64;

/* the including unit defines the three constants of its configuration */
#if !defined(RGS_BPG) || !defined(RGS_IPG) || !defined(RGS_DPB)
#error "define RGS_BPG (s_blocks_per_group), RGS_IPG (s_inodes_per_group), RGS_DPB (descriptors per block) as constants"
#endif
struct rgs_cfg {
	rgs_u64 fdb;		/* s_first_data_block */
	rgs_u64 ipb;		/* inode table blocks per group */
	rgs_u64 rsv_gdt;	/* s_reserved_gdt_blocks (before the resize) */
};

static rgs_u64 rgs_groups(const struct rgs_cfg *c, rgs_u64 blocks)
{
	rgs_u64 n = blocks - c->fdb;
	if (blocks <= c->fdb)
		return 0;
	return (n + (rgs_u64)RGS_BPG - 1) / (rgs_u64)RGS_BPG;
}
static rgs_u64 rgs_last_group_blocks(const struct rgs_cfg *c, rgs_u64 blocks)	/* 0: the last group is full */
{
	return (blocks - c->fdb) % (rgs_u64)RGS_BPG;
}
static rgs_u64 rgs_desc_blocks(const struct rgs_cfg *c, rgs_u64 groups)
{
	return (groups + (rgs_u64)RGS_DPB - 1) / (rgs_u64)RGS_DPB;
}
/* bookkeeping blocks of the last group of a filesystem with `groups` groups; has_backup: that group carries a backup */
static rgs_u64 rgs_overhead(const struct rgs_cfg *c, rgs_u64 groups, int has_backup)
{
	rgs_u64 o = 2 + c->ipb;
	if (has_backup)
		o += 1 + rgs_desc_blocks(c, groups) + c->rsv_gdt;
	return o;
}
/* the size is one resize2fs may report: last group full, or the only group, or big enough; inode count fits */
static int rgs_acceptable(const struct rgs_cfg *c, rgs_u64 blocks, int last_has_backup)
{
	rgs_u64 g = rgs_groups(c, blocks), rem = rgs_last_group_blocks(c, blocks);
	if (g == 0)
		return 0;
	if (g * (rgs_u64)RGS_IPG > 0xffffffffULL)
		return 0;
	if (rem == 0)
		return 1;
	if (g == 1)
		return rem >= rgs_overhead(c, g, last_has_backup);
	return rem >= rgs_overhead(c, g, last_has_backup) + 50;
}
#endif
