/*
 * c16_ba_mem_is_zero.h — contract of ext2fs_mem_is_zero (lib/ext2fs/gen_bitmap.c), from its documentation
 * "Return 1 if @mem is zeroed memory, otherwise return 0":
 *   requires: mem[0..len) readable
 *   returns 0 or 1;
 *   returns 1  =>  every byte of mem[0..len) is 0      (stated for ONE ghost byte: the byte at object offset
 *                                                        verif_g3, if it lies in mem[0..len))
 *   returns 0  =>  some byte of mem[0..len) is not 0   (its object offset is published in the ghost verif_g4)
 *   writes nothing but the ghost verif_g4.
 * ENFORCED on the real function by unit bitmap_ba/mem_is_zero; the callers' units (ba_test_clear_bmap_extent ...)
 * REPLACE the call by this same contract.  Include after verif.h, before the real file.
 */
#ifndef C16_BA_MEM_IS_ZERO_H
#define C16_BA_MEM_IS_ZERO_H
#include <stddef.h>
#ifndef VERIF_NATIVE
extern unsigned long long verif_g3;	/* ghost: object offset of one arbitrary byte, chosen by the harness */
extern unsigned long long verif_g4;	/* ghost: object offset of a non-zero byte (witness) when the answer is 0 */
#define C16_OFF(p) ((unsigned long long)__CPROVER_POINTER_OFFSET(p))
/* index into mem[] of the byte at object offset g (huge if the byte lies before mem) */
#define C16_IDX(g, mem) ((size_t)((g) - C16_OFF(mem)))
#endif
int ext2fs_mem_is_zero(const char *mem, size_t len)
	REQUIRES(len == 0 || __CPROVER_r_ok(mem, len))
	ENSURES(RET == 0 || RET == 1)
	ENSURES(RET == 0 || !(C16_IDX(verif_g3, mem) < len) || mem[C16_IDX(verif_g3, mem)] == 0)
	ENSURES(RET == 1 || (C16_IDX(verif_g4, mem) < len && mem[C16_IDX(verif_g4, mem)] != 0))
	ASSIGNS(verif_g4);
#endif
