/*
 * c16_ba_mem_is_zero.h — contract of ext2fs_mem_is_zero (lib/ext2fs/gen_bitmap.c), from its documentation
 * "Return 1 if @mem is zeroed memory, otherwise return 0":
 *   requires: mem[0..len) readable
 *   returns 0 or 1;
 *   returns 1  =>  every byte of mem[0..len) is 0           (stated for the ONE ghost byte address verif_p1)
 *   returns 0  =>  some byte of mem[0..len) is not 0        (its address is published in the ghost verif_p2)
 *   writes nothing but the ghost verif_p2.
 * ENFORCED on the real function by unit bitmap_ba/mem_is_zero; the callers' units (ba_test_clear_bmap_extent ...)
 * REPLACE the call by this same contract.  Include after verif.h, before the real file.
 */
#ifndef C16_BA_MEM_IS_ZERO_H
#define C16_BA_MEM_IS_ZERO_H
#include <stddef.h>
#ifndef VERIF_NATIVE
extern const unsigned char *verif_p1;	/* ghost: one arbitrary byte address, chosen by the harness */
extern const unsigned char *verif_p2;	/* ghost: witness (address of a non-zero byte) when the answer is 0 */
#define C16_IN_BYTES(p, mem, len) (__CPROVER_same_object((p), (mem)) && (p) >= (const unsigned char *)(mem) && \
				   (p) < (const unsigned char *)(mem) + (len))
#endif
int ext2fs_mem_is_zero(const char *mem, size_t len)
	REQUIRES(len == 0 || __CPROVER_r_ok(mem, len))
	ENSURES(RET == 0 || RET == 1)
	ENSURES(RET == 0 || !C16_IN_BYTES(verif_p1, mem, len) || *verif_p1 == 0)
	ENSURES(RET == 1 || (C16_IN_BYTES(verif_p2, mem, len) && *verif_p2 != 0))
	ASSIGNS(verif_p2);
#endif
