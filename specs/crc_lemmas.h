/*
 * crc_lemmas.h -- statements of the lemmas that link the slice-by-8 table formula of crc32_body (lib/ext2fs/crc32c.c)
 * to the bitwise CRC definitions of crc_spec.h.  Include AFTER the real crc32c.c (the tables are file-static there).
 *
 * A lemma is a ghost function with an empty frame and a postcondition ("lemma function").  The unit that PROVES the
 * lemma enforces the contract (goto-instrument --enforce-contract: the postcondition is checked for every argument
 * value); a unit that USES the lemma calls the function at the instance it needs and has the call replaced by the
 * contract (--replace-call-with-contract: the postcondition is assumed at exactly these arguments).  This is the
 * framework's ordinary callee-contract mechanism, so the driver's evidence lists for every use whether the lemma is
 * enforced by some unit.
 *
 * Two variants, selected by CRC_VARIANT_BE before inclusion:
 *   (default)       CRC-32C reflected, tables crc32ctable_le, state kept as is;
 *   CRC_VARIANT_BE  CRC-32 MSB-first, tables crc32table_be.  On a little-endian host crc32_be_generic byte-swaps the
 *                   state (crc = __cpu_to_be32(crc)), runs the SAME crc32_body on byte-swapped tables (tobe()), and
 *                   swaps back.  All lemmas are stated in this "memory domain": m = swab32(true CRC state).
 *
 * Memory-domain zero-byte step  CRC_Z(m): what eight message bits of the bitwise definition do to the state, seen
 * in the memory domain.  Feeding message byte b is CRC_Z(m ^ b) in both variants:
 *   LE: spec_crc32c_byte(m, b) = spec_crc32c_8bits(m ^ b)                       (definition)
 *   BE: swab32(spec_crc32be_byte(C, b)) = swab32(spec_crc32be_8bits(C ^ (b << 24)))
 *                                        = swab32(spec_crc32be_8bits(swab32(swab32(C) ^ b))) = CRC_Z(swab32(C) ^ b)
 *       (swab32 is a permutation of wires; the BE units re-prove this identity inside their own queries).
 */
#ifndef VERIF_CRC_LEMMAS_H
#define VERIF_CRC_LEMMAS_H
#include "verif.h"
#include "crc_spec.h"

#ifdef CRC_VARIANT_BE
# define CRC_TBL crc32table_be
# define CRC_FN(n) crc32be_##n
static inline uint32_t crc32be_memstep(uint32_t m) { return spec_swab32(spec_crc32be_8bits(spec_swab32(m))); }
# define CRC_Z(m) crc32be_memstep(m)
#else
# define CRC_TBL crc32ctable_le
# define CRC_FN(n) crc32c_##n
# define CRC_Z(m) spec_crc32c_8bits(m)
#endif

/*
 * The slice-by-8 formula (Intel "slicing-by-8", little-endian word loads): one 8-byte step maps the state c and
 * the two 32-bit words w0 (message bytes 0..3, byte 0 in the low lane) and w1 (bytes 4..7) to the xor of eight
 * table entries.  Written from the algorithm's definition, lane by lane, so that every use below shares the text.
 */
#define CRC_SL7(c, w0) CRC_TBL[7][((c) ^ (w0)) & 255]
#define CRC_SL6(c, w0) CRC_TBL[6][(((c) ^ (w0)) >> 8) & 255]
#define CRC_SL5(c, w0) CRC_TBL[5][(((c) ^ (w0)) >> 16) & 255]
#define CRC_SL4(c, w0) CRC_TBL[4][(((c) ^ (w0)) >> 24) & 255]
#define CRC_SL3(w1) CRC_TBL[3][(w1) & 255]
#define CRC_SL2(w1) CRC_TBL[2][((w1) >> 8) & 255]
#define CRC_SL1(w1) CRC_TBL[1][((w1) >> 16) & 255]
#define CRC_SL0(w1) CRC_TBL[0][((w1) >> 24) & 255]
#define CRC_SLICE8(c, w0, w1) (CRC_SL7(c, w0) ^ CRC_SL6(c, w0) ^ CRC_SL5(c, w0) ^ CRC_SL4(c, w0) ^ \
			       CRC_SL3(w1) ^ CRC_SL2(w1) ^ CRC_SL1(w1) ^ CRC_SL0(w1))

/* eight message bytes (w0 byte 0 first ... w1 byte 3 last) through the bitwise definition, memory domain */
static inline uint32_t CRC_FN(bytes8)(uint32_t m, uint32_t w0, uint32_t w1)
{
	m = CRC_Z(m ^ (w0 & 255));
	m = CRC_Z(m ^ ((w0 >> 8) & 255));
	m = CRC_Z(m ^ ((w0 >> 16) & 255));
	m = CRC_Z(m ^ ((w0 >> 24) & 255));
	m = CRC_Z(m ^ (w1 & 255));
	m = CRC_Z(m ^ ((w1 >> 8) & 255));
	m = CRC_Z(m ^ ((w1 >> 16) & 255));
	m = CRC_Z(m ^ ((w1 >> 24) & 255));
	return m;
}

/*
 * LEMMA LIN2: the zero-byte step is linear over xor.  Pure mathematics of the shift/xor register (no table, no
 * repository code).  Proved by crc/crc32c_lemma_lin2 resp. crc/crc32be_lemma_lin2 for all 2^64 argument pairs.
 */
void CRC_FN(lemma_lin2)(uint32_t u, uint32_t v)
	ENSURES(CRC_Z(u ^ v) == (CRC_Z(u) ^ CRC_Z(v)))
	ASSIGNS();

/*
 * LEMMA E: one slice-by-8 step over the generated tables equals eight byte steps of the bitwise definition, for
 * every state and every eight message bytes.  Stated as a value-returning lemma function: the value it returns IS
 * the bitwise definition's state after the eight bytes (first clause), and it equals the table formula (second
 * clause).  A ghost fold that advances by this function therefore follows the bitwise definition, and a loop
 * invariant "code state == ghost fold" can be established from the second clause without ever unfolding the 64 bit
 * steps.  Proved by the units crc/crc32c_lemma_e_1..5 resp. crc/crc32be_lemma_e_1..5 (proofs/crc/lemma_e.c holds
 * the proof script and documents its chaining).
 */
uint32_t CRC_FN(lemma_e)(uint32_t m, uint32_t w0, uint32_t w1)
	ENSURES(RET == CRC_FN(bytes8)(m, w0, w1))
	ENSURES(RET == CRC_SLICE8(m, w0, w1))
	ASSIGNS();

#endif
