/*
 * crc_spec.h -- mathematical definitions of the two 32-bit CRCs of lib/ext2fs/crc32c.c, written from the
 * definitions of the codes (one shift/xor step per message bit), independently of the table-driven code.
 *
 *  CRC-32C (Castagnoli, iSCSI / ext4 metadata_csum), "little-endian" = reflected bit order:
 *      generator 0x1EDC6F41, reflected 0x82F63B78; per message byte: xor the byte into the LOW byte of the state,
 *      then 8 times: shift right by one, xor the reflected polynomial in when the bit shifted out was 1.
 *      No initial / final inversion: ext2fs_crc32c_le(seed, buf, len) is the raw register update.
 *  CRC-32 big-endian (IEEE 802.3 generator 0x04C11DB7, MSB first; used by jbd2 for journal checksums v1):
 *      per message byte: xor the byte into the HIGH byte of the state, then 8 times: shift left by one, xor the
 *      polynomial in when the bit shifted out was 1.
 */
#ifndef VERIF_CRC_SPEC_H
#define VERIF_CRC_SPEC_H
#include <stdint.h>

#define SPEC_CRC32C_POLY_REFLECTED 0x82F63B78u
#define SPEC_CRC32_POLY_MSB_FIRST  0x04C11DB7u

/* one message bit, reflected CRC-32C */
static inline uint32_t spec_crc32c_bit(uint32_t x)
{
	return (x >> 1) ^ ((x & 1u) ? SPEC_CRC32C_POLY_REFLECTED : 0u);
}
/* eight bit steps: what one message byte does once it has been xor-ed into the state */
static inline uint32_t spec_crc32c_8bits(uint32_t x)
{
	x = spec_crc32c_bit(x); x = spec_crc32c_bit(x); x = spec_crc32c_bit(x); x = spec_crc32c_bit(x);
	x = spec_crc32c_bit(x); x = spec_crc32c_bit(x); x = spec_crc32c_bit(x); x = spec_crc32c_bit(x);
	return x;
}
/* one message byte */
static inline uint32_t spec_crc32c_byte(uint32_t crc, unsigned char b)
{
	return spec_crc32c_8bits(crc ^ (uint32_t)b);
}

/* one message bit, MSB-first CRC-32 */
static inline uint32_t spec_crc32be_bit(uint32_t x)
{
	return (x << 1) ^ ((x & 0x80000000u) ? SPEC_CRC32_POLY_MSB_FIRST : 0u);
}
static inline uint32_t spec_crc32be_8bits(uint32_t x)
{
	x = spec_crc32be_bit(x); x = spec_crc32be_bit(x); x = spec_crc32be_bit(x); x = spec_crc32be_bit(x);
	x = spec_crc32be_bit(x); x = spec_crc32be_bit(x); x = spec_crc32be_bit(x); x = spec_crc32be_bit(x);
	return x;
}
static inline uint32_t spec_crc32be_byte(uint32_t crc, unsigned char b)
{
	return spec_crc32be_8bits(crc ^ ((uint32_t)b << 24));
}

/* byte reversal of a 32-bit word (pure wiring) */
static inline uint32_t spec_swab32(uint32_t x)
{
	return (x >> 24) | ((x >> 8) & 0xff00u) | ((x << 8) & 0xff0000u) | (x << 24);
}

/* the four bytes a little-endian 32-bit load reads */
#define SPEC_LE32(p) ((uint32_t)(p)[0] | ((uint32_t)(p)[1] << 8) | ((uint32_t)(p)[2] << 16) | ((uint32_t)(p)[3] << 24))
#endif
