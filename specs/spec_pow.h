/*
 * Independent specification of "group carries a backup superblock", written
 * from the ext4 on-disk format (Documentation/filesystems/ext4: sparse_super,
 * sparse_super2), not from closefs.c.  No multiplication or division: the
 * powers below 2^32 are listed explicitly.
 */
#ifndef SPEC_POW_H
#define SPEC_POW_H
static int spec_is_pow(unsigned int a, unsigned int b)
{
	if (b == 3)
		return a == 3u || a == 9u || a == 27u || a == 81u || a == 243u || a == 729u ||
		       a == 2187u || a == 6561u || a == 19683u || a == 59049u || a == 177147u ||
		       a == 531441u || a == 1594323u || a == 4782969u || a == 14348907u ||
		       a == 43046721u || a == 129140163u || a == 387420489u ||
		       a == 1162261467u || a == 3486784401u;
	if (b == 5)
		return a == 5u || a == 25u || a == 125u || a == 625u || a == 3125u || a == 15625u ||
		       a == 78125u || a == 390625u || a == 1953125u || a == 9765625u ||
		       a == 48828125u || a == 244140625u || a == 1220703125u;
	if (b == 7)
		return a == 7u || a == 49u || a == 343u || a == 2401u || a == 16807u || a == 117649u ||
		       a == 823543u || a == 5764801u || a == 40353607u || a == 282475249u ||
		       a == 1977326743u;
	return 0;
}

#define SPEC_COMPAT_SPARSE_SUPER2	0x0200u
#define SPEC_RO_COMPAT_SPARSE_SUPER	0x0001u

static int spec_bg_has_super(unsigned int group, unsigned int compat, unsigned int ro_compat,
			     unsigned int bg0, unsigned int bg1)
{
	if (group == 0)
		return 1;
	if (compat & SPEC_COMPAT_SPARSE_SUPER2)
		return group == bg0 || group == bg1;
	if (!(ro_compat & SPEC_RO_COMPAT_SPARSE_SUPER))
		return 1;
	return group == 1 || spec_is_pow(group, 3) || spec_is_pow(group, 5) || spec_is_pow(group, 7);
}
#endif
