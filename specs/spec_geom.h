/*
 * spec_geom.h — independent specification of where the ext2/3/4 on-disk format puts
 * superblock copies and group-descriptor blocks.  Written from
 *   Documentation/filesystems/ext4 (Layout, "Meta Block Groups", "Super Block":
 *   s_first_data_block, s_first_meta_bg, s_reserved_gdt_blocks) and the kernel's
 *   fs/ext4/super.c:descriptor_loc(), fs/ext4/balloc.c:ext4_bg_num_gdb(),
 * NOT from lib/ext2fs/closefs.c / openfs.c.
 *
 * Conventions: everything is a pure function of plain integers.  The number of
 * descriptors per block is a power of two and is passed as its log2 (ldpb), so the
 * meta group of a group is a shift and the position inside it a mask: no division.
 * The only product is group * blocks_per_group.
 */
#ifndef SPEC_GEOM_H
#define SPEC_GEOM_H
#include "spec_pow.h"

typedef unsigned long long spec_u64;

struct spec_geom {
	unsigned int blocksize;		/* 1024 << s_log_block_size */
	unsigned int ldpb;		/* log2(descriptors per block) = log2(blocksize / desc_size) */
	unsigned int bpg;		/* s_blocks_per_group */
	unsigned int fdb;		/* s_first_data_block */
	int meta_bg;			/* INCOMPAT_META_BG */
	unsigned int first_meta_bg;	/* s_first_meta_bg */
	unsigned int desc_blocks;	/* ceil(groups / dpb) */
	unsigned int reserved_gdt;	/* s_reserved_gdt_blocks */
	unsigned int compat, ro_compat, bbg0, bbg1;	/* inputs of spec_bg_has_super */
};

static int spec_geom_has_super(const struct spec_geom *c, unsigned int g)
{
	return spec_bg_has_super(g, c->compat, c->ro_compat, c->bbg0, c->bbg1) != 0;
}

/*
 * first block of group g.  Units that cannot afford the symbolic product define
 * SPEC_GEOM_GROUP_FIRST(c, g) as an oracle constrained by the arithmetic consequences of this
 * formula that they need (and say so in their "assumes").
 */
static spec_u64 spec_geom_group_first(const struct spec_geom *c, unsigned int g)
{
#ifdef SPEC_GEOM_GROUP_FIRST
	return SPEC_GEOM_GROUP_FIRST(c, g);
#else
	return (spec_u64)c->fdb + (spec_u64)c->bpg * g;
#endif
}

/*
 * Block that holds the superblock copy of a group that has one.  The primary superblock
 * lives at byte offset 1024 of the device, i.e. block 1 for 1 KiB blocks and inside block 0
 * otherwise; with s_first_data_block == 1 (1 KiB, no bigalloc) that is the first block of
 * group 0, with s_first_data_block == 0 and 1 KiB blocks (bigalloc) group 0 starts at the
 * padding block 0 and the superblock is its SECOND block.  Backups sit in the first block of
 * their group.
 */
static spec_u64 spec_geom_super_loc(const struct spec_geom *c, unsigned int g)
{
	spec_u64 first = spec_geom_group_first(c, g);
	if (g == 0 && c->blocksize == 1024 && first == 0)
		return 1;
	return first;
}

/* does group g belong to the part of the filesystem laid out with meta block groups? */
static int spec_geom_in_meta_region(const struct spec_geom *c, unsigned int g)
{
	return c->meta_bg && (g >> c->ldpb) >= c->first_meta_bg;
}

/* number of old-style (contiguous, after the superblock) descriptor + reserved GDT blocks in a backup group */
static spec_u64 spec_geom_old_desc_count(const struct spec_geom *c)
{
	if (c->meta_bg)
		return c->first_meta_bg;
	return (spec_u64)c->desc_blocks + c->reserved_gdt;
}

/* what ext2fs_super_and_bgd_loc2 must report for group g (0 = "none") */
static spec_u64 spec_geom_ret_super(const struct spec_geom *c, unsigned int g)
{
	return spec_geom_has_super(c, g) ? spec_geom_super_loc(c, g) : 0;
}

static spec_u64 spec_geom_ret_old_desc(const struct spec_geom *c, unsigned int g)
{
	if (spec_geom_in_meta_region(c, g) || !spec_geom_has_super(c, g))
		return 0;
	return spec_geom_super_loc(c, g) + 1;
}

/* position of g inside its meta group is first, second or last */
static int spec_geom_meta_holder(const struct spec_geom *c, unsigned int g)
{
	unsigned int dpb = 1u << c->ldpb, p = g & (dpb - 1);
	return p == 0 || p == 1 || p == dpb - 1;
}

static spec_u64 spec_geom_ret_new_desc(const struct spec_geom *c, unsigned int g)
{
	if (!spec_geom_in_meta_region(c, g) || !spec_geom_meta_holder(c, g))
		return 0;
	/* the descriptor block follows the superblock copy if there is one, else it is the group's first block */
	return spec_geom_has_super(c, g) ? spec_geom_super_loc(c, g) + 1 : spec_geom_group_first(c, g);
}

static spec_u64 spec_geom_ret_used(const struct spec_geom *c, unsigned int g)
{
	spec_u64 n = spec_geom_has_super(c, g) ? 1 : 0;
	if (!spec_geom_in_meta_region(c, g))
		return n ? n + spec_geom_old_desc_count(c) : 0;
	return n + (spec_geom_meta_holder(c, g) ? 1 : 0);
}

/*
 * READER side (kernel descriptor_loc generalised to "opened from the superblock copy in group g0").
 * A reader must fetch descriptor block i from a block the format fills with descriptor block i:
 *   old-style part (no meta_bg, or i < first_meta_bg): the contiguous copy following the superblock
 *   the filesystem was opened from:  super_loc(g0) + 1 + i   (g0 outside the meta_bg region).
 *   meta_bg part: descriptor block i describes meta group i; its copies live in the first, second
 *   and last group of that meta group.  The primary is the one in the first group (the only one the
 *   kernel reads); a reader that was opened from a backup superblock distrusts the primary and
 *   uses the copy in the SECOND group when that group exists.
 */
static spec_u64 spec_geom_desc_copy_loc(const struct spec_geom *c, unsigned int holder_group)
{
	return spec_geom_has_super(c, holder_group) ? spec_geom_super_loc(c, holder_group) + 1
						    : spec_geom_group_first(c, holder_group);
}

static int spec_geom_desc_is_old_style(const struct spec_geom *c, unsigned int i)
{
	return !c->meta_bg || i < c->first_meta_bg;
}

static spec_u64 spec_geom_old_desc_loc(const struct spec_geom *c, unsigned int g0, unsigned int i)
{
	return spec_geom_super_loc(c, g0) + 1 + i;
}

/* first group of meta group i (descriptors per block is 1 << ldpb) */
static unsigned int spec_geom_meta_first_group(const struct spec_geom *c, unsigned int i)
{
	return i << c->ldpb;
}
/*
 * WHO CHARGES A GROUP'S BLOCK BITMAP, INODE BITMAP AND INODE TABLE AGAINST THE FREE-BLOCK COUNTS AT MKFS TIME.
 * Format facts: bg_free_blocks_count of a group = blocks of the group that no metadata and no file uses.  The
 * three tables of group g lie IN group g unless flexible block groups are in use, i.e. unless the FLEX_BG feature
 * is set AND s_log_groups_per_flex != 0 (a flex group of 2^0 = 1 groups is no grouping: Documentation/filesystems/
 * ext4 "Flexible Block Groups"; kernel ext4_fill_flex_info: "if (sbi->s_log_groups_per_flex < 1 ...) no flex").
 * Two library functions cooperate when mke2fs builds the descriptors:
 *   ext2fs_initialize            charges 2 + inode_blocks_per_group to every group up front (before the tables
 *                                have a location) -- right exactly when the tables will lie in their own group;
 *   ext2fs_allocate_group_table  charges each table block to the group it actually lands in, when it places it.
 * Every table block must be charged EXACTLY ONCE, so both sides must decide by the SAME predicate.  This is that
 * predicate; the contracts of BOTH units (geometry/initialize_group_accounting, geometry/allocate_group_table_*)
 * are written with it and with nothing else, so a change of the decision on one side only fails an obligation.
 * Macro form because loop invariants may not call functions.
 */
#define SPEC_TABLES_CHARGED_BY_INITIALIZE(flex_bg_feature, log_groups_per_flex) \
	(!((flex_bg_feature) && (log_groups_per_flex) != 0))
static int spec_tables_charged_by_initialize(int flex_bg_feature, unsigned int log_groups_per_flex)
{
	return SPEC_TABLES_CHARGED_BY_INITIALIZE(flex_bg_feature, log_groups_per_flex);
}
#endif
