/*
 * xattr_spec.h — space accounting and ordering of extended-attribute entries, transcribed from the on-disk
 * format / the kernel's definitions (fs/ext4/xattr.h, fs/ext4/xattr.c), independently of lib/ext2fs/ext_attr.c:
 *
 *   struct ext4_xattr_entry is 16 bytes (e_name_len u8, e_name_index u8, e_value_offs le16, e_value_inum le32,
 *   e_value_size le32, e_hash le32) followed by e_name_len name bytes;
 *       EXT4_XATTR_PAD   = 4
 *       EXT4_XATTR_LEN(name_len) = (name_len + 3 + 16) & ~3          space of one entry in the entry table
 *       EXT4_XATTR_SIZE(size)    = (size + 3) & ~3                    space of one value in the value area
 *   an entry whose value lives in an EA inode (e_value_inum != 0) occupies NO bytes of the value area
 *   (ext4_xattr_set_entry: "if (!s->here->e_value_inum && s->here->e_value_size) free += EXT4_XATTR_SIZE(old size)");
 *   the entry table is closed by a 4-byte zero terminator (IS_LAST_ENTRY: *(__u32 *)entry == 0);
 *   entries of an xattr BLOCK are sorted by (e_name_index, e_name_len, memcmp of the name bytes)
 *   (ext4_xattr_find_entry with sorted = 1); names are at most 255 bytes (e_name_len is one byte).
 *
 * All sizes are computed in 64 bits so that the specification itself cannot wrap.
 * Macros only (usable in loop invariants and ghost statements).
 */
#ifndef XATTR_SPEC_H
#define XATTR_SPEC_H
#define XSPEC_NAME_MAX 255
#define XSPEC_ENTRY_HDR 16ull
#define XSPEC_TERMINATOR 4ull
#define XSPEC_ROUND4(n) (((unsigned long long)(n) + 3ull) & ~3ull)	/* kernel: (x + EXT4_XATTR_ROUND) & ~EXT4_XATTR_ROUND */
#define XSPEC_ENTRY_LEN(name_len) XSPEC_ROUND4(XSPEC_ENTRY_HDR + (unsigned long long)(name_len))
#define XSPEC_VALUE_SIZE(size) XSPEC_ROUND4(size)
/* bytes of a region (inode body or block) one attribute occupies */
#define XSPEC_NEED(name_len, value_len, ea_ino) \
	(XSPEC_ENTRY_LEN(name_len) + ((ea_ino) ? 0ull : XSPEC_VALUE_SIZE(value_len)))

#ifndef VERIF_NATIVE
/*
 * Length of the C string at p as an uninterpreted (pure) function of the pointer: used where the strings are
 * not modified and only the fact "strlen is a function of its argument" matters.  Units that rely on it define
 * strlen() as this function (see proofs/xattr/xat_common.h).
 */
unsigned long __CPROVER_uninterpreted_xspec_strlen(const char *);
#define XSPEC_STRLEN(p) ((unsigned long long)__CPROVER_uninterpreted_xspec_strlen((const char *)(p)))
/* sign of memcmp(p, q, n) as an uninterpreted function (same remark) */
int __CPROVER_uninterpreted_xspec_memcmp(const void *, const void *, unsigned long);
#define XSPEC_MEMCMP(p, q, n) __CPROVER_uninterpreted_xspec_memcmp((const void *)(p), (const void *)(q), (unsigned long)(n))
#endif

/*
 * kernel order on keys: index, then name length, then bytes (ext4_xattr_find_entry:
 *     cmp = name_index - entry->e_name_index; if (!cmp) cmp = name_len - entry->e_name_len;
 *     if (!cmp) cmp = memcmp(name, entry->e_name, name_len);   sorted: stop at the first entry with cmp <= 0).
 * cmp_key_entry is memcmp(key name, entry name, key length), only meaningful when the lengths are equal.
 */
#define XSPEC_ENTRY_LT_KEY(eidx, elen, kidx, klen, cmp_key_entry) \
	((eidx) < (kidx) || ((eidx) == (kidx) && ((elen) < (klen) || ((elen) == (klen) && (cmp_key_entry) > 0))))
/* generic form; bytes_cmp = memcmp(a bytes, b bytes, common length) */
#define XSPEC_KEY_LT(ai, al, bi, bl, bytes_cmp) \
	((ai) < (bi) || ((ai) == (bi) && ((al) < (bl) || ((al) == (bl) && (bytes_cmp) < 0))))
#define XSPEC_KEY_LE(ai, al, bi, bl, bytes_cmp) \
	((ai) < (bi) || ((ai) == (bi) && ((al) < (bl) || ((al) == (bl) && (bytes_cmp) <= 0))))
#endif
