/*
 * resize_extent_spec.h — the old→new translation table of resize2fs as an abstract map.
 *
 * Written from what resize2fs needs of it (C08: "every reference is rewritten to the block's / inode's new
 * location"), not from resize/extent.c: the table is a finite set of runs (old, new, size); run e maps every
 * x with old <= x < old + size to new + (x - old); a location that lies in no run is not moved (lookup gives 0,
 * which callers read as "unchanged").  A lookup is only meaningful on a table whose runs are pairwise disjoint;
 * the representation additionally keeps them ordered by old location (flag `sorted`), which is what a binary
 * search needs.
 *
 * Included AFTER the real resize/extent.c (struct ext2_extent_entry is private to that file).  Macros, so that
 * they can be used inside loop invariants.
 */
#ifndef RESIZE_EXTENT_SPEC_H
#define RESIZE_EXTENT_SPEC_H

/* run e covers location x (for a well-formed run, XSPEC_WF: old + size does not wrap) */
#define XSPEC_COVERS(e, x)	((x) >= (e).old_loc && (x) < (e).old_loc + (e).size)
/* image of x under run e (meaningful when XSPEC_COVERS) */
#define XSPEC_IMAGE(e, x)	((e).new_loc + ((x) - (e).old_loc))
/* run a lies completely in front of run b (ordered and disjoint); a.old + a.size does not wrap for block / inode numbers */
#define XSPEC_BEFORE(a, b)	((a).old_loc + (a).size <= (b).old_loc && (a).old_loc + (a).size >= (a).old_loc)
/* a run is well formed: not empty, and it lies inside the 64-bit location space on both sides (no wrap) */
#define XSPEC_WF(e)		((e).size >= 1 && (e).old_loc + (e).size > (e).old_loc && (e).new_loc + (e).size > (e).new_loc)

#endif
