/*
 * resize_extent_spec.h — the old→new translation table of resize2fs as an abstract map.
 *
 * Written from what resize2fs needs of it (C08: "every reference is rewritten to the block's / inode's new
 * location"), not from resize/extent.c: the table is a finite set of runs (old, new, size); run e maps every
 * x with old <= x < old + size to new + (x - old); a location that lies in no run is not moved (lookup gives 0,
 * which callers read as "unchanged").  A lookup is only meaningful on a table whose runs are pairwise disjoint;
 * the representation additionally keeps them ordered by old location (flag `sorted`), which is what a binary
 * search needs.
 *
 * Macros only (usable inside loop invariants and in the named anchors of resize/extent.c); a run is anything with the
 * fields old_loc, new_loc, size (struct ext2_extent_entry is private to resize/extent.c).
 */
#ifndef RESIZE_EXTENT_SPEC_H
#define RESIZE_EXTENT_SPEC_H

/* run e covers location x (for a well-formed run, XSPEC_WF: old + size does not wrap) */
#define XSPEC_COVERS(e, x)	((x) >= (e).old_loc && (x) < (e).old_loc + (e).size)
/* image of x under run e (meaningful when XSPEC_COVERS) */
#define XSPEC_IMAGE(e, x)	((e).new_loc + ((x) - (e).old_loc))
/* run a lies completely in front of run b (ordered and disjoint; for well-formed runs) */
#define XSPEC_BEFORE(a, b)	((a).old_loc + (a).size <= (b).old_loc)
/*
 * Locations are block numbers (clusters) or inode numbers.  ext4 block numbers have 48 bits (ee_start_hi:ee_start_lo,
 * bg_*_hi:bg_*_lo with 64bit; s_blocks_count is checked against that by ext2fs_open), inode numbers 32.
 */
#define XSPEC_LOC_LIMIT		(1ULL << 48)
#define XSPEC_LOC_OK(x)		((x) < XSPEC_LOC_LIMIT)
/* a run is well formed: not empty, and it lies inside the location space on both sides */
#define XSPEC_WF(e)		((e).size >= 1 && (e).size <= XSPEC_LOC_LIMIT && XSPEC_LOC_OK((e).old_loc) && XSPEC_LOC_OK((e).new_loc) && \
				 (e).old_loc + (e).size <= XSPEC_LOC_LIMIT && (e).new_loc + (e).size <= XSPEC_LOC_LIMIT)

#endif
