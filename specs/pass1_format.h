/*
 * pass1_format.h — INDEPENDENT per-object format predicates for the pass-1 decision helpers (proofs/pass1/).
 *
 * Written from the ext4 on-disk format documentation (Documentation/filesystems/ext4: inodes.rst "Inode Size",
 * "Inode Timestamps", "The Contents of inode.i_block" -> "Symbolic Links", "Extent Tree", "Direct/Indirect Block
 * Addressing"; blockgroup.rst "Layout"; group_descr.rst) and from what the kernel refuses to load (fs/ext4/inode.c:
 * __ext4_iget, ext4_inode_is_fast_symlink; fs/ext4/extents.c: ext4_valid_extent / ext4_valid_extent_entries;
 * fs/ext4/block_validity.c: ext4_inode_block_valid; fs/crypto/hooks.c: fscrypt_get_symlink) — NOT from e2fsck.
 *
 * Raw little-endian views: every predicate takes the inode as a byte pointer `b` (offset 0 = i_mode) or plain numbers,
 * never an e2fsprogs struct.  The verification host is little-endian, as is the in-memory inode inside e2fsck after
 * ext2fs_get_next_inode_full.
 *
 * Two strengths, as in pass2_format.h:
 *   *_FORMAT_OK  what the format demands; an object VIOLATING it is inconsistent and must be answered by a problem
 *                that counts for the exit status (no PR_NO_OK), or by the checker's "not valid" verdict (C02);
 *   *_HEALTHY    FORMAT_OK plus the conventions of every writer that e2fsck documents as expected; a HEALTHY object
 *                must be neither reported nor touched (C05).
 */
#ifndef PASS1_FORMAT_H
#define PASS1_FORMAT_H

#define P1F_U8(b, o)   ((unsigned)((const unsigned char *)(b))[(o)])
#define P1F_LE16(b, o) (P1F_U8(b, o) | (P1F_U8(b, (o) + 1) << 8))
#define P1F_LE32(b, o) (P1F_U8(b, o) | (P1F_U8(b, (o) + 1) << 8) | (P1F_U8(b, (o) + 2) << 16) | (P1F_U8(b, (o) + 3) << 24))

/* ---- struct ext4_inode, byte offsets (inodes.rst, table "The inode table entry") ---- */
#define P1F_OFF_MODE		0	/* __le16 */
#define P1F_OFF_SIZE_LO		4	/* __le32 */
#define P1F_OFF_ATIME		8
#define P1F_OFF_CTIME		12
#define P1F_OFF_MTIME		16
#define P1F_OFF_LINKS		26	/* __le16 */
#define P1F_OFF_FLAGS		32	/* __le32 */
#define P1F_OFF_BLOCK		40	/* 15 x __le32 = 60 bytes */
#define P1F_OFF_SIZE_HIGH	108	/* __le32 */
#define P1F_GOOD_OLD_INODE_SIZE	128u
#define P1F_OFF_EXTRA_ISIZE	128	/* __le16 */
#define P1F_OFF_CTIME_EXTRA	132
#define P1F_OFF_MTIME_EXTRA	136
#define P1F_OFF_ATIME_EXTRA	140
#define P1F_OFF_CRTIME		144
#define P1F_OFF_CRTIME_EXTRA	148
#define P1F_IBLOCK_BYTES	60u

#define P1F_MODE(b)	P1F_LE16(b, P1F_OFF_MODE)
#define P1F_FLAGS(b)	P1F_LE32(b, P1F_OFF_FLAGS)
#define P1F_SIZE_LO(b)	P1F_LE32(b, P1F_OFF_SIZE_LO)
#define P1F_SIZE_HIGH(b) P1F_LE32(b, P1F_OFF_SIZE_HIGH)
#define P1F_IBLOCK(b, i) P1F_LE32(b, P1F_OFF_BLOCK + 4 * (i))
#define P1F_EXTRA_ISIZE(b) P1F_LE16(b, P1F_OFF_EXTRA_ISIZE)

/* i_mode file type (S_IFMT) */
#define P1F_IFMT	0xF000u
#define P1F_IFIFO	0x1000u
#define P1F_IFCHR	0x2000u
#define P1F_IFDIR	0x4000u
#define P1F_IFBLK	0x6000u
#define P1F_IFREG	0x8000u
#define P1F_IFLNK	0xA000u
#define P1F_IFSOCK	0xC000u

/* i_flags (inodes.rst, "i_flags") */
#define P1F_FL_IMMUTABLE	0x00000010u
#define P1F_FL_APPEND		0x00000020u
#define P1F_FL_ENCRYPT		0x00000800u
#define P1F_FL_INDEX		0x00001000u	/* hashed directory */
#define P1F_FL_EXTENTS		0x00080000u
#define P1F_FL_INLINE_DATA	0x10000000u

/*
 * ---- i_extra_isize ("Inode Size") ----
 * "i_extra_isize: size of this inode - 128".  The record on disk is s_inode_size bytes; the fixed fields beyond the
 * first 128 bytes occupy [128, 128 + i_extra_isize); in-inode extended attributes start right behind them.  The
 * kernel refuses an inode with 128 + i_extra_isize > s_inode_size or i_extra_isize not a multiple of 4
 * ("bad extra_isize"); 0 means "no extra fields" (upgraded ext3 inode).  A non-zero value covers at least
 * i_extra_isize itself and its 16-bit neighbour (4 bytes) — implied by the alignment rule.
 * With 128-byte inodes the field does not exist.
 */
#define P1F_EXTRA_ISIZE_FORMAT_OK(extra, inode_size) \
	((inode_size) == P1F_GOOD_OLD_INODE_SIZE || (extra) == 0 || \
	 ((extra) >= 4u && ((extra) & 3u) == 0 && P1F_GOOD_OLD_INODE_SIZE + (extra) <= (inode_size)))

/* a fixed field at byte offset `off` of width `w` exists in this inode iff it lies inside [0, 128 + i_extra_isize)
 * (kernel: EXT4_FITS_IN_INODE) */
#define P1F_FITS_IN_INODE(off, w, extra) ((unsigned)(off) + (unsigned)(w) <= P1F_GOOD_OLD_INODE_SIZE + (unsigned)(extra))

/*
 * ---- extra timestamp bits ("Inode Timestamps") ----
 * the low two bits of an *_extra field extend the signed 32-bit seconds field to 34 bits.  The combination
 * "seconds field negative, both epoch bits set" was written by kernels < 4.4 for pre-1970 dates and today decodes
 * to the years 2310..2378: format-valid but ambiguous; e2fsck documents that it asks about it (PR_NO_OK, grey zone).
 * The predicate only speaks about *_extra fields that EXIST in the inode.
 */
#define P1F_EPOCH_MASK 3u
#define P1F_XTIME_AMBIGUOUS(b, off_sec, off_extra, extra) \
	(P1F_FITS_IN_INODE(off_extra, 4, extra) && (P1F_LE32(b, off_sec) & 0x80000000u) != 0 && \
	 (P1F_LE32(b, off_extra) & P1F_EPOCH_MASK) == P1F_EPOCH_MASK)
#define P1F_ANY_XTIME_AMBIGUOUS(b, extra) \
	(P1F_XTIME_AMBIGUOUS(b, P1F_OFF_ATIME, P1F_OFF_ATIME_EXTRA, extra) || \
	 P1F_XTIME_AMBIGUOUS(b, P1F_OFF_CTIME, P1F_OFF_CTIME_EXTRA, extra) || \
	 P1F_XTIME_AMBIGUOUS(b, P1F_OFF_MTIME, P1F_OFF_MTIME_EXTRA, extra) || \
	 P1F_XTIME_AMBIGUOUS(b, P1F_OFF_CRTIME, P1F_OFF_CRTIME_EXTRA, extra))

/* in-inode extended attributes ("Extended Attributes": "the space between the end of the inode entry and the end of
 * the inode"): present iff the 32-bit word right behind the fixed fields is the magic; the smallest attribute area
 * is the magic followed by the 4-byte end-of-list marker, so there is room for one iff 8 bytes remain */
#define P1F_EA_MAGIC 0xEA020000u
#define P1F_HAS_IBODY_EA_ROOM(extra, inode_size) (P1F_GOOD_OLD_INODE_SIZE + (extra) + 8u <= (inode_size))

/*
 * ---- special files: character / block devices, FIFOs, sockets ----
 * They have no data: i_size is 0, i_block holds at most the device number (i_block[0] old encoding, i_block[1] new
 * encoding), and the flags that describe a block-mapping representation or a directory index — EXTENTS, INDEX,
 * INLINE_DATA — make no sense.  IMMUTABLE / APPEND cannot be set on them by any kernel interface (grey zone).
 */
#define P1F_IS_SPECIAL_MODE(mode) \
	(((mode) & P1F_IFMT) == P1F_IFCHR || ((mode) & P1F_IFMT) == P1F_IFBLK || \
	 ((mode) & P1F_IFMT) == P1F_IFIFO || ((mode) & P1F_IFMT) == P1F_IFSOCK)
#define P1F_SPECIAL_FLAGS_FORMAT_OK(b)	(!(P1F_FLAGS(b) & (P1F_FL_INDEX | P1F_FL_EXTENTS)))
#define P1F_SPECIAL_SIZE_FORMAT_OK(b)	(P1F_SIZE_LO(b) == 0 && P1F_SIZE_HIGH(b) == 0)
#define P1F_SPECIAL_HEALTHY(b) \
	(P1F_SPECIAL_FLAGS_FORMAT_OK(b) && P1F_SPECIAL_SIZE_FORMAT_OK(b) && \
	 !(P1F_FLAGS(b) & (P1F_FL_INLINE_DATA | P1F_FL_IMMUTABLE | P1F_FL_APPEND)))

/*
 * ---- symbolic links ("Symbolic Links") ----
 * "The target of a symbolic link will be stored in this field [i_block] if the target string is less than 60 bytes
 * long.  Otherwise, either extents or block maps will be used to allocate data blocks to store the link target."
 * i_size is the length of the target (no terminator counted), never 0; the kernel limits it to one block
 * (ext4_symlink: ENAMETOOLONG beyond the block size) and NUL-terminates what it writes; a target is a C string, so
 * no NUL inside.  A symlink is not a hashed directory (INDEX) and cannot be IMMUTABLE/APPEND (grey zone, as above).
 *   fast  (0 < i_size < 60):   text in i_block; i_block is not an extent root, so no EXTENTS flag
 *                               (kernel: "invalid fast symlink length" unless strnlen(i_block, i_size+1) == i_size);
 *   slow  (i_size >= 60):      exactly ONE data block — logical block 0 — in range; with a block map i_block[0] is it
 *                               and i_block[1..14] are 0; with EXTENTS the root is a leaf (depth 0) with exactly one
 *                               extent (lblk 0, len 1); i_size < block size; text as above in that block;
 *   inline (INLINE_DATA):      target lives in the system.data attribute (+ i_block); its stored length is i_size;
 *                               no EXTENTS flag (the two representations exclude each other);
 *   encrypted (ENCRYPT):       the stored object is struct fscrypt_symlink_data { __le16 len; char path[len]; },
 *                               i_size = 2 + len (fscrypt_prepare_symlink) and it must fit the container with the
 *                               terminator: 2 + len < 60 resp. < block size.
 */
/* the first `n` bytes at t are a C string of exactly length n: no NUL below n (stated at the witness/ghost index j),
 * NUL at n */
#define P1F_TEXT_NO_NUL_AT(t, n, j)	(!((j) < (n)) || P1F_U8(t, j) != 0)
#define P1F_TEXT_TERMINATED(t, n)	(P1F_U8(t, n) == 0)
#define P1F_ENC_LEN_OK(t, n)		(P1F_LE16(t, 0) + 2u == (n))

#define P1F_SYMLINK_COMMON_OK(b) \
	(P1F_SIZE_HIGH(b) == 0 && P1F_SIZE_LO(b) != 0 && !(P1F_FLAGS(b) & P1F_FL_INDEX))
#define P1F_SYMLINK_IS_FAST(b)	(P1F_SIZE_HIGH(b) == 0 && P1F_SIZE_LO(b) != 0 && P1F_SIZE_LO(b) < P1F_IBLOCK_BYTES)
/* container = the bytes that hold the text, cap = its capacity (60 or the block size) */
#define P1F_SYMLINK_TEXT_OK(b, text, cap, j) \
	(P1F_SIZE_LO(b) < (cap) && \
	 ((P1F_FLAGS(b) & P1F_FL_ENCRYPT) ? P1F_ENC_LEN_OK(text, P1F_SIZE_LO(b)) \
					  : (P1F_TEXT_NO_NUL_AT(text, P1F_SIZE_LO(b), j) && P1F_TEXT_TERMINATED(text, P1F_SIZE_LO(b)))))

/* ---- block numbers ("Layout": blocks [s_first_data_block, s_blocks_count) exist) ---- */
#define P1F_BLOCK_IN_RANGE(blk, first_data_block, blocks_count) \
	((unsigned long long)(blk) >= (unsigned long long)(first_data_block) && \
	 (unsigned long long)(blk) < (unsigned long long)(blocks_count))

/* the fixed metadata of one block group g, given what its descriptor says (group_descr.rst: bg_block_bitmap,
 * bg_inode_bitmap, bg_inode_table; the inode table is itb = s_inodes_per_group * s_inode_size / block size blocks
 * long); a location of 0 means "not set" (never a legal location: block 0 holds the boot sector / superblock) */
#define P1F_IS_BLOCK_BITMAP(b, bb)	((bb) != 0 && (b) == (bb))
#define P1F_IS_INODE_BITMAP(b, ib)	((ib) != 0 && (b) == (ib))
#define P1F_IN_INODE_TABLE(b, it, itb)	((it) != 0 && (b) >= (it) && (b) - (it) < (unsigned long long)(itb))
#define P1F_IS_GROUP_TABLE_BLOCK(b, bb, ib, it, itb) \
	(P1F_IS_BLOCK_BITMAP(b, bb) || P1F_IS_INODE_BITMAP(b, ib) || P1F_IN_INODE_TABLE(b, it, itb))

/*
 * ---- one leaf extent ("Extent Tree", struct ext4_extent; kernel ext4_valid_extent + ext4_valid_extent_entries) ----
 * decoded: lblk (ee_block), len (ee_len, already reduced by 32768 for unwritten extents), pblk (ee_start_hi:lo).
 *   len > 0; the logical range does not leave the 32-bit ee_block space; the physical range [pblk, pblk+len) lies inside
 *   [s_first_data_block, s_blocks_count) (and pblk != 0); entries of a node are sorted and do not overlap:
 *   lblk >= end of the previous extent (prev_end = previous lblk + len, 0 for the first).
 */
#define P1F_EXTENT_LEN_OK(len)		((len) > 0)
#define P1F_EXTENT_PHYS_OK(pblk, len, first_data_block, blocks_count) \
	((pblk) != 0 && (unsigned long long)(pblk) >= (unsigned long long)(first_data_block) && \
	 (unsigned long long)(pblk) < (unsigned long long)(blocks_count) && \
	 (unsigned long long)(pblk) + (unsigned long long)(len) <= (unsigned long long)(blocks_count))
#define P1F_EXTENT_ORDER_OK(lblk, prev_end)	((unsigned long long)(lblk) >= (unsigned long long)(prev_end))
/* ee_block is 32 bits wide: the last logical block lblk + len - 1 must still be a 32-bit number (ext4_valid_extent:
 * "lblock > last" in 32-bit arithmetic => invalid) */
#define P1F_EXTENT_LOGICAL_OK(lblk, len) \
	((unsigned long long)(lblk) + (unsigned long long)(len) <= (1ULL << 32))
/* everything but the logical-range rule (kept separate: see findings/C02_p1_extent_lblk_wrap) */
#define P1F_LEAF_EXTENT_FORMAT_OK_BUT_WRAP(lblk, len, pblk, first_data_block, blocks_count, prev_end) \
	(P1F_EXTENT_LEN_OK(len) && P1F_EXTENT_PHYS_OK(pblk, len, first_data_block, blocks_count) && \
	 P1F_EXTENT_ORDER_OK(lblk, prev_end))
#define P1F_LEAF_EXTENT_FORMAT_OK(lblk, len, pblk, first_data_block, blocks_count, prev_end) \
	(P1F_LEAF_EXTENT_FORMAT_OK_BUT_WRAP(lblk, len, pblk, first_data_block, blocks_count, prev_end) && \
	 P1F_EXTENT_LOGICAL_OK(lblk, len))

#endif
