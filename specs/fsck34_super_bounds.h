/*
 * fsck34_super_bounds.h — range bounds of the ext2/3/4 superblock geometry fields, written from the ext4 disk-layout
 * documentation ("The Super Block", "Block Group Descriptors"), the format header's constants (lib/ext2fs/ext2_fs.h =
 * the kernel's fs/ext4/ext4.h) and the kernel's mount-time validation (ext4_fill_super / ext4_check_geometry), NOT from
 * e2fsck/super.c.  Plain values in, booleans out; macros only.
 *
 * Two readings are kept apart:
 *   FSCK34_SBV_*  (NECESSARY): a superblock violating it is corrupt — the kernel refuses it or the layout is
 *                 self-contradictory.  C02 side: e2fsck must not accept it silently.
 *   FSCK34_SB_HEALTHY (SUFFICIENT): what mke2fs can produce; C05 side: e2fsck must raise none of the fatal problems.
 * (HEALTHY is tighter where e2fsprogs is stricter than the format: reserved blocks <= 50 %, inode table inside the
 * group next to superblock/descriptor/bitmaps, exact first data block.)
 */
#ifndef FSCK34_SUPER_BOUNDS_H
#define FSCK34_SUPER_BOUNDS_H

struct fsck34_sbv {
	unsigned long long blocks_count;	/* s_blocks_count_lo | hi << 32 (hi only with 64bit) */
	unsigned long long r_blocks_count;
	unsigned int inodes_count, first_data_block, log_block_size, log_cluster_size;
	unsigned int clusters_per_group, blocks_per_group, inodes_per_group;
	unsigned int reserved_gdt_blocks, desc_size, rev_level, first_ino;
	unsigned int inode_size;		/* 128 in revision 0, s_inode_size otherwise */
	unsigned int has_64bit;
	unsigned int groups;			/* number of block groups */
};

#define FSCK34_BS(v)		(1024ULL << (v).log_block_size)			/* block size in bytes */
#define FSCK34_RATIO(v)		(1ULL << ((v).log_cluster_size - (v).log_block_size))	/* blocks per cluster */
#define FSCK34_POW2(x)		((x) != 0 && (((x) & ((x) - 1)) == 0))
#define FSCK34_MAX_CPG		65528ULL	/* 2^16 - 8: 16-bit per-group counters, whole bitmap bytes */
#define FSCK34_MIN(a, b)	((a) < (b) ? (a) : (b))

/* ---- NECESSARY bounds ---- */
/* at least one inode, one block */
#define FSCK34_SBV_INODES_COUNT(v)	((v).inodes_count >= 1)
/* block numbers are 32 bits without the 64bit feature, 48 bits with it (extent leaves hold 48-bit block numbers); at
 * most 2^32 groups (group numbers are 32 bits) of at most 65528 clusters each */
#define FSCK34_BLOCKS_CAP(v)	((v).has_64bit ? (1ULL << 48) - 1 : (1ULL << 32) - 1)
/* (2^32 groups * 65528 * ratio exceeds 2^48 as soon as ratio >= 2: the group bound only matters without bigalloc) */
#define FSCK34_BLOCKS_MAX(v) \
	(FSCK34_RATIO(v) == 1 ? FSCK34_MIN(FSCK34_BLOCKS_CAP(v), (1ULL << 32) * FSCK34_MAX_CPG) : FSCK34_BLOCKS_CAP(v))
#define FSCK34_SBV_BLOCKS_COUNT(v)	((v).blocks_count >= 1 && (v).blocks_count <= FSCK34_BLOCKS_MAX(v))
/* "s_first_data_block ... must be less than the block count" (ext4_fill_super: first_data_block >= blocks_count) */
#define FSCK34_SBV_FIRST_DATA_LT(v)	((v).first_data_block < (v).blocks_count)
/* 1 KiB blocks: block 0 is the boot block, the superblock is block 1: "must be at least 1 for 1k-block filesystems" */
#define FSCK34_SBV_FIRST_DATA_1K(v)	(!((v).log_block_size == 0 && (v).log_cluster_size == 0) || (v).first_data_block >= 1)
/* block size 2^(10 + s_log_block_size), 1 KiB .. 64 KiB */
#define FSCK34_SBV_LOG_BLOCK(v)		((v).log_block_size <= 6)
/* cluster size 2^(10 + s_log_cluster_size) >= block size, at most 2^29 */
#define FSCK34_SBV_LOG_CLUSTER(v)	((v).log_cluster_size >= (v).log_block_size && (v).log_cluster_size <= 19)
/* one bitmap block per group: at most 8 * blocksize clusters; 16-bit counters; at least one bitmap byte */
#define FSCK34_SBV_CPG(v) \
	((v).clusters_per_group >= 8 && (v).clusters_per_group <= FSCK34_MIN(8 * FSCK34_BS(v), FSCK34_MAX_CPG))
/* s_blocks_per_group = s_clusters_per_group * blocks per cluster */
#define FSCK34_SBV_BPG_IS_CPG(v)	((unsigned long long) (v).blocks_per_group == (v).clusters_per_group * FSCK34_RATIO(v))
#define FSCK34_SBV_BPG(v) \
	((v).blocks_per_group >= 8 && (v).blocks_per_group <= FSCK34_MIN(8 * FSCK34_BS(v), FSCK34_MAX_CPG) * FSCK34_RATIO(v))
/* inode size: a power of two between 128 and the block size */
#define FSCK34_SBV_INODE_SIZE(v) \
	(FSCK34_POW2((v).inode_size) && (v).inode_size >= 128 && (v).inode_size <= FSCK34_BS(v))
/* at least one inode-table block per group; 16-bit counters (2^16 minus one block of inodes, ext2_fs.h
 * EXT2_MAX_INODES_PER_GROUP) */
#define FSCK34_IPB(v)			(FSCK34_BS(v) / (v).inode_size)
#define FSCK34_SBV_IPG(v) \
	((v).inodes_per_group >= FSCK34_IPB(v) && (v).inodes_per_group <= 65536ULL - FSCK34_IPB(v))
/* reserved blocks are part of the filesystem */
#define FSCK34_SBV_R_BLOCKS(v)		((v).r_blocks_count <= (v).blocks_count)
/* the resize inode's double-indirect block has blocksize / 4 slots, one per reserved GDT block */
#define FSCK34_SBV_RESERVED_GDT(v)	((v).reserved_gdt_blocks <= FSCK34_BS(v) / 4)
/* descriptor size (64bit only): a power of two up to 1024 (EXT2_MAX_DESC_SIZE); the lower bound 64 is enforced where
 * the descriptors are first read (ext2fs_open2: EXT2_ET_BAD_DESC_SIZE) */
#define FSCK34_SBV_DESC_SIZE(v)		(!(v).has_64bit || (FSCK34_POW2((v).desc_size) && (v).desc_size <= 1024))
/* s_inodes_count = groups * s_inodes_per_group, and it fits 32 bits */
#define FSCK34_SBV_INODES_TOTAL(v)	((unsigned long long) (v).inodes_count == (unsigned long long) (v).inodes_per_group * (v).groups)
/* dynamic revision: first ordinary inode >= 11, within the filesystem */
#define FSCK34_SBV_FIRST_INO(v)		((v).rev_level == 0 || ((v).first_ino >= 11 && (v).first_ino <= (v).inodes_count))

/* ---- SUFFICIENT: what mke2fs produces ---- */
/* mke2fs: first data block is exactly 1 on 1 KiB-block non-bigalloc filesystems, 0 otherwise */
#define FSCK34_H_FIRST_DATA(v) \
	((v).first_data_block == (((v).log_block_size == 0 && (v).log_cluster_size == 0) ? 1u : 0u) && FSCK34_SBV_FIRST_DATA_LT(v))
/* the inode table lies inside its group next to superblock, one descriptor block and the two bitmaps */
#define FSCK34_H_IPG(v) \
	(FSCK34_SBV_IPG(v) && \
	 (unsigned long long) (v).inodes_per_group <= FSCK34_IPB(v) * ((unsigned long long) (v).blocks_per_group - 4))
/* mke2fs -m: at most 50 % reserved */
#define FSCK34_H_R_BLOCKS(v)	((v).r_blocks_count <= (v).blocks_count / 2)
/* s_desc_size is 0 or a power of two up to 1024 whether or not 64bit is set */
#define FSCK34_H_DESC_SIZE(v)	((v).desc_size == 0 || (FSCK34_POW2((v).desc_size) && (v).desc_size <= 1024))
#define FSCK34_SB_HEALTHY(v) \
	(FSCK34_SBV_INODES_COUNT(v) && FSCK34_SBV_BLOCKS_COUNT(v) && FSCK34_SBV_LOG_BLOCK(v) && FSCK34_SBV_LOG_CLUSTER(v) && \
	 FSCK34_H_FIRST_DATA(v) && FSCK34_SBV_CPG(v) && FSCK34_SBV_BPG_IS_CPG(v) && FSCK34_SBV_INODE_SIZE(v) && \
	 FSCK34_H_IPG(v) && FSCK34_H_R_BLOCKS(v) && FSCK34_SBV_RESERVED_GDT(v) && FSCK34_H_DESC_SIZE(v) && \
	 FSCK34_SBV_INODES_TOTAL(v) && FSCK34_SBV_FIRST_INO(v))

#endif
