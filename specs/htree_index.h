/*
 * htree_index.h — byte-level reading of ext4 htree (indexed directory) index blocks, from the on-disk format
 * (Documentation/filesystems/ext4/directory.rst "Hash Tree Directories"; kernel fs/ext4/namei.c struct dx_root, dx_node,
 * dx_entry, dx_countlimit, dx_tail and dx_probe()), NOT from libext2fs.
 *
 *   dx_root (logical block 0):  fake dirent "."  (inode, rec_len 12, name_len 1, type, ".\0\0\0")            bytes  0..11
 *                               fake dirent ".." (inode, rec_len blocksize-12, name_len 2, type, "..\0\0")    bytes 12..23
 *                               dx_root_info { __le32 reserved_zero; u8 hash_version; u8 info_length (8);
 *                                              u8 indirect_levels; u8 unused_flags; }                         bytes 24..31
 *                               entries[] start at byte 32
 *   dx_node (other index blocks): fake dirent (inode 0, rec_len blocksize, name_len 0, type 0)               bytes  0..7
 *                               entries[] start at byte 8
 *   entries[i] = { __le32 hash; __le32 block; };  entries[0].hash is overlaid by dx_countlimit { __le16 limit; __le16 count; }
 *   (so the first entry has no hash of its own: it covers everything below entries[1].hash);  count includes entry 0.
 *   entry i (0 <= i < count) covers the hashes h with  (i == 0 || hash_i <= h)  &&  (i == count-1 || h < hash_{i+1});
 *   the low bit of hash_i is the "continuation" flag (the previous leaf ends with entries of the same hash), block & 0x0fffffff
 *   is the logical block of the child.
 *   metadata_csum: struct dx_tail { u32 reserved; __le32 checksum; } directly behind entries[limit], so
 *        limit = (blocksize - entries_offset - 8) / 8   with metadata_csum,   (blocksize - entries_offset) / 8  without.
 *   dx_probe() walks from the root: at each level binary search for the LAST entry whose hash is <= the target
 *   (entry 0 if there is none), indirect_levels + 1 index levels, then the leaf.
 *
 * Little-endian host (as the rest of the framework).
 */
#ifndef HTREE_INDEX_H
#define HTREE_INDEX_H

#define HX_LE16(b, o) ((unsigned)(b)[(o)] | ((unsigned)(b)[(o) + 1] << 8))
#define HX_LE32(b, o) ((unsigned)(b)[(o)] | ((unsigned)(b)[(o) + 1] << 8) | ((unsigned)(b)[(o) + 2] << 16) | ((unsigned)(b)[(o) + 3] << 24))

#define HX_ROOT_ENTRIES 32u
#define HX_NODE_ENTRIES 8u
#define HX_ROOT_INFO 24u
#define HX_TAIL 8u

/* eo = byte offset of entries[0] in block b */
#define HX_LIMIT(b, eo) HX_LE16(b, eo)
#define HX_COUNT(b, eo) HX_LE16(b, (eo) + 2)
#define HX_HASH(b, eo, i) HX_LE32(b, (eo) + 8u * (i))
#define HX_BLOCK(b, eo, i) HX_LE32(b, (eo) + 8u * (i) + 4)

/* entry a of a node with `count` entries is the one dx_probe must choose for hash h */
#define HX_COVERS(b, eo, count, a, h) \
	((a) < (count) && ((a) == 0 || HX_HASH(b, eo, a) <= (h)) && ((a) + 1 == (count) || (h) < HX_HASH(b, eo, (a) + 1)))

/* the largest limit a node with entries at eo can have in a block of bs bytes */
#define HX_MAX_LIMIT(bs, eo, csum) (((bs) - (eo) - ((csum) ? HX_TAIL : 0u)) / 8u)

#endif
