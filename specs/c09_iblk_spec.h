/*
 * c09_iblk_spec.h — independent specification of the i_blocks field of an ext2/ext4 inode, written from the
 * on-disk format (Documentation/filesystems/ext4 "i_blocks_lo / l_i_blocks_high", kernel
 * fs/ext4/inode.c:ext4_inode_blocks()/ext4_inode_blocks_set()), NOT from lib/ext2fs/i_block.c:
 *
 *   - without RO_COMPAT_HUGE_FILE the count is the 32-bit i_blocks_lo, in units of 512 bytes;
 *   - with    RO_COMPAT_HUGE_FILE the count is the 48-bit number (l_i_blocks_high << 32) | i_blocks_lo,
 *     in units of 512 bytes, unless the inode has EXT4_HUGE_FILE_FL, in which case the unit is one
 *     filesystem block;
 *   - libext2fs accounts in clusters: one cluster = 2^cluster_ratio_bits blocks, one block = blocksize/512
 *     sectors.
 * No multiplication/division: block sizes are powers of two (1024..65536), so every product is a shift and
 * "raw + (n << s) <= limit" is decided without overflow as "n <= (limit - raw) >> s".
 */
#ifndef C09_IBLK_SPEC_H
#define C09_IBLK_SPEC_H

#define C09_RO_COMPAT_HUGE_FILE	0x0008u
#define C09_HUGE_FILE_FL	0x00040000u
#define C09_EOVERFLOW		75	/* Linux errno */

static int c09_valid_blocksize(unsigned int bs)
{
	return bs == 1024u || bs == 2048u || bs == 4096u || bs == 8192u || bs == 16384u || bs == 32768u || bs == 65536u;
}
/* log2(blocksize / 512) */
static unsigned int c09_sect_shift(unsigned int bs)
{
	return bs == 1024u ? 1 : bs == 2048u ? 2 : bs == 4096u ? 3 : bs == 8192u ? 4 : bs == 16384u ? 5 : bs == 32768u ? 6 : 7;
}
/* the count as the kernel reads it from disk (the "raw" 32/48-bit field) */
static unsigned long long c09_iblk_raw(unsigned int ro_compat, unsigned int lo, unsigned short hi)
{
	return (ro_compat & C09_RO_COMPAT_HUGE_FILE) ? (((unsigned long long)hi << 32) | lo) : lo;
}
/* largest raw value the field can hold */
static unsigned long long c09_iblk_limit(unsigned int ro_compat)
{
	return (ro_compat & C09_RO_COMPAT_HUGE_FILE) ? 0xFFFFFFFFFFFFULL : 0xFFFFFFFFULL;
}
/* log2 of the number of raw units per cluster */
static unsigned int c09_iblk_shift(unsigned int ro_compat, unsigned int i_flags, unsigned int bs, int crb)
{
	unsigned int s = (unsigned int)crb;
	if (!((ro_compat & C09_RO_COMPAT_HUGE_FILE) && (i_flags & C09_HUGE_FILE_FL)))
		s += c09_sect_shift(bs);
	return s;
}
/* does raw + n clusters fit the field?  (exact, no wrap-around) */
static int c09_iblk_add_fits(unsigned long long raw, unsigned long long n, unsigned int s, unsigned long long limit)
{
	return raw <= limit && n <= ((limit - raw) >> s);
}
/* does raw - n clusters stay >= 0 ?  n << s <= raw  <=>  n <= raw >> s */
static int c09_iblk_sub_fits(unsigned long long raw, unsigned long long n, unsigned int s)
{
	return n <= (raw >> s);
}
#endif
