/*
 * tune_feature_masks.h — which filesystem features `tune2fs -O` may set and which it may clear.
 *
 * Source: the DOCUMENTED interface, misc/tune2fs.8.in, option -O ("The following file system features can be set or cleared
 * using tune2fs: ..."), transcribed feature by feature; features carrying the remark "Tune2fs currently only supports
 * setting this file system feature" are absent from the clear mask, resize_inode ("only supports clearing") is absent from
 * the set mask.  This is a level-S pin (a specification constant, compared with the tables ok_features[] /
 * clear_ok_features[] of misc/tune2fs.c by the units under proofs/tune2fs): it is not derived from those tables.
 *
 *   feature (man page)     set  clear     word / macro
 *   64bit                   x     x       incompat  EXT4_FEATURE_INCOMPAT_64BIT
 *   casefold                x     x       incompat  EXT4_FEATURE_INCOMPAT_CASEFOLD
 *   dir_index               x     x       compat    EXT2_FEATURE_COMPAT_DIR_INDEX
 *   dir_nlink               x     x       ro_compat EXT4_FEATURE_RO_COMPAT_DIR_NLINK
 *   ea_inode                x             incompat  EXT4_FEATURE_INCOMPAT_EA_INODE
 *   encrypt                 x             incompat  EXT4_FEATURE_INCOMPAT_ENCRYPT
 *   extent                  x             incompat  EXT3_FEATURE_INCOMPAT_EXTENTS
 *   extra_isize             x     x       ro_compat EXT4_FEATURE_RO_COMPAT_EXTRA_ISIZE
 *   filetype                x     x       incompat  EXT2_FEATURE_INCOMPAT_FILETYPE
 *   flex_bg                 x     x       incompat  EXT4_FEATURE_INCOMPAT_FLEX_BG
 *   has_journal             x     x       compat    EXT3_FEATURE_COMPAT_HAS_JOURNAL
 *   fast_commit             x     x       compat    EXT4_FEATURE_COMPAT_FAST_COMMIT
 *   large_dir               x             incompat  EXT4_FEATURE_INCOMPAT_LARGEDIR
 *   huge_file               x     x       ro_compat EXT4_FEATURE_RO_COMPAT_HUGE_FILE
 *   large_file              x     x       ro_compat EXT2_FEATURE_RO_COMPAT_LARGE_FILE
 *   metadata_csum           x     x       ro_compat EXT4_FEATURE_RO_COMPAT_METADATA_CSUM
 *   metadata_csum_seed      x     x       incompat  EXT4_FEATURE_INCOMPAT_CSUM_SEED
 *   mmp                     x     x       incompat  EXT4_FEATURE_INCOMPAT_MMP
 *   orphan_file             x     x       compat    EXT4_FEATURE_COMPAT_ORPHAN_FILE
 *   project                 x     x       ro_compat EXT4_FEATURE_RO_COMPAT_PROJECT
 *   quota                   x     x       ro_compat EXT4_FEATURE_RO_COMPAT_QUOTA
 *   read-only               x     x       ro_compat EXT4_FEATURE_RO_COMPAT_READONLY
 *   resize_inode                  x       compat    EXT2_FEATURE_COMPAT_RESIZE_INODE
 *   sparse_super            x             ro_compat EXT2_FEATURE_RO_COMPAT_SPARSE_SUPER
 *   stable_inodes           x             compat    EXT4_FEATURE_COMPAT_STABLE_INODES
 *   uninit_bg               x     x       ro_compat EXT4_FEATURE_RO_COMPAT_GDT_CSUM
 *   verity                  x             ro_compat EXT4_FEATURE_RO_COMPAT_VERITY
 */
#ifndef TUNE_FEATURE_MASKS_H
#define TUNE_FEATURE_MASKS_H

#define TUNE_SPEC_SET_COMPAT	(EXT2_FEATURE_COMPAT_DIR_INDEX | EXT3_FEATURE_COMPAT_HAS_JOURNAL | EXT4_FEATURE_COMPAT_FAST_COMMIT | \
				 EXT4_FEATURE_COMPAT_ORPHAN_FILE | EXT4_FEATURE_COMPAT_STABLE_INODES)
#define TUNE_SPEC_SET_INCOMPAT	(EXT4_FEATURE_INCOMPAT_64BIT | EXT4_FEATURE_INCOMPAT_CASEFOLD | EXT4_FEATURE_INCOMPAT_EA_INODE | \
				 EXT4_FEATURE_INCOMPAT_ENCRYPT | EXT3_FEATURE_INCOMPAT_EXTENTS | EXT2_FEATURE_INCOMPAT_FILETYPE | \
				 EXT4_FEATURE_INCOMPAT_FLEX_BG | EXT4_FEATURE_INCOMPAT_LARGEDIR | EXT4_FEATURE_INCOMPAT_CSUM_SEED | \
				 EXT4_FEATURE_INCOMPAT_MMP)
#define TUNE_SPEC_SET_RO	(EXT4_FEATURE_RO_COMPAT_DIR_NLINK | EXT4_FEATURE_RO_COMPAT_EXTRA_ISIZE | EXT4_FEATURE_RO_COMPAT_HUGE_FILE | \
				 EXT2_FEATURE_RO_COMPAT_LARGE_FILE | EXT4_FEATURE_RO_COMPAT_METADATA_CSUM | EXT4_FEATURE_RO_COMPAT_PROJECT | \
				 EXT4_FEATURE_RO_COMPAT_QUOTA | EXT4_FEATURE_RO_COMPAT_READONLY | EXT2_FEATURE_RO_COMPAT_SPARSE_SUPER | \
				 EXT4_FEATURE_RO_COMPAT_GDT_CSUM | EXT4_FEATURE_RO_COMPAT_VERITY)

#define TUNE_SPEC_CLEAR_COMPAT	(EXT2_FEATURE_COMPAT_DIR_INDEX | EXT3_FEATURE_COMPAT_HAS_JOURNAL | EXT4_FEATURE_COMPAT_FAST_COMMIT | \
				 EXT4_FEATURE_COMPAT_ORPHAN_FILE | EXT2_FEATURE_COMPAT_RESIZE_INODE)
#define TUNE_SPEC_CLEAR_INCOMPAT (EXT4_FEATURE_INCOMPAT_64BIT | EXT4_FEATURE_INCOMPAT_CASEFOLD | EXT2_FEATURE_INCOMPAT_FILETYPE | \
				 EXT4_FEATURE_INCOMPAT_FLEX_BG | EXT4_FEATURE_INCOMPAT_CSUM_SEED | EXT4_FEATURE_INCOMPAT_MMP)
#define TUNE_SPEC_CLEAR_RO	(EXT4_FEATURE_RO_COMPAT_DIR_NLINK | EXT4_FEATURE_RO_COMPAT_EXTRA_ISIZE | EXT4_FEATURE_RO_COMPAT_HUGE_FILE | \
				 EXT2_FEATURE_RO_COMPAT_LARGE_FILE | EXT4_FEATURE_RO_COMPAT_METADATA_CSUM | EXT4_FEATURE_RO_COMPAT_PROJECT | \
				 EXT4_FEATURE_RO_COMPAT_QUOTA | EXT4_FEATURE_RO_COMPAT_READONLY | EXT4_FEATURE_RO_COMPAT_GDT_CSUM)

#endif
