/*
 * c16_ba_memcmp.h — pointwise model of libc memcmp for the verifier (trusted libc semantics, C11 7.24.4.1):
 *   both regions must be readable for n bytes (n > 0);
 *   result == 0  =>  a[j] == b[j] for every j < n        (stated for ONE ghost byte: the byte at offset verif_g3 of
 *                                                          the object a points into, if it lies in a[0..n))
 *   result != 0  =>  there is a w < n with a[w] != b[w]  (the object offset of a + w is published in the ghost
 *                                                          verif_g4: Skolem form of the existential)
 * Ghosts are object OFFSETS, not pointers: a pointer ghost that is havocked by a contract has an unknown points-to
 * set in the verifier and dereferences to nothing useful.
 * The sign of a non-zero result is left arbitrary (no caller here uses it).  Used instead of CBMC's built-in byte
 * loop, which needs unwinding up to n.  Vanishes in native replays (real libc memcmp is used there).
 */
#ifndef C16_BA_MEMCMP_H
#define C16_BA_MEMCMP_H
#ifndef VERIF_NATIVE
#include <stddef.h>
extern unsigned long long verif_g3;	/* ghost: object offset of one arbitrary byte (chosen by the harness) */
extern unsigned long long verif_g4;	/* ghost: object offset of a differing byte, written when the result is != 0 */
int memcmp(const void *a, const void *b, size_t n)
{
	const unsigned char *pa = (const unsigned char *)a, *pb = (const unsigned char *)b;
	int r;		/* uninitialised local = arbitrary value for the verifier */
	size_t w;
	__CPROVER_assert(n == 0 || (__CPROVER_r_ok(pa, n) && __CPROVER_r_ok(pb, n)), "CHECK:memcmp reads n bytes of both regions");
	if (r == 0) {
		size_t j = verif_g3 - (unsigned long long)__CPROVER_POINTER_OFFSET(pa);
		if (j < n)
			__CPROVER_assume(pa[j] == pb[j]);
	} else {
		__CPROVER_assume(w < n);
		__CPROVER_assume(pa[w] != pb[w]);
		verif_g4 = (unsigned long long)__CPROVER_POINTER_OFFSET(pa) + w;
	}
	return r;
}
#endif
#endif
