/*
 * c16_ba_memcmp.h — pointwise model of libc memcmp for the verifier (trusted libc semantics, C11 7.24.4.1):
 *   both regions must be readable for n bytes (n > 0);
 *   result == 0  =>  a[j] == b[j] for every j < n        (stated for the ONE ghost byte address verif_p1, a side)
 *   result != 0  =>  there is a w < n with a[w] != b[w]  (the witness address a + w is published in the ghost
 *                                                          verif_p2: Skolem form of the existential)
 * The sign of a non-zero result is left arbitrary (no caller here uses it).  Used instead of CBMC's built-in byte
 * loop, which needs unwinding up to n.  Vanishes in native replays (real libc memcmp is used there).
 */
#ifndef C16_BA_MEMCMP_H
#define C16_BA_MEMCMP_H
#ifndef VERIF_NATIVE
#include <stddef.h>
extern const unsigned char *verif_p1;	/* ghost: address of one arbitrary byte (chosen by the harness) */
extern const unsigned char *verif_p2;	/* ghost: address of a differing byte, written when the result is != 0 */
int memcmp(const void *a, const void *b, size_t n)
{
	const unsigned char *pa = (const unsigned char *)a, *pb = (const unsigned char *)b;
	int r;		/* uninitialised local = arbitrary value for the verifier */
	size_t w;
	__CPROVER_assert(n == 0 || (__CPROVER_r_ok(pa, n) && __CPROVER_r_ok(pb, n)), "CHECK:memcmp reads n bytes of both regions");
	if (r == 0) {
		if (__CPROVER_same_object(verif_p1, pa) && verif_p1 >= pa && verif_p1 < pa + n)
			__CPROVER_assume(*verif_p1 == pb[verif_p1 - pa]);
	} else {
		__CPROVER_assume(w < n);
		__CPROVER_assume(pa[w] != pb[w]);
		verif_p2 = pa + w;
	}
	return r;
}
#endif
#endif
