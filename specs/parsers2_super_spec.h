/*
 * parsers2_super_spec.h — format bounds of the ext2/3/4 superblock, written from the ext4 disk-layout
 * documentation (Documentation/filesystems/ext4/super.rst, blockgroup.rst, group_descr.rst, bigalloc.rst) and the
 * mount-time checks of the kernel (fs/ext4/super.c: ext4_load_super / ext4_block_group_meta_init / ext4_check_geometry /
 * ext4_handle_clustersize), NOT from lib/ext2fs/openfs.c.
 *
 * Everything is a pure function of the 1024 superblock bytes as delivered by the device, read through the field
 * layout of struct ext2_super_block (little-endian host: the structure IS the on-disk layout).  Feature bits are
 * written as the numbers of the documentation.  No function here divides by a field of the superblock; quantities the
 * documentation defines by a quotient are characterised by the two multiplication-free/product inequalities of a
 * ceiling quotient where needed by a unit (SBS_IS_CEIL_DIV_POW2 uses shifts only).
 */
#ifndef PARSERS2_SUPER_SPEC_H
#define PARSERS2_SUPER_SPEC_H

typedef unsigned long long sbs_u64;

#define SBS_MAGIC			0xEF53u
#define SBS_INCOMPAT_JOURNAL_DEV	0x0008u
#define SBS_INCOMPAT_META_BG		0x0010u
#define SBS_INCOMPAT_64BIT		0x0080u
#define SBS_RO_COMPAT_BIGALLOC		0x0200u

#define SBS_HAS_64BIT(sb)	(((sb)->s_feature_incompat & SBS_INCOMPAT_64BIT) != 0)
#define SBS_HAS_META_BG(sb)	(((sb)->s_feature_incompat & SBS_INCOMPAT_META_BG) != 0)
#define SBS_HAS_JOURNAL_DEV(sb)	(((sb)->s_feature_incompat & SBS_INCOMPAT_JOURNAL_DEV) != 0)
#define SBS_HAS_BIGALLOC(sb)	(((sb)->s_feature_ro_compat & SBS_RO_COMPAT_BIGALLOC) != 0)

/* B1  s_magic: "Magic signature, 0xEF53" */
#define SBS_MAGIC_OK(sb)	((sb)->s_magic == SBS_MAGIC)
/* B2  s_rev_level: 0 (original) or 1 (dynamic inode sizes) */
#define SBS_REV_OK(sb)		((sb)->s_rev_level <= 1u)
/* B3  "Block size is 2 ^ (10 + s_log_block_size)", 1 KiB .. 64 KiB */
#define SBS_LOG_BLOCK_OK(sb)	((sb)->s_log_block_size <= 6u)
#define SBS_BLOCK_SIZE(sb)	(1024u << ((sb)->s_log_block_size & 7u))	/* meaningful under B3 */
#define SBS_BLOCK_BITS(sb)	(10u + ((sb)->s_log_block_size & 7u))
/* B4  "Cluster size is 2 ^ (10 + s_log_cluster_size) blocks if bigalloc is enabled. Otherwise s_log_cluster_size must equal
 *      s_log_block_size."  A cluster is at least one block; kernel limit EXT4_MAX_CLUSTER_LOG_SIZE (30) - 10. */
#define SBS_LOG_CLUSTER_OK(sb)	(SBS_HAS_BIGALLOC(sb) \
				 ? ((sb)->s_log_cluster_size >= (sb)->s_log_block_size && (sb)->s_log_cluster_size <= 20u) \
				 : ((sb)->s_log_cluster_size == (sb)->s_log_block_size))
#define SBS_RATIO_BITS(sb)	(((sb)->s_log_cluster_size - (sb)->s_log_block_size) & 31u)	/* meaningful under B3, B4 */
/* B5  "Size of a flexible block group is 2 ^ s_log_groups_per_flex": must be a defined 32-bit shift */
#define SBS_FLEX_OK(sb)		((sb)->s_log_groups_per_flex <= 31u)
/* B6  s_inode_size: 128 for revision 0; otherwise a power of two, at least 128, at most the block size */
#define SBS_INODE_SIZE(sb)	((sb)->s_rev_level == 0 ? 128u : (unsigned int)(sb)->s_inode_size)
#define SBS_INODE_SIZE_OK(sb)	(SBS_INODE_SIZE(sb) >= 128u && SBS_INODE_SIZE(sb) <= SBS_BLOCK_SIZE(sb) && \
				 (SBS_INODE_SIZE(sb) & (SBS_INODE_SIZE(sb) - 1u)) == 0)
/* B7  s_desc_size: "Size of group descriptors, in bytes, if the 64bit incompat feature flag is set": a power of two in
 *      [64, 1024]; 32 bytes otherwise (field ignored) */
#define SBS_DESC_SIZE(sb)	(SBS_HAS_64BIT(sb) ? (unsigned int)(sb)->s_desc_size : 32u)
#define SBS_DESC_SIZE_OK(sb)	(!SBS_HAS_64BIT(sb) || ((sb)->s_desc_size >= 64u && (sb)->s_desc_size <= 1024u && \
							 ((sb)->s_desc_size & ((sb)->s_desc_size - 1u)) == 0))
/* B7'' group_descr.rst: "the block group descriptor expands to at least 64 bytes" with 64bit (sizeof struct ext4_group_desc) */
#define SBS_DESC_HOLDS_STRUCT(sb) (!SBS_HAS_64BIT(sb) || (sb)->s_desc_size >= 64u)
/* B7' what memory safety needs even in "ignore superblock errors" mode: at least one descriptor per block */
#define SBS_DESC_FITS_BLOCK(sb)	(SBS_DESC_SIZE(sb) != 0 && SBS_DESC_SIZE(sb) <= SBS_BLOCK_SIZE(sb))
/* B8  one bitmap block per group: clusters per group <= 8 * block size, and non-zero */
#define SBS_CPG_OK(sb)		((sb)->s_clusters_per_group != 0 && (sb)->s_clusters_per_group <= 8u * SBS_BLOCK_SIZE(sb))
/* B9  blocks per group = clusters per group * cluster ratio (without bigalloc the two are the same number);
 *      hence blocks per group <= 8 * block size * ratio; mke2fs/e2fsprogs additionally demand >= 8 and a multiple of 8 */
#define SBS_BPG_CONSISTENT(sb)	((sbs_u64)(sb)->s_blocks_per_group == ((sbs_u64)(sb)->s_clusters_per_group << SBS_RATIO_BITS(sb)))
/* the same equation in the 32-bit arithmetic of the field (what a reader that does not widen can establish) */
#define SBS_BPG_CONSISTENT32(sb) ((sb)->s_blocks_per_group == (unsigned int)((sb)->s_clusters_per_group << SBS_RATIO_BITS(sb)))
#define SBS_BPG_NONZERO(sb)	((sb)->s_blocks_per_group != 0)
#define SBS_BPG_MIN8(sb)	((sb)->s_blocks_per_group >= 8u)
#define SBS_BPG_MULT8(sb)	(((sb)->s_blocks_per_group & 7u) == 0)
#define SBS_BPG_MAX_OK(sb)	((sbs_u64)(sb)->s_blocks_per_group <= ((sbs_u64)(8u * SBS_BLOCK_SIZE(sb)) << SBS_RATIO_BITS(sb)))
/* B10 one inode-bitmap block per group: 0 < inodes per group <= 8 * block size */
#define SBS_IPG_NONZERO(sb)	((sb)->s_inodes_per_group != 0)
#define SBS_IPG_MAX_OK(sb)	((sb)->s_inodes_per_group <= 8u * SBS_BLOCK_SIZE(sb))
/* B11 s_first_data_block < blocks count */
#define SBS_BLOCKS_COUNT(sb)	((sbs_u64)(sb)->s_blocks_count | (SBS_HAS_64BIT(sb) ? (sbs_u64)(sb)->s_blocks_count_hi << 32 : 0))
#define SBS_FDB_OK(sb)		((sbs_u64)(sb)->s_first_data_block < SBS_BLOCKS_COUNT(sb))
/*
 * B12 number of groups g = ceil((blocks_count - first_data_block) / blocks_per_group) fits 32 bits.
 *     "q is the ceiling of n / d" (n > 0, d > 0) without division:  q >= 1  and  (q-1)*d < n <= q*d   (64-bit products of a
 *     value below 2^32 with a 32-bit value do not wrap).
 */
#define SBS_IS_CEIL_QUOT(q, n, d) \
	((sbs_u64)(q) >= 1 && (sbs_u64)(q) <= 0xffffffffull && \
	 ((sbs_u64)(q) - 1) * (sbs_u64)(d) < (sbs_u64)(n) && (sbs_u64)(n) <= (sbs_u64)(q) * (sbs_u64)(d))
/* inode-table blocks per group = ceil(inodes_per_group * inode_size / block_size), exact (no 32-bit wrap) */
#define SBS_ITABLE_BLOCKS(sb)	((((sbs_u64)(sb)->s_inodes_per_group * SBS_INODE_SIZE(sb)) + SBS_BLOCK_SIZE(sb) - 1) >> SBS_BLOCK_BITS(sb))
/* B13 s_inodes_count = groups * inodes per group */
#define SBS_INODES_COUNT_OK(sb, g) ((sbs_u64)(g) * (sb)->s_inodes_per_group == (sb)->s_inodes_count)
/* B14 meta_bg: s_first_meta_bg <= number of descriptor blocks */
#define SBS_FIRST_META_BG_OK(sb, db) (!SBS_HAS_META_BG(sb) || (sb)->s_first_meta_bg <= (db))

#endif
