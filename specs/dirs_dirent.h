/*
 * dirs_dirent.h — independent byte-level reading of ext2/ext4 linear directory entries
 * (from the on-disk format, Documentation/filesystems/ext4/directory.rst; NOT from libext2fs):
 *
 *   off+0  __le32 inode      0 = unused entry
 *   off+4  __le16 rec_len    distance to the next entry (block sizes < 64 KiB: the plain value)
 *   off+6  __u8   name_len
 *   off+7  __u8   file_type  (only meaningful with INCOMPAT_FILETYPE; otherwise the high byte of a
 *                             16-bit name_len, which must be 0 for names <= 255)
 *   off+8  name[name_len], padded so that rec_len is a multiple of 4
 *
 * Checksum tail (metadata_csum): the last 12 bytes of the block are a fake entry
 *   inode 0, rec_len 12, name_len 0, file_type 0xDE, followed by the __le32 checksum.
 *
 * The verification host is little-endian (as is the in-memory form libext2fs hands to callbacks).
 */
#ifndef DIRS_DIRENT_H
#define DIRS_DIRENT_H

#define DE_INO(b, o)  ((unsigned)(b)[(o)] | ((unsigned)(b)[(o) + 1] << 8) | ((unsigned)(b)[(o) + 2] << 16) | ((unsigned)(b)[(o) + 3] << 24))
#define DE_REC(b, o)  ((unsigned)(b)[(o) + 4] | ((unsigned)(b)[(o) + 5] << 8))
#define DE_NL(b, o)   ((unsigned)(b)[(o) + 6])
#define DE_FT(b, o)   ((unsigned)(b)[(o) + 7])
#define DE_HDR 8u
#define DE_TAIL 12u
/* smallest legal rec_len of an entry with an n-byte name */
#define DE_NEED(n) ((DE_HDR + (unsigned)(n) + 3u) & ~3u)

/* what ext2fs_process_dir_block / every format reader demands from one entry (bs < 64 KiB).
 * Macros, because DFCC does not allow nested function calls inside contract clauses. */
#define DE_VALID(b, o, bs) \
	((((o) & 3) == 0) && (o) + DE_HDR <= (bs) && DE_REC(b, o) >= DE_HDR && (DE_REC(b, o) & 3) == 0 && \
	 (o) + DE_REC(b, o) <= (bs) && DE_NL(b, o) + DE_HDR <= DE_REC(b, o))

/* [o, e) is exactly covered by one valid entry, or by two consecutive valid entries */
#define DE_TILED2(b, o, e, bs) \
	(DE_VALID(b, o, bs) && ((o) + DE_REC(b, o) == (e) || \
	  ((o) + DE_REC(b, o) < (e) && (o) + DE_REC(b, o) + DE_HDR <= (e) && DE_VALID(b, (o) + DE_REC(b, o), bs) && \
	   (o) + DE_REC(b, o) + DE_REC(b, (o) + DE_REC(b, o)) == (e))))

/* the 12-byte checksum tail shape at the end of the block */
#define DE_IS_TAIL(b, o, bs) \
	((o) + DE_TAIL == (bs) && DE_INO(b, o) == 0 && DE_REC(b, o) == DE_TAIL && DE_NL(b, o) == 0 && DE_FT(b, o) == 0xDE)

#endif
