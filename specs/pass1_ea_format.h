/*
 * pass1_ea_format.h — INDEPENDENT format predicates for extended-attribute storage: the EA block and the in-inode
 * EA area.  Used by proofs/pass1/ea_*.c (pass 1's check_ext_attr, check_ea_in_inode, check_large_ea_inode).
 *
 * Written from
 *   - Documentation/filesystems/ext4/attributes.rst ("Extended Attributes": struct ext4_xattr_ibody_header,
 *     struct ext4_xattr_header, struct ext4_xattr_entry, "Attribute Name Indices", "the values grow from the end of the
 *     block towards the entries", "e_value_offs: location of this attribute's value on the disk block where it is
 *     stored ... for an in-inode attribute this value is relative to the start of the first entry",
 *     "e_value_inum: the inode where the value is stored. Zero indicates the value is in the same block as this entry.
 *     This field is only used if the INCOMPAT_EA_INODE feature is enabled");
 *   - fs/ext4/xattr.h: EXT4_XATTR_MAGIC, EXT4_XATTR_PAD_BITS / _PAD / _ROUND, EXT4_XATTR_LEN, EXT4_XATTR_NEXT,
 *     EXT4_XATTR_SIZE, IS_LAST_ENTRY, EXT4_XATTR_SIZE_MAX (1 << 24), IFIRST / BFIRST;
 *   - fs/ext4/xattr.c: what the kernel REFUSES to use — ext4_xattr_check_entries() (v4.13 .. v6.2; the same tests live in
 *     check_xattrs() since v6.3):
 *         names list : while (!IS_LAST_ENTRY(e)) { next = EXT4_XATTR_NEXT(e); if ((void *)next >= end) -> EFSCORRUPTED }
 *         values     : if (!ea_inode feature && e_value_inum) -> EFSCORRUPTED               (check_xattrs)
 *                      if (e_value_inum && (ino == EXT4_ROOT_INO || !ext4_valid_inum())) -> EFSCORRUPTED (check_xattrs)
 *                      if (size > EXT4_XATTR_SIZE_MAX) -> EFSCORRUPTED                       (check_xattrs)
 *                      if (size != 0 && e_value_inum == 0) {
 *                              if (offs > end - value_start) -> EFSCORRUPTED
 *                              value = value_start + offs;
 *                              if (value < (void *)e + sizeof(u32) ||        e = the terminator found by the first loop
 *                                  size > end - value || EXT4_XATTR_SIZE(size) > end - value) -> EFSCORRUPTED }
 *         block header: h_magic == EXT4_XATTR_MAGIC && h_blocks == 1                        (ext4_xattr_check_block)
 *         in-inode   : header magic EXT4_XATTR_MAGIC at 128 + i_extra_isize                 (xattr_check_inode)
 *     ext4_xattr_inode_iget / ext4_xattr_inode_verify_hashes: the inode an entry names must carry EXT4_EA_INODE_FL and
 *     the entry hash must equal hash(name, EA-inode hash) (signed-char legacy variant accepted since v6.2);
 *     ext4_xattr_set_entry: a new entry is memset to 0 and e_value_offs is only written when the value is non-empty:
 *     an EMPTY value (e_value_size == 0) has e_value_offs == 0 or a stale in-container offset — the kernel never looks
 *     at the offset of an empty value.  The same function moves the other values (memmove + "Adjust all value offsets")
 *     when one value is removed, which is only correct when no two values share a byte: DISJOINTNESS below.
 * NOT written from e2fsck/pass1.c or lib/ext2fs/ext_attr.c.
 *
 * Raw little-endian views.  A CONTAINER is described by
 *     b      pointer to its first byte (byte 0 of the EA block; the 4-byte in-inode header at 128 + i_extra_isize)
 *     lim    its size in bytes (block size; inode size - 128 - i_extra_isize): `end` = b + lim
 *     first  offset of the first entry (BFIRST: 32 = sizeof(struct ext4_xattr_header); IFIRST: 4)
 *     vbase  offset of `value_start`   (block: 0 = bh->b_data; inode: 4 = IFIRST)
 * and an entry by its offset o from b.  Every offset/size of the format is a multiple of 4 except e_value_offs, which
 * the kernel accepts unaligned.
 *
 * Two strengths, as in pass1_format.h / pass2_format.h:
 *   PEA_*_BAD / !PEA_*_OK   the object violates the format: it must be answered by a problem that counts for the exit
 *                           status (C02);
 *   PEA_*_HEALTHY           format + the conventions of every writer: must be neither reported nor touched (C05).
 */
#ifndef PASS1_EA_FORMAT_H
#define PASS1_EA_FORMAT_H

#define PEA_U8(b, o)   ((unsigned)((const unsigned char *)(b))[(o)])
#define PEA_LE16(b, o) (PEA_U8(b, o) | (PEA_U8(b, (o) + 1) << 8))
#define PEA_LE32(b, o) (PEA_U8(b, o) | (PEA_U8(b, (o) + 1) << 8) | (PEA_U8(b, (o) + 2) << 16) | (PEA_U8(b, (o) + 3) << 24))

#define PEA_MAGIC		0xEA020000u	/* EXT4_XATTR_MAGIC */
#define PEA_MAGIC_V1		0xEA010000u	/* ext2 xattr format version 1 (pre-2.4.20 patches; e2fsck -E ea_ver=1) */
#define PEA_BLOCK_HEADER	32u		/* sizeof(struct ext4_xattr_header) */
#define PEA_IBODY_HEADER	4u		/* sizeof(struct ext4_xattr_ibody_header) */
#define PEA_ENTRY_HEADER	16u		/* sizeof(struct ext4_xattr_entry) without e_name[] */
#define PEA_SIZE_MAX		(1u << 24)	/* EXT4_XATTR_SIZE_MAX */
#define PEA_ROOT_INO		2u
#define PEA_EA_INODE_FL		0x00200000u	/* EXT4_EA_INODE_FL, inodes.rst "i_flags" */
#define PEA_INCOMPAT_EA_INODE	0x0400u		/* super.rst s_feature_incompat */

/* struct ext4_xattr_header */
#define PEA_H_MAGIC(b)		PEA_LE32(b, 0)
#define PEA_H_REFCOUNT(b)	PEA_LE32(b, 4)
#define PEA_H_BLOCKS(b)		PEA_LE32(b, 8)
#define PEA_BLOCK_HEADER_OK(b)	(PEA_H_MAGIC(b) == PEA_MAGIC && PEA_H_BLOCKS(b) == 1u)

/* struct ext4_xattr_entry at offset o */
#define PEA_E_NAME_LEN(b, o)	PEA_U8(b, o)
#define PEA_E_NAME_INDEX(b, o)	PEA_U8(b, (o) + 1)
#define PEA_E_VALUE_OFFS(b, o)	PEA_LE16(b, (o) + 2)
#define PEA_E_VALUE_INUM(b, o)	PEA_LE32(b, (o) + 4)
#define PEA_E_VALUE_SIZE(b, o)	PEA_LE32(b, (o) + 8)
#define PEA_E_HASH(b, o)	PEA_LE32(b, (o) + 12)
#define PEA_E_NAME_OFF(o)	((o) + PEA_ENTRY_HEADER)

/* EXT4_XATTR_LEN(name_len): entry header + name, padded to 4; EXT4_XATTR_SIZE(size): value padded to 4 (32-bit
 * arithmetic as in the kernel: wraps to 0 for size > 0xFFFFFFFC, hence the kernel's separate unpadded test) */
#define PEA_LEN(name_len)	((((unsigned)(name_len)) + 3u + PEA_ENTRY_HEADER) & ~3u)
#define PEA_SIZE(size)		((((unsigned)(size)) + 3u) & ~3u)
#define PEA_IS_LAST(b, o)	(PEA_LE32(b, o) == 0u)

/* ---- number-level predicates (fields already extracted) ---- */

/* names list: the entry and its name lie in the container AND leave room for the 4-byte terminator behind them
 * (kernel: next >= end is corrupt) */
#define PEA_N_ENTRY_FITS(o, name_len, lim) \
	((unsigned long long)(o) + PEA_LEN(name_len) < (unsigned long long)(lim))
/* the entry header alone / header+name do not even lie in the container (the strongest form of the violation: every
 * access to the entry past `lim` would be out of bounds) */
#define PEA_N_ENTRY_OUTSIDE(o, name_len, lim) \
	((unsigned long long)(o) + PEA_LEN(name_len) > (unsigned long long)(lim))

/* a value that is stored in the container itself */
#define PEA_N_HAS_LOCAL_VALUE(inum, size)	((inum) == 0u && (size) != 0u)
/* ... lies inside it, padding included */
#define PEA_N_VALUE_FITS(offs, size, lim, vbase) \
	((unsigned long long)(offs) <= (unsigned long long)(lim) - (vbase) && \
	 (unsigned long long)(size) <= (unsigned long long)(lim) - (vbase) - (offs) && \
	 (unsigned long long)PEA_SIZE(size) <= (unsigned long long)(lim) - (vbase) - (offs) && \
	 ((size) == 0u || PEA_SIZE(size) != 0u))
/* ... and begins behind the terminator of the names list (term = offset of the terminating zero word) */
#define PEA_N_VALUE_ABOVE_TABLE(offs, vbase, term) \
	((unsigned long long)(vbase) + (offs) >= (unsigned long long)(term) + 4u)
/* byte k lies in the entry (header + padded name) / in its padded local value */
#define PEA_N_BYTE_IN_ENTRY(k, o, name_len) \
	((unsigned long long)(k) >= (unsigned long long)(o) && (unsigned long long)(k) < (unsigned long long)(o) + PEA_LEN(name_len))
#define PEA_N_BYTE_IN_VALUE(k, offs, inum, size, vbase) \
	(PEA_N_HAS_LOCAL_VALUE(inum, size) && (unsigned long long)(k) >= (unsigned long long)(vbase) + (offs) && \
	 (unsigned long long)(k) < (unsigned long long)(vbase) + (offs) + PEA_SIZE(size))
/* the entry's own value overlaps the entry itself */
#define PEA_N_SELF_OVERLAP(o, name_len, offs, inum, size, vbase) \
	(PEA_N_HAS_LOCAL_VALUE(inum, size) && \
	 (unsigned long long)(vbase) + (offs) < (unsigned long long)(o) + PEA_LEN(name_len) && \
	 (unsigned long long)(o) < (unsigned long long)(vbase) + (offs) + PEA_SIZE(size))

/* an entry that names an EA inode: the feature must be on, the number must be a usable inode other than the root */
#define PEA_N_EA_INUM_OK(inum, incompat, first_ino, inodes_count) \
	((inum) == 0u || (((incompat) & PEA_INCOMPAT_EA_INODE) && (inum) != PEA_ROOT_INO && \
			  (inum) >= (first_ino) && (inum) <= (inodes_count)))

/* attribute name indices the kernel has a handler for (attributes.rst "Attribute Name Indices": 1 user., 2/3 POSIX
 * ACLs, 4 trusted., 6 security., 7 system., 8 system.richacl; 5 was Lustre's, never merged).  Index 0 ("no prefix") can
 * be neither created nor listed nor read through the kernel: FORMAT does not forbid it, HEALTHY files do not have it. */
#define PEA_N_NAME_INDEX_HEALTHY(idx)	((idx) >= 1u && (idx) <= 8u)

/* ---- DISJOINTNESS: every byte of a container belongs to at most one of {container header [0, first), an entry, a
 * padded local value, the terminator word}.  Pointwise form for ONE byte k and ONE entry at o: "k lies in the entry or
 * its value" — units combine it with the history of the walk (was k claimed before?). ---- */
#define PEA_N_BYTE_IN_HEADER(k, first)		((unsigned long long)(k) < (unsigned long long)(first))
#define PEA_N_BYTE_IN_TERMINATOR(k, term)	((unsigned long long)(k) >= (unsigned long long)(term) && \
						 (unsigned long long)(k) < (unsigned long long)(term) + 4u)

/* ---- the per-entry verdicts ---- */

/* FORMAT violation of ONE entry, position and container only (no history, no hash): any of
 *   - the entry / its name does not fit in front of the terminator,
 *   - value larger than EXT4_XATTR_SIZE_MAX,
 *   - local value (padding included) not inside the container,
 *   - local value overlapping its own entry,
 *   - EA-inode reference without the feature / to an unusable inode number. */
#define PEA_N_ENTRY_BAD(o, name_len, offs, inum, size, lim, vbase, incompat, first_ino, inodes_count) \
	(!PEA_N_ENTRY_FITS(o, name_len, lim) || \
	 (size) > PEA_SIZE_MAX || \
	 (PEA_N_HAS_LOCAL_VALUE(inum, size) && !PEA_N_VALUE_FITS(offs, size, lim, vbase)) || \
	 PEA_N_SELF_OVERLAP(o, name_len, offs, inum, size, vbase) || \
	 !PEA_N_EA_INUM_OK(inum, incompat, first_ino, inodes_count))

/* HEALTHY entry, position and container only: the negation of the above, a name index some handler owns, a name of at
 * least one byte (no writer creates an empty name: the kernel rejects "" with EINVAL/ERANGE in ext4_xattr_set_handle),
 * and for an EMPTY local value an offset the kernel would have left there (0, or a stale offset inside the container).
 * Hash and history (disjointness from the other entries' regions) are added by the units. */
#define PEA_N_ENTRY_HEALTHY(o, name_len, idx, offs, inum, size, lim, vbase, incompat, first_ino, inodes_count) \
	(!PEA_N_ENTRY_BAD(o, name_len, offs, inum, size, lim, vbase, incompat, first_ino, inodes_count) && \
	 PEA_N_NAME_INDEX_HEALTHY(idx) && (name_len) >= 1u && \
	 ((size) != 0u || (inum) != 0u || (unsigned long long)(vbase) + (offs) <= (unsigned long long)(lim)) && \
	 ((inum) == 0u || (offs) == 0u))

/* ---- entry hash rules (ext4_xattr_set_entry / ext4_xattr_inode_verify_hashes) ----
 * hu / hs: the kernel's ext4_xattr_hash_entry / ext4_xattr_hash_entry_signed of (name, value) — specs/parsers_spec_xattr.h
 * transcribes them; for an EA-inode entry the value part is the ONE word "hash stored in the EA inode".
 *   EA block   : e_hash is the hash (either char signedness: blocks written by kernels built with signed char);
 *   in-inode   : e_hash is 0 (what the kernel writes for a local in-inode value) or the hash (older kernels);
 *   EA inode   : e_hash is the hash over name and the EA inode's stored hash, or the pre-4.13 Lustre form in which the
 *                EA inode points back to its parent (i_mtime = parent inode number, same i_generation). */
#define PEA_N_HASH_OK_BLOCK(e_hash, hu, hs)	((e_hash) == (hu) || (e_hash) == (hs))
#define PEA_N_HASH_OK_IBODY(e_hash, hu, hs)	((e_hash) == 0u || (e_hash) == (hu) || (e_hash) == (hs))

/* ---- an inode used as the target of e_value_inum ----
 * healthy: carries EXT4_EA_INODE_FL and the entry hash verifies (hash or signed hash over name + stored EA-inode hash) */
#define PEA_N_EA_INODE_HEALTHY(i_flags, e_hash, hu, hs) \
	((((i_flags) & PEA_EA_INODE_FL) != 0u) && ((e_hash) == (hu) || (e_hash) == (hs)))
/* bad: a regular inode (no EXT4_EA_INODE_FL) used as a value — ext4_xattr_inode_iget: "EA inode %lu does not have
 * EXT4_EA_INODE_FL flag" -> EFSCORRUPTED */
#define PEA_N_EA_INODE_BAD(i_flags)		(((i_flags) & PEA_EA_INODE_FL) == 0u)

/* ---- byte-level convenience wrappers ---- */
#define PEA_ENTRY_BAD(b, o, lim, vbase, incompat, first_ino, inodes_count) \
	PEA_N_ENTRY_BAD(o, PEA_E_NAME_LEN(b, o), PEA_E_VALUE_OFFS(b, o), PEA_E_VALUE_INUM(b, o), PEA_E_VALUE_SIZE(b, o), \
			lim, vbase, incompat, first_ino, inodes_count)
#define PEA_ENTRY_HEALTHY(b, o, lim, vbase, incompat, first_ino, inodes_count) \
	PEA_N_ENTRY_HEALTHY(o, PEA_E_NAME_LEN(b, o), PEA_E_NAME_INDEX(b, o), PEA_E_VALUE_OFFS(b, o), PEA_E_VALUE_INUM(b, o), \
			    PEA_E_VALUE_SIZE(b, o), lim, vbase, incompat, first_ino, inodes_count)

/* ---- sharing: struct ext4_xattr_header.h_refcount = number of inodes whose i_file_acl names the block
 * (attributes.rst "h_refcount: reference count"; ext4_xattr_block_set / ext4_xattr_release_block keep it);
 * i_blocks of EVERY one of these inodes includes the block (one cluster with bigalloc): ext4_xattr_block_set charges
 * dquot_alloc_block(inode, EXT4_C2B(sbi, 1)) when an inode starts sharing a block. ---- */
#define PEA_EA_BLOCK_CHARGE(cluster_ratio_bits)	(1ull << (cluster_ratio_bits))

#endif
