/*
 * csum_crc16_spec.h -- the mathematical definition of the CRC used for group descriptors with uninit_bg/gdt_csum:
 * CRC-16/ARC ("CRC-16-IBM", x^16 + x^15 + x^2 + 1, i.e. 0x8005, processed least-significant bit first = reflected
 * polynomial 0xA001), no final xor.  One byte: xor it into the low byte of the state, then 8 times:
 * shift right by one, xor 0xA001 if the bit shifted out was 1.  Written bit by bit, independent of crc16.c's table.
 */
#ifndef CSUM_CRC16_SPEC_H
#define CSUM_CRC16_SPEC_H
#define SPEC_CRC16_BIT(r) ((((r) & 1u) ? 0xA001u : 0u) ^ (((r) & 0xFFFFu) >> 1))
/* ghost statement list for VERIF_GHOST: advance the ghost fold (verif_g1 = state, verif_g2 = bytes consumed) by byte b */
#define VERIF_CRC16_CONSUME(b) \
	verif_g1 = (verif_g1 ^ (unsigned char)(b)) & 0xFFFFu, \
	verif_g1 = SPEC_CRC16_BIT(verif_g1), verif_g1 = SPEC_CRC16_BIT(verif_g1), \
	verif_g1 = SPEC_CRC16_BIT(verif_g1), verif_g1 = SPEC_CRC16_BIT(verif_g1), \
	verif_g1 = SPEC_CRC16_BIT(verif_g1), verif_g1 = SPEC_CRC16_BIT(verif_g1), \
	verif_g1 = SPEC_CRC16_BIT(verif_g1), verif_g1 = SPEC_CRC16_BIT(verif_g1), \
	verif_g2 = verif_g2 + 1
#endif
