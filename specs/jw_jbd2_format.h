/*
 * jbd2 on-disk format as a WRITER has to produce it (units under proofs/jwriter).
 *
 * Written from the kernel documentation Documentation/filesystems/ext4/journal.rst and the kernel writer
 * fs/jbd2/commit.c / journal.c / revoke.c, with numeric offsets, over raw bytes - not through the structure
 * declarations of lib/ext2fs/kernel-jbd.h and not from debugfs/do_journal.c or lib/ext2fs/mkjournal.c.
 * Every multi-byte journal field is BIG-endian.
 *
 *  Block header (12 bytes, every journal metadata block):   0x0 be32 h_magic = 0xC03B3998
 *                                                            0x4 be32 h_blocktype  1 descriptor, 2 commit,
 *                                                                     3 superblock v1, 4 superblock v2, 5 revoke
 *                                                            0x8 be32 h_sequence   transaction id
 *  Journal superblock (1024 bytes, first block of the journal):
 *      0x00 header (blocktype 4)      0x0C be32 s_blocksize     0x10 be32 s_maxlen (total blocks in the journal)
 *      0x14 be32 s_first (first block of log information)      0x18 be32 s_sequence (first commit id expected)
 *      0x1C be32 s_start (block number of the start of the log; 0 = journal empty)     0x20 be32 s_errno
 *      0x24 be32 s_feature_compat     0x28 be32 s_feature_incompat     0x2C be32 s_feature_ro_compat
 *      0x30 u8[16] s_uuid             0x40 be32 s_nr_users      0x44 be32 s_dynsuper     0x48 be32 s_max_transaction
 *      0x4C be32 s_max_trans_data     0x50 u8 s_checksum_type   0x54 be32 s_num_fc_blks  0xFC be32 s_checksum
 *      0x100 u8[16*48] s_users
 *      incompat bits: 0x1 REVOKE, 0x2 64BIT, 0x4 ASYNC_COMMIT, 0x8 CSUM_V2, 0x10 CSUM_V3, 0x20 FAST_COMMIT
 *      compat bits:   0x1 CHECKSUM (v1: crc32 of the transaction's blocks in the commit block)
 *      features exist only in a version-2 superblock.
 *  Descriptor block: header, then tags; the FIRST tag of a block is followed by 16 UUID bytes, every other tag
 *      carries SAME_UUID; with CSUM_V2/V3 the block ends in a 4-byte tail {be32 t_checksum}.  The data blocks
 *      described by the tags follow the descriptor block in the log, in tag order.
 *      tag  (no CSUM_V3): 0x0 be32 t_blocknr   0x4 be16 t_checksum   0x6 be16 t_flags   [0x8 be32 t_blocknr_high iff 64BIT]
 *                         size 8, +4 with 64BIT, +2 (never used padding) with CSUM_V2
 *      tag3 (CSUM_V3):    0x0 be32 t_blocknr   0x4 be32 t_flags      0x8 be32 t_blocknr_high   0xC be32 t_checksum   size 16
 *                         (t_flags values fit 16 bits: bytes 6..7 in both layouts)
 *      flags: 0x1 ESCAPE  the data block started with the jbd2 magic; its first four bytes are ZERO in the log
 *             0x2 SAME_UUID   0x4 DELETED   0x8 LAST_TAG (last tag of the transaction's descriptor stream)
 *      tag checksum = crc32c(crc32c(journal seed, be32 sequence), the j_blocksize bytes of the block AS STORED IN THE LOG)
 *             i.e. over the escaped image: kernel jbd2_journal_write_metadata_buffer() escapes the copy first, then
 *             jbd2_block_tag_csum_set() runs over that copy; recovery verifies the block as read from the log,
 *             before un-escaping it.
 *  Revoke block: header (blocktype 5), 0xC be32 r_count = number of bytes used in this block INCLUDING the
 *      16-byte header, then r_count-16 bytes of block numbers, be32 each or be64 each with 64BIT; checksum tail as above.
 *  Commit block: header (blocktype 2), 0xC u8 h_chksum_type, 0xD u8 h_chksum_size, 0x10 be32 h_chksum[0],
 *      0x30 be64 h_commit_sec, 0x38 be32 h_commit_nsec.
 */
#ifndef JW_JBD2_FORMAT_H
#define JW_JBD2_FORMAT_H

#define JW_MAGIC		0xC03B3998u
#define JW_BT_DESCRIPTOR	1u
#define JW_BT_COMMIT		2u
#define JW_BT_SB_V1		3u
#define JW_BT_SB_V2		4u
#define JW_BT_REVOKE		5u
#define JW_INCOMPAT_REVOKE	0x1u
#define JW_INCOMPAT_64BIT	0x2u
#define JW_INCOMPAT_ASYNC	0x4u
#define JW_INCOMPAT_CSUM_V2	0x8u
#define JW_INCOMPAT_CSUM_V3	0x10u
#define JW_COMPAT_CHECKSUM	0x1u
#define JW_FLAG_ESCAPE		1u
#define JW_FLAG_SAME_UUID	2u
#define JW_FLAG_DELETED		4u
#define JW_FLAG_LAST_TAG	8u
#define JW_SB_BLOCKSIZE		0x0C
#define JW_SB_MAXLEN		0x10
#define JW_SB_FIRST		0x14
#define JW_SB_SEQUENCE		0x18
#define JW_SB_START		0x1C
#define JW_SB_ERRNO		0x20
#define JW_SB_COMPAT		0x24
#define JW_SB_INCOMPAT		0x28
#define JW_SB_ROCOMPAT		0x2C
#define JW_SB_UUID		0x30
#define JW_SB_NR_USERS		0x40
#define JW_SB_CSUM_TYPE		0x50
#define JW_SB_CHECKSUM		0xFC
#define JW_SB_USERS		0x100

#define JW_U8(b, o)   ((unsigned int)((const unsigned char *)(b))[o])
#define JW_BE16(b, o) ((JW_U8(b, o) << 8) | JW_U8(b, (o) + 1))
#define JW_BE32(b, o) ((JW_U8(b, o) << 24) | (JW_U8(b, (o) + 1) << 16) | (JW_U8(b, (o) + 2) << 8) | JW_U8(b, (o) + 3))
#define JW_BE64(b, o) (((unsigned long long)JW_BE32(b, o) << 32) | (unsigned long long)JW_BE32(b, (o) + 4))
/* byte i (0 = first on disk) of the big-endian n-byte encoding of v */
#define JW_BE_BYTE(v, n, i) ((unsigned char)(((unsigned long long)(v)) >> (8 * ((n) - 1 - (i)))))
#define JW_IN_FIELD(k, off, n) ((k) >= (off) && (k) < (off) + (n))

/* feature test on (superblock version as loaded: 1 or 2, host-order incompat word) */
#define JW_HAS(ver, incompat, bit) ((ver) >= 2 && ((incompat) & (bit)) != 0)
#define JW_CSUM23(ver, incompat) JW_HAS(ver, incompat, JW_INCOMPAT_CSUM_V2 | JW_INCOMPAT_CSUM_V3)

static inline unsigned int jw_tag_bytes(int ver, unsigned int incompat)
{
	if (JW_HAS(ver, incompat, JW_INCOMPAT_CSUM_V3))
		return 16;
	return 8 + (JW_HAS(ver, incompat, JW_INCOMPAT_64BIT) ? 4 : 0) + (JW_HAS(ver, incompat, JW_INCOMPAT_CSUM_V2) ? 2 : 0);
}
/* usable bytes of a descriptor / revoke block */
static inline unsigned int jw_usable(unsigned int blocksize, int ver, unsigned int incompat)
{
	return blocksize - (JW_CSUM23(ver, incompat) ? 4 : 0);
}
/* filesystem block number a tag names */
static inline unsigned long long jw_tag_block(int ver, unsigned int incompat, const unsigned char *tag)
{
	unsigned long long b = JW_BE32(tag, 0);
	if (JW_HAS(ver, incompat, JW_INCOMPAT_64BIT))
		b |= (unsigned long long)JW_BE32(tag, 8) << 32;
	return b;
}
#define JW_TAG_FLAGS(tag) JW_BE16(tag, 6)
/* size in bytes of one revoke record */
#define JW_REVOKE_RECORD(ver, incompat) (JW_HAS(ver, incompat, JW_INCOMPAT_64BIT) ? 8u : 4u)
#endif
