#!/bin/sh
# ./triage.sh <timeout> : run every wip unit once, print one status line per unit
T=${1:-200}
cd /verif
./check --list | awk '$3=="wip"{print $1, $4}' | while read id props; do
  p=${props%%,*}
  echo "$id $p"
done > /tmp/triage.list
cat /tmp/triage.list | xargs -P 7 -L 1 sh -c 'id=$0; p=$1; out=$(./check $p --unit $id --no-evidence --timeout '$T' --jobs 1 2>&1); rc=$?; echo "$id rc=$rc $(echo "$out" | grep -E "failed obligation|INFRA" | head -3 | cut -c1-330 | tr "\n" "|")"'
