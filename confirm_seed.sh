#!/bin/sh
# ./confirm_seed.sh <built scratch worktree> <dir with patch.diff demo.sh> : independent confirmation of a seeded change
# prints: demo rc without / with the change, test-suite summary with the change.  Leaves the worktree unchanged + rebuilt.
wt=$1; sd=$2; J=${J:-6}
cd $wt || exit 2
git diff --quiet || { echo "worktree not clean"; exit 2; }
make -s -j$J >/dev/null 2>&1
bash $sd/demo.sh $wt > $sd/confirm_without.log 2>&1; r0=$?
git apply $sd/patch.diff || { echo "patch does not apply"; exit 2; }
make -s -j$J >/dev/null 2>&1 || { echo "BUILD FAILS with change"; git checkout -- .; exit 2; }
bash $sd/demo.sh $wt > $sd/confirm_with.log 2>&1; r1=$?
make -s -k -j$J check > $sd/confirm_suite.log 2>&1
suite=$(grep -E "tests succeeded" $sd/confirm_suite.log | tail -1); failed=$(grep -E "^Tests failed" $sd/confirm_suite.log | tail -1)
libfail=$(grep -E "\*\*\*.*Error|FAILED|failed$" $sd/confirm_suite.log | grep -v "m_assume_storage_prezeroed\|test_post\|check-recursive\|tests failed" | head -3)
git checkout -- . ; make -s -j$J >/dev/null 2>&1
echo "$(basename $sd): demo_without=$r0 demo_with=$r1 suite='$suite' '$failed' other='$libfail'"
