#!/usr/bin/env python3
"""regenerates MANIFEST.json from the unit registry (which properties have quick units) + propmeta.json"""
import json, subprocess, re, glob, os
V = '/verif'
props = [json.loads(l) for l in open(V + '/properties.jsonl')]
meta = json.load(open(V + '/propmeta.json'))
units = {}
for path in glob.glob(V + '/proofs/*/*.c'):
    for m in re.finditer(r'/\*\s*VERIF-UNIT\s*(\{.*?\n\})\s*\*/', open(path).read(), re.S):
        u = json.loads(m.group(1))
        for p in u['props']:
            units.setdefault(p, []).append(u)
NA = {
 # C11: claimed partially since the tune2fs helper units exist (see propmeta.json)
}
hooks = subprocess.run(['git', '-C', '/repo', 'log', '--format=%H %s'], stdout=subprocess.PIPE).stdout.decode().split('\n')
hook_commits = [l.split()[0] for l in hooks if 'verif hooks' in l]
checks, na = [], []
HOLD = set(filter(None, os.environ.get('HOLD', '').split(',')))
for p in props:
    pid = p['id']
    us = units.get(pid, [])
    quick = [u for u in us if u.get('tier', 'quick') == 'quick']
    if pid in NA or not quick or pid in HOLD:
        na.append({'property_id': pid, 'reason': NA.get(pid, 'no proof unit for this property is finished yet (units under construction are listed in proofs/ with tier "wip"); see DESIGN.md §6')})
        continue
    lv = sorted(set(u.get('level', '?') for u in quick))
    bounded = [u['name'] for u in quick if str(u.get('level', '')).startswith('B')]
    m = meta.get(pid, {})
    checks.append({
        'property_id': pid,
        'quick_cmd': './check %s --tier quick' % pid,
        'thorough_cmd': './check %s --tier thorough' % pid,
        'evidence_file': '/verif/evidence/%s.json' % pid,
        'replay_cmd_template': './check --replay {path}',
        'engine': 'cbmc-contracts',
        'level_claimed': {'category': 'proof',
                          'text': 'PARTIAL, per-function: ' + m.get('claim', '') + ' Decided by CBMC code contracts (requires/ensures/assigns, loop contracts or complete unwinding) enforced on the real translation units for all inputs; %d quick units (levels %s)%s.' % (len(quick), ', '.join(lv), ('; bounded stand-ins not counted as proved: ' + ', '.join(bounded)) if bounded else ''),
                          'design_ref': 'DESIGN.md §6 ' + pid},
        'level_note': 'Trusted: CBMC 6.11 (front end, DFCC instrumentation, SAT back ends), libc models and harness stubs, the independent specs in /verif/specs and in the units, callee contracts listed as ASSUMED in the evidence. ' + ' '.join(m.get('residual', [])),
        'technique': 'contract-based deductive verification: CBMC 6.11 function/loop contracts (goto-instrument --dfcc) on the real C sources, per function, unbounded inputs',
    })
man = {
 'version': 1,
 'setup_cmd': './setup.sh',
 'hooks': {'guard': 'E2FSPROGS_VERIF',
           'enable': 'units compile the real sources with goto-cc -DE2FSPROGS_VERIF -I/verif/include -I/verif/specs; VERIF_LOOP/VERIF_GHOST then expand to CBMC loop contracts / ghost statements, and to nothing in every normal build',
           'baseline_off_cmd': 'cd /repo && make -s -j8 && make -s -j8 check',
           'source_commits': hook_commits,
           'add_only': False},
 'engines': [{'name': 'cbmc-contracts', 'path': '/verif/check', 'serves_properties': [c['property_id'] for c in checks],
              'kind_free_text': 'goto-cc + goto-instrument --dfcc (enforce/replace contracts, loop contracts) + cbmc on units under /verif/proofs that #include the real source files; native gcc replay of counterexamples'}],
 'checks': checks,
 'not_applicable': na,
 'notes': 'Exit 2 from a check means infrastructure problem (time-out, conversion error, vacuous unit), never a violation. hooks.add_only is false only because a few annotated loops had their opening brace moved to the next line so that the guarded macro can sit between the loop header and the body; with the guard off the token stream is unchanged. Genuine defects repaired in /repo are unguarded "fix:" commits listed in known_findings.txt.'
}
json.dump(man, open(V + '/MANIFEST.json', 'w'), indent=1)
print('claimed:', [c['property_id'] for c in checks]); print('n/a:', [n['property_id'] for n in na])
