#!/bin/sh
# C03 finding (writer side): debugfs "journal_write" loses committed transactions when a transaction carries BOTH data
# blocks (-b) and revoke records (-r) and another transaction is written in the same journal session.
#   debugfs/do_journal.c:journal_close_trans()   journal->j_head = trans->end + 1;
#   debugfs/do_journal.c:journal_open_trans()    trans->end = trans->block + blocks;      (blocks = journal_guess_blocks())
# j_head - where the next transaction of the session starts - is derived from the ESTIMATE of the transaction's length,
# not from the blocks actually written (trans->block).  journal_guess_blocks() counts 1 + data blocks (+ extra
# descriptor / revoke blocks beyond the first of each kind): exact for "descriptor + data + commit" and for
# "revoke + commit", one short for "descriptor + data + revoke + commit".  The next transaction's descriptor block is
# then written ON TOP OF THE COMMIT BLOCK of the previous one: recovery finds sequence 2 where it expects the commit of
# sequence 1 and replays NOTHING - both transactions, reported as written, are lost.
# Failed obligation: unit jwriter/jw_journal_write_head, "(after) j_head = the first log block behind the commit block".
# usage: demo.sh [built e2fsprogs tree, default /repo]
# exit 0 = both transactions replayed, 1 = defect present, 2 = set-up problem
T=${1:-/repo}
d=$(mktemp -d); trap 'rm -rf $d' EXIT
MKE2FS_CONFIG=/dev/null; export MKE2FS_CONFIG
dd if=/dev/zero of=$d/img bs=1k count=8192 2>/dev/null
# recognisable contents for the logged blocks
i=0; : > $d/data; while [ $i -lt 64 ]; do printf 'JW-DEMO-PAYLOAD-%04d' $i >> $d/data; i=$((i+1)); done
dd if=/dev/zero bs=1k count=16 2>/dev/null >> $d/data
dd if=$d/data of=$d/blk bs=1k count=1 2>/dev/null
$T/misc/mke2fs -q -F -o Linux -b 1024 -O has_journal,^64bit,^metadata_csum $d/img 8192 >/dev/null 2>&1 || { echo "mke2fs failed"; exit 2; }
$T/debugfs/debugfs -w -f - $d/img > $d/out 2>&1 <<EOF
jo
jw -b 333 -r 334 $d/data
jw -b 335 $d/data
jc
EOF
grep -i "while\|error" $d/out && { echo "journal_write reported an error"; exit 2; }
echo "both journal_write commands reported success; journal as recovery sees it:"
$T/debugfs/debugfs -R "logdump" $d/img 2>/dev/null | sed 's/^/    /'
$T/e2fsck/e2fsck -fy $d/img > $d/fsck 2>&1
dd if=$d/img of=$d/b333 bs=1k skip=333 count=1 2>/dev/null
dd if=$d/img of=$d/b335 bs=1k skip=335 count=1 2>/dev/null
r=0
if cmp -s $d/b333 $d/blk; then echo "block 333 (transaction 1): replayed"; else echo "DEFECT: block 333 (transaction 1, committed) was NOT replayed"; r=1; fi
if cmp -s $d/b335 $d/blk; then echo "block 335 (transaction 2): replayed"; else echo "DEFECT: block 335 (transaction 2, committed) was NOT replayed"; r=1; fi
exit $r
