/*
 * C16 finding: ext2fs_resize_generic_bitmap() (lib/ext2fs/gen_bitmap.c, legacy 32-bit bitmaps) resurrects members.
 * Shrinking a bitmap (new_real_end < real_end) leaves the bits beyond the new real_end in the last kept byte as they
 * were; a later grow clears only the numbers in (end, real_end] and zeroes only whole NEW bytes, so a number that was
 * a member before the shrink is a member again after the grow, although "all of the new parts of the bitmap are zero"
 * is what the code promises and what a set does (resize to [0,9] drops 12; growing to [0,15] adds non-members).
 * Failed obligation: unit bitmap_gen/gen32_resize, "well-formedness preserved: no bit set beyond real_end inside the
 * bit array" (shrink step) - the representation invariant the grow step relies on.
 * The same sequence is run on the 64-bit bit-array and rbtree back ends for comparison (report only; the bit-array
 * back end shares the code pattern).
 * Exit 0 = behaves as a set, 1 = defect present in the legacy implementation.
 */
#include <stdio.h>
#include "ext2fs/ext2fs.h"

static int legacy(void)
{
	ext2fs_generic_bitmap bm;
	int r;

	if (ext2fs_allocate_generic_bitmap(0, 15, 15, "legacy", &bm))
		return 2;
	ext2fs_mark_generic_bitmap(bm, 12);
	if (ext2fs_resize_generic_bitmap(EXT2_ET_MAGIC_GENERIC_BITMAP, 9, 9, bm))	/* shrink to [0,9] */
		return 2;
	if (ext2fs_resize_generic_bitmap(EXT2_ET_MAGIC_GENERIC_BITMAP, 15, 15, bm))	/* grow to [0,15] */
		return 2;
	r = ext2fs_test_generic_bitmap(bm, 12) != 0;
	printf("legacy   {12} over [0,15] -> resize [0,9] -> resize [0,15]: test(12)=%d   (a set answers 0)\n", r);
	ext2fs_free_generic_bitmap(bm);
	return r;
}

static int b64(int type, const char *name)
{
	ext2fs_generic_bitmap bm;
	int r;

	if (ext2fs_alloc_generic_bmap(0, EXT2_ET_MAGIC_GENERIC_BITMAP64, type, 0, 15, 15, name, &bm))
		return 2;
	ext2fs_mark_generic_bmap(bm, 12);
	if (ext2fs_resize_generic_bmap(bm, 9, 9) || ext2fs_resize_generic_bmap(bm, 15, 15))
		return 2;
	r = ext2fs_test_generic_bmap(bm, 12) != 0;
	printf("%-8s {12} over [0,15] -> resize [0,9] -> resize [0,15]: test(12)=%d   (a set answers 0)\n", name, r);
	ext2fs_free_generic_bmap(bm);
	return r;
}

int main(void)
{
	int bad = legacy();
	int ba = b64(EXT2FS_BMAP64_BITARRAY, "bitarray");
	int rb = b64(EXT2FS_BMAP64_RBTREE, "rbtree");

	if (bad == 2 || ba == 2 || rb == 2) {
		printf("setup failed\n");
		return 2;
	}
	if (ba || rb)
		printf("note: a 64-bit back end shows the same behaviour (reported, not part of this exit status)\n");
	if (bad)
		printf("DEFECT PRESENT\n");
	return bad ? 1 : 0;
}
