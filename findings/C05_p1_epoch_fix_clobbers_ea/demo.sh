#!/bin/sh
# usage: demo.sh [built e2fsprogs tree, default /repo]
# exit 1 = defect present, 0 = absent, 2 = cannot run
#
# e2fsck/pass1.c:check_inode_extra_space — the "timestamps beyond 2310 are likely pre-1970" repair
# (PR_1_EA_TIME_OUT_OF_RANGE, PR_PREEN_OK | PR_NO_OK) tests and rewrites i_ctime_extra / i_mtime_extra / i_atime_extra /
# i_crtime_extra at their FIXED offsets 132..152 without asking whether the fields exist, i.e. lie below
# 128 + i_extra_isize.  In an inode with a small (format-valid, kernel-accepted) i_extra_isize those offsets belong to
# the in-inode extended-attribute area: with i_extra_isize = 4 the EA magic sits at 132 and the first entry header at 136
# (= "i_mtime_extra": e_name_len, e_name_index, e_value_offs).  A name length with both low bits set (3, 7, 11, ...)
# plus a pre-1970 mtime (bit 31 of i_mtime set, legal without an *_extra field) makes e2fsck "repair" the entry:
# e_name_len &= ~3.  `e2fsck -fp` on a filesystem that `e2fsck -fn` accepts with exit 0 destroys the attribute (C05) and
# leaves an image that the next `e2fsck -fn` rejects with exit 4 (C01).
T=${1:-/repo}
for p in misc/mke2fs debugfs/debugfs e2fsck/e2fsck; do [ -x "$T/$p" ] || { echo "missing $T/$p"; exit 2; }; done
d=$(mktemp -d); trap 'rm -rf $d' EXIT
dd if=/dev/zero of=$d/img bs=1k count=4096 2>/dev/null
"$T/misc/mke2fs" -q -F -t ext4 -O ^metadata_csum -I 256 $d/img || exit 2
echo hello > $d/f.txt
"$T/debugfs/debugfs" -w -R "write $d/f.txt f" $d/img >/dev/null 2>&1
"$T/debugfs/debugfs" -w -R "sif f extra_isize 4" $d/img >/dev/null 2>&1
"$T/debugfs/debugfs" -w -R "ea_set f user.abc myvalue" $d/img >/dev/null 2>&1
# i_mtime := 0x80000001 (13 Dec 1901), written raw: debugfs' "sif f mtime" would itself write i_mtime_extra
loc=$("$T/debugfs/debugfs" -R "imap f" $d/img 2>/dev/null | sed -n 's/.*located at block \([0-9]*\), offset \(0x[0-9a-f]*\).*/\1 \2/p')
set -- $loc
[ -n "$1" ] && [ -n "$2" ] || { echo "cannot locate inode"; exit 2; }
printf '\001\000\000\200' | dd of=$d/img bs=1 seek=$(( $1 * 1024 + $2 + 16 )) conv=notrunc 2>/dev/null
"$T/debugfs/debugfs" -R "ea_list f" $d/img 2>/dev/null | grep -q 'user.abc (7) = "myvalue"' || { echo "set-up failed: attribute not there"; exit 2; }
"$T/e2fsck/e2fsck" -fn $d/img > $d/out0 2>&1; rc0=$?
[ $rc0 -eq 0 ] || { echo "set-up failed: e2fsck -fn on the prepared image exits $rc0"; cat $d/out0; exit 2; }
"$T/e2fsck/e2fsck" -fp $d/img > $d/out1 2>&1; rc1=$?
"$T/debugfs/debugfs" -R "ea_list f" $d/img > $d/ea 2>/dev/null
"$T/e2fsck/e2fsck" -fn $d/img > $d/out2 2>&1; rc2=$?
echo "e2fsck -fn before: exit $rc0;  e2fsck -fp: exit $rc1;  e2fsck -fn after: exit $rc2"
if ! grep -q 'user.abc (7) = "myvalue"' $d/ea || [ $rc2 -ne 0 ]; then
	cat $d/out1
	echo "DEFECT PRESENT: e2fsck -fp destroyed the extended attribute user.abc of a healthy file"
	grep -i "extended attribute" $d/out2
	exit 1
fi
echo "attribute intact, second check clean"
exit 0
