#!/bin/sh
# mkimg.sh <tree> <image>: 1 KiB-block ext4 with an inline-data directory /d whose EA "system.data" lives in the EA BLOCK and is
# 968 bytes long, i.e. inline data of 60 + 968 = 1028 bytes > blocksize.  (debugfs stores a 968-byte "trusted.data" in the
# EA block; its name index byte is then changed 4 -> 7 ("system."), its e_hash zeroed ("may be 0 in older EAs"), and the
# empty in-inode "system.data" is renamed to "user.data" the same way.)
T=$1; img=$2
dd if=/dev/zero of=$img bs=1k count=4096 2>/dev/null
"$T/misc/mke2fs" -q -F -t ext4 -O inline_data,^metadata_csum -b 1024 -I 256 $img || exit 2
big=$(mktemp); dd if=/dev/zero of=$big bs=968 count=1 2>/dev/null
"$T/debugfs/debugfs" -w -R "mkdir d" $img >/dev/null 2>&1
"$T/debugfs/debugfs" -w -R "ea_set -f $big d trusted.data" $img >/dev/null 2>&1
rm -f $big
acl=$("$T/debugfs/debugfs" -R "stat d" $img 2>/dev/null | sed -n 's/.*File ACL: \([0-9]*\).*/\1/p')
set -- $("$T/debugfs/debugfs" -R "imap d" $img 2>/dev/null | sed -n 's/.*located at block \([0-9]*\), offset \(0x[0-9a-f]*\).*/\1 \2/p')
iblk=$1; ioff=$(($2))
[ -n "$acl" ] && [ "$acl" -gt 0 ] && [ -n "$iblk" ] || { echo "could not locate EA block / inode"; exit 2; }
printf '\007' | dd of=$img bs=1 seek=$((acl * 1024 + 32 + 1)) conv=notrunc 2>/dev/null
printf '\000\000\000\000' | dd of=$img bs=1 seek=$((acl * 1024 + 32 + 12)) conv=notrunc 2>/dev/null
base=$((iblk * 1024 + ioff + 128 + 32))
printf '\001' | dd of=$img bs=1 seek=$((base + 4 + 1)) conv=notrunc 2>/dev/null
printf '\000\000\000\000' | dd of=$img bs=1 seek=$((base + 4 + 12)) conv=notrunc 2>/dev/null
"$T/debugfs/debugfs" -R "stat d" $img 2>/dev/null | grep -q "Size of inline data: 1028" || { echo "image does not have the 1028-byte inline directory"; exit 2; }
exit 0
