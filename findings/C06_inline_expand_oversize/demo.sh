#!/bin/sh
# usage: demo.sh [built e2fsprogs tree, default /repo]
# exit 1 = defect present (valgrind: invalid heap write below ext2fs_inline_data_convert_dir), 0 = absent, 2 = cannot run
#
# lib/ext2fs/inline_data.c:ext2fs_inline_data_convert_dir(fs, ino, bbuf, ibuf, size) copies size - 4 bytes of inline data to
# bbuf + 24, bbuf being ONE block, without comparing size (60 + size of the EA system.data, arbitrary) with the block size;
# the following entry walk `do { ... offset += rec_len; } while (offset < size)` reads entry headers that start less than
# 8 bytes before the end and never terminates on rec_len == 0.  Callers: ext2fs_expand_dir (e2fsck pass 3 for the root
# directory under -y/-p, debugfs expand_dir / mkdir / link / write, mke2fs -d, fuse2fs) and ext2fs_file_write on inline files.
# Image: inline directory with 1028 bytes of inline data on a 1 KiB-block file system (see mkimg.sh).
T=${1:-/repo}
command -v valgrind >/dev/null 2>&1 || { echo "valgrind not available"; exit 2; }
for p in misc/mke2fs debugfs/debugfs; do [ -x "$T/$p" ] || { echo "missing $T/$p"; exit 2; }; done
d=$(mktemp -d); trap 'rm -rf $d' EXIT
sh $(dirname $0)/mkimg.sh "$T" $d/img || exit 2
timeout 120 valgrind -q "$T/debugfs/debugfs" -w -R "expand_dir d" $d/img > $d/out 2>&1
if grep -q "Invalid write" $d/out && grep -q "ext2fs_inline_data_convert_dir" $d/out; then
	grep -m1 -A3 "Invalid write" $d/out
	echo "DEFECT PRESENT: ext2fs_inline_data_convert_dir copies 1024 bytes to offset 24 of a 1024-byte block buffer"
	exit 1
fi
grep -v "^$" $d/out | tail -3
echo "no invalid write"
exit 0
