#!/bin/sh
# C19: "converting a qcow2 image back to raw equals the directly produced raw image; an all-data image preserves
# every file's bytes".
# qcow2_write_raw_image (lib/ext2fs/qcow2.c) ignores every L1 entry whose L2-table offset is larger than the GUEST
# size (hdr.size).  L2 tables live in the qcow2 FILE, which for e2image -Qa of a nearly full file system is larger
# than the guest: the last tables lie beyond hdr.size, their clusters are silently dropped, e2image -r exits 0.
# usage: demo.sh [e2fsprogs tree, default /repo]     (E2IMAGE=<binary> overrides the e2image used for the conversion)
# exit 1 = defect present, 0 = absent, 2 = cannot run
T=${1:-/repo}
E2IMAGE=${E2IMAGE:-$T/misc/e2image}
for x in "$T/misc/mke2fs" "$T/debugfs/debugfs" "$T/misc/e2image" "$E2IMAGE"; do [ -x "$x" ] || { echo "$x not built"; exit 2; }; done
base=/dev/shm; [ -d "$base" ] && [ -w "$base" ] || base=${TMPDIR:-/tmp}
d=$(mktemp -d "$base/c19_l1_XXXXXX") || exit 2
trap 'rm -rf "$d"' EXIT
cd "$d" || exit 2
# a 40001-block (1 KiB) file system filled completely with incompressible data: ~310 L2 tables + refcount blocks
"$T/misc/mke2fs" -q -F -b 1024 -m 0 -I 128 -O ^has_journal,^resize_inode -N 96 fs.img 40001 2>/dev/null || exit 2
head -c 34000000 /dev/urandom > rnd
( sz=33554432; while [ $sz -ge 1024 ]; do head -c $sz rnd > q$sz; echo "write q$sz p$sz"; echo "write q$sz r$sz"; sz=$((sz/2)); done
  i=0; while [ $i -lt 60 ]; do echo "write q1024 k$i"; i=$((i+1)); done ) > cmds
"$T/debugfs/debugfs" -w -f cmds fs.img > /dev/null 2>&1
"$T/misc/e2image" -ra fs.img direct.raw 2>/dev/null || exit 2
"$T/misc/e2image" -Qa fs.img fs.qcow2 2>/dev/null || exit 2
[ "$(stat -c %s fs.qcow2)" -gt "$(stat -c %s fs.img)" ] || { echo "qcow2 file not larger than the guest: scenario not reached"; exit 2; }
"$E2IMAGE" -r fs.qcow2 back.raw 2>/dev/null || { echo "qcow2 -> raw conversion failed"; exit 2; }
# ignore the very last byte (separate finding C19_qcow2_raw_last_byte)
last=$(stat -c %s direct.raw)
blocks=$(cmp -l direct.raw back.raw | awk -v last="$last" '$1 != last { b = int(($1 - 1) / 1024); if (b != p) { n++; p = b } } END { print n + 0 }')
if [ "$blocks" -eq 0 ]; then echo "qcow2 -> raw equals the direct raw image (apart from the last byte)"; exit 0; fi
first=$(cmp -l direct.raw back.raw | awk '{ print int(($1 - 1) / 1024); exit }')
echo "guest size $(stat -c %s fs.img), qcow2 file $(stat -c %s fs.qcow2): $blocks block(s) of file data are missing from the converted image (first: block $first), e2image -r exit status 0"
echo "DEFECT: clusters described by L2 tables located beyond the guest size are dropped"
exit 1
