/*
 * C09 finding in lib/ext2fs/punch.c:ext2fs_punch_ind — after punching the part of [start, end] that lies in one
 * mapping tree (direct slots, indirect, double indirect, triple indirect) the loop goes on to the next tree only
 * `if (count > max)`, i.e. when the COUNT exceeds the size of the current tree.  The right test is whether the range
 * extends beyond the tree: `start + count > max`.  A hole that starts in one tree and ends inside the next one
 * (e.g. blocks 5..14 with 12 direct slots, or 200..300 with the indirect tree ending at 267) is silently cut at the
 * tree boundary: ext2fs_punch returns 0 but the blocks in the next tree stay mapped, so reads return the old data
 * instead of zeros.  (Truncation, end = ~0, always has a huge count and is not affected.)
 * Replayed through the PUBLIC API (ext2fs_file_write, ext2fs_punch, ext2fs_bmap2) on a
 * block-mapped (ext2) image with 1 KiB blocks.
 * exit 0 = mapping as the model says, 1 = blocks inside the punched range still mapped, 2 = setup problem.
 */
#include <stdio.h>
#include <stdlib.h>
#include <string.h>
#include "ext2fs/ext2_fs.h"
#include "ext2fs/ext2fs.h"

#define NBLK 1000
static ext2_filsys fs;
static int bad;

static ext2_ino_t make_file(void)
{
	ext2_ino_t ino;
	struct ext2_inode inode;
	ext2_file_t f;
	char blk[1024];
	unsigned int w;
	int i;
	if (ext2fs_new_inode(fs, EXT2_ROOT_INO, 0100644, 0, &ino)) exit(2);
	memset(&inode, 0, sizeof(inode));
	inode.i_mode = LINUX_S_IFREG | 0644;
	inode.i_links_count = 1;
	if (ext2fs_write_new_inode(fs, ino, &inode)) exit(2);
	ext2fs_inode_alloc_stats2(fs, ino, +1, 0);
	if (ext2fs_file_open(fs, ino, EXT2_FILE_WRITE, &f)) exit(2);
	for (i = 0; i < NBLK; i++) {
		memset(blk, 'a' + i % 26, sizeof(blk));
		if (ext2fs_file_write(f, blk, sizeof(blk), &w) || w != sizeof(blk)) exit(2);
	}
	if (ext2fs_file_close(f)) exit(2);
	return ino;
}

static void punch_and_check(unsigned long long start, unsigned long long end)
{
	ext2_ino_t ino = make_file();
	struct ext2_inode inode;
	unsigned long long l, too_much = 0, too_little = 0, first_tm = 0, first_tl = 0;
	blk64_t p;
	errcode_t r;

	if (ext2fs_read_inode(fs, ino, &inode)) exit(2);
	if (inode.i_flags & EXT4_EXTENTS_FL) { printf("file is extent mapped\n"); exit(2); }
	r = ext2fs_punch(fs, ino, &inode, 0, start, end);
	if (ext2fs_read_inode(fs, ino, &inode)) exit(2);
	for (l = 0; l < NBLK; l++) {
		int punched = l >= start && l <= end;
		if (ext2fs_bmap2(fs, ino, &inode, 0, 0, l, 0, &p)) exit(2);
		if (punched && p != 0) { if (!too_little++) first_tl = l; }
		if (!punched && p == 0) { if (!too_much++) first_tm = l; }
	}
	printf("punch [%llu, %llu] ret=%ld: %llu blocks inside the range still mapped (first %llu), "
	       "%llu blocks OUTSIDE the range lost (first %llu)\n", start, end, (long)r,
	       too_little, first_tl, too_much, first_tm);
	if (too_little || too_much) bad = 1;
}

int main(int argc, char **argv)
{
	if (argc < 2) return 2;
	if (ext2fs_open(argv[1], EXT2_FLAG_RW, 0, 0, unix_io_manager, &fs)) { printf("cannot open %s\n", argv[1]); return 2; }
	if (ext2fs_read_bitmaps(fs)) return 2;
	/* 12 direct slots, 256 per indirect block: the indirect tree covers 12..267, the double-indirect tree starts at 268 */
	punch_and_check(5, 8);		/* inside the direct slots: fine */
	punch_and_check(5, 300);	/* count (296) > 12 and > 256: crosses both boundaries correctly */
	punch_and_check(5, 14);		/* direct -> indirect, count 10 <= 12: blocks 12..14 stay mapped */
	punch_and_check(200, 300);	/* indirect -> double indirect, count 101 <= 256: blocks 268..300 stay mapped */
	ext2fs_close(fs);
	puts(bad ? "RESULT: a hole crossing a mapping-tree boundary is cut at the boundary (blocks stay mapped)" : "RESULT: ok");
	return bad;
}
