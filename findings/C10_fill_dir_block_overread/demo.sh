#!/bin/sh
# usage: demo.sh [built e2fsprogs tree, default /repo]; exit 0 = no over-read, 1 = ASan heap-buffer-overflow
T=${1:-/repo}
L=$T; [ -f $T/lib/libext2fs.a ] || L=/repo	# scratch worktrees have no built libraries; only rehash.c matters
d=$(mktemp -d); trap 'rm -rf $d' EXIT
gcc -w -g -no-pie -fsanitize=address -fno-omit-frame-pointer -DHAVE_CONFIG_H -I$T -I$T/lib -I$T/lib/ext2fs -I$T/include -I$T/e2fsck -I$T/lib/support \
    -Wl,--unresolved-symbols=ignore-all -Wl,--allow-multiple-definition -o $d/demo $(dirname $0)/demo.c $T/lib/ext2fs/dir_iterate.c $L/lib/libext2fs.a $L/lib/libcom_err.a -lpthread || exit 2
ASAN_OPTIONS=exitcode=1:detect_leaks=0 $d/demo > $d/out 2>&1
rc=$?
grep -v '^[[:space:]]*$' $d/out | head -14
exit $rc
