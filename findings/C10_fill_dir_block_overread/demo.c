/*
 * Native replay of the C05/C10 (memory-safety) finding "e2fsck/rehash.c:fill_dir_block reads a directory-entry header
 * up to 4 bytes past the end of the directory buffer" (failed obligations ext2fs_get_rec_len.pointer_dereference.5
 * "pointer outside object bounds in dirent->rec_len" and ext2fs_dirent_name_len.pointer_dereference.5 of unit
 * dirs/fill_dir_block_32).
 *
 * e2fsck_rehash_dir() allocates the buffer with ext2fs_get_mem(inode.i_size, &dir_buf) — exactly i_size bytes — and
 * fill_dir_block() walks each block with
 *         while (dir_offset < fs->blocksize) { dirent = dir + dir_offset; get rec_len; get name_len; ... }
 * Every rec_len is a multiple of 4, so a chain whose rec_lens sum to blocksize - 4 (e.g. ONE entry with
 * rec_len == blocksize - 4, which passes all four per-entry checks) makes the next iteration read rec_len and name_len
 * at bytes blocksize+0 .. blocksize+3.  In the last block of the directory that is past the heap buffer.  The entry is
 * then (usually) rejected as corrupted, but the out-of-bounds read has happened.  Reachable from `e2fsck -n` on a
 * directory that pass 2 queued for rehashing (in -n mode pass 2 does not repair the chain before pass 3A reads it).
 *
 * The real rehash.c of the tree is compiled into this program with -fsanitize=address; ext2fs_read_dir_block4 is
 * replaced by a function that "reads" the crafted block.  exit 1 + ASan report = defect present.
 */
#include "e2fsck/rehash.c"

static unsigned char disk_block[1024];

errcode_t ext2fs_read_dir_block4(ext2_filsys fs, blk64_t block, void *buf, int flags, ext2_ino_t ino)
{
	memcpy(buf, disk_block, fs->blocksize);
	return 0;
}

int main(void)
{
	struct struct_ext2_filsys fs;
	struct ext2_super_block sb;
	struct ext2_inode inode;
	struct fill_dir_struct fd;
	struct ext2_dir_entry *de = (struct ext2_dir_entry *)disk_block;
	blk64_t blk = 1234;
	int ret;

	memset(&fs, 0, sizeof(fs)); memset(&sb, 0, sizeof(sb)); memset(&inode, 0, sizeof(inode)); memset(&fd, 0, sizeof(fd));
	fs.blocksize = 1024;
	fs.super = &sb;
	sb.s_def_hash_version = EXT2_HASH_HALF_MD4;
	inode.i_size = 1024;			/* a one-block directory */
	inode.i_mode = LINUX_S_IFDIR | 0755;

	/* one live entry "a" whose rec_len stops 4 bytes short of the block end */
	de->inode = 12;
	de->rec_len = 1024 - 4;
	de->name_len = 1;
	de->name[0] = 'a';

	fd.buf = malloc(inode.i_size);		/* as e2fsck_rehash_dir: ext2fs_get_mem(inode.i_size, &dir_buf) */
	fd.inode = &inode;
	fd.max_array = inode.i_size / 32;
	fd.harray = calloc(fd.max_array, sizeof(struct hash_entry));
	fd.compress = 1;
	fd.dir = fd.ino = 2;

	ret = fill_dir_block(&fs, &blk, 0, 0, 0, &fd);
	printf("fill_dir_block returned %d, fd.err %ld, %u entries collected — no out-of-bounds read detected\n",
	       ret, (long)fd.err, fd.num_array);
	return 0;
}
