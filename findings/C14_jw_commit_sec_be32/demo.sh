#!/bin/sh
# C14 finding (writer side, low severity): the commit block written by debugfs "journal_write"
# (debugfs/do_journal.c:journal_commit_trans) carries a wrong commit time stamp:
#     commit->h_commit_sec = ext2fs_cpu_to_be32(tv.tv_sec);
# h_commit_sec is a 64-bit big-endian field (be64 at 0x30 of the commit block); storing the 32-bit byte-swapped value
# into the 64-bit host word puts the seconds into the HIGH four bytes: the field reads seconds << 32.
# The jbd2 format / kernel writer: h_commit_sec = cpu_to_be64(now.tv_sec).  Recovery uses the value only to order
# commit blocks when a checksum does not match (do_one_pass: commit_time < last_trans_commit_time), so a journal
# holding both kernel-written and debugfs-written transactions compares real seconds with seconds << 32.
# Failed obligation: unit jwriter/jw_commit_time, "h_commit_sec = be64 seconds at 0x30".
# usage: demo.sh [built e2fsprogs tree, default /repo]
# exit 0 = be64 seconds within a day of now, 1 = defect present, 2 = set-up problem
T=${1:-/repo}
d=$(mktemp -d); trap 'rm -rf $d' EXIT
MKE2FS_CONFIG=/dev/null; export MKE2FS_CONFIG
hex() { dd if="$1" bs=1 skip="$2" count="$3" 2>/dev/null | od -An -tx1 | tr -d ' \n'; }
dd if=/dev/zero of=$d/img bs=1k count=8192 2>/dev/null
dd if=/dev/zero of=$d/zeros bs=1k count=16 2>/dev/null
$T/misc/mke2fs -q -F -o Linux -b 1024 -O has_journal,^64bit,^metadata_csum $d/img 8192 >/dev/null 2>&1 || { echo "mke2fs failed"; exit 2; }
now=$(date +%s)
$T/debugfs/debugfs -w -f - $d/img > $d/out 2>&1 <<EOF
jo
jw -b 333 $d/zeros
jc
EOF
# transaction: descriptor (journal block 1), one data block (2), commit block (3)
jc=$($T/debugfs/debugfs -R "bmap <8> 3" $d/img 2>/dev/null)
[ -n "$jc" ] || { echo "cannot map the journal"; cat $d/out; exit 2; }
dd if=$d/img of=$d/commit bs=1k skip=$jc count=1 2>/dev/null
[ "$(hex $d/commit 0 8)" = "c03b399800000002" ] || { echo "no commit block at journal block 3: $(hex $d/commit 0 12)"; cat $d/out; exit 2; }
sec=$(hex $d/commit 48 8)
echo "commit block bytes 0x30..0x37 (be64 h_commit_sec): $sec      now = $(printf '%016x' $now)"
v=$(printf '%d' 0x$sec 2>/dev/null)
lo=$((now - 86400)); hi=$((now + 86400))
if [ "$v" -ge "$lo" ] 2>/dev/null && [ "$v" -le "$hi" ] 2>/dev/null; then
	echo "h_commit_sec is the current time"
	exit 0
fi
echo "DEFECT: h_commit_sec is not the current time in seconds (high word = $(printf '%d' 0x$(hex $d/commit 48 4)), i.e. seconds << 32)"
exit 1
