/*
 * C08 finding: resize/extent.c:ext2fs_extent_translate() interpolates the probe index in single precision:
 *     mid = low + ((__u64) (range * (high-low)));
 * (high-low) is converted to float; once it needs more than 24 bits the conversion may round UP, and with range == 1
 * (old_loc greater than the old location of run `high`) mid lands BEHIND high, i.e. behind the last run of the table.
 * With 2^24 + 4 runs the first probe for any location above the start of the last run reads list[num] (one past the
 * table: uninitialised slack of the realloc'ed array, or past the allocation when num == size) and the lookup answers 0
 * ("not moved") for a block that WAS moved: the reference to it is not rewritten.
 * Failed obligation of unit resize/rsz_extent_translate_big: "mid stays in [low, high] (inside the table)".
 */
#include <stdio.h>
#include <stdlib.h>
#include "resize2fs.h"

int main(void)
{
	ext2_extent t;
	__u64 i, n = (1ULL << 24) + 4, last_old, last_new, r;

	if (ext2fs_create_extent_table(&t, 0))
		return 2;
	/* n runs, none contiguous with its predecessor: old 3i -> new 3i+1 */
	for (i = 0; i < n; i++)
		if (ext2fs_add_extent_entry(t, 3 * i, 3 * i + 1))
			return 2;
	last_old = 3 * (n - 1); last_new = last_old + 1;
	/* the last run gets a second block */
	if (ext2fs_add_extent_entry(t, last_old + 1, last_new + 1))
		return 2;
	r = ext2fs_extent_translate(t, last_old + 1);
	printf("%llu runs; translate(%llu) = %llu, expected %llu\n", (unsigned long long)n,
	       (unsigned long long)(last_old + 1), (unsigned long long)r, (unsigned long long)(last_new + 1));
	return r == last_new + 1 ? 0 : 1;
}
