#!/bin/sh
# C08 finding: ext2fs_extent_translate() (resize/extent.c) probes one slot BEHIND the translation table once the table has
# more than 2^24 runs, because the interpolated index is computed in float: (float)(high-low) rounds up and range == 1
# multiplies it back.  The lookup then misses a block that was moved (answers 0 = "not moved"); inode_scan_and_fix leaves
# the reference to the old location.  Needs a shrink / table move with > 16.7 million separate runs (large, fragmented
# filesystem); memory for the demo: ~400 MB.
# Failed obligation of unit resize/rsz_extent_translate_big: "mid stays in [low, high] (inside the table)" and the
# bounds checks on extent->list[mid].
# usage: demo.sh [built e2fsprogs tree, default /repo]; exit 0 = lookup correct, 1 = defect present
T=${1:-/repo}
d=$(mktemp -d); trap 'rm -rf $d' EXIT
gcc -O1 -DHAVE_CONFIG_H -I$T/lib -I$T/lib/ext2fs -I$T/include -I$T/resize -o $d/demo $(dirname $0)/demo.c $T/resize/extent.c $T/lib/libext2fs.a $T/lib/libcom_err.a -lpthread 2>$d/err || { cat $d/err; exit 2; }
$d/demo
