#!/bin/sh
# C15 finding ("the filesystem stays consistent"): ext2fs_xattr_set() with a value that goes to an EA inode (feature
# ea_inode) does not charge the OWNER's i_blocks.  The kernel charges the owner with the value size rounded up to
# clusters (fs/ext4/xattr.c ext4_xattr_inode_alloc_quota() -> dquot_alloc_space_nodirty() -> inode_add_bytes(), also
# without quota) and gives it back on removal (ext4_xattr_inode_free_quota()); e2fsck follows the kernel
# (pass1.c check_large_ea_inode() / size_to_quota_blocks(), added to pb.num_blocks of the owner in check_blocks()).
# So `e2fsck -fn` reports "i_blocks is X, should be Y" for a file right after debugfs ea_set / mke2fs -d / fuse2fs
# stored a large attribute.
# usage: demo.sh [built e2fsprogs tree, default /repo]
# exit 0 = e2fsck is happy after every step (defect absent), 1 = i_blocks of the owner is wrong, 2 = setup problem
T=${1:-/repo}
d=$(mktemp -d); trap 'rm -rf $d' EXIT
dd if=/dev/zero of=$d/img bs=1k count=4096 status=none || exit 2
$T/misc/mke2fs -q -F -t ext4 -b 1024 -I 256 -O ea_inode,^has_journal $d/img >/dev/null 2>&1 || exit 2
echo hello > $d/f
awk 'BEGIN{for(i=0;i<1000;i++) printf "v"}' > $d/val		# 1000 bytes > 1024 - 32 - 20 - 4: stored in an EA inode
awk 'BEGIN{for(i=0;i<990;i++) printf "w"}' > $d/val2
$T/debugfs/debugfs -w -R "write $d/f f" $d/img >/dev/null 2>&1 || exit 2
bad=0
step() {
	$T/debugfs/debugfs -w -R "$1" $d/img > $d/out 2>&1
	$T/e2fsck/e2fsck -fn $d/img > $d/fsck.out 2>&1; rc=$?
	echo "after '$2': e2fsck -fn exit $rc  $(grep 'i_blocks is' $d/fsck.out | head -1)"
	[ $rc = 0 ] || bad=1
}
step "ea_set -f $d/val f user.big" "ea_set f user.big <1000 bytes>"
$T/debugfs/debugfs -R "ea_list f" $d/img 2>/dev/null | grep -q "user.big (1000)" || { echo "value not stored"; exit 2; }
n=$($T/debugfs/debugfs -R "stat <13>" $d/img 2>/dev/null | grep -c "Flags: 0x280000")
[ "$n" = 1 ] || { echo "no EA inode was created"; exit 2; }
step "ea_set -f $d/val2 f user.big" "replace by another 990-byte value"
step "ea_rm f user.big" "ea_rm f user.big"
if [ $bad = 1 ]; then echo "DEFECT PRESENT: libext2fs and e2fsck disagree about i_blocks of a file with an EA-inode value"; exit 1; fi
echo "defect absent"; exit 0
