#!/bin/sh
# usage: demo.sh [built e2fsprogs tree, default /repo]
# exit 1 = defect present, 0 = absent, 2 = cannot run
#
# misc/create_inode.c:__populate_fs(), case S_IFLNK: when readlink() fills the whole st_size + 1 buffer ("symlink
# increased in size between lstat() and readlink()") or malloc() fails, the code prints a message and does `goto out`
# WITHOUT setting retval - which still holds the 0 of the previous successful step.  The population of the whole tree
# stops at that entry and __populate_fs / populate_fs / mke2fs -d report SUCCESS: every later entry of the directory
# (and of all parent directories) is silently missing from the image.
# Deterministic trigger: a symlink whose lstat st_size is smaller than its target - every symlink on procfs (st_size 0),
# also seen on some FUSE / network file systems; otherwise a race with a concurrent `ln -sf`.
T=${1:-/repo}
for p in misc/mke2fs debugfs/debugfs; do [ -x "$T/$p" ] || { echo "missing $T/$p"; exit 2; }; done
src=/proc/self/ns
[ -d $src ] || { echo "no $src"; exit 2; }
n=$(ls $src | wc -l)
[ "$(stat -c %s $src/mnt 2>/dev/null)" = 0 ] || { echo "procfs symlinks do not report st_size 0 here"; exit 2; }
d=$(mktemp -d /tmp/pop2demo.XXXXXX); trap 'rm -rf $d' EXIT
"$T/misc/mke2fs" -q -F -t ext4 -d $src $d/img 8M > $d/mk.out 2>&1; rc=$?
grep -v "^$" $d/mk.out | head -3
stored=$("$T/debugfs/debugfs" -R "ls -l /" $d/img 2>/dev/null | grep -c "^ *[0-9]* *12[0-7]*")
echo "source directory: $n symbolic links; mke2fs -d exit status $rc; symbolic links in the image: $stored"
if [ $rc = 0 ] && [ "$stored" -lt "$n" ]; then
	echo "DEFECT PRESENT: mke2fs -d reported success although it stopped populating at the first symlink"
	exit 1
fi
echo "the failure is reported (or everything was stored)"
exit 0
