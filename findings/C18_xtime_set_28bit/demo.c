/*
 * Side finding while writing the C18 set_inode_extra unit (not an obligation of that unit: set_inode_extra
 * works on the 128-byte struct ext2_inode and takes the other branch of the macro):
 * lib/ext2fs/ext2fs.h: ext2fs_inode_xtime_set(), large-inode branch, stores
 *        (inode)->field = (__s32)(sec & 0xfffffff);        <- 7 f's: a 28-bit mask
 * so every timestamp >= 2^28 s (1978-07-04) written through a struct ext2_inode_large with room for the
 * *_extra fields loses its top four bits; ext2fs_inode_xtime_get() does not return what was set.
 * Users: ext2fs_write_new_inode (inode.c), e2fsck pass1/pass3 (lost+found, root), ...
 * Exit 1 = defect present.
 */
#include <stdio.h>
#include <string.h>
#include "ext2fs/ext2fs.h"
int main(void)
{
	struct ext2_inode_large li;
	time_t t = 1700000000;		/* 2023-11-14 */
	memset(&li, 0, sizeof(li));
	li.i_extra_isize = 32;
	ext2fs_inode_xtime_set(&li, i_mtime, t);
	printf("set %ld -> stored i_mtime %u, i_mtime_extra %u -> get %ld\n", (long)t, li.i_mtime,
	       li.i_mtime_extra, (long)ext2fs_inode_xtime_get(&li, i_mtime));
	return ext2fs_inode_xtime_get(&li, i_mtime) != t;
}
