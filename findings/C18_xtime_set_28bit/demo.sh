#!/bin/sh
# usage: demo.sh [e2fsprogs tree, default /repo]; exit 0 = round trip ok, 1 = timestamp truncated to 28 bits
T=${1:-/repo}
d=$(mktemp -d); trap 'rm -rf $d' EXIT
gcc -I$T/lib -o $d/demo $(dirname $0)/demo.c || exit 2
$d/demo
