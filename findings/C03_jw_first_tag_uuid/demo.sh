#!/bin/sh
# C03/C14 finding (writer side, low severity): debugfs "journal_write" (debugfs/do_journal.c:journal_add_blocks_to_trans)
# does not put the journal UUID behind the first tag of a descriptor block.
#     memcpy(jdbt + tag_bytes, trans->journal->j_superblock->s_uuid, 16);
# jdbt is a journal_block_tag_t * (12 bytes), so the copy lands at byte 12 + 12*tag_bytes of the block instead of
# 12 + tag_bytes.  The 16 bytes the format reserves behind the first tag (no SAME_UUID flag) stay zero, and a stray
# copy of the UUID sits further down in the tag area (bytes 108..123 with 8-byte tags, 204..219 with 16-byte tags),
# where later tags overwrite it only partly: with checksum v3 the 12th tag keeps UUID bytes 4..5 in the high half of
# its be32 t_flags.  Recovery (e2fsck, kernel) skips the UUID and reads t_flags as 16 bits, so replay is not
# affected; the block is simply not what the jbd2 format (and the kernel writer: memcpy(tagp, journal->j_uuid, 16)
# directly behind the first tag) defines.
# Failed obligation: unit jwriter/jw_add_blocks_first_tag_uuid, "the first tag of a descriptor block is followed by
# the journal UUID".
# usage: demo.sh [built e2fsprogs tree, default /repo]
# exit 0 = UUID directly behind the first tag, 1 = defect present, 2 = set-up problem
T=${1:-/repo}
d=$(mktemp -d); trap 'rm -rf $d' EXIT
MKE2FS_CONFIG=/dev/null; export MKE2FS_CONFIG
hex() { dd if="$1" bs=1 skip="$2" count="$3" 2>/dev/null | od -An -tx1 | tr -d ' \n'; }
r=0

# ---- part 1: 8-byte tags (no 64bit, no checksums), two logged blocks
dd if=/dev/zero of=$d/img bs=1k count=8192 2>/dev/null
dd if=/dev/zero of=$d/zeros bs=1k count=16 2>/dev/null
$T/misc/mke2fs -q -F -o Linux -b 1024 -O has_journal,^64bit,^metadata_csum -U 11223344-5566-7788-99aa-bbccddeeff00 $d/img 8192 >/dev/null 2>&1 || { echo "mke2fs failed"; exit 2; }
$T/debugfs/debugfs -w -f - $d/img > $d/out 2>&1 <<EOF
jo
jw -b 333,334 $d/zeros
jc
EOF
jsb=$($T/debugfs/debugfs -R "bmap <8> 0" $d/img 2>/dev/null)
jd=$($T/debugfs/debugfs -R "bmap <8> 1" $d/img 2>/dev/null)
[ -n "$jsb" ] && [ -n "$jd" ] || { echo "cannot map the journal"; cat $d/out; exit 2; }
dd if=$d/img of=$d/jsb bs=1k skip=$jsb count=1 2>/dev/null
dd if=$d/img of=$d/desc bs=1k skip=$jd count=1 2>/dev/null
[ "$(hex $d/desc 0 8)" = "c03b399800000001" ] || { echo "no descriptor block at journal block 1: $(hex $d/desc 0 12)"; cat $d/out; exit 2; }
uuid=$(hex $d/jsb 48 16)
echo "journal s_uuid                          : $uuid"
echo "first tag (bytes 12..19)                : $(hex $d/desc 12 8)"
echo "UUID field behind it (bytes 20..35)     : $(hex $d/desc 20 16)"
echo "bytes 108..123 (= 12 + 12*8)            : $(hex $d/desc 108 16)"
if [ "$(hex $d/desc 20 16)" != "$uuid" ]; then echo "DEFECT: the first tag is not followed by the journal UUID"; r=1; fi
if [ "$(hex $d/desc 108 16)" = "$uuid" ]; then echo "        the UUID was copied to byte 12 + 12*tag_bytes instead"; fi

# ---- part 2: checksum v3 (16-byte tags), twelve logged blocks: the stray copy ends up inside the 12th tag
dd if=/dev/zero of=$d/img2 bs=1k count=16384 2>/dev/null
if $T/misc/mke2fs -q -F -o Linux -b 1024 -O has_journal,extents,64bit,metadata_csum -U 11223344-5566-7788-99aa-bbccddeeff00 $d/img2 16384 >/dev/null 2>&1; then
	$T/debugfs/debugfs -w -f - $d/img2 > $d/out2 2>&1 <<EOF
jo -c
jw -b 333,334,335,336,337,338,339,340,341,342,343,344 $d/zeros
jc
EOF
	jd=$($T/debugfs/debugfs -R "bmap <8> 1" $d/img2 2>/dev/null)
	jsb=$($T/debugfs/debugfs -R "bmap <8> 0" $d/img2 2>/dev/null)
	dd if=$d/img2 of=$d/desc2 bs=1k skip=$jd count=1 2>/dev/null
	dd if=$d/img2 of=$d/jsb2 bs=1k skip=$jsb count=1 2>/dev/null
	if [ "$(hex $d/desc2 0 8)" = "c03b399800000001" ]; then
		u2=$(hex $d/jsb2 48 16)
		echo "csum v3: journal s_uuid                 : $u2"
		echo "csum v3: 12th tag (bytes 204..219)      : $(hex $d/desc2 204 16)"
		echo "csum v3: its be32 t_flags (bytes 208..211): $(hex $d/desc2 208 4)   (UUID bytes 4..5: $(hex $d/jsb2 52 2))"
		if [ "$(hex $d/desc2 208 2)" != "0000" ]; then echo "DEFECT: high half of the 12th tag's t_flags holds UUID bytes"; r=1; fi
	fi
fi
exit $r
