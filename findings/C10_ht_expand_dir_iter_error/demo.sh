#!/bin/sh
# usage: demo.sh [built e2fsprogs tree, default /repo]; exit 0 = failure to attach the block is reported, 1 = defect present
T=${1:-/repo}
d=$(mktemp -d); trap 'rm -rf $d' EXIT
if [ -f $T/lib/libext2fs.a ] && [ -x $T/misc/mke2fs ]; then
	B=$T
	gcc -w -DHAVE_CONFIG_H -I$T/lib -o $d/demo $(dirname $0)/demo.c $T/lib/libext2fs.a $T/lib/libcom_err.a -lpthread || exit 2
else
	# scratch worktree without a build: this tree's expanddir.c in front of /repo's libraries
	B=/repo
	gcc -w -DHAVE_CONFIG_H -I$T/lib -I$T/lib/ext2fs -I/repo/lib -I/repo/lib/ext2fs -o $d/demo $(dirname $0)/demo.c $T/lib/ext2fs/expanddir.c /repo/lib/libext2fs.a /repo/lib/libcom_err.a -lpthread || exit 2
fi
MKE2FS_CONFIG=/dev/null $B/misc/mke2fs -q -F -t ext4 -O extent,^has_journal,^resize_inode,^metadata_csum -b 1024 -I 256 $d/img 512 >/dev/null 2>&1 || exit 2
$d/demo $d/img; rc=$?
if [ -x $B/e2fsck/e2fsck ]; then echo "--- e2fsck -fn:"; $B/e2fsck/e2fsck -fn $d/img 2>&1 | grep -v "^Pass\|^e2fsck\|^$" | head -8; fi
exit $rc
