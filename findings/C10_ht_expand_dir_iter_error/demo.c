/*
 * C10 — lib/ext2fs/expanddir.c:ext2fs_expand_dir drops the error of ext2fs_block_iterate3.
 *
 *	retval = ext2fs_block_iterate3(fs, dir, BLOCK_FLAG_APPEND, 0, expand_dir_proc, &es);
 *	if (retval == EXT2_ET_INLINE_DATA_CANT_ITERATE)
 *		return ext2fs_inline_data_expand(fs, dir);
 *	if (es.err) return es.err;
 *	if (!es.done) return EXT2_ET_EXPAND_DIR_ERR;
 *	... i_size += blocksize, i_blocks += newblocks, write inode, return 0
 *
 * Any other error of the iterator is lost.  The iterator is the one that STORES the new block pointer; when that fails after
 * the callback has allocated and written the block (es.done == 1) — e.g. ext2fs_extent_set_bmap() needs a new extent-tree block
 * on a filesystem whose last free block the callback has just taken — ext2fs_expand_dir still reports SUCCESS, grows i_size and
 * i_blocks, and leaves a directory whose last block is a hole, with the new block allocated but unreferenced.
 *
 * The demo builds that situation through the public API: an extent-mapped directory with four physically separated
 * one-block extents (the in-inode extent node is full), every other block of the filesystem allocated except one.
 * usage: demo <image made by mke2fs -t ext4 -b 1024>;  exit 1 = success reported although the block was not attached.
 */
#include <stdio.h>
#include <stdlib.h>
#include <string.h>
#include "ext2fs/ext2fs.h"

#define CK(x) do { errcode_t e_ = (x); if (e_) { fprintf(stderr, "%s: error %ld\n", #x, (long)e_); exit(2); } } while (0)

static void take(ext2_filsys fs, blk64_t goal)
{
	blk64_t b;
	CK(ext2fs_new_block2(fs, goal, 0, &b));
	ext2fs_block_alloc_stats2(fs, b, +1);
}

int main(int argc, char **argv)
{
	ext2_filsys fs;
	ext2_ino_t d;
	struct ext2_inode ino;
	blk64_t last, p;
	errcode_t r;

	CK(ext2fs_open(argv[1], EXT2_FLAG_RW, 0, 0, unix_io_manager, &fs));
	CK(ext2fs_read_bitmaps(fs));
	CK(ext2fs_mkdir(fs, EXT2_ROOT_INO, 0, "d"));
	CK(ext2fs_lookup(fs, EXT2_ROOT_INO, "d", 1, 0, &d));
	/* three more blocks, each separated from its predecessor by a foreign block: four extents, the inode's node is full */
	for (int i = 0; i < 3; i++) {
		CK(ext2fs_read_inode(fs, d, &ino));
		CK(ext2fs_bmap2(fs, d, &ino, 0, 0, i, 0, &last));
		take(fs, last + 1);
		CK(ext2fs_expand_dir(fs, d));
	}
	CK(ext2fs_read_inode(fs, d, &ino));
	CK(ext2fs_bmap2(fs, d, &ino, 0, 0, 3, 0, &last));
	take(fs, last + 1);
	/* the filesystem runs full: exactly one free block is left */
	while (ext2fs_free_blocks_count(fs->super) > 1)
		take(fs, 0);
	unsigned long long size0 = EXT2_I_SIZE(&ino);
	printf("directory: %llu bytes, i_blocks %u, %u extents in the inode, free blocks %llu\n", size0, ino.i_blocks,
	       ((struct ext3_extent_header *)ino.i_block)->eh_entries, (unsigned long long)ext2fs_free_blocks_count(fs->super));

	r = ext2fs_expand_dir(fs, d);

	CK(ext2fs_read_inode(fs, d, &ino));
	p = 0;
	ext2fs_bmap2(fs, d, &ino, 0, 0, size0 / fs->blocksize, 0, &p);
	printf("ext2fs_expand_dir = %ld; now %llu bytes, i_blocks %u, logical block %llu -> physical %llu, free blocks %llu\n", (long)r,
	       (unsigned long long)EXT2_I_SIZE(&ino), ino.i_blocks, size0 / fs->blocksize, (unsigned long long)p,
	       (unsigned long long)ext2fs_free_blocks_count(fs->super));
	ext2fs_close(fs);
	if (r == 0 && p == 0) {
		printf("DEFECT PRESENT: success reported, i_size grown, but the new block was never attached (error of ext2fs_block_iterate3 dropped)\n");
		return 1;
	}
	if (r == 0)
		printf("ok: directory really expanded\n");
	else
		printf("ok: failure reported (error %ld), size %s\n", (long)r, EXT2_I_SIZE(&ino) == size0 ? "unchanged" : "CHANGED");
	return 0;
}
