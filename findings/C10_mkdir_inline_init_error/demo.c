/*
 * Native replay of the C10 finding "ext2fs_mkdir ignores a failure of ext2fs_inline_data_init()" (failed obligations
 * CHECK:SWALLOW and CHECK:STATS of unit dirs/mkdir_protocol_full).
 *
 * lib/ext2fs/mkdir.c:
 *         if (inline_data) {
 *                 retval = ext2fs_inline_data_init(fs, ino);      // result never tested
 *         } else { ... if (retval) goto cleanup; ... }
 *         ... ext2fs_inode_alloc_stats2(fs, ino, +1, 1); ... retval = ext2fs_lookup(...)   // overwrites retval
 * so on an inline_data filesystem a failure to create the "system.data" attribute (I/O error, no room for the
 * attribute, ...) is swallowed: ext2fs_mkdir links the name, bumps the parent's link count and returns 0 for a
 * directory inode that has EXT4_INLINE_DATA_FL set but no inline data: the next reader gets an error on it.
 *
 * The demo compiles the tree's real mkdir.c, lets ext2fs_inline_data_init fail with EIO (the only replaced function),
 * and runs ext2fs_mkdir on a real inline_data image made by the tree's mke2fs.  exit 1 = error swallowed.
 */
#include "config.h"
#include <stdio.h>
#include <stdlib.h>
#include <string.h>
#include <errno.h>
#include "ext2_fs.h"
#include "ext2fs.h"

errcode_t ext2fs_inline_data_init(ext2_filsys fs, ext2_ino_t ino)
{
	printf("  ext2fs_inline_data_init(ino %u) fails with EIO\n", ino);
	return EIO;
}

int main(int argc, char **argv)
{
	ext2_filsys fs;
	errcode_t err;
	ext2_ino_t ino = 0;
	struct ext2_inode inode, root0, root1;
	size_t sz = 0;

	err = ext2fs_open(argv[1], EXT2_FLAG_RW | EXT2_FLAG_64BITS, 0, 0, unix_io_manager, &fs);
	if (err) { printf("open failed: %ld\n", (long)err); return 2; }
	err = ext2fs_read_bitmaps(fs);
	if (err) { printf("read_bitmaps failed: %ld\n", (long)err); return 2; }
	ext2fs_read_inode(fs, EXT2_ROOT_INO, &root0);

	err = ext2fs_mkdir(fs, EXT2_ROOT_INO, 0, "newdir");
	printf("  ext2fs_mkdir(\"/newdir\") returned %ld\n", (long)err);
	if (err) {
		printf("error reported to the caller: no defect\n");
		ext2fs_close(fs);
		return 0;
	}
	ext2fs_read_inode(fs, EXT2_ROOT_INO, &root1);
	err = ext2fs_lookup(fs, EXT2_ROOT_INO, "newdir", 6, 0, &ino);
	printf("  lookup(\"/newdir\") -> %ld, inode %u; root link count %u -> %u\n", (long)err, ino, root0.i_links_count, root1.i_links_count);
	if (!err) {
		ext2fs_read_inode(fs, ino, &inode);
		err = ext2fs_inline_data_size(fs, ino, &sz);
		printf("  new inode: flags %#x (INLINE_DATA_FL %s), ext2fs_inline_data_size -> %ld\n", inode.i_flags,
		       (inode.i_flags & EXT4_INLINE_DATA_FL) ? "set" : "clear", (long)err);
	}
	ext2fs_close(fs);
	printf("DEFECT PRESENT: mkdir reported success although the inline data area was never initialised\n");
	return 1;
}
