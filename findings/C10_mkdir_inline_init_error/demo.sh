#!/bin/sh
# usage: demo.sh [built e2fsprogs tree, default /repo]; exit 0 = the failure is reported, 1 = swallowed (defect present)
T=${1:-/repo}
L=$T; [ -f $T/lib/libext2fs.a ] || L=/repo	# scratch worktrees have no built libraries / tools; only mkdir.c matters
d=$(mktemp -d); trap 'rm -rf $d' EXIT
gcc -w -g -DHAVE_CONFIG_H -I$T -I$T/lib -I$T/lib/ext2fs -I$T/include -Wl,--allow-multiple-definition \
    -o $d/demo $(dirname $0)/demo.c $T/lib/ext2fs/mkdir.c $L/lib/libext2fs.a $L/lib/libcom_err.a -lpthread || exit 2
$L/misc/mke2fs -q -F -t ext4 -O inline_data,^has_journal -I 256 $d/img 4M >/dev/null 2>&1 || exit 2
$d/demo $d/img
rc=$?
[ $rc = 1 ] && $L/e2fsck/e2fsck -fn $d/img 2>&1 | grep -v '^Pass\|^e2fsck' | head -6
exit $rc
