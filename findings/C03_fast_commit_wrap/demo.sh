#!/bin/sh
# C03: journals with the JBD2 FAST_COMMIT feature are not replayed correctly.
#  case A (e2fsck and debugfs): recovery.c's wrap() wraps the log at j_fc_last instead of j_last, so a committed
#          transaction that crosses the end of the main log area [j_first, j_last) is NOT replayed -- and the journal is
#          then marked empty.  The same layout without the feature flag (control) is replayed.
#  case B (debugfs / libext2fs front end only): debugfs/journal.c:ext2fs_journal_load() never sets j_fc_last, so with the
#          feature flag wrap() adds j_first after EVERY block: even a transaction at the start of the log is not replayed.
# (the file system is made with -O fast_commit so that the journal has a fast-commit area: s_num_fc_blks = 16)
# usage: demo.sh [built e2fsprogs tree, default /repo];  exit 1 = defect present, 0 = absent, 2 = set-up problem
T=${1:-/repo}
here=$(cd "$(dirname "$0")" && pwd)
d=$(mktemp -d); trap 'rm -rf $d' EXIT
Z=15000
blk() { dd if=$1 bs=1024 skip=$Z count=1 2>/dev/null | od -An -tx1 | tr -d ' \n' | cut -c1-16; }
$T/misc/mke2fs -q -F -o Linux -b 1024 -O has_journal,fast_commit -T ext4 $d/base.img 16384 >/dev/null 2>&1 || exit 2
perl -e 'print "\xAA" x 1024' | dd of=$d/base.img bs=1024 seek=$Z conv=notrunc 2>/dev/null
printf 'jo\njw -b %s /dev/zero\njc\n' $Z > $d/cmd
$T/debugfs/debugfs -w -f $d/cmd $d/base.img >/dev/null 2>&1 || exit 2
bad=0
for mode in wrap fc-wrap fc; do
	cp $d/base.img $d/e.img; python3 $here/craft.py $T/debugfs/debugfs $d/e.img $mode || exit 2
	cp $d/e.img $d/g.img
	$T/e2fsck/e2fsck -fy $d/e.img >/dev/null 2>&1
	$T/debugfs/debugfs -w -R "jr" $d/g.img >/dev/null 2>&1
	e=$(blk $d/e.img); g=$(blk $d/g.img)
	echo "layout $mode: block $Z after e2fsck = $e, after debugfs jr = $g   (logged image: 0000000000000000)"
	[ "$mode" = wrap ] && { [ "$e" = 0000000000000000 ] || { echo "set-up: control not replayed"; exit 2; }; continue; }
	[ "$e" = 0000000000000000 ] || { echo "  DEFECT: e2fsck did not replay the committed transaction"; bad=1; }
	[ "$g" = 0000000000000000 ] || { echo "  DEFECT: debugfs jr did not replay the committed transaction"; bad=1; }
	[ "$e" = "$g" ] || echo "  the two front ends disagree"
done
exit $bad
