#!/usr/bin/env python3
"""craft.py <debugfs> <image> <mode>
image: ext4 with an internal journal holding ONE committed transaction at log blocks 1 (descriptor), 2 (data), 3 (commit),
written by debugfs (jo / jw / jc).
mode fc      : set JBD2_FEATURE_INCOMPAT_FAST_COMMIT (0x20) in the journal superblock, leave the log where it is
mode fc-wrap : set the flag and move the transaction so that it crosses the end of the main log area:
               descriptor at j_last-1, data at j_first, commit at j_first+1, s_start = j_last-1  (j_last = s_maxlen - s_num_fc_blks)
mode wrap    : same layout against j_last = s_maxlen, flag NOT set (control)
"""
import struct, subprocess, sys
dbg, img, mode = sys.argv[1:4]
def bmap(n):
    return int(subprocess.run([dbg, '-R', 'bmap <8> %d' % n, img], capture_output=True, text=True).stdout.strip())
f = open(img, 'r+b')
bs = 1024
def rd(lb):
    f.seek(bmap(lb) * bs); return bytearray(f.read(bs))
def wr(lb, data):
    f.seek(bmap(lb) * bs); f.write(data)
sb = rd(0)
assert struct.unpack('>I', sb[0:4])[0] == 0xc03b3998
maxlen, first = struct.unpack('>II', sb[0x10:0x18])
nfc = struct.unpack('>I', sb[0x54:0x58])[0] or 256
inc = struct.unpack('>I', sb[0x28:0x2c])[0]
if mode in ('fc', 'fc-wrap'):
    inc |= 0x20
    last = maxlen - nfc
else:
    inc &= ~0x20
    last = maxlen
sb[0x28:0x2c] = struct.pack('>I', inc)
if mode in ('fc-wrap', 'wrap'):
    desc, data, commit = rd(1), rd(2), rd(3)
    wr(3, bytes(bs))
    wr(last - 1, desc); wr(first, data); wr(first + 1, commit)
    sb[0x1c:0x20] = struct.pack('>I', last - 1)
wr(0, sb)
f.close()
