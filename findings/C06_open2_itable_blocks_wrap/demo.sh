#!/bin/sh
# usage: demo.sh [built e2fsprogs tree, default /repo]
# exit 1 = defect present (valgrind: invalid heap write in ext2fs_get_next_inode_full), 0 = absent, 2 = cannot run
#
# lib/ext2fs/openfs.c:ext2fs_open2 computes
#     fs->inode_blocks_per_group = (s_inodes_per_group * inode_size + blocksize - 1) / blocksize
# in 32-bit unsigned arithmetic and never bounds s_inodes_per_group itself (the format allows at most 8 * blocksize: one
# bitmap block).  s_inodes_per_group = 2^24 + 64 with 256-byte inodes wraps to 16384 bytes = 16 blocks, the value of an
# honest 64-inodes-per-group file system, so every check of ext2fs_open2 passes (s_inodes_count = groups * inodes_per_group
# is set accordingly).  The inode scan (lib/ext2fs/inode.c) then believes a group has 16777280 inodes in 16 blocks: when the
# blocks are used up get_next_blocks() reads 0 blocks, bytes_left goes negative and ext2fs_get_next_inode_full copies with
# a huge length into the 264-byte temp_buffer.  Tools that read the bitmaps first refuse the image ("superblock is
# corrupt"), but debugfs -c (catastrophic mode, read-only) does not: icheck / lsdel / ncheck scan the inode table.
T=${1:-/repo}
command -v valgrind >/dev/null 2>&1 || { echo "valgrind not available"; exit 2; }
for p in misc/mke2fs debugfs/debugfs; do [ -x "$T/$p" ] || { echo "missing $T/$p"; exit 2; }; done
d=$(mktemp -d); trap 'rm -rf $d' EXIT
dd if=/dev/zero of=$d/img bs=1k count=8192 2>/dev/null
"$T/misc/mke2fs" -q -F -t ext4 -O ^metadata_csum,^resize_inode -I 256 -N 2048 -b 1024 -g 256 $d/img || exit 2
# 32 groups. s_inodes_per_group (le32 at byte 40) := 0x01000040, s_inodes_count (le32 at byte 0) := 32 * 0x01000040 = 0x20000800
printf '\100\000\000\001' | dd of=$d/img bs=1 seek=$((1024 + 40)) conv=notrunc 2>/dev/null
printf '\000\010\000\040' | dd of=$d/img bs=1 seek=$((1024 + 0)) conv=notrunc 2>/dev/null
timeout 300 valgrind -q --error-exitcode=99 "$T/debugfs/debugfs" -c -R "icheck 300" $d/img > $d/out 2>&1
rc=$?
grep -m1 -A4 "Invalid write" $d/out | head -8
if { [ $rc -eq 99 ] || [ $rc -ge 124 ]; } && grep -q "ext2fs_get_next_inode_full" $d/out; then
	echo "DEFECT PRESENT: ext2fs_open2 accepted s_inodes_per_group=16777280 (inode table size wrapped to 16 blocks); debugfs -c icheck overruns the inode scan buffer"
	exit 1
fi
grep -i "corrupt\|superblock" $d/out | head -3
echo "no invalid write"
exit 0
