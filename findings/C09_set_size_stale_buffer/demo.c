/*
 * C09 finding in lib/ext2fs/fileio.c:ext2fs_file_set_size2 — shrinking a file punches the blocks beyond the new end
 * but leaves the open file's one-block buffer alone: file->flags keeps EXT2_FILE_BUF_VALID (and BUF_DIRTY) and
 * file->physblock keeps the number of a block that has just been FREED.  ext2fs_file_flush() trusts file->physblock,
 * so the next flush (next seek to another block, or close) writes the stale buffer to the freed block:
 *   (1) bytes written through the same handle after the truncation are lost (the file has a hole there, the data went
 *       to a block the file no longer maps);
 *   (2) if the freed block has meanwhile been allocated to ANOTHER file, that file's data is overwritten;
 *   (3) ext2fs_file_zero_past_offset() zeroes the tail of the last block ON DISK while a dirty copy of that block with
 *       the old tail sits in the buffer; the next flush puts the old tail back: shrink + grow shows the old bytes.
 * Replayed through the public API only (ext2fs_file_open/llseek/write/set_size2/read/close).
 * exit 0 = both files read back what was written, 1 = lost write and/or other file corrupted, 2 = setup problem.
 */
#include <stdio.h>
#include <stdlib.h>
#include <string.h>
#include "ext2fs/ext2_fs.h"
#include "ext2fs/ext2fs.h"

static ext2_filsys fs;

static ext2_ino_t make_inode(void)
{
	ext2_ino_t ino;
	struct ext2_inode inode;
	if (ext2fs_new_inode(fs, EXT2_ROOT_INO, 0100644, 0, &ino)) exit(2);
	memset(&inode, 0, sizeof(inode));
	inode.i_mode = LINUX_S_IFREG | 0644;
	inode.i_links_count = 1;
	if (ext2fs_write_new_inode(fs, ino, &inode)) exit(2);
	ext2fs_inode_alloc_stats2(fs, ino, +1, 0);
	return ino;
}

int main(int argc, char **argv)
{
	ext2_file_t fa, fb;
	ext2_ino_t a, b;
	unsigned int w, got;
	char buf[2048];
	__u64 pos;
	int bad = 0, i;

	if (argc < 2) return 2;
	if (ext2fs_open(argv[1], EXT2_FLAG_RW, 0, 0, unix_io_manager, &fs)) return 2;
	if (ext2fs_read_bitmaps(fs)) return 2;

	/* (1) write, truncate to 0, write again through the same handle */
	a = make_inode();
	if (ext2fs_file_open(fs, a, EXT2_FILE_WRITE, &fa)) return 2;
	if (ext2fs_file_llseek(fa, 1024, EXT2_SEEK_SET, &pos)) return 2;
	memset(buf, 'A', 10);
	if (ext2fs_file_write(fa, buf, 10, &w) || w != 10) return 2;
	if (ext2fs_file_set_size2(fa, 0)) return 2;
	buf[0] = 'B';					/* position is still 1034 */
	if (ext2fs_file_write(fa, buf, 1, &w) || w != 1) return 2;
	if (ext2fs_file_close(fa)) return 2;
	if (ext2fs_file_open(fs, a, 0, &fa)) return 2;
	memset(buf, 'x', sizeof(buf));
	if (ext2fs_file_read(fa, buf, sizeof(buf), &got)) return 2;
	ext2fs_file_close(fa);
	printf("case 1: size after write-at-1034 = %u, byte 1034 = 0x%02x (expected 0x42 'B')\n", got, (unsigned char)buf[1034]);
	if (got != 1035 || buf[1034] != 'B') bad = 1;
	for (i = 0; i < 1034; i++)
		if (buf[i]) { printf("case 1: byte %d = 0x%02x, expected a hole (0)\n", i, (unsigned char)buf[i]); bad = 1; break; }

	/* (2) file A keeps a dirty buffer for a block that truncation frees; file B gets that block */
	a = make_inode();
	b = make_inode();
	if (ext2fs_file_open(fs, a, EXT2_FILE_WRITE, &fa)) return 2;
	memset(buf, 'A', 1024);
	if (ext2fs_file_write(fa, buf, 1024, &w) || w != 1024) return 2;	/* block allocated, data still in fa's buffer */
	if (ext2fs_file_set_size2(fa, 0)) return 2;				/* block freed, buffer still dirty */
	if (ext2fs_file_open(fs, b, EXT2_FILE_WRITE, &fb)) return 2;
	memset(buf, 'B', 1024);
	if (ext2fs_file_write(fb, buf, 1024, &w) || w != 1024) return 2;
	if (ext2fs_file_close(fb)) return 2;					/* B's data is on disk */
	if (ext2fs_file_close(fa)) return 2;					/* A's stale buffer is flushed ... where? */
	if (ext2fs_file_open(fs, b, 0, &fb)) return 2;
	memset(buf, 'x', sizeof(buf));
	if (ext2fs_file_read(fb, buf, 1024, &got)) return 2;
	ext2fs_file_close(fb);
	printf("case 2: file B reads %u bytes, first byte 0x%02x (expected 0x42 'B')\n", got, (unsigned char)buf[0]);
	for (i = 0; i < 1024; i++)
		if (got != 1024 || buf[i] != 'B') { printf("case 2: file B byte %d = 0x%02x: overwritten by file A's stale buffer\n", i, (unsigned char)buf[i]); bad = 1; break; }

	/* (3) shrink inside the buffered block, then grow again: the tail must read as zeros */
	a = make_inode();
	if (ext2fs_file_open(fs, a, EXT2_FILE_WRITE, &fa)) return 2;
	memset(buf, 'A', 500);
	if (ext2fs_file_write(fa, buf, 500, &w) || w != 500) return 2;	/* block 0 buffered and dirty, position 500 */
	if (ext2fs_file_set_size2(fa, 100)) return 2;				/* tail zeroed on disk, not in the buffer */
	if (ext2fs_file_set_size2(fa, 500)) return 2;
	if (ext2fs_file_close(fa)) return 2;
	if (ext2fs_file_open(fs, a, 0, &fa)) return 2;
	memset(buf, 'x', sizeof(buf));
	if (ext2fs_file_read(fa, buf, 500, &got)) return 2;
	ext2fs_file_close(fa);
	printf("case 3: %u bytes, byte 99 = 0x%02x (expected 'A'), byte 100 = 0x%02x (expected 0)\n", got, (unsigned char)buf[99], (unsigned char)buf[100]);
	if (got != 500 || buf[99] != 'A') bad = 1;
	for (i = 100; i < 500; i++)
		if (buf[i]) { printf("case 3: byte %d = 0x%02x: data beyond the truncation point came back\n", i, (unsigned char)buf[i]); bad = 1; break; }

	ext2fs_close(fs);
	puts(bad ? "RESULT: ext2fs_file_set_size2 leaves a stale block buffer: lost write / other file's data overwritten" : "RESULT: ok");
	return bad;
}
