#!/bin/sh
# C07 finding: without flex_bg, ext2fs_allocate_group_table() asks ext2fs_get_free_blocks2(group_blk, last_blk,
# inode_blocks_per_group) for the inode table.  That search only requires the FIRST block of the window to lie before
# `finish`; the window itself may run past the end of the group.  When the group's free space is fragmented (here: a
# bad-block list, mke2fs -l) and the next group has no backup superblock, the inode table of group g is placed
# across the boundary into group g+1.  mke2fs exits 0; e2fsck -fn: "Inode table for group 3 is not in group",
# "Free blocks count wrong for group #3/#4" (ext2fs_initialize charged the whole table to group 3).
# Observation unit: geometry/allocate_group_table_itable_end (obligation "the inode table ends inside its group").
# usage: demo.sh [built e2fsprogs tree, default /repo]; exit 0 = consistent filesystem or configuration refused,
#        1 = defect present (mke2fs accepted, e2fsck -fn finds errors), 2 = infrastructure problem
T=${1:-/repo}
d=$(mktemp -d); trap 'rm -rf $d' EXIT
# 1 KiB blocks, 8192 blocks per group, 2048 inodes per group (256 inode table blocks), sparse_super: group 3 has a
# backup, group 4 has none.  Every 100th block of group 3 (24577..32768) is bad up to 120 blocks before its end, so
# the only window of 256 free blocks that starts inside group 3 runs into group 4.
awk 'BEGIN { for (b = 24577 + 50; b < 32768 - 120; b += 100) print b }' > $d/bb.txt
$T/misc/mke2fs -q -F -t ext2 -b 1024 -g 8192 -O ^flex_bg,^resize_inode -N 16384 -l $d/bb.txt $d/a.img 65536 >$d/mk.out 2>&1
rc=$?
if [ $rc -ne 0 ]; then echo "mke2fs refuses the configuration (exit $rc): $(head -1 $d/mk.out)"; exit 0; fi
$T/misc/dumpe2fs $d/a.img 2>/dev/null | grep -A4 '^Group 3:' | grep -E 'Group 3|Inode table'
$T/e2fsck/e2fsck -fn $d/a.img >$d/fsck.out 2>&1
rc=$?
if [ $rc -eq 0 ]; then echo "e2fsck -fn: clean"; exit 0; fi
echo "mke2fs exit 0, e2fsck -fn exit $rc:"; grep -E 'not in group|count wrong|Corrupt' $d/fsck.out | head -5
exit 1
