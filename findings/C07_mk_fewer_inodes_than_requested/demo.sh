#!/bin/sh
# C07 finding (minor, "has the requested geometry"): ext2fs_initialize() promises "There should be at least as many
# inodes as the user requested", rounds inodes-per-group UP to whole inode-table blocks and then DOWN to a multiple
# of 8 ("s_inodes_per_group &= ~7").  With fewer than 8 inodes per block (256-byte inodes in 1 KiB blocks, 512-byte
# inodes in 2 KiB blocks, ...) the second rounding drops below the request: mke2fs -N 56 on two groups creates 48
# inodes.  The filesystem is consistent; only the requested inode count is missed (by up to 4 inodes per group).
# A repair would round UP to the next multiple of 8 while that stays within one bitmap block / the 16-bit counters.
# Observation unit: mkfs/initialize_geometry_1k_requested_inodes (fails on exactly this).
# usage: demo.sh [built e2fsprogs tree, default /repo]; exit 0 = at least the requested inodes, 1 = fewer, 2 = infrastructure
T=${1:-/repo}
d=$(mktemp -d); trap 'rm -rf $d' EXIT
want=56
$T/misc/mke2fs -q -F -t ext2 -b 1024 -I 256 -N $want -O ^resize_inode $d/a.img 16385 >$d/mk.out 2>&1 || { cat $d/mk.out; exit 2; }
got=$($T/misc/dumpe2fs -h $d/a.img 2>/dev/null | awk -F: '/^Inode count/ {gsub(/ /,"",$2); print $2}')
ipg=$($T/misc/dumpe2fs -h $d/a.img 2>/dev/null | awk -F: '/^Inodes per group/ {gsub(/ /,"",$2); print $2}')
[ -n "$got" ] || exit 2
echo "requested $want inodes (2 groups, 4 inodes per block): created $got ($ipg per group)"
$T/e2fsck/e2fsck -fn $d/a.img >/dev/null 2>&1 || { echo "unexpected: e2fsck complains"; exit 2; }
[ "$got" -ge "$want" ] && exit 0
exit 1
