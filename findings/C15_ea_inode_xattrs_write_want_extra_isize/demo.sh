#!/bin/sh
# Observation found by unit xattr/xattrs_write_want_extra_isize (robustness against a damaged superblock; C06 flavour,
# filed under the C15 work of tag xat2): ext2fs_xattrs_write() initialises a zero i_extra_isize with
# memset(inode + 128, 0, s_want_extra_isize) and never compares the 16-bit superblock field with the inode size.
# lib/ext2fs does not validate s_want_extra_isize when opening (the kernel clamps it at mount, e2fsck repairs it), so
# s_want_extra_isize = 60000 on a 256-byte-inode file system makes any attribute write to an inode with
# i_extra_isize == 0 clear ~60000 bytes of heap behind the 256-byte inode buffer.
# usage: demo.sh [built e2fsprogs tree, default /repo]
# exit 0 = no heap damage (defect absent), 1 = debugfs killed by the allocator's consistency check / a signal, 2 = setup problem
T=${1:-/repo}
d=$(mktemp -d); trap 'rm -rf $d' EXIT
dd if=/dev/zero of=$d/img bs=1k count=2048 status=none || exit 2
$T/misc/mke2fs -q -F -t ext4 -b 1024 -I 256 -O ^has_journal $d/img >/dev/null 2>&1 || exit 2
echo hello > $d/f
$T/debugfs/debugfs -w -R "write $d/f f" $d/img >/dev/null 2>&1 || exit 2
$T/debugfs/debugfs -w -R "ssv want_extra_isize 60000" $d/img >/dev/null 2>&1 || exit 2
$T/debugfs/debugfs -w -R "sif f extra_isize 0" $d/img >/dev/null 2>&1 || exit 2
MALLOC_CHECK_=3 $T/debugfs/debugfs -w -R "ea_set f user.a b" $d/img > $d/out 2>&1
rc=$?
grep -v "^debugfs" $d/out | head -3
echo "debugfs exit status: $rc"
if [ $rc -ge 128 ] || grep -qi "corrupt\|malloc\|free()" $d/out; then echo "DEFECT PRESENT: heap overwritten"; exit 1; fi
echo "defect absent"; exit 0
