#!/bin/sh
# usage: demo.sh [built e2fsprogs tree, default /repo]; exit 0 = flags derived from the access mode, 1 = IO_FLAG_RW missing for an O_RDWR descriptor
T=${1:-/repo}
d=$(mktemp -d); trap 'rm -rf $d' EXIT
gcc -I$T/lib -o $d/demo $(dirname $0)/demo.c $T/lib/libext2fs.a $T/lib/libcom_err.a -lpthread || exit 2
$d/demo
