/*
 * Replay against the real library of the finding "unixfd_open derives the channel flags from the wrong fcntl query"
 * (failed CHECKs of unit unixio/unixfd_open_rw: "a read-write descriptor gives a read-write channel").
 *
 * lib/ext2fs/unix_io.c, unixfd_open():   fd_flags = fcntl(fd, F_GETFD);   then tests fd_flags & O_RDWR / O_EXCL / O_DIRECT.
 * F_GETFD returns the DESCRIPTOR flags (FD_CLOEXEC or 0), not the file status flags (F_GETFL), so IO_FLAG_RW,
 * IO_FLAG_EXCLUSIVE and IO_FLAG_DIRECT_IO are never set, whatever the descriptor's access mode.
 * For C13 this errs on the safe side (a read-only descriptor never yields a channel flagged read-write); functionally a
 * read-write descriptor yields a channel that believes it is read-only (e.g. the BLKROGET "is the device writable" test is
 * skipped, O_DIRECT alignment is not set up).
 *
 * The demo opens a scratch file O_RDWR, builds a unixfd channel on it and looks at the flags stored in the channel's
 * private data (struct unix_private_data is private to unix_io.c; its first three members are int magic, dev, flags).
 * Exit 0 = IO_FLAG_RW set for the read-write descriptor, 1 = not set, 2 = set-up problem.
 */
#include <stdio.h>
#include <stdlib.h>
#include <string.h>
#include <unistd.h>
#include <fcntl.h>
#include "ext2fs/ext2fs.h"

struct peek { int magic, dev, flags; };

int main(void)
{
	io_channel ch;
	char name[] = "/tmp/verif_c13_XXXXXX", num[32];
	int fd = mkstemp(name);		/* mkstemp opens O_RDWR */
	struct peek *p;
	int rc;

	if (fd < 0 || ftruncate(fd, 64 * 1024)) return 2;
	if ((fcntl(fd, F_GETFL) & O_ACCMODE) != O_RDWR) return 2;
	snprintf(num, sizeof(num), "%d", fd);
	if (unixfd_io_manager->open(num, 0, &ch)) { unlink(name); return 2; }
	p = (struct peek *)ch->private_data;
	if (p->magic != EXT2_ET_MAGIC_UNIX_IO_CHANNEL || p->dev != fd) { unlink(name); return 2; }
	if (p->flags & IO_FLAG_RW) {
		printf("descriptor %d is O_RDWR and the channel carries IO_FLAG_RW\n", fd);
		rc = 0;
	} else {
		printf("descriptor %d is O_RDWR, but the unixfd channel was created WITHOUT IO_FLAG_RW (flags 0x%x):\n"
		       "unixfd_open looked at F_GETFD (= %d) instead of F_GETFL (= 0x%x)\n",
		       fd, p->flags, fcntl(fd, F_GETFD), fcntl(fd, F_GETFL));
		rc = 1;
	}
	unlink(name);
	return rc;
}
