/*
 * C16 finding (representation invariant of the red-black-tree backend, lib/ext2fs/blkmap64_rb.c):
 * rb_resize_bmap() clears bp->rcursor and bp->wcursor, then rb_truncate() erases and FREES every extent behind the new
 * end (with ext2fs_free_mem directly, not through rb_free_extent) - but bp->rcursor_next is left alone.  If it pointed
 * to one of the freed extents it now dangles.  Unless padding is added afterwards (rb_insert_extent resets
 * rcursor_next) the private data leaves rb_resize_bmap with a pointer to freed memory in it.
 *
 * Failed obligation: unit bitmap_gen/rb_resize_bmap_cut_b1, "resize: well_formed (... cursors NULL or pointing into the
 * tree ...)".  Nothing reads rcursor_next while rcursor is NULL (rb_test_bit resets both when it sets rcursor), so the
 * set semantics are NOT affected; rb_free_extent later compares the stale pointer value with extents being freed
 * (harmless in practice, formally a use of an indeterminate pointer).  It is the only place where the three cursors are
 * not kept "NULL or in the tree"; rb_clear_bmap, rb_free_extent and rb_insert_extent all take care of rcursor_next.
 *
 * The demo looks into the private data through the installed internal header bmap64.h and the rb-tree API exported by
 * libext2fs.a.  Exit 0 = cursors NULL or in the tree, 1 = dangling rcursor_next present.
 */
#include <stdio.h>
#include "ext2fs/ext2fs.h"
#include "ext2fs/bmap64.h"
#include "ext2fs/rbtree.h"

struct priv {			/* layout of struct ext2fs_rb_private (blkmap64_rb.c, no ENABLE_BMAP_STATS_OPS) */
	struct rb_root root;
	void *wcursor, *rcursor, *rcursor_next;
};

int main(void)
{
	ext2fs_generic_bitmap bm;
	struct ext2fs_struct_generic_bitmap_64 *b64;
	struct priv *bp;
	struct rb_node *n;
	int in_tree = 0, nodes = 0;

	if (ext2fs_alloc_generic_bmap(0, EXT2_ET_MAGIC_GENERIC_BITMAP64, EXT2FS_BMAP64_RBTREE, 0, 99, 99, "demo", &bm))
		return 2;
	ext2fs_mark_generic_bmap(bm, 10);
	ext2fs_mark_generic_bmap(bm, 50);
	ext2fs_test_generic_bmap(bm, 10);	/* rcursor = {10} */
	ext2fs_test_generic_bmap(bm, 20);	/* a miss between rcursor and its successor: rcursor_next = {50} */
	if (ext2fs_resize_generic_bmap(bm, 30, 30))	/* {50} is cut off and freed; no padding */
		return 2;
	b64 = (struct ext2fs_struct_generic_bitmap_64 *) bm;
	bp = b64->private;
	for (n = ext2fs_rb_first(&bp->root); n; n = ext2fs_rb_next(n)) {
		nodes++;
		if ((void *) n == bp->rcursor_next)
			in_tree = 1;
	}
	printf("after resize to [0,30]: %d extent(s) in the tree, rcursor=%p rcursor_next=%p (%s)\n", nodes, bp->rcursor,
	       bp->rcursor_next, !bp->rcursor_next ? "NULL" : in_tree ? "in the tree" : "NOT in the tree: points to the freed extent {50}");
	if (bp->rcursor_next && !in_tree) {
		printf("DEFECT PRESENT (set semantics unaffected: test(10)=%d test(29)=%d)\n",
		       ext2fs_test_generic_bmap(bm, 10), ext2fs_test_generic_bmap(bm, 29));
		return 1;
	}
	ext2fs_free_generic_bmap(bm);
	return 0;
}
