#!/bin/sh
# usage: demo.sh [built e2fsprogs tree, default /repo]; exit 0 = cursors NULL or in the tree, 1 = dangling rcursor_next
T=${1:-/repo}
d=$(mktemp -d); trap 'rm -rf $d' EXIT
gcc -I$T/lib -o $d/demo $(dirname $0)/demo.c $T/lib/libext2fs.a $T/lib/libcom_err.a -lpthread || exit 2
$d/demo
