#!/bin/sh
# C08 / C20 finding: growing a sparse_super2 filesystem leaves an IN-USE block marked free.
# resize/resize2fs.c:clear_sparse_super2_last_group() releases the backup superblock and descriptor copies of the group that
# stops being the last one.  ext2fs_super_and_bgd_loc2() reports `num` = 1 (superblock) + old_desc_blocks, but the function
# calls ext2fs_unmark_block_bitmap_range2(fs->block_map, old_desc, num) with old_desc == sb + 1: the range is one block too
# long and also clears the first block BEHIND the descriptor copies.  With flex_bg that is an ordinary data block.
# Failed obligation of unit resize/rsz_ss2_clear: h_ss2_clear "no block outside the old backup run changes".
#   here: 1 KiB blocks, 8192 blocks per group, 5 groups, backup groups 1 and 4; the filesystem is filled by one file; after
#   `resize2fs img 80M` the block 32769 + 1 + 257 = 33027 (file data) is free in the block bitmap; the next allocation may
#   hand it out again (silent corruption of the file).
#   case 2: a freshly made, EMPTY two-group filesystem (16 MiB, backup groups {0,1}) grown to three groups: group 1 loses
#   its backup, block 8193 + 1 + 128 = 8322 (first block behind the reserved GDT copies, in use) is marked free as well.
# usage: demo.sh [built e2fsprogs tree, default /repo]; exit 0 = consistent after the resize, 1 = defect present
T=${1:-/repo}
d=$(mktemp -d); trap 'rm -rf $d' EXIT
bad=0
$T/misc/mke2fs -q -F -t ext4 -O sparse_super2 -b 1024 -g 8192 $d/c.img 16M >/dev/null 2>&1 || exit 2
$T/resize/resize2fs $d/c.img 25000K >/dev/null 2>&1 || { echo "resize2fs failed"; exit 2; }
out=$($T/e2fsck/e2fsck -fn $d/c.img 2>&1); rc=$?
if [ $rc -ne 0 ]; then echo "case 2: e2fsck -fn after 'resize2fs img 25000K' of an empty 16M filesystem (exit $rc):"; echo "$out" | grep -A1 "differences"; bad=1;
else echo "case 2: empty two-group filesystem consistent after growing"; fi
mkdir $d/src
head -c 30000000 /dev/urandom > $d/src/big
$T/misc/mke2fs -q -F -t ext4 -O sparse_super2 -b 1024 -g 8192 -d $d/src $d/a.img 40M >/dev/null 2>&1 || exit 2
$T/e2fsck/e2fsck -fn $d/a.img >/dev/null 2>&1 || { echo "setup: image not clean"; exit 2; }
$T/resize/resize2fs $d/a.img 80M >/dev/null 2>&1 || { echo "resize2fs failed"; exit 2; }
out=$($T/e2fsck/e2fsck -fn $d/a.img 2>&1); rc=$?
if [ $rc -eq 0 ]; then echo "case 1: filesystem consistent after growing (backup run of the old last group released exactly)"; exit $bad; fi
echo "case 1: e2fsck -fn after a successful 'resize2fs img 80M' (exit $rc):"
echo "$out" | grep -A1 "differences"
exit 1
