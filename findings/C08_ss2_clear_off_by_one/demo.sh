#!/bin/sh
# C08 / C20 finding: growing a sparse_super2 filesystem leaves an IN-USE block marked free.
# resize/resize2fs.c:clear_sparse_super2_last_group() releases the backup superblock and descriptor copies of the group that
# stops being the last one.  ext2fs_super_and_bgd_loc2() reports `num` = 1 (superblock) + old_desc_blocks, but the function
# calls ext2fs_unmark_block_bitmap_range2(fs->block_map, old_desc, num) with old_desc == sb + 1: the range is one block too
# long and also clears the first block BEHIND the descriptor copies.  With flex_bg that is an ordinary data block.
# Failed obligation of unit resize/rsz_ss2_clear: h_ss2_clear "no block outside the old backup run changes".
#   here: 1 KiB blocks, 8192 blocks per group, 5 groups, backup groups 1 and 4; the filesystem is filled by one file; after
#   `resize2fs img 80M` the block 32769 + 1 + 257 = 33027 (file data) is free in the block bitmap; the next allocation may
#   hand it out again (silent corruption of the file).
# usage: demo.sh [built e2fsprogs tree, default /repo]; exit 0 = consistent after the resize, 1 = defect present
T=${1:-/repo}
d=$(mktemp -d); trap 'rm -rf $d' EXIT
mkdir $d/src
head -c 30000000 /dev/urandom > $d/src/big
$T/misc/mke2fs -q -F -t ext4 -O sparse_super2 -b 1024 -g 8192 -d $d/src $d/a.img 40M >/dev/null 2>&1 || exit 2
$T/e2fsck/e2fsck -fn $d/a.img >/dev/null 2>&1 || { echo "setup: image not clean"; exit 2; }
$T/resize/resize2fs $d/a.img 80M >/dev/null 2>&1 || { echo "resize2fs failed"; exit 2; }
out=$($T/e2fsck/e2fsck -fn $d/a.img 2>&1); rc=$?
if [ $rc -eq 0 ]; then echo "filesystem consistent after growing (backup run of the old last group released exactly)"; exit 0; fi
echo "e2fsck -fn after a successful 'resize2fs img 80M' (exit $rc):"
echo "$out" | grep -A1 "differences"
exit 1
