#!/bin/sh
# usage: demo.sh [built e2fsprogs tree, default /repo]
# exit 1 = defect present, 0 = absent, 2 = cannot run
#
# e2fsck/pass1.c:check_ea_in_inode — the walk over the in-inode extended attribute area ends either at a zero word
# (IS_LAST_ENTRY) or when its space accounting `remain` (area size minus entry headers, names AND value sizes) drops
# below sizeof(struct ext2_ext_attr_entry).  In the second case the word at the cursor is never looked at: its 4 bytes
# are claimed as "terminator" in the region map and the area is accepted.  The kernel (fs/ext4/xattr.c:
# xattr_check_inode -> ext4_xattr_check_entries / check_xattrs) walks the names list until it FINDS a zero word and
# answers EFSCORRUPTED ("corrupted in-inode xattr") when the walk leaves the area — for ext4_iget() of that inode.
# A nearly full in-inode area is the normal case (the kernel fills the inode body first): one attribute "user.a" with a
# 64-byte value in a 256-byte inode (i_extra_isize 32: 96 bytes of EA space) leaves remain = 8.  Corrupting the
# terminator word behind the entry then goes unnoticed: `e2fsck -fn` exits 0 although the names list is unterminated
# (C02); libext2fs itself can no longer read the attribute.
T=${1:-/repo}
for p in misc/mke2fs debugfs/debugfs e2fsck/e2fsck; do [ -x "$T/$p" ] || { echo "missing $T/$p"; exit 2; }; done
command -v python3 >/dev/null || { echo "python3 missing"; exit 2; }
d=$(mktemp -d); trap 'rm -rf $d' EXIT
dd if=/dev/zero of=$d/img bs=1k count=4096 2>/dev/null
"$T/misc/mke2fs" -q -F -t ext4 -O ^metadata_csum -I 256 $d/img || exit 2
echo hello > $d/f.txt
python3 -c "print('x' * 64, end='')" > $d/val
"$T/debugfs/debugfs" -w -R "write $d/f.txt f" $d/img >/dev/null 2>&1
"$T/debugfs/debugfs" -w -R "ea_set -f $d/val f user.a" $d/img >/dev/null 2>&1
"$T/debugfs/debugfs" -R "ea_list f" $d/img 2>/dev/null | grep -q 'user.a (64)' || { echo "set-up failed: attribute not there"; exit 2; }
loc=$("$T/debugfs/debugfs" -R "imap f" $d/img 2>/dev/null | sed -n 's/.*located at block \([0-9]*\), offset \(0x[0-9a-f]*\).*/\1 \2/p')
set -- $loc
[ -n "$1" ] && [ -n "$2" ] || { echo "cannot locate inode"; exit 2; }
ioff=$(( $1 * 1024 + $2 ))
# independent reading of the on-disk format: the kernel's names-list walk over the raw inode bytes
cat > $d/chk.py <<'PY'
import struct, sys
img, ioff = sys.argv[1], int(sys.argv[2])
ino = open(img, 'rb').read()[ioff:ioff + 256]
extra = struct.unpack_from('<H', ino, 128)[0]
hdr = 128 + extra
if struct.unpack_from('<I', ino, hdr)[0] != 0xEA020000:
    print('no in-inode xattr magic'); sys.exit(3)
e, end = hdr + 4, 256                       # IFIRST, ITAIL
while struct.unpack_from('<I', ino, e)[0] != 0:          # !IS_LAST_ENTRY(e)
    nxt = e + ((ino[e] + 3 + 16) & ~3)                   # EXT4_XATTR_NEXT
    if nxt >= end:
        print('names list leaves the inode at offset %d: EFSCORRUPTED' % e); sys.exit(1)
    e = nxt
print('names list terminated at offset %d' % e); sys.exit(0)
PY
python3 $d/chk.py $d/img $ioff > $d/c0; r0=$?
[ $r0 -eq 0 ] || { echo "set-up failed: fresh image not well-formed"; cat $d/c0; exit 2; }
term=$(sed -n 's/.*offset \([0-9]*\)$/\1/p' $d/c0)
# the accounting must have run out at that point: one 20-byte entry + 64 value bytes of 92
[ "$term" -eq 184 ] || { echo "unexpected layout (terminator at $term)"; exit 2; }
# corrupt the terminator word: e_name_len = 1, e_name_index = 1
printf '\001\001\000\000' | dd of=$d/img bs=1 seek=$(( ioff + term )) conv=notrunc 2>/dev/null
python3 $d/chk.py $d/img $ioff > $d/c1; r1=$?
[ $r1 -eq 1 ] || { echo "set-up failed: corruption not seen by the independent reader"; cat $d/c1; exit 2; }
"$T/e2fsck/e2fsck" -fn $d/img > $d/out 2>&1; rc=$?
echo "independent reader: $(cat $d/c1)"
echo "e2fsck -fn: exit $rc"
if [ $rc -eq 0 ]; then
	echo "DEFECT PRESENT: e2fsck -fn accepts an inode whose in-inode xattr names list is not terminated"
	echo "debugfs ea_list f now prints: $("$T/debugfs/debugfs" -R "ea_list f" $d/img 2>&1 | tail -n +2 | tr '\n' ' ')"
	exit 1
fi
grep -i "attribute" $d/out
echo "reported"
exit 0
