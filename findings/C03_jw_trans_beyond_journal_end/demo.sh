#!/bin/sh
# C03 finding (writer side, destructive): debugfs "journal_write" can write the commit block of a transaction that
# exactly fills the journal OUTSIDE the journal - for an inode journal onto filesystem block 0, i.e. (4 KiB blocks) on
# top of the PRIMARY SUPERBLOCK.
#   debugfs/do_journal.c:journal_open_trans()
#        if (trans->start + blocks > journal->j_last) return ENOSPC;     trans->end = trans->block + blocks;
#   start + blocks is the index of the LAST block the transaction uses (descriptor + data + commit = blocks + 1 blocks);
#   the journal's blocks are j_first .. j_last - 1 (j_last = s_maxlen), so "== j_last" must be refused as well.  The
#   writer never wraps and never checks the block it is about to write against j_last; jbd2_journal_bmap() maps the
#   block behind the end of the journal inode to physical block 0 (a hole) and ll_rw_block() writes there.
#   (journal_guess_blocks() is moreover one short for a transaction with data AND revoke blocks.)
# Failed obligation: unit jwriter/jw_open_trans_fits, "the last reserved block lies inside the journal".
# usage: demo.sh [built e2fsprogs tree, default /repo]
# exit 0 = refused / filesystem block 0 unchanged, 1 = defect present, 2 = set-up problem
T=${1:-/repo}
d=$(mktemp -d); trap 'rm -rf $d' EXIT
MKE2FS_CONFIG=/dev/null; export MKE2FS_CONFIG
hex() { dd if="$1" bs=1 skip="$2" count="$3" 2>/dev/null | od -An -tx1 | tr -d ' \n'; }
# 4 KiB blocks, 1024-block journal: tags are 8 bytes, 508 per descriptor block.  1020 data blocks need
# 3 descriptor + 1020 data + 1 commit = 1024 blocks = log indices 1 .. 1024, but the journal ends at index 1023.
# The estimate is 1 + 1020*8/4080 + 1020 = 1023, and 1 + 1023 > 1024 is false: accepted.
truncate -s 128M $d/img
dd if=/dev/zero of=$d/data bs=4k count=1024 2>/dev/null
$T/misc/mke2fs -q -F -o Linux -b 4096 -O has_journal,^64bit,^metadata_csum -J size=4 $d/img >/dev/null 2>&1 || { echo "mke2fs failed"; exit 2; }
n=$($T/misc/dumpe2fs -h $d/img 2>/dev/null | sed -n 's/^Total journal blocks: *//p')
[ "$n" = 1024 ] || { echo "unexpected journal size $n"; exit 2; }
list=$(seq -s, 2000 3019)
before=$(dd if=$d/img bs=4k count=1 2>/dev/null | sha256sum)
echo "primary superblock magic before: $(hex $d/img 1080 2)"
timeout 120 $T/debugfs/debugfs -w -f - $d/img > $d/out 2>&1 <<EOF
jo
jw -b $list $d/data
jc
EOF
grep -v "^debugfs" $d/out | head -3
after=$(dd if=$d/img bs=4k count=1 2>/dev/null | sha256sum)
echo "primary superblock magic after : $(hex $d/img 1080 2)      filesystem block 0 starts with: $(hex $d/img 0 12)"
if [ "$before" != "$after" ]; then
	echo "DEFECT: filesystem block 0 was overwritten (commit block: magic c03b3998, blocktype 2)"
	timeout 60 $T/misc/dumpe2fs -h $d/img 2>&1 | head -3 | sed 's/^/    dumpe2fs: /'
	exit 1
fi
echo "filesystem block 0 unchanged"
exit 0
