/*
 * Native replay of the finding "read_xattrs_from_buffer: 'remain' wraps below zero in the second loop, which
 * disables the value-size check; a crafted entry then makes the library copy ~4 GiB out of the inode buffer"
 * (property C06 memory safety on arbitrary images, and C15; unit xattr/read_buffer, failed obligations
 * loop_invariant_step "remain never exceeds the bytes really left" and the memcpy source-range CHECK).
 *
 * lib/ext2fs/ext_attr.c:read_xattrs_from_buffer() walks the entry table twice.  The first loop validates
 * every name length against 'remain' (bytes left in the region).  The second loop starts again with
 * remain = storage_size, but here 'remain' is ALSO reduced by every value size, so it can be smaller than in
 * the first loop -- and the second loop subtracts EXT2_EXT_ATTR_SIZE(e_name_len) WITHOUT checking it.
 * Values of different entries may overlap (nothing forbids it), so two small valued entries use up 'remain',
 * the name of the third entry wraps it to ~2^32, and then
 *      e_value_size > remain                         is false for e_value_size = 0xFFFFFFF0,
 *      e_value_offs + e_value_size > values_size     wraps in 32 bits (0x40 + 0xFFFFFFF0 = 0x30) and is false,
 * ext2fs_get_mem(0xFFFFFFF0) succeeds on a 64-bit host and memcpy() reads 4 GiB starting inside the inode.
 *
 * No image is needed: ext2fs_xattrs_read_inode() parses an inode the caller has loaded (this is what
 * e2fsck pass 1 does for every inode with inline data, and what debugfs/fuse2fs do through
 * ext2fs_xattrs_read()).  256-byte inode, i_extra_isize 32: the in-inode EA region is the last 92 bytes.
 *
 * The inode lies directly in front of a PROT_NONE page, so every read past its end raises SIGSEGV.
 * exit 0 = the crafted inode is rejected (or parsed) without touching memory behind the inode (defect absent)
 * exit 1 = out-of-bounds read (SIGSEGV caught)
 */
#include "config.h"
#include <stdio.h>
#include <stdlib.h>
#include <string.h>
#include <signal.h>
#include <unistd.h>
#include <sys/mman.h>
#include "ext2_fs.h"
#include "ext2_ext_attr.h"
#include "ext2fs.h"

static void on_segv(int sig)
{
	static const char msg[] = "SIGSEGV inside ext2fs_xattrs_read_inode: out-of-bounds read -- DEFECT PRESENT\n";
	(void)sig;
	if (write(1, msg, sizeof(msg) - 1) < 0) _exit(1);
	_exit(1);
}

static void put_entry(unsigned char *p, unsigned name_len, unsigned offs, unsigned size)
{
	struct ext2_ext_attr_entry e;
	memset(&e, 0, sizeof(e));
	e.e_name_len = name_len;
	e.e_name_index = 1;		/* "user." */
	e.e_value_offs = offs;
	e.e_value_inum = 0;
	e.e_value_size = size;
	e.e_hash = 0;			/* 0 = not checked */
	memcpy(p, &e, sizeof(e));
	memset(p + sizeof(e), 'n', name_len);
}

int main(int argc, char **argv)
{
	int hash_case = argc > 1 && !strcmp(argv[1], "hash");
	static struct struct_ext2_filsys fs;
	static struct ext2_super_block sb;
	struct ext2_xattr_handle *h;
	const unsigned inode_size = 256, extra = 32;
	/* exactly one on-disk inode, as the callers allocate it; placed right before an inaccessible page so that
	 * any read past its end faults (independent of sanitizers; ASan misses the unaligned 1-byte over-read of case 2) */
	long pg = sysconf(_SC_PAGESIZE);
	unsigned char *map = mmap(0, 2 * pg, PROT_READ | PROT_WRITE, MAP_PRIVATE | MAP_ANONYMOUS, -1, 0);
	unsigned char *raw = map + pg - inode_size;
	struct ext2_inode_large *inode = (struct ext2_inode_large *)raw;
	unsigned char *ea;
	__u32 magic = EXT2_EXT_ATTR_MAGIC;
	errcode_t err;

	if (map == MAP_FAILED || mprotect(map + pg, pg, PROT_NONE)) { perror("mmap"); return 2; }
	signal(SIGSEGV, on_segv);
	signal(SIGBUS, on_segv);
	fs.magic = EXT2_ET_MAGIC_EXT2FS_FILSYS;
	fs.super = &sb;
	fs.blocksize = 1024;
	sb.s_rev_level = EXT2_DYNAMIC_REV;
	sb.s_inode_size = inode_size;
	sb.s_feature_compat = EXT2_FEATURE_COMPAT_EXT_ATTR;
	sb.s_blocks_count = 8192;

	memset(raw, 0, inode_size);
	inode->i_mode = 0100644;
	inode->i_links_count = 1;
	inode->i_extra_isize = extra;
	memcpy(raw + EXT2_GOOD_OLD_INODE_SIZE + extra, &magic, 4);
	ea = raw + EXT2_GOOD_OLD_INODE_SIZE + extra + 4;	/* entry table; value offsets are relative to it; 92 bytes */
	if (!hash_case) {
		put_entry(ea + 0, 0, 64, 28);		/* value = bytes 64..91 of the region */
		put_entry(ea + 16, 0, 64, 12);		/* overlapping value: allowed, uses up 'remain' */
		put_entry(ea + 32, 12, 64, 0xFFFFFFF0u);	/* its name wraps 'remain'; size check and offs+size check both pass */
		/* terminator: 4 zero bytes at offset 60 (already zero) */
	} else {
		/*
		 * Second, smaller defect in the same validation: a value that ends exactly at the end of the region
		 * with a size that is not a multiple of 4 passes all checks, but the entry-hash verification
		 * (e_hash != 0) reads the value in whole 32-bit words: 1..3 bytes past the inode buffer.
		 * (The kernel rejects such an entry: "EXT4_XATTR_SIZE(size) > end - value".)
		 */
		struct ext2_ext_attr_entry e;
		put_entry(ea + 0, 1, 89, 3);		/* value = bytes 89..91, hashed as the word 89..92 */
		memcpy(&e, ea, sizeof(e));
		e.e_hash = 0x12345678;			/* non-zero: the library recomputes the hash */
		memcpy(ea, &e, sizeof(e));
	}

	err = ext2fs_xattrs_open(&fs, 12, &h);
	if (err) { printf("xattrs_open failed: %ld\n", (long)err); return 2; }
	printf("parsing a crafted 256-byte inode (in-inode EA region of 92 bytes) ...\n");
	fflush(stdout);
	err = ext2fs_xattrs_read_inode(h, inode);
	if (err) {
		printf("finished with error %ld and no out-of-bounds access: defect absent\n", (long)err);
		return 0;
	}
	if (hash_case) {
		printf("accepted and no fault: the hash did not read past the buffer -- defect absent\n");
		return 0;
	}
	printf("accepted without error (a ~4 GiB value was copied from a 92-byte region) -- DEFECT PRESENT\n");
	return 1;
}
