#!/bin/sh
# usage: demo.sh [built e2fsprogs tree, default /repo]
# exit 0 = both crafted inodes are handled without reading past the inode buffer (defects absent),
#      1 = out-of-bounds read (SIGSEGV on the guard page behind the inode), 2 = could not build
T=${1:-/repo}
d=$(mktemp -d); trap 'rm -rf $d' EXIT
gcc -g -DHAVE_CONFIG_H -I$T/lib -I$T/lib/ext2fs -I$T/include -I$T \
    -o $d/demo $(dirname $0)/demo.c $T/lib/libext2fs.a $T/lib/libcom_err.a -lpthread 2>$d/cc.log || { cat $d/cc.log; exit 2; }
bad=0
echo "== case 1: 'remain' underflow -> ~4 GiB memcpy out of the inode buffer"
$d/demo > $d/out 2>&1 || bad=1
grep -v '^[[:space:]]*$' $d/out | head -6
echo "== case 2: unpadded value at the end of the region -> entry hash reads 1..3 bytes past the buffer"
$d/demo hash > $d/out 2>&1 || bad=1
grep -v '^[[:space:]]*$' $d/out | head -6
exit $bad
