/*
 * C16 finding: rb_find_first_zero() (lib/ext2fs/blkmap64_rb.c) answers ENOENT on an EMPTY rbtree bitmap,
 * although every bit of the range is zero; a set would answer `start`.  Failed obligation:
 * unit bitmap_gen/rb_find_first_zero, "find_first_zero: ENOENT only if every bit of [start, end] is a member"
 * (counterexample: n = 0 extents).  The bit-array backend is run side by side as the reference.
 * Exit 0 = both backends behave as a set, 1 = defect present.
 */
#include <stdio.h>
#include <errno.h>
#include "ext2fs/ext2fs.h"

static int probe(int type, const char *name)
{
	ext2fs_generic_bitmap bm;
	__u64 out = 12345;
	errcode_t r;

	if (ext2fs_alloc_generic_bmap(0, EXT2_ET_MAGIC_GENERIC_BITMAP64, type, 0, 99, 99, "demo", &bm))
		return 2;
	r = ext2fs_find_first_zero_generic_bmap(bm, 10, 50, &out);
	printf("%-8s empty bitmap, find_first_zero(10..50): ret=%ld out=%llu   (a set answers ret=0 out=10)\n",
	       name, (long)r, (unsigned long long)out);
	ext2fs_free_generic_bmap(bm);
	return !(r == 0 && out == 10);
}

int main(void)
{
	int bad = probe(EXT2FS_BMAP64_BITARRAY, "bitarray");
	bad |= probe(EXT2FS_BMAP64_RBTREE, "rbtree");
	if (bad)
		printf("DEFECT PRESENT\n");
	return bad ? 1 : 0;
}
