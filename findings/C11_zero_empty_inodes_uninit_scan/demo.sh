#!/bin/sh
# usage: demo.sh [built e2fsprogs tree, default /repo]
# exit 1 = defect present (valgrind: use of an uninitialised value in ext2fs_close_inode_scan called from zero_empty_inodes),
#      0 = absent, 2 = cannot run (no valgrind / no build)
#
# misc/tune2fs.c:zero_empty_inodes
#	ext2_inode_scan	scan;                       <- not initialised
#	retval = ext2fs_open_inode_scan(fs, 0, &scan);
#	if (retval) goto out;                       <- *ret_scan is left alone by a failing open
#   out:
#	ext2fs_free_mem(&inode);
#	ext2fs_close_inode_scan(scan);              <- tests scan, then reads scan->magic, and if the garbage happens to carry
#	                                               the magic number frees scan->inode_buffer, scan->temp_buffer, scan
# ext2fs_open_inode_scan fails with ENOMEM, when the bad-blocks inode cannot be read, or (used here, because it needs neither
# fault injection nor an I/O error) with EXT2_ET_GDESC_BAD_INODE_TABLE when the inode table location of group 0 is out of
# range; `tune2fs -O ^uninit_bg` asks for no prior fsck, so the descriptor is not validated before.
# Unit: proofs/tune2fs/zero_inodes.c tune_zero_empty_inodes_open (obligation Z4 "only the scan that was opened is closed").
T=${1:-/repo}
command -v valgrind >/dev/null 2>&1 || { echo "valgrind not available"; exit 2; }
for p in misc/mke2fs debugfs/debugfs misc/tune2fs; do [ -x "$T/$p" ] || { echo "missing $T/$p"; exit 2; }; done
d=$(mktemp -d); trap 'rm -rf $d' EXIT
"$T/misc/mke2fs" -q -F -t ext4 -O ^metadata_csum,uninit_bg $d/img 8M >/dev/null 2>&1 || exit 2
"$T/debugfs/debugfs" -w -R "set_bg 0 inode_table 0xFFFFFFF0" $d/img >/dev/null 2>&1
"$T/debugfs/debugfs" -w -R "set_bg 0 checksum calc" $d/img >/dev/null 2>&1
valgrind -q --error-exitcode=99 "$T/misc/tune2fs" -O ^uninit_bg $d/img > $d/out 2>&1
rc=$?
grep -B1 -A3 "ext2fs_close_inode_scan" $d/out | head -12
grep -q "while zeroing unused inodes" $d/out || { echo "the failing ext2fs_open_inode_scan path was not reached"; head -20 $d/out; exit 2; }
if [ $rc -eq 99 ] && grep -q "uninitialised" $d/out && grep -q "zero_empty_inodes" $d/out; then
	echo "DEFECT PRESENT: zero_empty_inodes passes its uninitialised 'scan' to ext2fs_close_inode_scan when the scan cannot be opened"
	exit 1
fi
echo "no use of an uninitialised scan handle"
exit 0
