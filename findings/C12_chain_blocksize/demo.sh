#!/bin/sh
# C12 finding: one undo file, two recorded runs with different channel block sizes.
# An undo key stores fsblk in units of the block size the channel had WHEN THE KEY WAS WRITTEN, the header stores ONE
# fs_block_size (rewritten by every write_undo_indexes with the block size of that moment) and e2undo replays every key
# at fsblk * header.fs_block_size.  After "mke2fs -b 1024 -z u" followed by "mke2fs -b 4096 -z u" the keys of the first
# run are put back at 4 times their address.  Case 2 additionally continues an undo file with undo block size 1024
# (begun by tune2fs on a 1k filesystem) with a 4k channel: tdb_data_size < block size, where undo_write_tdb saves the
# first 1024 bytes of the 4k block for each of its four undo blocks (unit undo/undo_write_tdb_small_tdb).
# usage: demo.sh [built e2fsprogs tree, default /repo]; exit 0 = every chain restored, 1 = not restored, 2 = setup problem
T=${1:-/repo}
d=$(mktemp -d); trap 'rm -rf $d' EXIT
rc=0
check() {	# $1 = name
	$T/misc/e2undo $d/u.undo $d/img >/dev/null 2>&1 || { echo "$1: e2undo failed"; exit 2; }
	if [ "$(head -c 8388608 $d/img | cksum)" = "$(cksum < $d/img.orig)" ]; then
		echo "$1: restored byte-identically over the original length"
	else
		echo "$1: NOT RESTORED after a successful e2undo: $(cmp -l $d/img $d/img.orig 2>/dev/null | wc -l) bytes differ in the original 8 MiB"
		rc=1
	fi
}
# control: two runs, same block size
head -c 8388608 /dev/urandom > $d/img; cp $d/img $d/img.orig; rm -f $d/u.undo
$T/misc/mke2fs -q -F -z $d/u.undo -b 4096 $d/img >/dev/null 2>&1 || exit 2
$T/misc/mke2fs -q -F -z $d/u.undo -b 4096 -L again $d/img >/dev/null 2>&1 || exit 2
check "control (4k then 4k)"
# case 1: mke2fs 1k, then mke2fs 4k, same undo file
cp $d/img.orig $d/img; rm -f $d/u.undo
$T/misc/mke2fs -q -F -z $d/u.undo -b 1024 $d/img 8192 >/dev/null 2>&1 || exit 2
$T/misc/mke2fs -q -F -z $d/u.undo -b 4096 $d/img >/dev/null 2>&1 || exit 2
check "case 1 (mke2fs -b 1024, then mke2fs -b 4096)"
# case 2: tune2fs on a 1k filesystem begins the undo file (undo block size 1024), mke2fs -b 4096 continues it
cp $d/img.orig $d/img
$T/misc/mke2fs -q -F -b 1024 $d/img 8192 >/dev/null 2>&1 || exit 2
cp $d/img $d/img.orig; rm -f $d/u.undo
$T/misc/tune2fs -z $d/u.undo -L one $d/img >/dev/null 2>&1 || exit 2
$T/misc/mke2fs -q -F -z $d/u.undo -b 4096 $d/img >/dev/null 2>&1 || exit 2
check "case 2 (tune2fs on 1k fs, then mke2fs -b 4096)"
exit $rc
