/*
 * LD_PRELOAD device model for the C04 demo: "a write is durable only after a later fsync of the device COMPLETED".
 *   DEMO_IMG     path of the image e2fsck works on (the volatile view: page cache + disk)
 *   DEMO_STABLE  path of a second copy that models stable storage: it receives a write only when an fsync succeeds
 *   DEMO_FAIL    n: the n-th fsync on the image fails with EIO (0: none); the writes pending at that moment are lost
 *   DEMO_LOG     event log (W offset length / F ok|FAIL)
 */
#define _GNU_SOURCE
#include <dlfcn.h>
#include <errno.h>
#include <fcntl.h>
#include <stdio.h>
#include <stdlib.h>
#include <string.h>
#include <unistd.h>
#include <sys/types.h>

struct pend { off_t off; size_t len; unsigned char *data; struct pend *next; };
static struct pend *head, *tail;
static int nfsync, stable_fd = -1;
static FILE *logf;

static int is_img(int fd)
{
	static int known[1024];		/* 0 unknown, 1 yes, 2 no */
	char link[64], path[4096];
	const char *img = getenv("DEMO_IMG");
	ssize_t n;
	if (!img || fd < 0 || fd >= 1024)
		return 0;
	if (known[fd])
		return known[fd] == 1;
	snprintf(link, sizeof(link), "/proc/self/fd/%d", fd);
	n = readlink(link, path, sizeof(path) - 1);
	if (n < 0)
		return 0;
	path[n] = 0;
	known[fd] = strcmp(path, img) == 0 ? 1 : 2;
	return known[fd] == 1;
}
static void init(void)
{
	if (stable_fd >= 0)
		return;
	stable_fd = open(getenv("DEMO_STABLE"), O_WRONLY);
	if (getenv("DEMO_LOG"))
		logf = fopen(getenv("DEMO_LOG"), "a");
}
static void record(const void *buf, size_t len, off_t off)
{
	struct pend *p = malloc(sizeof(*p));
	init();
	p->off = off; p->len = len; p->data = malloc(len); p->next = 0;
	memcpy(p->data, buf, len);
	if (tail) tail->next = p; else head = p;
	tail = p;
	if (logf) { fprintf(logf, "W %lld %zu\n", (long long)off, len); fflush(logf); }
}
ssize_t pwrite64(int fd, const void *buf, size_t len, off_t off)
{
	static ssize_t (*real)(int, const void *, size_t, off_t);
	if (!real) real = dlsym(RTLD_NEXT, "pwrite64");
	if (is_img(fd)) record(buf, len, off);
	return real(fd, buf, len, off);
}
ssize_t pwrite(int fd, const void *buf, size_t len, off_t off)
{
	static ssize_t (*real)(int, const void *, size_t, off_t);
	if (!real) real = dlsym(RTLD_NEXT, "pwrite");
	if (is_img(fd)) record(buf, len, off);
	return real(fd, buf, len, off);
}
ssize_t write(int fd, const void *buf, size_t len)
{
	static ssize_t (*real)(int, const void *, size_t);
	if (!real) real = dlsym(RTLD_NEXT, "write");
	if (is_img(fd)) record(buf, len, lseek(fd, 0, SEEK_CUR));
	return real(fd, buf, len);
}
int fsync(int fd)
{
	static int (*real)(int);
	struct pend *p, *n;
	int fail;
	if (!real) real = dlsym(RTLD_NEXT, "fsync");
	if (!is_img(fd))
		return real(fd);
	init();
	nfsync++;
	fail = getenv("DEMO_FAIL") && atoi(getenv("DEMO_FAIL")) == nfsync;
	for (p = head; p; p = n) {
		n = p->next;
		if (!fail && stable_fd >= 0 && pwrite(stable_fd, p->data, p->len, p->off) < 0)
			perror("stable");
		free(p->data); free(p);
	}
	head = tail = 0;
	if (logf) { fprintf(logf, "F %s\n", fail ? "FAIL" : "ok"); fflush(logf); }
	if (fail) { errno = EIO; return -1; }
	return real(fd);
}
