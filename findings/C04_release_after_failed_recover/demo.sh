#!/bin/sh
# C04: recover_ext3_journal() marks the journal empty (e2fsck_journal_release(..., reset = 1, ...)) also when
# jbd2_journal_recover() FAILED -- here: the replay itself went through, but the flush of the replayed blocks failed.
# usage: demo.sh [built e2fsprogs tree, default /repo]
# exit 0 = absent (journal still requests recovery, or the replayed block is durable); 1 = defect present; 2 = set-up problem
T=${1:-/repo}
here=$(cd "$(dirname "$0")" && pwd)
d=$(mktemp -d); trap 'rm -rf $d' EXIT
gcc -shared -fPIC -O1 -o $d/shim.so $here/shim.c -ldl || exit 2
IMG=$d/fs.img
$T/misc/mke2fs -q -F -o Linux -b 1024 -O has_journal -T ext4 $IMG 16384 >/dev/null 2>&1 || exit 2
Z=15000		# a block no file uses: fill it with 0xAA, then log "all zero" for it in a committed transaction
perl -e 'print "\xAA" x 1024' | dd of=$IMG bs=1024 seek=$Z conv=notrunc 2>/dev/null
printf 'jo\njw -b %s /dev/zero\njc\n' $Z > $d/cmd
$T/debugfs/debugfs -w -f $d/cmd $IMG >/dev/null 2>&1 || exit 2
$T/misc/dumpe2fs -h $IMG 2>/dev/null | grep -q needs_recovery || { echo "set-up: journal not pending"; exit 2; }
blk() { dd if=$1 bs=1024 skip=$Z count=1 2>/dev/null | od -An -tx1 | tr -d ' \n' | cut -c1-16; }

# reference: uninterrupted recovery
cp $IMG $d/ref.img
$T/e2fsck/e2fsck -fy $d/ref.img >/dev/null 2>&1
echo "reference run:        block $Z = $(blk $d/ref.img)  (logged image: zeros)"

# trace run: which fsync is the one of jbd2_journal_recover (the first one that follows a write)?
cp $IMG $d/t.img; cp $IMG $d/t.stable
DEMO_IMG=$d/t.img DEMO_STABLE=$d/t.stable DEMO_LOG=$d/t.log LD_PRELOAD=$d/shim.so $T/e2fsck/e2fsck -fy $d/t.img >/dev/null 2>&1
k=$(awk '/^W/{w=1} /^F/{n++; if (w) {print n; exit}}' $d/t.log)
[ -n "$k" ] || { echo "set-up: no fsync after a write seen"; exit 2; }

# faulty run: that flush fails (EIO); the writes it should have made durable are lost from stable storage
cp $IMG $d/w.img; cp $IMG $d/w.stable
DEMO_IMG=$d/w.img DEMO_STABLE=$d/w.stable DEMO_FAIL=$k DEMO_LOG=$d/w.log LD_PRELOAD=$d/shim.so $T/e2fsck/e2fsck -fy $d/w.img > $d/w.out 2>&1
echo "e2fsck exit status with the failing flush: $?"
grep -i "recover\|journal" $d/w.out | head -5
nr=$($T/misc/dumpe2fs -h $d/w.stable 2>/dev/null | grep -c needs_recovery)
js=$($T/debugfs/debugfs -R "logdump" $d/w.stable 2>/dev/null | grep -i "journal starts\|Journal starts" | head -1)
echo "stable storage after the run: needs_recovery flag lines: $nr; $js"
echo "stable storage after the run: block $Z = $(blk $d/w.stable)"
if [ "$(blk $d/w.stable)" != "$(blk $d/ref.img)" ] && [ "$nr" = 0 ]; then
	echo "DEFECT: the journal no longer requests recovery on stable storage, but the replayed block never became durable;"
	echo "        a second e2fsck run cannot replay it any more:"
	cp $d/w.stable $d/again.img; $T/e2fsck/e2fsck -fy $d/again.img >/dev/null 2>&1
	echo "        after re-running e2fsck on the stable image: block $Z = $(blk $d/again.img)"
	exit 1
fi
echo "absent: replayed block durable or recovery still pending"
exit 0
