#!/bin/sh
# usage: demo.sh [built e2fsprogs tree, default /repo]
# exit 1 = defect present (a run after a successful `e2fsck -fy` is not clean), 0 = absent, 2 = cannot run
#
# e2fsck/pass3.c:e2fsck_get_lost_and_found — when the root directory has no room for the new "lost+found" entry
# (ext2fs_link → EXT2_ET_DIR_NO_SPACE) the root is grown with the LIBRARY routine ext2fs_expand_dir(fs, EXT2_ROOT_INO).
# That routine knows nothing about e2fsck's quota context: the block (cluster) added to the root directory is never
# charged to the root's owner (every other block e2fsck hands out in pass 3 is: quota_data_add(..., EXT2_CLUSTER_SIZE)
# for the new lost+found / root, es.newblocks * EXT2_CLUSTER_SIZE in e2fsck_expand_directory).  At the end of the run
# e2fsck writes the usage it has computed into the quota files — one cluster short.  The next `e2fsck -fn` counts the
# root's real blocks and reports "[QUOTA WARNING] Usage inconsistent for ID 0", PR_6_UPDATE_QUOTAS, exit 4 (C01).
# Set-up: the suite's own image "no space in root to create lost+found entry" (tests/f_expandroot_create_lnf), with
# the quota feature switched on by tune2fs (e2fsck -fn is clean after that).
T=${1:-/repo}
for p in misc/tune2fs e2fsck/e2fsck; do [ -x "$T/$p" ] || { echo "missing $T/$p"; exit 2; }; done
[ -r "$T/tests/f_expandroot_create_lnf/image.gz" ] || { echo "missing test image"; exit 2; }
d=$(mktemp -d); trap 'rm -rf $d' EXIT
zcat "$T/tests/f_expandroot_create_lnf/image.gz" > $d/img || exit 2
"$T/misc/tune2fs" -O quota $d/img >/dev/null 2>&1 || { echo "tune2fs -O quota failed"; exit 2; }
"$T/e2fsck/e2fsck" -fn $d/img > $d/out0 2>&1; rc0=$?
# (a read-only run does not complain about the missing lost+found; it must not complain about quota either)
grep -q "QUOTA WARNING" $d/out0 && { echo "set-up failed: quota already inconsistent"; cat $d/out0; exit 2; }
"$T/e2fsck/e2fsck" -fy $d/img > $d/out1 2>&1; rc1=$?
grep -q "lost+found not found" $d/out1 || { echo "set-up failed: lost+found was not re-created"; cat $d/out1; exit 2; }
"$T/e2fsck/e2fsck" -fn $d/img > $d/out2 2>&1; rc2=$?
echo "e2fsck -fn before: exit $rc0;  e2fsck -fy: exit $rc1;  e2fsck -fn after: exit $rc2"
[ $rc1 -le 1 ] || { echo "first run did not claim success"; cat $d/out1; exit 2; }
if [ $rc2 -ne 0 ]; then
	grep "QUOTA WARNING\|Fix?\|Update quota" $d/out2 | sed 's/^/   /'
	echo "DEFECT PRESENT: the block added to the root directory for the lost+found entry was not charged to the quota"
	exit 1
fi
echo "second check clean"
exit 0
