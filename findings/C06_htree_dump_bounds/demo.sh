#!/bin/sh
# usage: demo.sh [built e2fsprogs tree, default /repo]
# exit 1 = defect present (valgrind: invalid read in htree_dump_int_node), 0 = absent, 2 = cannot run
#
# debugfs/htree.c:htree_dump_int_node prints `count` index entries, count being the 16-bit field of the dx_countlimit in
# the block, without comparing it with `limit` or with the size of the block: ent[i] is read up to 65535 * 8 bytes behind
# the block buffer.  (Same file: htree_dump_leaf_node reads rec_len / name_len of an entry that starts 4 bytes before the
# end of its one-block buffer; indirect_levels (8 bit, arbitrary) drives a recursion of that depth.)
# Image: an indexed directory whose root count is patched to 0xffff; command: the read-only `debugfs -R "htree_dump d"`.
T=${1:-/repo}
command -v valgrind >/dev/null 2>&1 || { echo "valgrind not available"; exit 2; }
for p in misc/mke2fs debugfs/debugfs e2fsck/e2fsck; do [ -x "$T/$p" ] || { echo "missing $T/$p"; exit 2; }; done
d=$(mktemp -d); trap 'rm -rf $d' EXIT
dd if=/dev/zero of=$d/img bs=1k count=8192 2>/dev/null
"$T/misc/mke2fs" -q -F -t ext4 -O ^metadata_csum -b 1024 $d/img || exit 2
( echo "mkdir d"; echo "cd d"; i=1; while [ $i -le 120 ]; do echo "write /dev/null file_with_a_long_name_to_fill_blocks_$i"; i=$((i + 1)); done ) | "$T/debugfs/debugfs" -w -f - $d/img >/dev/null 2>&1
"$T/e2fsck/e2fsck" -fyD $d/img >/dev/null 2>&1
blk=$("$T/debugfs/debugfs" -R "bmap d 0" $d/img 2>/dev/null | tail -1)
"$T/debugfs/debugfs" -R "htree_dump d" $d/img 2>/dev/null | grep -q "Number of entries (count)" || { echo "directory is not indexed"; exit 2; }
# root block: dx_countlimit at byte 0x20 (limit) / 0x22 (count)
printf '\377\377' | dd of=$d/img bs=1 seek=$((blk * 1024 + 34)) conv=notrunc 2>/dev/null
valgrind -q "$T/debugfs/debugfs" -R "htree_dump d" $d/img > $d/out 2>&1
if grep -a -q "Invalid read" $d/out && grep -a -q "htree_dump_int_node" $d/out; then
	grep -a -m1 -A3 "Invalid read" $d/out | cut -c1-120
	echo "DEFECT PRESENT: debugfs htree_dump reads 65535 index entries out of a 1 KiB block"
	exit 1
fi
grep -a "Corrupted" $d/out | head -3
echo "no invalid read"
exit 0
