#!/bin/sh
# C12 finding: undo_write_tdb() with a filesystem offset that is not a multiple of tdb_data_size.
# The undo block of a request is chosen as t = (block*bs + offset)/tdb, but the range that is read and saved for
# block t starts at the filesystem byte (t - offset/tdb)*tdb.  The two disagree by one undo block as soon as
# (block*bs % tdb) + (offset % tdb) >= tdb, i.e. whenever tdb > bs and the offset is not a multiple of tdb:
# the old content of the first undo block of such a request is never saved (unless its neighbour happened to be
# saved earlier) and bit t+... of written_block_map says it was.  Failed obligations: unit undo/undo_write_tdb,
# h_write_tdb.assertion.3 "undo block t* in the range: marked saved" and undo_write_tdb.postcondition.2.
# mke2fs -z uses tdb_data_size = 32768 for block sizes <= 4096, so every mke2fs -E offset=N -z with N % 32768 != 0
# (63 sectors = 32256, 4 KiB, ...) produces an undo file that does not restore the device although e2undo succeeds.
# usage: demo.sh [built e2fsprogs tree, default /repo]; exit 0 = restored for every offset, 1 = not restored, 2 = setup problem
T=${1:-/repo}
d=$(mktemp -d); trap 'rm -rf $d' EXIT
rc=0
for off in 0 32768 32256 4096; do
	head -c $((16384 * 1024 + off)) /dev/urandom > $d/img
	cp $d/img $d/img.orig
	rm -f $d/u.undo
	$T/misc/mke2fs -q -F -z $d/u.undo -E offset=$off $d/img 16384 >/dev/null 2>&1 || { echo "offset=$off: mke2fs failed"; exit 2; }
	cmp -s $d/img $d/img.orig && { echo "offset=$off: mke2fs changed nothing?"; exit 2; }
	$T/misc/e2undo $d/u.undo $d/img >/dev/null 2>&1 || { echo "offset=$off: e2undo failed"; exit 2; }
	if cmp -s $d/img $d/img.orig; then
		echo "offset=$off: restored byte-identically"
	else
		echo "offset=$off: NOT RESTORED after a successful e2undo: $(cmp -l $d/img $d/img.orig | wc -l) bytes differ, first:"
		cmp -l $d/img $d/img.orig | head -2
		rc=1
	fi
done
exit $rc
