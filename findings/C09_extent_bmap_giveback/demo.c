/*
 * C09 finding in lib/ext2fs/bmap.c:extent_bmap — on a bigalloc filesystem, BMAP_ALLOC for a block whose logical
 * cluster already has a mapped block takes the physical block from implied_cluster_alloc() (NO allocation: the cluster
 * is already in use by this file) and jumps to set_extent.  If ext2fs_extent_set_bmap() then fails (e.g. no space for
 * the new extent-tree block a split needs), the error path runs ext2fs_block_alloc_stats2(fs, blk64, -1): it "gives
 * back" a cluster this call never allocated and that the file STILL MAPS.  The block bitmap and the free counts now
 * say the cluster is free; the next allocation hands it to another file (cross-file corruption), e2fsck reports
 * multiply-claimed / bitmap differences.
 * Replay through the public API: a file with 4 one-block extents (inode root full), filesystem filled up, then a write
 * to another block of the 4th extent's cluster.
 * exit 0 = after the failed write every block the file maps is still marked in use, 1 = a mapped cluster was freed,
 * 2 = setup problem.
 */
#include <stdio.h>
#include <stdlib.h>
#include <string.h>
#include "ext2fs/ext2_fs.h"
#include "ext2fs/ext2fs.h"

int main(int argc, char **argv)
{
	ext2_filsys fs;
	ext2_ino_t ino;
	struct ext2_inode inode;
	ext2_file_t f;
	char buf[1024];
	unsigned int w;
	__u64 pos;
	blk64_t p96, b, filled = 0;
	errcode_t r;
	int i, bad = 0;

	if (argc < 2) return 2;
	if (ext2fs_open(argv[1], EXT2_FLAG_RW | EXT2_FLAG_64BITS, 0, 0, unix_io_manager, &fs)) return 2;
	if (ext2fs_read_bitmaps(fs)) return 2;
	if (!ext2fs_has_feature_bigalloc(fs->super)) { puts("not a bigalloc filesystem"); return 2; }

	if (ext2fs_new_inode(fs, EXT2_ROOT_INO, 0100644, 0, &ino)) return 2;
	memset(&inode, 0, sizeof(inode));
	inode.i_mode = LINUX_S_IFREG | 0644;
	inode.i_links_count = 1;
	inode.i_flags = EXT4_EXTENTS_FL;
	if (ext2fs_write_new_inode(fs, ino, &inode)) return 2;
	ext2fs_inode_alloc_stats2(fs, ino, +1, 0);
	{	/* empty extent tree root */
		ext2_extent_handle_t h;
		if (ext2fs_extent_open2(fs, ino, &inode, &h)) return 2;
		ext2fs_extent_free(h);
		if (ext2fs_write_inode(fs, ino, &inode)) return 2;
	}

	/* four one-block extents in four different logical clusters (16 blocks each): the inode's root node is full */
	if (ext2fs_file_open(fs, ino, EXT2_FILE_WRITE, &f)) return 2;
	memset(buf, 'A', sizeof(buf));
	for (i = 0; i < 4; i++) {
		if (ext2fs_file_llseek(f, (__u64)i * 32 * 1024, EXT2_SEEK_SET, &pos)) return 2;
		if (ext2fs_file_write(f, buf, 1024, &w) || w != 1024) return 2;
	}
	if (ext2fs_file_close(f)) return 2;
	if (ext2fs_read_inode(fs, ino, &inode)) return 2;
	if (ext2fs_bmap2(fs, ino, &inode, 0, 0, 96, 0, &p96) || !p96) return 2;
	printf("logical block 96 -> physical %llu (cluster in use: %d)\n", (unsigned long long)p96,
	       ext2fs_test_block_bitmap2(fs->block_map, p96));

	/* fill the filesystem: every free cluster becomes in use */
	while (ext2fs_new_block2(fs, 0, 0, &b) == 0) {
		ext2fs_block_alloc_stats2(fs, b, +1);
		filled++;
	}
	printf("filled %llu clusters, filesystem is full\n", (unsigned long long)filled);

	/* block 98 lies in the cluster of block 96: no allocation needed, but a 5th extent does not fit the root */
	if (ext2fs_file_open(fs, ino, EXT2_FILE_WRITE, &f)) return 2;
	if (ext2fs_file_llseek(f, 98 * 1024, EXT2_SEEK_SET, &pos)) return 2;
	r = ext2fs_file_write(f, buf, 1024, &w);
	printf("write to logical block 98: error %ld (%s)\n", (long)r, r ? "expected: no space for the tree split" : "succeeded");

	/* look at the allocation state right after the failed write (the handle is still open) */
	printf("logical block 96 -> physical %llu, marked in use in the block bitmap: %d, free blocks in the superblock: %llu\n",
	       (unsigned long long)p96, ext2fs_test_block_bitmap2(fs->block_map, p96),
	       (unsigned long long)ext2fs_free_blocks_count(fs->super));
	if (!ext2fs_test_block_bitmap2(fs->block_map, p96)) {
		blk64_t nb;
		bad = 1;
		if (ext2fs_new_block2(fs, 0, 0, &nb) == 0)
			printf("the allocator now offers block %llu — the cluster of the file's block %llu — to the next caller\n",
			       (unsigned long long)nb, (unsigned long long)p96);
	}
	/* do not flush the handle: the point is the state the failed call left behind */
	ext2fs_close(fs);
	puts(bad ? "RESULT: a failed BMAP_ALLOC freed a cluster the file still maps" : "RESULT: ok");
	return bad;
}
