#!/bin/sh
# usage: demo.sh [built e2fsprogs tree, default /repo] [source tree when built out of tree]; exit 0 = mapped cluster still in use after the failed write, 1 = it was freed
T=${1:-/repo}
d=$(mktemp -d); trap 'rm -rf $d' EXIT
gcc -I$T/lib ${2:+-I$2/lib} -o $d/demo $(dirname $0)/demo.c $T/lib/libext2fs.a $T/lib/libcom_err.a -lpthread || exit 2
$T/misc/mke2fs -q -F -t ext4 -O bigalloc,^has_journal,^resize_inode -C 16384 -b 1024 $d/img 8192 >/dev/null 2>&1 || exit 2
$d/demo $d/img
