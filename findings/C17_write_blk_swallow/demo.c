/*
 * Replay against the real library of the C17 finding "unix_write_blk64 swallows the error of a failed eviction"
 * (failed obligations unix_write_blk64.postcondition.1/.3 of units unixio/unix_write_blk64_c1, _c2:
 *  "a failed device write is reported to the caller" / "after a successful write a read returns the byte written").
 *
 * lib/ext2fs/unix_io.c, unix_write_blk64, cached path:
 *	err = reuse_cache(channel, data, cache, block);
 *	if (err)
 *		goto call_write_handler;	-> "return retval;" and retval is still 0
 * When the cache is full and the least recently used entry is dirty, caching the new block first writes the victim back.
 * If that device write fails, the function returns 0 although the caller's block was neither put into the cache nor
 * written to the device: the data is silently lost.
 *
 * Uses only the public io_manager API on a scratch file; the device error is produced with RLIMIT_FSIZE (a write beyond
 * the limit fails with EFBIG).  Exit 0 = error reported (or data safe), 1 = write lost silently, 2 = set-up problem.
 */
#include <stdio.h>
#include <stdlib.h>
#include <string.h>
#include <unistd.h>
#include <signal.h>
#include <sys/resource.h>
#include "ext2fs/ext2fs.h"

#define BS 1024
#define FAR_BLOCK 1000		/* beyond the file size limit set below */
static char buf[BS], got[BS];

int main(void)
{
	io_channel ch;
	struct rlimit lim, old;
	errcode_t err;
	char name[] = "/tmp/verif_c17s_XXXXXX";
	int i, fd = mkstemp(name);

	if (fd < 0 || ftruncate(fd, 64 * BS)) return 2;
	close(fd);
	signal(SIGXFSZ, SIG_IGN);
	if (unix_io_manager->open(name, IO_FLAG_RW, &ch)) return 2;
	io_channel_set_blksize(ch, BS);

	/* one dirty block far out, then fill the remaining 7 cache entries: nothing has reached the device yet */
	memset(buf, 0x11, BS);
	if (io_channel_write_blk64(ch, FAR_BLOCK, 1, buf)) return 2;
	for (i = 0; i < 7; i++) {
		memset(buf, 0x20 + i, BS);
		if (io_channel_write_blk64(ch, i, 1, buf)) return 2;
	}
	/* from now on a write beyond 64 KiB fails: the eviction of FAR_BLOCK will fail */
	getrlimit(RLIMIT_FSIZE, &old);
	lim = old; lim.rlim_cur = 64 * BS;
	if (setrlimit(RLIMIT_FSIZE, &lim)) return 2;

	memset(buf, 0xAB, BS);
	err = io_channel_write_blk64(ch, 7, 1, buf);	/* cache full, LRU victim = FAR_BLOCK (dirty) */
	setrlimit(RLIMIT_FSIZE, &old);			/* the device works again */
	if (err) {
		printf("write of block 7 reported error %ld: the failed eviction is propagated\n", (long)err);
		io_channel_close(ch); unlink(name);
		return 0;
	}
	memset(got, 0x55, BS);
	if (io_channel_read_blk64(ch, 7, 1, got)) { printf("read error\n"); unlink(name); return 2; }
	io_channel_close(ch);
	unlink(name);
	if ((unsigned char)got[10] != 0xAB) {
		printf("LOST WRITE: io_channel_write_blk64(block 7) returned 0, but the block reads back 0x%02x instead of 0xab\n"
		       "(the eviction of a dirty block failed with EFBIG; the error was dropped and block 7 was neither cached nor written)\n",
		       (unsigned char)got[10]);
		return 1;
	}
	printf("block 7 reads back the data written\n");
	return 0;
}
