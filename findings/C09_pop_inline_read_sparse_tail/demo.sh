#!/bin/sh
# usage: demo.sh [built e2fsprogs tree, default /repo]
# exit 1 = defect present, 0 = absent, 2 = cannot run
#
# An inline-data file may be LONGER than its inline area (i_size > 60 + size of the EA system.data): the kernel
# creates such files by truncate(2)-extending a small file and reads the tail as zeros (ext4_read_inline_folio zero-fills
# behind the inline data); e2fsck accepts them; mke2fs -O inline_data -d creates one for every source file that
# consists of a hole only (do_write_internal sets i_size = st_size and EXT4_INLINE_DATA_FL, copy_file then finds no
# data extent to copy).  lib/ext2fs/fileio.c:ext2fs_file_read_inline_data() stops at the end of the inline AREA:
# debugfs dump / rdump / cat and fuse2fs return 60 bytes for a 100-byte file ("exactly size bytes in total", C09;
# "extraction returns the same lengths", C18).
T=${1:-/repo}
for p in misc/mke2fs debugfs/debugfs e2fsck/e2fsck; do [ -x "$T/$p" ] || { echo "missing $T/$p"; exit 2; }; done
d=$(mktemp -d /tmp/pop2demo.XXXXXX); trap 'rm -rf $d' EXIT
mkdir $d/src
truncate -s 100 $d/src/h || exit 2			# 100-byte hole
truncate -s 1048576 $d/src/g || exit 2		# 1 MiB hole
"$T/misc/mke2fs" -q -F -t ext4 -O inline_data -d $d/src $d/img 8M > $d/mk.out 2>&1 || { cat $d/mk.out; echo "mke2fs failed"; exit 2; }
"$T/e2fsck/e2fsck" -fn $d/img > $d/fsck.out 2>&1; fsck=$?
bad=0
for f in h g; do
	size=$("$T/debugfs/debugfs" -R "stat /$f" $d/img 2>/dev/null | sed -n 's/.*Size: \([0-9]*\).*/\1/p' | head -1)
	"$T/debugfs/debugfs" -R "dump /$f $d/out_$f" $d/img > /dev/null 2>&1
	got=$(stat -c %s $d/out_$f)
	echo "/$f: source $(stat -c %s $d/src/$f) bytes, i_size $size, debugfs dump returns $got bytes (e2fsck -fn exit $fsck)"
	cmp -s $d/out_$f $d/src/$f || bad=1
done
if [ $bad = 1 ]; then
	echo "DEFECT PRESENT: reading an inline-data file stops at the end of the inline area instead of i_size"
	exit 1
fi
echo "inline files read back with their full length"
exit 0
