/*
 * C08 observation (latent): resize/extent.c:extent_cmp() returns (db_a->old_loc - db_b->old_loc) -- a 64-bit difference --
 * as int.  Two old locations that differ by a multiple of 2^32 compare "equal", differences of 2^31..2^32-1 flip the sign:
 * qsort() then leaves the table unsorted and the binary search of ext2fs_extent_translate() misses entries.
 * Not reachable from resize2fs today: block_mover and inode_scan_and_fix add runs in ascending order, the table keeps its
 * `sorted` mark and qsort is never called.  Unit resize/rsz_extent_cmp (tier obs) states the comparator's contract.
 */
#include <stdio.h>
#include "resize2fs.h"

int main(void)
{
	ext2_extent t;
	__u64 r;
	if (ext2fs_create_extent_table(&t, 0))
		return 2;
	/* descending order of old location: the table is marked unsorted and sorted at the first lookup */
	ext2fs_add_extent_entry(t, 0x100000010ULL, 1000);
	ext2fs_add_extent_entry(t, 0x10ULL, 2000);
	r = ext2fs_extent_translate(t, 0x10ULL);
	printf("translate(0x10) = %llu, expected 2000\n", (unsigned long long)r);
	return r == 2000 ? 0 : 1;
}
