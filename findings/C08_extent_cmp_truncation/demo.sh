#!/bin/sh
# C08 observation (latent, not reachable from resize2fs as it stands): extent_cmp() truncates a 64-bit difference to int.
# See demo.c.  usage: demo.sh [built e2fsprogs tree, default /repo]; exit 0 = lookup correct, 1 = defect present
T=${1:-/repo}
d=$(mktemp -d); trap 'rm -rf $d' EXIT
gcc -O1 -DHAVE_CONFIG_H -I$T/lib -I$T/lib/ext2fs -I$T/include -I$T/resize -o $d/demo $(dirname $0)/demo.c $T/resize/extent.c $T/lib/libext2fs.a $T/lib/libcom_err.a -lpthread 2>$d/err || { cat $d/err; exit 2; }
$d/demo
