/*
 * C09 findings in lib/ext2fs/fileio.c, inline-data path, replayed through the PUBLIC ext2fs_file_* API on an
 * inline_data filesystem image (argv[1], made by demo.sh with the tree's own mke2fs).  A byte-array model says what
 * every read must return.  Failed obligations: units fileio/inline_write (postconditions 1-4, memcpy bounds) and
 * fileio/inline_read (postconditions 1-2).
 *   case 1  write 10 bytes at 0, read back            -> read returns 60 bytes (area size used instead of i_size)
 *   case 2  then write "ABCDEF" at offset 4           -> reports 2 bytes written, stores nothing at offset 4,
 *                                                        shrinks the stored data to 2 bytes
 *   case 3  write 2 bytes at offset 8 (child process) -> count = 2 - 8 = 0xfffffffa: ~4 GiB memcpy, heap overflow/crash
 * exit 0 = file behaves like the model, 1 = wrong, 2 = setup problem.
 */
#include <stdio.h>
#include <stdlib.h>
#include <string.h>
#include <unistd.h>
#include <sys/wait.h>
#include "ext2fs/ext2_fs.h"
#include "ext2fs/ext2fs.h"

static ext2_filsys fs;
static unsigned char model[4096];
static unsigned long long msize;
static int bad;

static ext2_ino_t new_inline_file(void)
{
	ext2_ino_t ino;
	struct ext2_inode inode;
	if (ext2fs_new_inode(fs, EXT2_ROOT_INO, 0100644, 0, &ino)) exit(2);
	memset(&inode, 0, sizeof(inode));
	inode.i_mode = LINUX_S_IFREG | 0644;
	inode.i_links_count = 1;
	inode.i_flags = EXT4_INLINE_DATA_FL;
	if (ext2fs_write_new_inode(fs, ino, &inode)) exit(2);
	if (ext2fs_inline_data_init(fs, ino)) exit(2);
	ext2fs_inode_alloc_stats2(fs, ino, +1, 0);
	return ino;
}

static void do_write(ext2_file_t f, unsigned long long pos, const char *data, unsigned int n)
{
	unsigned int w = 0;
	errcode_t r;
	if (ext2fs_file_llseek(f, pos, EXT2_SEEK_SET, 0)) exit(2);
	r = ext2fs_file_write(f, data, n, &w);
	printf("  write(pos=%llu, n=%u) -> ret=%ld written=%u\n", pos, n, (long)r, w);
	if (r == 0 && w != n) { printf("  WRONG: short write reported without error\n"); bad = 1; }
	if (r == 0) {
		memcpy(model + pos, data, n);	/* the model follows the request */
		if (pos + n > msize) msize = pos + n;
	}
}

static void check_read(ext2_ino_t ino, const char *when)
{
	ext2_file_t f;
	unsigned char got[4096];
	unsigned int n = 0, total = 0;
	if (ext2fs_file_open(fs, ino, 0, &f)) exit(2);
	memset(got, 0xEE, sizeof(got));
	while (total < sizeof(got)) {
		if (ext2fs_file_read(f, got + total, sizeof(got) - total, &n)) { printf("  read error\n"); bad = 1; break; }
		if (n == 0) break;
		total += n;
	}
	ext2fs_file_close(f);
	printf("  %s: read back %u bytes, model has %llu\n", when, total, msize);
	if (total != msize) { printf("  WRONG LENGTH\n"); bad = 1; }
	if (memcmp(got, model, total < msize ? total : msize)) {
		printf("  WRONG CONTENT: got \"%.*s\" expected \"%.*s\"\n", (int)(total < 16 ? total : 16), got, (int)msize, model);
		bad = 1;
	}
}

int main(int argc, char **argv)
{
	ext2_file_t f;
	ext2_ino_t ino;
	int st;

	if (argc < 2) return 2;
	if (ext2fs_open(argv[1], EXT2_FLAG_RW, 0, 0, unix_io_manager, &fs)) { printf("cannot open %s\n", argv[1]); return 2; }
	if (!ext2fs_has_feature_inline_data(fs->super)) { printf("image has no inline_data\n"); return 2; }
	if (ext2fs_read_bitmaps(fs)) return 2;

	puts("case 1: 10 bytes at offset 0");
	ino = new_inline_file();
	if (ext2fs_file_open(fs, ino, EXT2_FILE_WRITE, &f)) return 2;
	do_write(f, 0, "0123456789", 10);
	ext2fs_file_close(f);
	check_read(ino, "after case 1");

	puts("case 2: \"ABCDEF\" at offset 4 of the same file");
	if (ext2fs_file_open(fs, ino, EXT2_FILE_WRITE, &f)) return 2;
	do_write(f, 4, "ABCDEF", 6);
	ext2fs_file_close(f);
	check_read(ino, "after case 2");

	puts("case 3: 2 bytes at offset 8 of a fresh 10-byte file (in a child process)");
	fflush(stdout);
	if (fork() == 0) {
		ino = new_inline_file();
		msize = 0; bad = 0;
		if (ext2fs_file_open(fs, ino, EXT2_FILE_WRITE, &f)) _exit(2);
		do_write(f, 0, "0123456789", 10);
		do_write(f, 8, "XY", 2);
		ext2fs_file_close(f);
		check_read(ino, "after case 3");
		fflush(stdout);
		_exit(bad);
	}
	wait(&st);
	if (WIFSIGNALED(st)) { printf("  CRASH: child killed by signal %d (heap overflow in ext2fs_file_write_inline_data)\n", WTERMSIG(st)); bad = 1; }
	else if (WEXITSTATUS(st)) bad = 1;

	ext2fs_close(fs);
	puts(bad ? "RESULT: inline-data file does NOT read back what was written" : "RESULT: ok");
	return bad;
}
