#!/bin/sh
# usage: demo.sh [built e2fsprogs tree, default /repo] [source tree when built out of tree]; exit 0 = reads back exactly, 1 = wrong length/content/crash
T=${1:-/repo}
d=$(mktemp -d); trap 'rm -rf $d' EXIT
gcc -I$T/lib ${2:+-I$2/lib} -o $d/demo $(dirname $0)/demo.c $T/lib/libext2fs.a $T/lib/libcom_err.a -lpthread || exit 2
$T/misc/mke2fs -q -F -t ext4 -O inline_data,^has_journal -I 256 -b 1024 $d/img 4096 >/dev/null 2>&1 || exit 2
$d/demo $d/img
