#!/bin/sh
# usage: demo.sh [built e2fsprogs tree, default /repo]
# exit 1 = defect present, 0 = absent, 2 = cannot run
#
# C11 mechanism "feature edits are validated against ok/clear-ok masks".  misc/tune2fs.c hands e2p_edit_feature2 the table
# clear_ok_features[]: `tune2fs -O ^extent` (or ^sparse_super, ^ext_attr, ...) is refused with "Clearing filesystem feature
# 'extent' not supported."  But lib/e2p/feature.c:e2p_edit_feature2 treats the words "none" and "clear" as
#	compat_array[0] = compat_array[1] = compat_array[2] = 0;
# WITHOUT looking at clear_ok_array: `tune2fs -O none` is accepted (exit 0) and clears every feature, including the ones
# tune2fs cannot convert (extent-mapped files stay, the superblock says there are none).  On a filesystem without
# flex_bg/has_journal/metadata_csum nothing else in update_feature_set objects.
# Unit: proofs/tune2fs/e2p_edit.c tune_e2p_edit_feature2, obligation E1 (clear-ok mask).
T=${1:-/repo}
for p in misc/mke2fs debugfs/debugfs misc/tune2fs misc/dumpe2fs e2fsck/e2fsck; do [ -x "$T/$p" ] || { echo "missing $T/$p"; exit 2; }; done
d=$(mktemp -d); trap 'rm -rf $d' EXIT
"$T/misc/mke2fs" -q -F -t ext4 -O ^flex_bg,^metadata_csum,^64bit,^has_journal $d/img 16M >/dev/null 2>&1 || exit 2
echo hello > $d/f; "$T/debugfs/debugfs" -w -R "write $d/f f" $d/img >/dev/null 2>&1
"$T/e2fsck/e2fsck" -fn $d/img >/dev/null 2>&1 || { echo "start image not consistent"; exit 2; }
feat() { "$T/misc/dumpe2fs" -h $d/img 2>/dev/null | sed -n 's/^Filesystem features: *//p'; }
echo "before                 : $(feat)"
"$T/misc/tune2fs" -O ^extent $d/img > $d/o1 2>&1; r1=$?
echo "tune2fs -O ^extent     : exit $r1: $(grep -i 'not supported' $d/o1)"
[ $r1 -ne 0 ] || { echo "^extent unexpectedly accepted"; exit 2; }
"$T/misc/tune2fs" -O none $d/img > $d/o2 2>&1; r2=$?
after=$(feat)
echo "tune2fs -O none        : exit $r2, features now: $after"
"$T/e2fsck/e2fsck" -fn $d/img > $d/o3 2>&1; r3=$?
echo "e2fsck -fn             : exit $r3: $(grep -m1 'extent format' $d/o3)"
case "$after" in *extent*) echo "extent feature kept"; exit 0;; esac
if [ $r2 -eq 0 ]; then
	echo "DEFECT PRESENT: the keyword 'none' clears features outside clear_ok_features (extent, sparse_super, ext_attr, ...) and tune2fs reports success"
	exit 1
fi
echo "tune2fs refused"
exit 0
