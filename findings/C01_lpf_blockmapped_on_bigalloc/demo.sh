#!/bin/sh
# usage: demo.sh [built e2fsprogs tree, default /repo]
# exit 1 = defect present (a run after a successful `e2fsck -fy` is not clean), 0 = absent, 2 = cannot run
#
# e2fsck/pass3.c: e2fsck_get_lost_and_found() (a missing /lost+found is re-created) and check_root() (a missing root
# directory is re-created) build the new directory inode by hand: i_block[0] = blk, i_flags = 0 — a BLOCK-MAPPED
# directory, whatever the features of the filesystem.  lib/ext2fs/mkdir.c (and the kernel) create extent-mapped
# directories when the filesystem has the extents feature.  On an ordinary ext4 the block-mapped directory is merely
# unusual; on a bigalloc filesystem it is an error that pass 1 of the NEXT run reports
# (e2fsck/pass1.c:check_blocks, PR_1_NO_BIGALLOC_BLOCKMAP_FILES, "Inode %i on bigalloc filesystem cannot be block
# mapped"), exit status 4: the repair `e2fsck -fy` claims to have completed (exit 1, "FILE SYSTEM WAS MODIFIED") does
# not converge (C01).
T=${1:-/repo}
for p in misc/mke2fs debugfs/debugfs e2fsck/e2fsck; do [ -x "$T/$p" ] || { echo "missing $T/$p"; exit 2; }; done
d=$(mktemp -d); trap 'rm -rf $d' EXIT
bad=0

# $1 = label, $2 = mke2fs options, $3 = debugfs damage, $4 = inode to show
scenario()
{
	dd if=/dev/zero of=$d/img bs=1k count=32768 2>/dev/null
	"$T/misc/mke2fs" -q -F -t ext4 $2 $d/img >/dev/null 2>&1 || { echo "mke2fs failed"; exit 2; }
	"$T/e2fsck/e2fsck" -fn $d/img >/dev/null 2>&1 || { echo "set-up failed: fresh filesystem not clean"; exit 2; }
	"$T/debugfs/debugfs" -w -R "$3" $d/img >/dev/null 2>&1
	"$T/e2fsck/e2fsck" -fy $d/img > $d/out1 2>&1; rc1=$?
	grep -q "$5" $d/out1 || { echo "set-up failed: e2fsck did not re-create the directory"; cat $d/out1; exit 2; }
	"$T/e2fsck/e2fsck" -fn $d/img > $d/out2 2>&1; rc2=$?
	fl=$("$T/debugfs/debugfs" -R "stat $4" $d/img 2>/dev/null | sed -n 's/.*Flags: \(0x[0-9a-f]*\).*/\1/p')
	echo "$1: e2fsck -fy exit $rc1, following e2fsck -fn exit $rc2; re-created inode $4 has i_flags $fl"
	if [ $rc1 -gt 1 ]; then echo "   (first run did not claim success)"; return; fi
	if [ $rc2 -ne 0 ]; then
		grep -i "cannot be block mapped\|Fix?" $d/out2 | sed 's/^/   /'
		bad=1
	fi
}

scenario "bigalloc, lost+found removed" "-O bigalloc -C 16384" "rmdir lost+found" "<11>" "lost+found not found"
scenario "bigalloc, root inode cleared" "-O bigalloc -C 16384" "clri <2>" "<2>" "Root inode not allocated"
scenario "ext4 (extents, no bigalloc), lost+found removed" "" "rmdir lost+found" "<11>" "lost+found not found"
scenario "ext4 (extents, no bigalloc), root inode cleared" "" "clri <2>" "<2>" "Root inode not allocated"
scenario "ext3 (no extents), lost+found removed" "-O ^extents,^64bit,^flex_bg,^huge_file,^dir_nlink,^extra_isize,^metadata_csum" "rmdir lost+found" "<11>" "lost+found not found"

if [ $bad -ne 0 ]; then
	echo "DEFECT PRESENT: a directory re-created by pass 3 is block mapped on a bigalloc filesystem; the next e2fsck run reports it"
	exit 1
fi
echo "every second run is clean"
exit 0
