#!/bin/sh
# C20 finding: with 1 KiB blocks + bigalloc, ext2fs_descriptor_block_loc2() applied its "block 0 is reserved"
# adjustment for descriptor-block INDEX 0 instead of for GROUP 0.  Failed obligations of unit
# geometry/desc_loc_agreement_1k_bigalloc: agree.assertion.4/.5/.7 (reader location != writer location).
#   case 1 (end to end): meta_bg + 1 KiB + bigalloc, primary unusable -> e2fsck -b <backup of group 1> reads the
#           first descriptor block one block too far and cannot proceed.
#   case 2 (library): reader location for old-style descriptor block 1 of the primary != where ext2fs_flush2 writes it.
# usage: demo.sh [built e2fsprogs tree, default /repo]; exit 0 = backups usable / locations agree, 1 = defect present
T=${1:-/repo}
d=$(mktemp -d); trap 'rm -rf $d' EXIT
bad=0
$T/misc/mke2fs -q -F -t ext4 -b 1024 -O bigalloc,meta_bg,^resize_inode -C 16384 $d/a.img 400M >/dev/null 2>&1 || exit 2
out=$($T/e2fsck/e2fsck -fn -b 131072 -B 1024 $d/a.img 2>&1)
if echo "$out" | grep -q "Pass 5"; then echo "case 1: e2fsck -b 131072 reaches pass 5 (descriptors found)"; else
	echo "case 1: e2fsck -b 131072 cannot use the backup descriptors:"; echo "$out" | grep -v '^$' | head -4; bad=1; fi
$T/misc/mke2fs -q -F -t ext4 -b 1024 -O bigalloc,^resize_inode -C 2048 $d/b.img 300M >/dev/null 2>&1 || exit 2
gcc -I$T/lib -o $d/demo $(dirname $0)/demo.c $T/lib/libext2fs.a $T/lib/libcom_err.a -lpthread || exit 2
$d/demo $d/b.img || bad=1
exit $bad
