#include <stdio.h>
#include "ext2fs/ext2_fs.h"
#include "ext2fs/ext2fs.h"
int main(int argc, char **argv)
{
	ext2_filsys fs; blk64_t sup, old, new; unsigned int i; int bad = 0;
	if (ext2fs_open(argv[1], EXT2_FLAG_64BITS, 0, 0, unix_io_manager, &fs)) return 2;
	ext2fs_super_and_bgd_loc2(fs, 0, &sup, &old, &new, 0);
	for (i = 0; i < fs->desc_blocks; i++) {
		blk64_t rd = ext2fs_descriptor_block_loc2(fs, fs->super->s_first_data_block, i);
		printf("case 2: descriptor block %u: writer (ext2fs_flush2) at %llu, reader (ext2fs_descriptor_block_loc2) at %llu%s\n",
		       i, (unsigned long long)(old + i), (unsigned long long)rd, rd == old + i ? "" : "   MISMATCH");
		if (rd != old + i) bad = 1;
	}
	ext2fs_close(fs);
	return bad;
}
