/*
 * Replay against the real library of the C17 finding "switching the unix_io cache off leaves its entries valid"
 * (failed obligations unix_write_blk64.postcondition.1 of unit unixio/unix_write_blk64_nocache:
 *  "after a successful write a read of L* returns the byte just written").
 *
 * lib/ext2fs/unix_io.c: unix_set_option("cache", "off") writes the dirty blocks back (flush_cached_blocks(channel, data, 0))
 * but does not invalidate the entries; while IO_FLAG_NOCACHE is set unix_write_blk64 goes straight to the device without
 * looking at the cache; "cache=on" makes the old entries visible again.  A block written while the cache was off then
 * reads back with the data it had BEFORE that write.
 *
 * Public io_manager API only, scratch file.  Exit 0 = coherent, 1 = stale read, 2 = set-up problem.
 */
#include <stdio.h>
#include <stdlib.h>
#include <string.h>
#include <unistd.h>
#include "ext2fs/ext2fs.h"

#define BS 1024
static char buf[BS], got[BS];

int main(void)
{
	io_channel ch;
	char name[] = "/tmp/verif_c17n_XXXXXX";
	int fd = mkstemp(name);

	if (fd < 0 || ftruncate(fd, 64 * BS)) return 2;
	close(fd);
	if (unix_io_manager->open(name, IO_FLAG_RW, &ch)) return 2;
	io_channel_set_blksize(ch, BS);

	memset(buf, 0x11, BS);
	if (io_channel_write_blk64(ch, 5, 1, buf)) return 2;		/* block 5 = 0x11, in the cache */
	if (io_channel_set_options(ch, "cache=off")) return 2;		/* written back, entry stays valid */
	memset(buf, 0x22, BS);
	if (io_channel_write_blk64(ch, 5, 1, buf)) return 2;		/* block 5 = 0x22, straight to the device */
	if (io_channel_set_options(ch, "cache=on")) return 2;
	memset(got, 0x55, BS);
	if (io_channel_read_blk64(ch, 5, 1, got)) return 2;
	io_channel_close(ch);
	unlink(name);
	if ((unsigned char)got[10] != 0x22) {
		printf("STALE READ: block 5 reads 0x%02x, most recently written 0x22 (written while the cache was switched off)\n",
		       (unsigned char)got[10]);
		return 1;
	}
	printf("block 5 reads back the data most recently written\n");
	return 0;
}
