#!/bin/sh
# C15 finding (storage leaked): setting an attribute whose value needs an EA inode on a file system that runs out of
# space half-way.  xattr_create_ea_inode() returns the error of ext2fs_file_write() but leaves the blocks already
# allocated to the half-written value inode marked in use (the inode itself was never marked in use, so nothing
# references them): the free space of the file system is gone until e2fsck is run.  (The result of ext2fs_file_close(),
# i.e. of the flush of the last block, is ignored as well.)
# usage: demo.sh [built e2fsprogs tree, default /repo]
# exit 0 = the failed ext2fs_xattr_set leaves a consistent file system (defect absent), 1 = blocks leaked, 2 = setup problem
T=${1:-/repo}
d=$(mktemp -d); trap 'rm -rf $d' EXIT
gcc -g -DHAVE_CONFIG_H -I$T/lib -I$T/lib/ext2fs -I$T/include -I$T \
    -o $d/demo $(dirname $0)/demo.c $T/lib/libext2fs.a $T/lib/libcom_err.a -lpthread 2>$d/cc.log || { cat $d/cc.log; exit 2; }
truncate -s 60k $d/img
# The last block of the file system is withheld (bad-block list): lib/ext2fs/punch.c punch_extent_blocks() refuses an
# extent that ends exactly at the end of the file system ("free_start + free_count >= blocks_count", an independent
# off-by-one outside this finding, repaired in /repo by "fix: punch: an extent ending at the last block ..."), which on
# a tree without that repair keeps ANY release of a file that owns the very last block from working.
echo 59 > $d/bb
$T/misc/mke2fs -q -F -t ext4 -b 1024 -I 256 -l $d/bb -O ea_inode,^has_journal,^resize_inode -m 0 $d/img 60 >/dev/null 2>&1 || exit 2
echo hello > $d/f
$T/debugfs/debugfs -w -R "write $d/f f" $d/img >/dev/null 2>&1 || exit 2
$T/e2fsck/e2fsck -fn $d/img >/dev/null 2>&1 || { echo "fresh image not clean"; exit 2; }
echo "60-block file system, 36 blocks free; setting a 60000-byte value (needs 59 blocks):"
$d/demo $d/img 60000
rc=$?
[ $rc = 1 ] || { echo "expected the set operation to fail for lack of space (rc=$rc)"; exit 2; }
$T/e2fsck/e2fsck -fn $d/img > $d/fsck.out 2>&1
frc=$?
grep -v "^Pass\|^e2fsck\|^$" $d/fsck.out | head -8
if [ $frc != 0 ]; then
	echo "DEFECT PRESENT: the failed ext2fs_xattr_set left allocated blocks nobody owns (e2fsck -fn exit $frc)"; exit 1
fi
echo "the failed operation released everything again: defect absent"; exit 0
