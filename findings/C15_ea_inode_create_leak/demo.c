/*
 * C15 finding: xattr_create_ea_inode() (lib/ext2fs/ext_attr.c) does not release the value inode when writing the
 * value fails.  Sets user.big (argv[2] bytes) on inode 12 of the image argv[1] through the public API and prints the
 * result; the caller (demo.sh) then lets e2fsck judge the file system.
 */
#include "config.h"
#include <stdio.h>
#include <stdlib.h>
#include <string.h>
#include "ext2fs/ext2fs.h"
int main(int argc, char **argv)
{
	ext2_filsys fs; struct ext2_xattr_handle *h; errcode_t e;
	size_t len = atoi(argv[2]), i; unsigned char *val = malloc(len + 1);
	for (i = 0; i < len; i++) val[i] = (i * 7 + 3) % 251;
	e = ext2fs_open(argv[1], EXT2_FLAG_RW | EXT2_FLAG_64BITS, 0, 0, unix_io_manager, &fs);
	if (e) { com_err("open", e, 0); return 2; }
	if ((e = ext2fs_read_bitmaps(fs)) || (e = ext2fs_xattrs_open(fs, 12, &h)) || (e = ext2fs_xattrs_read(h))) { com_err("setup", e, 0); return 2; }
	e = ext2fs_xattr_set(h, "user.big", val, len);
	printf("ext2fs_xattr_set(user.big, %zu bytes) -> %ld (%s)\n", len, (long)e, e ? error_message(e) : "ok");
	ext2fs_xattrs_close(&h);
	ext2fs_close(fs);
	return e ? 1 : 0;
}
