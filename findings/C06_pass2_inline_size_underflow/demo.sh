#!/bin/sh
# usage: demo.sh [built e2fsprogs tree, default /repo]
# exit 1 = defect present (valgrind: invalid heap write in memset below check_dir_block), 0 = absent, 2 = cannot run
#
# e2fsck/pass2.c:check_dir_block, inline-data directory:
#       memset(buf, 0, fs->blocksize - inline_data_size);
#       cd->pctx.errcode = ext2fs_inline_data_get(fs, ino, 0, buf, 0);
# inline_data_size = 60 + size of the EA "system.data" (ext2fs_inline_data_size) is never compared with the block size.
# ext2fs_xattr_get also finds a "system.data" that sits in the EA BLOCK, whose value can be blocksize - 56 bytes long:
# 60 + 968 = 1028 > 1024, the size_t difference wraps and memset clears ~2^64 bytes (SIGSEGV natively) - under e2fsck -n.
T=${1:-/repo}
command -v valgrind >/dev/null 2>&1 || { echo "valgrind not available"; exit 2; }
for p in misc/mke2fs debugfs/debugfs e2fsck/e2fsck; do [ -x "$T/$p" ] || { echo "missing $T/$p"; exit 2; }; done
d=$(mktemp -d); trap 'rm -rf $d' EXIT
sh $(dirname $0)/mkimg.sh "$T" $d/img || exit 2
timeout 120 valgrind -q "$T/e2fsck/e2fsck" -fn $d/img > $d/out 2>&1
if grep -q "Invalid write" $d/out && grep -q "check_dir_block" $d/out; then
	grep -m1 -A3 "Invalid write" $d/out
	echo "DEFECT PRESENT: e2fsck -fn: memset(buf, 0, blocksize - inline_data_size) with inline_data_size = 1028 > 1024"
	exit 1
fi
grep -v "^$" $d/out | tail -4
echo "no invalid write"
exit 0
