#!/bin/sh
# usage: demo.sh [built e2fsprogs tree, default /repo]
# exit 1 = defect present (valgrind: invalid read/write in ext2fs_icount_*), 0 = absent, 2 = cannot run
#
# lib/ext2fs/icount.c:alloc_icount allocates the "full map" of link counts (e2fsck -E inode_count_fullmap, or
# [options] inode_count_fullmap in e2fsck.conf) with
#       unsigned sz = sizeof(*icount->fullmap) * icount->num_inodes;          /* num_inodes entries: indices 0 .. N-1 */
# but every user indexes it with the inode NUMBER, and inode numbers run from 1 to N = s_inodes_count inclusive
# (ext2fs_icount_fetch / _increment / _decrement / _store all accept ino == num_inodes):
#       icount->fullmap[ino]                                                   /* ino == N: one entry past the end */
# So the link count of the LAST inode of the filesystem lives in the 2 bytes behind the array: pass 1 stores it there,
# pass 2 increments it there, pass 4 compares what it reads back from there with i_links_count (C02: "link counts equal
# the number of directory references" is decided on memory the allocator may hand to somebody else).
# (sz is also a 32-bit 'unsigned': for s_inodes_count >= 2^31 it wraps and the array is far too small.)
#
# Image: 64 inodes, every inode in use, so inode 64 has a directory entry.
T=${1:-/repo}
command -v valgrind >/dev/null 2>&1 || { echo "valgrind not available"; exit 2; }
for p in misc/mke2fs debugfs/debugfs e2fsck/e2fsck; do [ -x "$T/$p" ] || { echo "missing $T/$p"; exit 2; }; done
d=$(mktemp -d); trap 'rm -rf $d' EXIT
dd if=/dev/zero of=$d/img bs=1k count=4096 2>/dev/null
"$T/misc/mke2fs" -q -F -t ext4 -N 64 $d/img || exit 2
n=$("$T/debugfs/debugfs" -R stats $d/img 2>/dev/null | awk '/^Inode count:/{print $3}')
[ "$n" = 64 ] || { echo "unexpected inode count $n"; exit 2; }
echo hi > $d/f.txt
for i in $(seq 12 64); do echo "write $d/f.txt f$i"; done > $d/cmds
"$T/debugfs/debugfs" -w -f $d/cmds $d/img >/dev/null 2>&1
"$T/debugfs/debugfs" -R "ls -l /" $d/img 2>/dev/null | grep -q "^ *64 " || { echo "inode 64 not in use"; exit 2; }
valgrind -q --error-exitcode=99 "$T/e2fsck/e2fsck" -fn -E inode_count_fullmap $d/img > $d/out 2>&1
rc=$?
grep -B1 -A3 "Invalid \(read\|write\)" $d/out | head -12
grep "bytes after a block of size" $d/out | head -1
if [ $rc -eq 99 ] && grep -q "ext2fs_icount_\(increment\|store\|fetch\)\|get_inode_count\|set_inode_count" $d/out; then
	echo "DEFECT PRESENT: the link count of the last inode is kept one entry past the end of icount->fullmap"
	exit 1
fi
grep -q "Pass 4" $d/out || { echo "e2fsck did not run"; head $d/out; exit 2; }
echo "no invalid access"
exit 0
