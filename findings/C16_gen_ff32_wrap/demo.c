/*
 * C16 observation: ext2fs_find_first_zero_generic_bitmap() / ext2fs_find_first_set_generic_bitmap()
 * (lib/ext2fs/gen_bitmap.c, legacy 32-bit bitmaps) scan with `while (start <= end) { ...; start++; }` on 32-bit
 * counters.  For a bitmap that ends at number 2^32 - 1 (legal: s_inodes_count may be 2^32 - 1 and the inode bitmap
 * covers [1, s_inodes_count]) and a range without a hit, `start++` wraps to 0, `0 <= end` still holds and the scan
 * continues below the bitmap's start: it reads outside the range (bit index start - bitmap->start wraps, too) and
 * either reports a number outside [start, end] or never terminates.  A set answers ENOENT.
 * The units bitmap_gen/gen32_ffz and gen32_ffs carry the assumption "bitmap end < 2^32 - 1" for this reason.
 * Small instance: numbers [0xFFFFFFF0, 0xFFFFFFFF], all 16 members, find_first_zero over the whole range.
 * Exit 0 = answers ENOENT, 1 = defect present.
 */
#include <stdio.h>
#include <errno.h>
#include "ext2fs/ext2fs.h"

int main(void)
{
	ext2fs_generic_bitmap bm;
	__u32 i, out = 12345;
	errcode_t r;

	if (ext2fs_allocate_generic_bitmap(0xFFFFFFF0U, 0xFFFFFFFFU, 0xFFFFFFFFU, "top", &bm))
		return 2;
	for (i = 0; i < 16; i++)
		ext2fs_mark_generic_bitmap(bm, 0xFFFFFFF0U + i);
	r = ext2fs_find_first_zero_generic_bitmap(bm, 0xFFFFFFF0U, 0xFFFFFFFFU, &out);
	printf("full bitmap over [0xFFFFFFF0, 0xFFFFFFFF], find_first_zero: ret=%ld out=%u   (a set answers ret=ENOENT=%d, out untouched)\n",
	       (long)r, out, ENOENT);
	ext2fs_free_generic_bitmap(bm);
	if (r != ENOENT) {
		printf("DEFECT PRESENT\n");
		return 1;
	}
	return 0;
}
