#!/bin/sh
# usage: demo.sh [built e2fsprogs tree, default /repo]; exit 1 = UBSan reports the signed overflow, 0 = clean, 2 = cannot build
# lib/e2p/ljs.c:e2p_list_journal_super keeps `s_maxlen - s_num_fc_blks` and s_num_fc_blks (raw big-endian words of the
# journal superblock) in `int`s and prints their sum: INT_MIN + INT_MIN for s_maxlen = 0, s_num_fc_blks = 0x80000000.
# (dumpe2fs -h / debugfs logdump -S / e2fsck print a journal superblock through this function.)
T=${1:-/repo}
d=$(mktemp -d); trap 'rm -rf $d' EXIT
gcc -g -fsanitize=undefined -fno-sanitize-recover=undefined -DHAVE_CONFIG_H -I$T/lib -I$T/lib/ext2fs -I$T/include -I$T \
    -o $d/demo $(dirname $0)/demo.c $T/lib/e2p/ljs.c $T/lib/libe2p.a $T/lib/libext2fs.a $T/lib/libcom_err.a -lpthread 2> $d/cc.log || { cat $d/cc.log | head; exit 2; }
$d/demo > $d/out 2>&1
rc=$?
grep -i "runtime error" $d/out | head -3
if [ $rc -ne 0 ] && grep -q "signed integer overflow" $d/out; then
	echo "DEFECT PRESENT: signed integer overflow in e2p_list_journal_super"
	exit 1
fi
echo "no UBSan report"
exit 0
