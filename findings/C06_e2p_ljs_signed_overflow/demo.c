/* journal superblock with s_maxlen = 0 and s_num_fc_blks = 0x80000000, printed the way dumpe2fs does for a file system with
 * the fast_commit feature (E2P_LIST_JOURNAL_FLAG_FC) */
#include <stdio.h>
#include <string.h>
#include "ext2fs/ext2_fs.h"
#include "ext2fs/ext2fs.h"
#include "e2p/e2p.h"
#include "ext2fs/kernel-jbd.h"
int main(void)
{
	static char buf[1024];
	journal_superblock_t *jsb = (journal_superblock_t *) buf;
	memset(buf, 0, sizeof(buf));
	jsb->s_header.h_magic = ext2fs_cpu_to_be32(JBD2_MAGIC_NUMBER);
	jsb->s_header.h_blocktype = ext2fs_cpu_to_be32(JBD2_SUPERBLOCK_V2);
	jsb->s_blocksize = ext2fs_cpu_to_be32(1024);
	jsb->s_maxlen = 0;
	jsb->s_num_fc_blks = ext2fs_cpu_to_be32(0x80000000u);
	e2p_list_journal_super(stdout, buf, 1024, E2P_LIST_JOURNAL_FLAG_FC);
	return 0;
}
