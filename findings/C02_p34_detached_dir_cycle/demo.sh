#!/bin/sh
# usage: demo.sh [built e2fsprogs tree, default /repo]
# exit 1 = defect present (e2fsck -fn exits 0 on a directory cycle that is not connected to the root), 0 = absent,
# 2 = set-up problem.
#
# e2fsck/pass3.c:check_directory walks dirinfo.parent upwards and marks every inode it visits in inode_done_map; the walk
# stops silently at the first inode that is ALREADY marked ("we've reached a parent we've already checked").  An inode
# the walk marked ITSELF also stops it: two directories a (12) and b (13) with a/b and b/c -> a, '..' of a -> b, and no
# entry for a in the root, form a cycle 12 -> 13 -> 12 that no path from the root reaches.  The walk from 12 marks 12, 13,
# comes back to 12 and ends.  The loop-detection pass (parent_count > 2048) can never run: its restart `ino = dir` hits
# the mark set in the first step.  Pass 2 and pass 4 are satisfied (every directory has exactly one parent entry, the
# link counts agree), so e2fsck -fn reports a clean filesystem although two in-use inodes are unreachable (property C02).
T=${1:-/repo}
d=$(mktemp -d); trap 'rm -rf $d' EXIT
$T/misc/mke2fs -q -F -t ext4 -O ^has_journal $d/img 4M >/dev/null 2>&1 || exit 2
$T/debugfs/debugfs -w $d/img -R "mkdir a" >/dev/null 2>&1 || exit 2
$T/debugfs/debugfs -w $d/img -R "mkdir a/b" >/dev/null 2>&1 || exit 2
# sanity: a = inode 12, b = inode 13
$T/debugfs/debugfs $d/img -R "ls -l a" 2>/dev/null | grep -q "^ *13 .* b *$" || { echo "unexpected inode numbers"; exit 2; }
$T/debugfs/debugfs -w $d/img -f - >/dev/null 2>&1 <<EOS
link <12> <13>/c
unlink a
unlink <12>/..
link <13> <12>/..
sif <2> links_count 3
sif <13> links_count 3
EOS
$T/e2fsck/e2fsck -fn $d/img > $d/out 2>&1; rc=$?
# independent oracle: is inode 12 reachable from the root?  (walk the tree with debugfs)
reach=$($T/debugfs/debugfs $d/img -R "ls -p /" 2>/dev/null | awk -F/ '$2 == 12 {print "yes"}')
if [ "$reach" = "yes" ]; then echo "set-up failed: directory 12 still linked from the root"; exit 2; fi
$T/debugfs/debugfs $d/img -R "stat <12>" 2>/dev/null | grep -q "Type: directory" || { echo "inode 12 not a directory"; exit 2; }
if [ $rc -eq 0 ]; then
	echo "DEFECT: directories 12 <-> 13 form a cycle that is not connected to the root, e2fsck -fn exits 0:"
	sed 's/^/  /' $d/out
	exit 1
fi
echo "cycle reported (e2fsck -fn exit $rc):"; grep -i "loop\|unconnected" $d/out | sed 's/^/  /'
# with a repairing run the result must check clean (C01)
$T/e2fsck/e2fsck -fy $d/img > $d/out1 2>&1; r1=$?
$T/e2fsck/e2fsck -fn $d/img > $d/out2 2>&1; r2=$?
if [ $r2 -ne 0 ]; then echo "repair does not converge (exit $r1 then $r2):"; sed 's/^/  /' $d/out2; exit 1; fi
echo "repaired in one run (exit $r1), second run clean"
exit 0
