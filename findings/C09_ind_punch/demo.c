/*
 * C09 finding in lib/ext2fs/punch.c:ind_punch — the recursive call passes `count - offset` as the child's count.
 * The child's range is [max(start-offset,0), start+count-offset), i.e. its count is `count` when start > offset and
 * `start + count - offset` otherwise.  `count - offset` is too small by `start` (frees too little) or wraps around
 * when offset > count (frees everything to the end of that indirect block: data loss).
 * Replayed through the PUBLIC API (ext2fs_file_write, ext2fs_punch, ext2fs_bmap2) on a block-mapped (ext2) image
 * with 1 KiB blocks: a 1000-block file, hole punches, and a model "block L is unmapped iff it was punched".
 * exit 0 = mapping as the model says, 1 = too little / too much freed, 2 = setup problem.
 */
#include <stdio.h>
#include <stdlib.h>
#include <string.h>
#include "ext2fs/ext2_fs.h"
#include "ext2fs/ext2fs.h"

#define NBLK 1000
static ext2_filsys fs;
static int bad;

static ext2_ino_t make_file(void)
{
	ext2_ino_t ino;
	struct ext2_inode inode;
	ext2_file_t f;
	char blk[1024];
	unsigned int w;
	int i;
	if (ext2fs_new_inode(fs, EXT2_ROOT_INO, 0100644, 0, &ino)) exit(2);
	memset(&inode, 0, sizeof(inode));
	inode.i_mode = LINUX_S_IFREG | 0644;
	inode.i_links_count = 1;
	if (ext2fs_write_new_inode(fs, ino, &inode)) exit(2);
	ext2fs_inode_alloc_stats2(fs, ino, +1, 0);
	if (ext2fs_file_open(fs, ino, EXT2_FILE_WRITE, &f)) exit(2);
	for (i = 0; i < NBLK; i++) {
		memset(blk, 'a' + i % 26, sizeof(blk));
		if (ext2fs_file_write(f, blk, sizeof(blk), &w) || w != sizeof(blk)) exit(2);
	}
	if (ext2fs_file_close(f)) exit(2);
	return ino;
}

static void punch_and_check(unsigned long long start, unsigned long long end)
{
	ext2_ino_t ino = make_file();
	struct ext2_inode inode;
	unsigned long long l, too_much = 0, too_little = 0, first_tm = 0, first_tl = 0;
	blk64_t p;
	errcode_t r;

	if (ext2fs_read_inode(fs, ino, &inode)) exit(2);
	if (inode.i_flags & EXT4_EXTENTS_FL) { printf("file is extent mapped\n"); exit(2); }
	r = ext2fs_punch(fs, ino, &inode, 0, start, end);
	if (ext2fs_read_inode(fs, ino, &inode)) exit(2);
	for (l = 0; l < NBLK; l++) {
		int punched = l >= start && l <= end;
		if (ext2fs_bmap2(fs, ino, &inode, 0, 0, l, 0, &p)) exit(2);
		if (punched && p != 0) { if (!too_little++) first_tl = l; }
		if (!punched && p == 0) { if (!too_much++) first_tm = l; }
	}
	printf("punch [%llu, %llu] ret=%ld: %llu blocks inside the range still mapped (first %llu), "
	       "%llu blocks OUTSIDE the range lost (first %llu)\n", start, end, (long)r,
	       too_little, first_tl, too_much, first_tm);
	if (too_little || too_much) bad = 1;
}

int main(int argc, char **argv)
{
	if (argc < 2) return 2;
	if (ext2fs_open(argv[1], EXT2_FLAG_RW, 0, 0, unix_io_manager, &fs)) { printf("cannot open %s\n", argv[1]); return 2; }
	if (ext2fs_read_bitmaps(fs)) return 2;
	/* 12 direct, 256 per indirect block: the double-indirect tree starts at 268, its 2nd leaf at 524 */
	punch_and_check(5, 8);		/* direct blocks only: fine */
	punch_and_check(20, 29);	/* inside the single indirect block: fine */
	punch_and_check(530, 539);	/* 10 blocks inside the 2nd leaf of the dind tree: count - offset wraps -> 530..779 freed */
	punch_and_check(368, 867);	/* across leaves: too little in leaf 2 (500 - 256 instead of 344), too much in leaf 3 */
	ext2fs_close(fs);
	puts(bad ? "RESULT: hole punching in a block-mapped file frees the wrong blocks" : "RESULT: ok");
	return bad;
}
