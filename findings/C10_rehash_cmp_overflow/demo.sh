#!/bin/sh
# usage: demo.sh [built e2fsprogs tree, default /repo]; exit 0 = comparators are orders, 1 = defect present
T=${1:-/repo}
L=$T; [ -f $T/lib/libext2fs.a ] || L=/repo	# scratch worktrees have no built libraries; only rehash.c matters
d=$(mktemp -d); trap 'rm -rf $d' EXIT
gcc -w -no-pie -DHAVE_CONFIG_H -I$T -I$T/lib -I$T/lib/ext2fs -I$T/include -I$T/e2fsck -I$T/lib/support \
    -Wl,--unresolved-symbols=ignore-all -o $d/demo $(dirname $0)/demo.c $L/lib/libext2fs.a $L/lib/libcom_err.a -lpthread || exit 2
$d/demo
