/*
 * Native replay of the C05/C10 finding "the e2fsck -D sort comparators are not orders for inode numbers that differ
 * by 2^31 or more" (failed obligations ino_cmp.postcondition.1 of unit dirs/ino_cmp_order_full, ANTISYM/TRANS of
 * dirs/ino_cmp_lemmas_full, name_cmp.postcondition.1 of dirs/name_cmp_order_full).
 *
 * e2fsck/rehash.c:
 *     ino_cmp():   return (he_a->ino - he_b->ino);                       // __u32 difference converted to int
 *     name_cmp():  ret = he_b->dir->inode - he_a->dir->inode;            // tie-break of equal names, same pattern
 * For a difference of exactly 2^31 both cmp(a,b) and cmp(b,a) are INT_MIN (both "less"); for larger differences the
 * sign is inverted, so the relation is neither antisymmetric nor transitive.  qsort() with such a comparator has
 * undefined behaviour (C11 7.22.5 p4); with glibc the observable effect is that a compressed (non-indexed) directory
 * rebuilt by `e2fsck -fD` on a filesystem with more than 2^31 inodes is not in inode order.
 *
 * The real rehash.c of the tree is compiled into this program (static functions); exit 1 = defect present.
 */
#include "e2fsck/rehash.c"

#define SGN(x) (((x) > 0) - ((x) < 0))

int main(void)
{
	int bad = 0;
	struct hash_entry a, b, c, arr[4];
	struct ext2_dir_entry da, db;
	int ab, ba, bc, ac, i;

	memset(&a, 0, sizeof(a)); memset(&b, 0, sizeof(b)); memset(&c, 0, sizeof(c));
	a.ino = 1; b.ino = 0x80000001u;
	ab = ino_cmp(&a, &b); ba = ino_cmp(&b, &a);
	printf("ino_cmp(1, 0x80000001) = %d, ino_cmp(0x80000001, 1) = %d   (antisymmetry needs opposite signs)\n", ab, ba);
	if (SGN(ab) != -SGN(ba) || ab >= 0)
		bad = 1;

	a.ino = 1; b.ino = 0x70000000u; c.ino = 0xF0000000u;
	ab = ino_cmp(&a, &b); bc = ino_cmp(&b, &c); ac = ino_cmp(&a, &c);
	printf("ino_cmp: 1 vs 0x70000000 -> %d, 0x70000000 vs 0xF0000000 -> %d, 1 vs 0xF0000000 -> %d   (transitivity needs the last < 0)\n",
	       SGN(ab), SGN(bc), SGN(ac));
	if (ab < 0 && bc < 0 && !(ac < 0))
		bad = 1;

	memset(arr, 0, sizeof(arr));
	arr[0].ino = 0xF0000000u; arr[1].ino = 1; arr[2].ino = 0x70000000u; arr[3].ino = 0x80000002u;
	qsort(arr, 4, sizeof(arr[0]), ino_cmp);
	printf("qsort by ino_cmp:");
	for (i = 0; i < 4; i++)
		printf(" %#x", arr[i].ino);
	printf("\n");
	for (i = 0; i + 1 < 4; i++)
		if (arr[i].ino > arr[i + 1].ino)
			bad = 1;

	memset(&da, 0, sizeof(da)); memset(&db, 0, sizeof(db));
	da.inode = 1; db.inode = 0x80000001u;
	da.name_len = db.name_len = 3; da.rec_len = db.rec_len = 12;
	memcpy(da.name, "dup", 3); memcpy(db.name, "dup", 3);
	a.dir = &da; b.dir = &db;
	ab = name_cmp(&a, &b); ba = name_cmp(&b, &a);
	printf("name_cmp(\"dup\"/1, \"dup\"/0x80000001) = %d, reversed = %d\n", ab, ba);
	if (SGN(ab) != -SGN(ba))
		bad = 1;

	printf(bad ? "DEFECT PRESENT: comparators are not orders for inode numbers >= 2^31 apart\n" : "comparators behave as orders\n");
	return bad;
}
