/*
 * C16 finding: ba_resize_bmap() (lib/ext2fs/blkmap64_ba.c, bit-array back end of the 64-bit bitmaps) resurrects
 * members.  Shrinking a bitmap (new_real_end < real_end) keeps the last byte that still holds a valid position and
 * leaves its bits beyond the new real_end as they were.  A later grow clears only the positions in (end, real_end]
 * and zeroes only whole NEW bytes ("make sure all of the new parts of the bitmap are zero"), so a position that was a
 * member before the shrink is a member again after the grow, although as a set it was removed by the shrink and the
 * grow may only add non-members.  The rbtree back end answers like a set (rb_resize_bmap truncates the tree).
 * Failed obligation: unit bitmap_ba/ba_resize_bmap_wf, "bits of the last byte beyond the new real_end are clear
 * (well-formedness re-established)" — the representation invariant that the grow step of the same function (unit
 * bitmap_ba/ba_resize_bmap, green) relies on.
 * Reach: needs real_end - start + 1 not a multiple of 8 after the shrink; the file-system bitmaps of the tools are
 * sized in whole groups (multiples of 8), so this is an API-level defect (libext2fs users, tst_bitmaps), latent in
 * e2fsck / resize2fs.
 * Exit 0 = behaves as a set, 1 = defect present.
 */
#include <stdio.h>
#include "ext2fs/ext2fs.h"

static int run(int type, const char *name, __u64 start, __u64 m, __u64 small, __u64 big)
{
	ext2fs_generic_bitmap bm;
	int before, after;

	if (ext2fs_alloc_generic_bmap(0, EXT2_ET_MAGIC_GENERIC_BITMAP64, type, start, big, big, name, &bm))
		return 2;
	ext2fs_mark_generic_bmap(bm, m);
	before = ext2fs_test_generic_bmap(bm, m) != 0;
	if (ext2fs_resize_generic_bmap(bm, small, small) ||	/* shrink: m is no longer a position of the set */
	    ext2fs_resize_generic_bmap(bm, big, big))		/* grow: every new position must be a non-member */
		return 2;
	after = ext2fs_test_generic_bmap(bm, m) != 0;
	printf("%-8s {%llu} over [%llu,%llu] -> resize [%llu,%llu] -> resize [%llu,%llu]: test(%llu) before=%d after=%d   (a set answers 0 after)\n",
	       name, (unsigned long long)m, (unsigned long long)start, (unsigned long long)big,
	       (unsigned long long)start, (unsigned long long)small, (unsigned long long)start, (unsigned long long)big,
	       (unsigned long long)m, before, after);
	ext2fs_free_generic_bmap(bm);
	return after;
}

int main(void)
{
	int ba1 = run(EXT2FS_BMAP64_BITARRAY, "bitarray", 0, 12, 9, 15);	/* stale bit in the last kept byte */
	int ba2 = run(EXT2FS_BMAP64_BITARRAY, "bitarray", 1, 30, 26, 100);	/* start 1 (inode-bitmap style), grows by whole bytes */
	int rb = run(EXT2FS_BMAP64_RBTREE, "rbtree", 0, 12, 9, 15);

	if (ba1 == 2 || ba2 == 2 || rb == 2) {
		printf("setup failed\n");
		return 2;
	}
	if (rb)
		printf("note: the rbtree back end deviates as well\n");
	if (ba1 || ba2) {
		printf("DEFECT PRESENT: the bit-array back end resurrects a member removed by the shrink\n");
		return 1;
	}
	printf("behaves as a set\n");
	return 0;
}
