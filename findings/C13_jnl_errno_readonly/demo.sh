#!/bin/sh
# C13 finding: "e2fsck -n" rewrites an EXTERNAL journal device whose journal superblock has s_errno != 0.
#  - e2fsck/journal.c:e2fsck_get_journal() opens the external journal with "int flags = IO_FLAG_RW"
#    unconditionally (so the device is opened O_RDWR although -n was given), and
#  - e2fsck/journal.c:e2fsck_check_ext3_journal() clears journal->j_superblock->s_errno and calls
#    mark_buffer_dirty(journal->j_sb_buffer) without looking at E2F_OPT_READONLY;
#    e2fsck_journal_release() -> brelse() then writes the dirty buffer to the journal device.
# (failed obligations of unit readonly/check_ext3_journal_ro: "read-only: journal superblock buffer dirtied",
#  "read-only: write to the journal device"; of unit readonly/get_journal_ro_open: "read-only: journal device opened
#  with IO_FLAG_RW").  With an INTERNAL journal the same write is attempted but bounces off the O_RDONLY fd
# ("Attempt to write block to filesystem resulted in short write" noise under -n).
# usage: demo.sh [built e2fsprogs tree, default /repo]
# exit 0 = both devices byte-identical after "e2fsck -fn", 1 = a device changed, 2 = set-up problem
T=${1:-/repo}
d=$(mktemp -d); trap 'rm -rf $d' EXIT
MKE2FS_CONFIG=/dev/null; export MKE2FS_CONFIG
dd if=/dev/zero of=$d/jdev bs=1k count=4096 2>/dev/null
dd if=/dev/zero of=$d/img bs=1k count=8192 2>/dev/null
U=1db3f677-6832-4adb-bafc-8e4059c30a34
# (mke2fs -J device= insists on a block special device; attach the journal the way tests/j_ext_long_trans does)
$T/misc/mke2fs -q -F -o Linux -b 1024 -O journal_dev -U $U $d/jdev 4096 >/dev/null 2>&1 || { echo "mke2fs journal_dev failed"; exit 2; }
$T/misc/mke2fs -q -F -o Linux -b 1024 -O ^has_journal $d/img 8192 >/dev/null 2>&1 || { echo "mke2fs failed"; exit 2; }
$T/debugfs/debugfs -w -f - $d/img >/dev/null 2>&1 <<E
feature has_journal
ssv journal_dev 0x9999
ssv journal_uuid $U
E
# first a read-write pass, so that everything else about the pair is consistent (registers the fs in the journal)
$T/e2fsck/e2fsck -fy -j $d/jdev $d/img >/dev/null 2>&1
$T/e2fsck/e2fsck -fy -j $d/jdev $d/img >/dev/null 2>&1 || { echo "set-up: pair not clean after e2fsck -fy"; exit 2; }
# The journal superblock of an external journal is the block after the ext2 superblock (block 2 with
# 1 KiB blocks, byte 2048); check the JBD2 magic 0xC03B3998 there, then set s_errno (be32 at +0x20) to 5 (EIO).
magic=$(dd if=$d/jdev bs=1 skip=2048 count=4 2>/dev/null | od -An -tx1 | tr -d ' \n')
[ "$magic" = "c03b3998" ] || { echo "journal superblock not found at byte 2048 (got $magic)"; exit 2; }
printf '\000\000\000\005' | dd of=$d/jdev bs=1 seek=$((2048 + 32)) conv=notrunc 2>/dev/null
jb=$(sha256sum < $d/jdev); ib=$(sha256sum < $d/img)
$T/e2fsck/e2fsck -fn -j $d/jdev $d/img > $d/out 2>&1; rc=$?
ja=$(sha256sum < $d/jdev); ia=$(sha256sum < $d/img)
echo "e2fsck -fn exit status $rc"
r=0
if [ "$jb" != "$ja" ]; then
	echo "JOURNAL DEVICE MODIFIED by e2fsck -n; s_errno bytes now:" \
	     $(dd if=$d/jdev bs=1 skip=$((2048 + 32)) count=4 2>/dev/null | od -An -tx1)
	r=1
else
	echo "journal device byte-identical"
fi
if [ "$ib" != "$ia" ]; then echo "FILESYSTEM IMAGE MODIFIED by e2fsck -n"; r=1; else echo "filesystem image byte-identical"; fi
exit $r
