#!/bin/sh
# Companion of demo.sh: the same path with an INTERNAL journal.  The device stays byte-identical (the filesystem is opened
# O_RDONLY), but `e2fsck -n` ATTEMPTS two writes:
#   1. the journal superblock with s_errno cleared (e2fsck_check_ext3_journal -> mark_buffer_dirty -> brelse):
#      "Error writing block N (Bad file descriptor)"
#   2. at close, ext2fs_close2 -> ext2fs_flush2 because the handle was marked EXT2_FLAG_DIRTY in memory
#      (ext2fs_flush2 has no EXT2_FLAG_RW test): "Error writing block 2 (Bad file descriptor)",
# and prints "***** FILE SYSTEM WAS MODIFIED *****" although nothing was (obs units readonly/flush2_ro_attempt,
# readonly/check_ext3_journal_ro "no write is attempted on the filesystem device").
# exit 0 = image unchanged and no write attempted; 1 = image changed (C13 violated); 3 = unchanged but writes attempted
T=${1:-/repo}
d=$(mktemp -d); trap 'rm -rf $d' EXIT
MKE2FS_CONFIG=/dev/null; export MKE2FS_CONFIG
dd if=/dev/zero of=$d/img bs=1k count=16384 2>/dev/null
$T/misc/mke2fs -q -F -o Linux -b 1024 -j $d/img 16384 >/dev/null 2>&1 || { echo "mke2fs failed"; exit 2; }
off=$(od -An -tx1 -v -w4 $d/img | awk '$0 == " c0 3b 39 98" { print (NR-1)*4; exit }')
[ -n "$off" ] || { echo "journal superblock not found"; exit 2; }
printf '\000\000\000\005' | dd of=$d/img bs=1 seek=$((off + 32)) conv=notrunc 2>/dev/null
b=$(sha256sum < $d/img)
$T/e2fsck/e2fsck -fn $d/img > $d/out 2>&1; rc=$?
a=$(sha256sum < $d/img)
echo "e2fsck -fn exit status $rc"
grep -E "Error writing|WAS MODIFIED" $d/out
[ "$a" = "$b" ] || { echo "IMAGE MODIFIED by e2fsck -n"; exit 1; }
echo "image byte-identical"
grep -q "Error writing" $d/out && exit 3
exit 0
