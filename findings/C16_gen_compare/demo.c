/*
 * C16 finding: ext2fs_compare_generic_bmap() (lib/ext2fs/gen_bitmap64.c, 64-bit bitmaps) overlooks differences.
 *   (1) the scan is `for (i = start; i < end; i++)`: the last element `end` of the range [start, end] is never
 *       compared, so two bitmaps that differ only there compare equal;
 *   (2) the scan passes i - a CLUSTER index, start/end are kept in cluster units - to ext2fs_test_generic_bmap(),
 *       which takes a BLOCK number and shifts it by cluster_bits: on a bigalloc block bitmap only the clusters
 *       start>>bits .. (end-1)>>bits are compared, differences in all other clusters are overlooked.
 * A set compares equal only if every element of the range agrees.
 * Failed obligations: unit bitmap_gen/gen64_compare, ext2fs_compare_generic_bmap.postcondition.1 and
 * cmp_body.assertion.1 ("compare: 0 only if same range and same membership at every cluster of [start, end]"),
 * plus loop_invariant_step / frame obligations of the scan for cluster_bits = 4.
 * Exit 0 = compare behaves as set equality, 1 = defect present.
 */
#include <stdio.h>
#include <string.h>
#include <errno.h>
#include "ext2fs/ext2fs.h"

static int last_element(int type, const char *name)
{
	ext2fs_generic_bitmap a, b;
	errcode_t r;

	if (ext2fs_alloc_generic_bmap(0, EXT2_ET_MAGIC_GENERIC_BITMAP64, type, 0, 99, 99, "a", &a) ||
	    ext2fs_alloc_generic_bmap(0, EXT2_ET_MAGIC_GENERIC_BITMAP64, type, 0, 99, 99, "b", &b))
		return 2;
	ext2fs_mark_generic_bmap(a, 99);	/* A = {99}, B = {} */
	r = ext2fs_compare_generic_bmap(EXT2_ET_NEQ_BLOCK_BITMAP, a, b);
	printf("%-8s A={99} B={} over [0,99]: compare=%ld   (set equality answers EXT2_ET_NEQ_BLOCK_BITMAP=%ld)\n",
	       name, (long)r, (long)EXT2_ET_NEQ_BLOCK_BITMAP);
	ext2fs_free_generic_bmap(a);
	ext2fs_free_generic_bmap(b);
	return r == 0;
}

static int bigalloc(int type, const char *name)
{
	struct struct_ext2_filsys fs;
	ext2fs_generic_bitmap a, b;
	errcode_t r;

	memset(&fs, 0, sizeof(fs));
	fs.cluster_ratio_bits = 4;		/* 16 blocks per cluster */
	/* block bitmap over clusters 0..99 (= blocks 0..1599), as ext2fs_allocate_block_bitmap() would create it */
	if (ext2fs_alloc_generic_bmap(&fs, EXT2_ET_MAGIC_BLOCK_BITMAP64, type, 0, 99, 99, "a", &a) ||
	    ext2fs_alloc_generic_bmap(&fs, EXT2_ET_MAGIC_BLOCK_BITMAP64, type, 0, 99, 99, "b", &b))
		return 2;
	ext2fs_mark_generic_bmap(a, 50 << 4);	/* A = {cluster 50}, B = {} */
	r = ext2fs_compare_generic_bmap(EXT2_ET_NEQ_BLOCK_BITMAP, a, b);
	printf("%-8s bigalloc(16) A={cluster 50} B={} over clusters [0,99]: compare=%ld   (set equality answers %ld)\n",
	       name, (long)r, (long)EXT2_ET_NEQ_BLOCK_BITMAP);
	ext2fs_free_generic_bmap(a);
	ext2fs_free_generic_bmap(b);
	return r == 0;
}

int main(void)
{
	int bad = 0;

	bad |= last_element(EXT2FS_BMAP64_BITARRAY, "bitarray");
	bad |= last_element(EXT2FS_BMAP64_RBTREE, "rbtree");
	bad |= bigalloc(EXT2FS_BMAP64_BITARRAY, "bitarray");
	bad |= bigalloc(EXT2FS_BMAP64_RBTREE, "rbtree");
	if (bad & 2) {
		printf("setup failed\n");
		return 2;
	}
	if (bad)
		printf("DEFECT PRESENT\n");
	return bad ? 1 : 0;
}
