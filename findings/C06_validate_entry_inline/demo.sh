#!/bin/sh
# usage: demo.sh [built e2fsprogs tree, default /repo]; exit 0 = no over-read, 1 = ASan heap-buffer-overflow
T=${1:-/repo}
d=$(mktemp -d); trap 'rm -rf $d' EXIT
gcc -g -fsanitize=address -fno-omit-frame-pointer -DHAVE_CONFIG_H -I$T/lib -I$T/lib/ext2fs -I$T/include -I$T \
    -o $d/demo $(dirname $0)/demo.c $T/lib/ext2fs/dir_iterate.c $T/lib/libext2fs.a $T/lib/libcom_err.a -lpthread || exit 2
ASAN_OPTIONS=exitcode=1 $d/demo > $d/out 2>&1
rc=$?
grep -v '^[[:space:]]*$' $d/out | head -16
exit $rc
