/*
 * Native replay of the C06 finding "ext2fs_validate_entry bounds its walk by fs->blocksize, not by the
 * length of the buffer it was given" (failed obligations ext2fs_get_rec_len.pointer_dereference.5
 * "pointer outside object bounds in dirent->rec_len" and ext2fs_dirent_name_len.pointer_dereference.5
 * of unit parsers/validate_entry_inline).
 *
 * Call shape: ext2fs_inline_data_dir_iterate() hands ext2fs_process_dir_block() the "system.data"
 * xattr value (heap buffer of exactly ea_size bytes, ctx->buflen = ea_size).  With
 * DIRENT_FLAG_INCLUDE_REMOVED (debugfs "ls -d", e2fsck -> no) the slack of every entry is scanned in
 * 4-byte steps by ext2fs_validate_entry(fs, buf, offset, final_offset); its loop guard is
 *     offset < final_offset && offset <= fs->blocksize - 12
 * so for final_offset == buflen the candidate at offset buflen-4 has its rec_len/name_len read at
 * buflen+0 .. buflen+3: a 4-byte read past the end of the heap buffer.  Any inline-data directory whose
 * last entry has slack (the normal case) triggers it.
 *
 * dir_iterate.c is compiled from the tree with -fsanitize=address; exit 1 + ASan report = defect present.
 */
#include "config.h"
#include <stdio.h>
#include <stdlib.h>
#include <string.h>
#include "ext2_fs.h"
#include "ext2fsP.h"

static int cb(ext2_ino_t dir, int entry, struct ext2_dir_entry *de, int off, int bs, char *buf, void *p)
{
	printf("  entry at %d: inode %u rec_len %u name_len %d%s\n", off, de->inode, de->rec_len,
	       de->name_len & 0xff, entry == DIRENT_DELETED_FILE ? " (deleted)" : "");
	return 0;
}

int main(void)
{
	static struct struct_ext2_filsys fs;
	static struct ext2_super_block sb;
	struct dir_context ctx;
	const unsigned int buflen = 24;		/* size of the system.data value */
	struct ext2_dir_entry *de;

	fs.magic = EXT2_ET_MAGIC_EXT2FS_FILSYS;
	fs.blocksize = 1024;
	fs.super = &sb;

	memset(&ctx, 0, sizeof(ctx));
	ctx.dir = 12;
	ctx.flags = DIRENT_FLAG_INCLUDE_INLINE_DATA | DIRENT_FLAG_INCLUDE_REMOVED;
	ctx.buf = malloc(buflen);		/* exactly buflen bytes, as ext2fs_xattr_get allocates */
	ctx.buflen = buflen;
	ctx.func = cb;
	memset(ctx.buf, 0, buflen);
	de = (struct ext2_dir_entry *)ctx.buf;	/* one live entry "a" covering the whole value */
	de->inode = 13;
	de->rec_len = buflen;
	de->name_len = 1;
	de->name[0] = 'a';

	printf("process_dir_block on a %u-byte inline-data buffer, blocksize %u, INCLUDE_REMOVED\n", buflen, fs.blocksize);
	int r = ext2fs_process_dir_block(&fs, 0, 2, 0, 0, &ctx);
	printf("returned %d errcode %ld -- no out-of-bounds read detected\n", r, (long)ctx.errcode);
	free(ctx.buf);
	return 0;
}
