/*
 * ext2fs_read_inode2: an inode whose checksum does not verify is read straight INTO the next inode-cache slot.  On a
 * mismatch the slot's label (cache[slot].ino) is left alone -- so the slot still claims to hold the inode it held before,
 * while its bytes are now those of the rejected inode.  The next ext2fs_read_inode of that older inode is served from the
 * cache: it returns the rejected inode's bytes, without any error.
 *
 * usage: demo <image>     (image: metadata_csum filesystem; the program corrupts inode 14 itself)
 * exit 0: coherent, 1: defect present, 2: set-up problem
 */
#include <stdio.h>
#include <string.h>
#include <stdlib.h>
#include "ext2fs/ext2_fs.h"
#include "ext2fs/ext2fs.h"

#define VICTIM 14	/* unused inode: gets garbage and no checksum */

int main(int argc, char **argv)
{
	ext2_filsys fs;
	struct ext2_inode ino, root0, root1;
	errcode_t r;
	ext2_ino_t fill[4] = { EXT2_ROOT_INO, 11, 12, 13 };
	int i;

	if (argc < 2)
		return 2;
	/* 1. plant an inode with a wrong checksum */
	r = ext2fs_open(argv[1], EXT2_FLAG_RW | EXT2_FLAG_64BITS, 0, 0, unix_io_manager, &fs);
	if (r) { fprintf(stderr, "open: %ld\n", (long)r); return 2; }
	if (!ext2fs_has_feature_metadata_csum(fs->super)) { fprintf(stderr, "no metadata_csum\n"); return 2; }
	memset(&ino, 0, sizeof(ino));
	ino.i_mode = 0xDEAD;
	ino.i_size = 0x12345678;
	r = ext2fs_write_inode2(fs, VICTIM, &ino, sizeof(ino), WRITE_INODE_NOCSUM);
	if (r) { fprintf(stderr, "plant: %ld\n", (long)r); return 2; }
	ext2fs_close(fs);

	/* 2. fresh handle: fill the four cache slots, the root inode first (it is the eldest entry afterwards) */
	r = ext2fs_open(argv[1], EXT2_FLAG_64BITS, 0, 0, unix_io_manager, &fs);
	if (r) { fprintf(stderr, "reopen: %ld\n", (long)r); return 2; }
	for (i = 0; i < 4; i++) {
		r = ext2fs_read_inode(fs, fill[i], i == 0 ? &root0 : &ino);
		if (r) { fprintf(stderr, "read %u: %ld\n", fill[i], (long)r); return 2; }
	}
	/* 3. the corrupted inode is rejected ... */
	r = ext2fs_read_inode(fs, VICTIM, &ino);
	printf("read of inode %d with a bad checksum: %s\n", VICTIM,
	       r == EXT2_ET_INODE_CSUM_INVALID ? "EXT2_ET_INODE_CSUM_INVALID (good)" : "NOT rejected");
	if (r != EXT2_ET_INODE_CSUM_INVALID)
		return 2;
	/* 4. ... but what does the root inode look like now? */
	r = ext2fs_read_inode(fs, EXT2_ROOT_INO, &root1);
	printf("root inode before: mode %06o size %u   after: rc %ld mode %06o size %u\n",
	       root0.i_mode, root0.i_size, (long)r, root1.i_mode, root1.i_size);
	ext2fs_close(fs);
	if (r == 0 && memcmp(&root0, &root1, sizeof(root0)) != 0) {
		printf("DEFECT: ext2fs_read_inode(root) silently returned the bytes of the rejected inode %d\n", VICTIM);
		return 1;
	}
	printf("coherent\n");
	return 0;
}
