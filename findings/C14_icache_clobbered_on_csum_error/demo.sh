#!/bin/sh
# usage: demo.sh [built e2fsprogs tree, default /repo]
# exit 0 = inode cache stays coherent after a checksum failure, 1 = defect present (wrong inode served), 2 = set-up problem
T=${1:-/repo}
d=$(mktemp -d); trap 'rm -rf $d' EXIT
gcc -I$T/lib -o $d/demo $(dirname $0)/demo.c $T/lib/libext2fs.a $T/lib/libcom_err.a -lpthread || exit 2
dd if=/dev/zero of=$d/img bs=1k count=8192 2>/dev/null
$T/misc/mke2fs -q -F -t ext4 -O metadata_csum,^has_journal $d/img >/dev/null 2>&1 || exit 2
$d/demo $d/img
