#!/bin/sh
# C15 finding (storage leaked): after the last attribute stored in the external EA block is removed (or moved into the
# inode / a value inode), ext2fs_xattrs_write() keeps the block: its test "Are we done?" skips the block part only when
# the inode HAS no EA block, so with an existing block it writes a block without entries, and the branch that would
# release it ("xattrs shrunk, free the block": ext2fs_free_ext_attr) can never be reached.  i_file_acl keeps pointing
# to an empty block and i_blocks keeps counting it; the kernel (ext4_xattr_block_set: "s->base == NULL / IS_LAST_ENTRY
# -> new_bh = NULL ... ext4_xattr_release_block") frees the block.
# usage: demo.sh [built e2fsprogs tree, default /repo]
# exit 0 = block released (defect absent), 1 = empty EA block stays allocated, 2 = setup problem
T=${1:-/repo}
d=$(mktemp -d); trap 'rm -rf $d' EXIT
dd if=/dev/zero of=$d/img bs=1k count=2048 status=none || exit 2
$T/misc/mke2fs -q -F -t ext4 -b 1024 -I 256 -O ^has_journal $d/img >/dev/null 2>&1 || exit 2
echo hello > $d/f
$T/debugfs/debugfs -w -R "write $d/f f" $d/img >/dev/null 2>&1 || exit 2
free0=$($T/misc/dumpe2fs -h $d/img 2>/dev/null | awk '/^Free blocks:/{print $3}')
val=$(awk 'BEGIN{for(i=0;i<300;i++) s=s "v"; print s}')		# too big for the 256-byte inode: goes to the EA block
$T/debugfs/debugfs -w -R "ea_set f user.big $val" $d/img >/dev/null 2>&1 || exit 2
acl1=$($T/debugfs/debugfs -R "stat f" $d/img 2>/dev/null | awk '/^File ACL:/{print $3}')
[ "$acl1" != 0 ] || { echo "attribute did not go to an EA block"; exit 2; }
$T/debugfs/debugfs -w -R "ea_rm f user.big" $d/img >/dev/null 2>&1 || exit 2
acl2=$($T/debugfs/debugfs -R "stat f" $d/img 2>/dev/null | awk '/^File ACL:/{print $3}')
bc2=$($T/debugfs/debugfs -R "stat f" $d/img 2>/dev/null | sed -n 's/.*Blockcount: \([0-9]*\).*/\1/p')
free2=$($T/misc/dumpe2fs -h $d/img 2>/dev/null | awk '/^Free blocks:/{print $3}')
echo "EA block after ea_set: $acl1; after ea_rm of the only attribute: File ACL $acl2, Blockcount $bc2 (file has one 1 KiB data block = 2)"
echo "free blocks before ea_set: $free0, after ea_rm: $free2"
$T/debugfs/debugfs -R "ea_list f" $d/img 2>/dev/null | grep -v "^debugfs"
$T/e2fsck/e2fsck -fn $d/img >/dev/null 2>&1 || { echo "e2fsck complains"; exit 2; }
if [ "$acl2" != 0 ] || [ "$free2" != "$free0" ]; then
	echo "DEFECT PRESENT: an EA block without entries stays allocated to the file"; exit 1
fi
echo "the EA block was released: defect absent"; exit 0
