#!/bin/sh
# C18: mke2fs -d on a tree in which one file has 65536 hard links.
# add_link() (misc/create_inode.c) increments the 16-bit i_links_count without looking at EXT2_LINK_MAX: the
# 65536th link wraps the count to 0, mke2fs exits 0 and the image is inconsistent (all entries point to a
# "deleted/unused inode", bitmap differences).  An unrepresentable tree must be refused, not stored wrongly.
# usage: demo.sh [e2fsprogs tree, default /repo]
# exit 1 = defect present (mke2fs succeeded, e2fsck -fn finds errors), 0 = absent (mke2fs refuses the tree, or the
# image is clean), 2 = cannot run here (host file system does not allow 65536 links to one file, tools not built)
T=${1:-/repo}
[ -x "$T/misc/mke2fs" ] && [ -x "$T/e2fsck/e2fsck" ] || { echo "mke2fs/e2fsck not built in $T"; exit 2; }
base=/dev/shm; [ -d "$base" ] && [ -w "$base" ] || base=${TMPDIR:-/tmp}
d=$(mktemp -d "$base/c18_links_XXXXXX") || exit 2
trap 'rm -rf "$d"' EXIT
mkdir "$d/tree" && echo hello > "$d/tree/f0" || exit 2
# 257 directories x 255 links + the original name = 65536 names for one inode (tmpfs, xfs, btrfs allow this; ext4 stops at 65000)
python3 - "$d/tree" <<'PY' || { echo "host file system refuses 65536 links to one file: cannot demonstrate here"; exit 2; }
import os, sys
t = sys.argv[1]
for i in range(257):
    os.mkdir('%s/d%d' % (t, i))
    for j in range(255):
        os.link(t + '/f0', '%s/d%d/l%d' % (t, i, j))
assert os.stat(t + '/f0').st_nlink == 65536
PY
"$T/misc/mke2fs" -q -F -t ext4 -d "$d/tree" "$d/img" 128M > "$d/mke2fs.log" 2>&1
rc=$?
if [ $rc -ne 0 ]; then
	echo "mke2fs refused the tree (exit $rc): $(tail -1 "$d/mke2fs.log")"
	exit 0
fi
"$T/e2fsck/e2fsck" -fn "$d/img" > "$d/fsck.log" 2>&1
frc=$?
links=$("$T/debugfs/debugfs" -R "stat /f0" "$d/img" 2>/dev/null | sed -n 's/.*Links: \([0-9]*\).*/\1/p')
echo "mke2fs exit 0; stored i_links_count of /f0 = ${links:-?} (host: 65536); e2fsck -fn exit $frc"
if [ $frc -ne 0 ]; then
	grep -m3 -E "deleted/unused inode|differences|WARNING" "$d/fsck.log"
	echo "DEFECT: mke2fs -d reported success but produced an inconsistent file system"
	exit 1
fi
exit 0
