#!/bin/sh
# usage: demo.sh [built e2fsprogs tree, default /repo]
# exit 1 = defect present, 0 = absent, 2 = cannot run
#
# C11: "... when tune2fs asks for a follow-up e2fsck, that e2fsck run completes the conversion and then checks clean."
# tune2fs asks by clearing EXT2_VALID_FS (request_fsck_afterwards: -O ^large_file, ^huge_file, [^]filetype, [^]sparse_super,
# ^resize_inode; main(): -s 1) and printing "Please run e2fsck -f".  misc/tune2fs.c:resize_inode (the -I path, run LATER in
# the same invocation) ends with an unconditional
#	fs->super->s_state |= EXT2_VALID_FS;
# so `tune2fs -O ^large_file -I 256` writes a superblock that says "clean": the request is lost, a boot-time `e2fsck -p`
# skips the filesystem, and the inconsistency the feature edit left behind (here: a > 2 GiB file on a filesystem without
# LARGE_FILE) stays.  The same edit without -I leaves the filesystem "not clean" and `e2fsck -p` repairs it.
# Unit: proofs/tune2fs/resize_inode.c tune_resize_inode_valid_fs, obligation I5.
T=${1:-/repo}
for p in misc/mke2fs debugfs/debugfs misc/tune2fs misc/dumpe2fs e2fsck/e2fsck; do [ -x "$T/$p" ] || { echo "missing $T/$p"; exit 2; }; done
d=$(mktemp -d); trap 'rm -rf $d' EXIT
mk() {
	"$T/misc/mke2fs" -q -F -t ext3 -I 128 -O ^resize_inode $1 16M >/dev/null 2>&1 || exit 2
	echo data > $d/f
	"$T/debugfs/debugfs" -w -R "write $d/f big" $1 >/dev/null 2>&1
	"$T/debugfs/debugfs" -w -R "sif big size 0x140000000" $1 >/dev/null 2>&1	# sparse 5 GiB file
	"$T/e2fsck/e2fsck" -fn $1 >/dev/null 2>&1 || { echo "start image not consistent"; exit 2; }
}
state() { "$T/misc/dumpe2fs" -h $1 2>/dev/null | sed -n 's/^Filesystem state: *//p'; }

# reference: the feature edit alone
mk $d/ref
"$T/misc/tune2fs" -O ^large_file $d/ref > $d/ref.out 2>&1
grep -q "Please run e2fsck -f" $d/ref.out || { echo "tune2fs did not ask for e2fsck"; cat $d/ref.out; exit 2; }
echo "tune2fs -O ^large_file          : asks for e2fsck, state = '$(state $d/ref)'"

# the same edit together with an inode size change
mk $d/img
"$T/misc/tune2fs" -O ^large_file -I 256 $d/img > $d/img.out 2>&1 || { echo "tune2fs failed"; cat $d/img.out; exit 2; }
grep -q "Please run e2fsck -f" $d/img.out || { echo "tune2fs did not ask for e2fsck"; cat $d/img.out; exit 2; }
st=$(state $d/img)
echo "tune2fs -O ^large_file -I 256   : asks for e2fsck, state = '$st'"
"$T/e2fsck/e2fsck" -p $d/img > $d/p.out 2>&1; prc=$?
"$T/e2fsck/e2fsck" -fn $d/img > $d/fn.out 2>&1; frc=$?
echo "e2fsck -p exit $prc: $(tail -1 $d/p.out)"
echo "e2fsck -fn exit $frc: $(grep -i 'large' $d/fn.out | head -1)"
if [ "$st" = "clean" ] && [ $frc -ne 0 ]; then
	echo "DEFECT PRESENT: the request for e2fsck is lost (resize_inode sets EXT2_VALID_FS again); e2fsck -p skips an inconsistent filesystem"
	exit 1
fi
echo "the filesystem stays 'not clean' until e2fsck has run"
exit 0
