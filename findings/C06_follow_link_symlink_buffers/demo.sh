#!/bin/sh
# usage: demo.sh [built e2fsprogs tree, default /repo]
# exit 1 = defect present (valgrind: invalid heap write / read below follow_link), 0 = absent, 2 = cannot run
#
# lib/ext2fs/namei.c:follow_link
#  (a) inline-data symlink: allocates ei.i_size bytes and lets ext2fs_inline_data_get copy ALL the inline data
#      (60 bytes of i_block + the EA system.data) into it.  i_size is an on-disk field: with i_size = 60 and a 40-byte
#      EA, 100 bytes go into a 60-byte heap buffer (i_size = 0 => into a 0-byte buffer).
#  (b) block symlink: reads the target into a one-block buffer and hands open_namei/dir_namei i_size as its length;
#      with i_size > blocksize dir_namei reads past the buffer.
# Both are reached by every path lookup that crosses the symlink, e.g. the read-only `debugfs -R "stat l/x"`.
T=${1:-/repo}
command -v valgrind >/dev/null 2>&1 || { echo "valgrind not available"; exit 2; }
for p in misc/mke2fs debugfs/debugfs; do [ -x "$T/$p" ] || { echo "missing $T/$p"; exit 2; }; done
d=$(mktemp -d); trap 'rm -rf $d' EXIT
rc=0
# (a)
dd if=/dev/zero of=$d/img bs=1k count=4096 2>/dev/null
"$T/misc/mke2fs" -q -F -t ext4 -O inline_data,^metadata_csum -I 256 $d/img || exit 2
tgt=/$(printf 'a%.0s' $(seq 1 99))
"$T/debugfs/debugfs" -w -R "symlink l $tgt" $d/img >/dev/null 2>&1
"$T/debugfs/debugfs" -w -R "sif l size 60" $d/img >/dev/null 2>&1
valgrind -q "$T/debugfs/debugfs" -R "stat l/x" $d/img > $d/outa 2>&1
if grep -q "Invalid write" $d/outa && grep -q "follow_link" $d/outa; then
	grep -m1 -A3 "Invalid write" $d/outa
	echo "DEFECT PRESENT (a): follow_link copies 60 + EA bytes of an inline-data symlink into an i_size-byte buffer"
	rc=1
fi
# (b)
dd if=/dev/zero of=$d/img2 bs=1k count=4096 2>/dev/null
"$T/misc/mke2fs" -q -F -t ext4 -O ^metadata_csum $d/img2 || exit 2
tgt=$(printf 'a%.0s' $(seq 1 1020))
"$T/debugfs/debugfs" -w -R "symlink l $tgt" $d/img2 >/dev/null 2>&1
"$T/debugfs/debugfs" -w -R "sif l size 100000" $d/img2 >/dev/null 2>&1
valgrind -q "$T/debugfs/debugfs" -R "stat l/x" $d/img2 > $d/outb 2>&1
if grep -q "Invalid read" $d/outb && grep -q "follow_link" $d/outb; then
	grep -m1 -A3 "Invalid read" $d/outb
	echo "DEFECT PRESENT (b): follow_link lets dir_namei read i_size bytes out of a one-block buffer"
	rc=1
fi
[ $rc -eq 0 ] && { tail -1 $d/outa; tail -1 $d/outb; echo "no invalid access"; }
exit $rc
