#!/bin/sh
# C12 finding: undo_write_byte() adds data->offset before computing the block number and
# undo_write_tdb() adds it again, so with a filesystem offset != 0 the byte range whose old content is
# saved in the undo file is not the range that is overwritten (failed obligation
# "about_to_modify.assertion.2" of unit undo/undo_write_byte).  End to end: tune2fs changes the label
# through io_channel_write_byte (write_primary_superblock), e2undo "succeeds" but the label stays.
# usage: demo.sh [built e2fsprogs tree, default /repo]
# exit 0 = device restored byte-identically in both cases, 1 = not restored with an offset
T=${1:-/repo}
d=$(mktemp -d); trap 'rm -rf $d' EXIT
run() {	# $1 = filesystem offset in bytes
	off=$1; img=$d/img$off
	dd if=/dev/zero of=$img bs=1k count=$((8192 + off / 1024)) 2>/dev/null
	$T/misc/mke2fs -q -F -E offset=$off $img 8192 >/dev/null 2>&1 || return 2
	cp $img $img.orig
	$T/misc/tune2fs -z $d/u$off.undo -L changed "$img?offset=$off" >/dev/null 2>&1 || return 2
	cmp -s $img $img.orig && { echo "offset=$off: tune2fs changed nothing?"; return 2; }
	$T/misc/e2undo $d/u$off.undo $img >/dev/null 2>&1 || { echo "offset=$off: e2undo failed"; return 2; }
	if cmp -s $img $img.orig; then
		echo "offset=$off: restored byte-identically"; return 0
	else
		echo "offset=$off: NOT RESTORED after a successful e2undo; first differing bytes:"
		cmp -l $img $img.orig | head -3
		return 1
	fi
}
run 0; r0=$?
run 4096; r1=$?
[ $r0 -eq 0 ] && [ $r1 -eq 0 ] && exit 0
[ $r0 -eq 2 ] || [ $r1 -eq 2 ] && exit 2
exit 1
