#!/bin/sh
# C12 second finding (undo_write_tdb, filesystem offset not a multiple of tdb_data_size): undo block t is
# chosen as (block*bs + offset)/tdb but the range read for it starts at t*tdb + offset%tdb, so the first
# offset%tdb bytes of the first touched undo block are not saved unless block t-1 was saved earlier.
# mke2fs uses tdb_data_size=32768; with the classic partition offset 32256 (63 sectors) e2undo "succeeds"
# but the device is not restored.
# usage: demo2.sh [built e2fsprogs tree, default /repo]; exit 0 = restored, 1 = not restored
T=${1:-/repo}
d=$(mktemp -d); trap 'rm -rf $d' EXIT
off=32256
head -c $((65536 * 1024 + off)) /dev/urandom > $d/img
cp $d/img $d/img.orig
$T/misc/mke2fs -q -F -z $d/u.undo -E offset=$off $d/img 65536 >/dev/null 2>&1 || exit 2
$T/misc/e2undo $d/u.undo $d/img >/dev/null 2>&1 || { echo "e2undo failed"; exit 2; }
if cmp -s $d/img $d/img.orig; then echo "offset=$off: restored byte-identically"; exit 0; fi
echo "offset=$off: NOT RESTORED after a successful e2undo: $(cmp -l $d/img $d/img.orig | wc -l) bytes differ, first:"
cmp -l $d/img $d/img.orig | head -2
exit 1
