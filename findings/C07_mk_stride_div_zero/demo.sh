#!/bin/sh
# C07 finding: RAID stride placement in ext2fs_allocate_group_table() (no flex_bg, fs->stride != 0) computes
#     start_blk = first_free_block_of_group + inode_blocks_per_group;
#     start_blk += (fs->stride * group) % (last_blk - start_blk + 1);
# When the group's first free block lies exactly inode_blocks_per_group blocks before the group's end the divisor is
# ZERO: mke2fs dies with SIGFPE instead of reporting "Could not allocate block".  Reachable with a bad-block list
# (mke2fs -l / -c) that leaves only the tail of a group free, together with -E stride=N and -O ^flex_bg.
# Units: mkfs/allocate_group_table_stride (precondition), mkfs/allocate_group_table_stride_div0 (observation, fails).
# usage: demo.sh [built e2fsprogs tree, default /repo]; exit 0 = mke2fs terminates normally (success or clean error),
#        1 = defect present (killed by a signal), 2 = infrastructure problem
T=${1:-/repo}
d=$(mktemp -d); trap 'rm -rf $d' EXIT
OPTS="-q -F -t ext2 -b 1024 -g 8192 -O ^flex_bg,^resize_inode -N 16384 -E stride=4"
$T/misc/mke2fs $OPTS $d/a.img 65536 >$d/mk0.out 2>&1 || { echo "plain mke2fs failed"; cat $d/mk0.out; exit 2; }
ipg=$($T/misc/dumpe2fs -h $d/a.img 2>/dev/null | awk -F: '/^Inodes per group/ {gsub(/ /,"",$2); print $2}')
isz=$($T/misc/dumpe2fs -h $d/a.img 2>/dev/null | awk -F: '/^Inode size/ {gsub(/ /,"",$2); print $2}')
[ -n "$ipg" ] && [ -n "$isz" ] || { echo "cannot read geometry"; exit 2; }
ibpg=$(( (ipg * isz + 1023) / 1024 ))
# group 2 (no superblock backup with sparse_super) = blocks 16385 .. 24576; everything in front of the last ibpg blocks is bad
first=16385; last=24576
awk -v a=$first -v b=$((last - ibpg)) 'BEGIN { for (x = a; x <= b; x++) print x }' > $d/bb.txt
rm -f $d/a.img
$T/misc/mke2fs $OPTS -l $d/bb.txt $d/a.img 65536 >$d/mk.out 2>&1
rc=$?
echo "inode table blocks per group: $ibpg; first free block of group 2: $((last - ibpg + 1)); mke2fs exit status: $rc"
if [ $rc -ge 128 ]; then echo "mke2fs was killed by signal $((rc - 128)) (8 = SIGFPE: division by zero)"; exit 1; fi
head -2 $d/mk.out
exit 0
