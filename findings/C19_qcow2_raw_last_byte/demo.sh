#!/bin/sh
# C19: "converting a qcow2 image back to raw equals the directly produced raw image".
# qcow2_write_raw_image (lib/ext2fs/qcow2.c) finishes by seeking to image_size-1 and writing one 0 byte "to resize
# the output" - AFTER the clusters were copied.  If the last block of the file system is part of the image
# (e2image -Qa of a full file system; a metadata block at the very end) its last byte is overwritten with 0.
# usage: demo.sh [e2fsprogs tree, default /repo]     (E2IMAGE=<binary> overrides the e2image used for the conversion)
# exit 1 = defect present, 0 = absent, 2 = cannot run
T=${1:-/repo}
E2IMAGE=${E2IMAGE:-$T/misc/e2image}
for x in "$T/misc/mke2fs" "$T/debugfs/debugfs" "$T/misc/e2image" "$E2IMAGE"; do [ -x "$x" ] || { echo "$x not built"; exit 2; }; done
base=/dev/shm; [ -d "$base" ] && [ -w "$base" ] || base=${TMPDIR:-/tmp}
d=$(mktemp -d "$base/c19_last_XXXXXX") || exit 2
trap 'rm -rf "$d"' EXIT
cd "$d" || exit 2
# an 8193-block file system, filled completely with 0xff bytes so that the last block is in use and ends in non-zero
"$T/misc/mke2fs" -q -F -b 1024 -m 0 -O ^has_journal,^resize_inode -N 400 fs.img 8193 || exit 2
( sz=4194304; while [ $sz -ge 1024 ]; do head -c $sz /dev/zero | tr '\0' '\377' > p$sz; echo "write p$sz p$sz"; sz=$((sz/2)); done
  i=0; while [ $i -lt 300 ]; do echo "write p1024 k$i"; i=$((i+1)); done ) > cmds
"$T/debugfs/debugfs" -w -f cmds fs.img > /dev/null 2>&1
"$T/debugfs/debugfs" -R "testb 8192" fs.img 2>/dev/null | grep -q "marked in use" || { echo "could not fill the file system"; exit 2; }
"$T/misc/e2image" -ra fs.img direct.raw 2>/dev/null || exit 2		# the directly produced raw image
"$T/misc/e2image" -Qa fs.img fs.qcow2 2>/dev/null || exit 2
"$E2IMAGE" -r fs.qcow2 back.raw 2>/dev/null || { echo "qcow2 -> raw conversion failed"; exit 2; }
n=$(cmp -l direct.raw back.raw | wc -l)
if [ "$n" -eq 0 ]; then echo "qcow2 -> raw equals the direct raw image"; exit 0; fi
echo "direct raw image and qcow2->raw image differ in $n byte(s):"
cmp -l direct.raw back.raw | head -3 | while read off a b; do echo "  byte $off (of $(stat -c %s direct.raw)): direct $a, converted $b (octal)"; done
echo "DEFECT: the conversion overwrote the last byte of the last block"
exit 1
