#!/bin/sh
# usage: demo.sh [built e2fsprogs tree, default /repo]
# exit 1 = defect present (valgrind: invalid read in disconnect_inode), 0 = absent, 2 = cannot run (no valgrind / no build)
#
# e2fsck/pass4.c:disconnect_inode reads the in-inode EA magic at  inode + 128 + i_extra_isize  whenever
#   EXT2_INODE_SIZE - 128 - i_extra_isize > 0,
# i.e. also for i_extra_isize = size-128-3 .. size-128-1, where the 4-byte read runs 1..3 bytes past the end of the
# scratch inode buffer (exactly EXT2_INODE_SIZE bytes, e2fsck_pass4).  pass 1 asks about such an i_extra_isize
# (PR_1_EXTRA_ISIZE) but under `e2fsck -n` the value stays.  Image: 256-byte inodes, one unattached inode (directory
# entry removed with debugfs unlink, inode left allocated) whose i_extra_isize is set to 125.
T=${1:-/repo}
command -v valgrind >/dev/null 2>&1 || { echo "valgrind not available"; exit 2; }
for p in misc/mke2fs debugfs/debugfs e2fsck/e2fsck; do [ -x "$T/$p" ] || { echo "missing $T/$p"; exit 2; }; done
d=$(mktemp -d); trap 'rm -rf $d' EXIT
dd if=/dev/zero of=$d/img bs=1k count=4096 2>/dev/null
"$T/misc/mke2fs" -q -F -t ext4 -I 256 $d/img || exit 2
echo hello > $d/f.txt
"$T/debugfs/debugfs" -w -R "write $d/f.txt f" $d/img >/dev/null 2>&1
"$T/debugfs/debugfs" -w -R "unlink f" $d/img >/dev/null 2>&1
"$T/debugfs/debugfs" -w -R "sif <12> extra_isize 125" $d/img >/dev/null 2>&1
valgrind -q --error-exitcode=99 "$T/e2fsck/e2fsck" -fn $d/img > $d/out 2>&1
rc=$?
grep -A4 "Invalid read" $d/out | head -8
grep -q "Unattached inode 12" $d/out || { echo "image did not reach pass 4's unattached-inode path"; cat $d/out | head -20; exit 2; }
if [ $rc -eq 99 ] && grep -q "disconnect_inode" $d/out; then
	echo "DEFECT PRESENT: e2fsck -fn reads past the scratch inode buffer in pass4.c:disconnect_inode"
	exit 1
fi
echo "no invalid read"
exit 0
