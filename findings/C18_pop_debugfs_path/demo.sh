#!/bin/sh
# usage: demo.sh [built e2fsprogs tree, default /repo]
# exit 1 = defect present, 0 = absent, 2 = cannot run
#
# Path handling of the debugfs commands that create directory entries (debugfs/debugfs.c, misc/create_inode.c):
#  (a) do_mknod hands its <name> argument unchanged to do_mknod_internal(fs, cwd, name, ...): "mknod /d/x p" creates, in
#      the CURRENT directory, an entry whose NAME is "/d/x" (e2fsck: "has illegal characters in its name").
#      do_write/do_mkdir/do_symlink/do_link split the path at the last '/' and resolve the directory part.
#  (b) those split the path but resolve the text before the last '/' with ext2fs_namei(): for "/leaf" that text is
#      the EMPTY string, which namei resolves to cwd: after "cd /d", "mkdir /x", "symlink /s t", "write f /w",
#      "link /d/f /g" create their object in /d instead of the root directory.
#  (c) "mknod x c" (type c or b without numbers) calls strtoul(argv[3] == NULL): segmentation fault.
#  (d) "mkdir /d/" (empty text behind the last '/') creates an entry with an EMPTY name.
#  (e) "mknod x c 5000 1": majors 4096..65535 are accepted but do_mknod_internal takes a 32-bit st_rdev: the node is
#      created for a different device (major 904).
T=${1:-/repo}
for p in misc/mke2fs debugfs/debugfs e2fsck/e2fsck; do [ -x "$T/$p" ] || { echo "missing $T/$p"; exit 2; }; done
d=$(mktemp -d /tmp/pop2demo.XXXXXX); trap 'rm -rf $d' EXIT
D="$T/debugfs/debugfs"
"$T/misc/mke2fs" -q -F -t ext4 $d/img 8M > /dev/null 2>&1 || exit 2
echo hello > $d/f
bad=0
# (a)
"$D" -w -R "mkdir /d" $d/img > /dev/null 2>&1
"$D" -w -R "mknod /d/x p" $d/img > /dev/null 2>&1
if "$D" -R "ls -l /d" $d/img 2>/dev/null | grep -q " x *$"; then echo "(a) ok: /d/x exists"
else
	echo "(a) DEFECT: 'mknod /d/x p' did not create x in /d; root directory now has:"; "$D" -R "ls -l /" $d/img 2>/dev/null | grep "/d/x"
	"$T/e2fsck/e2fsck" -fn $d/img 2>&1 | grep -i "illegal characters"
	bad=1
fi
# (b)
"$T/misc/mke2fs" -q -F -t ext4 $d/img 8M > /dev/null 2>&1
printf 'mkdir /d\nwrite %s /d/f\ncd /d\nmkdir /x\nsymlink /s target\nwrite %s /w\nlink /d/f /g\n' $d/f $d/f > $d/cmds
"$D" -w -f $d/cmds $d/img > /dev/null 2>&1
"$D" -R "ls -l /" $d/img > $d/root.ls 2>/dev/null
for n in x s w g; do
	if grep -q " $n *$" $d/root.ls; then echo "(b) ok: /$n is in the root directory"
	else echo "(b) DEFECT: /$n was not created in the root directory (cwd was /d):"; "$D" -R "ls -l /d" $d/img 2>/dev/null | grep " $n *$"; bad=1; fi
done
# (c)
"$T/misc/mke2fs" -q -F -t ext4 $d/img 8M > /dev/null 2>&1
"$D" -w -R "mknod x c" $d/img > $d/c.out 2>&1; rc=$?
if [ $rc -ge 128 ]; then echo "(c) DEFECT: 'mknod x c' killed debugfs (exit $rc)"; bad=1; else echo "(c) ok: usage error (exit $rc)"; fi
# (d)
"$D" -w -R "mkdir /d" $d/img > /dev/null 2>&1
"$D" -w -R "mkdir /d/" $d/img > /dev/null 2>&1
n=$("$D" -R "ls -l /d" $d/img 2>/dev/null | grep -c "^ *[0-9]")
if [ "$n" -gt 2 ]; then echo "(d) DEFECT: 'mkdir /d/' created an entry with an empty name in /d ($n entries)"; bad=1; else echo "(d) ok: nothing created for an empty name"; fi
# (e)
"$D" -w -R "mknod big c 5000 1" $d/img > /dev/null 2>&1
dev=$("$D" -R "stat big" $d/img 2>/dev/null | sed -n 's/.*Device major\/minor number: *\([0-9:]*\).*/\1/p')
if [ -z "$dev" ]; then echo "(e) ok: major 5000 refused"
elif [ "$dev" = "5000:01" ] || [ "$dev" = "5000:1" ]; then echo "(e) ok: device $dev"
else echo "(e) DEFECT: 'mknod big c 5000 1' created device $dev"; bad=1; fi
[ $bad = 1 ] && { echo "DEFECT PRESENT"; exit 1; }
echo "all path forms handled"
exit 0
