/*
 * C10 — lib/ext2fs/link.c:dx_split_leaf moves EVERY entry of a full htree leaf to the new block when all of them
 * qualify for the move, and then "repacks" the old leaf with count 0: dx_move_dirents(map, 0, ...) stretches whatever
 * the scratch buffer still holds — the first entry just moved — over the whole old leaf.  Result: a DUPLICATE
 * directory entry (the same name twice, one link count), plus an out-of-bounds read of map[-1] for the continuation bit.
 * The kernel's do_split() has the guard:  if (i > 0) split = count - move; else split = count/2;
 *
 * The situation needs a leaf that is "full" for a long new name although its live entries are light in the hash-upper
 * part: 1 KiB leaf = [deleted entry, 260 bytes][A: 255-byte name + 256 bytes of slack = 520][B: 230-byte name, 244],
 * hash(A) < hash(B).  No hole takes a 264-byte entry; the split loop accepts B (0 + 244/2 <= 512) and A
 * (244 + 520/2 = 504 <= 512) and runs off the front of the map.
 *
 * Everything below goes through the public API (ext2fs_mkdir, ext2fs_expand_dir, ext2fs_link, ext2fs_unlink,
 * ext2fs_dir_iterate); only the dx_root of block 0 is written by hand (libext2fs cannot convert a directory to an htree).
 * usage: demo <image made by mke2fs -b 1024 -O dir_index,^metadata_csum>;  exit 1 = duplicate entry (defect), 0 = exact.
 */
#include <stdio.h>
#include <stdlib.h>
#include <string.h>
#include "ext2fs/ext2fs.h"

#define CK(x) do { errcode_t e_ = (x); if (e_) { fprintf(stderr, "%s: error %ld\n", #x, (long)e_); exit(2); } } while (0)

static char names[5][256];	/* X A Y B N */
static int seen[5], nent;

static int count_proc(struct ext2_dir_entry *d, int off, int bs, char *buf, void *p)
{
	int len = ext2fs_dirent_name_len(d);
	nent++;
	for (int i = 0; i < 5; i++)
		if (len == (int)strlen(names[i]) && !memcmp(d->name, names[i], len))
			seen[i]++;
	return 0;
}

static void mkname(char *n, int len, char tag, int salt)
{
	memset(n, tag, len);
	n[len] = 0;
	snprintf(n, len + 1, "%c%06d", tag, salt);
	n[7] = tag;
}

int main(int argc, char **argv)
{
	ext2_filsys fs;
	ext2_ino_t d, f;
	struct ext2_inode ino;
	char blk[1024];
	blk64_t pblk;
	ext2_dirhash_t ha, hb, mh;
	errcode_t r;
	int salt = 0;

	CK(ext2fs_open(argv[1], EXT2_FLAG_RW, 0, 0, unix_io_manager, &fs));
	CK(ext2fs_read_bitmaps(fs));
	if (fs->blocksize != 1024 || ext2fs_has_feature_metadata_csum(fs->super)) { fprintf(stderr, "need -b 1024 without metadata_csum\n"); return 2; }

	/* a directory with two blocks: block 0 '.', '..'; block 1 one empty entry (ext2fs_expand_dir) */
	CK(ext2fs_mkdir(fs, EXT2_ROOT_INO, 0, "d"));
	CK(ext2fs_lookup(fs, EXT2_ROOT_INO, "d", 1, 0, &d));
	CK(ext2fs_expand_dir(fs, d));
	/* a file to link to */
	CK(ext2fs_new_inode(fs, d, LINUX_S_IFREG | 0644, 0, &f));
	memset(&ino, 0, sizeof(ino));
	ino.i_mode = LINUX_S_IFREG | 0644;
	ino.i_links_count = 3;
	CK(ext2fs_write_new_inode(fs, f, &ino));
	ext2fs_inode_alloc_stats2(fs, f, +1, 0);

	/* block 0 becomes a dx_root with one entry -> logical block 1 (on-disk format, Documentation/filesystems/ext4) */
	CK(ext2fs_read_inode(fs, d, &ino));
	CK(ext2fs_bmap2(fs, d, &ino, 0, 0, 0, 0, &pblk));
	CK(ext2fs_read_dir_block4(fs, pblk, blk, 0, d));
	blk[16] = (1024 - 12) & 0xff; blk[17] = (1024 - 12) >> 8;	/* '..' rec_len = blocksize - 12 */
	memset(blk + 24, 0, 1000);
	blk[28] = fs->super->s_def_hash_version;			/* dx_root_info: hash_version */
	blk[29] = 8;							/* info_length */
	blk[30] = 0;							/* indirect_levels */
	blk[32] = ((1024 - 32) / 8) & 0xff; blk[33] = ((1024 - 32) / 8) >> 8;	/* limit */
	blk[34] = 1; blk[35] = 0;					/* count */
	blk[36] = 1;							/* entries[0].block = 1 */
	CK(ext2fs_write_dir_block4(fs, pblk, blk, 0, d));
	ino.i_flags |= EXT2_INDEX_FL;
	CK(ext2fs_write_inode(fs, d, &ino));

	/* names: hash(A) < hash(B) with the directory's hash (unsigned variants by superblock flag, as dx_lookup does) */
	int alg = fs->super->s_def_hash_version;
	if (alg <= EXT2_HASH_TEA && (fs->super->s_flags & EXT2_FLAGS_UNSIGNED_HASH))
		alg += 3;
	do {
		mkname(names[1], 255, 'A', salt);
		mkname(names[3], 230, 'B', salt++);
		CK(ext2fs_dirhash2(alg, names[1], 255, fs->encoding, 0, fs->super->s_hash_seed, &ha, &mh));
		CK(ext2fs_dirhash2(alg, names[3], 230, fs->encoding, 0, fs->super->s_hash_seed, &hb, &mh));
	} while (!(ha < hb));
	mkname(names[0], 250, 'X', 0);
	mkname(names[2], 248, 'Y', 0);
	mkname(names[4], 255, 'N', 0);

	/* history: create X A Y B (they fill the leaf exactly), remove Y (merges into A) and X (first entry: inode 0) */
	CK(ext2fs_link(fs, d, names[0], f, EXT2_FT_REG_FILE));
	CK(ext2fs_link(fs, d, names[1], f, EXT2_FT_REG_FILE));
	CK(ext2fs_link(fs, d, names[2], f, EXT2_FT_REG_FILE));
	CK(ext2fs_link(fs, d, names[3], f, EXT2_FT_REG_FILE));
	CK(ext2fs_unlink(fs, d, names[2], 0, 0));
	CK(ext2fs_unlink(fs, d, names[0], 0, 0));
	memset(seen, 0, sizeof(seen)); nent = 0;
	CK(ext2fs_dir_iterate(fs, d, 0, 0, count_proc, 0));
	printf("before: %d entries; A x%d, B x%d (hash(A)=%08x < hash(B)=%08x)\n", nent, seen[1], seen[3], ha, hb);

	/* one more long name: no hole of 264 bytes -> dx_link splits the leaf */
	r = ext2fs_link(fs, d, names[4], f, EXT2_FT_REG_FILE);
	printf("ext2fs_link(N) = %ld\n", (long)r);
	memset(seen, 0, sizeof(seen)); nent = 0;
	CK(ext2fs_dir_iterate(fs, d, 0, 0, count_proc, 0));
	printf("after:  %d entries; A x%d, B x%d, N x%d\n", nent, seen[1], seen[3], seen[4]);
	CK(ext2fs_close(fs));
	if (seen[1] != 1 || seen[3] != 1 || seen[4] != 1) {
		printf("DEFECT PRESENT: the directory does not list exactly the names A, B, N once each\n");
		return 1;
	}
	printf("ok: namespace exact after the leaf split\n");
	return 0;
}
