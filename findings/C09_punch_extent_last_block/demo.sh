#!/bin/sh
# C09: punch_extent_blocks() rejected a range ending exactly at the last block of the file system
# ((free_start + free_count) >= blocks_count instead of >): punching a file that owns the last block fails after the
# extent tree was edited; e2fsck -fn then reports errors.  usage: demo.sh [built tree]; exit 1 = defect present
T=${1:-/repo}
d=$(mktemp -d); trap 'rm -rf $d' EXIT
truncate -s 60k $d/img
$T/misc/mke2fs -q -F -t ext4 -b 1024 -O ^has_journal,^resize_inode -m 0 $d/img 60 >/dev/null 2>&1 || exit 2
head -c 38912 /dev/zero | tr '\0' 'x' > $d/big
$T/debugfs/debugfs -w -R "write $d/big big" $d/img >/dev/null 2>&1
ext=$($T/debugfs/debugfs -R "stat big" $d/img 2>/dev/null | grep -A2 EXTENTS | tail -1)
case "$ext" in *-59) ;; *) echo "set-up: file does not own the last block ($ext)"; exit 2;; esac
$T/debugfs/debugfs -w -R "punch big 0" $d/img 2>&1 | grep -i "illegal block" && echo "punch refused the last block"
if $T/e2fsck/e2fsck -fn $d/img >/dev/null 2>&1; then echo "file system consistent after punching a file that owns the last block"; exit 0
else echo "DEFECT: e2fsck -fn reports errors after the punch"; exit 1; fi
