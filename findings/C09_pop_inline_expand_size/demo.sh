#!/bin/sh
# usage: demo.sh [built e2fsprogs tree, default /repo]
# exit 1 = defect present, 0 = absent, 2 = cannot run
#
# lib/ext2fs/inline_data.c:ext2fs_inline_data_file_expand() converts an inline-data file to a block-mapped one by
# setting i_size = 0 and writing the whole inline AREA (60 bytes of i_block + the EA system.data) back through
# ext2fs_file_write(): afterwards i_size is the size of the area, whatever the file's size was.  The caller
# (ext2fs_file_write -> ext2fs_file_write_inline_data, "no space" path) continues in the block path, which only ever
# GROWS i_size to the end of the last write.  mke2fs -d creates every regular file with i_size = st_size (and
# EXT4_INLINE_DATA_FL when the feature is on) and then copies the DATA extents only: a file whose data is followed by
# a hole loses its tail - the image holds a shorter file than the source, mke2fs exits 0 and e2fsck finds nothing.
# Same for any libext2fs user (fuse2fs, debugfs write) that writes into an inline file whose i_size lies beyond the
# end of the write.
T=${1:-/repo}
for p in misc/mke2fs debugfs/debugfs e2fsck/e2fsck; do [ -x "$T/$p" ] || { echo "missing $T/$p"; exit 2; }; done
d=$(mktemp -d /tmp/pop2demo.XXXXXX); trap 'rm -rf $d' EXIT
mkdir $d/src
# 5000 bytes of data followed by a hole up to 1 MiB
head -c 5000 /dev/urandom > $d/src/f 2>/dev/null || exit 2
truncate -s 1048576 $d/src/f || exit 2
"$T/misc/mke2fs" -q -F -t ext4 -O inline_data -d $d/src $d/img 8M > $d/mk.out 2>&1 || { cat $d/mk.out; echo "mke2fs failed"; exit 2; }
"$T/e2fsck/e2fsck" -fn $d/img > $d/fsck.out 2>&1; fsck=$?
size=$("$T/debugfs/debugfs" -R "stat /f" $d/img 2>/dev/null | sed -n 's/.*Size: \([0-9]*\).*/\1/p' | head -1)
"$T/debugfs/debugfs" -R "dump /f $d/out" $d/img > /dev/null 2>&1
echo "source: 1048576 bytes (5000 data + hole); image: i_size=$size, dump gives $(stat -c %s $d/out) bytes; e2fsck -fn exit $fsck"
if [ "$size" != 1048576 ] || ! cmp -s $d/out $d/src/f; then
	echo "DEFECT PRESENT: mke2fs -O inline_data -d stored a file of $size bytes for a 1048576-byte source (exit 0, e2fsck clean)"
	exit 1
fi
echo "file stored with its full length"
exit 0
