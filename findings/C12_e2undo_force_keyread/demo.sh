#!/bin/sh
# C12/C06 finding: e2undo -f with an undo file whose first key block cannot be read (truncated file, I/O error).
# misc/e2undo.c main(): on a failed key-block read under -f it sets undo_ctx.num_keys = i - 1; for the first key block
# i == 0, so num_keys becomes SIZE_MAX and qsort()/the replay loop run over a key array that was allocated for the
# header's num_keys: out-of-bounds accesses (segmentation fault here; with other heap contents garbage "keys" could be
# written to the device).  For later key blocks i - 1 drops one key that was loaded and verified (it is not replayed).
# Failed obligations: unit undo/e2undo_main_keyread (e2undo_main.unwind.3 and the pointer checks of the replay loop).
# usage: demo.sh [built e2fsprogs tree, default /repo]
# exit 0 = e2undo -f ends normally (exit status < 128) and replays the readable part, 1 = it crashes, 2 = setup problem
T=${1:-/repo}
d=$(mktemp -d); trap 'rm -rf $d' EXIT
head -c 8388608 /dev/urandom > $d/img
$T/misc/mke2fs -q -F -b 4096 $d/img >/dev/null 2>&1 || exit 2
$T/misc/tune2fs -z $d/u.undo -L one $d/img >/dev/null 2>&1 || exit 2
cp $d/img $d/img.mod
# keep header and superblock copy (blocks 0 and 1 of 4096 bytes), cut off the key block and the data
truncate -s 8192 $d/u.undo
$T/misc/e2undo -f $d/u.undo $d/img >$d/out 2>&1
rc=$?
if [ $rc -ge 128 ]; then
	echo "e2undo -f on an undo file without its key block: killed by signal $((rc - 128))"
	cmp -s $d/img $d/img.mod && echo "(device unchanged)" || echo "(device CHANGED: $(cmp -l $d/img $d/img.mod | wc -l) bytes)"
	exit 1
fi
echo "e2undo -f ended with status $rc: $(tail -n 1 $d/out)"
exit 0
