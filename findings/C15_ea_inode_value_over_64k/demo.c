/*
 * C15 finding: ext2fs_xattr_set() accepts a value longer than 64 KiB on an ea_inode file system and stores it in an
 * EA inode, but read_xattrs_from_buffer() refuses any entry with e_value_size > 64 KiB (EXT2_ET_EA_BAD_VALUE_SIZE):
 * after the successful set, NO attribute of that inode can be read through the library any more
 * (ext2fs_xattrs_read fails as a whole: debugfs ea_list/ea_get/ea_set/ea_rm, fuse2fs, e2fsck's inline-data paths).
 * The kernel cannot produce such a value (VFS: XATTR_SIZE_MAX = 65536).
 * exit 0: refused at set time, or reads back; 1: set succeeds and the inode's attributes become unreadable
 */
#include "config.h"
#include <stdio.h>
#include <stdlib.h>
#include <string.h>
#include "ext2fs/ext2fs.h"
int main(int argc, char **argv)
{
	ext2_filsys fs; struct ext2_xattr_handle *h; errcode_t e;
	size_t len = atoi(argv[2]), got, i; void *v; unsigned char *val = malloc(len + 1);
	for (i = 0; i < len; i++) val[i] = (i * 7 + 3) % 251;
	e = ext2fs_open(argv[1], EXT2_FLAG_RW | EXT2_FLAG_64BITS, 0, 0, unix_io_manager, &fs);
	if (e) { com_err("open", e, 0); return 2; }
	if ((e = ext2fs_read_bitmaps(fs)) || (e = ext2fs_xattrs_open(fs, 12, &h)) || (e = ext2fs_xattrs_read(h))) { com_err("setup", e, 0); return 2; }
	e = ext2fs_xattr_set(h, "user.small", "abc", 3);
	if (e) { com_err("set user.small", e, 0); return 2; }
	e = ext2fs_xattr_set(h, "user.big", val, len);
	printf("ext2fs_xattr_set(user.big, %zu bytes) -> %s\n", len, e ? error_message(e) : "ok");
	ext2fs_xattrs_close(&h);
	ext2fs_close(fs);
	if (e) { printf("refused at set time\n"); return 0; }
	e = ext2fs_open(argv[1], EXT2_FLAG_64BITS, 0, 0, unix_io_manager, &fs);
	if (e || (e = ext2fs_xattrs_open(fs, 12, &h))) return 2;
	e = ext2fs_xattrs_read(h);
	if (e) { printf("ext2fs_xattrs_read of the same inode now fails: %s (user.small is unreachable too)\n", error_message(e)); return 1; }
	e = ext2fs_xattr_get(h, "user.big", &v, &got);
	if (e || got != len || memcmp(v, val, len)) { printf("value does not read back\n"); return 1; }
	printf("value reads back unchanged\n");
	return 0;
}
