#!/bin/sh
# see demo.c.  usage: demo.sh [built e2fsprogs tree, default /repo]
# exit 0 = defect absent, 1 = a successful ext2fs_xattr_set makes the inode's attributes unreadable, 2 = setup problem
T=${1:-/repo}
d=$(mktemp -d); trap 'rm -rf $d' EXIT
gcc -g -DHAVE_CONFIG_H -I$T/lib -I$T/lib/ext2fs -I$T/include -I$T \
    -o $d/demo $(dirname $0)/demo.c $T/lib/libext2fs.a $T/lib/libcom_err.a -lpthread 2>$d/cc.log || { cat $d/cc.log; exit 2; }
dd if=/dev/zero of=$d/img bs=1k count=4096 status=none || exit 2
$T/misc/mke2fs -q -F -t ext4 -b 1024 -I 256 -O ea_inode,^has_journal $d/img >/dev/null 2>&1 || exit 2
echo hello > $d/f
$T/debugfs/debugfs -w -R "write $d/f f" $d/img >/dev/null 2>&1 || exit 2
$d/demo $d/img 65537
rc=$?
$T/debugfs/debugfs -R "ea_list f" $d/img 2>&1 | grep -v "^debugfs" | head -3
[ $rc = 1 ] && echo "DEFECT PRESENT"
exit $rc
