/*
 * C16 finding: rb_remove_extent() (lib/ext2fs/blkmap64_rb.c) returns 1 ("a bit was set") when the bit just
 * BEFORE an extent is unmarked: the right-neighbour loop stops with `(start + count) < ext->start`, so for
 * start + count == ext->start it goes on, "truncates" the neighbour by 0 bits and sets retval = 1.
 * Failed obligation: unit bitmap_gen/rb_remove_extent, "remove_extent returns nonzero iff some bit of the range
 * was set".  The set itself stays correct; only the return value of unmark is wrong.
 * Exit 0 = behaves as a set, 1 = defect present.
 */
#include <stdio.h>
#include "ext2fs/ext2fs.h"

static int probe(int type, const char *name)
{
	ext2fs_generic_bitmap bm;
	int r, still;

	if (ext2fs_alloc_generic_bmap(0, EXT2_ET_MAGIC_GENERIC_BITMAP64, type, 0, 99, 99, "demo", &bm))
		return 2;
	ext2fs_mark_generic_bmap(bm, 10);
	r = ext2fs_unmark_generic_bmap(bm, 9);		/* bit 9 was never set */
	still = ext2fs_test_generic_bmap(bm, 10);
	printf("%-8s {10}: unmark(9) returned %d, bit 10 still %d   (a set answers 0, 1)\n", name, r, still);
	ext2fs_free_generic_bmap(bm);
	return r != 0 || !still;
}

int main(void)
{
	int bad = probe(EXT2FS_BMAP64_BITARRAY, "bitarray");
	bad |= probe(EXT2FS_BMAP64_RBTREE, "rbtree");
	if (bad)
		printf("DEFECT PRESENT\n");
	return bad ? 1 : 0;
}
