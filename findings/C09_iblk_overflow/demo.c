/*
 * C09 finding "iblk_overflow": lib/ext2fs/i_block.c does not keep "overflow => EOVERFLOW, no partial update".
 *  case 1  ext2fs_iblk_set() without huge_file: value needing more than 32 bits -> returns EOVERFLOW but
 *          i_blocks has already been overwritten with the low 32 bits (partial update).
 *  case 2  ext2fs_iblk_set() with huge_file: value >= 2^48 sectors -> returns 0, count silently truncated.
 *  case 3  ext2fs_iblk_add_blocks() with huge_file: sum >= 2^48 -> returns 0, count wraps to a small number.
 * Found by units fileio/iblk_set and fileio/iblk_add_blocks (obligations *.postcondition.2).
 * exit 1 when any case misbehaves.
 */
#include <stdio.h>
#include <string.h>
#include <errno.h>
#include "ext2fs/ext2_fs.h"
#include "ext2fs/ext2fs.h"

int main(void)
{
	struct struct_ext2_filsys fs;
	struct ext2_super_block sb;
	struct ext2_inode ino;
	errcode_t r;
	int bad = 0;

	memset(&fs, 0, sizeof(fs)); memset(&sb, 0, sizeof(sb));
	fs.super = &sb; fs.blocksize = 4096; fs.cluster_ratio_bits = 0;

	/* 1: no huge_file, 2^29 blocks of 4 KiB = 2^32 sectors: does not fit 32 bits */
	memset(&ino, 0, sizeof(ino)); ino.i_blocks = 1234;
	r = ext2fs_iblk_set(&fs, &ino, 1ULL << 29);
	printf("case 1: ret=%ld (EOVERFLOW=%d) i_blocks=%u (was 1234)\n", (long)r, EOVERFLOW, ino.i_blocks);
	if (r != EOVERFLOW || ino.i_blocks != 1234) { puts("  WRONG: error returned but inode modified"); bad = 1; }

	/* 2: huge_file, 2^45 blocks of 4 KiB = 2^48 sectors: does not fit 48 bits */
	sb.s_feature_ro_compat = EXT4_FEATURE_RO_COMPAT_HUGE_FILE;
	memset(&ino, 0, sizeof(ino)); ino.i_blocks = 1234;
	r = ext2fs_iblk_set(&fs, &ino, 1ULL << 45);
	printf("case 2: ret=%ld i_blocks=%u hi=%u\n", (long)r, ino.i_blocks, ino.osd2.linux2.l_i_blocks_hi);
	if (r != EOVERFLOW || ino.i_blocks != 1234) { puts("  WRONG: 2^48 sectors silently stored as 0"); bad = 1; }

	/* 3: huge_file, count 2^48-8 sectors, add 2 blocks (16 sectors) */
	memset(&ino, 0, sizeof(ino)); ino.i_blocks = 0xFFFFFFF8u; ino.osd2.linux2.l_i_blocks_hi = 0xFFFF;
	r = ext2fs_iblk_add_blocks(&fs, &ino, 2);
	printf("case 3: ret=%ld i_blocks=%u hi=%u\n", (long)r, ino.i_blocks, ino.osd2.linux2.l_i_blocks_hi);
	if (r != EOVERFLOW || ino.i_blocks != 0xFFFFFFF8u || ino.osd2.linux2.l_i_blocks_hi != 0xFFFF) {
		puts("  WRONG: count wrapped around 2^48 without an error"); bad = 1;
	}
	return bad;
}
