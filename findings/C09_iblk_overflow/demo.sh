#!/bin/sh
# usage: demo.sh [built e2fsprogs tree, default /repo] [source tree when built out of tree]; exit 0 = correct, 1 = i_blocks overflow mishandled
T=${1:-/repo}
d=$(mktemp -d); trap 'rm -rf $d' EXIT
gcc -I$T/lib ${2:+-I$2/lib} -o $d/demo $(dirname $0)/demo.c $T/lib/libext2fs.a $T/lib/libcom_err.a -lpthread || exit 2
$d/demo
