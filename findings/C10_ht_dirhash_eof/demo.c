/*
 * C10 — lib/ext2fs/dirhash.c:ext2fs_dirhash does not apply the kernel's end-of-directory clamp.
 *
 * Kernel, fs/ext4/hash.c:__ext4fs_dirhash() (since v3.4, commit d1f5273e9adb "ext4: return 32/64-bit dir name hash
 * according to usage type"):
 *
 *	hash = hash & ~1;
 *	if (hash == (EXT4_HTREE_EOF_32BIT << 1))		// 0xfffffffe, reserved as the readdir EOF cookie
 *		hash = (EXT4_HTREE_EOF_32BIT - 1) << 1;		// 0xfffffffc
 *
 * ext2fs_dirhash() stops after "hash & ~1".  For a name whose raw hash is 0xfffffffe/0xffffffff the kernel files and looks up
 * the entry under 0xfffffffc, libext2fs (dx_link / dx_lookup in link.c, e2fsck pass2 and rehash) under 0xfffffffe.
 * Consequences whenever an index entry with hash 0xfffffffd or 0xfffffffe separates the two values (e.g. a leaf split by
 * dx_split_leaf whose first moved entry is such a name makes exactly that index entry):
 *   - a name inserted by libext2fs (debugfs/fuse2fs/mke2fs -d) is not found by the kernel's lookup (it searches the leaf for 0xfffffffc);
 *   - e2fsck pass2 flags a kernel-created directory as having an out-of-range hash in the htree leaf.
 * About one name in 2^31 is affected; the names below were found by exhaustive search with the default seed.
 *
 * The demo computes the hash with the real library and with an independent transcription of the kernel function
 * (/verif/specs/htree_hash.h).  Exit 1 = library returns the reserved value (defect present), 0 = clamped like the kernel.
 */
#include <stdio.h>
#include <string.h>
#include "ext2fs/ext2fs.h"
#include "htree_hash.h"

static int one(int version, const char *vname, const unsigned char *name, int len)
{
	ext2_dirhash_t h = 0, mh = 0;
	hh_u32 raw, kminor, kernel;
	errcode_t r = ext2fs_dirhash(version, (const char *)name, len, NULL, &h, &mh);

	hh_dirhash(version, name, len, NULL, &raw, &kminor);
	kernel = hh_eof_clamp(raw);
	printf("%-16s name ", vname);
	for (int i = 0; i < len; i++)
		printf(name[i] > 32 && name[i] < 127 ? "%c" : "\\x%02x", name[i]);
	printf(": ext2fs_dirhash -> %s0x%08x, kernel __ext4fs_dirhash -> 0x%08x%s\n", r ? "error, " : "", h, kernel,
	       h == kernel ? "" : "   <-- DIFFERENT");
	return h != kernel;
}

int main(void)
{
	/* witness found by the verifier (unit htree/ht_dirhash_eof) */
	static const unsigned char w_legacy[8] = { 163, 6, 124, 63, 60, 204, 73, 153 };
	int bad = 0;

	bad |= one(EXT2_HASH_LEGACY_UNSIGNED, "legacy_unsigned", w_legacy, 8);
	/* plain file names, default seed (s_hash_seed all zero), found by brute force over f_[a-z0-9]{8} */
	bad |= one(EXT2_HASH_HALF_MD4, "half_md4", (const unsigned char *)"f_58q6h7aa", 10);
	bad |= one(EXT2_HASH_TEA, "tea", (const unsigned char *)"f_r48f3daa", 10);
	if (bad) {
		printf("DEFECT PRESENT: ext2fs_dirhash returns the reserved hash 0xfffffffe where the kernel uses 0xfffffffc\n");
		return 1;
	}
	printf("ok: ext2fs_dirhash agrees with the kernel on the reserved value\n");
	return 0;
}
