#!/bin/sh
# usage: demo.sh [built e2fsprogs tree, default /repo]; exit 0 = hash agrees with the kernel, 1 = defect present
T=${1:-/repo}
d=$(mktemp -d); trap 'rm -rf $d' EXIT
if [ -f $T/lib/libext2fs.a ]; then
	gcc -w -DHAVE_CONFIG_H -I$T/lib -I/verif/specs -o $d/demo $(dirname $0)/demo.c $T/lib/libext2fs.a $T/lib/libcom_err.a || exit 2
else
	# scratch worktree without built libraries: compile this tree's dirhash.c directly (generated headers from /repo)
	gcc -w -DHAVE_CONFIG_H -I$T/lib -I$T/lib/ext2fs -I/repo/lib -I/repo/lib/ext2fs -I/verif/specs -o $d/demo $(dirname $0)/demo.c $T/lib/ext2fs/dirhash.c /repo/lib/libcom_err.a || exit 2
fi
$d/demo
