#!/bin/sh
# usage: demo.sh [built e2fsprogs tree, default /repo]
# exit 1 = defect present (a casefolded directory entry needs TWO `e2fsck -fy` runs), 0 = absent, 2 = set-up problem.
#
# e2fsck/pass2.c:encoded_check_name (strict-mode / -E check_encoding casefolded directories)
#   variant A: the name holds a '/' AND an invalid UTF-8 byte: the accepted PR_2_BAD_ENCODED_NAME repair makes
#              `return (ret || check_name(...))` skip check_name, so the '/' is only reported by the next run;
#   variant B: the name holds a NUL followed by an invalid UTF-8 byte: the validator stops at the NUL (name looks valid),
#              check_name turns the NUL into '.', which exposes the invalid byte to the validator of the next run.
# In both cases the first run ends with "FILE SYSTEM WAS MODIFIED" (exit 1) and the second run finds a new problem
# in the same entry (exit 1 again) instead of a clean file system (property C01).
T=${1:-/repo}
d=$(mktemp -d); trap 'rm -rf $d' EXIT
printf x > $d/f
rc=0
for variant in A B; do
	$T/misc/mke2fs -q -F -t ext4 -O casefold,^metadata_csum,^has_journal -E encoding=utf8,encoding_flags=strict \
		-b 1024 $d/img 8192 >/dev/null 2>&1 || exit 2
	$T/debugfs/debugfs -w $d/img -f - >/dev/null 2>&1 <<EOS
mkdir d
set_inode_field d flags 0x40080000
cd d
write $d/f aSbX
EOS
	# patch the name in the directory block: 'S' -> '/' (A) or NUL (B), 'X' -> 0xff (invalid UTF-8)
	python3 - $d/img $variant <<'EOS' || exit 2
import sys
img, variant = sys.argv[1], sys.argv[2]
d = bytearray(open(img, 'rb').read())
i = d.find(b'aSbX')
if i < 0:
    sys.exit(1)
d[i + 1] = ord('/') if variant == 'A' else 0
d[i + 3] = 0xff
open(img, 'wb').write(d)
EOS
	$T/e2fsck/e2fsck -fy $d/img > $d/out1 2>&1; r1=$?
	$T/e2fsck/e2fsck -fy $d/img > $d/out2 2>&1; r2=$?
	[ $r1 -eq 1 ] || { echo "variant $variant: unexpected first-run status $r1"; cat $d/out1; exit 2; }
	if [ $r2 -ne 0 ]; then
		echo "variant $variant: DEFECT: second e2fsck -fy run still finds problems (exit $r2):"
		grep -i "^Entry" $d/out1 | sed 's/^/  run 1: /'
		grep -i "^Entry" $d/out2 | sed 's/^/  run 2: /'
		rc=1
	else
		echo "variant $variant: second run clean"
	fi
done
exit $rc
