#!/bin/sh
# C15 finding: ext2fs_xattr_set() accepts an attribute name whose short name is longer than 255 bytes; the on-disk
# field e_name_len is 8 bits, write_xattrs_to_buffer() stores strlen(short_name) truncated to 8 bits and copies only
# that many bytes, so the attribute is silently stored under a DIFFERENT, shorter name (length mod 256) and can
# collide with an existing attribute.  The kernel refuses such a name (ERANGE).  Every proof unit of group xattr
# assumes "names <= 255" (space_used, xattr_find_position, write_xattrs_to_buffer): this is the precondition the
# public entry point does not enforce.
# usage: demo.sh [built e2fsprogs tree, default /repo]
# exit 0 = the over-long name is refused, or read back unchanged; 1 = it reads back as a different name; 2 = setup problem
T=${1:-/repo}
d=$(mktemp -d); trap 'rm -rf $d' EXIT
dd if=/dev/zero of=$d/img bs=1k count=2048 status=none || exit 2
$T/misc/mke2fs -q -F -t ext4 -I 256 $d/img >/dev/null 2>&1 || exit 2
echo hello > $d/f
$T/debugfs/debugfs -w -R "write $d/f f" $d/img >/dev/null 2>&1 || exit 2
long=$(awk 'BEGIN{s="user."; for(i=0;i<300;i++) s=s "a"; print s}')
short=$(awk 'BEGIN{s="user."; for(i=0;i<44;i++) s=s "a"; print s}')	# 300 mod 256 = 44
$T/debugfs/debugfs -w -R "ea_set /f $long val" $d/img > $d/set.out 2>&1
$T/debugfs/debugfs -R "ea_list /f" $d/img > $d/list.out 2>&1
echo "ea_set of a name with a 300-byte short name said: $(grep -v '^debugfs' $d/set.out | head -1)"
echo "ea_list now shows:"; grep -v '^debugfs' $d/list.out | cut -c1-100
if grep -q "$long " $d/list.out; then echo "name read back unchanged"; exit 0; fi
if grep -q "$short (3)" $d/list.out; then
	echo "DEFECT PRESENT: the attribute was stored as user.+44 x 'a' (name length truncated to 8 bits)"; exit 1
fi
echo "the over-long name was refused: defect absent"; exit 0
