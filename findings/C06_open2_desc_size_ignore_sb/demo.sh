#!/bin/sh
# usage: demo.sh [built e2fsprogs tree, default /repo]
# exit 1 = defect present (valgrind: invalid heap write in ext2fs_open2 -> ext2fs_bg_itable_unused_set / ext2fs_bg_flags_clear),
#      0 = absent, 2 = cannot run
#
# lib/ext2fs/openfs.c:ext2fs_open2 validates s_desc_size of a 64bit superblock, but with EXT2_FLAG_IGNORE_SB_ERRORS
# (e2fsck's automatic second attempt after EXT2_ET_BAD_DESC_SIZE / EXT2_ET_CORRUPT_SUPERBLOCK, and debugfs -c) it only
# refuses 0.  The descriptor accessors (lib/ext2fs/blknum.c:ext2fs_group_desc) address descriptor g at byte
# g * (s_desc_size & ~7) of the descriptor array (desc_blocks * blocksize bytes, desc_blocks = ceil(groups / (blocksize /
# s_desc_size))) and read/write the whole struct ext4_group_desc (64 bytes) there.  With s_desc_size = 8 and 128 groups on a
# 1 KiB-block file system the array has 1024 bytes and group 127 sits at byte 1016: bg_flags (offset 18), bg_itable_unused
# (28), bg_checksum (30) ... lie behind the allocation.  When a backup superblock is named (-b / -s), ext2fs_open2 itself
# runs ext2fs_bg_flags_clear / ext2fs_bg_itable_unused_set / ext2fs_group_desc_csum_set over all groups
# (`superblock > 1 && ext2fs_has_group_desc_csum(fs)`): heap WRITE overflow, also under `e2fsck -n`.
T=${1:-/repo}
command -v valgrind >/dev/null 2>&1 || { echo "valgrind not available"; exit 2; }
for p in misc/mke2fs debugfs/debugfs e2fsck/e2fsck; do [ -x "$T/$p" ] || { echo "missing $T/$p"; exit 2; }; done
d=$(mktemp -d); trap 'rm -rf $d' EXIT
dd if=/dev/zero of=$d/img bs=1k count=32769 2>/dev/null
# 32768 blocks, 256 per group => 128 groups; first backup superblock at block 257
"$T/misc/mke2fs" -q -F -t ext4 -O 64bit,^metadata_csum,uninit_bg,^resize_inode -b 1024 -g 256 $d/img || exit 2
# s_desc_size (le16 at byte 0xFE of the superblock) of the backup superblock in block 257 := 8
printf '\010\000' | dd of=$d/img bs=1 seek=$((257 * 1024 + 254)) conv=notrunc 2>/dev/null
rc=0
valgrind -q --error-exitcode=99 "$T/e2fsck/e2fsck" -fn -b 257 -B 1024 $d/img > $d/out1 2>&1
grep -q "Invalid write" $d/out1 && grep -q "by .*ext2fs_open2" $d/out1 && rc=1	# (the overflow can take valgrind itself down: do not rely on its exit code)
valgrind -q --error-exitcode=99 "$T/debugfs/debugfs" -c -b 1024 -s 257 -R "stats" $d/img > $d/out2 2>&1
grep -q "Invalid write" $d/out2 && grep -q "by .*ext2fs_open2" $d/out2 && rc=1
grep -h -m1 -A3 "Invalid write" $d/out1 $d/out2 | head -10
if [ $rc -eq 1 ]; then
	echo "DEFECT PRESENT: ext2fs_open2 accepts s_desc_size=8 (64bit, IGNORE_SB_ERRORS) and writes behind the descriptor array"
	exit 1
fi
grep -h "descriptor size" $d/out1 $d/out2 | head -3
echo "no invalid write"
exit 0
