/*
 * Replay against the real code of the C17 finding "clean cache entries survive
 * flush_cached_blocks(FLUSH_INVALIDATE)" (failed obligation
 * flush_cached_blocks.postcondition.3 of unit unixio/flush_cached_blocks) and of the
 * related "unix_zeroout bypasses the cache" finding.
 * Uses only the public io_manager API on a scratch file.  Exit 0 = coherent, 1 = stale read.
 */
#include <stdio.h>
#include <stdlib.h>
#include <string.h>
#include <unistd.h>
#include "ext2fs/ext2fs.h"

#define BS 1024
static char big[8 * BS], one[BS], got[BS];

static int check(io_channel ch, const char *what, int expect)
{
	memset(got, 0x55, BS);
	if (io_channel_read_blk64(ch, 5, 1, got)) { printf("read error\n"); return 2; }
	if ((unsigned char)got[10] != expect) {
		printf("STALE READ after %s: block 5 reads 0x%02x, most recently written 0x%02x\n",
		       what, (unsigned char)got[10], expect);
		return 1;
	}
	return 0;
}

int main(int argc, char **argv)
{
	io_channel ch;
	int bad = 0;
	char name[] = "/tmp/verif_c17_XXXXXX";
	int fd = mkstemp(name);
	if (fd < 0 || ftruncate(fd, 64 * BS)) return 2;
	close(fd);
	if (unix_io_manager->open(name, IO_FLAG_RW, &ch)) return 2;
	io_channel_set_blksize(ch, BS);

	/* 1. large (> 4 blocks) direct write over a clean cached block */
	memset(one, 'A', BS);
	io_channel_write_blk64(ch, 5, 1, one);
	io_channel_flush(ch);			/* block 5 cached and clean */
	memset(big, 'B', sizeof(big));
	io_channel_write_blk64(ch, 0, 8, big);	/* direct write, cache must be invalidated */
	bad |= check(ch, "an 8-block write", 'B');

	/* 2. byte write over a clean cached block */
	io_channel_read_blk64(ch, 5, 1, got);	/* cached, clean */
	memset(one, 'C', BS);
	io_channel_write_byte(ch, 5 * BS, BS, one);
	bad |= check(ch, "a byte-granular write", 'C');

	/* 3. zeroout over a cached block */
	io_channel_read_blk64(ch, 5, 1, got);
	if (io_channel_zeroout(ch, 5, 1) == 0)
		bad |= check(ch, "zeroout", 0);
	else
		printf("(zeroout not supported here: skipped)\n");

	/* 4. zeroout over a DIRTY cached block: the old data must not come back at flush */
	memset(one, 'D', BS);
	io_channel_write_blk64(ch, 5, 1, one);	/* dirty in cache */
	if (io_channel_zeroout(ch, 5, 1) == 0) {
		io_channel_flush(ch);
		bad |= check(ch, "zeroout of a dirty block + flush", 0);
	}
	io_channel_close(ch);
	unlink(name);
	printf(bad ? "FAIL\n" : "OK\n");
	return bad ? 1 : 0;
}
