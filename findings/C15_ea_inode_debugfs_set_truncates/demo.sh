#!/bin/sh
# C15 finding ("values of any length ... read back exactly as set"): debugfs `ea_set -f <file>` reads at most ONE file
# system block of the value file (debugfs/xattrs.c do_set_xattr: fread(buf, 1, current_fs->blocksize, fp)) and stores
# that prefix without any message.  With ea_inode a value may be up to 64 KiB; a 5000-byte value on a 1 KiB-block file
# system comes back as 1024 bytes.  The library itself stores and returns multi-block values correctly (unit
# xattr/ea_inode_read, and ext2fs_xattr_set/ext2fs_xattr_get round-trip natively): the truncation is in debugfs.
# usage: demo.sh [built e2fsprogs tree, default /repo]
# exit 0 = the value reads back unchanged (defect absent), 1 = truncated, 2 = setup problem
T=${1:-/repo}
d=$(mktemp -d); trap 'rm -rf $d' EXIT
dd if=/dev/zero of=$d/img bs=1k count=4096 status=none || exit 2
$T/misc/mke2fs -q -F -t ext4 -b 1024 -I 256 -O ea_inode,^has_journal $d/img >/dev/null 2>&1 || exit 2
echo hello > $d/f
awk 'BEGIN{for(i=0;i<5000;i++) printf "%c", 97 + (i*7+3) % 26}' > $d/val
$T/debugfs/debugfs -w -R "write $d/f f" $d/img >/dev/null 2>&1 || exit 2
$T/debugfs/debugfs -w -R "ea_set -f $d/val f user.big" $d/img > $d/set.out 2>&1
echo "ea_set -f <5000-byte file> said: $(grep -v '^debugfs' $d/set.out | head -1)"
$T/debugfs/debugfs -R "ea_get -f $d/out f user.big" $d/img >/dev/null 2>&1
$T/debugfs/debugfs -R "ea_list f" $d/img 2>/dev/null | grep -v "^debugfs" | cut -c1-60
if cmp -s $d/val $d/out; then echo "value reads back unchanged: defect absent"; exit 0; fi
echo "DEFECT PRESENT: set 5000 bytes, got back $(wc -c < $d/out) bytes"; exit 1
