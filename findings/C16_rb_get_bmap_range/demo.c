/*
 * C16 finding: rb_get_bmap_range() (lib/ext2fs/blkmap64_rb.c) returns 0 on an EMPTY rbtree bitmap without
 * clearing the caller's buffer (the early `return 0` precedes the memset), so stale buffer content is reported as
 * set bits.  Failed obligation: unit bitmap_gen/rb_get_bmap_range, "get_bmap_range: output bit j = membership of
 * start + j" (counterexample: n = 0 extents, buffer byte != 0).
 * Exit 0 = behaves as a set, 1 = defect present.
 */
#include <stdio.h>
#include <string.h>
#include "ext2fs/ext2fs.h"

static int probe(int type, const char *name)
{
	ext2fs_generic_bitmap bm;
	unsigned char buf[8];
	errcode_t r;
	int i, bad = 0;

	if (ext2fs_alloc_generic_bmap(0, EXT2_ET_MAGIC_GENERIC_BITMAP64, type, 0, 99, 99, "demo", &bm))
		return 2;
	memset(buf, 0xA5, sizeof(buf));		/* stale content of the caller's buffer */
	r = ext2fs_get_generic_bmap_range(bm, 0, 64, buf);
	for (i = 0; i < 8; i++)
		if (buf[i])
			bad = 1;
	printf("%-8s empty bitmap, get_range(0, 64): ret=%ld first byte=0x%02x   (a set answers all zero)\n",
	       name, (long)r, buf[0]);
	ext2fs_free_generic_bmap(bm);
	return bad || r;
}

int main(void)
{
	int bad = probe(EXT2FS_BMAP64_BITARRAY, "bitarray");
	bad |= probe(EXT2FS_BMAP64_RBTREE, "rbtree");
	if (bad)
		printf("DEFECT PRESENT\n");
	return bad ? 1 : 0;
}
