#!/bin/sh
# usage: demo.sh [built e2fsprogs tree, default /repo]
# exit 1 = defect present, 0 = absent, 2 = cannot run
#
# e2fsck/pass1.c:scan_extent_node never checks that the LOGICAL range of a leaf extent stays inside the 32-bit
# ee_block space.  The kernel does (fs/ext4/extents.c:ext4_valid_extent: last = lblock + len - 1 in 32-bit arithmetic,
# "lblock > last" => invalid extent entries => EFSCORRUPTED, the file cannot be opened, the fs is flagged in error).
# An unwritten extent with lblk = 4294967294, len = 3 (logical blocks 2^32-2 .. 2^32) in a small regular file passes
# every e2fsck test: pblk range is fine, order is fine, it is beyond EOF but unwritten (fallocate KEEP_SIZE look-alike),
# i_size is not compared with unwritten extents.  `e2fsck -fn` exits 0 on an image whose extent tree is not well-formed.
T=${1:-/repo}
for p in misc/mke2fs debugfs/debugfs e2fsck/e2fsck; do [ -x "$T/$p" ] || { echo "missing $T/$p"; exit 2; }; done
d=$(mktemp -d); trap 'rm -rf $d' EXIT
dd if=/dev/zero of=$d/img bs=1k count=8192 2>/dev/null
"$T/misc/mke2fs" -q -F -t ext4 -O ^metadata_csum -b 4096 $d/img || exit 2
echo hello > $d/f.txt
"$T/debugfs/debugfs" -w -R "write $d/f.txt f" $d/img >/dev/null 2>&1
cat > $d/cmds <<EOC
extent_open f
root_node
insert_node --after --uninit 4294967294 3 1500
extent_close
setb 1500 3
sif f blocks 32
EOC
"$T/debugfs/debugfs" -w -f $d/cmds $d/img >/dev/null 2>&1
"$T/debugfs/debugfs" -R "ex f" $d/img 2>/dev/null | grep -q "4294967294 - 4294967296" || { echo "set-up failed: extent not inserted"; exit 2; }
# bring the group free-block counters in line with the three blocks claimed above (summary counters only)
"$T/e2fsck/e2fsck" -fy $d/img > $d/out0 2>&1
"$T/debugfs/debugfs" -R "ex f" $d/img 2>/dev/null | grep -q "4294967294 - 4294967296" || { echo "absent: e2fsck -fy removed the wrapping extent"; cat $d/out0; exit 0; }
"$T/e2fsck/e2fsck" -fn $d/img > $d/out 2>&1; rc=$?
"$T/debugfs/debugfs" -R "ex f" $d/img 2>/dev/null
echo "e2fsck -fn: exit $rc"
if [ $rc -eq 0 ]; then
	echo "DEFECT PRESENT: e2fsck -fn exits 0 although inode 12 holds a leaf extent whose logical range 4294967294..4294967296 wraps 2^32"
	echo "(a Linux kernel refuses the file: 'ext4_ext_check_inode: bad header/extent: invalid extent entries', open() = EUCLEAN)"
	exit 1
fi
cat $d/out
exit 0
