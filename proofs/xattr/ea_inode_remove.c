/* VERIF-UNIT
{
 "name": "ea_inode_remove",
 "props": ["C15"],
 "level": "U/k",
 "tier": "quick",
 "harness": "h_remove",
 "replace": ["xattr_inode_dec_ref", "ext2fs_xattrs_write"],
 "defines": ["NO_INLINE_FUNCS"],
 "cbmc_flags": ["--object-bits", "10"],
 "unwind": 6,
 "unwind_reason": "the search loop of ext2fs_xattr_remove runs over handle->count <= 4 entries (array of the harness: capacity 4, the initial capacity of ext2fs_xattrs_open); unwinding assertions on",
 "functions": ["lib/ext2fs/ext_attr.c:ext2fs_xattr_remove"],
 "assumes": ["array of capacity 4 with 0 <= ibody_count <= count <= 4 used slots (bounded stand-in for the array length only: the code treats every slot alike); every used slot has heap name and value buffers; unused slots are all zero",
             "libc strcmp is an uninterpreted function of the two pointers (names are not modified between the comparisons); the allocation wrapper ext2fs_free_mem (lib/ext2fs/inline.c, compiled out by NO_INLINE_FUNCS) is a stub with a typed pointer store that counts the frees of each ghost slot's buffers; libc memmove is a stub with ISO semantics specialised to whole array elements (applicability CHECKED at every call)",
             "callees by contract: xattr_inode_dec_ref (recorded; may fail — the caller ignores the result), ext2fs_xattrs_write (records the array state it sees; arbitrary result)"],
 "native": false
}
*/
#include "xat_common.h"
#include "xattr2_ea_inode_spec.h"

#define RM_CAP 4
struct in_s {
	int count, ibody_count;
	struct { int name_index; unsigned int value_len, ea_ino; } a[RM_CAP];
	int k;			/* ghost slot index */
	long rc_dec, rc_write;
};
struct in_s IN;
#include "verif_in.h"

#ifndef VERIF_NATIVE
int __CPROVER_uninterpreted_x2_strcmp(const char *, const char *);
int strcmp(const char *a, const char *b) { return __CPROVER_uninterpreted_x2_strcmp(a, b); }
#endif

static void *g_names[RM_CAP], *g_values[RM_CAP];
static unsigned int g_free_name[RM_CAP], g_free_value[RM_CAP], g_free_other;
errcode_t ext2fs_free_mem(void *ptr)
{
	void *p = *(void **)ptr;
	int hit = 0;
	for (int i = 0; i < RM_CAP; i++) {
		if (p && p == g_names[i]) { g_free_name[i]++; hit = 1; }
		if (p && p == g_values[i]) { g_free_value[i]++; hit = 1; }
	}
	if (!hit) g_free_other++;
	free(p);
	*(void **)ptr = 0;
	return 0;
}
errcode_t ext2fs_get_mem(unsigned long size, void *ptr) { void *p = malloc(size); if (!p) return EXT2_ET_NO_MEMORY; *(void **)ptr = p; return 0; }
errcode_t ext2fs_get_memzero(unsigned long size, void *ptr) { void *p = calloc(1, size); if (!p) return EXT2_ET_NO_MEMORY; *(void **)ptr = p; return 0; }
errcode_t ext2fs_get_array(unsigned long count, unsigned long size, void *ptr) { return ext2fs_get_mem(count * size, ptr); }
errcode_t ext2fs_get_arrayzero(unsigned long count, unsigned long size, void *ptr) { return ext2fs_get_memzero(count * size, ptr); }

/* release / write-back monitor */
struct xat2_rm_s { unsigned int ndec, dec_ino, nwrite, dec_before_write; int w_count, w_ibody; } xat2_rm;

#include "lib/ext2fs/ext_attr.c"

#ifndef VERIF_NATIVE
/*
 * libc memmove, specialised to what ext2fs_xattr_remove moves: whole array elements inside the handle's array
 * (CHECKED at every call); ISO semantics (overlap-safe direction).  CBMC 6.11's built-in model leaves a typed struct
 * array unchanged under DFCC, and costs minutes with a symbolic length.
 */
static struct ext2_xattr *g_arr;
void *memmove(void *dst, const void *src, size_t n)
{
	__CPROVER_assert(__CPROVER_r_ok(src, n), "CHECK:memmove source range readable");
	__CPROVER_assert(__CPROVER_w_ok(dst, n), "CHECK:memmove destination range inside the attribute array");
	size_t ne = RM_CAP + 1, di = RM_CAP + 1, si = RM_CAP + 1;
	for (size_t q = 0; q <= RM_CAP; q++) {
		if (n == q * sizeof(struct ext2_xattr)) ne = q;
		if ((struct ext2_xattr *)dst == g_arr + q) di = q;
		if ((const struct ext2_xattr *)src == g_arr + q) si = q;
	}
	__CPROVER_assert(ne <= RM_CAP && di <= RM_CAP && si <= RM_CAP, "CHECK:memmove moves whole elements inside the handle's array");
	__CPROVER_assume(ne <= RM_CAP && di <= RM_CAP && si <= RM_CAP);
	if (di <= si) {
		for (size_t i = 0; i < RM_CAP; i++)
			if (i < ne) g_arr[di + i] = g_arr[si + i];
	} else {
		for (size_t i = RM_CAP; i > 0; i--)
			if (i - 1 < ne) g_arr[di + i - 1] = g_arr[si + i - 1];
	}
	return dst;
}
#endif


static errcode_t xattr_inode_dec_ref(ext2_filsys fs, ext2_ino_t ino)
	ENSURES(xat2_rm.ndec == OLD(xat2_rm.ndec) + 1 && xat2_rm.dec_ino == ino && xat2_rm.dec_before_write == (xat2_rm.nwrite == 0))
	ENSURES(RET == IN.rc_dec)
	ASSIGNS(xat2_rm.ndec, xat2_rm.dec_ino, xat2_rm.dec_before_write);

errcode_t ext2fs_xattrs_write(struct ext2_xattr_handle *handle)
	ENSURES(xat2_rm.nwrite == OLD(xat2_rm.nwrite) + 1 && xat2_rm.w_count == handle->count && xat2_rm.w_ibody == handle->ibody_count)
	ENSURES(RET == IN.rc_write)
	ASSIGNS(xat2_rm.nwrite, xat2_rm.w_count, xat2_rm.w_ibody);

void h_remove(void)
{
	LOAD_IN();
	ASSUME(IN.count >= 0 && IN.count <= RM_CAP && IN.ibody_count >= 0 && IN.ibody_count <= IN.count);
	ASSUME(IN.k >= 0 && IN.k < RM_CAP);
	static struct struct_ext2_filsys FS;
	struct ext2_xattr A[RM_CAP], before[RM_CAP];
	struct ext2_xattr_handle H;
	char *key = malloc(8);
	ASSUME(key != 0);
	g_free_other = 0;
	for (int i = 0; i < RM_CAP; i++) {
		g_free_name[i] = g_free_value[i] = 0;
		if (i < IN.count) {
			g_names[i] = malloc(8); g_values[i] = malloc(4);
			ASSUME(g_names[i] != 0 && g_values[i] != 0);
			A[i].name = g_names[i]; A[i].short_name = A[i].name + 5; A[i].value = g_values[i];
			A[i].name_index = IN.a[i].name_index; A[i].value_len = IN.a[i].value_len; A[i].ea_ino = IN.a[i].ea_ino;
		} else {
			g_names[i] = g_values[i] = 0;
			memset(&A[i], 0, sizeof(A[i]));
		}
		before[i] = A[i];
	}
	g_arr = A;
	H.magic = EXT2_ET_MAGIC_EA_HANDLE; H.fs = &FS; H.attrs = A; H.capacity = RM_CAP; H.count = IN.count;
	H.ibody_count = IN.ibody_count; H.ino = 12; H.flags = 0;
	xat2_rm.ndec = xat2_rm.dec_ino = xat2_rm.nwrite = 0; xat2_rm.dec_before_write = 0; xat2_rm.w_count = xat2_rm.w_ibody = -1;
	/* m: the first slot whose name equals the key (IN.count: none) */
	int m = IN.count;
	for (int i = RM_CAP - 1; i >= 0; i--)
		if (i < IN.count && __CPROVER_uninterpreted_x2_strcmp(A[i].name, key) == 0) m = i;

	errcode_t r = ext2fs_xattr_remove(&H, key);

	int k = IN.k;
	CHECK(H.attrs == A && H.capacity == RM_CAP, "the array itself stays");
	if (m == IN.count) {
		CHECK(r == 0 && H.count == IN.count && H.ibody_count == IN.ibody_count, "unknown key: success, nothing changes");
		CHECK(A[k].name == before[k].name && A[k].value == before[k].value && A[k].ea_ino == before[k].ea_ino && A[k].value_len == before[k].value_len,
		      "unknown key: slots untouched");
		CHECK(xat2_rm.ndec == 0 && xat2_rm.nwrite == 0 && g_free_name[k] == 0 && g_free_value[k] == 0, "unknown key: nothing released, nothing written");
		REACH("not found");
	} else {
		CHECK(H.count == IN.count - 1, "one attribute less");
		CHECK(H.ibody_count == IN.ibody_count - (m < IN.ibody_count ? 1 : 0), "the in-inode part shrinks exactly when the victim was stored in the inode");
		/* the map: slots before the victim stay, slots behind move down by one, the vacated last slot is all zero */
		if (k < m)
			CHECK(A[k].name == before[k].name && A[k].short_name == before[k].short_name && A[k].value == before[k].value &&
			      A[k].value_len == before[k].value_len && A[k].ea_ino == before[k].ea_ino && A[k].name_index == before[k].name_index, "slots before the victim stay");
		else if (k < IN.count - 1)
			CHECK(A[k].name == before[k + 1].name && A[k].short_name == before[k + 1].short_name && A[k].value == before[k + 1].value &&
			      A[k].value_len == before[k + 1].value_len && A[k].ea_ino == before[k + 1].ea_ino && A[k].name_index == before[k + 1].name_index, "slots behind the victim move down by one");
		else if (k == IN.count - 1)
			CHECK(A[k].name == 0 && A[k].short_name == 0 && A[k].value == 0 && A[k].value_len == 0 && A[k].ea_ino == 0 && A[k].name_index == 0, "the vacated slot is all zero");
		/* storage */
		CHECK(g_free_name[k] == (k == m ? 1 : 0) && g_free_value[k] == (k == m ? 1 : 0) && g_free_other == 0, "exactly the victim's name and value buffers are freed, once");
		CHECK(xat2_rm.ndec == (before[m].ea_ino ? 1 : 0), "the victim's EA inode loses exactly one reference; no other inode is touched");
		CHECK(!before[m].ea_ino || (xat2_rm.dec_ino == before[m].ea_ino), "... and it is the victim's");
		CHECK(xat2_rm.nwrite == 1 && xat2_rm.w_count == IN.count - 1 && xat2_rm.w_ibody == H.ibody_count, "the shrunken array is written back once");
		CHECK(r == IN.rc_write, "the result of the write-back is the result");
		if (before[m].ea_ino) REACH("victim with EA inode");
		if (m < IN.ibody_count) REACH("victim in the inode body");
		if (m > 0 && m < IN.count - 1) REACH("victim in the middle");
	}
	REACH("end");
}
