/* VERIF-UNIT
{
 "name": "array_update_map",
 "props": ["C15", "C06"],
 "level": "B(3)",
 "tier": "thorough",
 "harness": "h_array_update_map",
 "replace": ["find_ea_index", "xattr_update_entry"],
 "unwind": 8,
 "unwind_reason": "bounded unit: at most 3 attributes in an array of capacity 4 (no expansion), short names <= 2 bytes; xattr_find_position's loop (<= 3 iterations), the element loops of the memmove stub (4) and the harness loops (<= 5) are unwound, unwinding assertions on",
 "functions": ["lib/ext2fs/ext_attr.c:xattr_array_update", "lib/ext2fs/ext_attr.c:xattr_find_position"],
 "assumes": ["BOUNDED: count <= 3 attributes before the call (the 4-attribute case with expansion is unit array_update_map_full), short names <= 2 bytes with an optional 1-byte prefix, name index 0..3; value lengths and EA-inode numbers arbitrary (<= 2^24 / 32 bit), region capacities arbitrary <= 65536",
             "handle well formed: 0 <= ibody_count <= count <= 3 < capacity = 4, names are distinct heap strings, the block part (entries ibody_count..count-1) is sorted in the kernel's order, unused slots are zero",
             "call-site guarantees of ext2fs_xattr_set: old_idx is the index of the entry with the same full name (hence same name index and short name) or -1 if there is none; ibody_free / block_free = region capacity minus the terminator minus the space the region's entries use (computed here by the specification sum XSPEC_NEED, which space_used is proved to equal)",
             "callees by contract: find_ea_index (short name = name + prefix length, index as for the same-named entry), xattr_update_entry (contract proved in update_entry; the release of the old value buffer is not modelled here), ext2fs_xattrs_expand is the real function (never reached here: count < capacity)",
             "libc strlen / memcmp are stubs that identify their arguments among the harness's name buffers by pointer comparison (CHECKED) and compute the ISO C result from the known contents (the short-name pointer coming out of the find_ea_index contract is a constrained nondeterministic pointer CBMC cannot dereference); libc memmove is a stub with ISO semantics specialised to whole array elements (applicability CHECKED at every call)"],
 "native": false
}
*/
/* VERIF-UNIT
{
 "name": "array_update_map_full",
 "props": ["C15", "C06"],
 "level": "B(4)",
 "tier": "quick",
 "harness": "h_array_update_map",
 "defines": ["XAT_MAP_FULL"],
 "replace": ["find_ea_index", "xattr_update_entry"],
 "unwind": 10,
 "unwind_reason": "bounded unit: exactly 4 attributes in a full array of capacity 4 and a NEW name (expansion to 8 slots); xattr_find_position's loop (<= 4), the memmove stub's element loops (8) and the harness loops (<= 8) are unwound, unwinding assertions on",
 "functions": ["lib/ext2fs/ext_attr.c:xattr_array_update", "lib/ext2fs/ext_attr.c:xattr_find_position"],
 "assumes": ["as array_update_map, with count = capacity = 4 and old_idx = -1",
             "ext2fs_xattrs_expand is the REAL function here (a pointer installed by a replaced contract through an equality cannot be dereferenced by CBMC: the success path would silently become unreachable)"],
 "native": false
}
*/
#define XAT_UPDATE_ENTRY_NO_FREES
#include "xat_common.h"

#define CAP0 4		/* capacity before the call (the initial capacity of a handle) */
#ifdef XAT_MAP_FULL
#define NA 4		/* attributes before the call: the array is full, a new name forces the expansion to 8 slots */
#define XCAP 8
#else
#define NA 3		/* at most 3 attributes before the call: no expansion */
#define XCAP 4
#endif
#define NL 2		/* short-name bytes */
struct in_attr {
	unsigned char pfx;		/* 0/1: length of the prefix inside the full name */
	unsigned char len;		/* short-name length */
	unsigned char bytes[1 + NL];	/* prefix byte, then the short name */
	unsigned char idx;
	unsigned int value_len, ea_ino;
};
struct in_s {
	struct in_attr a[NA + 1];	/* [NA] is the key */
	int count, ibody_count, old_idx, in_inode;
	unsigned int cap_i, cap_b;	/* bytes available to entries + values + terminator in the inode body / the block */
	unsigned long long value_len, bk;
	unsigned int ek;		/* ghost element index */
	unsigned int new_ino;
	long rc_update, rc_expand;
};
struct in_s IN;
#include "verif_in.h"

#include "lib/ext2fs/ext_attr.c"
#include "xat_contracts.h"

#ifndef VERIF_NATIVE
/*
 * libc memmove, specialised to what xattr_array_update moves: whole struct ext2_xattr elements inside one array of at
 * most 8 elements (both CHECKED).  ISO semantics (overlap-safe copy direction).  CBMC's built-in model with a
 * symbolic length costs 11M SAT variables here.
 */
struct ext2_xattr *g_arr;	/* the handle's array before the call */
struct ext2_xattr_handle *g_h;	/* the handle (its array may have been replaced by ext2fs_xattrs_expand) */
void *memmove(void *dst, const void *src, size_t n)
{
	__CPROVER_assert(__CPROVER_r_ok(src, n), "CHECK:memmove source range readable");
	__CPROVER_assert(__CPROVER_w_ok(dst, n), "CHECK:memmove destination range inside the attribute array");
	/* element count and element indices by comparison (no 64-bit divider, no byte-offset dereference) */
	struct ext2_xattr *base = __CPROVER_same_object(dst, g_arr) ? g_arr : g_h->attrs;
	size_t ne = XCAP + 1, di = XCAP + 1, si = XCAP + 1;
	for (size_t q = 0; q <= XCAP; q++) {
		if (n == q * sizeof(struct ext2_xattr)) ne = q;
		if ((struct ext2_xattr *)dst == base + q) di = q;
		if ((const struct ext2_xattr *)src == base + q) si = q;
	}
	__CPROVER_assert(ne <= XCAP && di <= XCAP && si <= XCAP, "CHECK:memmove moves whole elements inside the handle's array");
	__CPROVER_assume(ne <= XCAP && di <= XCAP && si <= XCAP);
	/* overlapping ranges: copy towards lower addresses front to back, towards higher addresses back to front */
	if (di <= si) {
		for (size_t i = 0; i < XCAP; i++)
			if (i < ne) base[di + i] = base[si + i];
	} else {
		for (size_t i = XCAP; i > 0; i--)
			if (i - 1 < ne) base[di + i - 1] = base[si + i - 1];
	}
	return dst;
}
#endif

/* ---- callee contracts specific to this unit ---- */
unsigned long long g_off;	/* prefix length of the key */
int g_key_idx;			/* name index of the key */
static int find_ea_index(const char *fullname, const char **name, int *index)
	ENSURES(RET == (g_off ? 1 : 0))
	ENSURES(*name == fullname + g_off)
	ENSURES(g_off ? *index == g_key_idx : *index == OLD(*index))
	ASSIGNS(*name, *index);

unsigned int xat_ek;		/* ghost element index */
#define SLOT_EQ(p, q) ((p).name == (q).name && (p).short_name == (q).short_name && (p).value == (q).value && \
		       (p).value_len == (q).value_len && (p).ea_ino == (q).ea_ino && (p).name_index == (q).name_index)
/* ---- specification helpers (independent of the code) ---- */
static int spec_lt(const struct in_attr *a, const struct in_attr *b)	/* a < b in the kernel's order */
{
	if (a->idx != b->idx) return a->idx < b->idx;
	if (a->len != b->len) return a->len < b->len;
	for (unsigned int i = 0; i < NL; i++) {
		if (i >= a->len) break;
		if (a->bytes[1 + i] != b->bytes[1 + i]) return a->bytes[1 + i] < b->bytes[1 + i];
	}
	return 0;
}
static int spec_same_name(const struct in_attr *a, const struct in_attr *b)
{
	if (a->pfx != b->pfx || a->len != b->len || a->idx != b->idx) return 0;
	if (a->pfx && a->bytes[0] != b->bytes[0]) return 0;
	for (unsigned int i = 0; i < NL; i++) {
		if (i >= a->len) break;
		if (a->bytes[1 + i] != b->bytes[1 + i]) return 0;
	}
	return 1;
}

static char *NAMEBUF[NA + 1];
static void *VALBUF[NA];
/* character p of the full name of attribute i (i == NA: the key), 0 beyond its end */
static unsigned char name_char(unsigned int i, unsigned int p)
{
	const struct in_attr *a = &IN.a[i];
	if (a->pfx) {
		if (p == 0) return a->bytes[0];
		p--;
	}
	return p < a->len ? a->bytes[1 + p] : 0;
}
static char *mkname(unsigned int i)
{
	char *p = malloc(1 + NL + 1);
	ASSUME(p != 0);
	for (unsigned int k = 0; k < 1 + NL + 1; k++)
		p[k] = (char)name_char(i, k);
	return p;
}
#ifndef VERIF_NATIVE
/*
 * libc strlen / memcmp for the strings of this harness.  The short-name pointer produced by the find_ea_index
 * contract is a constrained nondeterministic pointer, which CBMC cannot dereference; so the two functions
 * identify their arguments among the harness's name buffers by pointer comparison (CHECKED: every argument is
 * one of them) and compute the ISO C result from the known contents.
 */
static int which_name(const char *s, unsigned int *off)
{
	/* every pointer the code forms is a full name or a short name = full name + prefix length (0 or 1) */
#define WN(i) if (NAMEBUF[i] != 0 && s == NAMEBUF[i]) { *off = 0; return i; } if (NAMEBUF[i] != 0 && s == NAMEBUF[i] + 1) { *off = 1; return i; }
	WN(0) WN(1) WN(2) WN(3)
#if NA == 4
	WN(4)
#endif
#undef WN
	return -1;
}
size_t strlen(const char *s)
{
	unsigned int o = 0;
	int i = which_name(s, &o);
	__CPROVER_assert(i >= 0, "CHECK:strlen argument is one of the harness's names");
	__CPROVER_assume(i >= 0);
	unsigned int total = (unsigned int)IN.a[i].pfx + IN.a[i].len;	/* no NUL inside: all name bytes are non-zero */
	return total >= o ? total - o : 0;
}
int memcmp(const void *a, const void *b, size_t n)
{
	unsigned int oa = 0, ob = 0;
	int i = which_name(a, &oa), j = which_name(b, &ob);
	__CPROVER_assert(i >= 0 && j >= 0 && oa + n <= 1 + NL + 1 && ob + n <= 1 + NL + 1, "CHECK:memcmp arguments are harness names, ranges inside them");
	__CPROVER_assume(i >= 0 && j >= 0);
#define MC(k) if (n > (k)) { unsigned char ca = name_char((unsigned)i, oa + (k)), cb = name_char((unsigned)j, ob + (k)); if (ca != cb) return ca < cb ? -1 : 1; }
	MC(0) MC(1) MC(2) MC(3)
#undef MC
	return 0;
}
#endif
#define RC_OK(rc) ((rc) >= 0 && (rc) <= 0x7fffffffL && (rc) != EXT2_ET_EA_NO_SPACE)

void h_array_update_map(void)
{
	LOAD_IN();
	ASSUME(0 <= IN.ibody_count && IN.ibody_count <= IN.count && IN.count <= NA);
	ASSUME(-1 <= IN.old_idx && IN.old_idx < IN.count);
	ASSUME(IN.cap_i <= 65536 && IN.cap_b <= 65536 && IN.value_len <= (1u << 24) && IN.new_ino != 0);
	ASSUME(RC_OK(IN.rc_expand));
	struct ext2_xattr_handle H, *h = &H;	/* on the stack: CBMC propagates constants through it (a heap handle makes every size symbolic) */
	struct ext2_xattr *a = malloc(CAP0 * sizeof(struct ext2_xattr));
	ASSUME(a != 0);
	g_arr = a;
#ifdef XAT_MAP_FULL
	ASSUME(IN.count == NA && IN.old_idx == -1);	/* the full-array variant: a new name must expand the array */
#endif
	long long sum_i = 0, sum_b = 0;
	for (int i = 0; i <= NA; i++) {
		struct in_attr *t = &IN.a[i];
		ASSUME(t->pfx <= 1 && t->len <= NL && t->idx <= 3 && t->value_len <= (1u << 24));
		ASSUME(t->bytes[0] != 0 && (t->len < 1 || t->bytes[1] != 0) && (t->len < 2 || t->bytes[2] != 0));
		ASSUME(t->pfx || t->idx == 0);		/* no known prefix: name index 0 */
		NAMEBUF[i] = mkname((unsigned)i);
		if (i == NA) break;
		if (i < IN.count) {
			a[i].name = NAMEBUF[i];
			a[i].short_name = NAMEBUF[i] + t->pfx;
			a[i].name_index = t->idx;
			VALBUF[i] = malloc(1);
			ASSUME(VALBUF[i] != 0);
			a[i].value = VALBUF[i];
			a[i].value_len = t->value_len;
			a[i].ea_ino = t->ea_ino;
			ASSUME(t->ea_ino != IN.new_ino);
			if (i < IN.ibody_count) sum_i += (long long)XSPEC_NEED(t->len, t->value_len, t->ea_ino);
			else sum_b += (long long)XSPEC_NEED(t->len, t->value_len, t->ea_ino);
			/* names distinct; the key's name is the name of old_idx only */
			for (int j = 0; j < NA; j++) {
				if (j >= i) break;
				ASSUME(!spec_same_name(&IN.a[j], t));
			}
			ASSUME(spec_same_name(t, &IN.a[NA]) == (i == IN.old_idx));
			/* block part sorted */
			if (i > IN.ibody_count)
				ASSUME(!spec_lt(t, &IN.a[i - 1]));
		} else {
			a[i].name = 0; a[i].short_name = 0; a[i].name_index = 0; a[i].value = 0; a[i].value_len = 0; a[i].ea_ino = 0;
			VALBUF[i] = 0;
		}
	}
	for (int i = NA; i < CAP0; i++) {
		a[i].name = 0; a[i].short_name = 0; a[i].name_index = 0; a[i].value = 0; a[i].value_len = 0; a[i].ea_ino = 0;
	}
	struct in_attr *key = &IN.a[NA];
	unsigned char *value = malloc(IN.value_len ? IN.value_len : 1);
	ASSUME(value != 0);
	h->magic = EXT2_ET_MAGIC_EA_HANDLE; h->fs = 0; h->attrs = a; h->capacity = CAP0;
	g_h = h;
	h->count = IN.count; h->ibody_count = IN.ibody_count; h->ino = 12; h->flags = 0;
	g_off = key->pfx;
	g_key_idx = key->idx;
	xat_bk = IN.bk;
	xat_ek = IN.ek;
	ASSUME(XSPEC_STRLEN(NAMEBUF[NA]) == (unsigned long long)key->pfx + key->len);	/* the uninterpreted strlen of the update_entry contract IS strlen here */
	unsigned char vb = xat_bk < IN.value_len ? value[xat_bk] : 0;
	/* what the caller (ext2fs_xattr_set) passes: capacity - terminator - space used */
	int ibody_free = (int)((long long)IN.cap_i - 4 - sum_i);
	int block_free = (int)((long long)IN.cap_b - 4 - sum_b);
	struct ext2_xattr before[NA];
	for (int i = 0; i < NA; i++) before[i] = a[i];

	errcode_t r = xattr_array_update(h, NAMEBUF[NA], value, (size_t)IN.value_len, ibody_free, block_free, IN.old_idx, IN.in_inode);

	if (r != 0) {
		CHECK(h->count == IN.count && h->ibody_count == IN.ibody_count, "failure: bookkeeping unchanged");
		if (xat_ek < (unsigned)IN.count)
			CHECK(SLOT_EQ(h->attrs[xat_ek], before[xat_ek]), "failure: every entry unchanged (possibly in an expanded array)");
		if (r == EXT2_ET_EA_NO_SPACE) REACH("no-space");
		REACH("failed");
		return;
	}
	struct ext2_xattr *n = h->attrs;
	int cnt = h->count, ib = h->ibody_count;
	CHECK(cnt == IN.count + (IN.old_idx < 0 ? 1 : 0) && 0 <= ib && ib <= cnt && cnt <= h->capacity, "count grows by one exactly for a new name; handle stays well formed");
	/* locate the key's entry: the slot whose name is the replaced entry's name object, or a name object that is none of the old ones */
	int P = -1, hits = 0;
	for (int p = 0; p <= NA; p++) {
		if (p >= cnt) break;
		int is_key;
		if (IN.old_idx >= 0)
			is_key = n[p].name == NAMEBUF[IN.old_idx];
		else
			{
			is_key = 1;
			for (int q = 0; q < NA; q++)
				if (n[p].name == NAMEBUF[q]) is_key = 0;
		}
		if (is_key) { P = p; hits++; }
	}
	CHECK(hits == 1, "exactly one entry carries the key");
	ASSUME(P >= 0);
	/* the key now maps to the new value */
	CHECK(n[P].value_len == IN.value_len && n[P].name_index == key->idx, "key entry: new length, name index of the name");
	CHECK((n[P].ea_ino != 0) == (IN.in_inode != 0), "key entry: value in an EA inode exactly when asked");
	CHECK(xat_bk >= IN.value_len || ((unsigned char *)n[P].value)[xat_bk] == vb, "key entry: value bytes are the caller's");
	CHECK(n[P].short_name == n[P].name + key->pfx, "key entry: short name at the prefix offset of its full name");
	if (IN.old_idx < 0 && xat_bk <= (unsigned long long)key->pfx + key->len)
		CHECK(n[P].name[xat_bk] == NAMEBUF[NA][xat_bk], "new entry: its name is a copy of the key's name");
	/* every other entry keeps its content and the relative order: new array = old array minus old_idx, key inserted at P */
	if (xat_ek < (unsigned)IN.count && (int)xat_ek != IN.old_idx) {
		int j = (int)xat_ek;
		int j1 = j - ((IN.old_idx >= 0 && j > IN.old_idx) ? 1 : 0);
		int j2 = j1 + (j1 >= P ? 1 : 0);
		CHECK(j2 < cnt && SLOT_EQ(n[j2], before[j]), "every other attribute keeps name, value, storage and relative order");
		/* and it stays in its region */
		CHECK((j < IN.ibody_count) == (j2 < ib), "every other attribute stays in its region (inode body / block)");
		REACH("other-entry");
	}
	/* order the kernel requires: the block part is still sorted, wherever the key went */
	if (P >= ib) {
		if (xat_ek < (unsigned)IN.count && (int)xat_ek != IN.old_idx && (int)xat_ek >= IN.ibody_count) {
			int j = (int)xat_ek;
			int j1 = j - ((IN.old_idx >= 0 && j > IN.old_idx) ? 1 : 0);
			int j2 = j1 + (j1 >= P ? 1 : 0);
			if (j2 < P) CHECK(!spec_lt(key, &IN.a[j]), "block stays sorted: entries before the key are <= key");
			else CHECK(!spec_lt(&IN.a[j], key), "block stays sorted: entries after the key are >= key");
		}
		REACH("key-in-block");
	} else
		REACH("key-in-ibody");
	/* space: neither region overflows its capacity (what write_xattrs_to_buffer relies on) */
	long long occ_old = IN.old_idx >= 0 ? (long long)XSPEC_NEED(IN.a[IN.old_idx].len, IN.a[IN.old_idx].value_len, IN.a[IN.old_idx].ea_ino) : 0;
	long long need = (long long)XSPEC_NEED(key->len, IN.value_len, IN.in_inode);
	long long new_i = sum_i - ((IN.old_idx >= 0 && IN.old_idx < IN.ibody_count) ? occ_old : 0) + (P < ib ? need : 0);
	long long new_b = sum_b - ((IN.old_idx >= IN.ibody_count) ? occ_old : 0) + (P >= ib ? need : 0);
	if (sum_i + 4 <= (long long)IN.cap_i)
		CHECK(new_i + 4 <= (long long)IN.cap_i, "inode body: entries + values + terminator still fit after the update");
	if (sum_b + 4 <= (long long)IN.cap_b)
		CHECK(new_b + 4 <= (long long)IN.cap_b, "block: entries + values + terminator still fit after the update");
	if (P < ib)
		CHECK(new_i + 4 <= (long long)IN.cap_i, "the region that receives the entry has room for it (inode body)");
	else
		CHECK(new_b + 4 <= (long long)IN.cap_b, "the region that receives the entry has room for it (block)");
#ifndef XAT_MAP_FULL
	if (IN.old_idx >= 0 && IN.a[IN.old_idx].ea_ino != 0 && !IN.in_inode) REACH("ea-inode-value-replaced-by-inline");
#ifdef XAT_MAP_FULL
	CHECK(h->attrs != a && h->capacity == 2 * CAP0, "full array: expanded");
	REACH("expanded");
#endif
	if (IN.old_idx >= 0 && IN.old_idx < IN.ibody_count && P >= ib) REACH("moved-to-block");
	if (IN.old_idx >= IN.ibody_count && P < ib) REACH("moved-to-ibody");
#endif
	REACH("end");
}

