/* VERIF-UNIT
{
 "name": "ea_inode_create_ok",
 "props": ["C15"],
 "level": "P",
 "tier": "quick",
 "harness": "h_create_ok",
 "replace": ["xattr_inode_dec_ref"],
 "unwind": 4,
 "unwind_reason": "xattr_create_ea_inode is loop-free (its callees are stubs); the bound serves the DFCC library loops (unwinding assertions on)",
 "functions": ["lib/ext2fs/ext_attr.c:xattr_create_ea_inode", "lib/ext2fs/ext_attr.c:ext2fs_set_ea_inode_ref", "lib/ext2fs/ext_attr.c:ext2fs_set_ea_inode_hash"],
 "assumes": ["value_len <= 65536 (XATTR_SIZE_MAX, also the limit of the library's reader); the value bytes are not looked at (pointer and length only)",
             "callees are ghost-monitor stubs: ext2fs_new_inode hands out an arbitrary inode number >= 1 or fails; ext2fs_write_new_inode behaves like lib/ext2fs/inode.c (fills zero i_atime/i_ctime/i_mtime of the CALLER's struct with the current time, then stores the image) or fails; ext2fs_write_inode stores the image or fails; ext2fs_file_open copies the stored image into the handle (as ext2fs_file_open2 does) or fails; ext2fs_file_write: contract of fileio/file_write (returns 0 exactly when all nbytes were written, i_size = position afterwards), writes back the HANDLE's inode copy with the new size, as ext2fs_file_set_size2 does; ext2fs_file_close returns the result of the final flush; ext2fs_inode_alloc_stats2 is counted; ext2fs_crc32c_le is an uninterpreted function of (seed, pointer, length) (its definition is proved in group crc)",
             "xattr_inode_dec_ref (not called by the function on the pinned tree) is replaced by a contract that records the call"],
 "native": false
}
*/
/* VERIF-UNIT
{
 "name": "ea_inode_create_fail",
 "props": ["C15"],
 "level": "P",
 "tier": "quick",
 "harness": "h_create_fail",
 "replace": ["xattr_inode_dec_ref"],
 "unwind": 4,
 "unwind_reason": "xattr_create_ea_inode is loop-free (its callees are stubs); the bound serves the DFCC library loops (unwinding assertions on)",
 "functions": ["lib/ext2fs/ext_attr.c:xattr_create_ea_inode"],
 "assumes": ["same stubs as ea_inode_create_ok; additionally ext2fs_file_write may have allocated blocks to the new inode whenever it was asked to write at least one byte (also when it fails half-way: ENOSPC)",
             "xattr_inode_dec_ref by contract: records the inode, the stored reference count and the in-use state at the time of the call (a release is correct only for an inode that is marked in use and whose stored reference count is 1)",
             "FAILS ON THE TREE (genuine defect, findings/C15_ea_inode_create_leak): a failed ext2fs_file_write (file system full) leaves the blocks already allocated to the value inode allocated, and the result of ext2fs_file_close (flush of the last block) is ignored; passes with findings/C15_ea_inode_create_leak/proposed-fix.patch"],
 "native": false
}
*/
#include "xat_common.h"
#include "xattr2_ea_inode_spec.h"

struct in_s {
	unsigned long long value_len;
	unsigned int new_ino;
	unsigned int feature_incompat;
	unsigned int csum_seed;
	unsigned int now;			/* time ext2fs_write_new_inode stamps */
	long rc_new, rc_wnew, rc_winode, rc_open, rc_write, rc_close, rc_dec;
	unsigned int partial;			/* bytes a failing ext2fs_file_write got out */
	unsigned int ea_ino0;			/* previous content of *ea_ino */
};
struct in_s IN;
#include "verif_in.h"

/* ---- ghost device: the one inode the function creates ---- */
static struct ext2_inode DISK;			/* stored image of inode g_ino */
static unsigned int g_ino;			/* the number ext2fs_new_inode handed out (0: none) */
static unsigned int g_n_new, g_n_wnew, g_n_winode, g_n_open, g_n_write, g_n_close, g_n_stats;
static unsigned int g_foreign;			/* an inode other than g_ino was touched */
static int g_inuse;				/* net effect of ext2fs_inode_alloc_stats2 on g_ino */
static int g_stats_isdir;
static int g_owns_blocks;			/* blocks may be allocated to g_ino */
static int g_wrote_all;				/* ext2fs_file_write returned 0 for (value, value_len) */
static int g_flushed;				/* ext2fs_file_close returned 0 */
static const void *g_write_buf; static unsigned int g_write_nbytes; static int g_open_flags;
static const void *g_value;
struct ext2_file { struct ext2_inode inode; unsigned int ino; int open; };
static struct ext2_file FILEOBJ;
/* release monitor (moved by the contract of xattr_inode_dec_ref) */
struct xat2_rel_s { unsigned int n, ino; unsigned long long ref_at_call; int inuse_at_call; } xat2_rel;

#ifndef VERIF_NATIVE
__u32 __CPROVER_uninterpreted_x2_crc32c(__u32, const unsigned char *, size_t);
__u32 ext2fs_crc32c_le(__u32 crc, unsigned char const *p, size_t len) { return __CPROVER_uninterpreted_x2_crc32c(crc, p, len); }
#endif

errcode_t ext2fs_new_inode(ext2_filsys fs, ext2_ino_t dir, int mode, ext2fs_inode_bitmap map, ext2_ino_t *ret)
{
	g_n_new++;
	if (IN.rc_new) return IN.rc_new;
	g_ino = IN.new_ino;
	*ret = IN.new_ino;
	return 0;
}
errcode_t ext2fs_write_new_inode(ext2_filsys fs, ext2_ino_t ino, struct ext2_inode *inode)
{
	g_n_wnew++;
	if (ino != g_ino) g_foreign++;
	/* lib/ext2fs/inode.c: zero time stamps of the caller's struct are set to "now" before anything can fail */
	if (!inode->i_atime) inode->i_atime = IN.now;
	if (!inode->i_ctime) inode->i_ctime = IN.now;
	if (!inode->i_mtime) inode->i_mtime = IN.now;
	if (IN.rc_wnew) return IN.rc_wnew;
	DISK = *inode;
	return 0;
}
errcode_t ext2fs_write_inode(ext2_filsys fs, ext2_ino_t ino, struct ext2_inode *inode)
{
	g_n_winode++;
	if (ino != g_ino) g_foreign++;
	if (IN.rc_winode) return IN.rc_winode;
	DISK = *inode;
	return 0;
}
errcode_t ext2fs_file_open(ext2_filsys fs, ext2_ino_t ino, int flags, ext2_file_t *ret)
{
	g_n_open++;
	if (ino != g_ino) g_foreign++;
	if (IN.rc_open) return IN.rc_open;
	FILEOBJ.inode = DISK;	/* ext2fs_file_open2 reads the inode into the handle */
	FILEOBJ.ino = ino; FILEOBJ.open = 1;
	g_open_flags = flags;
	*ret = &FILEOBJ;
	return 0;
}
errcode_t ext2fs_file_write(ext2_file_t file, const void *buf, unsigned int nbytes, unsigned int *written)
{
	g_n_write++;
	if (file != &FILEOBJ || !FILEOBJ.open) { g_foreign++; return EXT2_ET_MAGIC_EXT2_FILE; }
	if (!(g_open_flags & EXT2_FILE_WRITE)) return EXT2_ET_FILE_RO;
	g_write_buf = buf; g_write_nbytes = nbytes;
	if (nbytes > 0) g_owns_blocks = 1;	/* block allocation happens as the data goes out */
	unsigned int done = nbytes;
	if (IN.rc_write) { done = IN.partial; __CPROVER_assume(done < nbytes || nbytes == 0); }
	/* fileio.c: "Update inode size" writes the handle's copy of the inode */
	if (done != 0 && file->inode.i_size < done) { file->inode.i_size = done; DISK = file->inode; }
	if (written) *written = done;
	if (IN.rc_write) return IN.rc_write;
	if (buf == g_value) g_wrote_all = 1;
	return 0;
}
errcode_t ext2fs_file_close(ext2_file_t file)
{
	g_n_close++;
	if (file != &FILEOBJ || !FILEOBJ.open) { g_foreign++; return EXT2_ET_MAGIC_EXT2_FILE; }
	FILEOBJ.open = 0;
	if (IN.rc_close) return IN.rc_close;
	g_flushed = 1;
	return 0;
}
void ext2fs_inode_alloc_stats2(ext2_filsys fs, ext2_ino_t ino, int inuse, int isdir)
{
	g_n_stats++;
	if (ino != g_ino) g_foreign++;
	g_inuse += inuse; g_stats_isdir = isdir;
}

#include "lib/ext2fs/ext_attr.c"

/* the release of an EA inode (its own unit: ea_inode_dec_ref): here only recorded, with the state it met */
static errcode_t xattr_inode_dec_ref(ext2_filsys fs, ext2_ino_t ino)
	ENSURES(xat2_rel.n == OLD(xat2_rel.n) + 1 && xat2_rel.ino == ino)
	ENSURES(xat2_rel.ref_at_call == X2SPEC_EA_INODE_REF(&DISK) && xat2_rel.inuse_at_call == g_inuse)	/* neither is in the frame: values at the call */
	ENSURES(RET == IN.rc_dec)
	ASSIGNS(xat2_rel);

static struct struct_ext2_filsys FS;
static struct ext2_super_block SB;

static void setup(void)
{
	LOAD_IN();
	ASSUME(IN.value_len <= X2SPEC_VALUE_MAX && IN.new_ino >= 1 && IN.now != 0);
	ASSUME(IN.rc_new >= 0 && IN.rc_wnew >= 0 && IN.rc_winode >= 0 && IN.rc_open >= 0 && IN.rc_write >= 0 && IN.rc_close >= 0 && IN.rc_dec >= 0);
	memset(&SB, 0, sizeof(SB));
	SB.s_feature_incompat = IN.feature_incompat;
	FS.super = &SB; FS.csum_seed = IN.csum_seed; FS.blocksize = 1024; FS.flags = 0; FS.now = 0; FS.flags2 = 0;
	memset(&DISK, 0, sizeof(DISK)); memset(&FILEOBJ, 0, sizeof(FILEOBJ));
	g_ino = 0; g_n_new = g_n_wnew = g_n_winode = g_n_open = g_n_write = g_n_close = g_n_stats = 0;
	g_foreign = 0; g_inuse = 0; g_stats_isdir = -1; g_owns_blocks = 0; g_wrote_all = 0; g_flushed = 0;
	g_write_buf = 0; g_write_nbytes = 0; g_open_flags = 0;
	xat2_rel.n = 0; xat2_rel.ino = 0; xat2_rel.ref_at_call = 0; xat2_rel.inuse_at_call = 0;
}

void h_create_ok(void)
{
	setup();
	unsigned char *value = malloc(IN.value_len ? IN.value_len : 1);
	ASSUME(value != 0);
	g_value = value;
	ext2_ino_t ea_ino = IN.ea_ino0;

	errcode_t r = xattr_create_ea_inode(&FS, value, (size_t)IN.value_len, &ea_ino);

	CHECK(g_foreign == 0, "no inode other than the new one is written, opened or accounted");
	if (r == 0) {
		CHECK(ea_ino == IN.new_ino && g_ino == IN.new_ino, "the inode reported is the one that was allocated");
		/* the WHOLE value went into the inode */
		CHECK(g_n_write == 1 && g_write_buf == value && g_write_nbytes == IN.value_len && g_wrote_all,
		      "all value_len bytes of the caller's value were written in one complete ext2fs_file_write");
		CHECK(g_n_open == 1 && g_n_close == 1 && !FILEOBJ.open, "the file handle is opened once and closed");
		/* what is on disk afterwards (format: see specs/xattr2_ea_inode_spec.h) */
		CHECK(DISK.i_size == IN.value_len && DISK.i_size_high == 0, "i_size is the value length");
		CHECK((DISK.i_flags & X2SPEC_EA_INODE_FL) != 0, "EXT4_EA_INODE_FL is set");
		CHECK(!(DISK.i_flags & X2SPEC_INLINE_DATA_FL), "the value is not stored as inline data");
		CHECK(((DISK.i_flags & X2SPEC_EXTENTS_FL) != 0) == ((IN.feature_incompat & EXT3_FEATURE_INCOMPAT_EXTENTS) != 0),
		      "extent-mapped exactly on extent file systems");
		CHECK(DISK.i_mode == X2SPEC_S_IFREG_0600, "regular file, mode 0600");
		CHECK(DISK.i_links_count == 1 && DISK.i_dtime == 0, "one link, not deleted");
		CHECK(X2SPEC_EA_INODE_REF(&DISK) == 1, "stored reference count is 1 (i_ctime:i_version)");
		CHECK(X2SPEC_EA_INODE_HASH(&DISK) == __CPROVER_uninterpreted_x2_crc32c(IN.csum_seed, value, (size_t)IN.value_len),
		      "stored hash (i_atime) is crc32c(s_csum_seed, value, value_len)");
		CHECK(g_n_stats == 1 && g_inuse == 1 && g_stats_isdir == 0, "inode allocation statistics: +1 exactly once, not a directory");
		CHECK(xat2_rel.n == 0, "nothing is released on success");
		if (IN.value_len > 1024) REACH("value longer than one block");
		if (IN.value_len == 0) REACH("empty value");
	} else {
		CHECK(ea_ino == IN.ea_ino0, "failure: *ea_ino untouched");
		CHECK(g_inuse == 0 || (xat2_rel.n == 1 && xat2_rel.ino == g_ino), "failure: the inode does not stay marked in use");
		REACH("failure");
	}
	REACH("end");
}

/*
 * Failure protocol ("storage is never leaked", "a short write is not a success"):
 *  success  => the data really is on disk: the write was complete AND the final flush (ext2fs_file_close) succeeded;
 *  failure  => the new inode owns nothing afterwards: it is not marked in use and no blocks are allocated to it,
 *              or it was handed to xattr_inode_dec_ref exactly once, in the state in which that function frees
 *              (marked in use, stored reference count 1).
 */
void h_create_fail(void)
{
	setup();
	unsigned char *value = malloc(IN.value_len ? IN.value_len : 1);
	ASSUME(value != 0);
	g_value = value;
	ext2_ino_t ea_ino = IN.ea_ino0;

	errcode_t r = xattr_create_ea_inode(&FS, value, (size_t)IN.value_len, &ea_ino);

	if (r == 0) {
		CHECK(g_wrote_all && g_flushed, "success: every byte was written and the final flush succeeded");
		CHECK(g_inuse == 1 && xat2_rel.n == 0, "success: in use once, not released");
	} else {
		int released = (xat2_rel.n == 1 && xat2_rel.ino == g_ino && xat2_rel.ref_at_call == 1 && xat2_rel.inuse_at_call == 1);
		CHECK(xat2_rel.n <= 1 && (xat2_rel.n == 0 || released), "failure: released at most once, and only in a state in which the release frees (in use, ref 1)");
		CHECK(released || (g_inuse == 0 && !g_owns_blocks), "failure: the new inode owns no storage afterwards (not in use, no blocks) or was released");
		if (IN.rc_write && !IN.rc_new && !IN.rc_wnew && !IN.rc_winode && !IN.rc_open && IN.value_len > 0) REACH("write failed half-way");
	}
	if (IN.rc_close && !IN.rc_write && !IN.rc_new && !IN.rc_wnew && !IN.rc_winode && !IN.rc_open) REACH("flush failed");
	REACH("end");
}
