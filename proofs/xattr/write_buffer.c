/* VERIF-UNIT
{
 "name": "write_buffer",
 "props": ["C15", "C06"],
 "level": "U/iter",
 "tier": "thorough",
 "harness": "h_write_buffer",
 "enforce": ["write_xattrs_to_buffer"],
 "replace": ["ext2fs_ext_attr_hash_entry2"],
 "loop_contracts": true,
 "backend": "cadical",
 "unwind": 16,
 "unwind_reason": "the only loop is closed by its in-place loop contract; the bound serves the DFCC library's write-set loops (11 assigns targets; unwinding assertions on)",
 "functions": ["lib/ext2fs/ext_attr.c:write_xattrs_to_buffer"],
 "assumes": ["region = heap object of exactly storage_size bytes; ENUMERATED configurations: storage_size 92 with correction 0 (in-inode region of a 256-byte inode, i_extra_isize 32) and storage_size 992 with correction 32 (1 KiB block); the contract itself is stated for every 4 <= storage_size with storage_size + correction <= 65536; attrs = array of symbolic length count (0 .. 4096) with ARBITRARY contents",
             "THE CALLER'S SPACE CHECK is the precondition: storage_size >= 4 (terminator) + budget, where the budget verif_g1 is the space the attributes need by the format (space_used's contract).  PER-ITERATION HYPOTHESIS (why the level is U/iter): the attribute written in this iteration needs no more than the budget that is left (XSPEC_NEED <= verif_g1); that the budget IS the sum over the remaining attributes cannot be stated without quantifiers; unit write_buffer_small checks the whole loop with real sums for <= 3 attributes",
             "what is proved for an arbitrary iteration: header, name and value are written inside the region; the entry table grows upwards, the value area downwards, table end + 4-byte terminator never reaches the value area; the entry's name length, value length and EA inode are the attribute's (little-endian host: stored as the struct fields; the name index is checked in write_buffer_small), e_value_offs is the value's offset + correction (0 for an EA-inode value); the terminator word after the table is zero on return",
             "libc strlen uninterpreted (<= 255); memcpy is a stub that CHECKS the destination range (sources are the handle's name / value buffers, arbitrary pointers here; the copied bytes are checked in write_buffer_small); memset is a stub that CHECKS its range and zeroes the first word (the rest stays arbitrary, an over-approximation of zero)",
             "ext2fs_ext_attr_hash_entry2 by contract (result arbitrary) whose PRECONDITION is what the hash functions read: header + name, and for an inline value the value in whole 32-bit words",
             "needs the VERIF_LOOP hooks in lib/ext2fs/ext_attr.c (hooks-pending/xat.diff)"],
 "native": false
}
*/
/* VERIF-UNIT
{
 "name": "write_buffer_small",
 "props": ["C15", "C06"],
 "level": "B(2)",
 "tier": "thorough",
 "harness": "h_write_buffer_small",
 "replace": ["ext2fs_ext_attr_hash_entry2"],
 "unwind": 10,
 "unwind_reason": "bounded unit: at most 2 attributes, names <= 3 bytes, values <= 8 bytes, 60-byte region; the loop of write_xattrs_to_buffer (<= 2), libc strlen (<= 4) and the harness loops (<= 8) are unwound, libc memcpy / memset are CBMC's built-in models; unwinding assertions on",
 "functions": ["lib/ext2fs/ext_attr.c:write_xattrs_to_buffer"],
 "assumes": ["BOUNDED: count <= 2, names <= 3 bytes, values <= 8 bytes, region of exactly 60 bytes, value_offset_correction 0 or 32",
             "precondition = the caller's space check with the REAL sum: sum of XSPEC_NEED over the attributes + 4 <= 60 (no per-iteration hypothesis here)",
             "ext2fs_ext_attr_hash_entry2 by contract (hash value arbitrary; its definition is proved in parsers/xattr_hash_entry*)"],
 "native": false
}
*/
#ifdef VERIF_UNIT_write_buffer
#define XAT_UF_STRLEN
#endif
#include "xat_common.h"

struct in_s {
	unsigned int storage_size, correction;
	int count, write_hash;
	unsigned long long budget;
	long rc_hash;
	/* small unit */
	struct { unsigned char name_len; char name[4]; unsigned char value_len; unsigned char value[8]; unsigned int ea_ino; unsigned char idx; } at[2];
	unsigned int hashval;
};
struct in_s IN;
#include "verif_in.h"

#if !defined(VERIF_NATIVE) && defined(VERIF_UNIT_write_buffer)
void *memcpy(void *dst, const void *src, size_t n)
{
	__CPROVER_assert(__CPROVER_w_ok(dst, n), "CHECK:memcpy destination range inside the region");
	return dst;
}
void *memset(void *dst, int c, size_t n)
{
	__CPROVER_assert(__CPROVER_w_ok(dst, n), "CHECK:memset range inside the region");
	if (n >= 4) { ((unsigned char *)dst)[0] = (unsigned char)c; ((unsigned char *)dst)[1] = (unsigned char)c;
		      ((unsigned char *)dst)[2] = (unsigned char)c; ((unsigned char *)dst)[3] = (unsigned char)c; }
	return dst;
}
#endif

/* ---- ghost steps of the named anchors (see the hook in ext_attr.c for the registers); only for the U/iter unit ---- */
#ifdef VERIF_UNIT_write_buffer
#define WB_OFF(p) ((unsigned long long)(__CPROVER_POINTER_OFFSET(p) - __CPROVER_POINTER_OFFSET(entries_start)))
/*
 * start of an iteration.  The loop contract havocs the cursors x, e, end; CBMC then knows their values only through
 * the invariant's equalities and treats every write through e as a possible write to every object of the program
 * (8 GB formula).  The ghost step therefore re-assigns each cursor the value the invariant says it has (asserted to
 * be the identity), which gives symex exact points-to information.  Then: read the attribute once (verif_g5 name length, verif_g6 value length, verif_g7 EA inode),
 * the per-iteration hypothesis, budget bookkeeping, remember where this entry starts */
#define VERIF_XS_WRITE_BUF_GHOST \
	VERIF_GHOST(__CPROVER_assert(x == attrs + verif_g4 && (char *)e == (char *)entries_start + verif_g2 && \
				     end == (char *)entries_start + verif_g3, "CHECK:ghost re-derivation of the three cursors is the identity"); \
		    x = attrs + verif_g4; e = (struct ext2_ext_attr_entry *)((char *)entries_start + verif_g2); \
		    end = (char *)entries_start + verif_g3; \
		    verif_g5 = XSPEC_STRLEN(x->short_name); verif_g6 = x->value_len; verif_g7 = x->ea_ino; \
		    __CPROVER_assume(XSPEC_NEED(verif_g5, verif_g6, verif_g7) <= verif_g1); \
		    verif_g1 -= XSPEC_NEED(verif_g5, verif_g6, verif_g7); \
		    verif_p1 = (const unsigned char *)e;)
#define WB_ENT ((const struct ext2_ext_attr_entry *)verif_p1)
/* end of an iteration: the format of the entry just written, then the new offsets */
#define VERIF_XS_WRITE_BUF_GHOST_END \
	VERIF_GHOST(__CPROVER_assert(WB_ENT->e_name_len == verif_g5 && WB_ENT->e_value_size == verif_g6 && WB_ENT->e_value_inum == verif_g7, \
				     "CHECK:entry header carries the attribute's name length, value length and EA inode"); \
		    __CPROVER_assert(WB_OFF(e) == verif_g2 + XSPEC_ENTRY_LEN(verif_g5), \
				     "CHECK:entry table grows by EXT4_XATTR_LEN(name_len) (ascending offsets)"); \
		    __CPROVER_assert(WB_OFF(end) == verif_g3 - (verif_g7 ? 0 : XSPEC_VALUE_SIZE(verif_g6)), \
				     "CHECK:value area grows downwards by EXT4_XATTR_SIZE(value_len), not at all for an EA-inode value"); \
		    __CPROVER_assert(verif_g7 ? WB_ENT->e_value_offs == 0 \
					      : WB_ENT->e_value_offs == WB_OFF(end) + value_offset_correction, \
				     "CHECK:e_value_offs is the value's offset plus the correction (0 for an EA-inode value)"); \
		    __CPROVER_assert(WB_OFF(e) + 4 <= WB_OFF(end), \
				     "CHECK:entry table + terminator end below the value area (no overlap)"); \
		    __CPROVER_assert(write_hash || verif_g7 || WB_ENT->e_hash == 0, "CHECK:no hash asked: e_hash is 0"); \
		    verif_g2 = WB_OFF(e); verif_g3 = WB_OFF(end); verif_g4++;)
#endif

struct ext2_xattr;
static errcode_t write_xattrs_to_buffer(ext2_filsys fs, struct ext2_xattr *attrs, int count, void *entries_start,
					unsigned int storage_size, unsigned int value_offset_correction, int write_hash)
	REQUIRES(count >= 0 && storage_size >= 4 && (unsigned long long)storage_size + value_offset_correction <= 65536)
	REQUIRES(verif_g1 <= (unsigned long long)storage_size - 4)	/* the caller's space check: budget + terminator fit */
	REQUIRES(verif_g2 == 0 && verif_g3 == storage_size && verif_g4 == 0)
	ENSURES(RET != 0 || (verif_g4 == (unsigned long long)count && verif_g2 + 4 <= verif_g3 && verif_g3 <= storage_size))
	ENSURES(RET != 0 || PSPEC_XATTR_LE32_AT(entries_start, verif_g2) == 0)	/* terminator present */
	ASSIGNS(__CPROVER_object_whole(entries_start), verif_g1, verif_g2, verif_g3, verif_g4, verif_g5, verif_g6, verif_g7, verif_p1);

errcode_t ext2fs_ext_attr_hash_entry2(ext2_filsys fs, struct ext2_ext_attr_entry *entry, void *data, __u32 *hash)
	REQUIRES(__CPROVER_r_ok(entry, sizeof(struct ext2_ext_attr_entry) + entry->e_name_len))
	REQUIRES(entry->e_value_inum != 0 || entry->e_value_size == 0 ||
		 __CPROVER_r_ok(data, 4ul * PSPEC_XATTR_NWORDS(entry->e_value_size)))
	ENSURES(RET == IN.rc_hash)
	ENSURES(RET != 0 || *hash == IN.hashval)
	ASSIGNS(*hash);

#include "lib/ext2fs/ext_attr.c"

void h_write_buffer(void)
{
	LOAD_IN();
	ASSUME(IN.count >= 0 && IN.count <= 4096);
	/* enumerated region sizes (a symbolic-size byte object makes symex explode): the in-inode region of a 256-byte
	 * inode with i_extra_isize 32, and the block region of a 1 KiB block */
	ASSUME((IN.storage_size == 92 && IN.correction == 0) || (IN.storage_size == 992 && IN.correction == 32));
	ASSUME(IN.budget <= (unsigned long long)IN.storage_size - 4);
	ASSUME(IN.rc_hash >= 0);
	size_t n = IN.count > 0 ? (size_t)IN.count : 1;
	struct ext2_xattr *a = malloc(n * sizeof(struct ext2_xattr));	/* contents arbitrary */
	unsigned char *buf = IN.storage_size == 92 ? malloc(92) : malloc(992);
	ASSUME(a != 0 && buf != 0);
	verif_g1 = IN.budget; verif_g2 = 0; verif_g3 = IN.storage_size; verif_g4 = 0;
	errcode_t r = write_xattrs_to_buffer(0, a, IN.count, buf, IN.storage_size, IN.correction, IN.write_hash);
	if (r == 0) {
		CHECK(verif_g4 == (unsigned long long)IN.count, "all attributes written");
		CHECK(verif_g2 + 4 <= verif_g3 && verif_g3 <= IN.storage_size, "table end + terminator below the value area, value area inside the region");
		CHECK(PSPEC_XATTR_LE32_AT(buf, verif_g2) == 0, "the word after the last entry is the zero terminator");
		REACH("written");
		if (IN.count == 4096) REACH("many");
	} else {
		CHECK(r == IN.rc_hash, "the only error is the entry hash's");
		REACH("hash-error");
	}
	REACH("end");
}

/* ---- bounded unit: the whole loop with real strings, real copies and the real sum ---- */
#define SB 60	/* 2 x (20-byte entry + 8-byte value) + terminator fill it exactly */
void h_write_buffer_small(void)
{
	LOAD_IN();
	ASSUME(IN.count >= 0 && IN.count <= 2 && (IN.correction == 0 || IN.correction == 32) && IN.rc_hash >= 0);
	struct ext2_xattr *a = malloc(2 * sizeof(struct ext2_xattr));
	unsigned char *buf = malloc(SB);
	ASSUME(a != 0 && buf != 0);
	unsigned long long sum = 0;
	for (int i = 0; i < 2; i++) {
		ASSUME(IN.at[i].name_len <= 3 && IN.at[i].value_len <= 8);
		for (int j = 0; j < 4; j++)
			ASSUME((IN.at[i].name[j] == 0) == (j == IN.at[i].name_len) || j > IN.at[i].name_len);
		a[i].name = IN.at[i].name; a[i].short_name = IN.at[i].name; a[i].name_index = IN.at[i].idx;
		a[i].value = IN.at[i].value; a[i].value_len = IN.at[i].value_len; a[i].ea_ino = IN.at[i].ea_ino;
		if (i < IN.count) sum += XSPEC_NEED(IN.at[i].name_len, IN.at[i].value_len, IN.at[i].ea_ino);
	}
	ASSUME(sum + 4 <= SB);		/* the caller's space check */
	errcode_t r = write_xattrs_to_buffer(0, a, IN.count, buf, SB, IN.correction, IN.write_hash);
	if (r) {
		CHECK(r == IN.rc_hash, "the only error is the entry hash's");
		REACH("hash-error");
		return;
	}
	/* parse the region by the on-disk format */
	unsigned int eo = 0, vo = SB;
	for (int i = 0; i < 2; i++) {
		if (i >= IN.count) break;
		const struct ext2_ext_attr_entry *e = (const struct ext2_ext_attr_entry *)(buf + eo);
		CHECK(e->e_name_len == IN.at[i].name_len && e->e_name_index == IN.at[i].idx && e->e_value_size == IN.at[i].value_len &&
		      e->e_value_inum == IN.at[i].ea_ino, "entry i at ascending offset: name length, index, value size, EA inode");
		for (unsigned int k = 0; k < 3; k++)
			if (k < IN.at[i].name_len) CHECK(buf[eo + 16 + k] == (unsigned char)IN.at[i].name[k], "name bytes follow the header");
		if (IN.at[i].ea_ino) {
			CHECK(e->e_value_offs == 0, "EA-inode value: offset 0, no bytes in the value area");
			CHECK(e->e_hash == IN.hashval, "EA-inode value: the entry hash is always computed");
		} else {
			vo -= (unsigned int)XSPEC_VALUE_SIZE(IN.at[i].value_len);
			CHECK(e->e_value_offs == vo + IN.correction, "inline value at descending offsets (+ correction)");
			for (unsigned int k = 0; k < 8; k++)
				if (k < IN.at[i].value_len) CHECK(buf[vo + k] == IN.at[i].value[k], "value bytes copied");
			CHECK(e->e_hash == (IN.write_hash ? IN.hashval : 0), "hash written exactly when asked");
		}
		eo += (unsigned int)XSPEC_ENTRY_LEN(IN.at[i].name_len);
	}
	CHECK(eo + 4 <= vo, "entry table + terminator end below the value area");
	CHECK(buf[eo] == 0 && buf[eo + 1] == 0 && buf[eo + 2] == 0 && buf[eo + 3] == 0, "terminator present");
	if (IN.count == 2 && !IN.at[0].ea_ino && !IN.at[1].ea_ino && IN.at[0].value_len == 8 && IN.at[1].value_len == 5) REACH("two-inline-values");
	if (IN.count == 2 && sum + 4 == SB) REACH("exactly-full");
	REACH("end");
}
