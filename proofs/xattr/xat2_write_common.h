/*
 * Shared by the ext2fs_xattrs_write units (tag xat2): ghost device, monitors, contract of write_xattrs_to_buffer,
 * set-up and the call.  The unit file defines struct in_s / IN (see xattrs_write_place.c) and includes this header.
 *
 * Real code in the units: ext2fs_xattrs_write, prep_ea_block_for_write, ext2fs_free_ext_attr, ext2fs_read_ext_attr3,
 * ext2fs_write_ext_attr3, check_ext_attr_header (lib/ext2fs/ext_attr.c); ext2fs_file_acl_block{,_set},
 * ext2fs_blocks_count (blknum.c); ext2fs_iblk_{add,sub}_blocks (i_block.c).
 * Everything below them is a ghost monitor.
 */
#define XW_BS 1024u
#define XW_HDR 32u

/* ---- allocation wrappers (ext2fs.h compiled with EXT2_CUSTOM_MEMORY_ROUTINES): typed pointer stores, may fail ---- */
static unsigned int g_n_mem;
static void *g_mem[4]; static unsigned long g_mem_size[4];
errcode_t ext2fs_get_mem(unsigned long size, void *ptr)
{
	unsigned int i = g_n_mem < 3 ? g_n_mem : 3;
	g_n_mem++;
	if (IN.rc_mem[i]) return EXT2_ET_NO_MEMORY;
	void *p = malloc(size);
	__CPROVER_assume(p != 0);
	g_mem[i] = p; g_mem_size[i] = size;
	*(void **)ptr = p;
	return 0;
}
errcode_t ext2fs_get_memzero(unsigned long size, void *ptr)
{
	errcode_t e = ext2fs_get_mem(size, ptr);
	if (e) return e;
	memset(*(void **)ptr, 0, size);
	return 0;
}
errcode_t ext2fs_get_arrayzero(unsigned long count, unsigned long size, void *ptr) { return ext2fs_get_memzero(count * size, ptr); }
errcode_t ext2fs_free_mem(void *ptr) { free(*(void **)ptr); *(void **)ptr = 0; return 0; }

/* ---- ghost device ---- */
static unsigned int g_seq;
/* inode */
static unsigned int g_n_iread, g_n_iwrite, g_iwrite_at, g_foreign;
static const void *g_iwrite_buf; static int g_iwrite_size;
static struct ext2_inode_large W_INODE;		/* fixed part of the image written last */
static unsigned int W_MAGIC;			/* the 32-bit word behind the fixed fields + i_extra_isize of that image */
/* EA block traffic */
struct xw_wr { unsigned long long blk; int count; const void *data; unsigned int magic, refcount, blocks; unsigned int at; };
static struct xw_wr g_wr[3]; static unsigned int g_n_wr;
static unsigned int g_n_rd; static unsigned long long g_rd_blk; static void *g_rd_buf;
static unsigned int g_n_alloc, g_alloc_at; static unsigned long long g_alloc_goal;
static unsigned int g_n_bstats, g_bstats_at; static unsigned long long g_bstats_blk; static int g_bstats_inuse;

errcode_t ext2fs_read_inode_full(ext2_filsys fs, ext2_ino_t ino, struct ext2_inode *inode, int bufsize)
{
	g_n_iread++; g_seq++;
	if (ino != IN.ino) g_foreign++;
	if (IN.rc_iread) return IN.rc_iread;
	__CPROVER_assert(bufsize == (int)IN.inode_size && __CPROVER_w_ok(inode, bufsize), "CHECK:inode read into a buffer of the on-disk inode size");
	if (IN.inode_size == 128) *inode = *EXT2_INODE(&IN.inode);
	else *(struct ext2_inode_large *)inode = IN.inode;	/* bytes behind the 160 fixed ones: zero (fresh buffer) */
	return 0;
}
errcode_t ext2fs_write_inode_full(ext2_filsys fs, ext2_ino_t ino, struct ext2_inode *inode, int bufsize)
{
	g_n_iwrite++; g_iwrite_at = ++g_seq; g_iwrite_buf = inode; g_iwrite_size = bufsize;
	if (ino != IN.ino) g_foreign++;
	if (IN.rc_iwrite) return IN.rc_iwrite;
	__CPROVER_assert(__CPROVER_r_ok(inode, bufsize), "CHECK:inode written from a buffer that holds it");
	if (bufsize == 128) { memset(&W_INODE, 0, sizeof(W_INODE)); *EXT2_INODE(&W_INODE) = *inode; W_MAGIC = 0; }
	else {
		W_INODE = *(struct ext2_inode_large *)inode;
		unsigned int off = 128u + W_INODE.i_extra_isize;
		W_MAGIC = (off + 4 <= (unsigned int)bufsize) ? *(unsigned int *)((char *)inode + off) : 0;
	}
	return 0;
}
errcode_t io_channel_read_blk64(io_channel channel, unsigned long long block, int count, void *data)
{
	g_n_rd++; g_seq++; g_rd_blk = block; g_rd_buf = data;
	if (IN.rc_bread) return IN.rc_bread;
	__CPROVER_assert(count == 1 && __CPROVER_w_ok(data, XW_BS), "CHECK:one block read into a block buffer");
	*(struct ext2_ext_attr_header *)data = IN.hdr;	/* rest of the block: arbitrary */
	return 0;
}
int ext2fs_ext_attr_block_csum_verify(ext2_filsys fs, ext2_ino_t inum, blk64_t block, struct ext2_ext_attr_header *hdr) { return IN.csum_ok; }
errcode_t ext2fs_ext_attr_block_csum_set(ext2_filsys fs, ext2_ino_t inum, blk64_t block, struct ext2_ext_attr_header *hdr)
{
	if (inum != IN.ino) g_foreign++;
	return IN.rc_csum;
}
errcode_t io_channel_write_blk64(io_channel channel, unsigned long long block, int count, const void *data)
{
	unsigned int i = g_n_wr < 2 ? g_n_wr : 2;
	g_n_wr++;
	g_wr[i].blk = block; g_wr[i].count = count; g_wr[i].data = data; g_wr[i].at = ++g_seq;
	__CPROVER_assert(__CPROVER_r_ok(data, XW_BS), "CHECK:block written from a block buffer");
	g_wr[i].magic = ((const struct ext2_ext_attr_header *)data)->h_magic;
	g_wr[i].refcount = ((const struct ext2_ext_attr_header *)data)->h_refcount;
	g_wr[i].blocks = ((const struct ext2_ext_attr_header *)data)->h_blocks;
	return IN.rc_bwrite[i < 2 ? i : 1];
}
blk64_t ext2fs_find_inode_goal(ext2_filsys fs, ext2_ino_t ino, struct ext2_inode *inode, blk64_t lblk) { return IN.goal; }
errcode_t ext2fs_alloc_block2(ext2_filsys fs, blk64_t goal, char *block_buf, blk64_t *ret)
{
	g_n_alloc++; g_alloc_at = ++g_seq; g_alloc_goal = goal;
	if (IN.rc_alloc) return IN.rc_alloc;
	*ret = IN.new_blk;
	return 0;
}
void ext2fs_block_alloc_stats2(ext2_filsys fs, blk64_t blk, int inuse)
{
	g_n_bstats++; g_bstats_at = ++g_seq; g_bstats_blk = blk; g_bstats_inuse = inuse;
}

/* ---- the buffer writer (proved in write_buffer / write_buffer_small): recorded, fills (havocs) its region ---- */
struct xw_wb { const void *attrs; int count; void *start; unsigned int storage, corr; int write_hash; unsigned int at; };
struct xw_wbs { unsigned int n; struct xw_wb c0, c1; } xw_wb;
#define XW_WB_IS(c) ((c).attrs == attrs && (c).count == count && (c).start == entries_start && (c).storage == storage_size && \
		     (c).corr == value_offset_correction && (c).write_hash == write_hash && (c).at == g_seq)
#define XW_WB_SAME(c) ((c).attrs == OLD((c).attrs) && (c).count == OLD((c).count) && (c).start == OLD((c).start) && \
		       (c).storage == OLD((c).storage) && (c).corr == OLD((c).corr) && (c).write_hash == OLD((c).write_hash) && (c).at == OLD((c).at))
