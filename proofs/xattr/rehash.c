/* VERIF-UNIT
{
 "name": "block_rehash",
 "props": ["C15"],
 "level": "U/iter",
 "tier": "quick",
 "harness": "h_block_rehash",
 "enforce": ["ext2fs_ext_attr_block_rehash"],
 "loop_contracts": true,
 "unwind": 6,
 "unwind_reason": "the only loop is closed by its in-place loop contract; the bound serves the DFCC library's write-set loops (unwinding assertions on)",
 "functions": ["lib/ext2fs/ext_attr.c:ext2fs_ext_attr_block_rehash"],
 "assumes": ["block buffer of blocksize 1024..65536 (multiple of 4) with ARBITRARY contents, header at its start, end = buffer + blocksize (the only call site, misc/tune2fs.c:update_block_xattr_hashes)",
             "PER-ITERATION HYPOTHESIS (why the level is U/iter): an entry that starts before 'end' (16-byte header + name, rounded to 4) lies completely before 'end'. The code only checks here < end; on a block whose unterminated entry table runs into the last 12 bytes it reads e_hash / e_name_len up to 12 bytes past the buffer (observation, not claimed as a C06 finding: tune2fs rewriting checksums is not in the property's tool list)",
             "the specification (kernel ext4_xattr_rehash: rotate by 16, xor the entry hash, 0 as soon as one entry hash is 0) runs as a ghost fold in lockstep (named anchor VERIF_XS_REHASH_GHOST defined in this unit); block_rehash_small cross-checks it against a transcription of the kernel function on <= 3 entries",
             "needs the VERIF_LOOP hook in lib/ext2fs/ext_attr.c (hooks-pending/xat.diff)"],
 "native": false
}
*/
/* VERIF-UNIT
{
 "name": "block_rehash_small",
 "props": ["C15"],
 "level": "B(3)",
 "tier": "quick",
 "harness": "h_block_rehash_small",
 "unwind": 5,
 "unwind_reason": "bounded cross-check: at most 3 entries (names of 0..8 bytes) in a 128-byte buffer; loops unwound, unwinding assertions on",
 "functions": ["lib/ext2fs/ext_attr.c:ext2fs_ext_attr_block_rehash"],
 "assumes": ["BOUNDED: <= 3 entries, terminated entry table inside a 128-byte buffer", "the CHECK that the lockstep ghost fold agrees needs the ghost step of the hook (hooks-pending/xat.diff); without it only the comparison with the kernel transcription is meaningful"],
 "native": true
}
*/
#include "xat_common.h"

struct in_s {
	unsigned int blocksize;
	unsigned int hash[3];
	unsigned char name_len[3];
	unsigned char n;
	unsigned int old_h_hash;
};
struct in_s IN;
#include "verif_in.h"

/* the ghost step of the named anchor: per-iteration hypothesis, then the kernel's fold */
#define VERIF_XS_REHASH_GHOST \
	VERIF_GHOST(__CPROVER_assume((char *)end - (char *)here >= (long)XSPEC_ENTRY_LEN(here->e_name_len)); \
		    if (here->e_hash == 0) { verif_g0 = 0; verif_g1 = 1; } \
		    else verif_g0 = PSPEC_XATTR_VALUE_STEP((__u32)verif_g0, here->e_hash);)

/* verif_g0: ghost fold; verif_g1: 1 iff an entry with hash 0 was met (the fold then stops with 0) */
void ext2fs_ext_attr_block_rehash(struct ext2_ext_attr_header *header, struct ext2_ext_attr_entry *end)
	REQUIRES(verif_g0 == 0 && verif_g1 == 0)
	REQUIRES(__CPROVER_same_object(header, end) && (char *)end >= (char *)(header + 1) && ((char *)end - (char *)header) % 4 == 0)
	ENSURES(header->h_hash == (__u32)verif_g0)
	ENSURES(verif_g1 == 0 || header->h_hash == 0)
	ASSIGNS(header->h_hash, verif_g0, verif_g1);

#include "lib/ext2fs/ext_attr.c"

void h_block_rehash(void)
{
	LOAD_IN();
	ASSUME(IN.blocksize >= 1024 && IN.blocksize <= 65536 && IN.blocksize % 4 == 0);
	unsigned char *buf = malloc(IN.blocksize);	/* contents arbitrary */
	ASSUME(buf != 0);
	struct ext2_ext_attr_header *hdr = (struct ext2_ext_attr_header *)buf;
	struct ext2_ext_attr_header before = *hdr;
	verif_g0 = 0; verif_g1 = 0;
	ext2fs_ext_attr_block_rehash(hdr, (struct ext2_ext_attr_entry *)(buf + IN.blocksize));
	CHECK(hdr->h_hash == (__u32)verif_g0, "block hash is the kernel's fold of the entry hashes");
	if (verif_g1) {
		CHECK(hdr->h_hash == 0, "an entry with hash 0 makes the block hash 0 (block not shareable)");
		REACH("zero-entry-hash");
	}
	CHECK(hdr->h_magic == before.h_magic && hdr->h_refcount == before.h_refcount && hdr->h_blocks == before.h_blocks &&
	      hdr->h_checksum == before.h_checksum, "no other header field is touched");
	REACH("end");
}

/* transcription of fs/ext4/xattr.c:ext4_xattr_rehash over an explicit list of entry hashes */
static unsigned int spec_block_hash(const unsigned int *h, unsigned int n)
{
	unsigned int hash = 0;
	for (unsigned int i = 0; i < n; i++) {
		if (!h[i]) { hash = 0; break; }
		hash = (hash << 16) ^ (hash >> 16) ^ h[i];
	}
	return hash;
}

void h_block_rehash_small(void)
{
	LOAD_IN();
	ASSUME(IN.n <= 3);
	static unsigned int bufw[128 / 4];
	unsigned char *buf = (unsigned char *)bufw;
	memset(buf, 0, 128);
	struct ext2_ext_attr_header *hdr = (struct ext2_ext_attr_header *)buf;
	hdr->h_hash = IN.old_h_hash;
	unsigned int off = sizeof(*hdr);
	for (unsigned int i = 0; i < 3; i++) {
		if (i >= IN.n) break;
		ASSUME(IN.name_len[i] <= 8);
		struct ext2_ext_attr_entry *e = (struct ext2_ext_attr_entry *)(buf + off);
		e->e_name_len = IN.name_len[i];
		e->e_name_index = 1;
		e->e_hash = IN.hash[i];
		off += (unsigned int)XSPEC_ENTRY_LEN(IN.name_len[i]);
	}
	/* off <= 32 + 3 * 24 = 104: terminator (zero word) inside the buffer */
	verif_g0 = 0; verif_g1 = 0;
	ext2fs_ext_attr_block_rehash(hdr, (struct ext2_ext_attr_entry *)(buf + 128));
	CHECK(hdr->h_hash == spec_block_hash(IN.hash, IN.n), "block hash == kernel ext4_xattr_rehash");
#ifndef VERIF_NATIVE
	CHECK((__u32)verif_g0 == hdr->h_hash, "lockstep ghost fold agrees with the kernel transcription");
#endif
	if (IN.n == 3 && IN.hash[0] && IN.hash[1] && IN.hash[2]) REACH("three-entries");
	if (IN.n == 3 && IN.hash[0] && !IN.hash[1]) REACH("zero-in-the-middle");
	REACH("end");
}
