/* VERIF-UNIT
{
 "name": "xattrs_write_place",
 "props": ["C15"],
 "level": "P",
 "tier": "quick",
 "harness": "h_write_place",
 "replace": ["write_xattrs_to_buffer"],
 "sources": ["lib/ext2fs/blknum.c", "lib/ext2fs/i_block.c"],
 "defines": ["EXT2_CUSTOM_MEMORY_ROUTINES", "XW_ONLY_ISIZE=256"],
 "unwind": 4,
 "unwind_reason": "ext2fs_xattrs_write, prep_ea_block_for_write, ext2fs_free_ext_attr, ext2fs_read/write_ext_attr3 and the blknum.c / i_block.c helpers are loop-free (write_xattrs_to_buffer is replaced by its contract); the bound serves the DFCC library loops (unwinding assertions on)",
 "functions": ["lib/ext2fs/ext_attr.c:ext2fs_xattrs_write", "lib/ext2fs/ext_attr.c:prep_ea_block_for_write", "lib/ext2fs/ext_attr.c:ext2fs_write_ext_attr3", "lib/ext2fs/ext_attr.c:ext2fs_read_ext_attr3"],
 "assumes": ["configuration: block size 1024, no bigalloc, not 64bit, no huge_file (one block = 2 sectors of i_blocks); inode size 256 (128-byte inodes: unit xattrs_write_place_128); i_extra_isize, s_want_extra_isize, i_file_acl, i_blocks, the header of the old EA block (magic, h_refcount, h_blocks) and every callee result arbitrary",
             "handle: 0 <= ibody_count <= count <= 2 (the function only passes the counts on; the bound keeps a 2-slot all-zero array valid for a repaired tree that walks the array to charge EA-inode values); ibody_count == 0 when the inode has no room for in-inode attributes (call-site guarantee: ext2fs_xattr_set computes ibody_free from the same geometry, ext2fs_xattrs_read_inode finds no in-inode region); the attribute array is not looked at (write_xattrs_to_buffer is replaced by a contract that records its arguments and havocs the region it is given; its own units: write_buffer, write_buffer_small)",
             "s_want_extra_isize <= inode size - 128 (a larger value makes the memset that initialises a zero i_extra_isize run past the inode buffer: observation unit xattrs_write_want_extra_isize)",
             "no value of the attributes written lives in an EA inode that would have to be charged to i_blocks (that part of the i_blocks statement is unit xattrs_write_ea_inode_charge); the case 'no attribute left for the block but the inode has one' is unit xattrs_write_empty_block",
             "device, allocator and checksum code are ghost monitors (see xat2_write_common.h); a new block is different from the old one"],
 "native": false
}
*/
/* VERIF-UNIT
{
 "name": "xattrs_write_place_128",
 "props": ["C15"],
 "level": "P",
 "tier": "quick",
 "harness": "h_write_place",
 "replace": ["write_xattrs_to_buffer"],
 "sources": ["lib/ext2fs/blknum.c", "lib/ext2fs/i_block.c"],
 "defines": ["EXT2_CUSTOM_MEMORY_ROUTINES", "XW_ONLY_ISIZE=128"],
 "unwind": 4,
 "unwind_reason": "ext2fs_xattrs_write, prep_ea_block_for_write, ext2fs_free_ext_attr, ext2fs_read/write_ext_attr3 and the blknum.c / i_block.c helpers are loop-free (write_xattrs_to_buffer is replaced by its contract); the bound serves the DFCC library loops (unwinding assertions on)",
 "functions": ["lib/ext2fs/ext_attr.c:ext2fs_xattrs_write", "lib/ext2fs/ext_attr.c:prep_ea_block_for_write", "lib/ext2fs/ext_attr.c:ext2fs_write_ext_attr3", "lib/ext2fs/ext_attr.c:ext2fs_read_ext_attr3"],
 "assumes": ["configuration: block size 1024, no bigalloc, not 64bit, no huge_file (one block = 2 sectors of i_blocks); inode size 128 (no in-inode region; 256-byte inodes: unit xattrs_write_place); i_extra_isize, s_want_extra_isize, i_file_acl, i_blocks, the header of the old EA block (magic, h_refcount, h_blocks) and every callee result arbitrary",
             "handle: 0 <= ibody_count <= count <= 2 (the function only passes the counts on; the bound keeps a 2-slot all-zero array valid for a repaired tree that walks the array to charge EA-inode values); ibody_count == 0 when the inode has no room for in-inode attributes (call-site guarantee: ext2fs_xattr_set computes ibody_free from the same geometry, ext2fs_xattrs_read_inode finds no in-inode region); the attribute array is not looked at (write_xattrs_to_buffer is replaced by a contract that records its arguments and havocs the region it is given; its own units: write_buffer, write_buffer_small)",
             "s_want_extra_isize <= inode size - 128 (a larger value makes the memset that initialises a zero i_extra_isize run past the inode buffer: observation unit xattrs_write_want_extra_isize)",
             "no value of the attributes written lives in an EA inode that would have to be charged to i_blocks (that part of the i_blocks statement is unit xattrs_write_ea_inode_charge); the case 'no attribute left for the block but the inode has one' is unit xattrs_write_empty_block",
             "device, allocator and checksum code are ghost monitors (see xat2_write_common.h); a new block is different from the old one"],
 "native": false
}
*/
/* VERIF-UNIT
{
 "name": "xattrs_write_empty_block",
 "props": ["C15"],
 "level": "P",
 "tier": "quick",
 "harness": "h_write_empty_block",
 "replace": ["write_xattrs_to_buffer"],
 "sources": ["lib/ext2fs/blknum.c", "lib/ext2fs/i_block.c"],
 "defines": ["EXT2_CUSTOM_MEMORY_ROUTINES"],
 "unwind": 4,
 "unwind_reason": "loop-free, see xattrs_write_place",
 "functions": ["lib/ext2fs/ext_attr.c:ext2fs_xattrs_write", "lib/ext2fs/ext_attr.c:ext2fs_free_ext_attr"],
 "assumes": ["as xattrs_write_place, for the case ibody_count == count (nothing left for the block) on an inode that has an EA block",
             "FAILS ON THE TREE (genuine defect, findings/C15_ea_inode_empty_block_kept): the test 'Are we done?' only skips the block when the inode has none, so the branch that releases the block ('xattrs shrunk, free the block') is dead code: an EA block without entries is written and stays allocated; passes with findings/C15_ea_inode_empty_block_kept/proposed-fix.patch"],
 "native": false
}
*/
/* VERIF-UNIT
{
 "name": "xattrs_write_ea_inode_charge",
 "props": ["C15"],
 "level": "P",
 "tier": "quick",
 "harness": "h_write_ea_inode_charge",
 "replace": ["write_xattrs_to_buffer"],
 "sources": ["lib/ext2fs/blknum.c", "lib/ext2fs/i_block.c"],
 "defines": ["EXT2_CUSTOM_MEMORY_ROUTINES"],
 "unwind": 4,
 "unwind_reason": "loop-free but for the one-element walk over the attribute array a repaired tree may add (count == 1); see xattrs_write_place",
 "functions": ["lib/ext2fs/ext_attr.c:ext2fs_xattrs_write"],
 "assumes": ["as xattrs_write_place; the handle is the one ext2fs_xattrs_open + ext2fs_xattrs_read produce for an inode WITHOUT attributes (all-zero handle, count 0) after xattr_array_update added ONE attribute whose value lives in an EA inode (count == 1, ea_ino != 0, value_len <= 64 KiB); the inode has no EA block and is charged for no value inode yet",
             "statement: what e2fsck pass 1 recomputes for the owner (check_blocks: data blocks + the EA block + size_to_quota_blocks(e_value_size) per value inode, following the kernel's ext4_xattr_inode_alloc_quota -> inode_add_bytes) is what the library leaves in i_blocks",
             "FAILS ON THE TREE (genuine defect, findings/C15_ea_inode_iblocks): neither xattr_create_ea_inode nor ext2fs_xattrs_write charges the owner; e2fsck -fn reports 'i_blocks is X, should be Y' right after ext2fs_xattr_set; passes with findings/C15_ea_inode_iblocks/proposed-fix.patch"],
 "native": false
}
*/
/* VERIF-UNIT
{
 "name": "xattrs_write_want_extra_isize",
 "props": ["C15", "C06"],
 "level": "P",
 "tier": "obs",
 "harness": "h_write_want_extra_isize",
 "replace": ["write_xattrs_to_buffer"],
 "sources": ["lib/ext2fs/blknum.c", "lib/ext2fs/i_block.c"],
 "defines": ["EXT2_CUSTOM_MEMORY_ROUTINES"],
 "unwind": 4,
 "unwind_reason": "loop-free, see xattrs_write_place",
 "functions": ["lib/ext2fs/ext_attr.c:ext2fs_xattrs_write"],
 "assumes": ["as xattrs_write_place but with an ARBITRARY s_want_extra_isize, on an inode whose i_extra_isize is 0",
             "OBSERVATION (robustness against a damaged superblock, stronger than C15): 'If extra_isize isn't set, we need to set it now' does memset(inode + 128, 0, s_want_extra_isize) without comparing the 16-bit superblock field with the inode size; nothing in lib/ext2fs validates s_want_extra_isize (e2fsck's check_super_block does, the kernel clamps it at mount), so a value above inode_size - 128 writes past the inode buffer"],
 "native": false
}
*/
#include "xat_common.h"
#include "xattr2_ea_inode_spec.h"

struct in_s {
	unsigned int inode_size;		/* 128 or 256 */
	unsigned short want_extra_isize;
	struct ext2_inode_large inode;		/* image on disk */
	unsigned int ino;
	int count, ibody_count;
	struct ext2_ext_attr_header hdr;	/* header of the EA block on disk */
	int csum_ok;
	unsigned long long blocks_count, new_blk, goal;
	unsigned int first_data_block;
	long rc_mem[4], rc_iread, rc_iwrite, rc_bread, rc_bwrite[2], rc_csum, rc_alloc, rc_wb[2];
	unsigned int ea_ino, ea_value_len;	/* unit xattrs_write_ea_inode_charge */
};
struct in_s IN;
#include "verif_in.h"
#include "xat2_write_common.h"

#include "lib/ext2fs/ext_attr.c"

static errcode_t write_xattrs_to_buffer(ext2_filsys fs, struct ext2_xattr *attrs, int count, void *entries_start,
					unsigned int storage_size, unsigned int value_offset_correction, int write_hash)
	REQUIRES(xw_wb.n < 2)	/* at most one in-inode region and one block */
	REQUIRES(__CPROVER_w_ok(entries_start, storage_size))
	ENSURES(xw_wb.n == OLD(xw_wb.n) + 1 && g_seq == OLD(g_seq) + 1)
	ENSURES(OLD(xw_wb.n) != 0 || (XW_WB_IS(xw_wb.c0) && XW_WB_SAME(xw_wb.c1)))
	ENSURES(OLD(xw_wb.n) != 1 || (XW_WB_IS(xw_wb.c1) && XW_WB_SAME(xw_wb.c0)))
	ENSURES(RET == IN.rc_wb[OLD(xw_wb.n) & 1])
	ASSIGNS(xw_wb, g_seq, __CPROVER_object_upto(entries_start, storage_size));

static struct struct_ext2_filsys FS;
static struct ext2_super_block SB;
static struct ext2_xattr_handle H;
static struct ext2_xattr ATTRS[2];
static unsigned int extra0, extra, room, ioff;	/* i_extra_isize before / as the function must see it, has in-inode region, its offset */
static unsigned long long acl0, iblk0;

/* isz: the inode size as a CONSTANT (the harnesses call their body once per size, so that buffer sizes stay constants) */
static int g_any_want_extra;
static void setup(const unsigned int isz)
{
	IN.inode_size = isz;
	ASSUME(IN.count >= 0 && IN.count <= 2 && IN.ibody_count >= 0 && IN.ibody_count <= IN.count);
	ASSUME(IN.rc_iread >= 0 && IN.rc_iwrite >= 0 && IN.rc_bread >= 0 && IN.rc_bwrite[0] >= 0 && IN.rc_bwrite[1] >= 0 && IN.rc_csum >= 0 && IN.rc_alloc >= 0 && IN.rc_wb[0] >= 0 && IN.rc_wb[1] >= 0);
	if (!g_any_want_extra) ASSUME(IN.want_extra_isize <= IN.inode_size - 128);
	ASSUME(IN.new_blk != 0 && IN.new_blk != IN.inode.i_file_acl && IN.new_blk >= IN.first_data_block && IN.new_blk < IN.blocks_count && IN.blocks_count <= 0xffffffffull);
	memset(&SB, 0, sizeof(SB));
	SB.s_rev_level = 1; SB.s_inode_size = IN.inode_size; SB.s_want_extra_isize = IN.want_extra_isize;
	SB.s_blocks_count = (unsigned int)IN.blocks_count; SB.s_first_data_block = IN.first_data_block;
	SB.s_log_block_size = 0; SB.s_log_cluster_size = 0;
	memset(&FS, 0, sizeof(FS));
	FS.super = &SB; FS.blocksize = XW_BS; FS.cluster_ratio_bits = 0; FS.flags = 0;
	memset(&H, 0, sizeof(H));	/* as ext2fs_xattrs_open: ext2fs_get_memzero */
	H.magic = EXT2_ET_MAGIC_EA_HANDLE; H.fs = &FS; H.attrs = ATTRS; H.capacity = 2; H.count = IN.count; H.ibody_count = IN.ibody_count; H.ino = IN.ino;
	memset(ATTRS, 0, sizeof(ATTRS));
	/* geometry as the format defines it */
	extra0 = (IN.inode_size > 128) ? IN.inode.i_extra_isize : 0;
	extra = extra0;
	if (IN.inode_size > 128 && extra0 == 0) extra = IN.want_extra_isize ? IN.want_extra_isize : 4;
	room = IN.inode_size > 128 && extra >= 2 && (extra & 3) == 0 && 128 + extra + 4 < IN.inode_size;
	ioff = 128 + extra;
	if (!room) ASSUME(IN.ibody_count == 0);
	acl0 = IN.inode.i_file_acl; iblk0 = IN.inode.i_blocks;
	g_n_mem = 0; g_seq = 0; g_n_iread = g_n_iwrite = g_iwrite_at = g_foreign = 0; g_iwrite_buf = 0; g_iwrite_size = 0;
	g_n_wr = g_n_rd = g_n_alloc = g_alloc_at = g_n_bstats = g_bstats_at = 0; g_bstats_inuse = 0; g_bstats_blk = 0; g_rd_buf = 0; g_rd_blk = 0;
	memset(g_wr, 0, sizeof(g_wr)); memset(&xw_wb, 0, sizeof(xw_wb)); memset(&W_INODE, 0, sizeof(W_INODE)); W_MAGIC = 0;
	memset(g_mem, 0, sizeof(g_mem)); memset(g_mem_size, 0, sizeof(g_mem_size));
}

/* statements common to every successful write-back (placement, order) */
#define COMMON_SUCCESS_CHECKS(nb) do { \
	CHECK(g_foreign == 0 && g_n_iread == 1, "only the handle's inode is read, once"); \
	CHECK(g_n_iwrite == 1 && g_iwrite_size == (int)IN.inode_size && g_iwrite_buf == g_mem[0], "the inode is written once, whole, from the buffer it was read into"); \
	CHECK(g_n_wr == 0 || g_wr[g_n_wr < 3 ? g_n_wr - 1 : 2].at < g_iwrite_at, "the inode is written after the EA block(s)"); \
	/* in-inode part: attributes 0 .. ibody_count-1, in array order, directly behind the magic */ \
	if (room) { \
		CHECK(xw_wb.n >= 1 && xw_wb.c0.attrs == ATTRS && xw_wb.c0.count == IN.ibody_count, "in-inode region: the first ibody_count attributes, in array order"); \
		CHECK(xw_wb.c0.start == (char *)g_mem[0] + ioff + 4 && xw_wb.c0.storage == IN.inode_size - ioff - 4 && xw_wb.c0.corr == 0, \
		      "in-inode region: from behind the magic to the end of the inode, value offsets relative to the first entry"); \
		CHECK(W_MAGIC == EXT2_EXT_ATTR_MAGIC && W_INODE.i_extra_isize == extra, "the image written carries the magic right behind the fixed fields"); \
		CHECK(xw_wb.c0.at < g_iwrite_at, "region filled before the inode is written"); \
	} else \
		CHECK(xw_wb.n == ((nb) > 0 ? 1u : 0u), "no room in the inode: no in-inode region is produced"); \
} while (0)

static void b_write_place(const unsigned int isz)
{
	g_any_want_extra = 0;
	setup(isz);
	const int nb = IN.count - IN.ibody_count;	/* attributes left for the block */
	ASSUME(!(nb == 0 && acl0 != 0));		/* unit xattrs_write_empty_block */
	errcode_t r = ext2fs_xattrs_write(&H);

	CHECK(g_n_alloc <= 1 && g_n_bstats == 0, "at most one block is allocated, none is freed");
	if (r == 0) {
		COMMON_SUCCESS_CHECKS(nb);
		const struct xw_wb *cb = room ? &xw_wb.c1 : &xw_wb.c0;
		if (nb == 0) {
			/* A: nothing for the block, none there */
			CHECK(g_n_wr == 0 && g_n_rd == 0 && g_n_alloc == 0, "no block attributes, no EA block: no block traffic");
			CHECK(W_INODE.i_file_acl == 0 && W_INODE.i_blocks == iblk0, "i_file_acl stays 0, i_blocks unchanged");
			CHECK(xw_wb.n == (room ? 1u : 0u), "only the in-inode region is produced");
			REACH("A: in-inode only");
		} else {
			CHECK(xw_wb.n == (room ? 2u : 1u) && cb->attrs == ATTRS + IN.ibody_count && cb->count == nb, "block: the attributes from ibody_count on, in array order");
			CHECK(cb->storage == XW_BS - XW_HDR && cb->corr == XW_HDR && cb->write_hash == 1, "block: entries behind the 32-byte header, value offsets relative to the block, entry hashes written");
			/* the last block write is the new content: header magic, refcount 1, one block; from the buffer just filled; to the block i_file_acl names */
			const struct xw_wr *w = &g_wr[g_n_wr == 2 ? 1 : 0];
			CHECK(g_n_wr >= 1 && g_n_wr <= 2 && w->data == (char *)cb->start - XW_HDR && w->count == 1, "the block written last is the buffer the attributes were put into");
			CHECK(w->magic == EXT2_EXT_ATTR_MAGIC && w->refcount == 1 && w->blocks == 1, "new content goes out with magic, h_refcount 1, h_blocks 1");
			CHECK(w->blk == W_INODE.i_file_acl && W_INODE.i_file_acl != 0, "... to the block i_file_acl names afterwards");
			CHECK(cb->at < w->at, "region filled before the block is written");
			if (acl0 == 0) {
				/* C: first block */
				CHECK(g_n_alloc == 1 && W_INODE.i_file_acl == IN.new_blk && g_n_wr == 1 && g_n_rd == 0, "no block before: exactly one is allocated and written");
				CHECK(W_INODE.i_blocks == iblk0 + 2, "i_blocks grows by one block, once");
				REACH("C: first block");
			} else if (IN.hdr.h_refcount == 1) {
				/* D: private block, rewritten in place */
				CHECK(g_n_alloc == 0 && g_n_wr == 1 && W_INODE.i_file_acl == acl0 && W_INODE.i_blocks == iblk0, "private block (h_refcount 1): rewritten in place, nothing allocated, i_blocks unchanged");
				REACH("D: in place");
			} else {
				/* E: shared block: copy on write */
				CHECK(g_n_alloc == 1 && g_n_wr == 2 && W_INODE.i_file_acl == IN.new_blk, "shared block: a new block is allocated for the new content");
				CHECK(g_wr[0].blk == acl0 && g_wr[0].data == g_rd_buf && g_wr[0].refcount == IN.hdr.h_refcount - 1 && g_wr[0].magic == IN.hdr.h_magic,
				      "shared block: only its h_refcount drops by one; it goes back from the buffer it was read into, never with the new content");
				CHECK(g_wr[0].data != w->data && g_rd_blk == acl0, "shared block: two different buffers");
				CHECK(W_INODE.i_blocks == iblk0, "shared block: one reference out, one block in: i_blocks unchanged");
				REACH("E: copy on write");
			}
			if (acl0 != 0) CHECK(g_n_rd == 1 && g_rd_blk == acl0 && IN.hdr.h_magic == EXT2_EXT_ATTR_MAGIC && IN.hdr.h_blocks == 1 && acl0 >= IN.first_data_block && acl0 < IN.blocks_count,
					     "an existing block is only reused or released after its header was read and found valid");
		}
#if !defined(XW_ONLY_ISIZE) || XW_ONLY_ISIZE == 256
		if (room && IN.ibody_count > 0 && nb > 0) REACH("both regions");
#endif
#if !defined(XW_ONLY_ISIZE) || XW_ONLY_ISIZE == 128
		if (IN.inode_size == 128) REACH("128-byte inodes");
#endif
#if !defined(XW_ONLY_ISIZE) || XW_ONLY_ISIZE == 256
		if (IN.inode_size == 256 && extra0 == 0) REACH("i_extra_isize initialised");
#endif
	} else {
		CHECK(g_n_iwrite == 0 || IN.rc_iwrite, "failure: the inode is not written (unless that write is what failed)");
		REACH("failure");
	}
	REACH("end");
}

/* B: the last attribute left the block */
static void b_write_empty_block(const unsigned int isz)
{
	g_any_want_extra = 0;
	setup(isz);
	const int nb = IN.count - IN.ibody_count;
	ASSUME(nb == 0 && acl0 != 0);
	errcode_t r = ext2fs_xattrs_write(&H);
	if (r == 0) {
		COMMON_SUCCESS_CHECKS(nb);
		CHECK(W_INODE.i_file_acl == 0, "no attribute left for the block: i_file_acl is cleared");
		CHECK(W_INODE.i_blocks + 2 == iblk0, "... and i_blocks shrinks by that block");
		CHECK(g_n_alloc == 0, "nothing is allocated");
		CHECK(g_n_rd == 1 && g_rd_blk == acl0 && g_n_wr == 1 && g_wr[0].blk == acl0 && g_wr[0].refcount == IN.hdr.h_refcount - 1, "the old block loses one reference");
		CHECK((g_n_bstats == 1) == (IN.hdr.h_refcount == 1), "the block is freed exactly when that was the last reference");
		CHECK(g_n_bstats == 0 || (g_bstats_blk == acl0 && g_bstats_inuse == -1), "... and it is that block, given back once");
		if (IN.hdr.h_refcount == 1) REACH("B: last reference"); else REACH("B: still shared");
	}
	REACH("end");
}

/* item 5: i_blocks of the owner after the first EA-inode valued attribute was added */
static void b_write_ea_inode_charge(const unsigned int isz)
{
	g_any_want_extra = 0;
	setup(isz);
	ASSUME(IN.count == 1 && IN.ea_ino != 0 && IN.ea_value_len <= X2SPEC_VALUE_MAX);
	ASSUME(acl0 == 0);					/* the inode had no attributes */
	ASSUME(iblk0 <= 0x7fffffffu);				/* room in the 32-bit field */
	ATTRS[0].ea_ino = IN.ea_ino; ATTRS[0].value_len = IN.ea_value_len;
	ATTRS[0].name = malloc(8); ATTRS[0].short_name = ATTRS[0].name + 5; ATTRS[0].value = malloc(1);
	ASSUME(ATTRS[0].name != 0 && ATTRS[0].value != 0);
	errcode_t r = ext2fs_xattrs_write(&H);
	if (r == 0) {
		unsigned long long expect = iblk0 + (W_INODE.i_file_acl ? 2 : 0) + X2SPEC_CHARGE_SECTORS(IN.ea_value_len, XW_BS, 0);
		CHECK(W_INODE.i_blocks == expect, "owner's i_blocks = data blocks + EA block + the kernel's charge for the value inode (what e2fsck pass 1 recomputes)");
		if (IN.ea_value_len > XW_BS) REACH("value longer than one block");
		if (W_INODE.i_file_acl) REACH("entry in the block"); else REACH("entry in the inode");
	}
	REACH("end");
}

static void b_write_want_extra_isize(const unsigned int isz)
{
	g_any_want_extra = 1;
	setup(isz);
	ASSUME(isz == 256 && IN.inode.i_extra_isize == 0);
	errcode_t r = ext2fs_xattrs_write(&H);	/* the obligations are the memory-safety checks inside the real function */
	if (IN.want_extra_isize > 128) REACH("s_want_extra_isize larger than the space behind the fixed fields");
	REACH("end");
}

#ifdef XW_ONLY_ISIZE
#define BY_INODE_SIZE(body) do { LOAD_IN(); body(XW_ONLY_ISIZE); } while (0)
#else
#define BY_INODE_SIZE(body) do { LOAD_IN(); ASSUME(IN.inode_size == 128 || IN.inode_size == 256); if (IN.inode_size == 128) body(128); else body(256); } while (0)
#endif
void h_write_place(void) { BY_INODE_SIZE(b_write_place); }
void h_write_empty_block(void) { BY_INODE_SIZE(b_write_empty_block); }
void h_write_ea_inode_charge(void) { BY_INODE_SIZE(b_write_ea_inode_charge); }
void h_write_want_extra_isize(void) { BY_INODE_SIZE(b_write_want_extra_isize); }
