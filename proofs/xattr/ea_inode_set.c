/* VERIF-UNIT
{
 "name": "ea_inode_set_decision",
 "props": ["C15"],
 "level": "U/k",
 "tier": "quick",
 "harness": "h_set_decision",
 "replace": ["find_ea_index", "space_used", "xattr_array_update", "ext2fs_xattrs_write", "convert_posix_acl_to_disk_buffer"],
 "defines": ["EXT2_CUSTOM_MEMORY_ROUTINES"],
 "cbmc_flags": ["--object-bits", "10"],
 "unwind": 4,
 "unwind_reason": "the only loop of ext2fs_xattr_set (search for an attribute of the same name) runs over handle->count <= 2 entries; unwinding assertions on",
 "functions": ["lib/ext2fs/ext_attr.c:ext2fs_xattr_set"],
 "assumes": ["handle with 0 <= ibody_count <= count <= 2 named attributes (bound on the array length only: the loop body treats every slot alike); block size 1024 or 4096, inode size 128, 256 or 512, features, i_extra_isize, s_want_extra_isize arbitrary; value of 0 .. 70000 bytes",
             "libc strcmp / strlen / memcmp are uninterpreted functions of their pointer arguments (strlen <= 255: the over-long-name refusal is not exercised here), memcpy a range-CHECKING stub (the copy handed on is not looked at)",
             "callees by contract: find_ea_index, space_used (arbitrary result in [0, 65536]: the entries resident in a region fit in it, regions are at most one 64 KiB block; proved equal to the format's sum in unit space_used), convert_posix_acl_to_disk_buffer (fails, or delivers a length not above the input length: the on-disk ACL form is the more compact one), xattr_array_update (records the arguments of up to two calls; arbitrary result in [0, 2^31)), ext2fs_xattrs_write (recorded, arbitrary result); ext2fs_read_inode_full delivers an arbitrary inode or fails; allocation may fail",
             "statement (kernel: ext4_xattr_set_handle): a value inode is asked for exactly when the file system has ea_inode and the value exceeds EXT4_XATTR_MIN_LARGE_EA_SIZE(blocksize) = blocksize - 32 - EXT4_XATTR_LEN(3) - 4, or when the first placement attempt reports 'no space' on an ea_inode file system; free-space figures are the region sizes of the format minus the 4-byte terminator minus what the resident entries use; system.data stays in the inode"],
 "native": false
}
*/
/* VERIF-UNIT
{
 "name": "ea_inode_set_limit",
 "props": ["C15"],
 "level": "U/k",
 "tier": "quick",
 "harness": "h_set_limit",
 "replace": ["find_ea_index", "space_used", "xattr_array_update", "ext2fs_xattrs_write", "convert_posix_acl_to_disk_buffer"],
 "defines": ["EXT2_CUSTOM_MEMORY_ROUTINES"],
 "cbmc_flags": ["--object-bits", "10"],
 "unwind": 4,
 "unwind_reason": "see ea_inode_set_decision",
 "functions": ["lib/ext2fs/ext_attr.c:ext2fs_xattr_set"],
 "assumes": ["as ea_inode_set_decision",
             "statement: what ext2fs_xattr_set accepts, read_xattrs_from_buffer can read back: an attribute is only placed (xattr_array_update called) with a value of at most 64 KiB (XATTR_SIZE_MAX, the reader's limit for EA-inode values)",
             "FAILS ON THE TREE (findings/C15_ea_inode_value_over_64k): no upper bound is checked; passes with the proposed fix"],
 "native": false
}
*/
#define XAT_UF_STRLEN
#define XAT_UF_MEMCMP
#include "xat_common.h"
#include "xattr2_ea_inode_spec.h"

struct in_s {
	unsigned int blocksize, inode_size;
	unsigned int feature_incompat, feature_compat;
	unsigned short want_extra_isize, i_extra_isize;
	int count, ibody_count;
	struct { unsigned int value_len, ea_ino; } a[2];
	unsigned long long value_len;
	unsigned int flags;
	long rc_mem[3], rc_iread, rc_au[2], rc_write, rc_acl;
	unsigned long long acl_size;
	int space[2];
	unsigned int name_off;
};
struct in_s IN;
#include "verif_in.h"

#ifndef VERIF_NATIVE
int __CPROVER_uninterpreted_x2_strcmp(const char *, const char *);
int strcmp(const char *a, const char *b) { return __CPROVER_uninterpreted_x2_strcmp(a, b); }
void *memcpy(void *dst, const void *src, size_t n)
{
	__CPROVER_assert(__CPROVER_r_ok(src, n), "CHECK:memcpy source range readable");
	__CPROVER_assert(__CPROVER_w_ok(dst, n), "CHECK:memcpy destination range writable");
	return dst;
}
#endif
static unsigned int g_n_mem;
errcode_t ext2fs_get_mem(unsigned long size, void *ptr)
{
	if (IN.rc_mem[g_n_mem < 2 ? g_n_mem++ : 2]) return EXT2_ET_NO_MEMORY;
	void *p = malloc(size);
	__CPROVER_assume(p != 0);
	*(void **)ptr = p;
	return 0;
}
errcode_t ext2fs_get_memzero(unsigned long size, void *ptr)
{
	errcode_t e = ext2fs_get_mem(size, ptr);
	if (!e) memset(*(void **)ptr, 0, size);
	return e;
}
errcode_t ext2fs_get_arrayzero(unsigned long count, unsigned long size, void *ptr) { return ext2fs_get_memzero(count * size, ptr); }
errcode_t ext2fs_free_mem(void *ptr) { free(*(void **)ptr); *(void **)ptr = 0; return 0; }

static unsigned int g_n_iread;
errcode_t ext2fs_read_inode_full(ext2_filsys fs, ext2_ino_t ino, struct ext2_inode *inode, int bufsize)
{
	g_n_iread++;
	if (IN.rc_iread) return IN.rc_iread;
	__CPROVER_assert(bufsize == (int)IN.inode_size && __CPROVER_w_ok(inode, bufsize), "CHECK:inode read into a buffer of the on-disk inode size");
	if (bufsize > 128) ((struct ext2_inode_large *)inode)->i_extra_isize = IN.i_extra_isize;
	return 0;
}

/* monitor of the placement calls */
struct x2_au { const void *h; const char *name; const void *value; unsigned long long value_len; int ibody_free, block_free, old_idx, in_inode; };
struct x2_set_s { unsigned int n_au, n_write, n_space; struct x2_au c0, c1; const void *sp_attrs[2]; int sp_count[2]; } x2_set;
#define AU_IS(c) ((c).h == h && (c).name == name && (c).value == value && (c).value_len == value_len && (c).ibody_free == ibody_free && \
		  (c).block_free == block_free && (c).old_idx == old_idx && (c).in_inode == in_inode)
#define AU_SAME(c) ((c).h == OLD((c).h) && (c).name == OLD((c).name) && (c).value == OLD((c).value) && (c).value_len == OLD((c).value_len) && \
		    (c).ibody_free == OLD((c).ibody_free) && (c).block_free == OLD((c).block_free) && (c).old_idx == OLD((c).old_idx) && (c).in_inode == OLD((c).in_inode))

#include "lib/ext2fs/ext_attr.c"

static int find_ea_index(const char *fullname, const char **name, int *index)
	ENSURES(*name == fullname + (RET ? IN.name_off : 0))
	ASSIGNS(*name, *index);
static int space_used(struct ext2_xattr *attrs, int count)
	REQUIRES(x2_set.n_space < 2)
	ENSURES(x2_set.n_space == OLD(x2_set.n_space) + 1 && RET == IN.space[OLD(x2_set.n_space) & 1])
	ENSURES(OLD(x2_set.n_space) != 0 || (x2_set.sp_attrs[0] == attrs && x2_set.sp_count[0] == count && x2_set.sp_attrs[1] == OLD(x2_set.sp_attrs[1]) && x2_set.sp_count[1] == OLD(x2_set.sp_count[1])))
	ENSURES(OLD(x2_set.n_space) != 1 || (x2_set.sp_attrs[1] == attrs && x2_set.sp_count[1] == count && x2_set.sp_attrs[0] == OLD(x2_set.sp_attrs[0]) && x2_set.sp_count[0] == OLD(x2_set.sp_count[0])))
	ASSIGNS(x2_set.n_space, x2_set.sp_attrs, x2_set.sp_count);
static errcode_t convert_posix_acl_to_disk_buffer(const void *value, size_t size, void *out_buf, size_t *size_out)
	ENSURES(RET == IN.rc_acl && (RET != 0 || (*size_out == IN.acl_size && IN.acl_size <= size)))
	ASSIGNS(*size_out);
static errcode_t xattr_array_update(struct ext2_xattr_handle *h, const char *name, const void *value, size_t value_len,
				    int ibody_free, int block_free, int old_idx, int in_inode)
	REQUIRES(x2_set.n_au < 2)
	ENSURES(x2_set.n_au == OLD(x2_set.n_au) + 1 && RET == IN.rc_au[OLD(x2_set.n_au) & 1])
	ENSURES(OLD(x2_set.n_au) != 0 || (AU_IS(x2_set.c0) && AU_SAME(x2_set.c1)))
	ENSURES(OLD(x2_set.n_au) != 1 || (AU_IS(x2_set.c1) && AU_SAME(x2_set.c0)))
	ASSIGNS(x2_set.n_au, x2_set.c0, x2_set.c1);
errcode_t ext2fs_xattrs_write(struct ext2_xattr_handle *handle)
	ENSURES(x2_set.n_write == OLD(x2_set.n_write) + 1 && RET == IN.rc_write)
	ASSIGNS(x2_set.n_write);

static struct struct_ext2_filsys FS;
static struct ext2_super_block SB;
static struct ext2_xattr_handle H;
static struct ext2_xattr A[2];
static char *g_name; static unsigned char *g_value;
static int g_old_idx;
#define RC_OK(rc) ((rc) >= 0 && (rc) <= 0x7fffffffL)

static errcode_t run(const unsigned int bs)
{
	ASSUME(IN.inode_size == 128 || IN.inode_size == 256 || IN.inode_size == 512);
	ASSUME(IN.count >= 0 && IN.count <= 2 && IN.ibody_count >= 0 && IN.ibody_count <= IN.count);
	ASSUME(IN.value_len <= 70000 && IN.name_off <= 24);
	ASSUME(RC_OK(IN.rc_iread) && RC_OK(IN.rc_au[0]) && RC_OK(IN.rc_au[1]) && RC_OK(IN.rc_write) && RC_OK(IN.rc_acl));
	ASSUME(IN.space[0] >= 0 && IN.space[1] >= 0 && IN.space[0] <= 65536 && IN.space[1] <= 65536);	/* resident entries fit in their region (<= 64 KiB) */
	memset(&SB, 0, sizeof(SB));
	SB.s_rev_level = 1; SB.s_inode_size = IN.inode_size; SB.s_want_extra_isize = IN.want_extra_isize;
	SB.s_feature_incompat = IN.feature_incompat; SB.s_feature_compat = IN.feature_compat;
	memset(&FS, 0, sizeof(FS));
	FS.super = &SB; FS.blocksize = bs;
	memset(&H, 0, sizeof(H)); memset(A, 0, sizeof(A));
	H.magic = EXT2_ET_MAGIC_EA_HANDLE; H.fs = &FS; H.attrs = A; H.capacity = 2; H.count = IN.count; H.ibody_count = IN.ibody_count; H.ino = 12; H.flags = IN.flags;
	for (int i = 0; i < 2; i++)
		if (i < IN.count) {
			A[i].name = malloc(8); A[i].value = malloc(A[i].value_len = IN.a[i].value_len); A[i].ea_ino = IN.a[i].ea_ino;
			ASSUME(A[i].name != 0 && A[i].value != 0);
			A[i].short_name = A[i].name + 5;
		}
	g_name = malloc(300); g_value = malloc(IN.value_len ? IN.value_len : 1);
	ASSUME(g_name != 0 && g_value != 0);
	g_n_mem = 0; g_n_iread = 0; memset(&x2_set, 0, sizeof(x2_set));
	/* the slot that carries the same name (first match), -1 if none */
	g_old_idx = -1;
	for (int i = 1; i >= 0; i--)
		if (i < IN.count && __CPROVER_uninterpreted_x2_strcmp(A[i].name, g_name) == 0) g_old_idx = i;
	return ext2fs_xattr_set(&H, g_name, g_value, (size_t)IN.value_len);
}
#define IS_ACL_NAME(n) (__CPROVER_uninterpreted_x2_strcmp(n, "system.posix_acl_default") == 0 || __CPROVER_uninterpreted_x2_strcmp(n, "system.posix_acl_access") == 0)

static void b_set_decision(const unsigned int bs)
{
	errcode_t r = run(bs);
	const int ea_feature = (IN.feature_incompat & EXT4_FEATURE_INCOMPAT_EA_INODE) != 0;
	const int is_data = __CPROVER_uninterpreted_x2_strcmp(g_name, "system.data") == 0;
	/* the length that is placed: the converted one for POSIX ACLs */
	const struct x2_au *c0 = &x2_set.c0, *c1 = &x2_set.c1;
	CHECK(x2_set.n_au <= 2 && x2_set.n_write <= 1, "at most two placement attempts, at most one write-back");
	CHECK(x2_set.n_write == 0 || x2_set.n_au >= 1, "nothing is written back without a placement");
	if (x2_set.n_au >= 1) {
		const unsigned long long vlen = c0->value_len;
		const long long min_large = (long long)bs - 32 - 20 - 4;	/* EXT4_XATTR_MIN_LARGE_EA_SIZE: block - header - EXT4_XATTR_LEN(3) - terminator */
		CHECK(c0->h == &H && c0->name == g_name && c0->old_idx == g_old_idx, "placement is asked for this handle, this name, replacing the attribute of the same name");
		CHECK(vlen <= IN.value_len && (vlen == IN.value_len || !(IN.flags & XATTR_HANDLE_FLAG_RAW)), "the length placed is the caller's (or that of the compact on-disk ACL)");
		/* free space per region, from the format */
		long long ibody_cap = (long long)IN.inode_size - 128;
		if (IN.inode_size > 128) {
			unsigned int ex = IN.i_extra_isize ? IN.i_extra_isize : (IN.want_extra_isize ? IN.want_extra_isize : 4);
			ibody_cap = ibody_cap - ex - 4 /* magic */ - 4 /* terminator */;
			CHECK(c0->ibody_free == ibody_cap - IN.space[0] && x2_set.sp_attrs[0] == A && x2_set.sp_count[0] == IN.ibody_count,
			      "in-inode free space: inode size - 128 - i_extra_isize - magic - terminator - space of the resident entries");
		} else
			CHECK(c0->ibody_free == 0, "128-byte inodes have no in-inode region");
		if (is_data) {
			CHECK(c0->block_free == 0 && c0->in_inode == 0 && x2_set.n_au == 1, "system.data: only the inode body, never a value inode, one attempt");
			CHECK(g_old_idx < IN.ibody_count, "system.data found in the block: refused before any placement");
			REACH("system.data");
		} else {
			const int si = IN.inode_size > 128 ? 1 : 0;
			CHECK(c0->block_free == (long long)bs - 32 - 4 - IN.space[si] && x2_set.sp_attrs[si] == A + IN.ibody_count && x2_set.sp_count[si] == IN.count - IN.ibody_count,
			      "block free space: block size - header - terminator - space of the resident entries");
			CHECK((c0->in_inode != 0) == (ea_feature && (long long)vlen > min_large), "first attempt: value inode exactly when ea_inode and value > EXT4_XATTR_MIN_LARGE_EA_SIZE");
			const int retry = (IN.rc_au[0] == EXT2_ET_EA_NO_SPACE && !c0->in_inode && ea_feature);
			CHECK((x2_set.n_au == 2) == retry, "second attempt exactly after 'no space' without a value inode on an ea_inode file system");
			if (x2_set.n_au == 2) {
				CHECK(c1->in_inode == 1 && c1->h == c0->h && c1->name == c0->name && c1->value == c0->value && c1->value_len == c0->value_len &&
				      c1->ibody_free == c0->ibody_free && c1->block_free == c0->block_free && c1->old_idx == c0->old_idx, "second attempt: same request, value in an EA inode");
				REACH("retry with a value inode");
			}
			if (c0->in_inode) REACH("large value: value inode at once");
		}
		CHECK(ea_feature || (!c0->in_inode && x2_set.n_au == 1), "no ea_inode feature: a value inode is never asked for");
		const long last = x2_set.n_au == 2 ? IN.rc_au[1] : IN.rc_au[0];
		CHECK((x2_set.n_write == 1) == (last == 0), "written back exactly when the placement succeeded");
		CHECK(r == (last ? last : IN.rc_write), "result: the placement error, else the result of the write-back");
		if (last == 0) REACH("placed");
	} else {
		CHECK(x2_set.n_write == 0, "no placement, no write-back");
		if (r == 0) {
			/* kernel: an identical value is not stored again */
			CHECK(g_old_idx >= 0 && !A[g_old_idx].ea_ino && A[g_old_idx].value_len <= IN.value_len, "success without placement only for an attribute that already has this value inline");
			REACH("same value: nothing to do");
		}
	}
	if (bs == 4096) REACH("4 KiB blocks");
	REACH("end");
}

static void b_set_limit(const unsigned int bs)
{
	errcode_t r = run(bs);
	CHECK(x2_set.n_au == 0 || x2_set.c0.value_len <= X2SPEC_VALUE_MAX, "an attribute is only placed with a value the reader accepts (<= 64 KiB)");
	if (IN.value_len > X2SPEC_VALUE_MAX && !IN.rc_mem[0]) REACH("over-long value offered");
	REACH("end");
}

#define BY_BLOCK_SIZE(body) do { LOAD_IN(); ASSUME(IN.blocksize == 1024 || IN.blocksize == 4096); if (IN.blocksize == 1024) body(1024); else body(4096); } while (0)
void h_set_decision(void) { BY_BLOCK_SIZE(b_set_decision); }
void h_set_limit(void) { BY_BLOCK_SIZE(b_set_limit); }
