/* VERIF-UNIT
{
 "name": "space_used",
 "props": ["C15"],
 "level": "U",
 "tier": "quick",
 "harness": "h_space_used",
 "enforce": ["space_used"],
 "loop_contracts": true,
 "unwind": 6,
 "unwind_reason": "the only loop is closed by its in-place loop contract; the bound serves the DFCC library's write-set loops (unwinding assertions on)",
 "functions": ["lib/ext2fs/ext_attr.c:space_used"],
 "assumes": ["array of symbolic length count (-1 .. 2^20) with ARBITRARY contents (name pointers, value_len, ea_ino)",
             "libc strlen is an uninterpreted pure function of the pointer with result <= 255 (name length limit of the format); space_used is proved to write no memory, so the strings cannot change during the call",
             "the specification sum (XSPEC_NEED of specs/xattr_spec.h: 4-rounded 16+name_len, plus the 4-rounded value length unless the value lives in an EA inode) runs as a 64-bit ghost sum in lockstep inside the loop contract; unit space_used_small cross-checks it against a direct sum over real strings",
             "needs the VERIF_LOOP hook in lib/ext2fs/ext_attr.c (hooks-pending/xat.diff)"],
 "native": false
}
*/
/* VERIF-UNIT
{
 "name": "space_used_small",
 "props": ["C15"],
 "level": "B(3)",
 "tier": "quick",
 "harness": "h_space_used_small",
 "unwind": 7,
 "unwind_reason": "bounded cross-check: count <= 3, names <= 4 bytes (+NUL) in real buffers, libc strlen is CBMC's built-in model; all loops unwound, unwinding assertions on",
 "functions": ["lib/ext2fs/ext_attr.c:space_used"],
 "assumes": ["BOUNDED: count <= 3, name length <= 4; value_len and ea_ino arbitrary 32-bit"],
 "native": false
}
*/
#ifdef VERIF_UNIT_space_used
#define XAT_UF_STRLEN
#endif
#include "xat_common.h"

struct in_s {
	int count;
	unsigned char len[3];
	char name[3][5];
	unsigned int value_len[3];
	unsigned int ea_ino[3];
};
struct in_s IN;
#include "verif_in.h"

struct ext2_xattr;
/*
 * verif_g0: 64-bit ghost sum of XSPEC_NEED over the array (lockstep, see the hook).  The function computes in
 * unsigned 32-bit arithmetic stored to an int: the result is the sum modulo 2^32; it is the exact sum whenever
 * that fits an int (always the case for attribute sets that fit an inode body plus one block).
 */
static int space_used(struct ext2_xattr *attrs, int count)
	REQUIRES(verif_g0 == 0)
	ENSURES((unsigned int)RET == (unsigned int)verif_g0)
	ENSURES(verif_g0 > (unsigned long long)INT_MAX || RET == (int)verif_g0)
	ENSURES(count > 0 || RET == 0)
	ENSURES(count <= 0 || (verif_g0 >= 16ull * count && verif_g0 % 4 == 0))
	ASSIGNS(verif_g0);

#include "lib/ext2fs/ext_attr.c"

void h_space_used(void)
{
	LOAD_IN();
	ASSUME(IN.count >= -1 && IN.count <= (1 << 20));
	size_t n = IN.count > 0 ? (size_t)IN.count : 1;
	struct ext2_xattr *a = malloc(n * sizeof(struct ext2_xattr));	/* contents arbitrary */
	ASSUME(a != 0);
	verif_g0 = 0;
	int r = space_used(a, IN.count);
	CHECK((unsigned int)r == (unsigned int)verif_g0, "result is the format's sum modulo 2^32");
	if (verif_g0 <= (unsigned long long)INT_MAX) {
		CHECK(r >= 0 && (unsigned long long)r == verif_g0, "result is exactly the format's sum when it fits an int");
		REACH("fits");
	}
	if (IN.count <= 0)
		CHECK(r == 0, "empty array uses no space");
	else
		CHECK(verif_g0 >= 16ull * (unsigned long long)IN.count, "every entry costs at least its 16-byte header");
	if (IN.count == (1 << 20)) REACH("max-count");
	REACH("end");
}

void h_space_used_small(void)
{
	LOAD_IN();
	ASSUME(IN.count >= 0 && IN.count <= 3);
	struct ext2_xattr *a = malloc(3 * sizeof(struct ext2_xattr));
	ASSUME(a != 0);
	unsigned long long want = 0;
	for (int i = 0; i < 3; i++) {
		ASSUME(IN.len[i] <= 4);
		for (int j = 0; j < 5; j++)
			ASSUME((IN.name[i][j] == 0) == (j == IN.len[i]) || j > IN.len[i]);
		a[i].name = IN.name[i];
		a[i].short_name = IN.name[i];
		a[i].name_index = 0;
		a[i].value = 0;
		a[i].value_len = IN.value_len[i];
		a[i].ea_ino = IN.ea_ino[i];
		if (i < IN.count)
			want += XSPEC_NEED(IN.len[i], IN.value_len[i], IN.ea_ino[i]);
	}
	int r = space_used(a, IN.count);
	CHECK((unsigned int)r == (unsigned int)want, "space_used == sum of EXT4_XATTR_LEN(name) + (ea_ino ? 0 : EXT4_XATTR_SIZE(value)) mod 2^32");
	if (want <= (unsigned long long)INT_MAX)
		CHECK(r >= 0 && (unsigned long long)r == want, "exact when the sum fits an int");
	if (IN.count == 3 && IN.ea_ino[0] && !IN.ea_ino[1] && IN.len[2] == 4) REACH("mixed");
	REACH("end");
}
