/* VERIF-UNIT
{
 "name": "update_entry",
 "props": ["C15"],
 "level": "U",
 "tier": "quick",
 "harness": "h_update_entry",
 "enforce": ["xattr_update_entry"],
 "replace": ["xattr_create_ea_inode", "xattr_inode_dec_ref"],
 "unwind": 6,
 "unwind_reason": "xattr_update_entry is loop-free; the bound serves the DFCC library's write-set loops (unwinding assertions on)",
 "functions": ["lib/ext2fs/ext_attr.c:xattr_update_entry"],
 "assumes": ["value_len <= 2^24 (format limit), name readable for strlen(name)+1 <= 256 bytes, short_name = name + offset (<= 24)",
             "call-site guarantee: an unused slot (x->name == NULL) is all zero (arrays come from ext2fs_get_arrayzero and ext2fs_xattr_remove clears the vacated slot); x->value is NULL or a heap object",
             "libc strlen uninterpreted (<= 255); libc memcpy is a stub that CHECKS both ranges and copies the byte at the ghost index xat_bk (the destinations are fresh heap objects with otherwise arbitrary contents)",
             "callees by contract: xattr_create_ea_inode (fails, or returns a non-zero inode number), xattr_inode_dec_ref (may fail); both counted by ghost counters; error codes are in [0, 2^31) and never EXT2_ET_EA_NO_SPACE (textually the only origin of that code is xattr_array_update)"],
 "native": false
}
*/
#define XAT_UF_STRLEN
#include "xat_common.h"

struct in_s {
	struct { int name_index; unsigned int value_len; unsigned int ea_ino; unsigned char has_name, has_value; } x;
	unsigned long long value_len, bk;
	unsigned int new_ino, off;
	int index, in_inode;
	long rc_create, rc_dec[2];
};
struct in_s IN;
#include "verif_in.h"

#ifndef VERIF_NATIVE
void *memcpy(void *dst, const void *src, size_t n)
{
	__CPROVER_assert(__CPROVER_r_ok(src, n), "CHECK:memcpy source range readable");
	__CPROVER_assert(__CPROVER_w_ok(dst, n), "CHECK:memcpy destination range writable");
	unsigned char *d = dst;
	const unsigned char *s = src;
	/* the first 8 bytes exactly (ext2fs_get_mem / ext2fs_free_mem move pointers with memcpy), then the ghost byte */
#define CP(i) if (n > (i)) d[i] = s[i];
	CP(0) CP(1) CP(2) CP(3) CP(4) CP(5) CP(6) CP(7)
#undef CP
	if (xat_bk >= 8 && xat_bk < n)
		d[xat_bk] = s[xat_bk];
	return dst;
}
#endif

#include "lib/ext2fs/ext_attr.c"
#include "xat_contracts.h"

/* ghost monitors: how often each EA inode was released / created */
#define g_created xat_mon.created
#define g_dec_old xat_mon.dec_old
#define g_dec_new xat_mon.dec_new
#define g_dec_other xat_mon.dec_other
#define g_ndec xat_mon.ndec
unsigned int g_old_ino;

static errcode_t xattr_create_ea_inode(ext2_filsys fs, const void *value, size_t value_len, ext2_ino_t *ea_ino)
	ENSURES(RET == IN.rc_create)
	ENSURES(RET != 0 || (*ea_ino == (ext2_ino_t)verif_g2 && verif_g2 == IN.new_ino))
	ENSURES(g_created == OLD(g_created) + (RET == 0 ? 1 : 0))
	ENSURES(RET == 0 || *ea_ino == OLD(*ea_ino))
	ASSIGNS(*ea_ino, verif_g2, g_created);

static errcode_t xattr_inode_dec_ref(ext2_filsys fs, ext2_ino_t ino)
	ENSURES(RET == IN.rc_dec[OLD(g_ndec) < 2 ? OLD(g_ndec) : 1])
	ENSURES(g_ndec == OLD(g_ndec) + 1)
	ENSURES(g_dec_new == OLD(g_dec_new) + ((g_created && ino == IN.new_ino) ? 1 : 0))
	ENSURES(g_dec_old == OLD(g_dec_old) + ((!(g_created && ino == IN.new_ino) && ino == g_old_ino) ? 1 : 0))
	ENSURES(g_dec_other == OLD(g_dec_other) + ((!(g_created && ino == IN.new_ino) && ino != g_old_ino) ? 1 : 0))
	ASSIGNS(g_ndec, g_dec_new, g_dec_old, g_dec_other);

#define RC_OK(rc) ((rc) >= 0 && (rc) <= 0x7fffffffL && (rc) != EXT2_ET_EA_NO_SPACE)

void h_update_entry(void)
{
	LOAD_IN();
	ASSUME(IN.value_len <= (1u << 24) && IN.off <= 24 && IN.new_ino != 0);
	ASSUME(RC_OK(IN.rc_create) && RC_OK(IN.rc_dec[0]) && RC_OK(IN.rc_dec[1]));
	struct ext2_xattr *x = malloc(sizeof(*x));
	char *name = malloc(256 + 24), *oldname = malloc(8);
	unsigned char *value = malloc(IN.value_len ? IN.value_len : 1);
	ASSUME(x != 0 && name != 0 && oldname != 0 && value != 0);
	if (IN.x.has_name) {
		x->name = oldname;
		x->short_name = oldname + 3;
		x->name_index = IN.x.name_index;
		x->value = IN.x.has_value ? malloc(1) : 0;
		x->value_len = IN.x.value_len;
		x->ea_ino = IN.x.ea_ino;
	} else {
		x->name = 0; x->short_name = 0; x->name_index = 0; x->value = 0; x->value_len = 0; x->ea_ino = 0;
	}
	struct ext2_xattr before = *x;
	xat_bk = IN.bk;
	g_created = g_dec_old = g_dec_new = g_dec_other = g_ndec = 0;
	g_old_ino = x->ea_ino;
	ASSUME(g_old_ino != IN.new_ino);	/* a newly allocated inode is not one that is in use */
	verif_g2 = 0;
	unsigned char vb = xat_bk < IN.value_len ? value[xat_bk] : 0;
	unsigned char nb = xat_bk < 256 + 24 ? ((unsigned char *)name)[xat_bk] : 0;

	errcode_t r = xattr_update_entry(0, x, name, name + IN.off, IN.index, value, (size_t)IN.value_len, IN.in_inode);

	CHECK(RC_OK(r), "error code in the range the callers rely on");
	if (r == 0) {
		CHECK(x->name_index == IN.index && x->value_len == IN.value_len, "index and length as requested");
		CHECK((x->ea_ino != 0) == (IN.in_inode != 0), "value in an EA inode exactly when asked");
		CHECK(!IN.in_inode || (x->ea_ino == IN.new_ino && g_created == 1), "the EA inode is the one just created");
		CHECK(IN.in_inode || g_created == 0, "no EA inode created for an inline value");
		CHECK(x->value != 0 && (xat_bk >= IN.value_len || ((unsigned char *)x->value)[xat_bk] == vb), "value buffer holds a copy of the caller's bytes");
		if (before.name) {
			CHECK(x->name == before.name && x->short_name == before.short_name, "a used slot keeps its name");
			REACH("replace");
		} else {
			CHECK(x->name != 0 && x->name != name && x->short_name == x->name + IN.off, "new slot: own copy of the name, short name at the same offset");
			CHECK(xat_bk > XSPEC_STRLEN(name) || ((unsigned char *)x->name)[xat_bk] == nb, "new slot: name bytes including the terminator copied");
			REACH("new");
		}
		/* storage: the old EA inode (if any) is released exactly once, the new one is kept */
		CHECK(g_dec_old == (g_old_ino ? 1 : 0) && g_dec_new == 0 && g_dec_other == 0, "success: old EA inode released exactly once, nothing else released");
		if (g_old_ino && IN.in_inode) REACH("ea-inode-to-ea-inode");
	} else {
		CHECK(x->name == before.name && x->short_name == before.short_name && x->value == before.value &&
		      x->value_len == before.value_len && x->ea_ino == before.ea_ino && x->name_index == before.name_index,
		      "failure: the slot is untouched");
		CHECK(g_dec_new == g_created, "failure: an EA inode created on the way is released again (no leak)");
		CHECK(g_dec_other == 0 && g_dec_old <= 1, "failure: no foreign inode released, the old one at most once");
		CHECK(g_dec_old == 0 || r == IN.rc_dec[0], "failure: the old EA inode is only touched by the release step that failed");
		if (g_created) REACH("fail-after-create");
	}
	REACH("end");
}
