/* VERIF-UNIT
{
 "name": "ea_inode_read",
 "props": ["C15"],
 "level": "U/k",
 "tier": "quick",
 "harness": "h_ea_inode_read",
 "replace": ["find_ea_prefix", "ext2fs_ext_attr_hash_entry3"],
 "defines": ["NO_INLINE_FUNCS"],
 "unwind": 4,
 "unwindset": {"read_xattrs_from_buffer.0": 3, "read_xattrs_from_buffer.1": 3},
 "unwind_reason": "the region holds exactly ONE entry followed by the 4-byte terminator (36-byte region, name <= 4 bytes): both walks of read_xattrs_from_buffer run once and stop at the terminator (or because fewer than 16 bytes remain); the bound also serves the DFCC library loops; unwinding assertions on.  The in-place loop contracts of the file are not applied in this unit.",
 "functions": ["lib/ext2fs/ext_attr.c:read_xattrs_from_buffer"],
 "assumes": ["one entry whose value lives in an EA inode (e_value_inum != 0), every other header field arbitrary (name index != 0 so that the entry is not the terminator; name length <= 4); in-inode call shape (value_start == entries), region of 36 bytes; array with room (count < capacity): ext2fs_xattrs_expand is not reached",
             "callees: find_ea_prefix by contract (NULL or a string <= 24 bytes), strlen uninterpreted, memcpy a range-CHECKING stub (names are not looked at here); ext2fs_ext_attr_hash_entry3 by contract (delivers an arbitrary pair of hashes or fails; recorded) — its definition is proved in parsers/xattr_hash_entry3; allocation wrappers (lib/ext2fs/inline.c, compiled out by NO_INLINE_FUNCS) are malloc stubs with typed pointer stores that may fail",
             "the file API is a ghost monitor: ext2fs_file_open may fail, else hands out the EA inode image chosen by the input; ext2fs_file_get_size returns its i_size (32 bit); ext2fs_file_read follows the contract proved in fileio/file_read (on success delivers exactly min(wanted, size - position) bytes, advances the position) or fails; it CHECKS that the destination can hold 'wanted' bytes and counts the bytes delivered into the value buffer; ext2fs_file_close is counted; ext2fs_read_inode (back-pointer test of old Lustre value inodes) delivers an arbitrary inode or fails"],
 "native": false
}
*/
#define XAT_UF_STRLEN
#include "xat_common.h"
#include "xattr2_ea_inode_spec.h"

#define RD_STORAGE 36
struct in_s {
	struct ext2_ext_attr_entry e;
	unsigned char name[4];
	unsigned int feature_incompat;
	unsigned int ino, generation;
	int count0;
	struct ext2_inode ea_inode, child;
	long rc_open, rc_read, rc_hash, rc_child, rc_mem[2];
	unsigned int hash, shash;
};
struct in_s IN;
#include "verif_in.h"

static char *g_prefix;
#ifndef VERIF_NATIVE
void *memcpy(void *dst, const void *src, size_t n)
{
	__CPROVER_assert(__CPROVER_r_ok(src, n), "CHECK:memcpy source range readable");
	__CPROVER_assert(__CPROVER_w_ok(dst, n), "CHECK:memcpy destination range writable");
	return dst;
}
#endif

static unsigned int g_n_mem;
static void *g_last_mem; static unsigned long g_last_mem_size;
errcode_t ext2fs_get_mem(unsigned long size, void *ptr)
{
	if (IN.rc_mem[g_n_mem++ & 1]) return EXT2_ET_NO_MEMORY;
	void *p = malloc(size);
	__CPROVER_assume(p != 0);
	g_last_mem = p; g_last_mem_size = size;
	*(void **)ptr = p;
	return 0;
}
errcode_t ext2fs_get_memzero(unsigned long size, void *ptr)
{
	void *p = malloc(size);
	__CPROVER_assume(p != 0);
	*(void **)ptr = p;
	return 0;
}
errcode_t ext2fs_get_arrayzero(unsigned long count, unsigned long size, void *ptr)
{
	__CPROVER_assert(0, "CHECK:ext2fs_xattrs_expand is not reached (the array has room)");
	return EXT2_ET_NO_MEMORY;
}
errcode_t ext2fs_free_mem(void *ptr) { free(*(void **)ptr); *(void **)ptr = 0; return 0; }

/* ---- file API monitor ---- */
struct ext2_file { int dummy; };
static struct ext2_file EA_FILE;
static struct ext2_inode EA_INODE;
static unsigned int g_n_open, g_n_close, g_n_fread, g_open_ino; static int g_open_flags;
static unsigned long long g_pos, g_delivered;
static const void *g_read_dst;
static unsigned int g_n_hash, g_n_child, g_child_ino;
static const void *g_hash_data; static const void *g_hash_entry;

errcode_t ext2fs_file_open(ext2_filsys fs, ext2_ino_t ino, int flags, ext2_file_t *ret)
{
	g_n_open++; g_open_ino = ino; g_open_flags = flags;
	if (IN.rc_open) { g_n_open--; return IN.rc_open; }	/* a failed open leaves nothing to close */
	*ret = &EA_FILE;
	return 0;
}
struct ext2_inode *ext2fs_file_get_inode(ext2_file_t file) { return &EA_INODE; }
ext2_off_t ext2fs_file_get_size(ext2_file_t file) { return EA_INODE.i_size_high ? 0 : EA_INODE.i_size; }
errcode_t ext2fs_file_read(ext2_file_t file, void *buf, unsigned int wanted, unsigned int *got)
{
	g_n_fread++;
	__CPROVER_assert(__CPROVER_w_ok(buf, wanted), "CHECK:ext2fs_file_read destination holds the bytes asked for");
	unsigned long long size = ext2fs_file_get_size(file);
	unsigned long long n = (g_pos < size) ? size - g_pos : 0;
	if (n > wanted) n = wanted;
	if (IN.rc_read) { if (got) *got = 0; return IN.rc_read; }
	if (g_n_fread == 1) g_read_dst = buf;
	else if ((const char *)buf != (const char *)g_read_dst + g_delivered) g_read_dst = 0;	/* not contiguous */
	g_pos += n; g_delivered += n;
	if (got) *got = (unsigned int)n;
	return 0;
}
errcode_t ext2fs_file_close(ext2_file_t file) { g_n_close++; return 0; }
errcode_t ext2fs_read_inode(ext2_filsys fs, ext2_ino_t ino, struct ext2_inode *inode)
{
	g_n_child++; g_child_ino = ino;
	if (IN.rc_child) return IN.rc_child;
	*inode = IN.child;
	return 0;
}

#include "lib/ext2fs/ext_attr.c"

static const char *find_ea_prefix(int index)
	ENSURES(RET == 0 || (RET == g_prefix && XSPEC_STRLEN(RET) <= 24))
	ASSIGNS();

errcode_t ext2fs_ext_attr_hash_entry3(ext2_filsys fs, struct ext2_ext_attr_entry *entry, void *data, __u32 *hash, __u32 *signed_hash)
	ENSURES(g_n_hash == OLD(g_n_hash) + 1 && g_hash_data == data && g_hash_entry == entry)
	ENSURES(RET == IN.rc_hash && *hash == IN.hash && *signed_hash == IN.shash)
	ASSIGNS(*hash, *signed_hash, g_n_hash, g_hash_data, g_hash_entry);

void h_ea_inode_read(void)
{
	LOAD_IN();
	ASSUME(IN.e.e_value_inum != 0 && IN.e.e_name_index != 0 && IN.e.e_name_len <= 4);
	ASSUME(IN.count0 >= 0 && IN.count0 <= 2);
	ASSUME(IN.rc_open >= 0 && IN.rc_read >= 0 && IN.rc_hash >= 0 && IN.rc_child >= 0);
	char *buf = malloc(RD_STORAGE);		/* contents arbitrary except for the entry and the terminator */
	ASSUME(buf != 0);
	*(struct ext2_ext_attr_entry *)buf = IN.e;
	buf[16] = IN.name[0]; buf[17] = IN.name[1]; buf[18] = IN.name[2]; buf[19] = IN.name[3];
	unsigned int next = 16 + ((IN.e.e_name_len + 3u) & ~3u);
	buf[next] = buf[next + 1] = buf[next + 2] = buf[next + 3] = 0;	/* IS_LAST_ENTRY */
	static struct struct_ext2_filsys FS;
	static struct ext2_super_block SB;
	struct ext2_xattr_handle H;
	struct ext2_inode_large INODE;
	memset(&SB, 0, sizeof(SB));
	SB.s_feature_incompat = IN.feature_incompat;
	FS.super = &SB; FS.blocksize = 1024;
	INODE.i_generation = IN.generation;
	struct ext2_xattr A[4];
	memset(A, 0, sizeof(A));	/* unused slots are all zero (ext2fs_get_arrayzero) */
	H.magic = EXT2_ET_MAGIC_EA_HANDLE; H.fs = &FS; H.attrs = A; H.capacity = 4; H.count = IN.count0; H.ibody_count = 0; H.ino = IN.ino; H.flags = 0;
	EA_INODE = IN.ea_inode;
	g_prefix = malloc(25); ASSUME(g_prefix != 0);
	g_n_mem = 0; g_last_mem = 0; g_last_mem_size = 0;
	g_n_open = g_n_close = g_n_fread = g_open_ino = 0; g_open_flags = -1; g_pos = g_delivered = 0; g_read_dst = 0;
	g_n_hash = g_n_child = g_child_ino = 0; g_hash_data = buf; g_hash_entry = 0;
	const int has_feature = (IN.feature_incompat & EXT4_FEATURE_INCOMPAT_EA_INODE) != 0;
	const int flags_ok = !(IN.ea_inode.i_flags & X2SPEC_INLINE_DATA_FL) && (IN.ea_inode.i_flags & X2SPEC_EA_INODE_FL) && IN.ea_inode.i_links_count != 0;
	const unsigned long long isize = ext2fs_file_get_size(&EA_FILE);

	errcode_t r = read_xattrs_from_buffer(&H, &INODE, (struct ext2_ext_attr_entry *)buf, RD_STORAGE, buf);

	struct ext2_xattr *x = &A[IN.count0];
	CHECK(g_n_open <= 1 && g_n_close == g_n_open, "the value inode is opened at most once and every opened handle is closed");
	CHECK(H.attrs == A && H.capacity == 4, "array not expanded");
	if (r == 0) {
		CHECK(has_feature, "a value inode is only followed on an ea_inode file system");
		CHECK(IN.e.e_value_offs == 0 && IN.e.e_value_size <= X2SPEC_VALUE_MAX, "offset 0 and at most 64 KiB");
		CHECK(g_n_open == 1 && g_open_ino == IN.e.e_value_inum && !(g_open_flags & EXT2_FILE_WRITE), "the inode named by e_value_inum is opened read-only");
		CHECK(flags_ok, "accepted only with EXT4_EA_INODE_FL, without inline data, with a link");
		CHECK(isize == IN.e.e_value_size, "accepted only when i_size equals e_value_size");
		CHECK(g_delivered == IN.e.e_value_size && (IN.e.e_value_size == 0 || g_read_dst == x->value), "ALL e_value_size bytes are read into the value buffer (no truncation to one block)");
		CHECK(x->value == g_last_mem && g_last_mem_size == IN.e.e_value_size, "the value buffer has exactly e_value_size bytes");
		CHECK(H.count == IN.count0 + 1 && x->ea_ino == IN.e.e_value_inum && x->value_len == IN.e.e_value_size && x->name_index == IN.e.e_name_index,
		      "the array slot carries inode number, length and name index of the entry");
		/* hash: kernel ext4_xattr_inode_verify_hashes (entry hash over name and the value inode's stored hash), or the Lustre back pointer */
		CHECK(IN.e.e_hash == 0 || (g_n_hash == 1 && g_hash_entry == (void *)buf && g_hash_data == 0), "a non-zero entry hash is recomputed from the entry and the value inode (no inline data)");
		CHECK(IN.e.e_hash == 0 || IN.e.e_hash == IN.hash || IN.e.e_hash == IN.shash ||
		      (g_n_child == 1 && g_child_ino == IN.e.e_value_inum && IN.child.i_mtime == IN.ino && IN.child.i_generation == IN.generation),
		      "hash verified: equals the unsigned or the signed entry hash, or the value inode points back to the owner (Lustre)");
		if (IN.e.e_value_size > 1024) REACH("value longer than one block accepted");
		if (IN.e.e_hash != 0 && IN.e.e_hash != IN.hash && IN.e.e_hash != IN.shash) REACH("Lustre back pointer");
		REACH("accepted");
	} else {
		CHECK(H.count == IN.count0, "rejected: the entry is not counted");
		REACH("rejected");
	}
	/* the rejections the format demands */
	CHECK(has_feature || r == EXT2_ET_BAD_EA_BLOCK_NUM || r == EXT2_ET_NO_MEMORY || r == EXT2_ET_EA_BAD_NAME_LEN, "no ea_inode feature: rejected");
	if (has_feature && g_n_open == 1) {
		CHECK(flags_ok || r == EXT2_ET_EA_INODE_CORRUPTED, "missing EXT4_EA_INODE_FL / inline data / no link: EXT2_ET_EA_INODE_CORRUPTED");
		CHECK(!flags_ok || isize == IN.e.e_value_size || r == EXT2_ET_EA_BAD_VALUE_SIZE, "i_size differs from e_value_size: rejected (EXT2_ET_EA_BAD_VALUE_SIZE)");
		CHECK(!IN.rc_read || !flags_ok || isize != IN.e.e_value_size || r == IN.rc_read, "a read error is reported");
		if (!flags_ok) REACH("bad flags");
		if (flags_ok && isize != IN.e.e_value_size) REACH("size mismatch");
	}
	REACH("end");
}
