/* VERIF-UNIT
{
 "name": "xattrs_expand",
 "props": ["C15", "C06"],
 "level": "U/k",
 "tier": "quick",
 "harness": "h_xattrs_expand",
 "unwind": 10,
 "unwind_reason": "ext2fs_xattrs_expand is loop-free; capacity fixed to 4 and expandby to 4 (the only values used in the tree: initial capacity 4, growth by 4); harness loop over the 8 slots unwound, unwinding assertions on",
 "functions": ["lib/ext2fs/ext_attr.c:ext2fs_xattrs_expand"],
 "assumes": ["capacity 4 -> 8 (the first expansion); later expansions run the same code with larger constants"],
 "native": false
}
*/
#include "xat_common.h"
struct in_s { int count, ibody_count; };
struct in_s IN;
#include "verif_in.h"
#include "lib/ext2fs/ext_attr.c"
#define NA 4
#define SLOT_EQ(p, q) ((p).name == (q).name && (p).short_name == (q).short_name && (p).value == (q).value && \
		       (p).value_len == (q).value_len && (p).ea_ino == (q).ea_ino && (p).name_index == (q).name_index)
#define RC_OK(rc) ((rc) >= 0 && (rc) <= 0x7fffffffL && (rc) != EXT2_ET_EA_NO_SPACE)

void h_xattrs_expand(void)
{
	LOAD_IN();
	struct ext2_xattr_handle H, *h = &H;	/* on the stack: CBMC propagates constants through it (a heap handle makes every size symbolic) */
	struct ext2_xattr *a = malloc(NA * sizeof(struct ext2_xattr));	/* contents arbitrary */
	ASSUME(a != 0);
	h->magic = EXT2_ET_MAGIC_EA_HANDLE; h->fs = 0; h->attrs = a; h->capacity = NA;
	h->count = IN.count; h->ibody_count = IN.ibody_count; h->ino = 12; h->flags = 0;
	struct ext2_xattr before[NA];
	for (int i = 0; i < NA; i++) before[i] = a[i];
	errcode_t r = ext2fs_xattrs_expand(h, 4);
	CHECK(RC_OK(r), "error code in the range the callers rely on");
	if (r) {
		CHECK(h->attrs == a && h->capacity == NA, "failure: nothing changed");
		REACH("failed");
	} else {
		CHECK(h->capacity == 2 * NA && h->attrs != a && h->attrs != 0, "capacity grown by expandby, new array");
		for (int i = 0; i < 2 * NA; i++) {
			if (i < NA)
				CHECK(SLOT_EQ(h->attrs[i], before[i]), "old elements copied");
			else
				CHECK(h->attrs[i].name == 0 && h->attrs[i].short_name == 0 && h->attrs[i].value == 0 &&
				      h->attrs[i].value_len == 0 && h->attrs[i].ea_ino == 0 && h->attrs[i].name_index == 0, "new slots zeroed");
		}
		REACH("expanded");
	}
	CHECK(h->count == IN.count && h->ibody_count == IN.ibody_count, "counts untouched");
	REACH("end");
}
