/* VERIF-UNIT
{
 "name": "find_position",
 "props": ["C15"],
 "level": "U",
 "tier": "quick",
 "harness": "h_find_position",
 "enforce": ["xattr_find_position"],
 "loop_contracts": true,
 "unwind": 6,
 "unwind_reason": "the only loop is closed by its in-place loop contract; the bound serves the DFCC library's write-set loops (unwinding assertions on)",
 "functions": ["lib/ext2fs/ext_attr.c:xattr_find_position"],
 "assumes": ["array of symbolic length count (-1 .. 4096 = the most entries a 64 KiB xattr block can hold) with ARBITRARY contents; pointwise statements at one arbitrary ghost index verif_k",
             "libc strlen / memcmp are uninterpreted pure functions of their arguments (strlen <= 255, the name length limit); the function is proved to write no memory, so they are evaluated on unchanged strings",
             "order = kernel order (name index, name length, memcmp of the bytes), specs/xattr_spec.h; unit find_position_small cross-checks the byte order on real strings",
             "that entries at and after the result are >= key is stated for the entry AT the result only; for the later ones it follows from sortedness of the array by transitivity (checked in find_position_small for 3 entries)",
             "needs the VERIF_LOOP hook in lib/ext2fs/ext_attr.c (hooks-pending/xat.diff)"],
 "native": false
}
*/
/* VERIF-UNIT
{
 "name": "find_position_small",
 "props": ["C15"],
 "level": "B(3)",
 "tier": "quick",
 "harness": "h_find_position_small",
 "unwind": 5,
 "unwind_reason": "bounded cross-check: count <= 3, names <= 2 bytes (+NUL) in real buffers, libc strlen/memcmp are CBMC's built-in models; all loops unwound, unwinding assertions on",
 "functions": ["lib/ext2fs/ext_attr.c:xattr_find_position"],
 "assumes": ["BOUNDED: count <= 3, name length <= 2, name index 0..3"],
 "native": false
}
*/
#ifdef VERIF_UNIT_find_position
#define XAT_UF_STRLEN
#define XAT_UF_MEMCMP
#endif
#include "xat_common.h"

#define XAT_CAP 4096	/* a 64 KiB block holds at most 65536/16 entries */
#define NS 3
#define NL 2
struct in_s {
	int count;
	int key_idx;
	unsigned long long k;
	/* small unit */
	unsigned char len[NS + 1];		/* [NS] is the key */
	unsigned char name[NS + 1][NL + 1];
	unsigned char idx[NS + 1];
};
struct in_s IN;
#include "verif_in.h"

struct ext2_xattr;

#include "lib/ext2fs/ext_attr.c"

#include "xat_contracts.h"	/* contract of xattr_find_position (after the real file: it needs struct ext2_xattr) */

void h_find_position(void)
{
	LOAD_IN();
	ASSUME(IN.count >= -1 && IN.count <= XAT_CAP);
	size_t n = IN.count > 0 ? (size_t)IN.count : 1;
	struct ext2_xattr *a = malloc(n * sizeof(struct ext2_xattr));	/* contents arbitrary */
	char *key = malloc(1);
	ASSUME(a != 0 && key != 0);
	verif_k = IN.k;
	int r = xattr_find_position(a, IN.count, key, IN.key_idx);
	CHECK(r >= 0 && (IN.count <= 0 ? r == 0 : r <= IN.count), "position inside [0, count]");
	if (verif_k < (unsigned long long)r) {
		CHECK(ENTRY_LT_KEY(a, verif_k, key, IN.key_idx), "every entry before the position is strictly below the key");
		REACH("before");
	}
	if (r < IN.count) {
		CHECK(!ENTRY_LT_KEY(a, r, key, IN.key_idx), "the entry at the position is not below the key");
		REACH("stopped-early");
	} else
		REACH("append");
	REACH("end");
}

/* explicit byte order of two names of equal length (what memcmp means) */
static int spec_bytes_cmp(const unsigned char *a, const unsigned char *b, unsigned int n)
{
	for (unsigned int i = 0; i < n; i++)
		if (a[i] != b[i])
			return a[i] < b[i] ? -1 : 1;
	return 0;
}
/* a < b in the kernel's order */
static int spec_lt(int ai, unsigned al, const unsigned char *an, int bi, unsigned bl, const unsigned char *bn)
{
	if (ai != bi) return ai < bi;
	if (al != bl) return al < bl;
	return spec_bytes_cmp(an, bn, al) < 0;
}

void h_find_position_small(void)
{
	LOAD_IN();
	ASSUME(IN.count >= 0 && IN.count <= NS);
	struct ext2_xattr *a = malloc(NS * sizeof(struct ext2_xattr));
	ASSUME(a != 0);
	for (int i = 0; i <= NS; i++) {
		ASSUME(IN.len[i] <= NL && IN.idx[i] <= 3);
		for (int j = 0; j <= NL; j++)
			ASSUME((IN.name[i][j] == 0) == (j == IN.len[i]) || j > IN.len[i]);
		if (i < NS) {
			a[i].name = (char *)IN.name[i];
			a[i].short_name = (char *)IN.name[i];
			a[i].name_index = IN.idx[i];
			a[i].value = 0;
			a[i].value_len = 0;
			a[i].ea_ino = 0;
		}
	}
	int r = xattr_find_position(a, IN.count, (const char *)IN.name[NS], IN.idx[NS]);
	CHECK(r >= 0 && r <= IN.count, "position inside [0, count]");
	int sorted = 1;
	for (int i = 0; i < NS; i++) {
		if (i >= IN.count) break;
		int below = spec_lt(IN.idx[i], IN.len[i], IN.name[i], IN.idx[NS], IN.len[NS], IN.name[NS]);
		if (i < r)
			CHECK(below, "entries before the position are < key (index, then length, then bytes)");
		if (i == r)
			CHECK(!below, "entry at the position is >= key");
		if (i + 1 < IN.count && spec_lt(IN.idx[i + 1], IN.len[i + 1], IN.name[i + 1], IN.idx[i], IN.len[i], IN.name[i]))
			sorted = 0;
	}
	if (sorted) {
		/* sorted array: the position is THE index with attrs[0..r) < key <= attrs[r..count) */
		for (int i = 0; i < NS; i++) {
			if (i >= IN.count) break;
			int below = spec_lt(IN.idx[i], IN.len[i], IN.name[i], IN.idx[NS], IN.len[NS], IN.name[NS]);
			CHECK(below == (i < r), "sorted array: exactly the entries before the position are < key");
		}
		if (IN.count == NS && r == 1) REACH("sorted-middle");
	}
	if (r < IN.count && IN.len[r] == IN.len[NS] && IN.idx[r] == IN.idx[NS] && IN.len[NS] == 2 && IN.name[r][0] == IN.name[NS][0]) REACH("decided-by-second-byte");
	REACH("end");
}
