/*
 * Callee contracts shared by the units of group "xattr".  Included AFTER "lib/ext2fs/ext_attr.c": the contracts
 * mention fields of struct ext2_xattr / struct ext2_xattr_handle, which are defined in that file.
 * The unit that ENFORCES a contract and the units that REPLACE calls by it read the very same text:
 *   xattr_find_position : enforced in find_position.c
 *   space_used          : enforced in space_used.c
 *   xattr_update_entry  : enforced in update_entry.c
 *
 * Ghost registers used here
 *   verif_k   ghost array index (find_position)
 *   verif_g4  find_position: "entry verif_k is strictly below the key" (set by the hook)
 *   verif_g2  update_entry: id of the EA inode created for the new value (0 = none was created)
 *   xat_bk    ghost BYTE index for the copies made by xattr_update_entry (defined in xat_common.h)
 */
#ifndef VERIF_NATIVE
/* the entry at a[j] is strictly below the key (sn, ni) in the kernel's order */
#define ENTRY_LT_KEY(a, j, sn, ni) \
	XSPEC_ENTRY_LT_KEY((a)[j].name_index, XSPEC_STRLEN((a)[j].short_name), (ni), XSPEC_STRLEN(sn), \
			   XSPEC_MEMCMP((sn), (a)[j].short_name, XSPEC_STRLEN(sn)))
#endif

static int xattr_find_position(struct ext2_xattr *attrs, int count, const char *shortname, int name_idx)
	ENSURES(RET >= 0 && (RET <= count || RET == 0))
	ENSURES(!(verif_k < (unsigned long long)RET) || ENTRY_LT_KEY(attrs, verif_k, shortname, name_idx))
	ENSURES(!(RET < count) || !ENTRY_LT_KEY(attrs, RET, shortname, name_idx))
	ASSIGNS(verif_g4);	/* verif_g4: ghost flag of the hook; no program memory is written */

/*
 * xattr_update_entry: all-or-nothing update of one array slot.
 *  failure: the slot is untouched;
 *  success: index, length and storage class are the requested ones; the value buffer is a new heap object holding
 *           a copy of the caller's bytes; an empty slot gets a new copy of the full name and short_name points into
 *           it at the same offset the caller's short name has inside the caller's full name; a used slot keeps its
 *           name pointers (the caller guarantees it carries the same name).
 */
#define XAT_SLOT_SAME(x) \
	((x)->name == OLD((x)->name) && (x)->short_name == OLD((x)->short_name) && (x)->value == OLD((x)->value) && \
	 (x)->value_len == OLD((x)->value_len) && (x)->ea_ino == OLD((x)->ea_ino) && (x)->name_index == OLD((x)->name_index))
static errcode_t xattr_update_entry(ext2_filsys fs, struct ext2_xattr *x, const char *name, const char *short_name,
				    int index, const void *value, size_t value_len, int in_inode)
#ifndef XAT_LIGHT_UPDATE_ENTRY
	/* the copies are new heap objects (stated first: when the contract REPLACES a call, is_fresh is what gives the
	 * pointers their values, and the clauses below refer to them) */
	ENSURES(RET != 0 || FRESH(x->value, value_len))
	ENSURES(RET != 0 || OLD(x->name) != 0 || FRESH(x->name, XSPEC_STRLEN(name) + 1))
#endif
	ENSURES(RET == 0 || XAT_SLOT_SAME(x))
	ENSURES(RET != EXT2_ET_EA_NO_SPACE)	/* the only origin of that code in the tree is xattr_array_update itself */
	ENSURES(RET >= 0 && RET <= 0x7fffffffL)	/* error codes are errno values or 32-bit com_err codes; the caller keeps them in an int */
	ENSURES(RET != 0 || (x->name_index == index && x->value_len == (unsigned int)value_len))
	ENSURES(RET != 0 || ((x->ea_ino != 0) == (in_inode != 0) && x->ea_ino == (ext2_ino_t)verif_g2))
	ENSURES(RET != 0 || (x->name != 0 && x->value != 0 && x->value != OLD(x->value)))
	ENSURES(RET != 0 || OLD(x->name) == 0 || (x->name == OLD(x->name) && x->short_name == OLD(x->short_name)))
	ENSURES(RET != 0 || OLD(x->name) != 0 || x->short_name == x->name + (short_name - name))
#ifdef XAT_LIGHT_UPDATE_ENTRY
	/* light version for units that only need the bookkeeping: a SUBSET of the clauses proved in update_entry.c
	 * (no statement about the copied bytes, the release of the old value buffer is not modelled) */
	ASSIGNS(*x, verif_g2, xat_mon);
#else
	/* the copies hold the caller's bytes (at the ghost byte index) */
	ENSURES(RET != 0 || !(xat_bk < value_len) || ((const unsigned char *)x->value)[xat_bk] == ((const unsigned char *)value)[xat_bk])
	ENSURES(RET != 0 || OLD(x->name) != 0 || !(xat_bk <= XSPEC_STRLEN(name)) ||
		((const unsigned char *)x->name)[xat_bk] == ((const unsigned char *)name)[xat_bk])
#ifdef XAT_UPDATE_ENTRY_NO_FREES
	/* for REPLACING units: the release of the old value buffer is not modelled (DFCC would evaluate the frees target after havocking *x) */
	ASSIGNS(*x, verif_g2, xat_mon);
#else
	ASSIGNS(*x, verif_g2, xat_mon)
	XAT_FREES(x->value);
#endif
#endif
