/* VERIF-UNIT
{
 "name": "adjust_ea_refcount",
 "props": ["C15"],
 "level": "P",
 "tier": "quick",
 "harness": "h_adjust_ea_refcount",
 "sources": ["lib/ext2fs/blknum.c"],
 "unwind": 6,
 "unwind_reason": "ext2fs_adjust_ea_refcount3, ext2fs_read_ext_attr3, ext2fs_write_ext_attr3 and check_ext_attr_header are loop-free; the bound serves the DFCC library loops (unwinding assertions on)",
 "functions": ["lib/ext2fs/ext_attr.c:ext2fs_adjust_ea_refcount3", "lib/ext2fs/ext_attr.c:ext2fs_read_ext_attr3", "lib/ext2fs/ext_attr.c:ext2fs_write_ext_attr3", "lib/ext2fs/ext_attr.c:check_ext_attr_header"],
 "assumes": ["little-endian host (no byte swapping); block size 1024..65536; the caller's buffer, when given, is a heap object of at least blocksize bytes",
             "the device and the checksum code are ghost monitors: io_channel_read_blk64 delivers a block with arbitrary bytes (header fields from the input) or fails; ext2fs_ext_attr_block_csum_verify answers arbitrarily; ext2fs_ext_attr_block_csum_set stores an arbitrary checksum and records the h_refcount it covered, or fails; io_channel_write_blk64 records block, count, the h_refcount and h_checksum it was handed and the order of events, or fails",
             "ext2fs_blocks_count is the real function (lib/ext2fs/blknum.c)"],
 "native": false
}
*/
#include "xat_common.h"

struct in_s {
	unsigned int blocksize, flags;
	unsigned long long blk, blocks_count;
	unsigned int first_data_block;
	struct ext2_ext_attr_header hdr;	/* what the device holds */
	long rc_read, rc_csum_set, rc_write;
	int csum_ok;
	int adjust;
	unsigned char own_buf, want_newcount;
	unsigned int inum;
};
struct in_s IN;
#include "verif_in.h"

/* ghost monitor */
static unsigned int g_seq;			/* event counter */
static unsigned int g_read_at, g_csum_at, g_write_at;	/* sequence number of each event, 0 = did not happen */
static unsigned int g_nread, g_ncsum, g_nwrite;
static unsigned long long g_read_blk, g_write_blk, g_csum_blk;
static int g_read_count, g_write_count;
static unsigned int g_csum_refcount, g_csum_value, g_csum_inum;
static unsigned int g_written_refcount, g_written_csum;
static const void *g_write_buf, *g_read_buf;

errcode_t io_channel_read_blk64(io_channel channel, unsigned long long block, int count, void *data)
{
	g_nread++; g_read_at = ++g_seq; g_read_blk = block; g_read_count = count; g_read_buf = data;
	if (IN.rc_read) return IN.rc_read;
	CHECK(__CPROVER_w_ok(data, IN.blocksize), "read target holds one block");
	*(struct ext2_ext_attr_header *)data = IN.hdr;	/* rest of the block: arbitrary (heap contents) */
	return 0;
}
int ext2fs_ext_attr_block_csum_verify(ext2_filsys fs, ext2_ino_t inum, blk64_t block, struct ext2_ext_attr_header *hdr)
{
	return IN.csum_ok;
}
errcode_t ext2fs_ext_attr_block_csum_set(ext2_filsys fs, ext2_ino_t inum, blk64_t block, struct ext2_ext_attr_header *hdr)
{
	g_ncsum++; g_csum_at = ++g_seq; g_csum_blk = block; g_csum_inum = inum;
	if (IN.rc_csum_set) return IN.rc_csum_set;
	g_csum_refcount = hdr->h_refcount;
	hdr->h_checksum = g_csum_value;
	return 0;
}
errcode_t io_channel_write_blk64(io_channel channel, unsigned long long block, int count, const void *data)
{
	g_nwrite++; g_write_at = ++g_seq; g_write_blk = block; g_write_count = count; g_write_buf = data;
	g_written_refcount = ((const struct ext2_ext_attr_header *)data)->h_refcount;
	g_written_csum = ((const struct ext2_ext_attr_header *)data)->h_checksum;
	return IN.rc_write;
}

#include "lib/ext2fs/ext_attr.c"

void h_adjust_ea_refcount(void)
{
	LOAD_IN();
	ASSUME(IN.blocksize >= 1024 && IN.blocksize <= 65536);
	ASSUME(IN.rc_read >= 0 && IN.rc_csum_set >= 0 && IN.rc_write >= 0);
	static struct struct_ext2_filsys FS;
	static struct ext2_super_block SB;
	static struct struct_io_channel CH;
	ext2_filsys fs = &FS;
	memset(&SB, 0, sizeof(SB));
	fs->super = &SB; fs->io = &CH; fs->blocksize = IN.blocksize; fs->flags = IN.flags & ~EXT2_FLAG_CHANGED;
	SB.s_blocks_count = (__u32)IN.blocks_count;
	SB.s_blocks_count_hi = (__u32)(IN.blocks_count >> 32);
	SB.s_feature_incompat = EXT4_FEATURE_INCOMPAT_64BIT;
	SB.s_first_data_block = IN.first_data_block;
	char *buf = IN.own_buf ? malloc(IN.blocksize) : 0;
	ASSUME(!IN.own_buf || buf != 0);
	__u32 newcount = 0xdeadbeef;
	unsigned int cs; g_csum_value = cs;	/* arbitrary checksum value */
	g_seq = g_read_at = g_csum_at = g_write_at = g_nread = g_ncsum = g_nwrite = 0;

	errcode_t r = ext2fs_adjust_ea_refcount3(fs, IN.blk, buf, IN.adjust, IN.want_newcount ? &newcount : 0, IN.inum);

	int in_range = IN.blk < IN.blocks_count && IN.blk >= IN.first_data_block;
	if (!in_range) {
		CHECK(r == EXT2_ET_BAD_EA_BLOCK_NUM && g_seq == 0, "block number outside the filesystem: refused without any I/O");
		REACH("bad-block-number");
		return;
	}
	if (!IN.own_buf && r == EXT2_ET_NO_MEMORY && g_seq == 0) {
		REACH("no-memory-for-the-block-buffer");	/* ext2fs_get_mem failed: nothing happened */
		return;
	}
	CHECK(g_nread == 1 && g_read_at == 1 && g_read_blk == IN.blk && g_read_count == 1, "exactly one read, of the block asked for, first");
	int hdr_ok = (IN.hdr.h_magic == EXT2_EXT_ATTR_MAGIC || IN.hdr.h_magic == EXT2_EXT_ATTR_MAGIC_v1) && IN.hdr.h_blocks == 1;
	int csum_checked = !(IN.flags & EXT2_FLAG_IGNORE_CSUM_ERRORS);
	if (IN.rc_read || !hdr_ok || (csum_checked && !IN.csum_ok)) {
		CHECK(r != 0 && g_nwrite == 0 && g_ncsum == 0, "unreadable / bad header / bad checksum: error, nothing written");
		CHECK(!IN.rc_read || r == IN.rc_read, "read error passed on");
		CHECK(IN.rc_read || hdr_ok || r == EXT2_ET_BAD_EA_HEADER, "bad header reported");
		CHECK(IN.rc_read || !hdr_ok || r == EXT2_ET_EXT_ATTR_CSUM_INVALID, "bad checksum reported");
		CHECK(!IN.want_newcount || newcount == 0xdeadbeef, "no count reported on a failed read");
		REACH("read-failed");
		return;
	}
	__u32 want = IN.hdr.h_refcount + (__u32)IN.adjust;
	CHECK(!IN.want_newcount || newcount == want, "reported count = stored count + adjust");
	CHECK(g_ncsum == 1 && g_csum_at == 2 && g_csum_blk == IN.blk && g_csum_inum == IN.inum, "checksum recomputed once, after the read, for this block and inode");
	if (IN.rc_csum_set) {
		CHECK(r == IN.rc_csum_set && g_nwrite == 0, "checksum failure: error, nothing written");
		REACH("csum-failed");
		return;
	}
	CHECK(g_csum_refcount == want, "the checksum covers the ADJUSTED reference count");
	CHECK(g_nwrite == 1 && g_write_at == 3 && g_write_blk == IN.blk && g_write_count == 1 && g_write_buf == g_read_buf, "exactly one write, after the checksum, of the same block from the same buffer");
	CHECK(g_written_refcount == want && g_written_csum == g_csum_value, "the block written carries the adjusted count and the checksum just computed");
	CHECK(r == IN.rc_write, "result is the result of the write");
	CHECK((r == 0) == ((fs->flags & EXT2_FLAG_CHANGED) != 0), "filesystem marked changed exactly on success");
	if (r == 0) REACH("ok");
	if (!IN.own_buf) REACH("library-buffer");
	REACH("end");
}
