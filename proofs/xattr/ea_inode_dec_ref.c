/* VERIF-UNIT
{
 "name": "ea_inode_dec_ref",
 "props": ["C15"],
 "level": "P",
 "tier": "quick",
 "harness": "h_dec_ref",
 "replace": ["ext2fs_free_ext_attr"],
 "unwind": 4,
 "unwind_reason": "xattr_inode_dec_ref is loop-free (callees are stubs or replaced by contract); the bound serves the DFCC library loops (unwinding assertions on)",
 "functions": ["lib/ext2fs/ext_attr.c:xattr_inode_dec_ref", "lib/ext2fs/ext_attr.c:ext2fs_get_ea_inode_ref", "lib/ext2fs/ext_attr.c:ext2fs_set_ea_inode_ref"],
 "assumes": ["ext2fs_free_ext_attr succeeds (its failure is the observation unit ea_inode_dec_ref_ea_block_error); s_inodes_count >= 1; the stored reference count is >= 1 (call sites: the inode is referenced by the entry that is being dropped)",
             "callees are ghost-monitor stubs: ext2fs_read_inode_full delivers the stored 160-byte image or fails; ext2fs_write_inode_full stores the image or fails; ext2fs_inode_has_valid_blocks2 answers arbitrarily; ext2fs_punch records its range, clears i_blocks/i_block of the struct it is given (as lib/ext2fs/punch.c does for a whole-file punch) or fails; ext2fs_inode_alloc_stats2 is counted; ext2fs_free_ext_attr (release of an EA block the value inode itself might carry) by contract: recorded, may fail, may only change i_file_acl and i_blocks of the struct",
             "time(): arbitrary; s_inodes_count arbitrary (ext2fs_set_dtime is the real inline function)"],
 "native": false
}
*/
/* VERIF-UNIT
{
 "name": "ea_inode_dec_ref_ea_block_error",
 "props": ["C15"],
 "level": "P",
 "tier": "obs",
 "harness": "h_dec_ref_ea_block_error",
 "replace": ["ext2fs_free_ext_attr"],
 "unwind": 4,
 "unwind_reason": "loop-free, see ea_inode_dec_ref",
 "functions": ["lib/ext2fs/ext_attr.c:xattr_inode_dec_ref"],
 "assumes": ["as ea_inode_dec_ref, but ext2fs_free_ext_attr FAILS (the value inode carries an i_file_acl that cannot be released: bad block number, bad header, I/O error)",
             "OBSERVATION, stronger than C15 (the kernel never gives a value inode an EA block, so this needs an already damaged file system): the error is overwritten by the result of the final ext2fs_write_inode_full ('goto write_out'), xattr_inode_dec_ref returns 0 although the inode (i_links_count 0, dtime set) stays marked in use and keeps its blocks"],
 "native": false
}
*/
#include "xat_common.h"
#include "xattr2_ea_inode_spec.h"

struct in_s {
	struct ext2_inode_large disk;
	unsigned int ino;
	unsigned int inodes_count, now;
	int valid_blocks;
	long rc_read, rc_free_ea, rc_punch, rc_write;
	unsigned int acl_after, blocks_after;
};
struct in_s IN;
#include "verif_in.h"

static struct ext2_inode_large DISK;
static unsigned int g_seq, g_n_read, g_n_write, g_n_punch, g_n_stats, g_n_free_ea, g_foreign;
static unsigned int g_write_at, g_punch_at, g_stats_at, g_free_ea_at;
static int g_stats_inuse, g_stats_isdir;
static unsigned long long g_punch_start, g_punch_end;
static const void *g_punch_inode, *g_free_ea_inode;

#ifndef VERIF_NATIVE
time_t time(time_t *t) { return (time_t)IN.now; }
#endif
errcode_t ext2fs_read_inode_full(ext2_filsys fs, ext2_ino_t ino, struct ext2_inode *inode, int bufsize)
{
	g_n_read++; g_seq++;
	if (ino != IN.ino) g_foreign++;
	if (IN.rc_read) return IN.rc_read;
	CHECK(bufsize == (int)sizeof(struct ext2_inode_large), "the whole in-memory inode is asked for");
	*(struct ext2_inode_large *)inode = DISK;
	return 0;
}
errcode_t ext2fs_write_inode_full(ext2_filsys fs, ext2_ino_t ino, struct ext2_inode *inode, int bufsize)
{
	g_n_write++; g_write_at = ++g_seq;
	if (ino != IN.ino) g_foreign++;
	if (IN.rc_write) return IN.rc_write;
	CHECK(bufsize == (int)sizeof(struct ext2_inode_large), "the whole in-memory inode is written");
	DISK = *(struct ext2_inode_large *)inode;
	return 0;
}
int ext2fs_inode_has_valid_blocks2(ext2_filsys fs, struct ext2_inode *inode) { return IN.valid_blocks; }
errcode_t ext2fs_punch(ext2_filsys fs, ext2_ino_t ino, struct ext2_inode *inode, char *block_buf, blk64_t start, blk64_t end)
{
	g_n_punch++; g_punch_at = ++g_seq;
	if (ino != IN.ino) g_foreign++;
	g_punch_start = start; g_punch_end = end; g_punch_inode = inode;
	if (IN.rc_punch) return IN.rc_punch;
	if (inode) { inode->i_blocks = 0; inode->osd2.linux2.l_i_blocks_hi = 0; }	/* every block given back */
	return 0;
}
void ext2fs_inode_alloc_stats2(ext2_filsys fs, ext2_ino_t ino, int inuse, int isdir)
{
	g_n_stats++; g_stats_at = ++g_seq;
	if (ino != IN.ino) g_foreign++;
	g_stats_inuse = inuse; g_stats_isdir = isdir;
}

#include "lib/ext2fs/ext_attr.c"

errcode_t ext2fs_free_ext_attr(ext2_filsys fs, ext2_ino_t ino, struct ext2_inode_large *inode)
	ENSURES(g_n_free_ea == OLD(g_n_free_ea) + 1 && g_seq == OLD(g_seq) + 1 && g_free_ea_at == g_seq && g_free_ea_inode == inode)
	ENSURES(RET == IN.rc_free_ea)
	ENSURES(inode->i_file_acl == IN.acl_after && inode->i_blocks == (OLD(inode->i_file_acl) ? IN.blocks_after : OLD(inode->i_blocks)))
	ASSIGNS(g_n_free_ea, g_seq, g_free_ea_at, g_free_ea_inode, inode->i_file_acl, inode->i_blocks);

static struct struct_ext2_filsys FS;
static struct ext2_super_block SB;

static struct ext2_inode_large before;
static unsigned long long ref0;
static void prepare(int ea_block_error)
{
	LOAD_IN();
	ASSUME(IN.inodes_count >= 1);
	if (ea_block_error) ASSUME(IN.rc_free_ea != 0 && IN.rc_read == 0); else ASSUME(IN.rc_free_ea == 0);
	ASSUME(IN.rc_read >= 0 && IN.rc_free_ea >= 0 && IN.rc_punch >= 0 && IN.rc_write >= 0);
	memset(&SB, 0, sizeof(SB));
	SB.s_inodes_count = IN.inodes_count;
	FS.super = &SB; FS.now = 0; FS.flags2 = 0; FS.flags = 0; FS.blocksize = 1024;
	DISK = IN.disk;
	before = IN.disk;
	ref0 = X2SPEC_EA_INODE_REF(&before);
	ASSUME(ref0 >= 1);
	g_seq = g_n_read = g_n_write = g_n_punch = g_n_stats = g_n_free_ea = g_foreign = 0;
	g_write_at = g_punch_at = g_stats_at = g_free_ea_at = 0; g_stats_inuse = 0; g_stats_isdir = -1;
	g_punch_inode = 0; g_free_ea_inode = 0;
}

void h_dec_ref_ea_block_error(void)
{
	prepare(1);
	errcode_t r = xattr_inode_dec_ref(&FS, IN.ino);
	if (ref0 == 1) {
		CHECK(r != 0 || g_n_stats == 1, "a value inode whose EA block cannot be released: failure is reported, or the inode is released");
		REACH("last reference, EA block error");
	}
	REACH("end");
}

void h_dec_ref(void)
{
	prepare(0);
	errcode_t r = xattr_inode_dec_ref(&FS, IN.ino);

	CHECK(g_foreign == 0, "only the inode named by the caller is touched");
	CHECK(g_n_stats <= 1 && g_n_punch <= 1 && g_n_write <= 1, "never released twice: at most one statistics update, one punch, one write");
	CHECK(g_n_stats == 0 || (ref0 == 1 && g_stats_inuse == -1 && g_stats_isdir == 0), "the inode is given back (-1, not a directory) only when the last reference goes");
	CHECK(g_n_punch == 0 || ref0 == 1, "blocks are given back only when the last reference goes");
	if (r == 0) {
		CHECK(g_n_write == 1 && X2SPEC_EA_INODE_REF(EXT2_INODE(&DISK)) == ref0 - 1, "the stored reference count (i_ctime:i_version) is one less");
		CHECK(DISK.i_atime == before.i_atime && DISK.i_size == before.i_size && DISK.i_flags == before.i_flags && DISK.i_mode == before.i_mode,
		      "hash (i_atime), size, flags and mode are kept");
		if (ref0 > 1) {
			CHECK(g_n_stats == 0 && g_n_punch == 0 && g_n_free_ea == 0, "still referenced: nothing is released");
			CHECK(DISK.i_links_count == before.i_links_count && DISK.i_dtime == before.i_dtime && DISK.i_blocks == before.i_blocks &&
			      DISK.i_file_acl == before.i_file_acl, "still referenced: link count, dtime, blocks untouched");
			REACH("still referenced");
		} else {
			CHECK(DISK.i_links_count == 0 && DISK.i_dtime != 0 && DISK.i_dtime >= IN.inodes_count, "last reference: unlinked, deletion time set (not mistakable for an orphan-list inode number)");
			CHECK(g_n_stats == 1, "last reference: the inode is given back exactly once");
			CHECK(!IN.valid_blocks || (g_n_punch == 1 && g_punch_start == 0 && g_punch_end == ~0ULL), "last reference: every block of the value is given back");
			CHECK(IN.valid_blocks || g_n_punch == 0, "no blocks, no punch");
			CHECK(g_n_punch == 0 || (g_punch_at < g_write_at && DISK.i_blocks == 0), "the image written last is the one the punch left (no stale block count)");
			CHECK(g_n_free_ea == 1 && g_free_ea_at < g_write_at, "an EA block of the value inode is released before the final write");
			REACH("last reference");
			if (IN.valid_blocks) REACH("last reference, with blocks");
		}
	} else {
		CHECK(!IN.rc_read || (g_n_write == 0 && g_n_stats == 0 && g_n_punch == 0), "read failure: nothing done");
		CHECK(!(g_n_punch == 1 && IN.rc_punch) || (g_n_stats == 0), "punch failure: the inode is not given back while it still holds blocks");
		REACH("failure");
	}
	REACH("end");
}
