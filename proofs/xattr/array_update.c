/* VERIF-UNIT
{
 "name": "array_update_space",
 "props": ["C15", "C06"],
 "level": "U",
 "tier": "quick",
 "harness": "h_array_update_space",
 "enforce": ["xattr_array_update"],
 "replace": ["find_ea_index", "xattr_find_position", "xattr_update_entry"],
 "unwind": 6,
 "unwind_reason": "xattr_array_update is loop-free once its callees are replaced by contract; the bound serves the DFCC library's write-set loops (unwinding assertions on)",
 "functions": ["lib/ext2fs/ext_attr.c:xattr_array_update"],
 "assumes": ["handle: 0 <= ibody_count <= count <= capacity, capacity = 4 (the initial capacity; a full array is expanded to 8), attrs array with ARBITRARY contents; old_idx in -1 .. count-1. The array length is a configuration bound only: the statement is about the arithmetic on needed / free / old occupancy, which is unbounded (all sizes symbolic)",
             "format limits: value_len and the replaced entry's value_len <= 2^24 (kernel EXT4_XATTR_SIZE_MAX), names <= 255; ibody_free and block_free arbitrary in [-2^30, 2^30] (callers compute them from sizes <= 65536 and space_used)",
             "call-site guarantee (ext2fs_xattr_set finds old_idx by strcmp on the full name): the entry at old_idx carries the same name, hence the same short-name length, as the key; stated as a postcondition of the find_ea_index contract on the uninterpreted strlen",
             "callees by contract: find_ea_index (returns 0/1, short name pointer arbitrary), xattr_find_position (contract proved in find_position), xattr_update_entry (the bookkeeping subset of the contract proved in update_entry), ext2fs_xattrs_expand is the REAL function",
             "xattr_update_entry is replaced by the LIGHT variant of its contract (XAT_LIGHT_UPDATE_ENTRY in xat_contracts.h): the subset of the clauses proved in update_entry that concerns the slot fields and the error code", "libc strlen uninterpreted (<= 255); libc memmove is a stub that CHECKS source and destination ranges lie inside live objects and then havocs the destination object (the map semantics of the moves is the subject of array_update_map)",
             "placement of the entry after the call is read off the change of h->ibody_count (new entry: +1 = inode body; entry formerly in the body: -1 = moved to the block; entry formerly in the block: +1 = moved to the body); array_update_map checks the position against ibody_count on real arrays"],
 "native": false
}
*/
#define XAT_UF_STRLEN
#define XAT_LIGHT_UPDATE_ENTRY
#include "xat_common.h"

struct in_s {
	int count, ibody_count, capacity, old_idx;
	int ibody_free, block_free, in_inode;
	unsigned long long value_len;
	unsigned long long k;
	unsigned char pad;
};
struct in_s IN;
#include "verif_in.h"

#ifndef VERIF_NATIVE
/* libc memmove: ranges checked, destination object havocked (see assumes) */
void *memmove(void *dst, const void *src, size_t n)
{
	__CPROVER_assert(__CPROVER_r_ok(src, n), "CHECK:memmove source range readable");
	__CPROVER_assert(__CPROVER_w_ok(dst, n), "CHECK:memmove destination range inside the attribute array");
	if (n > 0)
		__CPROVER_havoc_object(dst);
	return dst;
}
#endif

#include "lib/ext2fs/ext_attr.c"
#include "xat_contracts.h"

/*
 * ghost registers of this unit
 *   verif_p0  the short name find_ea_index produced (recorded by its contract)
 *   verif_g5  short-name length of the entry being replaced, verif_g6 = 1 if there is one (old_idx >= 0)
 *   verif_g7  value_len of the entry being replaced, verif_g3 its ea_ino
 *   verif_g0 / verif_g1  h->ibody_count / h->count on entry
 */
unsigned long long g_off;	/* ghost: offset of the short name inside the full name */
static int find_ea_index(const char *fullname, const char **name, int *index)
	ENSURES(RET == 0 || RET == 1)
	ENSURES(RET == 1 || (*name == OLD(*name) && *index == OLD(*index)))
	ENSURES((const unsigned char *)*name == verif_p0)
	ENSURES(g_off <= 24 && *name == fullname + g_off)	/* "system.posix_acl_default" is the longest prefix */
	ENSURES(verif_g6 == 0 || XSPEC_STRLEN(*name) == verif_g5)	/* same name as the replaced entry */
	ASSIGNS(*name, *index, verif_p0, g_off);

/* ---- the specification, on the arithmetic (all in signed 64 bits; XSPEC_* from the on-disk format) ---- */
#define S64(x) ((long long)(x))
#define NEW_NEED(value_len, in_inode) S64(XSPEC_NEED(XSPEC_STRLEN(verif_p0), (value_len), (in_inode)))
/* what the replaced entry really occupies in ITS region: header + name always, value bytes only when stored inline */
#define OLD_OCC S64(verif_g6 ? XSPEC_NEED(verif_g5, verif_g7, verif_g3) : 0)
#define OLD_IN_IBODY(old_idx) ((old_idx) >= 0 && S64(old_idx) < S64(verif_g0))
#define OLD_IN_BLOCK(old_idx) ((old_idx) >= 0 && S64(old_idx) >= S64(verif_g0))
#define AVAIL_IBODY(ibody_free, old_idx) (S64(ibody_free) + (OLD_IN_IBODY(old_idx) ? OLD_OCC : 0))
#define AVAIL_BLOCK(block_free, old_idx) (S64(block_free) + (OLD_IN_BLOCK(old_idx) ? OLD_OCC : 0))
/* where the entry is after a successful call (see assumes) */
#define LANDS_IN_IBODY(h, old_idx) ((old_idx) < 0 ? S64((h)->ibody_count) == S64(verif_g0) + 1 : \
				    OLD_IN_IBODY(old_idx) ? S64((h)->ibody_count) == S64(verif_g0) : S64((h)->ibody_count) == S64(verif_g0) + 1)
#define LANDS_IN_BLOCK(h, old_idx) ((old_idx) < 0 ? S64((h)->ibody_count) == S64(verif_g0) : \
				    OLD_IN_IBODY(old_idx) ? S64((h)->ibody_count) == S64(verif_g0) - 1 : S64((h)->ibody_count) == S64(verif_g0))

static errcode_t xattr_array_update(struct ext2_xattr_handle *h, const char *name, const void *value, size_t value_len,
				    int ibody_free, int block_free, int old_idx, int in_inode)
	REQUIRES(0 <= h->ibody_count && h->ibody_count <= h->count && h->count <= h->capacity)
	REQUIRES(-1 <= old_idx && old_idx < h->count)
	REQUIRES(value_len <= (1u << 24))
	REQUIRES(verif_g0 == (unsigned long long)h->ibody_count && verif_g1 == (unsigned long long)h->count)
	REQUIRES(verif_g6 == (old_idx >= 0 ? 1 : 0))
	REQUIRES(old_idx < 0 || (verif_g5 == XSPEC_STRLEN(h->attrs[old_idx].short_name) && verif_g5 <= XSPEC_NAME_MAX &&
				 verif_g7 == h->attrs[old_idx].value_len && verif_g7 <= (1u << 24) && verif_g3 == h->attrs[old_idx].ea_ino))
	/* success: the entry lands in exactly one region, and that region really has room for it */
	ENSURES(RET != 0 || (LANDS_IN_IBODY(h, old_idx) != LANDS_IN_BLOCK(h, old_idx)))
	ENSURES(RET != 0 || !LANDS_IN_IBODY(h, old_idx) || NEW_NEED(value_len, in_inode) <= AVAIL_IBODY(ibody_free, old_idx))
	ENSURES(RET != 0 || !LANDS_IN_BLOCK(h, old_idx) || NEW_NEED(value_len, in_inode) <= AVAIL_BLOCK(block_free, old_idx))
	ENSURES(RET != 0 || S64(h->count) == S64(verif_g1) + (old_idx < 0 ? 1 : 0))
	/* rejection for lack of space only when neither region has room */
	ENSURES(RET != EXT2_ET_EA_NO_SPACE || (NEW_NEED(value_len, in_inode) > AVAIL_IBODY(ibody_free, old_idx) &&
					       NEW_NEED(value_len, in_inode) > AVAIL_BLOCK(block_free, old_idx)))
	/* any failure leaves the bookkeeping alone */
	ENSURES(RET == 0 || (S64(h->count) == S64(verif_g1) && S64(h->ibody_count) == S64(verif_g0)))
	ENSURES(0 <= h->ibody_count && h->ibody_count <= h->count && h->count <= h->capacity)
	ASSIGNS(h->attrs, h->capacity, h->count, h->ibody_count, __CPROVER_object_whole(h->attrs),
		verif_p0, verif_g4, verif_g2, g_off, xat_mon)
	XAT_FREES(h->attrs);	/* ext2fs_xattrs_expand (real) releases the old array */

void h_array_update_space(void)
{
	LOAD_IN();
	ASSUME(IN.capacity == 4);
	ASSUME(0 <= IN.ibody_count && IN.ibody_count <= IN.count && IN.count <= IN.capacity);
	ASSUME(-1 <= IN.old_idx && IN.old_idx < IN.count);
	ASSUME(IN.ibody_free >= -(1 << 30) && IN.ibody_free <= (1 << 30));
	ASSUME(IN.block_free >= -(1 << 30) && IN.block_free <= (1 << 30));
	ASSUME(IN.value_len <= (1u << 24));
	struct ext2_xattr_handle H, *h = &H;	/* on the stack: CBMC propagates constants through it (a heap handle makes every size symbolic) */
	/* contents arbitrary; typed heap objects of constant size (a symbolic-size byte object does not scale) */
	struct ext2_xattr *a = malloc(4 * sizeof(struct ext2_xattr));
	char *name = malloc(26), *value = malloc(1);	/* contents irrelevant: strlen is uninterpreted, the value is only passed on */
	ASSUME(a != 0 && name != 0 && value != 0);
	h->magic = EXT2_ET_MAGIC_EA_HANDLE;
	h->fs = 0;
	h->attrs = a;
	h->capacity = IN.capacity;
	h->count = IN.count;
	h->ibody_count = IN.ibody_count;
	h->ino = 12;
	h->flags = 0;
	verif_k = IN.k;
	verif_g0 = (unsigned long long)IN.ibody_count;
	verif_g1 = (unsigned long long)IN.count;
	verif_g6 = IN.old_idx >= 0 ? 1 : 0;
	if (IN.old_idx >= 0) {
		verif_g5 = XSPEC_STRLEN(a[IN.old_idx].short_name);
		verif_g7 = a[IN.old_idx].value_len;
		verif_g3 = a[IN.old_idx].ea_ino;
		ASSUME(verif_g5 <= XSPEC_NAME_MAX && verif_g7 <= (1u << 24));
	}
	errcode_t r = xattr_array_update(h, name, value, (size_t)IN.value_len, IN.ibody_free, IN.block_free, IN.old_idx, IN.in_inode);

	long long need = NEW_NEED(IN.value_len, IN.in_inode);
	long long avail_i = AVAIL_IBODY(IN.ibody_free, IN.old_idx), avail_b = AVAIL_BLOCK(IN.block_free, IN.old_idx);
	if (r == 0) {
		int in_ibody = LANDS_IN_IBODY(h, IN.old_idx), in_block = LANDS_IN_BLOCK(h, IN.old_idx);
		CHECK(in_ibody != in_block, "success: the entry lands in exactly one region");
		if (in_ibody) {
			CHECK(need <= avail_i, "inode body: needed <= free + space the OLD entry really occupies there (value bytes only if the old value is inline)");
			REACH("ibody");
			if (IN.old_idx >= 0 && verif_g3 != 0 && !IN.in_inode && IN.old_idx < IN.ibody_count) REACH("replace-ea-inode-value-by-inline-in-ibody");
		} else {
			CHECK(need <= avail_b, "block: needed <= free + space the OLD entry really occupies there (value bytes only if the old value is inline)");
			REACH("block");
			if (IN.old_idx >= IN.ibody_count && verif_g3 != 0 && !IN.in_inode) REACH("replace-ea-inode-value-by-inline-in-block");
		}
		CHECK(h->count == IN.count + (IN.old_idx < 0 ? 1 : 0), "count grows by one exactly for a new name");
	} else {
		CHECK(h->count == IN.count && h->ibody_count == IN.ibody_count, "failure: bookkeeping unchanged");
		if (r == EXT2_ET_EA_NO_SPACE) {
			CHECK(need > avail_i && need > avail_b, "EA_NO_SPACE only when the entry fits neither region");
			REACH("no-space");
		} else
			REACH("other-error");
	}
	CHECK(0 <= h->ibody_count && h->ibody_count <= h->count && h->count <= h->capacity, "handle invariant kept");
	if (r == 0 && h->capacity == 8) REACH("expanded");
	REACH("end");
}
