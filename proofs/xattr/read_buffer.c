/* VERIF-UNIT
{
 "name": "read_buffer",
 "props": ["C06", "C15"],
 "level": "U/iter",
 "tier": "thorough",
 "harness": "h_read_buffer",
 "enforce": ["read_xattrs_from_buffer"],
 "replace": ["find_ea_prefix", "ext2fs_ext_attr_hash_entry3"],
 "exclude": [{"match": "pointer outside object bounds in (char *)end + (signed long int)sizeof(__u32)", "reason": "the comparison 'value_start + e_value_offs < (char *)end + sizeof(__u32)' forms (never dereferences) a pointer up to 4 bytes past the end of the region when the entry table fills the region completely; pointer formation only, outside the property's statement (no memory access)"}],
 "defines": ["NO_INLINE_FUNCS"],
 "loop_contracts": true,
 "unwind": 12,
 "unwind_reason": "both loops of read_xattrs_from_buffer are cut by in-place loop contracts (safety-only invariants); the global bound serves the DFCC library loops (unwinding assertions on)",
 "functions": ["lib/ext2fs/ext_attr.c:read_xattrs_from_buffer"],
 "assumes": ["region of storage_size <= 992 bytes (a 1 KiB block, and the in-inode region of every inode size up to 1024; cap for tractability, the code is parametric in the size) with ARBITRARY contents; the two call shapes of ext2fs_xattrs_read_inode: in-inode (value_start == entries, the buffer ends with the region) and block (value_start = block start = entries - 32, blocksize = storage_size + 32); the buffer is a heap object of exactly that size",
             "handle->attrs has room for every entry the region can hold (capacity = 8 + 992/16 + 1, count <= 8), so ext2fs_xattrs_expand is not reached while one region is parsed (its own unit: xattrs_expand); array contents arbitrary",
             "U/iter: the loop-carried state is havocked under the safety invariant 'cursor inside the region and remain <= bytes left behind the cursor'; what is proved is memory safety of an arbitrary iteration of either loop (every read of an entry header, name and value lies inside the buffer), not the functional result",
             "callees: find_ea_prefix by contract (NULL, or a string of at most 24 bytes in a 25-byte object: the longest entry of ea_names is \"system.posix_acl_default\"; DFCC cannot run a callee with its own loop inside a contracted loop), libc strlen uninterpreted (only applied to that prefix); ext2fs_ext_attr_hash_entry3 by contract whose PRECONDITION is what the real hash functions read: the entry header + name, and for an inline value the value rounded up to whole 32-bit words; memcpy / memset are stubs that CHECK their ranges (destinations are fresh heap objects whose contents stay arbitrary); compiled with NO_INLINE_FUNCS, the allocation wrappers of lib/ext2fs/inline.c (ext2fs_get_mem, ext2fs_get_memzero) are stubs: CBMC 6.11 forbids malloc inside a contracted loop, so the name buffer and the value buffer of the one iteration that is analysed are two heap objects allocated by the harness with arbitrary sizes, and the stubs continue only if the requested size equals that size (every execution is covered by some choice; the objects have exactly the requested size); the EA-inode file API (ext2fs_file_open/get_inode/get_size/read/close) and ext2fs_read_inode are stubs returning arbitrary results, ext2fs_file_read CHECKS its destination range",
             "needs the VERIF_LOOP hooks in lib/ext2fs/ext_attr.c (hooks-pending/xat.diff)",
             "FAILS ON THE TREE (genuine defect, findings/C15_read_xattrs_remain_underflow): second loop subtracts the name length from 'remain' without a check; passes with findings/C15_read_xattrs_remain_underflow/proposed-fix.patch"],
 "native": false
}
*/
#define XAT_UF_STRLEN
#define RB_MAX_STORAGE 992	/* 1 KiB block minus the 32-byte header; covers the in-inode region of every inode size up to 1024 */
#define RB_CAP (8 + RB_MAX_STORAGE / 16 + 1)
#include "xat_common.h"

struct in_s {
	unsigned int storage_size;
	unsigned char block_shape;	/* 0: in-inode, 1: block */
	int count0;
	unsigned int feature_incompat;
	unsigned int ino, generation;
	struct { long rc; unsigned int u; } choice[8];
	unsigned long pool_name_size, pool_value_size;
	struct ext2_inode ea_inode, child;
};
struct in_s IN;
#include "verif_in.h"

static char *g_prefix;	/* 25-byte object standing for the prefix literal */
static char *g_buf;	/* the region under test */
#ifndef VERIF_NATIVE
void *memcpy(void *dst, const void *src, size_t n)
{
	__CPROVER_assert(__CPROVER_r_ok(src, n), "CHECK:memcpy source range inside the object it reads (C06)");
	__CPROVER_assert(__CPROVER_w_ok(dst, n), "CHECK:memcpy destination range writable");
	if (n > 0 && __CPROVER_same_object(src, g_prefix)) REACH("prefix-copied");
	if (n > 0 && __CPROVER_same_object(src, g_buf)) REACH("bytes-copied-out-of-the-region");
	return dst;	/* destinations are fresh heap objects whose contents stay arbitrary */
}
void *memset(void *dst, int c, size_t n)
{
	__CPROVER_assert(__CPROVER_w_ok(dst, n), "CHECK:memset range writable");
	return dst;
}
#endif

/* verif_g2 is the cursor into IN.choice (a ghost register so that the loop contract can list it) */
#define NEXT_CHOICE() (IN.choice[verif_g2 < 7 ? verif_g2++ : 7])
/*
 * lib/ext2fs/inline.c (the unit is compiled with NO_INLINE_FUNCS, so the allocation wrappers are external functions):
 * same behaviour as the originals, with a plain pointer store instead of memcpy(ptr, &p, sizeof p).
 */
/*
 * CBMC 6.11 loop contracts forbid malloc inside the loop, so the two allocations one iteration performs (name:
 * ext2fs_get_memzero, value: ext2fs_get_mem) are served from two heap objects the harness allocates beforehand with
 * ARBITRARY sizes; the stub continues only when the requested size is that size.  Every concrete execution is
 * covered by some choice of the two sizes, and the objects have exactly the requested size (so destination
 * overflows are still caught).
 */
static void *POOL_NAME, *POOL_VALUE;
static unsigned long POOL_NAME_SIZE, POOL_VALUE_SIZE;
errcode_t ext2fs_get_mem(unsigned long size, void *ptr)
{
	if (NEXT_CHOICE().rc) return EXT2_ET_NO_MEMORY;
	__CPROVER_assume(size == POOL_VALUE_SIZE);
	*(void **)ptr = POOL_VALUE;
	return 0;
}
errcode_t ext2fs_get_memzero(unsigned long size, void *ptr)
{
	if (NEXT_CHOICE().rc) return EXT2_ET_NO_MEMORY;
	__CPROVER_assume(size == POOL_NAME_SIZE);
	*(void **)ptr = POOL_NAME;	/* contents are not looked at in this unit */
	return 0;
}
errcode_t ext2fs_get_arrayzero(unsigned long count, unsigned long size, void *ptr)
{
	__CPROVER_assert(0, "CHECK:ext2fs_xattrs_expand is not reached (the array has room)");
	return EXT2_ET_NO_MEMORY;
}
errcode_t ext2fs_free_mem(void *ptr)
{
	free(*(void **)ptr);
	*(void **)ptr = 0;
	return 0;
}

/* device stubs */
static struct ext2_inode EA_INODE;
struct ext2_file { int dummy; };
static struct ext2_file EA_FILE;
errcode_t ext2fs_file_open(ext2_filsys fs, ext2_ino_t ino, int flags, ext2_file_t *ret)
{
	long rc = NEXT_CHOICE().rc;
	if (rc) return rc;
	*ret = &EA_FILE;
	return 0;
}
struct ext2_inode *ext2fs_file_get_inode(ext2_file_t file) { return &EA_INODE; }	/* set by the harness */
ext2_off_t ext2fs_file_get_size(ext2_file_t file) { return (ext2_off_t)NEXT_CHOICE().u; }
errcode_t ext2fs_file_read(ext2_file_t file, void *buf, unsigned int wanted, unsigned int *got)
{
	__CPROVER_assert(__CPROVER_w_ok(buf, wanted), "CHECK:ext2fs_file_read destination holds the bytes asked for");
	return NEXT_CHOICE().rc;
}
errcode_t ext2fs_file_close(ext2_file_t file) { return 0; }
errcode_t ext2fs_read_inode(ext2_filsys fs, ext2_ino_t ino, struct ext2_inode *inode)
{
	long rc = NEXT_CHOICE().rc;
	if (rc) return rc;
	*inode = IN.child;
	return 0;
}

/*
 * ghost steps of the named anchors: the loop contracts havoc the cursors 'end' / 'entry'; re-assigning them the value
 * the invariant says they have (asserted to be the identity) gives CBMC exact points-to information for the reads
 * through them; verif_g3 tracks the offset of the second walk's cursor.
 */
#define VERIF_XS_READ_BUF_GHOST1 \
	VERIF_GHOST(__CPROVER_assert((char *)end == (char *)entries + (storage_size - remain), "CHECK:ghost re-derivation of 'end' is the identity"); \
		    end = (struct ext2_ext_attr_entry *)((char *)entries + (storage_size - remain));)
#define VERIF_XS_READ_BUF_GHOST2 \
	VERIF_GHOST(__CPROVER_assert((char *)entry == (char *)entries + verif_g3, "CHECK:ghost re-derivation of 'entry' is the identity"); \
		    entry = (struct ext2_ext_attr_entry *)((char *)entries + verif_g3);)
#define VERIF_XS_READ_BUF_GHOST2_END \
	VERIF_GHOST(verif_g3 = (unsigned long long)(__CPROVER_POINTER_OFFSET(entry) - __CPROVER_POINTER_OFFSET(entries));)

#include "lib/ext2fs/ext_attr.c"

static const char *find_ea_prefix(int index)
	ENSURES(RET == 0 || (RET == g_prefix && XSPEC_STRLEN(RET) <= 24))
	ASSIGNS();

/* what ext2fs_ext_attr_hash_entry{,_signed} read (proved in parsers/xattr_hash_entry): header + name, value in 32-bit words */
errcode_t ext2fs_ext_attr_hash_entry3(ext2_filsys fs, struct ext2_ext_attr_entry *entry, void *data, __u32 *hash, __u32 *signed_hash)
	REQUIRES(__CPROVER_r_ok(entry, sizeof(struct ext2_ext_attr_entry) + entry->e_name_len))
	REQUIRES(entry->e_value_inum != 0 || entry->e_value_size == 0 ||
		 __CPROVER_r_ok(data, 4ul * PSPEC_XATTR_NWORDS(entry->e_value_size)))
	ASSIGNS(*hash, *signed_hash);

/* frame of the function under test (its safety is the obligations CBMC generates inside it; see the hooks for the ghost registers) */
static errcode_t read_xattrs_from_buffer(struct ext2_xattr_handle *handle, struct ext2_inode_large *inode,
					 struct ext2_ext_attr_entry *entries, unsigned int storage_size, char *value_start)
	REQUIRES((const unsigned char *)handle->attrs == verif_p0 && (unsigned long long)handle->count == verif_g0 &&
		 (unsigned long long)handle->capacity == verif_g1 && verif_g1 >= verif_g0 + storage_size / 16 + 1 && verif_g3 == 0)
	ENSURES((unsigned long long)handle->count >= verif_g0 && (unsigned long long)handle->count - verif_g0 <= storage_size / 16)
	ENSURES((const unsigned char *)handle->attrs == verif_p0 && (unsigned long long)handle->capacity == verif_g1)
	ASSIGNS(handle->count, __CPROVER_object_whole(handle->attrs), verif_g2, verif_g3);

void h_read_buffer(void)
{
	LOAD_IN();
	ASSUME(IN.storage_size <= RB_MAX_STORAGE && IN.count0 >= 0 && IN.count0 <= 8);
	unsigned int hdr = IN.block_shape ? sizeof(struct ext2_ext_attr_header) : 0;
	char *buf = malloc((size_t)hdr + IN.storage_size);	/* contents arbitrary */
	ASSUME(buf != 0);
	g_buf = buf;
	static struct struct_ext2_filsys FS;
	static struct ext2_super_block SB;
	struct ext2_xattr_handle H, *h = &H;
	struct ext2_inode_large INODE;
	memset(&SB, 0, sizeof(SB));
	SB.s_feature_incompat = IN.feature_incompat;
	FS.super = &SB;
	INODE.i_generation = IN.generation;
	int cap = RB_CAP;
	struct ext2_xattr *a = malloc(RB_CAP * sizeof(struct ext2_xattr));	/* contents arbitrary */
	ASSUME(a != 0);
	h->magic = EXT2_ET_MAGIC_EA_HANDLE; h->fs = &FS; h->attrs = a; h->capacity = cap; h->count = IN.count0;
	h->ibody_count = 0; h->ino = IN.ino; h->flags = 0;
	verif_p0 = (const unsigned char *)a;
	verif_g0 = (unsigned long long)IN.count0;
	verif_g1 = (unsigned long long)cap;
	verif_g2 = 0; verif_g3 = 0;
	EA_INODE = IN.ea_inode;
	g_prefix = malloc(25);
	ASSUME(g_prefix != 0);
	ASSUME(IN.pool_name_size <= 512 && IN.pool_value_size <= 65536);	/* name_len + prefix + 1 <= 281; values <= 64 KiB */
	POOL_NAME_SIZE = IN.pool_name_size; POOL_VALUE_SIZE = IN.pool_value_size;
	POOL_NAME = malloc(POOL_NAME_SIZE); POOL_VALUE = malloc(POOL_VALUE_SIZE);
	ASSUME(POOL_NAME != 0 && POOL_VALUE != 0);

	errcode_t r = read_xattrs_from_buffer(h, &INODE, (struct ext2_ext_attr_entry *)(buf + hdr), IN.storage_size, buf);

	CHECK(h->attrs == a && h->capacity == cap, "the attribute array was not expanded");
	CHECK(h->count >= IN.count0 && h->count - IN.count0 <= RB_MAX_STORAGE / 16, "at most storage_size/16 entries accepted");
	if (r == 0) REACH("accepted");
	else REACH("rejected");
	if (IN.block_shape) REACH("block-shape");
	REACH("end");
}
