/* VERIF-UNIT
{
 "name": "ea_inode_debugfs_set_file",
 "props": [
  "C15"
 ],
 "level": "U/k",
 "tier": "quick",
 "harness": "h_debugfs_set_file",
 "includes": [
  "debugfs",
  "lib/ss",
  "misc",
  "e2fsck",
  "lib/support"
 ],
 "defines": [
  "DEBUGFS",
  "EXT2_CUSTOM_MEMORY_ROUTINES"
 ],
 "unwind": 10,
 "unwind_reason": "value files of at most 70000 bytes on 1 KiB blocks: a repaired do_set_xattr that reads the file in a doubling buffer needs at most 8 rounds (1 KiB .. 128 KiB); the option loop sees at most 2 options; unwinding assertions on",
 "functions": [
  "debugfs/xattrs.c:do_set_xattr"
 ],
 "assumes": [
  "command line: ea_set -f <value file> [-r] <file> <attr>; the value file holds 0 .. 70000 bytes (64 KiB is the largest value the library accepts); block size 1024",
  "getopt is a scripted stub (delivers 'f', optionally 'r', then -1); fopen/fread/fclose are a ghost file: fread(ptr, 1, n, fp) CHECKS that ptr can take n bytes and delivers min(n, rest) bytes and checks that the chunk is stored at its own file offset inside the buffer that is later handed to the library (bytes themselves are not tracked); printf / com_err / perror are no-ops; check_fs_*, string_to_inode, ext2fs_xattrs_open/flags/read/close succeed; ext2fs_xattr_set records pointer and length; allocation (ext2fs.h compiled with EXT2_CUSTOM_MEMORY_ROUTINES) does not fail, ext2fs_resize_mem hands out a new, larger object that stands for the old contents",
  "FAILS ON THE TREE (genuine defect, findings/C15_ea_inode_debugfs_set_truncates): fread(buf, 1, current_fs->blocksize, fp) \u2014 only the first block of the value file is handed to ext2fs_xattr_set; passes with the proposed fix"
 ],
 "native": false,
 "no_cross_check": true
}
*/
#include "verif.h"
#include "config.h"
#include <stdio.h>
#include <string.h>
#include <stdlib.h>
#include "et/com_err.h"

struct in_s {
	unsigned int file_len;
	unsigned char raw;		/* -r given */
	long rc_set;
};
struct in_s IN;
#include "verif_in.h"

/* ---- ghost value file ---- */
static FILE *g_fp; static unsigned int g_pos, g_n_open, g_n_close, g_misplaced;
static unsigned char *g_base;	/* the buffer the value is collected in (moved by ext2fs_resize_mem, which keeps the contents) */
static FILE *x2_fopen(const char *path, const char *mode) { g_n_open++; g_pos = 0; return g_fp; }
static int x2_fclose(FILE *fp) { g_n_close++; return 0; }
static size_t x2_fread(void *ptr, size_t size, size_t n, FILE *fp)
{
#ifndef VERIF_NATIVE
	__CPROVER_assert(size == 1 && fp == g_fp && __CPROVER_w_ok(ptr, n), "CHECK:fread target can take the bytes asked for");
#endif
	size_t rest = IN.file_len - g_pos, r = n < rest ? n : rest;
	/* content, without tracking bytes: every chunk lands in the current buffer at its own file offset */
	if ((unsigned char *)ptr != g_base + g_pos) g_misplaced++;
	g_pos += r;
	return r;
}
/* scripted getopt */
static int g_opt_step;
static char *g_argv2;
static int x2_getopt(int argc, char *const argv[], const char *optstring)
{
	extern char *optarg; extern int optind;
	g_opt_step++;
	if (g_opt_step == 1) { optarg = g_argv2; return 'f'; }
	if (g_opt_step == 2 && IN.raw) return 'r';
	optind = IN.raw ? 4 : 3;
	return -1;
}
#define fopen x2_fopen
#define fclose x2_fclose
#define fread x2_fread
#define getopt x2_getopt
#define printf(...) ((void)0)
#define fprintf(f, ...) ((void)0)
#define perror(s) ((void)0)
#define com_err(w, c, ...) ((void)0)
#define fputs(s, f) ((void)0)
#define fputc(c, f) ((void)0)
#define fwrite(p, s, n, f) ((size_t)0)

#include "ext2_fs.h"
#include "ext2fs.h"
errcode_t ext2fs_get_mem(unsigned long size, void *ptr)
{
	void *p = malloc(size);
	ASSUME(p != 0);
	*(void **)ptr = p;
	g_base = p;
	return 0;
}
errcode_t ext2fs_free_mem(void *ptr) { free(*(void **)ptr); *(void **)ptr = 0; return 0; }
errcode_t ext2fs_resize_mem(unsigned long old_size, unsigned long size, void *ptr)
{
	/* realloc: a new object that stands for the old contents (bytes are not tracked in this unit) */
	unsigned char *o = *(unsigned char **)ptr, *p = malloc(size);
	ASSUME(p != 0);
	if (o != g_base || size < old_size) g_misplaced++;
	free(o);
	*(void **)ptr = p;
	g_base = p;
	return 0;
}

#include "debugfs/xattrs.c"
#undef fopen
#undef fclose
#undef fread
#undef getopt
#undef printf
#undef fprintf

ext2_filsys current_fs;
void reset_getopt(void) { g_opt_step = 0; }
int check_fs_open(char *name) { return 0; }
int check_fs_read_write(char *name) { return 0; }
int check_fs_bitmaps(char *name) { return 0; }
ext2_ino_t string_to_inode(char *str) { return 12; }
int parse_c_string(char *str) { return 0; }
struct ext2_xattr_handle { int dummy; };
static struct ext2_xattr_handle HANDLE;
static unsigned int g_n_set; static const void *g_set_buf; static size_t g_set_len; static const char *g_set_name;
static unsigned int g_flags_seen;
errcode_t ext2fs_xattrs_open(ext2_filsys fs, ext2_ino_t ino, struct ext2_xattr_handle **handle) { *handle = &HANDLE; return 0; }
errcode_t ext2fs_xattrs_flags(struct ext2_xattr_handle *handle, unsigned int *new_flags, unsigned int *old_flags) { if (new_flags) g_flags_seen = *new_flags; return 0; }
errcode_t ext2fs_xattrs_read(struct ext2_xattr_handle *handle) { return 0; }
errcode_t ext2fs_xattrs_close(struct ext2_xattr_handle **handle) { *handle = 0; return 0; }
errcode_t ext2fs_xattr_set(struct ext2_xattr_handle *handle, const char *key, const void *value, size_t value_len)
{
	g_n_set++; g_set_buf = value; g_set_len = value_len; g_set_name = key;
#ifndef VERIF_NATIVE
	__CPROVER_assert(__CPROVER_r_ok(value, value_len), "CHECK:the value handed to the library is readable for its whole length");
#endif
	return IN.rc_set;
}
/* not reached from do_set_xattr; referenced by other commands of the file */
errcode_t ext2fs_xattrs_iterate(struct ext2_xattr_handle *h, int (*func)(char *name, char *value, size_t value_len, void *data), void *data) { return 0; }
errcode_t ext2fs_xattrs_count(struct ext2_xattr_handle *handle, size_t *count) { *count = 0; return 0; }
errcode_t ext2fs_xattr_get(struct ext2_xattr_handle *h, const char *key, void **value, size_t *value_len) { return 1; }
errcode_t ext2fs_xattr_remove(struct ext2_xattr_handle *handle, const char *key) { return 0; }

void h_debugfs_set_file(void)
{
	LOAD_IN();
	ASSUME(IN.file_len <= 70000 && IN.rc_set >= 0);
	static struct struct_ext2_filsys FS;
	static FILE fobj;
	FS.blocksize = 1024;
	current_fs = &FS;
	g_fp = &fobj; g_pos = 0; g_n_open = g_n_close = g_misplaced = 0; g_base = 0; g_opt_step = 0;
	g_n_set = 0; g_set_buf = 0; g_set_len = 0; g_set_name = 0; g_flags_seen = 0;
	char a0[] = "ea_set", a1[] = "-f", a2[] = "valfile", a3[] = "f", a4[] = "user.x", ar[] = "-r";
	char *argv_r[] = { a0, a1, a2, ar, a3, a4, 0 };
	char *argv_n[] = { a0, a1, a2, a3, a4, 0 };
	g_argv2 = a2;

	if (IN.raw) do_set_xattr(6, argv_r, 0, 0); else do_set_xattr(5, argv_n, 0, 0);

	CHECK(g_n_set == 1 && g_set_name == (IN.raw ? argv_r[5] : argv_n[4]), "the attribute named on the command line is set, once");
	CHECK(g_set_len == IN.file_len, "the WHOLE value file is handed to ext2fs_xattr_set (not only its first block)");
	CHECK(g_misplaced == 0 && g_set_buf == g_base && g_pos == IN.file_len, "byte for byte: every chunk was read to its own offset of the buffer that is handed over, up to the end of the file");
	CHECK(g_n_open == 1 && g_n_close == 1, "the value file is closed again");
	CHECK((g_flags_seen & XATTR_HANDLE_FLAG_RAW ? 1 : 0) == (IN.raw ? 1 : 0), "-r asks for the raw form");
	if (IN.file_len > 1024) REACH("value file longer than one block");
	REACH("end");
}
