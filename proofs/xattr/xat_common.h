/* shared by the ext_attr.c units of group "xattr" (tag xat) */
#include "verif.h"
#include "config.h"
#include <stdio.h>
#include <string.h>
#include <stdlib.h>
#include <limits.h>
#include "ext2_fs.h"
#include "ext2_ext_attr.h"
#include "ext2fs.h"
#include "parsers_spec_xattr.h"
#include "xattr_spec.h"

/* ghost registers (declared in e2fsprogs_verif.h, defined here); meaning documented by each unit */
unsigned long long verif_k;
int verif_old_bit;
unsigned long long verif_g0, verif_g1, verif_g2, verif_g3, verif_g4, verif_g5, verif_g6, verif_g7;
const unsigned char *verif_p0, *verif_p1, *verif_p2, *verif_p3;

unsigned long long xat_bk;	/* ghost byte index (copies of names and values) */
/* ghost monitor of EA-inode creation / release (moved by the contracts of xattr_create_ea_inode and xattr_inode_dec_ref in update_entry.c) */
struct xat_mon_s { unsigned int created, dec_old, dec_new, dec_other, ndec; } xat_mon;

#if defined(XAT_UF_STRLEN) && !defined(VERIF_NATIVE)
/*
 * libc strlen under the verifier: an uninterpreted pure function of the pointer, at most 255 (names of
 * extended attributes are at most 255 bytes: e_name_len is an 8-bit field).  Nothing is dereferenced, so the
 * array elements may carry arbitrary name pointers (needed for arrays of symbolic length).
 */
size_t strlen(const char *s)
{
	size_t n = __CPROVER_uninterpreted_xspec_strlen(s);
	__CPROVER_assume(n <= XSPEC_NAME_MAX);
	return n;
}
#endif

#if defined(XAT_UF_MEMCMP) && !defined(VERIF_NATIVE)
/* libc memcmp under the verifier: an uninterpreted pure function of (p, q, n); nothing is dereferenced */
int memcmp(const void *a, const void *b, size_t n)
{
	return __CPROVER_uninterpreted_xspec_memcmp(a, b, n);
}
#endif

#ifdef VERIF_NATIVE
#define XAT_FREES(...)
#else
#define XAT_FREES(...) __CPROVER_frees(__VA_ARGS__)
#endif
