/* VERIF-UNIT
{
 "name": "test_root",
 "props": ["C07", "C20"],
 "level": "U/k",
 "tier": "quick",
 "harness": "h_test_root",
 "enforce": ["test_root"],
 "unwind": 22,
 "unwind_reason": "a is 32 bits and b >= 3, so at most 21 divisions; --unwinding-assertions makes the bound complete",
 "functions": ["lib/ext2fs/closefs.c:test_root"],
 "native": true
}
*/
/* VERIF-UNIT
{
 "name": "bg_has_super",
 "props": ["C07", "C20"],
 "level": "U",
 "tier": "quick",
 "harness": "h_bg_has_super",
 "enforce": ["ext2fs_bg_has_super"],
 "replace": ["test_root"],
 "functions": ["lib/ext2fs/closefs.c:ext2fs_bg_has_super"],
 "native": true
}
*/
#include "verif.h"
#include "spec_pow.h"

struct in_s {
	unsigned int a, b;
	unsigned int group;
	unsigned int feature_compat, feature_ro_compat;
	unsigned int backup_bgs[2];
};
struct in_s IN;
#include "verif_in.h"

/* contract on a forward declaration; merged with the real definition below */
static int test_root(unsigned int a, unsigned int b)
	REQUIRES(b == 3 || b == 5 || b == 7)
	ENSURES((RET != 0) == (spec_is_pow(a, b) != 0))
	ENSURES(RET == 0 || RET == 1)
	ASSIGNS();

#include "lib/ext2fs/closefs.c"

int ext2fs_bg_has_super(ext2_filsys fs, dgrp_t group)
	ENSURES((RET != 0) == (spec_bg_has_super(group, fs->super->s_feature_compat, fs->super->s_feature_ro_compat, fs->super->s_backup_bgs[0], fs->super->s_backup_bgs[1]) != 0))
	ASSIGNS();

void h_test_root(void)
{
	LOAD_IN();
	ASSUME(IN.b == 3 || IN.b == 5 || IN.b == 7);
	int r = test_root(IN.a, IN.b);
	CHECK((r != 0) == (spec_is_pow(IN.a, IN.b) != 0), "test_root is exactly 'a is a positive power of b'");
	REACH("end");
}

void h_bg_has_super(void)
{
	LOAD_IN();
	struct struct_ext2_filsys *fs = malloc(sizeof(*fs));
	struct ext2_super_block *sb = malloc(sizeof(*sb));
	ASSUME(fs && sb);
	memset(sb, 0, sizeof(*sb));
	memset(fs, 0, sizeof(*fs));
	fs->super = sb;
	sb->s_feature_compat = IN.feature_compat;
	sb->s_feature_ro_compat = IN.feature_ro_compat;
	sb->s_backup_bgs[0] = IN.backup_bgs[0];
	sb->s_backup_bgs[1] = IN.backup_bgs[1];
	int r = ext2fs_bg_has_super(fs, IN.group);
	CHECK((r != 0) == (spec_bg_has_super(IN.group, IN.feature_compat, IN.feature_ro_compat, IN.backup_bgs[0], IN.backup_bgs[1]) != 0),
	      "backup groups are exactly 0, 1, powers of 3/5/7 (or the two sparse_super2 groups)");
	REACH("end");
}
