/*
 * C14, CRC primitives: LEMMA LIN2 -- the zero-byte step of the bitwise CRC definition (eight shift/xor steps of
 * specs/crc_spec.h, seen in the memory domain of specs/crc_lemmas.h) is linear over xor:
 *      CRC_Z(u ^ v) == CRC_Z(u) ^ CRC_Z(v)      for all 32-bit u, v.
 * Pure mathematics of the shift register: no table and no repository function is involved (crc32c.c is included
 * only because crc_lemmas.h names its tables), hence there is no repository mutant this unit could catch; its
 * sanity check was a mutated SPECIFICATION: the same contract over a bit step that xors the polynomial in on the
 * wrong polarity of the bit shifted out (affine, not linear) fails its postcondition.
 * Used (by contract replacement, at 34 instances) by the proof script of LEMMA E in lemma_e.c.
 * Back end: the query is a pure XOR-equivalence over 64 input bits; kissat decides it in ~1 s, CaDiCaL in ~5 s,
 * MiniSat needs about a minute.
 */
/* VERIF-UNIT
{
 "name": "crc32c_lemma_lin2",
 "props": ["C14"],
 "level": "U",
 "tier": "quick",
 "harness": "h_lemma_lin2",
 "enforce": ["crc32c_lemma_lin2"],
 "backend": "kissat",
 "functions": [],
 "assumes": [],
 "timeout": 300,
 "native": true
}
*/
/* VERIF-UNIT
{
 "name": "crc32be_lemma_lin2",
 "props": ["C14"],
 "level": "U",
 "tier": "quick",
 "harness": "h_lemma_lin2",
 "enforce": ["crc32be_lemma_lin2"],
 "defines": ["CRC_VARIANT_BE"],
 "backend": "kissat",
 "functions": [],
 "assumes": [],
 "timeout": 300,
 "native": true
}
*/
#include "verif.h"
#include <stdint.h>
#include <stddef.h>

struct in_s {
	uint32_t u, v;
};
struct in_s IN;
#include "verif_in.h"

#include "lib/ext2fs/crc32c.c"
#include "crc_lemmas.h"

/* a lemma function has no effect; its contract (crc_lemmas.h) is what is proved */
void CRC_FN(lemma_lin2)(uint32_t u, uint32_t v)
{
	(void)u; (void)v;
}

void h_lemma_lin2(void)
{
	LOAD_IN();
	CRC_FN(lemma_lin2)(IN.u, IN.v);
	CHECK(CRC_Z(IN.u ^ IN.v) == (CRC_Z(IN.u) ^ CRC_Z(IN.v)), "the zero-byte step of the bitwise definition is linear over xor");
	REACH("end");
}
