/*
 * C14, CRC primitives: LEMMA E -- for every 32-bit state m and every eight message bytes (two little-endian words
 * w0, w1), ONE slice-by-8 step over the generated tables equals EIGHT byte steps of the bitwise definition:
 *
 *      CRC_SLICE8(m, w0, w1) == crc32{c,be}_bytes8(m, w0, w1)            (contract of crc32{c,be}_lemma_e,
 *                                                                         specs/crc_lemmas.h: the function returns
 *                                                                         the right-hand side and ensures the equation)
 *
 * The direct query (96 input bits through eight 256-entry tables against 64 shift/xor steps) finishes on no back
 * end.  It is discharged by a PROOF SCRIPT, the body of the lemma function below.
 *
 * Mathematics.  Z := CRC_Z (zero-byte step, 8 bit steps) is linear over xor (LEMMA LIN2).  Feeding byte b is
 * s' = Z(s ^ b).  Split q = m ^ w0 into its four byte lanes ql_k = q & (0xff << 8k), and m into cl_k likewise.
 *   steps j = 0..3:  s_j ^ b_j == xor of 4 one-lane terms  (lanes k <  j: Z^j(ql_k); lane j: Z^j(cl_j) ^ b_j which
 *                    is Z^j(ql_j) because Z^j only shifts lane j down to lane 0 [MERGE]; lanes k > j: Z^j(cl_k)),
 *                    so s_{j+1} = Z(that) == xor of Z(term)                     [4-term linearity = 3 x LIN2];
 *   steps j = 4..7:  s_j ^ b_j == Z^j(ql_0..3) ^ Z^(j-4)(b_4) ^ .. ^ b_j, s_{j+1} == xor of Z(term)
 *                                                                   [(j+1)-term linearity = j x LIN2];
 *   end:             s_8 == Z^8(ql_0) ^ Z^8(ql_1) ^ Z^8(ql_2) ^ Z^8(ql_3) ^ Z^4(b_4) ^ Z^3(b_5) ^ Z^2(b_6) ^ Z(b_7)
 *                    and each of these eight one-byte functions is a table entry:  Z^8(ql_k) == T[7-k][byte k of q],
 *                    Z^(8-i)(b_i) == T[7-i][b_i]  [TAB, 8 input bits each] -- which is CRC_SLICE8 term by term.
 *
 * Script discipline.  Every term is computed ONCE into a script variable.  CUT(cond) = assert cond, then assume it
 * (assert-then-assume): a cut is proved under the cuts that precede it in program order and may be used by
 * those that follow.  All cuts in one SAT query do not finish (the disjunction of all goals defeats the solvers),
 * single cuts take 1..40 s, therefore the script is checked by FIVE units per variant; unit g (-DVERIF_CUT_GROUP=g)
 * asserts the cuts of group g and only assumes the others:
 *      group 1: MERGE_j, SUM_j, STEP_j (j = 0..3)                                                 [kissat]
 *      group 2: SUM_j, STEP_j (j = 4, 5)        group 3: SUM_j, STEP_j (j = 6, 7)                  [kissat]
 *      group 4: TAB7..TAB0 (real generated tables, 8 input bits each) and COMPOSE                  [kissat]
 *      group 5: no cut; enforces the CONTRACT of crc32{c,be}_lemma_e (specs/crc_lemmas.h), whose body is the
 *               script: the postcondition evaluates CRC_SLICE8 and crc32{c,be}_bytes8 afresh from the arguments,
 *               so the step from COMPOSE to it is "equal arguments give equal table look-ups / equal byte steps"
 *               (a congruence argument: 4 s on cvc5 or z3, no SAT back end finishes it)            [cvc5]
 * Units 1-4 run the script as a plain ghost function (harness h_lemma_e_script), unit 5 under contract enforcement.
 *
 * WHAT IS TRUSTED (the chaining), exactly:
 *  (a) sequencing of cuts: cut n is assumed in unit g' != group(n) only at the program point where unit group(n)
 *      asserts it, i.e. after the same preceding cuts and lemma instances.  By induction on program order every cut
 *      holds on every execution, so assuming it is conservative.  The file is the same in all five units, only the
 *      macro VERIF_CUT_GROUP differs; VERIF_CUT_GROUP=0 (default, not registered as a unit) asserts everything;
 *  (b) LEMMA LIN2 is used through --replace-call-with-contract at 34 call instances; it is enforced for all
 *      arguments by crc/crc32c_lemma_lin2 resp. crc/crc32be_lemma_lin2 (ordinary callee-contract reasoning);
 *  (c) nothing else: the table facts TAB* are cuts proved here on the real generated tables; no fact about the
 *      tables or the polynomial is assumed.
 */
/* VERIF-UNIT
{
 "name": "crc32c_lemma_e_1",
 "props": ["C14"],
 "level": "U",
 "tier": "quick",
 "harness": "h_lemma_e_script",
 "replace": ["crc32c_lemma_lin2"],
 "defines": ["VERIF_CUT_GROUP=1"],
 "backend": "kissat",
 "unwind": 10,
 "unwind_reason": "ghost proof script only: loops over the 4 lanes, the 8 byte steps and at most 8 xor terms, all constant bounds <= 9; unwinding assertions on",
 "cbmc_flags": ["--object-bits", "12"],
 "functions": [],
 "assumes": ["cuts of groups 2, 3, 4 are assumed at their program points; each is asserted by crc/crc32c_lemma_e_2, _3, _4 under the same preceding cuts (assert-then-assume sequencing, see the comment at the top of lemma_e.c)",
             "LEMMA LIN2 instances by contract replacement; enforced by crc/crc32c_lemma_lin2"],
 "timeout": 400,
 "native": false
}
*/
/* VERIF-UNIT
{
 "name": "crc32c_lemma_e_2",
 "props": ["C14"],
 "level": "U",
 "tier": "quick",
 "harness": "h_lemma_e_script",
 "replace": ["crc32c_lemma_lin2"],
 "defines": ["VERIF_CUT_GROUP=2"],
 "backend": "kissat",
 "unwind": 10,
 "unwind_reason": "ghost proof script only: loops over the 4 lanes, the 8 byte steps and at most 8 xor terms, all constant bounds <= 9; unwinding assertions on",
 "cbmc_flags": ["--object-bits", "12"],
 "functions": [],
 "assumes": ["cuts of groups 1, 3, 4 are assumed at their program points; each is asserted by crc/crc32c_lemma_e_1, _3, _4 under the same preceding cuts (assert-then-assume sequencing, see the comment at the top of lemma_e.c)",
             "LEMMA LIN2 instances by contract replacement; enforced by crc/crc32c_lemma_lin2"],
 "timeout": 400,
 "native": false
}
*/
/* VERIF-UNIT
{
 "name": "crc32c_lemma_e_3",
 "props": ["C14"],
 "level": "U",
 "tier": "quick",
 "harness": "h_lemma_e_script",
 "replace": ["crc32c_lemma_lin2"],
 "defines": ["VERIF_CUT_GROUP=3"],
 "backend": "kissat",
 "unwind": 10,
 "unwind_reason": "ghost proof script only: loops over the 4 lanes, the 8 byte steps and at most 8 xor terms, all constant bounds <= 9; unwinding assertions on",
 "cbmc_flags": ["--object-bits", "12"],
 "functions": [],
 "assumes": ["cuts of groups 1, 2, 4 are assumed at their program points; each is asserted by crc/crc32c_lemma_e_1, _2, _4 under the same preceding cuts (assert-then-assume sequencing, see the comment at the top of lemma_e.c)",
             "LEMMA LIN2 instances by contract replacement; enforced by crc/crc32c_lemma_lin2"],
 "timeout": 400,
 "native": false
}
*/
/* VERIF-UNIT
{
 "name": "crc32c_lemma_e_4",
 "props": ["C14"],
 "level": "U",
 "tier": "quick",
 "harness": "h_lemma_e_script",
 "replace": ["crc32c_lemma_lin2"],
 "defines": ["VERIF_CUT_GROUP=4"],
 "backend": "kissat",
 "unwind": 10,
 "unwind_reason": "ghost proof script only: loops over the 4 lanes, the 8 byte steps and at most 8 xor terms, all constant bounds <= 9; unwinding assertions on",
 "cbmc_flags": ["--object-bits", "12"],
 "functions": ["lib/ext2fs/gen_crc32ctable.c:crc32cinit_le"],
 "assumes": ["cuts of groups 1, 2, 3 are assumed at their program points; each is asserted by crc/crc32c_lemma_e_1, _2, _3 under the same preceding cuts (assert-then-assume sequencing, see the comment at the top of lemma_e.c)",
             "LEMMA LIN2 instances by contract replacement; enforced by crc/crc32c_lemma_lin2",
             "little-endian host configuration (tole(x) = x), CRC_LE_BITS = 64 as built"],
 "timeout": 400,
 "native": false
}
*/
/* VERIF-UNIT
{
 "name": "crc32c_lemma_e_5",
 "props": ["C14"],
 "level": "U",
 "tier": "quick",
 "harness": "h_lemma_e",
 "enforce": ["crc32c_lemma_e"],
 "replace": ["crc32c_lemma_lin2"],
 "defines": ["VERIF_CUT_GROUP=5"],
 "backend": "cvc5",
 "unwind": 10,
 "unwind_reason": "ghost proof script only: loops over the 4 lanes, the 8 byte steps and at most 8 xor terms, all constant bounds <= 9; unwinding assertions on",
 "cbmc_flags": ["--object-bits", "12"],
 "functions": [],
 "assumes": ["every cut of the script (groups 1-4) is assumed at its program point; each is asserted by crc/crc32c_lemma_e_1 .. _4 under the same preceding cuts (assert-then-assume sequencing, see the comment at the top of lemma_e.c); this unit proves the step from the last cut COMPOSE to the contract of crc32c_lemma_e, whose postcondition re-evaluates the formula and the eight byte steps from the arguments (a congruence argument: SMT back end)",
             "LEMMA LIN2 instances by contract replacement; enforced by crc/crc32c_lemma_lin2",
             "little-endian host configuration (tole(x) = x), CRC_LE_BITS = 64 as built"],
 "timeout": 400,
 "native": false
}
*/
/* VERIF-UNIT
{
 "name": "crc32be_lemma_e_1",
 "props": ["C14"],
 "level": "U",
 "tier": "quick",
 "harness": "h_lemma_e_script",
 "replace": ["crc32be_lemma_lin2"],
 "defines": ["CRC_VARIANT_BE", "VERIF_CUT_GROUP=1"],
 "backend": "kissat",
 "unwind": 10,
 "unwind_reason": "ghost proof script only: loops over the 4 lanes, the 8 byte steps and at most 8 xor terms, all constant bounds <= 9; unwinding assertions on",
 "cbmc_flags": ["--object-bits", "12"],
 "functions": [],
 "assumes": ["cuts of groups 2, 3, 4 are assumed at their program points; each is asserted by crc/crc32be_lemma_e_2, _3, _4 under the same preceding cuts (assert-then-assume sequencing, see the comment at the top of lemma_e.c)",
             "LEMMA LIN2 instances by contract replacement; enforced by crc/crc32be_lemma_lin2"],
 "timeout": 400,
 "native": false
}
*/
/* VERIF-UNIT
{
 "name": "crc32be_lemma_e_2",
 "props": ["C14"],
 "level": "U",
 "tier": "quick",
 "harness": "h_lemma_e_script",
 "replace": ["crc32be_lemma_lin2"],
 "defines": ["CRC_VARIANT_BE", "VERIF_CUT_GROUP=2"],
 "backend": "kissat",
 "unwind": 10,
 "unwind_reason": "ghost proof script only: loops over the 4 lanes, the 8 byte steps and at most 8 xor terms, all constant bounds <= 9; unwinding assertions on",
 "cbmc_flags": ["--object-bits", "12"],
 "functions": [],
 "assumes": ["cuts of groups 1, 3, 4 are assumed at their program points; each is asserted by crc/crc32be_lemma_e_1, _3, _4 under the same preceding cuts (assert-then-assume sequencing, see the comment at the top of lemma_e.c)",
             "LEMMA LIN2 instances by contract replacement; enforced by crc/crc32be_lemma_lin2"],
 "timeout": 400,
 "native": false
}
*/
/* VERIF-UNIT
{
 "name": "crc32be_lemma_e_3",
 "props": ["C14"],
 "level": "U",
 "tier": "quick",
 "harness": "h_lemma_e_script",
 "replace": ["crc32be_lemma_lin2"],
 "defines": ["CRC_VARIANT_BE", "VERIF_CUT_GROUP=3"],
 "backend": "kissat",
 "unwind": 10,
 "unwind_reason": "ghost proof script only: loops over the 4 lanes, the 8 byte steps and at most 8 xor terms, all constant bounds <= 9; unwinding assertions on",
 "cbmc_flags": ["--object-bits", "12"],
 "functions": [],
 "assumes": ["cuts of groups 1, 2, 4 are assumed at their program points; each is asserted by crc/crc32be_lemma_e_1, _2, _4 under the same preceding cuts (assert-then-assume sequencing, see the comment at the top of lemma_e.c)",
             "LEMMA LIN2 instances by contract replacement; enforced by crc/crc32be_lemma_lin2"],
 "timeout": 400,
 "native": false
}
*/
/* VERIF-UNIT
{
 "name": "crc32be_lemma_e_4",
 "props": ["C14"],
 "level": "U",
 "tier": "quick",
 "harness": "h_lemma_e_script",
 "replace": ["crc32be_lemma_lin2"],
 "defines": ["CRC_VARIANT_BE", "VERIF_CUT_GROUP=4"],
 "backend": "kissat",
 "unwind": 10,
 "unwind_reason": "ghost proof script only: loops over the 4 lanes, the 8 byte steps and at most 8 xor terms, all constant bounds <= 9; unwinding assertions on",
 "cbmc_flags": ["--object-bits", "12"],
 "functions": ["lib/ext2fs/gen_crc32ctable.c:crc32init_be"],
 "assumes": ["cuts of groups 1, 2, 3 are assumed at their program points; each is asserted by crc/crc32be_lemma_e_1, _2, _3 under the same preceding cuts (assert-then-assume sequencing, see the comment at the top of lemma_e.c)",
             "LEMMA LIN2 instances by contract replacement; enforced by crc/crc32be_lemma_lin2",
             "little-endian host configuration (tobe(x) = swab32(x)), CRC_BE_BITS = 64 as built"],
 "timeout": 400,
 "native": false
}
*/
/* VERIF-UNIT
{
 "name": "crc32be_lemma_e_5",
 "props": ["C14"],
 "level": "U",
 "tier": "quick",
 "harness": "h_lemma_e",
 "enforce": ["crc32be_lemma_e"],
 "replace": ["crc32be_lemma_lin2"],
 "defines": ["CRC_VARIANT_BE", "VERIF_CUT_GROUP=5"],
 "backend": "cvc5",
 "unwind": 10,
 "unwind_reason": "ghost proof script only: loops over the 4 lanes, the 8 byte steps and at most 8 xor terms, all constant bounds <= 9; unwinding assertions on",
 "cbmc_flags": ["--object-bits", "12"],
 "functions": [],
 "assumes": ["every cut of the script (groups 1-4) is assumed at its program point; each is asserted by crc/crc32be_lemma_e_1 .. _4 under the same preceding cuts (assert-then-assume sequencing, see the comment at the top of lemma_e.c); this unit proves the step from the last cut COMPOSE to the contract of crc32be_lemma_e, whose postcondition re-evaluates the formula and the eight byte steps from the arguments (a congruence argument: SMT back end)",
             "LEMMA LIN2 instances by contract replacement; enforced by crc/crc32be_lemma_lin2",
             "little-endian host configuration (tobe(x) = swab32(x)), CRC_BE_BITS = 64 as built"],
 "timeout": 400,
 "native": false
}
*/
#include "verif.h"
#include <stdint.h>
#include <stddef.h>

struct in_s {
	uint32_t m, w0, w1;
};
struct in_s IN;
#include "verif_in.h"

#include "lib/ext2fs/crc32c.c"
#include "crc_lemmas.h"

#ifndef VERIF_CUT_GROUP
#define VERIF_CUT_GROUP 0	/* assert every cut in one run (documentation; too slow as one query) */
#endif
#ifdef VERIF_NATIVE
#define CUT_DO(c, name) CHECK(c, name)
#define CUT_SKIP(c) ((void)0)
#else
#define CUT_DO(c, name) do { CHECK(c, name); ASSUME(c); } while (0)
#define CUT_SKIP(c) ASSUME(c)
#endif
#if VERIF_CUT_GROUP == 0 || VERIF_CUT_GROUP == 1
#define CUT1(c, name) CUT_DO(c, name)
#else
#define CUT1(c, name) CUT_SKIP(c)
#endif
#if VERIF_CUT_GROUP == 0 || VERIF_CUT_GROUP == 2
#define CUT2(c, name) CUT_DO(c, name)
#else
#define CUT2(c, name) CUT_SKIP(c)
#endif
#if VERIF_CUT_GROUP == 0 || VERIF_CUT_GROUP == 3
#define CUT3(c, name) CUT_DO(c, name)
#else
#define CUT3(c, name) CUT_SKIP(c)
#endif
#if VERIF_CUT_GROUP == 0 || VERIF_CUT_GROUP == 4
#define CUT4(c, name) CUT_DO(c, name)
#else
#define CUT4(c, name) CUT_SKIP(c)
#endif

#define Z(x) CRC_Z(x)
#define LIN2(u, v) CRC_FN(lemma_lin2)(u, v)	/* replaced by its contract: assumes Z(u ^ v) == Z(u) ^ Z(v) */

static void CRC_FN(lemma_e_script)(uint32_t m, uint32_t w0, uint32_t w1)
{
	uint32_t b[8], s[9];
	uint32_t ZL[4][9];	/* ZL[k][j] = Z^j(lane k of q), q = m ^ w0 */
	uint32_t ZC[4][5];	/* ZC[k][j] = Z^j(lane k of m), needed for j <= k + 1 */
	uint32_t ZX[8][6];	/* ZX[i][d] = Z^d(b_i), i = 4..7, d <= 8 - i */
	uint32_t q = m ^ w0;
	int i, j, k, d, n;

	for (i = 0; i < 4; i++) {
		b[i] = (w0 >> (8 * i)) & 255;
		b[i + 4] = (w1 >> (8 * i)) & 255;
	}
	/* the bitwise definition, byte by byte: s[8] is crc32{c,be}_bytes8(m, w0, w1) */
	s[0] = m;
	for (j = 0; j < 8; j++)
		s[j + 1] = Z(s[j] ^ b[j]);

	for (k = 0; k < 4; k++) {
		ZL[k][0] = q & (0xffu << (8 * k));
		ZC[k][0] = m & (0xffu << (8 * k));
		for (j = 1; j <= 8; j++)
			ZL[k][j] = Z(ZL[k][j - 1]);
		for (j = 1; j <= 4; j++)
			ZC[k][j] = Z(ZC[k][j - 1]);
	}
	for (i = 4; i < 8; i++) {
		ZX[i][0] = b[i];
		for (d = 1; d <= 8 - i; d++)
			ZX[i][d] = Z(ZX[i][d - 1]);
	}

	/* bytes 0..3: byte j merges into lane j of the state; always four one-lane terms */
	for (j = 0; j < 4; j++) {
		uint32_t t[4], zt[4], P[4], ZP[4];

		for (k = 0; k < 4; k++) {
			t[k] = k <= j ? ZL[k][j] : ZC[k][j];
			zt[k] = k <= j ? ZL[k][j + 1] : ZC[k][j + 1];
		}
		CUT1((ZC[j][j] ^ b[j]) == ZL[j][j], "MERGE_j: j zero-byte steps only shift lane j down to lane 0, where byte j is xor-ed in");
		CUT1((s[j] ^ b[j]) == (t[0] ^ t[1] ^ t[2] ^ t[3]), "SUM_j (j < 4): state ^ byte = xor of the four one-lane terms");
		P[3] = t[3]; ZP[3] = zt[3];
		for (i = 2; i >= 0; i--) {
			P[i] = t[i] ^ P[i + 1];
			LIN2(t[i], P[i + 1]);
			ZP[i] = zt[i] ^ ZP[i + 1];
		}
		CUT1(s[j + 1] == ZP[0], "STEP_j (j < 4): next state = xor of Z(term), by three LIN2 instances");
	}
	/* bytes 4..7: byte j is a new term */
	for (j = 4; j < 8; j++) {
		uint32_t t[8], zt[8], P[8], ZP[8], acc = 0;

		n = 0;
		for (k = 0; k < 4; k++) {
			t[n] = ZL[k][j]; zt[n] = ZL[k][j + 1]; n++;
		}
		for (i = 4; i <= j; i++) {
			t[n] = ZX[i][j - i]; zt[n] = ZX[i][j - i + 1]; n++;
		}
		for (i = 0; i < n; i++)
			acc ^= t[i];
		if (j < 6)
			CUT2((s[j] ^ b[j]) == acc, "SUM_4, SUM_5: state ^ byte = xor of the j + 1 one-byte terms");
		else
			CUT3((s[j] ^ b[j]) == acc, "SUM_6, SUM_7: state ^ byte = xor of the j + 1 one-byte terms");
		P[n - 1] = t[n - 1]; ZP[n - 1] = zt[n - 1];
		for (i = n - 2; i >= 0; i--) {
			P[i] = t[i] ^ P[i + 1];
			LIN2(t[i], P[i + 1]);
			ZP[i] = zt[i] ^ ZP[i + 1];
		}
		if (j < 6)
			CUT2(s[j + 1] == ZP[0], "STEP_4, STEP_5: next state = xor of Z(term), by j LIN2 instances");
		else
			CUT3(s[j + 1] == ZP[0], "STEP_6, STEP_7: next state = xor of Z(term), by j LIN2 instances");
	}
	/* the eight one-byte functions are the table entries the formula looks up (8 input bits each) */
	CUT4(ZL[0][8] == CRC_SL7(m, w0), "TAB7: Z^8(lane 0 of q) = T[7][q byte 0]");
	CUT4(ZL[1][8] == CRC_SL6(m, w0), "TAB6: Z^8(lane 1 of q) = T[6][q byte 1]");
	CUT4(ZL[2][8] == CRC_SL5(m, w0), "TAB5: Z^8(lane 2 of q) = T[5][q byte 2]");
	CUT4(ZL[3][8] == CRC_SL4(m, w0), "TAB4: Z^8(lane 3 of q) = T[4][q byte 3]");
	CUT4(ZX[4][4] == CRC_SL3(w1), "TAB3: Z^4(byte 4) = T[3][byte 4]");
	CUT4(ZX[5][3] == CRC_SL2(w1), "TAB2: Z^3(byte 5) = T[2][byte 5]");
	CUT4(ZX[6][2] == CRC_SL1(w1), "TAB1: Z^2(byte 6) = T[1][byte 6]");
	CUT4(ZX[7][1] == CRC_SL0(w1), "TAB0: Z(byte 7) = T[0][byte 7]");
	CUT4(s[8] == CRC_SLICE8(m, w0, w1), "COMPOSE: eight byte steps = the slice-by-8 formula");
}

/* LEMMA E as a lemma function: the script is its proof (unit group 5 enforces the contract of crc_lemmas.h) */
uint32_t CRC_FN(lemma_e)(uint32_t m, uint32_t w0, uint32_t w1)
{
	CRC_FN(lemma_e_script)(m, w0, w1);
	return CRC_FN(bytes8)(m, w0, w1);
}

void h_lemma_e_script(void)
{
	LOAD_IN();
	CRC_FN(lemma_e_script)(IN.m, IN.w0, IN.w1);
	REACH("end");
}

void h_lemma_e(void)
{
	LOAD_IN();
	uint32_t r = CRC_FN(lemma_e)(IN.m, IN.w0, IN.w1);
	CHECK(r == CRC_FN(bytes8)(IN.m, IN.w0, IN.w1), "the lemma function returns the bitwise definition's state after the eight bytes");
	CHECK(CRC_SLICE8(IN.m, IN.w0, IN.w1) == CRC_FN(bytes8)(IN.m, IN.w0, IN.w1), "LEMMA E: one slice-by-8 table step = eight bitwise byte steps");
	REACH("end");
}
