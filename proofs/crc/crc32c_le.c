/*
 * C14: "The CRC primitives equal their mathematical definitions for every buffer length and alignment."
 *
 * ext2fs_crc32c_le (real crc32c.c, slice-by-8 crc32_body inlined) against the BITWISE definition of
 * CRC-32C (reflected polynomial 0x82F63B78: for each byte, xor it into the low byte, then 8 times
 * shift right and xor the polynomial when the bit shifted out was 1).
 *
 * Ghost fold: verif_g0 = bitwise CRC of the bytes consumed so far, verif_g1 = number of bytes consumed,
 * verif_p0 = start of the caller's buffer, verif_g2 = its length.  The three loops of crc32_body carry
 * named-anchor loop contracts (VERIF_INV_CRC32_BODY_*), the ghost fold is advanced by VERIF_GHOST hooks.
 *
 * The fold's 8-byte step is the slice-by-8 formula; LEMMA E (one slice-by-8 table step == eight bitwise byte
 * steps) is discharged separately by crc/crc32c_lemma_e_1..5 (proofs/crc/lemma_e.c).
 */
/* VERIF-UNIT
{
 "name": "crc32c_le",
 "props": ["C14"],
 "level": "U",
 "tier": "quick",
 "harness": "h_crc32c_le",
 "enforce": ["ext2fs_crc32c_le"],
 "loop_contracts": true,
 "no_cross_check": true,
 "functions": ["lib/ext2fs/crc32c.c:ext2fs_crc32c_le", "lib/ext2fs/crc32c.c:crc32_le_generic", "lib/ext2fs/crc32c.c:crc32_body"],
 "assumes": ["the ghost fold's 8-byte step is the slice-by-8 formula CRC_SLICE8 (specs/crc_lemmas.h) over the generated tables; LEMMA E (that formula == eight bitwise byte steps, for every state and every eight bytes) is NOT re-proved inside this unit: it is fully discharged by crc/crc32c_lemma_e_1..5 together with crc/crc32c_lemma_lin2 on the same macro text. What remains outside the checker for THIS unit is one substitution of equals (rewriting the fold's 8-byte step by LEMMA E); the thorough unit crc/crc32c_le_def closes that step too by advancing the fold with the lemma function under contract replacement",
             "buffer length < 2^32 (object-size cap); start alignment 0..7 enumerated through an offset into the allocation",
             "little-endian host configuration as built (WORDS_BIGENDIAN undefined, CRC_LE_BITS = 64)",
             "back end: MiniSat only (about 120-140 s); CaDiCaL does not finish this query in 600 s, so the thorough tier's second-solver cross-check is switched off for this unit"],
 "timeout": 600,
 "native": true
}
*/
#include "verif.h"
#include <stdint.h>
#include <stddef.h>
#include <stdlib.h>

struct in_s {
	uint32_t seed;
	unsigned long long len;
	unsigned char misalign;
	unsigned char bytes[64];	/* native replay: buffer content (repeated) */
};
struct in_s IN;
#include "verif_in.h"

unsigned long long verif_g0, verif_g1, verif_g2, verif_g6, verif_g7;
const unsigned char *verif_p0;

#define POLY 0x82F63B78u
#define BITSTEP(x) ((x) = ((x) >> 1) ^ (((x) & 1) ? POLY : 0))

static void verif_ghost_byte(void);
static void verif_ghost_words(void);

#ifndef VERIF_NATIVE
#define VERIF_GHOST_CRC32_BODY_BYTE verif_ghost_byte()
#define VERIF_GHOST_CRC32_BODY_WORDS verif_ghost_words()
#define VERIF_INV_CRC32_BODY_ALIGN \
	__CPROVER_assigns(crc, buf, len, verif_g0, verif_g1, verif_g7) \
	__CPROVER_loop_invariant(len >= 1 && verif_g1 < verif_g2 && len == verif_g2 - verif_g1 && \
				 buf == verif_p0 + verif_g1 && crc == (uint32_t)verif_g0 && verif_g0 <= 0xffffffffULL) \
	__CPROVER_decreases(len)
#define VERIF_INV_CRC32_BODY_WORDS \
	__CPROVER_assigns(b, len, q, crc, verif_g0, verif_g1, verif_g6, verif_g7) \
	__CPROVER_loop_invariant(verif_g1 <= verif_g2 && len * 8 + rem_len == verif_g2 - verif_g1 && rem_len < 8 && \
				 len <= (verif_g2 >> 3) && \
				 (const unsigned char *)(b + 1) == verif_p0 + verif_g1 && crc == (uint32_t)verif_g0 && verif_g0 <= 0xffffffffULL) \
	__CPROVER_decreases(len)
#define VERIF_INV_CRC32_BODY_TAIL \
	__CPROVER_assigns(p, len, crc, verif_g0, verif_g1, verif_g7) \
	__CPROVER_loop_invariant(len >= 1 && len < 8 && verif_g1 < verif_g2 && len == verif_g2 - verif_g1 && \
				 p + 1 == verif_p0 + verif_g1 && crc == (uint32_t)verif_g0 && verif_g0 <= 0xffffffffULL) \
	__CPROVER_decreases(len)
#endif

uint32_t ext2fs_crc32c_le(uint32_t crc, unsigned char const *p, size_t len)
	REQUIRES(verif_p0 == p && verif_g2 == len && verif_g0 == crc && verif_g1 == 0)
	ENSURES(RET == (uint32_t)verif_g0 && verif_g1 == verif_g2)
	ASSIGNS(verif_g0, verif_g1, verif_g6, verif_g7);

#include "lib/ext2fs/crc32c.c"

/* ghost: consume one byte with the bitwise definition */
static void verif_ghost_byte(void)
{
	verif_g7 = (verif_g0 ^ verif_p0[verif_g1]) & 0xffffffffULL;
	BITSTEP(verif_g7); BITSTEP(verif_g7); BITSTEP(verif_g7); BITSTEP(verif_g7);
	BITSTEP(verif_g7); BITSTEP(verif_g7); BITSTEP(verif_g7); BITSTEP(verif_g7);
	verif_g0 = verif_g7;
	verif_g1 = verif_g1 + 1;
}

#include "crc_lemmas.h"
/*
 * ghost: consume eight bytes.  The fold advances by the slice-by-8 FORMULA CRC_SLICE8 of specs/crc_lemmas.h (written
 * from the algorithm's definition, Intel "slicing-by-8", over the generated tables).  LEMMA E -- proved for every
 * state and every eight bytes by the units crc/crc32c_lemma_e_1..5 (with crc/crc32c_lemma_lin2) on exactly this macro
 * text -- states that the formula equals eight applications of the bitwise byte step above, so the fold is the
 * bitwise CRC of the bytes consumed.  (Keeping the 64 bit-steps out of this query keeps it fast; the unit
 * crc/crc32c_le_def in crc32_fold.c advances the fold by the lemma function itself and needs no such remark.)
 */
static void verif_ghost_words(void)
{
#ifndef VERIF_NATIVE
	verif_g0 = CRC_SLICE8((uint32_t)verif_g0, SPEC_LE32(verif_p0 + verif_g1), SPEC_LE32(verif_p0 + verif_g1 + 4));
	verif_g1 = verif_g1 + 8;
#endif
}

void h_crc32c_le(void)
{
	LOAD_IN();
	ASSUME(IN.len < (1ULL << 32) && IN.misalign < 8);
	unsigned char *raw = malloc(IN.len + 8);
	ASSUME(raw != 0);
	unsigned char *buf = raw + IN.misalign;
#ifdef VERIF_NATIVE
	for (unsigned long long i = 0; i < IN.len; i++) buf[i] = IN.bytes[i & 63] + (unsigned char)(i >> 6);
	/* native oracle: bitwise definition */
	uint32_t c = IN.seed;
	for (unsigned long long i = 0; i < IN.len; i++) { c ^= buf[i]; for (int k = 0; k < 8; k++) BITSTEP(c); }
	verif_g0 = c;
#else
	verif_p0 = buf; verif_g2 = IN.len; verif_g0 = IN.seed; verif_g1 = 0;
#endif
	uint32_t r = ext2fs_crc32c_le(IN.seed, buf, IN.len);
	CHECK(r == (uint32_t)verif_g0, "crc32c_le equals the bitwise CRC-32C of exactly the len bytes in order");
#ifndef VERIF_NATIVE
	CHECK(verif_g1 == IN.len, "every byte consumed exactly once");
#endif
	REACH("end");
}
