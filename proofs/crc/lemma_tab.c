/*
 * C14, CRC primitives: the GENERATED tables (lib/ext2fs/crc32c_table.h, written by gen_crc32ctable.c at build time,
 * passed through tole()/tobe() in crc32c.c) against the bitwise definition of specs/crc_spec.h.
 * For ONE arbitrary index i (all 256 by the ghost-index argument, no enumeration by hand) and each row k = 0..7:
 *   (TABDEF) T[k][i] = the state after feeding byte i into a zero state and then k zero bytes
 *                    = CRC_Z^(k+1)(i)  in the memory domain of specs/crc_lemmas.h;
 *   (L2)     T[k+1][i] = (T[k][i] >> 8) ^ T[0][T[k][i] & 255]      -- the generator's recurrence, row by row;
 * and for ONE arbitrary 32-bit state x:
 *   (L3)     (x >> 8) ^ T[0][x & 255] = CRC_Z(x)                  -- the Sarwate table step IS eight bit steps;
 * BE variant additionally, in the true (unswapped) domain:
 *   (BE0)    swab32(T[0][i]) = eight MSB-first bit steps of (i << 24).
 * These facts are what the byte loops of crc32_body need (L3) and what LEMMA E bottoms out in (TABDEF).
 */
/* VERIF-UNIT
{
 "name": "crc32c_lemma_tab",
 "props": ["C14"],
 "level": "U",
 "tier": "quick",
 "harness": "h_lemma_tab",
 "functions": ["lib/ext2fs/gen_crc32ctable.c:crc32cinit_le"],
 "assumes": ["little-endian host configuration (tole(x) = x), CRC_LE_BITS = 64 as built"],
 "timeout": 300,
 "native": true
}
*/
/* VERIF-UNIT
{
 "name": "crc32be_lemma_tab",
 "props": ["C14"],
 "level": "U",
 "tier": "quick",
 "harness": "h_lemma_tab",
 "defines": ["CRC_VARIANT_BE"],
 "functions": ["lib/ext2fs/gen_crc32ctable.c:crc32init_be"],
 "assumes": ["little-endian host configuration (tobe(x) = swab32(x)), CRC_BE_BITS = 64 as built"],
 "timeout": 300,
 "native": true
}
*/
#include "verif.h"
#include <stdint.h>
#include <stddef.h>

struct in_s {
	uint32_t x;
	unsigned char i;
};
struct in_s IN;
#include "verif_in.h"

#include "lib/ext2fs/crc32c.c"
#include "crc_lemmas.h"

void h_lemma_tab(void)
{
	LOAD_IN();
	uint32_t i = IN.i;
	uint32_t z1 = CRC_Z(i), z2 = CRC_Z(z1), z3 = CRC_Z(z2), z4 = CRC_Z(z3);
	uint32_t z5 = CRC_Z(z4), z6 = CRC_Z(z5), z7 = CRC_Z(z6), z8 = CRC_Z(z7);
	CHECK(CRC_TBL[0][i] == z1, "T[0][i] = byte i through the bitwise definition");
	CHECK(CRC_TBL[1][i] == z2, "T[1][i] = byte i then 1 zero byte");
	CHECK(CRC_TBL[2][i] == z3, "T[2][i] = byte i then 2 zero bytes");
	CHECK(CRC_TBL[3][i] == z4, "T[3][i] = byte i then 3 zero bytes");
	CHECK(CRC_TBL[4][i] == z5, "T[4][i] = byte i then 4 zero bytes");
	CHECK(CRC_TBL[5][i] == z6, "T[5][i] = byte i then 5 zero bytes");
	CHECK(CRC_TBL[6][i] == z7, "T[6][i] = byte i then 6 zero bytes");
	CHECK(CRC_TBL[7][i] == z8, "T[7][i] = byte i then 7 zero bytes");
#define L2(k) CHECK(CRC_TBL[k + 1][i] == ((CRC_TBL[k][i] >> 8) ^ CRC_TBL[0][CRC_TBL[k][i] & 255]), "L2: row k+1 = one zero-byte table step of row k")
	L2(0); L2(1); L2(2); L2(3); L2(4); L2(5); L2(6);
	CHECK(((IN.x >> 8) ^ CRC_TBL[0][IN.x & 255]) == CRC_Z(IN.x), "L3: the Sarwate table step equals eight bit steps for every 32-bit state");
#ifdef CRC_VARIANT_BE
	CHECK(spec_swab32(CRC_TBL[0][i]) == spec_crc32be_8bits(i << 24), "BE0: unswapped row 0 = eight MSB-first bit steps of i << 24");
	CHECK(spec_swab32(CRC_Z(spec_swab32(IN.x) ^ i)) == spec_crc32be_byte(IN.x, IN.i), "memory-domain byte step = swab32 of the MSB-first byte step");
#endif
	REACH("end");
}
