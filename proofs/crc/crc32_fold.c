/*
 * C14: "The CRC primitives (crc32c, crc16, big-endian crc32) equal their mathematical definitions for every buffer
 * length and alignment."
 *
 * ext2fs_crc32c_le and ext2fs_crc32_be (real crc32c.c; both run the shared slice-by-8 crc32_body, inlined) against
 * the BITWISE definitions of specs/crc_spec.h, for every length (< 2^32) and every start alignment 0..7.
 *
 * Ghost fold (memory domain of specs/crc_lemmas.h: for CRC-32C the state itself, for the big-endian CRC the
 * byte-swapped state, because crc32_be_generic swaps the seed, runs crc32_body on tobe()-swapped tables and swaps
 * the result back):
 *   verif_g0 = memory-domain state of the bitwise definition after the bytes consumed so far,
 *   verif_g1 = number of bytes consumed, verif_p0 = start of the caller's buffer, verif_g2 = its length.
 * The three loops of crc32_body carry named-anchor loop contracts (VERIF_INV_CRC32_BODY_*); the fold is advanced by
 * the VERIF_GHOST hooks:
 *   byte loops:  one byte step of the bitwise definition (LE: spec_crc32c_byte; BE: swab32 of spec_crc32be_byte of
 *                the swab32-ed state);
 *   word loop:   the lemma function crc32{c,be}_lemma_e, REPLACED BY ITS CONTRACT: its value is the definition's
 *                state after the eight bytes and (LEMMA E) equals the slice-by-8 formula over the generated tables,
 *                which is what the loop-step obligation compares the code's DO_CRC8 / DO_CRC4 against.  LEMMA E is
 *                enforced by crc/crc32{c,be}_lemma_e_1..5.
 * Postcondition: result == fold after exactly len bytes, consumed in order (cursor == buffer + consumed is part of
 * every invariant).  The harness restates it in the true domain: r == CRC of the len bytes from the given seed.
 */
/* VERIF-UNIT
{
 "name": "crc32c_le_def",
 "props": ["C14"],
 "level": "U",
 "tier": "thorough",
 "no_cross_check": true,
 "harness": "h_crc32_fold",
 "enforce": ["ext2fs_crc32c_le"],
 "replace": ["crc32c_lemma_e"],
 "loop_contracts": true,
 "functions": ["lib/ext2fs/crc32c.c:ext2fs_crc32c_le", "lib/ext2fs/crc32c.c:crc32_le_generic", "lib/ext2fs/crc32c.c:crc32_body"],
 "assumes": ["LEMMA E by contract replacement of crc32c_lemma_e; enforced by crc/crc32c_lemma_e_1..5 (proof script in proofs/crc/lemma_e.c)",
             "buffer length < 2^32 (object-size cap); start alignment 0..7 enumerated through an offset into the allocation",
             "little-endian host configuration as built (WORDS_BIGENDIAN undefined, CRC_LE_BITS = 64)",
             "back end: MiniSat only (200-330 s); CaDiCaL and kissat do not finish this query in 600 s, so the thorough tier's second-solver cross-check is switched off for this unit"],
 "timeout": 900,
 "native": true
}
*/
/* VERIF-UNIT
{
 "name": "crc32_be",
 "props": ["C14"],
 "level": "U",
 "tier": "thorough",
 "no_cross_check": true,
 "harness": "h_crc32_fold",
 "enforce": ["ext2fs_crc32_be"],
 "replace": ["crc32be_lemma_e"],
 "defines": ["CRC_VARIANT_BE"],
 "loop_contracts": true,
 "functions": ["lib/ext2fs/crc32c.c:ext2fs_crc32_be", "lib/ext2fs/crc32c.c:crc32_be_generic", "lib/ext2fs/crc32c.c:crc32_body"],
 "assumes": ["LEMMA E (big-endian tables) by contract replacement of crc32be_lemma_e; enforced by crc/crc32be_lemma_e_1..5 (proof script in proofs/crc/lemma_e.c)",
             "buffer length < 2^32 (object-size cap); start alignment 0..7 enumerated through an offset into the allocation",
             "little-endian host configuration as built (WORDS_BIGENDIAN undefined, CRC_BE_BITS = 64): the state is byte-swapped around crc32_body",
             "back end: MiniSat only (about 330 s); CaDiCaL and kissat do not finish the sibling LE query in 600 s, so the thorough tier's second-solver cross-check is switched off for this unit"],
 "timeout": 900,
 "native": true
}
*/
#include "verif.h"
#include <stdint.h>
#include <stddef.h>
#include <stdlib.h>

struct in_s {
	uint32_t seed;
	unsigned long long len;
	unsigned char misalign;
	unsigned char bytes[64];	/* native replay: buffer content (repeated) */
};
struct in_s IN;
#include "verif_in.h"

unsigned long long verif_g0, verif_g1, verif_g2, verif_g6, verif_g7;
const unsigned char *verif_p0;

static void verif_ghost_byte(void);
static void verif_ghost_words(void);

#ifndef VERIF_NATIVE
#define VERIF_GHOST_CRC32_BODY_BYTE verif_ghost_byte()
#define VERIF_GHOST_CRC32_BODY_WORDS verif_ghost_words()
#define VERIF_INV_CRC32_BODY_ALIGN \
	__CPROVER_assigns(crc, buf, len, verif_g0, verif_g1, verif_g7) \
	__CPROVER_loop_invariant(len >= 1 && verif_g1 < verif_g2 && len == verif_g2 - verif_g1 && \
				 buf == verif_p0 + verif_g1 && crc == (uint32_t)verif_g0 && verif_g0 <= 0xffffffffULL) \
	__CPROVER_decreases(len)
#define VERIF_INV_CRC32_BODY_WORDS \
	__CPROVER_assigns(b, len, q, crc, verif_g0, verif_g1, verif_g6, verif_g7) \
	__CPROVER_loop_invariant(verif_g1 <= verif_g2 && len * 8 + rem_len == verif_g2 - verif_g1 && rem_len < 8 && \
				 len <= (verif_g2 >> 3) && \
				 (const unsigned char *)(b + 1) == verif_p0 + verif_g1 && crc == (uint32_t)verif_g0 && verif_g0 <= 0xffffffffULL) \
	__CPROVER_decreases(len)
#define VERIF_INV_CRC32_BODY_TAIL \
	__CPROVER_assigns(p, len, crc, verif_g0, verif_g1, verif_g7) \
	__CPROVER_loop_invariant(len >= 1 && len < 8 && verif_g1 < verif_g2 && len == verif_g2 - verif_g1 && \
				 p + 1 == verif_p0 + verif_g1 && crc == (uint32_t)verif_g0 && verif_g0 <= 0xffffffffULL) \
	__CPROVER_decreases(len)
#endif

#include "crc_spec.h"

/* memory-domain image of a true CRC state */
#ifdef CRC_VARIANT_BE
#define MEM(x) spec_swab32(x)
#define UNDER_TEST ext2fs_crc32_be
#else
#define MEM(x) ((uint32_t)(x))
#define UNDER_TEST ext2fs_crc32c_le
#endif

uint32_t UNDER_TEST(uint32_t crc, unsigned char const *p, size_t len)
	REQUIRES(verif_p0 == p && verif_g2 == len && verif_g0 == MEM(crc) && verif_g1 == 0)
	ENSURES(RET == MEM((uint32_t)verif_g0) && verif_g1 == verif_g2)
	ASSIGNS(verif_g0, verif_g1, verif_g6, verif_g7);

#include "lib/ext2fs/crc32c.c"
#include "crc_lemmas.h"

/* ghost: consume one byte with the bitwise definition */
static void verif_ghost_byte(void)
{
#ifdef CRC_VARIANT_BE
	verif_g7 = spec_swab32(spec_crc32be_byte(spec_swab32((uint32_t)verif_g0), verif_p0[verif_g1]));
#else
	verif_g7 = spec_crc32c_byte((uint32_t)verif_g0, verif_p0[verif_g1]);
#endif
	verif_g0 = verif_g7;
	verif_g1 = verif_g1 + 1;
}

/*
 * ghost: consume eight bytes.  The fold advances by the lemma function (replaced by its contract): its value IS the
 * bitwise definition's state after the eight bytes (first clause), and LEMMA E (second clause) says it equals the
 * slice-by-8 formula over the generated tables.  The 64 bit-steps never have to be unfolded in this query.
 */
static void verif_ghost_words(void)
{
#ifndef VERIF_NATIVE
	verif_g0 = CRC_FN(lemma_e)((uint32_t)verif_g0, SPEC_LE32(verif_p0 + verif_g1), SPEC_LE32(verif_p0 + verif_g1 + 4));
	verif_g1 = verif_g1 + 8;
#endif
}

void h_crc32_fold(void)
{
	LOAD_IN();
	ASSUME(IN.len < (1ULL << 32) && IN.misalign < 8);
	unsigned char *raw = malloc(IN.len + 8);
	ASSUME(raw != 0);
	unsigned char *buf = raw + IN.misalign;
#ifdef VERIF_NATIVE
	for (unsigned long long i = 0; i < IN.len; i++) buf[i] = IN.bytes[i & 63] + (unsigned char)(i >> 6);
	/* native oracle: bitwise definition in the true domain */
	uint32_t c = IN.seed;
	for (unsigned long long i = 0; i < IN.len; i++)
#ifdef CRC_VARIANT_BE
		c = spec_crc32be_byte(c, buf[i]);
#else
		c = spec_crc32c_byte(c, buf[i]);
#endif
	verif_g0 = MEM(c);
#else
	verif_p0 = buf; verif_g2 = IN.len; verif_g0 = MEM(IN.seed); verif_g1 = 0;
#endif
	uint32_t r = UNDER_TEST(IN.seed, buf, IN.len);
	CHECK(r == MEM((uint32_t)verif_g0), "result equals the bitwise CRC of exactly the len bytes in order, from the given seed");
#ifndef VERIF_NATIVE
	CHECK(verif_g1 == IN.len, "every byte consumed exactly once");
	if (IN.len == 0) REACH("empty buffer");
	if (IN.len > 100000 && IN.misalign == 3) REACH("long unaligned buffer");
#endif
	REACH("end");
}
