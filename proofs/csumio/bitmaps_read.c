/*
 * C14 / C17 / C06: lib/ext2fs/rw_bitmaps.c -- loading the allocation bitmaps.
 *
 *  unit bitmap_tail_verify (U, enforce):  bitmap_tail_verify(bitmap, first, last) answers 1 iff every byte of
 *        bitmap[first..last] is 0xFF (the padding behind the group's bits, bitmaps.rst) and reads nothing outside that range.
 *        "iff" is stated as: a byte != 0xFF at the ghost position => 0 (pointwise), and for an all-0xFF tail (harness
 *        fills it with memset) => 1.
 *
 *  unit read_bitmaps_group_step (U/iter):  read_bitmaps_range_start, ONE ARBITRARY GROUP i of the range [start, end]
 *        (loop cut by an in-place loop contract; the iteration is run from an arbitrary state satisfying the invariant).
 *        Statement, for the block bitmap of group i (same text for the inode bitmap):
 *        - the bitmap block is the one the group descriptor names; it is NOT read (and the group counts as empty) only when
 *          the descriptor says BLOCK_UNINIT *and* the descriptor's own checksum verifies, or the location lies beyond the device;
 *        - after the read, unless EXT2_FLAG_IGNORE_CSUM_ERRORS, ext2fs_block_bitmap_csum_verify is consulted once, for group i,
 *          on the buffer just read and on exactly clusters_per_group / 8 bytes;  "mismatch"  =>  the function returns
 *          EXT2_ET_BLOCK_BITMAP_CSUM_INVALID (EXT2_ET_INODE_BITMAP_CSUM_INVALID) and nothing of the block enters the bitmap;
 *        - the padding check is run on [nbytes, blocksize-1] of that buffer and its result is recorded:
 *          EXT2_FLAG_BBITMAP_TAIL_PROBLEM is set in *tail_flags iff it was set before or some group's padding was not all-ones
 *          (loop invariant in both directions);
 *        - the bits enter the in-memory bitmap at  first_cluster + i * clusters_per_group  (inode: 1 + i * inodes_per_group),
 *          whatever [start, end] the function was called with (C17: "same bitmaps as single-threaded loading" -- a group is
 *          treated identically in every partition), with the mutex held when one is given;
 *        - a failed read / set_range ends the function with that error (first error wins: no callee runs after a failure).
 *  Thread interleavings are NOT modelled: this is the sequential behaviour of one worker.
 */
/* VERIF-UNIT
{
 "name": "bitmap_tail_verify",
 "props": [
  "C14",
  "C06"
 ],
 "level": "U",
 "tier": "quick",
 "harness": "h_tail_verify",
 "enforce": [
  "bitmap_tail_verify"
 ],
 "loop_contracts": true,
 "functions": [
  "lib/ext2fs/rw_bitmaps.c:bitmap_tail_verify"
 ],
 "assumes": [
  "NEEDS the hooks in hooks-pending/csr.diff (named loop anchors in lib/ext2fs/rw_bitmaps.c and lib/ext2fs/csum.c): tier wip until they are merged; green with VERIF_REPO=<tree with the hooks>",
  "0 <= first <= last + 1 <= 4096 and the buffer has exactly last + 1 bytes (call sites: first = bytes of bitmap per group <= blocksize, last = blocksize - 1); content arbitrary, or (second half of the harness) the tail filled with 0xFF by memset"
 ],
 "native": false
}
*/
/* VERIF-UNIT
{
 "name": "read_bitmaps_group_step",
 "props": [
  "C14",
  "C17",
  "C06"
 ],
 "level": "U/iter",
 "tier": "quick",
 "harness": "h_range_start",
 "replace": [
  "bitmap_tail_verify"
 ],
 "loop_contracts": true,
 "unwind": 16,
 "unwind_reason": "the group loop is cut by its loop contract; the two `while` loops of the EXT2_FLAG_IMAGE_FILE branch are not reachable (flag clear) -- proved by the unwinding assertions; the bound 16 is for the DFCC library's own loops over assigns-clause targets",
 "cbmc_flags": [
  "--object-bits",
  "10"
 ],
 "functions": [
  "lib/ext2fs/rw_bitmaps.c:read_bitmaps_range_start"
 ],
 "assumes": [
  "NEEDS the hooks in hooks-pending/csr.diff (named loop anchors in lib/ext2fs/rw_bitmaps.c and lib/ext2fs/csum.c): tier wip until they are merged; green with VERIF_REPO=<tree with the hooks>",
  "enumerated configuration: block size 1024, s_clusters_per_group 4096 (512 bytes of bitmap, 512 bytes of padding), s_inodes_per_group 2048 (256 bytes), cluster ratio 1; flags BLOCK, INODE or both (one call site each: the per-group byte counts are then constants -- the cursor invariant multiplies the group number by them); s_first_data_block, start <= end < 2^31 - 1, fs->flags, feature bits arbitrary",
  "no EXT2_FLAG_IMAGE_FILE",
  "callees from other files are monitor stubs with arbitrary answers drawn independently per call (bitmap locations, bg flags, descriptor checksum verdict, blocks count, read result, checksum verdicts, set_range result); io_channel_alloc_buf is malloc of one block (may fail); bitmap_tail_verify is replaced by its contract (unit bitmap_tail_verify) with an arbitrary verdict",
  "thread interleavings NOT modelled: one sequential caller; pthread_mutex_lock/unlock are stubs that track 'held'",
  "device content arbitrary (the block buffers are arbitrary memory; read leaves them alone)"
 ],
 "native": false
}
*/
#include "verif.h"

#define NANS 16
struct in_rb {
	unsigned int fs_flags, feature_ro_compat, first_data_block;
	unsigned int start, end;
	int flags_sel, tail0;
	unsigned char use_mutex;
	unsigned long long ans[NANS];	/* stub answers, drawn through the counter rb.n */
	unsigned int k;
	/* bitmap_tail_verify unit */
	int first, last;
	unsigned char fill;
};
struct in_rb IN;
#include "verif_in.h"
unsigned long long verif_k;

#include "config.h"
#include "ext2_fs.h"
#include "ext2fs.h"

/* ---- monitor (every field is written by stubs inside the cut loop => `rb` is in the loop's assigns clause) ---- */
struct rb_mon {
	unsigned int n;			/* answers drawn so far (havocked at the loop head => independent draws) */
	errcode_t fail;			/* error a stub injected (0: none): nothing may run after it, and it is the result */
	int locked;
	/* block-bitmap part of the current group */
	unsigned int b_grp, b_phase;	/* phase: 1 located, 2 read, 3 verified, 4 tail checked, 5 entered */
	unsigned long long b_loc;
	int b_skip;			/* no read: uninit (checksum-backed) or beyond the device */
	int b_tail_bad;
	/* inode-bitmap part */
	unsigned int i_grp, i_phase;
	unsigned long long i_loc;
	int i_skip, i_tail_bad;
	/* per-group scratch for the skip decision */
	int uninit, gd_ok;
	unsigned long long blocks_count;
	/* history (monotone) */
	int bb_tail_seen, ib_tail_seen;
	unsigned int steps;		/* groups entered into a bitmap */
};
struct rb_mon rb;
const unsigned char *rb_bbuf, *rb_ibuf;	/* the two block buffers (set when allocated, outside the loop) */
int *rb_tail_flags;
static struct struct_ext2_filsys FS;
static struct ext2_super_block SB;
static struct struct_io_channel IO;
static int DUMMY_BMAP, DUMMY_IMAP;

#define RB_BS 1024
#define RB_BLOCK_NBYTES 512
#define RB_INODE_NBYTES 256
#define RB_ANS() (IN.ans[(rb.n++) & (NANS - 1)])

static int bitmap_tail_verify(unsigned char *bitmap, int first, int last)
#ifdef VERIF_UNIT_bitmap_tail_verify
	REQUIRES(last >= 0 && last < 4096 && first >= 0 && first <= last + 1)
	REQUIRES(__CPROVER_r_ok(bitmap, last + 1))
	ASSIGNS()
	ENSURES(RET == 0 || RET == 1)
	ENSURES(!(verif_k >= (unsigned long long)first && verif_k <= (unsigned long long)last && bitmap[verif_k] != 0xff) || RET == 0);
#else
	/* as used by the group step: the verdict is arbitrary; which buffer / which range / when is an obligation at the call:
	 * after the read and -- unless EXT2_FLAG_IGNORE_CSUM_ERRORS -- after the checksum was verified */
	REQUIRES(rb.fail == 0)
	REQUIRES((bitmap == rb_bbuf && rb.b_phase == ((FS.flags & EXT2_FLAG_IGNORE_CSUM_ERRORS) ? 2u : 3u) && first == RB_BLOCK_NBYTES) ||
		 (bitmap == rb_ibuf && rb.i_phase == ((FS.flags & EXT2_FLAG_IGNORE_CSUM_ERRORS) ? 2u : 3u) && first == RB_INODE_NBYTES))
	REQUIRES(last == RB_BS - 1)
	ASSIGNS(rb.b_phase, rb.i_phase, rb.b_tail_bad, rb.i_tail_bad, rb.bb_tail_seen, rb.ib_tail_seen)
	ENSURES(RET == 0 || RET == 1)
	ENSURES(bitmap == rb_bbuf ? (rb.b_phase == 4 && rb.b_tail_bad == !RET && rb.i_phase == OLD(rb.i_phase) && rb.i_tail_bad == OLD(rb.i_tail_bad))
				  : (rb.i_phase == 4 && rb.i_tail_bad == !RET && rb.b_phase == OLD(rb.b_phase) && rb.b_tail_bad == OLD(rb.b_tail_bad)))
	ENSURES(rb.bb_tail_seen == (OLD(rb.bb_tail_seen) || (bitmap == rb_bbuf && !RET)))
	ENSURES(rb.ib_tail_seen == (OLD(rb.ib_tail_seen) || (bitmap == rb_ibuf && !RET)));
#endif

#define VERIF_INV_BITMAP_TAIL_VERIFY \
	__CPROVER_assigns(i) \
	__CPROVER_loop_invariant(first <= i && i <= last + 1) \
	__CPROVER_loop_invariant(verif_k < (unsigned long long)first || verif_k >= (unsigned long long)i || bitmap[verif_k] == 0xff) \
	__CPROVER_decreases(last + 1 - i)

/* cursor invariant of the group loop: block_nbytes / inode_nbytes are the per-call constants (or 0 when that bitmap is not loaded) */
#define VERIF_INV_READ_BITMAPS_RANGE_START_GROUPS \
	__CPROVER_assigns(i, blk, cnt, retval, blk_itr, ino_itr, *tail_flags, rb; \
			  block_bitmap != 0: __CPROVER_object_whole(block_bitmap); inode_bitmap != 0: __CPROVER_object_whole(inode_bitmap)) \
	__CPROVER_loop_invariant(start <= i && i <= end + 1) \
	__CPROVER_loop_invariant(retval == 0 && rb.fail == 0 && rb.locked == 0) \
	__CPROVER_loop_invariant(blk_itr == (blk64_t)IN.first_data_block + (blk64_t)i * (blk64_t)(block_nbytes << 3)) \
	__CPROVER_loop_invariant(ino_itr == (ext2_ino_t)(1 + i * (unsigned)(inode_nbytes << 3))) \
	__CPROVER_loop_invariant((((*tail_flags) & EXT2_FLAG_BBITMAP_TAIL_PROBLEM) != 0) == ((IN.tail0 & EXT2_FLAG_BBITMAP_TAIL_PROBLEM) != 0 || rb.bb_tail_seen != 0)) \
	__CPROVER_loop_invariant((((*tail_flags) & EXT2_FLAG_IBITMAP_TAIL_PROBLEM) != 0) == ((IN.tail0 & EXT2_FLAG_IBITMAP_TAIL_PROBLEM) != 0 || rb.ib_tail_seen != 0)) \
	__CPROVER_loop_invariant(((*tail_flags) & ~(EXT2_FLAG_BBITMAP_TAIL_PROBLEM | EXT2_FLAG_IBITMAP_TAIL_PROBLEM)) == (IN.tail0 & ~(EXT2_FLAG_BBITMAP_TAIL_PROBLEM | EXT2_FLAG_IBITMAP_TAIL_PROBLEM))) \
	__CPROVER_decreases((unsigned long long)end + 1 - i)

#include "lib/ext2fs/rw_bitmaps.c"

/* ---- stubs: the events of one group, checked where they happen ---- */
#define RB_ALIVE(what) CHECK(rb.fail == 0, "nothing runs after a failure: " what)
blk64_t ext2fs_block_bitmap_loc(ext2_filsys fs, dgrp_t group)
{
	RB_ALIVE("block_bitmap_loc");
	rb.b_grp = group; rb.b_phase = 1; rb.b_skip = 0; rb.b_tail_bad = 0; rb.uninit = 0; rb.gd_ok = 0;
	rb.i_phase = 0;		/* a new group starts with its block bitmap */
	rb.b_loc = RB_ANS();
	return rb.b_loc;
}
blk64_t ext2fs_inode_bitmap_loc(ext2_filsys fs, dgrp_t group)
{
	RB_ALIVE("inode_bitmap_loc");
	rb.i_grp = group; rb.i_phase = 1; rb.i_skip = 0; rb.i_tail_bad = 0; rb.uninit = 0; rb.gd_ok = 0;
	rb.i_loc = RB_ANS();
	return rb.i_loc;
}
int ext2fs_bg_flags_test(ext2_filsys fs, dgrp_t group, __u16 bg_flags)
{
	RB_ALIVE("bg_flags_test");
	CHECK((bg_flags == EXT2_BG_BLOCK_UNINIT && rb.b_phase == 1 && group == rb.b_grp && rb.i_phase != 1) ||
	      (bg_flags == EXT2_BG_INODE_UNINIT && rb.i_phase == 1 && group == rb.i_grp), "the UNINIT flag asked for is the one of this bitmap and this group");
	rb.uninit = (int)(RB_ANS() & 1);
	return rb.uninit;
}
int ext2fs_group_desc_csum_verify(ext2_filsys fs, dgrp_t group)
{
	RB_ALIVE("group_desc_csum_verify");
	CHECK(rb.uninit && (group == (rb.i_phase == 1 ? rb.i_grp : rb.b_grp)), "descriptor checksum consulted for this group, to back an UNINIT flag");
	rb.gd_ok = (int)(RB_ANS() & 1);
	return rb.gd_ok;
}
blk64_t ext2fs_blocks_count(struct ext2_super_block *super)
{
	rb.blocks_count = RB_ANS();
	return rb.blocks_count;
}
static int rb_alloc_failed;
static int rb_want_block;	/* the next buffer allocated is the block-bitmap buffer (allocation happens before the loop) */
errcode_t io_channel_alloc_buf(io_channel io, int count, void *ptr)
{
	void *p = malloc(RB_BS);
	CHECK(count == 0, "one block");
	if (!p) {
		rb_alloc_failed = 1;
		return EXT2_ET_NO_MEMORY;
	}
	*(void **)ptr = p;
	if (rb_want_block) { rb_bbuf = p; rb_want_block = 0; } else rb_ibuf = p;
	return 0;
}
errcode_t io_channel_read_blk64(io_channel channel, unsigned long long block, int count, void *data)
{
	RB_ALIVE("read");
	CHECK(count == 1, "one block is read");
	if ((const unsigned char *)data == rb_bbuf) {
		CHECK(rb.b_phase == 1 && block == rb.b_loc && block != 0 && block < rb.blocks_count, "block bitmap: the block the descriptor names, inside the device");
		CHECK(!(ext2fs_has_group_desc_csum(&FS) && rb.uninit && rb.gd_ok), "an UNINIT bitmap backed by a valid descriptor checksum is not read");
		rb.b_phase = 2;
		if (RB_ANS() & 1) { rb.fail = EXT2_ET_BLOCK_BITMAP_READ; return (errcode_t)(1 + (RB_ANS() & 0xffff)); }
	} else {
		CHECK((const unsigned char *)data == rb_ibuf && rb.i_phase == 1 && block == rb.i_loc && block != 0 && block < rb.blocks_count, "inode bitmap: the block the descriptor names, inside the device, into the inode-bitmap buffer");
		CHECK(!(ext2fs_has_group_desc_csum(&FS) && rb.uninit && rb.gd_ok), "an UNINIT bitmap backed by a valid descriptor checksum is not read");
		rb.i_phase = 2;
		if (RB_ANS() & 1) { rb.fail = EXT2_ET_INODE_BITMAP_READ; return (errcode_t)(1 + (RB_ANS() & 0xffff)); }
	}
	return 0;
}
int ext2fs_block_bitmap_csum_verify(ext2_filsys fs, dgrp_t group, char *bitmap, int size)
{
	RB_ALIVE("block_bitmap_csum_verify");
	CHECK(!(FS.flags & EXT2_FLAG_IGNORE_CSUM_ERRORS), "EXT2_FLAG_IGNORE_CSUM_ERRORS: verifier not consulted");
	CHECK(rb.b_phase == 2 && (const unsigned char *)bitmap == rb_bbuf, "block bitmap verified after the read, on the buffer read");
	CHECK(group == rb.b_grp && fs == &FS, "block bitmap verified for this group");
	CHECK(size == RB_BLOCK_NBYTES, "block bitmap verified on exactly clusters_per_group / 8 bytes");
	rb.b_phase = 3;
	if (RB_ANS() & 1)
		return 1;
	REACH("block bitmap checksum mismatch injected");
	rb.fail = EXT2_ET_BLOCK_BITMAP_CSUM_INVALID;
	return 0;
}
int ext2fs_inode_bitmap_csum_verify(ext2_filsys fs, dgrp_t group, char *bitmap, int size)
{
	RB_ALIVE("inode_bitmap_csum_verify");
	CHECK(!(FS.flags & EXT2_FLAG_IGNORE_CSUM_ERRORS), "EXT2_FLAG_IGNORE_CSUM_ERRORS: verifier not consulted");
	CHECK(rb.i_phase == 2 && (const unsigned char *)bitmap == rb_ibuf, "inode bitmap verified after the read, on the buffer read");
	CHECK(group == rb.i_grp && fs == &FS, "inode bitmap verified for this group");
	CHECK(size == RB_INODE_NBYTES, "inode bitmap verified on exactly inodes_per_group / 8 bytes");
	rb.i_phase = 3;
	if (RB_ANS() & 1)
		return 1;
	REACH("inode bitmap checksum mismatch injected");
	rb.fail = EXT2_ET_INODE_BITMAP_CSUM_INVALID;
	return 0;
}
int pthread_mutex_lock(pthread_mutex_t *m) { CHECK(!rb.locked, "mutex not taken twice"); rb.locked = 1; return 0; }
int pthread_mutex_unlock(pthread_mutex_t *m) { CHECK(rb.locked, "mutex released only when held"); rb.locked = 0; return 0; }

static errcode_t rb_enter(int is_block, const void *bmap, unsigned long long start, unsigned int num, const void *in)
{
	unsigned int phase = is_block ? rb.b_phase : rb.i_phase;
	unsigned int grp = is_block ? rb.b_grp : rb.i_grp;
	unsigned long long loc = is_block ? rb.b_loc : rb.i_loc;
	unsigned int nbytes = is_block ? RB_BLOCK_NBYTES : RB_INODE_NBYTES;
	const unsigned char *buf = is_block ? rb_bbuf : rb_ibuf;
	int ignore = (FS.flags & EXT2_FLAG_IGNORE_CSUM_ERRORS) != 0;
	int skip = (ext2fs_has_group_desc_csum(&FS) && rb.uninit && rb.gd_ok) || loc >= rb.blocks_count || loc == 0;
	RB_ALIVE("set_range");
	CHECK(bmap == (is_block ? (const void *)&DUMMY_BMAP : (const void *)&DUMMY_IMAP) && in == (const void *)buf, "the group's bits go from its buffer into the handle's bitmap");
	CHECK(num == nbytes * 8, "exactly the group's bits are entered");
	CHECK(is_block ? start == (unsigned long long)IN.first_data_block + (unsigned long long)grp * (RB_BLOCK_NBYTES * 8)
		       : start == (unsigned int)(1 + grp * (RB_INODE_NBYTES * 8)), "entered at first + group * per_group, whatever sub-range the caller was given");
	CHECK(!IN.use_mutex || rb.locked, "the shared bitmap is updated with the mutex held");
	if (skip) {
		CHECK(phase == 1, "uninitialised / out-of-device bitmap: nothing was read");
		CHECK(verif_k >= nbytes || buf[verif_k] == 0, "uninitialised / out-of-device bitmap: entered as all-zero (ghost byte)");
	} else {
		CHECK(phase == 4, "read -> (verified) -> padding checked, before the bits are entered");
	}
	if (is_block) {
		CHECK(!rb.b_tail_bad || ((*rb_tail_flags) & EXT2_FLAG_BBITMAP_TAIL_PROBLEM), "bad block-bitmap padding is recorded");
		rb.b_phase = 5;
	} else {
		CHECK(!rb.i_tail_bad || ((*rb_tail_flags) & EXT2_FLAG_IBITMAP_TAIL_PROBLEM), "bad inode-bitmap padding is recorded");
		rb.i_phase = 5;
	}
	rb.steps++;
	if (skip) REACH("group entered as empty (uninit / beyond device)"); else REACH("group entered from the block read");
	if (RB_ANS() & 1) { rb.fail = (errcode_t)(1 + (RB_ANS() & 0xffff)); return rb.fail; }
	return 0;
}
errcode_t ext2fs_set_block_bitmap_range2(ext2fs_block_bitmap bmap, blk64_t start, size_t num, void *in)
{ return rb_enter(1, bmap, start, (unsigned int)num, in); }
errcode_t ext2fs_set_inode_bitmap_range2(ext2fs_inode_bitmap bmap, ext2_ino_t start, size_t num, void *in)
{ return rb_enter(0, bmap, start, (unsigned int)num, in); }

static pthread_mutex_t MTX;
static void run(const int flags)
{
	memset(&FS, 0, sizeof(FS));
	memset(&IO, 0, sizeof(IO));
	memset(&SB, 0, sizeof(SB));
	memset(&rb, 0, sizeof(rb));
	IO.block_size = RB_BS;
	FS.magic = EXT2_ET_MAGIC_EXT2FS_FILSYS;
	FS.super = &SB;
	FS.io = &IO;
	FS.blocksize = RB_BS;
	FS.flags = IN.fs_flags & ~EXT2_FLAG_IMAGE_FILE;
	FS.cluster_ratio_bits = 0;
	FS.block_map = (ext2fs_block_bitmap)&DUMMY_BMAP;
	FS.inode_map = (ext2fs_inode_bitmap)&DUMMY_IMAP;
	SB.s_clusters_per_group = RB_BLOCK_NBYTES * 8;
	SB.s_blocks_per_group = RB_BLOCK_NBYTES * 8;
	SB.s_inodes_per_group = RB_INODE_NBYTES * 8;
	SB.s_first_data_block = IN.first_data_block;
	SB.s_feature_ro_compat = IN.feature_ro_compat;
	verif_k = IN.k;
	ASSUME(IN.start <= IN.end && IN.end < 0x7ffffffeu);
	int tail_flags = IN.tail0;
	rb_tail_flags = &tail_flags;
	/* the buffers are allocated by the function itself (io_channel_alloc_buf stub); the monitor learns them here */
	rb_bbuf = rb_ibuf = 0;
	rb_want_block = (flags & EXT2FS_BITMAPS_BLOCK) != 0;
	rb_alloc_failed = 0;
	errcode_t r = read_bitmaps_range_start(&FS, flags, IN.start, IN.end, IN.use_mutex ? &MTX : 0, &tail_flags);
	CHECK(rb_alloc_failed ? r == EXT2_ET_NO_MEMORY : r == rb.fail, "result: the first failure (0 when there was none)");
	CHECK(r != 0 || rb.fail == 0, "success only when nothing failed");
	CHECK((((tail_flags) & EXT2_FLAG_BBITMAP_TAIL_PROBLEM) != 0) == ((IN.tail0 & EXT2_FLAG_BBITMAP_TAIL_PROBLEM) != 0 || rb.bb_tail_seen != 0), "BBITMAP_TAIL_PROBLEM <=> set before or some group's block-bitmap padding was bad");
	CHECK((((tail_flags) & EXT2_FLAG_IBITMAP_TAIL_PROBLEM) != 0) == ((IN.tail0 & EXT2_FLAG_IBITMAP_TAIL_PROBLEM) != 0 || rb.ib_tail_seen != 0), "IBITMAP_TAIL_PROBLEM <=> set before or some group's inode-bitmap padding was bad");
	CHECK(rb.locked == 0, "mutex released");
	/* canaries for the injected situations sit inside the stubs (an obligation behind a failed one is cut off) */
}

void h_range_start(void)
{
	LOAD_IN();
	if (IN.flags_sel == 0) run(EXT2FS_BITMAPS_BLOCK);
	else if (IN.flags_sel == 1) run(EXT2FS_BITMAPS_INODE);
	else run(EXT2FS_BITMAPS_BLOCK | EXT2FS_BITMAPS_INODE);
	REACH("end");
}

void h_tail_verify(void)
{
	LOAD_IN();
	ASSUME(IN.last >= 0 && IN.last < 4096 && IN.first >= 0 && IN.first <= IN.last + 1);
	unsigned char *b = malloc(IN.last + 1);
	ASSUME(b != 0);
	verif_k = IN.k;
	if (IN.fill && IN.first <= IN.last)
		memset(b + IN.first, 0xff, IN.last + 1 - IN.first);
	int r = bitmap_tail_verify(b, IN.first, IN.last);
	if (IN.fill) {
		REACH("all-ones tail");
		CHECK(r == 1, "a tail of 0xFF bytes is accepted");
	} else if (verif_k >= (unsigned)IN.first && verif_k <= (unsigned)IN.last && b[verif_k] != 0xff) {
		REACH("a byte differs");
		CHECK(r == 0, "a byte != 0xFF inside [first, last] is reported");
	}
	if (IN.first == IN.last + 1) REACH("empty tail");
	REACH("end");
}
