/*
 * C06 (with C14's extent read path): lib/ext2fs/extent.c:ext2fs_extent_open2 -- the inode ROOT of an extent tree.
 *
 * The 60 bytes of i_block come from the device and are arbitrary.  Statement (property text "extent headers ... are
 * bounds-checked before use"; format: ifork.rst):
 *   - the root header is accepted only if it is acceptable for a node of exactly 60 bytes (sizeof i_block): magic,
 *     eh_entries <= eh_max, 12 + 12*eh_max <= 60 (=> eh_max <= 4);  otherwise EXT2_ET_EXTENT_HEADER_BAD and no handle;
 *   - an inode without EXT4_EXTENTS_FL (and a non-zero i_block) => EXT2_ET_INODE_NOT_EXTENT, no handle;
 *   - an all-zero i_block is initialised as an empty root (magic, depth 0, 0 entries, max 4, EXTENTS_FL set);
 *   - on success the handle satisfies the handle invariant HINV(0) that unit extent_get_down assumes:
 *     path[0].buf == i_block, entries == le16 eh_entries, max_entries == le16 eh_max, entries <= max_entries,
 *     12 + 12*max_entries <= 60, curr == NULL and left == entries, level == 0, max_depth == le16 eh_depth,
 *     max_paths == max_depth + 1, and every deeper path slot starts without a buffer (ghost index g_k).
 * The root has no checksum of its own (it is covered by the inode checksum, unit inode_read_csum).
 *
 * Side observation (NOT part of C06's statement, which quantifies over inputs, not over allocation failures): the return
 * value of ext2fs_get_memzero for the path array is ignored; after a failed allocation handle->path is NULL and is
 * dereferenced two lines later.  The contract below therefore describes the successful allocation only.
 */
/* VERIF-UNIT
{
 "name": "extent_open2_root",
 "props": [
  "C06",
  "C14"
 ],
 "level": "U/k",
 "tier": "quick",
 "harness": "h_extent_open2",
 "replace": [
  "ext2fs_get_memzero"
 ],
 "unwind": 17,
 "unwind_reason": "the only loop reached is `for (i = 0; i < EXT2_N_BLOCKS; i++)` (15 = number of i_block words, a format constant); ext2fs_extent_free's loop runs 0 times on the error paths (max_paths still 0); unwinding assertions on",
 "functions": [
  "lib/ext2fs/extent.c:ext2fs_extent_open2",
  "lib/ext2fs/extent.c:ext2fs_extent_open"
 ],
 "assumes": [
  "inode content (128 bytes, incl. i_block) arbitrary; passed by the caller or delivered by ext2fs_read_inode (stub: arbitrary failure code, or leaves the arbitrary buffer as the inode read)",
  "fs->super->s_log_block_size is 0 or 2 and fs->blocksize the matching 1024 / 4096 (ext2fs_open2 validated the superblock; end_blk is computed with a shift by it)",
  "ext2fs_get_memzero (inline allocator of ext2fs.h) replaced by a contract: succeeds and hands out a fresh object of the requested size whose byte at the ghost offset is 0 (allocation failure not modelled -- see side observation in the file comment); ext2fs_get_mem / free are the CBMC library models (never fail)",
  "no frame enforcement; statements are harness CHECKs plus CBMC's built-in memory-safety checks on the real function"
 ],
 "native": false
}
*/
#include "verif.h"

struct in_eo {
	unsigned int ino, inodes_count, bs_sel;
	unsigned char own_inode, ri_fail, magic_bad;
	long ri_ret;
	unsigned int k;
};
struct in_eo IN;
#include "verif_in.h"
#include "csumio_spec.h"

#include "config.h"
#include "ext2_fs.h"
#include "ext2fs.h"

unsigned long g_k;		/* ghost byte offset into the path array */
unsigned long g_mz_size;
unsigned int g_mz_calls, g_ri_calls;

errcode_t ext2fs_get_memzero(unsigned long size, void *ptr)
	REQUIRES(size >= 56 && size <= 65536ul * 56)
	ASSIGNS(*(char **)ptr, g_mz_size, g_mz_calls)
	ENSURES(RET == 0 && g_mz_size == size && g_mz_calls == OLD(g_mz_calls) + 1)
	ENSURES(__CPROVER_is_fresh(*(char **)ptr, size))
	ENSURES(g_k >= size || (*(char **)ptr)[g_k] == 0);

#include "lib/ext2fs/extent.c"
_Static_assert(sizeof(struct extent_path) == 56, "extent_path size used in the allocator contract");

static struct struct_ext2_filsys FS;
static struct ext2_super_block SB;

errcode_t ext2fs_read_inode(ext2_filsys fs, ext2_ino_t ino, struct ext2_inode *inode)
{
	g_ri_calls++;
	CHECK(ino == IN.ino && fs == &FS, "the handle's own inode is read");
	return IN.ri_fail ? (errcode_t)IN.ri_ret : 0;	/* buffer content stays arbitrary = the inode read */
}

void h_extent_open2(void)
{
	LOAD_IN();
	memset(&FS, 0, sizeof(FS));
	FS.magic = IN.magic_bad ? 0 : EXT2_ET_MAGIC_EXT2FS_FILSYS;
	FS.super = &SB;
	SB.s_inodes_count = IN.inodes_count;
	SB.s_log_block_size = IN.bs_sel ? 2 : 0;
	FS.blocksize = IN.bs_sel ? 4096 : 1024;
	ASSUME(!IN.ri_fail || IN.ri_ret != 0);
	g_k = IN.k;
	g_mz_calls = g_ri_calls = 0;
	struct ext2_inode *ino = 0;
	if (IN.own_inode) {
		ino = malloc(sizeof(*ino));	/* arbitrary content */
		ASSUME(ino != 0);
	}
	/* own_inode: was i_block all zero on entry? */
	int allz = 0;
	if (IN.own_inode) {
		allz = 1;
		for (int w = 0; w < 15; w++)
			if (ino->i_block[w])
				allz = 0;
	}
	ext2_extent_handle_t h = 0;
	errcode_t r = ext2fs_extent_open2(&FS, IN.ino, ino, &h);

	if (allz && !IN.magic_bad)
		REACH("all-zero i_block");
	if (IN.magic_bad) {
		REACH("bad fs magic");
		CHECK(r == EXT2_ET_MAGIC_EXT2FS_FILSYS && h == 0, "not a filesystem handle");
	} else if (!IN.own_inode && (IN.ino == 0 || IN.ino > IN.inodes_count)) {
		REACH("bad inode number");
		CHECK(r == EXT2_ET_BAD_INODE_NUM && h == 0 && g_ri_calls == 0, "inode number out of range refused before any read");
	} else if (r == EXT2_ET_NO_MEMORY && g_ri_calls == 0) {
		/* the verifier's malloc may fail: the handle itself could not be allocated */
		REACH("no memory for the handle");
		CHECK(h == 0 && g_mz_calls == 0, "out of memory: no handle");
	} else if (!IN.own_inode && IN.ri_fail) {
		REACH("read_inode failed");
		CHECK(r == IN.ri_ret && h == 0, "inode unreadable: that error, no handle");
	} else if (r != 0) {
		REACH("refused");
		CHECK(!allz, "an all-zero i_block is never refused");
		CHECK(h == 0, "error: no handle is returned");
		CHECK(g_mz_calls == 0, "error: refused before the path array is allocated");
		CHECK(r == EXT2_ET_INODE_NOT_EXTENT || r == EXT2_ET_EXTENT_HEADER_BAD, "the only refusals: not an extent inode / bad root header");
		if (IN.own_inode) {
			/* the caller's inode is still there: the refusal was justified */
			const unsigned char *ib = (const unsigned char *)ino->i_block;
			CHECK(r != EXT2_ET_INODE_NOT_EXTENT || !(ino->i_flags & EXT4_EXTENTS_FL), "NOT_EXTENT only without EXT4_EXTENTS_FL");
			CHECK(r != EXT2_ET_EXTENT_HEADER_BAD || ((ino->i_flags & EXT4_EXTENTS_FL) && !CS_EXT_HEADER_OK(ib, 60)), "HEADER_BAD only for a root header that is not acceptable for 60 bytes");
			REACH("refused own inode");
		}
	} else {
		REACH("opened");
		if (allz) {
			CHECK(CS_EH_ENTRIES(ino->i_block) == 0 && CS_EH_MAX(ino->i_block) == 4 && CS_EH_DEPTH(ino->i_block) == 0, "all-zero i_block becomes an empty root with 4 slots");
		}
		CHECK(h != 0 && h->magic == EXT2_ET_MAGIC_EXTENT_HANDLE && h->fs == &FS && h->ino == IN.ino, "handle returned");
		CHECK(IN.own_inode ? h->inode == ino : h->inode == &h->inodebuf, "inode: the caller's, or the handle's own copy");
		const unsigned char *ib = (const unsigned char *)h->inode->i_block;
		CHECK((h->inode->i_flags & EXT4_EXTENTS_FL) != 0, "opened => extent-mapped");
		CHECK(CS_EXT_HEADER_OK(ib, 60), "opened => root header acceptable for the 60 bytes of i_block");
		CHECK(CS_EH_MAX(ib) <= 4, "opened => at most 4 root slots");
		CHECK(h->path != 0 && g_mz_calls == 1 && g_mz_size == ((unsigned long)CS_EH_DEPTH(ib) + 1) * 56, "path array has depth + 1 slots");
		CHECK(h->max_depth == (int)CS_EH_DEPTH(ib) && h->max_paths == h->max_depth + 1 && h->level == 0, "depth / level");
		CHECK(h->path[0].buf == (char *)ib, "HINV(0): root buffer is i_block");
		CHECK(h->path[0].entries == (int)CS_EH_ENTRIES(ib) && h->path[0].max_entries == (int)CS_EH_MAX(ib), "HINV(0): entries / max_entries mirror the header");
		CHECK(h->path[0].curr == 0 && h->path[0].left == h->path[0].entries, "HINV(0): no current entry, left == entries");
		CHECK(g_k < 56 || g_k >= g_mz_size || ((const char *)h->path)[g_k] == 0, "deeper path slots start zeroed (no buffer, no current entry)");
		if (CS_EH_DEPTH(ib) > 5) REACH("depth beyond the kernel's limit is accepted (not bounded here)");
	}
	REACH("end");
}
