/*
 * C14 "read paths report the error / write paths set the checksum": lib/ext2fs/ext_attr.c
 *   ext2fs_read_ext_attr3 (+ wrappers ext2fs_read_ext_attr2 / ext2fs_read_ext_attr), ext2fs_write_ext_attr3 (+ wrappers).
 *
 * Statement:
 *  read:  block read once into the caller's buffer; read error returned as is, nothing verified; otherwise, unless
 *         EXT2_FLAG_IGNORE_CSUM_ERRORS, ext2fs_ext_attr_block_csum_verify (csum.c; definition proved in
 *         csum/ext_attr_block_csum_verify) is consulted exactly once after the read, on that buffer, with the block number
 *         the block was read from (the block number is part of the checksum) and the caller's inode; then
 *            verifier answered "mismatch"  =>  the call FAILS, with EXT2_ET_EXT_ATTR_CSUM_INVALID when the header is otherwise
 *            well-formed (attributes.rst: magic le32 0xEA020000 -- or the v1 magic 0xEA010000 --, h_blocks le32 @8 == 1),
 *            with EXT2_ET_BAD_EA_HEADER when it is not;   match / flag set  =>  0 or EXT2_ET_BAD_EA_HEADER by the header alone.
 *  write: ext2fs_ext_attr_block_csum_set applied once, with the block number the block is WRITTEN to, before the write, on the
 *         bytes written; set failure => error, nothing written; successful write marks the handle changed.
 * Little-endian host.
 */
/* VERIF-UNIT
{
 "name": "read_ext_attr3",
 "props": [
  "C14"
 ],
 "level": "P",
 "tier": "quick",
 "harness": "h_read_ext_attr",
 "sources": [
  "lib/ext2fs/io_manager.c"
 ],
 "unwind": 1,
 "unwind_reason": "loop-free",
 "functions": [
  "lib/ext2fs/ext_attr.c:ext2fs_read_ext_attr3",
  "lib/ext2fs/ext_attr.c:ext2fs_read_ext_attr2",
  "lib/ext2fs/ext_attr.c:ext2fs_read_ext_attr",
  "lib/ext2fs/ext_attr.c:check_ext_attr_header"
 ],
 "assumes": [
  "little-endian host",
  "ext2fs_ext_attr_block_csum_verify (csum.c) is a monitor stub answering IN.c.cv_ok; its definition is proved in proofs/csum",
  "io manager methods are monitor stubs (read may fail with an arbitrary non-zero code); device content arbitrary (1024-byte buffer of fresh arbitrary memory)",
  "fs->flags arbitrary"
 ],
 "native": false
}
*/
/* VERIF-UNIT
{
 "name": "write_ext_attr3",
 "props": [
  "C14"
 ],
 "level": "P",
 "tier": "quick",
 "harness": "h_write_ext_attr",
 "sources": [
  "lib/ext2fs/io_manager.c"
 ],
 "unwind": 1,
 "unwind_reason": "loop-free",
 "functions": [
  "lib/ext2fs/ext_attr.c:ext2fs_write_ext_attr3",
  "lib/ext2fs/ext_attr.c:ext2fs_write_ext_attr2",
  "lib/ext2fs/ext_attr.c:ext2fs_write_ext_attr"
 ],
 "assumes": [
  "little-endian host",
  "ext2fs_ext_attr_block_csum_set (csum.c) is a monitor stub that may fail with an arbitrary non-zero code; its definition is proved in proofs/csum",
  "io manager methods are monitor stubs (write may fail); 1024-byte buffer with arbitrary content",
  "fs->flags arbitrary"
 ],
 "native": false
}
*/
#include "verif.h"
#include "config.h"
#include <string.h>
#include <stdlib.h>
#include "ext2_fs.h"
#include "ext2fs.h"
#include "csumio_in.h"
#include "csumio_spec.h"

struct in_ea {
	struct cs_in c;
	unsigned long long block;
	unsigned int ino;
	int which;
};
struct in_ea IN;
#include "verif_in.h"
#include "csumio_common.h"

#include "lib/ext2fs/ext_attr.c"

ext2_filsys g_fs_seen;
unsigned int g_ino_seen;
int ext2fs_ext_attr_block_csum_verify(ext2_filsys fs, ext2_ino_t inum, blk64_t block, struct ext2_ext_attr_header *hdr)
{
	g_fs_seen = fs; g_ino_seen = inum;
	return cs_ev_verify(hdr, block);
}
errcode_t ext2fs_ext_attr_block_csum_set(ext2_filsys fs, ext2_ino_t inum, blk64_t block, struct ext2_ext_attr_header *hdr)
{
	g_fs_seen = fs; g_ino_seen = inum;
	return cs_ev_set(hdr, block);
}

#define BS 1024
/* attributes.rst: h_magic le32 @0, h_refcount le32 @4, h_blocks le32 @8 ("must be 1") */
#define SPEC_EA_HEADER_OK(b) ((CS_LE32(b, 0) == CS_EA_MAGIC || CS_LE32(b, 0) == 0xEA010000u) && CS_LE32(b, 8) == 1)

void h_read_ext_attr(void)
{
	LOAD_IN();
	cs_build_fs(BS);
	ASSUME(cs_k < BS);
	unsigned char *buf = malloc(BS);
	ASSUME(buf != 0);
	unsigned char b0 = buf[cs_k];
	unsigned long long blk = IN.block;
	unsigned int ino = IN.ino;
	errcode_t r;
	switch (IN.which) {
	case 0: r = ext2fs_read_ext_attr3(&FS, blk, buf, ino); break;
	case 1: r = ext2fs_read_ext_attr2(&FS, blk, buf); ino = 0; break;
	default: blk = (blk_t)blk; r = ext2fs_read_ext_attr(&FS, (blk_t)blk, buf); ino = 0; break;
	}
	int ignore = CS_IGNORE();
	int hdr_ok = SPEC_EA_HEADER_OK(buf);
	if (IN.c.rd_fail) REACH("read error");
	else if (ignore) REACH("ignore flag");
	else if (!IN.c.cv_ok && hdr_ok) REACH("mismatch, header fine");
	else if (!IN.c.cv_ok) REACH("mismatch and bad header");
	else if (hdr_ok) REACH("match");
	else REACH("match, bad header");

	CHECK(cs.rd.n == 1 && cs.rd.buf == (const void *)buf && cs.rd.id == blk && cs.rd.count == 1, "the block is read exactly once into the caller's buffer");
	CHECK(cs.wr.n == 0 && cs.st.n == 0, "a read path neither writes nor sets checksums");
	CHECK(buf[cs_k] == b0, "the block content is handed over as read");
	if (IN.c.rd_fail) {
		CHECK(r == IN.c.rd_ret && cs.vf.n == 0, "read error returned as is, nothing verified");
	} else {
		int bad = !ignore && !IN.c.cv_ok;
		if (ignore) {
			CHECK(cs.vf.n == 0, "EXT2_FLAG_IGNORE_CSUM_ERRORS: verifier not consulted");
		} else {
			CHECK(cs.vf.n == 1 && cs.vf.seq > cs.rd.seq, "verified exactly once, after the read");
			CHECK(cs.vf.buf == (const void *)buf && cs.vf.id == blk && g_ino_seen == ino && g_fs_seen == &FS, "verified on the buffer just read, with the block number it was read from and the caller's inode");
		}
		CHECK(!bad || r != 0, "checksum mismatch => the call fails");
		CHECK(r == (!hdr_ok ? EXT2_ET_BAD_EA_HEADER : bad ? EXT2_ET_EXT_ATTR_CSUM_INVALID : 0), "well-formed header: mismatch <=> EXT2_ET_EXT_ATTR_CSUM_INVALID; malformed header: EXT2_ET_BAD_EA_HEADER");
	}
	REACH("end");
}

void h_write_ext_attr(void)
{
	LOAD_IN();
	cs_build_fs(BS);
	ASSUME(cs_k < BS);
	unsigned char *buf = malloc(BS);
	ASSUME(buf != 0);
	unsigned long long blk = IN.block;
	unsigned int ino = IN.ino;
	int f0 = FS.flags;
	errcode_t r;
	switch (IN.which) {
	case 0: r = ext2fs_write_ext_attr3(&FS, blk, buf, ino); break;
	case 1: r = ext2fs_write_ext_attr2(&FS, blk, buf); ino = 0; break;
	default: blk = (blk_t)blk; r = ext2fs_write_ext_attr(&FS, (blk_t)blk, buf); ino = 0; break;
	}
	if (IN.c.set_fail) REACH("set failed");
	else if (IN.c.wr_fail) REACH("write error");
	else REACH("written");

	CHECK(cs.st.n == 1 && cs.st.buf == (const void *)buf && cs.st.id == blk && g_ino_seen == ino && g_fs_seen == &FS, "checksum set exactly once on the caller's block, for the block number it is written to");
	CHECK(cs.rd.n == 0 && cs.vf.n == 0, "a write path neither reads nor verifies");
	if (IN.c.set_fail) {
		CHECK(r == IN.c.set_ret && cs.wr.n == 0 && FS.flags == f0, "no checksum could be set: error returned, nothing written");
	} else {
		CHECK(cs.wr.n == 1 && cs.wr.id == blk && cs.wr.count == 1, "the block is written exactly once to the block named");
		CHECK(cs.wr.seq > cs.st.seq, "checksum set BEFORE the block is handed to the channel");
		CHECK(cs.wr.buf == cs.st.buf && cs.wr.wit == cs.st.wit, "the bytes written are the bytes the checksum was set on (ghost offset)");
		CHECK(r == (IN.c.wr_fail ? IN.c.wr_ret : 0), "write error reported");
		CHECK(FS.flags == (IN.c.wr_fail ? f0 : (f0 | EXT2_FLAG_CHANGED)), "handle marked changed exactly after a successful write");
	}
	REACH("end");
}
