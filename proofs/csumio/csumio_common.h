/*
 * Shared by the proofs/csumio protocol units (C14: "verification on every read path, set on every write path").
 *
 * Ghost monitor `cs`: the io-manager method stubs and the stubs standing for the csum.c verifiers / setters (each of
 * which is proved against the on-disk format in proofs/csum) record EVENTS with a global sequence number:
 *     READ   (buffer, block, count)            -- may fail with an arbitrary code (IN.c.rd_fail / rd_ret)
 *     VERIFY (buffer, id)                      -- answers IN.c.cv_ok (1 = checksum matches, 0 = mismatch)
 *     SET    (buffer, id)                      -- may fail (IN.c.set_fail / set_ret)
 *     WRITE  (buffer, block, count)            -- may fail (IN.c.wr_fail / wr_ret)
 * For VERIFY / SET / WRITE the byte of the buffer at the ghost offset cs_k at the time of the event is kept (`wit`): one
 * arbitrary offset chosen by the harness, instead of a quantifier over the bytes of the block.  "The checksum is set on the
 * bytes that are written, after the last field update" is then:  SET precedes WRITE, same buffer, wit(SET) == wit(WRITE).
 * All stub answers are INPUTS (fields of IN.c), so reachability canaries can be phrased over the situation.
 * Device content is arbitrary: buffers come from malloc (arbitrary for the verifier) and READ leaves them alone.
 */
#ifndef CSUMIO_COMMON_H
#define CSUMIO_COMMON_H

#include "csumio_in.h"	/* struct cs_in; the unit declares its IN (with a member `struct cs_in c`) BEFORE including this file */

struct cs_event {
	unsigned int n, seq;		/* how often, sequence number of the LAST occurrence (1-based) */
	const void *buf;
	unsigned long long id;		/* block number (READ/WRITE) or object identity (VERIFY/SET) */
	int count;
	unsigned char wit;
};
struct cs_mon {
	unsigned int seq;
	struct cs_event rd, vf, st, wr;
	unsigned int flushes;
};
struct cs_mon cs;
unsigned long cs_k;		/* ghost offset; the unit keeps it inside every monitored buffer */
unsigned long cs_wr_off;	/* WRITE events take their witness at buf[cs_wr_off + cs_k] (object inside a block; 0 by default) */

#define CS_RESET() do { memset(&cs, 0, sizeof(cs)); cs_k = IN.c.k; cs_wr_off = 0; } while (0)
#define CS_ASSUME_CODES() ASSUME((!IN.c.rd_fail || IN.c.rd_ret != 0) && (!IN.c.wr_fail || IN.c.wr_ret != 0) && (!IN.c.set_fail || IN.c.set_ret != 0))

static void cs_note(struct cs_event *e, const void *buf, unsigned long long id, int count, int with_wit, unsigned long off)
{
	e->n++;
	e->seq = ++cs.seq;
	e->buf = buf;
	e->id = id;
	e->count = count;
	e->wit = with_wit ? ((const unsigned char *)buf)[off + cs_k] : 0;
}
static errcode_t cs_ev_read(const void *buf, unsigned long long blk, int count)
{
	cs_note(&cs.rd, buf, blk, count, 0, 0);
	return IN.c.rd_fail ? (errcode_t)IN.c.rd_ret : 0;
}
static int cs_ev_verify(const void *buf, unsigned long long id)
{
	cs_note(&cs.vf, buf, id, 0, 1, 0);
	return IN.c.cv_ok ? 1 : 0;
}
static errcode_t cs_ev_set(const void *buf, unsigned long long id)
{
	cs_note(&cs.st, buf, id, 0, 1, 0);
	return IN.c.set_fail ? (errcode_t)IN.c.set_ret : 0;
}
static errcode_t cs_ev_write(const void *buf, unsigned long long blk, int count)
{
	cs_note(&cs.wr, buf, blk, count, 1, cs_wr_off);
	return IN.c.wr_fail ? (errcode_t)IN.c.wr_ret : 0;
}

/* io-manager methods (the real io_manager.c dispatches to them) */
static errcode_t cs_m_read_blk64(io_channel ch, unsigned long long block, int count, void *buf) { return cs_ev_read(buf, block, count); }
static errcode_t cs_m_read_blk(io_channel ch, unsigned long block, int count, void *buf) { return cs_ev_read(buf, block, count); }
static errcode_t cs_m_write_blk64(io_channel ch, unsigned long long block, int count, const void *buf) { return cs_ev_write(buf, block, count); }
static errcode_t cs_m_write_blk(io_channel ch, unsigned long block, int count, const void *buf) { return cs_ev_write(buf, block, count); }
static errcode_t cs_m_flush(io_channel ch) { cs.flushes++; return 0; }

static struct struct_ext2_filsys FS;
static struct ext2_super_block SB;
static struct struct_io_channel IO;
static struct struct_io_manager MGR;

static void cs_build_fs(unsigned int blocksize)
{
	memset(&FS, 0, sizeof(FS));
	memset(&IO, 0, sizeof(IO));
	memset(&MGR, 0, sizeof(MGR));
	MGR.magic = EXT2_ET_MAGIC_IO_MANAGER;
	MGR.read_blk = cs_m_read_blk;
	MGR.read_blk64 = cs_m_read_blk64;
	MGR.write_blk = cs_m_write_blk;
	MGR.write_blk64 = cs_m_write_blk64;
	MGR.flush = cs_m_flush;
	IO.magic = EXT2_ET_MAGIC_IO_CHANNEL;
	IO.manager = &MGR;
	IO.block_size = blocksize;
	FS.magic = EXT2_ET_MAGIC_EXT2FS_FILSYS;
	FS.super = &SB;		/* content arbitrary unless the unit fills it */
	FS.io = &IO;
	FS.blocksize = blocksize;
	FS.flags = IN.c.fs_flags;
	CS_RESET();
	CS_ASSUME_CODES();
}
#if defined(CS_MEMCPY_CONTRACT) && !defined(VERIF_NATIVE)
/*
 * libc memcpy by contract (units that list "memcpy" under `replace`): CBMC's byte-array model of a copy with a SYMBOLIC
 * length is what makes the inode / bitmap paths run out of memory.  Source readable and destination writable for n bytes
 * are obligations at every call; the copy is stated to be faithful at the ghost offset cs_k counted from the start of the
 * copy (true of memcpy at every offset); all other bytes of the destination OBJECT become unconstrained (over-approximation).
 */
void *memcpy(void *dst, const void *src, size_t n)
	REQUIRES(__CPROVER_r_ok(src, n) && __CPROVER_w_ok(dst, n))
	ASSIGNS(__CPROVER_object_whole(dst))
	ENSURES(RET == dst)
	ENSURES(cs_k >= n || ((const unsigned char *)dst)[cs_k] == ((const unsigned char *)src)[cs_k]);
#endif

#if defined(CS_MEM_CONTRACTS) && !defined(VERIF_NATIVE)
/*
 * ext2fs_get_mem / ext2fs_free_mem (inline malloc/free wrappers of ext2fs.h) store the pointer with memcpy: when memcpy is
 * replaced by the pointwise contract above they must be replaced too.  get_mem: fails with EXT2_ET_NO_MEMORY or hands out a
 * fresh object of the requested size (arbitrary content); free_mem: clears the pointer (the object is not released:
 * use-after-free / double free are NOT checked in units that use these contracts).
 */
errcode_t cs_gm_ret;
errcode_t ext2fs_get_mem(unsigned long size, void *ptr)
	ASSIGNS(*(char **)ptr, cs_gm_ret)
	ENSURES(RET == cs_gm_ret && (RET == 0 || RET == EXT2_ET_NO_MEMORY))
	ENSURES(RET != 0 || __CPROVER_is_fresh(*(char **)ptr, size));
errcode_t ext2fs_free_mem(void *ptr)
	ASSIGNS(*(char **)ptr)
	ENSURES(RET == 0 && *(char **)ptr == 0);
#endif

#define CS_IGNORE() ((FS.flags & EXT2_FLAG_IGNORE_CSUM_ERRORS) != 0)

#endif
