/*
 * C14 "read paths report the error / write paths set the checksum": lib/ext2fs/dirblock.c
 *   ext2fs_read_dir_block4 (and the three wrappers that end in it), ext2fs_write_dir_block4 (and its wrappers).
 *
 * Statement (property text; independent of the code):
 *  read:  the block is read once into the caller's buffer; a read error is returned as is and nothing is verified;
 *         otherwise, unless EXT2_FLAG_IGNORE_CSUM_ERRORS, the directory-block verifier (ext2fs_dir_block_csum_verify,
 *         csum.c -- leaf and htree definitions proved in csum/dirent_csum_verify, csum/dx_csum_verify) is consulted exactly
 *         once, AFTER the read, on that buffer and for the directory inode the caller names, and
 *              result == EXT2_ET_DIR_CSUM_INVALID  <=>  the verifier answered "mismatch";   else result == 0.
 *         With the flag the verifier is not consulted and the result is 0.  The block content is handed to the caller in both
 *         cases (so that e2fsck can repair it).
 *  write: ext2fs_dir_block_csum_set is applied once to the buffer, BEFORE the block goes to io_channel_write, on the very
 *         bytes that are written (same buffer, byte at the ghost offset unchanged in between); if it fails, that error is
 *         returned and nothing is written; a write error is returned.
 * Little-endian host (WORDS_BIGENDIAN undefined): no byte-swapping copy in between.
 */
/* VERIF-UNIT
{
 "name": "read_dir_block4",
 "props": [
  "C14"
 ],
 "level": "P",
 "tier": "quick",
 "harness": "h_read_dir_block",
 "sources": [
  "lib/ext2fs/io_manager.c"
 ],
 "unwind": 1,
 "unwind_reason": "loop-free",
 "functions": [
  "lib/ext2fs/dirblock.c:ext2fs_read_dir_block4",
  "lib/ext2fs/dirblock.c:ext2fs_read_dir_block3",
  "lib/ext2fs/dirblock.c:ext2fs_read_dir_block2",
  "lib/ext2fs/dirblock.c:ext2fs_read_dir_block"
 ],
 "assumes": [
  "little-endian host",
  "ext2fs_dir_block_csum_verify (csum.c) is a monitor stub answering IN.c.cv_ok; its definition is proved in proofs/csum",
  "io manager methods are monitor stubs (read may fail with an arbitrary non-zero code); device content arbitrary (the 1024-byte buffer is fresh arbitrary memory; the functions under contract never touch its bytes themselves)",
  "fs->flags arbitrary"
 ],
 "native": false
}
*/
/* VERIF-UNIT
{
 "name": "write_dir_block4",
 "props": [
  "C14"
 ],
 "level": "P",
 "tier": "quick",
 "harness": "h_write_dir_block",
 "sources": [
  "lib/ext2fs/io_manager.c"
 ],
 "unwind": 1,
 "unwind_reason": "loop-free",
 "functions": [
  "lib/ext2fs/dirblock.c:ext2fs_write_dir_block4",
  "lib/ext2fs/dirblock.c:ext2fs_write_dir_block3",
  "lib/ext2fs/dirblock.c:ext2fs_write_dir_block2",
  "lib/ext2fs/dirblock.c:ext2fs_write_dir_block"
 ],
 "assumes": [
  "little-endian host",
  "ext2fs_dir_block_csum_set (csum.c) is a monitor stub that may fail with an arbitrary non-zero code; its definition is proved in proofs/csum",
  "io manager methods are monitor stubs (write may fail with an arbitrary non-zero code); 1024-byte buffer with arbitrary content",
  "fs->flags arbitrary"
 ],
 "native": false
}
*/
#include "verif.h"
#include "config.h"
#include <string.h>
#include <stdlib.h>
#include "ext2_fs.h"
#include "ext2fs.h"
#include "csumio_in.h"

struct in_db {
	struct cs_in c;
	unsigned long long block;
	unsigned int ino;
	int flags, which;
};
struct in_db IN;
#include "verif_in.h"
#include "csumio_common.h"

#include "lib/ext2fs/dirblock.c"

ext2_filsys g_fs_seen;
int ext2fs_dir_block_csum_verify(ext2_filsys fs, ext2_ino_t inum, struct ext2_dir_entry *dirent)
{
	g_fs_seen = fs;
	return cs_ev_verify(dirent, inum);
}
errcode_t ext2fs_dir_block_csum_set(ext2_filsys fs, ext2_ino_t inum, struct ext2_dir_entry *dirent)
{
	g_fs_seen = fs;
	return cs_ev_set(dirent, inum);
}

#define BS 1024
void h_read_dir_block(void)
{
	LOAD_IN();
	cs_build_fs(BS);
	ASSUME(cs_k < BS);
	unsigned char *buf = malloc(BS);
	ASSUME(buf != 0);
	unsigned char b0 = buf[cs_k];
	unsigned long long blk = IN.block;
	unsigned int ino = IN.ino;
	errcode_t r;
	switch (IN.which) {
	case 0: r = ext2fs_read_dir_block4(&FS, blk, buf, IN.flags, ino); break;
	case 1: r = ext2fs_read_dir_block3(&FS, blk, buf, IN.flags); ino = 0; break;
	case 2: blk = (blk_t)blk; r = ext2fs_read_dir_block2(&FS, (blk_t)blk, buf, IN.flags); ino = 0; break;
	default: blk = (blk_t)blk; r = ext2fs_read_dir_block(&FS, (blk_t)blk, buf); ino = 0; break;
	}
	int ignore = CS_IGNORE();
	if (IN.c.rd_fail) REACH("read error");
	else if (ignore) REACH("ignore flag");
	else if (!IN.c.cv_ok) REACH("mismatch");
	else REACH("match");
	if (IN.which) REACH("wrapper");

	CHECK(cs.rd.n == 1 && cs.rd.buf == (const void *)buf && cs.rd.id == blk && cs.rd.count == 1, "the block is read exactly once into the caller's buffer");
	CHECK(cs.wr.n == 0 && cs.st.n == 0, "a read path neither writes nor sets checksums");
	CHECK(buf[cs_k] == b0, "the block content is handed over as read");
	if (IN.c.rd_fail) {
		CHECK(r == IN.c.rd_ret && cs.vf.n == 0, "read error returned as is, nothing verified");
	} else if (ignore) {
		CHECK(r == 0 && cs.vf.n == 0, "EXT2_FLAG_IGNORE_CSUM_ERRORS: verifier not consulted, success");
	} else {
		CHECK(cs.vf.n == 1 && cs.vf.seq > cs.rd.seq, "verified exactly once, after the read");
		CHECK(cs.vf.buf == (const void *)buf && cs.vf.id == ino && g_fs_seen == &FS, "verified on the buffer just read, for the directory inode named by the caller");
		CHECK(r == (IN.c.cv_ok ? 0 : EXT2_ET_DIR_CSUM_INVALID), "checksum mismatch <=> EXT2_ET_DIR_CSUM_INVALID");
	}
	REACH("end");
}

void h_write_dir_block(void)
{
	LOAD_IN();
	cs_build_fs(BS);
	ASSUME(cs_k < BS);
	unsigned char *buf = malloc(BS);
	ASSUME(buf != 0);
	unsigned long long blk = IN.block;
	unsigned int ino = IN.ino;
	errcode_t r;
	switch (IN.which) {
	case 0: r = ext2fs_write_dir_block4(&FS, blk, buf, IN.flags, ino); break;
	case 1: r = ext2fs_write_dir_block3(&FS, blk, buf, IN.flags); ino = 0; break;
	case 2: blk = (blk_t)blk; r = ext2fs_write_dir_block2(&FS, (blk_t)blk, buf, IN.flags); ino = 0; break;
	default: blk = (blk_t)blk; r = ext2fs_write_dir_block(&FS, (blk_t)blk, buf); ino = 0; break;
	}
	if (IN.c.set_fail) REACH("set failed");
	else if (IN.c.wr_fail) REACH("write error");
	else REACH("written");

	CHECK(cs.st.n == 1 && cs.st.buf == (const void *)buf && cs.st.id == ino && g_fs_seen == &FS, "checksum set exactly once on the caller's block, for the directory inode named");
	CHECK(cs.rd.n == 0 && cs.vf.n == 0, "a write path neither reads nor verifies");
	if (IN.c.set_fail) {
		CHECK(r == IN.c.set_ret && cs.wr.n == 0, "no checksum could be set: error returned, nothing written");
	} else {
		CHECK(cs.wr.n == 1 && cs.wr.id == blk && cs.wr.count == 1, "the block is written exactly once to the block named");
		CHECK(cs.wr.seq > cs.st.seq, "checksum set BEFORE the block is handed to the channel");
		CHECK(cs.wr.buf == cs.st.buf && cs.wr.wit == cs.st.wit, "the bytes written are the bytes the checksum was set on (ghost offset)");
		CHECK(r == (IN.c.wr_fail ? IN.c.wr_ret : 0), "write error reported");
	}
	REACH("end");
}
