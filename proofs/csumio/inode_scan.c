/*
 * C14 "read paths report the error": lib/ext2fs/inode.c:ext2fs_get_next_inode_full (the inode scan e2fsck pass 1 runs on),
 * the steady-state step: the next inode is already in the scan buffer.
 *
 * Statement (per returned inode): unless the library's own pre-check has recorded that every inode checksum in this inode-table
 * block matched (IBLOCK_STATUS_CSUMS_OK, set by check_inode_block_sanity) or EXT2_FLAG_IGNORE_CSUM_ERRORS is set,
 * ext2fs_inode_csum_verify is consulted exactly once, on the inode's bytes in the buffer, for inode number current + 1;
 *    verifier answered "mismatch"  =>  the call returns non-zero -- EXT2_ET_INODE_CSUM_INVALID, or one of the two codes that
 *    outrank it (EXT2_ET_BAD_BLOCK_IN_INODE_TABLE for a block on the bad-block list, EXT2_ET_INODE_IS_GARBAGE when the
 *    pre-check declared the whole block insane);
 * the inode's number and bytes are handed to the caller all the same (e2fsck decides what to do with it) and the scan advances
 * by exactly one inode.
 * Not covered: moving to the next group, refilling the buffer (get_next_blocks), an inode straddling two buffer fills.
 */
/* VERIF-UNIT
{
 "name": "get_next_inode_csum",
 "props": [
  "C14"
 ],
 "level": "P",
 "tier": "quick",
 "harness": "h_get_next_inode",
 "replace": [
  "memcpy",
  "ext2fs_get_mem",
  "ext2fs_free_mem",
  "get_next_blocks",
  "get_next_blockgroup"
 ],
 "unwind": 9,
 "unwindset": {
  "ext2fs_get_next_inode_full.0": 1
 },
 "unwind_reason": "the step under contract is loop-free: the `goto force_new_group` back edge (unwindset 1) belongs to the excluded situations and is proved not taken by the unwinding assertion; get_next_blocks / get_next_blockgroup are replaced by contracts with precondition false (call sites proved unreachable); global bound 9 is for the harness loop over the 8 status bytes",
 "backend": "cadical",
 "cbmc_flags": [
  "--object-bits",
  "10"
 ],
 "functions": [
  "lib/ext2fs/inode.c:ext2fs_get_next_inode_full",
  "lib/ext2fs/inode.c:ext2fs_get_next_inode"
 ],
 "assumes": [
  "steady state of a scan: inodes_left > 0, current_block != 0, bytes_left >= inode_size (the next inode lies in the buffer), EXT2_SF_DO_LAZY clear; other scan flags, block status bytes, current inode number arbitrary",
  "enumerated configuration: inode size 256 (dynamic revision), block size 1024 (4 inodes per block), s_inodes_per_group = 8192, inode_buffer_blocks = 8 (the library default) -- the block-status index divides by these; caller buffer 256 or 128 bytes (ext2fs_get_next_inode)",
  "scan buffer: 8 KiB of arbitrary content, the inode at an arbitrary 256-byte slot of it",
  "ext2fs_inode_csum_verify is a monitor stub answering IN.c.cv_ok; libc memcpy, ext2fs_get_mem / ext2fs_free_mem replaced by contracts (see csumio_common.h)",
  "little-endian host"
 ],
 "native": false
}
*/
#include "verif.h"
#include "csumio_in.h"
#include "csumio_spec.h"

struct in_sc {
	struct cs_in c;
	unsigned int cur_ino, inodes_left, blocks_left, groups_left, cur_group, j;
	unsigned long long cur_block;
	int scan_flags;
	unsigned char status[8];
	unsigned char small_buf;
};
struct in_sc IN;
#include "verif_in.h"

#include "config.h"
#include "ext2_fs.h"
#include "ext2fs.h"
/* The two callees that leave the steady state are replaced by contracts whose precondition is `false`: that they are NOT
 * reached in the situation of this unit is then an obligation at their call sites. */
static errcode_t get_next_blocks(ext2_inode_scan scan)
	REQUIRES(0)
	ASSIGNS();
static errcode_t get_next_blockgroup(ext2_inode_scan scan)
	REQUIRES(0)
	ASSIGNS();
#define CS_MEMCPY_CONTRACT
#define CS_MEM_CONTRACTS
#include "lib/ext2fs/inode.c"
#include "csumio_common.h"

ext2_filsys g_fs_seen;
int ext2fs_inode_csum_verify(ext2_filsys fs, ext2_ino_t inum, struct ext2_inode_large *inode) { g_fs_seen = fs; return cs_ev_verify(inode, inum); }
errcode_t ext2fs_inode_csum_set(ext2_filsys fs, ext2_ino_t inum, struct ext2_inode_large *inode) { return cs_ev_set(inode, inum); }
blk64_t ext2fs_inode_table_loc(ext2_filsys fs, dgrp_t group) { return 0; }
blk64_t ext2fs_blocks_count(struct ext2_super_block *super) { return 0; }
int ext2fs_bg_flags_test(ext2_filsys fs, dgrp_t group, __u16 bg_flags) { return 0; }
__u32 ext2fs_bg_itable_unused(ext2_filsys fs, dgrp_t group) { return 0; }

#define BS 1024
#define ISZ 256
#define NBLK 8
#define IPG 8192u
static struct ext2_struct_inode_scan SC;

static void run(const int bufsize)
{
	cs_build_fs(BS);
	ASSUME(cs_k < ISZ);
	memset(&SB, 0, sizeof(SB));
	SB.s_rev_level = EXT2_DYNAMIC_REV;
	SB.s_inode_size = ISZ;
	SB.s_inodes_per_group = IPG;
	SB.s_log_block_size = 0;
	g_fs_seen = 0;
	cs_gm_ret = 0;
	unsigned char *ibuf = malloc(NBLK * BS);
	unsigned char *tbuf = malloc(ISZ + NBLK);	/* temp inode + one status byte per buffer block */
	ASSUME(ibuf && tbuf);
	ASSUME(IN.j < NBLK * BS / ISZ);
	memset(&SC, 0, sizeof(SC));
	SC.magic = EXT2_ET_MAGIC_INODE_SCAN;
	SC.fs = &FS;
	SC.current_inode = IN.cur_ino;
	SC.current_block = IN.cur_block;
	SC.current_group = IN.cur_group;
	SC.inodes_left = IN.inodes_left;
	SC.blocks_left = IN.blocks_left;
	SC.groups_left = IN.groups_left;
	SC.inode_buffer_blocks = NBLK;
	SC.inode_buffer = (char *)ibuf;
	SC.inode_size = ISZ;
	SC.ptr = (char *)ibuf + ISZ * IN.j;
	SC.bytes_left = NBLK * BS - ISZ * IN.j;
	SC.temp_buffer = (char *)tbuf;
	SC.scan_flags = IN.scan_flags & ~EXT2_SF_DO_LAZY;
	for (int i = 0; i < NBLK; i++)
		tbuf[ISZ + i] = IN.status[i];
	ASSUME(IN.inodes_left > 0 && IN.cur_block != 0);
	const unsigned char *p0 = ibuf + ISZ * IN.j;
	const unsigned char b0 = p0[cs_k];
	unsigned char *out = malloc(bufsize);
	ASSUME(out != 0);
	ext2_ino_t ino = 0;
	errcode_t r;
	if (bufsize == ISZ)
		r = ext2fs_get_next_inode_full(&SC, &ino, (struct ext2_inode *)out, bufsize);
	else
		r = ext2fs_get_next_inode(&SC, &ino, (struct ext2_inode *)out);

	/* which status byte speaks for this inode: the inode-table block it lies in, modulo the buffer size */
	unsigned int iblk = IN.cur_ino % IPG / (BS / ISZ) % NBLK;
	unsigned char st = IN.status[iblk];
	int skip = (st & IBLOCK_STATUS_CSUMS_OK) || CS_IGNORE();
	int bad = !skip && !IN.c.cv_ok;
	int badblk = (SC.scan_flags & EXT2_SF_BAD_INODE_BLK) != 0;
	int insane = (st & IBLOCK_STATUS_INSANE) != 0;

	if (cs_gm_ret) REACH("no memory");
	else if (bad && !badblk && !insane) REACH("mismatch reported");
	else if (bad) REACH("mismatch outranked");
	else if (skip) REACH("not verified here (block pre-verified or IGNORE flag)");
	else REACH("match");

	CHECK(cs.rd.n == 0 && cs.wr.n == 0 && cs.st.n == 0, "steady state: no I/O");
	if (bufsize < ISZ && cs_gm_ret) {
		CHECK(r == EXT2_ET_NO_MEMORY && cs.vf.n == 0 && SC.inodes_left == IN.inodes_left, "no memory: error, scan not advanced");
	} else {
		CHECK(cs.vf.n == (skip ? 0u : 1u), "verified exactly once unless pre-verified / IGNORE flag");
		CHECK(skip || (cs.vf.buf == (const void *)p0 && cs.vf.id == (unsigned int)(IN.cur_ino + 1) && g_fs_seen == &FS), "verified on the inode's bytes in the buffer, for the number it is returned under");
		CHECK(!bad || r != 0, "checksum mismatch => the call fails");
		errcode_t base = badblk ? EXT2_ET_BAD_BLOCK_IN_INODE_TABLE : bad ? EXT2_ET_INODE_CSUM_INVALID : 0;
		CHECK(r == ((insane && (base == 0 || base == EXT2_ET_INODE_CSUM_INVALID)) ? EXT2_ET_INODE_IS_GARBAGE : base), "EXT2_ET_INODE_CSUM_INVALID unless outranked by bad-block / garbage-block");
		CHECK(ino == IN.cur_ino + 1 && SC.current_inode == IN.cur_ino + 1 && SC.inodes_left == IN.inodes_left - 1, "the scan advances by one inode and names it");
		CHECK(SC.ptr == (char *)p0 + ISZ && SC.bytes_left == (int)(NBLK * BS - ISZ * IN.j) - ISZ, "buffer cursor advanced by one inode");
		CHECK(cs_k >= (unsigned)bufsize || out[cs_k] == b0, "the caller receives the inode's bytes");
		CHECK(skip || cs.vf.wit == b0, "the bytes verified are the bytes handed over");
	}
}

void h_get_next_inode(void)
{
	LOAD_IN();
	if (IN.small_buf) run(128); else run(ISZ);
	REACH("end");
}
