/*
 * C14 "read paths report the error": lib/ext2fs/inode.c:ext2fs_read_inode2 (and ext2fs_read_inode_full / ext2fs_read_inode
 * which end in it) -- the part after the cache look-up.
 *
 * Statement (property text + inodes.rst; independent of the code), for an inode that is not in the inode cache:
 *   - the inode's bytes are taken from the inode-table block the format names:
 *         group g = (ino - 1) / s_inodes_per_group, index i = (ino - 1) % s_inodes_per_group,
 *         block = inode_table(g) + (i * inode_size) / blocksize, byte offset (i * inode_size) % blocksize;
 *   - ext2fs_inode_csum_verify (csum.c; definition proved in csum/inode_csum_verify) is consulted exactly once, after the read,
 *     on exactly those bytes and for this inode number;
 *   - verifier answered "mismatch"  =>  EXT2_ET_INODE_CSUM_INVALID, unless EXT2_FLAG_IGNORE_CSUM_ERRORS or the caller passed
 *     READ_INODE_NOCSUM (then 0); "match" => 0;   the caller's buffer receives the bytes verified in every one of these cases;
 *   - after a mismatch the inode is NOT entered into the inode cache: no slot is labelled with its number, cache_last keeps
 *     its value (so a later read goes to the device again and reports the error again);
 *   - [unit read_inode2_cache_coherent, FAILS on the tree: finding C14_icache_clobbered_on_csum_error]  a cache slot that
 *     still carries the label of another inode X after the call still holds X's bytes.
 */
/* VERIF-UNIT
{
 "name": "read_inode2_csum",
 "props": [
  "C14"
 ],
 "level": "U/k",
 "tier": "quick",
 "harness": "h_read_inode2",
 "sources": [
  "lib/ext2fs/io_manager.c"
 ],
 "unwind": 6,
 "unwind_reason": "cache look-up loop: cache_size = 4 (global bound 6); copy loop `while (length)` (unwindset 2): the inode size divides the block size, so exactly one iteration -- proved by the unwinding assertion",
 "cbmc_flags": [
  "--object-bits",
  "10"
 ],
 "functions": [
  "lib/ext2fs/inode.c:ext2fs_read_inode2",
  "lib/ext2fs/inode.c:ext2fs_read_inode_full",
  "lib/ext2fs/inode.c:ext2fs_read_inode"
 ],
 "assumes": [
  "configuration of this unit: inode size 256 (dynamic revision), caller buffer 256 bytes; block size 1024; s_inodes_per_group = 8192 (the location arithmetic divides by it: a symbolic divisor is intractable); inode number, group count, inode table location, blocks count, flags arbitrary",
  "inode cache present with cache_size = 4 (the size the library creates; 16 after inline-data expansion runs the same code), entry buffers of exactly inode-size bytes, labels / cache_last / buffer_blk arbitrary; the inode asked for is not in the cache (a cached inode is returned without I/O -- checked separately in the harness)",
  "no EXT2_FLAG_IMAGE_FILE, no fs->read_inode override hook (e2fsck's hook serves its own stashed copy), not a journal device",
  "ext2fs_inode_csum_verify is a monitor stub answering IN.c.cv_ok; ext2fs_inode_table_loc / ext2fs_blocks_count are stubs returning arbitrary values; io manager read is a monitor stub that may fail; device content arbitrary (the block buffer is arbitrary memory)",
  "little-endian host",
  "libc memcpy replaced by its contract (bounds asserted at each call; faithful copy stated at the ghost offset, other destination bytes unconstrained)"
 ],
 "native": false,
 "defines": [
  "RI_ISIZE=256",
  "RI_BUF=256"
 ],
 "replace": [
  "memcpy"
 ],
 "backend": "cadical",
 "unwindset": {
  "ext2fs_read_inode2.1": 2
 }
}
*/
/* VERIF-UNIT
{
 "name": "read_inode2_csum_trunc",
 "props": [
  "C14"
 ],
 "level": "U/k",
 "tier": "thorough",
 "harness": "h_read_inode2",
 "sources": [
  "lib/ext2fs/io_manager.c"
 ],
 "unwind": 6,
 "unwind_reason": "cache look-up loop: cache_size = 4 (global bound 6); copy loop `while (length)` (unwindset 2): the inode size divides the block size, so exactly one iteration -- proved by the unwinding assertion",
 "cbmc_flags": [
  "--object-bits",
  "10"
 ],
 "functions": [
  "lib/ext2fs/inode.c:ext2fs_read_inode2",
  "lib/ext2fs/inode.c:ext2fs_read_inode_full",
  "lib/ext2fs/inode.c:ext2fs_read_inode"
 ],
 "assumes": [
  "configuration of this unit: inode size 256 (dynamic revision), caller buffer 128 bytes; block size 1024; s_inodes_per_group = 8192 (the location arithmetic divides by it: a symbolic divisor is intractable); inode number, group count, inode table location, blocks count, flags arbitrary",
  "inode cache present with cache_size = 4 (the size the library creates; 16 after inline-data expansion runs the same code), entry buffers of exactly inode-size bytes, labels / cache_last / buffer_blk arbitrary; the inode asked for is not in the cache (a cached inode is returned without I/O -- checked separately in the harness)",
  "no EXT2_FLAG_IMAGE_FILE, no fs->read_inode override hook (e2fsck's hook serves its own stashed copy), not a journal device",
  "ext2fs_inode_csum_verify is a monitor stub answering IN.c.cv_ok; ext2fs_inode_table_loc / ext2fs_blocks_count are stubs returning arbitrary values; io manager read is a monitor stub that may fail; device content arbitrary (the block buffer is arbitrary memory)",
  "little-endian host",
  "libc memcpy replaced by its contract (bounds asserted at each call; faithful copy stated at the ghost offset, other destination bytes unconstrained)"
 ],
 "native": false,
 "defines": [
  "RI_ISIZE=256",
  "RI_BUF=128"
 ],
 "replace": [
  "memcpy"
 ],
 "backend": "cadical",
 "unwindset": {
  "ext2fs_read_inode2.1": 2
 }
}
*/
/* VERIF-UNIT
{
 "name": "read_inode2_csum_small",
 "props": [
  "C14"
 ],
 "level": "U/k",
 "tier": "thorough",
 "harness": "h_read_inode2",
 "sources": [
  "lib/ext2fs/io_manager.c"
 ],
 "unwind": 6,
 "unwind_reason": "cache look-up loop: cache_size = 4 (global bound 6); copy loop `while (length)` (unwindset 2): the inode size divides the block size, so exactly one iteration -- proved by the unwinding assertion",
 "cbmc_flags": [
  "--object-bits",
  "10"
 ],
 "functions": [
  "lib/ext2fs/inode.c:ext2fs_read_inode2",
  "lib/ext2fs/inode.c:ext2fs_read_inode_full",
  "lib/ext2fs/inode.c:ext2fs_read_inode"
 ],
 "assumes": [
  "configuration of this unit: inode size 128 (dynamic revision), caller buffer 128 bytes; block size 1024; s_inodes_per_group = 8192 (the location arithmetic divides by it: a symbolic divisor is intractable); inode number, group count, inode table location, blocks count, flags arbitrary",
  "inode cache present with cache_size = 4 (the size the library creates; 16 after inline-data expansion runs the same code), entry buffers of exactly inode-size bytes, labels / cache_last / buffer_blk arbitrary; the inode asked for is not in the cache (a cached inode is returned without I/O -- checked separately in the harness)",
  "no EXT2_FLAG_IMAGE_FILE, no fs->read_inode override hook (e2fsck's hook serves its own stashed copy), not a journal device",
  "ext2fs_inode_csum_verify is a monitor stub answering IN.c.cv_ok; ext2fs_inode_table_loc / ext2fs_blocks_count are stubs returning arbitrary values; io manager read is a monitor stub that may fail; device content arbitrary (the block buffer is arbitrary memory)",
  "little-endian host",
  "libc memcpy replaced by its contract (bounds asserted at each call; faithful copy stated at the ghost offset, other destination bytes unconstrained)"
 ],
 "native": false,
 "defines": [
  "RI_ISIZE=128",
  "RI_BUF=128"
 ],
 "replace": [
  "memcpy"
 ],
 "backend": "cadical",
 "unwindset": {
  "ext2fs_read_inode2.1": 2
 }
}
*/
/* VERIF-UNIT
{
 "name": "read_inode2_cache_coherent",
 "props": [
  "C14"
 ],
 "level": "U/k",
 "tier": "quick",
 "harness": "h_read_inode2",
 "sources": [
  "lib/ext2fs/io_manager.c"
 ],
 "unwind": 6,
 "unwind_reason": "cache look-up loop: cache_size = 4 (global bound 6); copy loop `while (length)` (unwindset 2): the inode size divides the block size, so exactly one iteration -- proved by the unwinding assertion",
 "cbmc_flags": [
  "--object-bits",
  "10"
 ],
 "functions": [
  "lib/ext2fs/inode.c:ext2fs_read_inode2"
 ],
 "assumes": [
  "as read_inode2_csum (inode size 256, buffer 256); additionally checks that a slot still labelled with another inode after the call still holds that inode's bytes (ghost slot, ghost byte) -- FAILS on the pinned tree: finding C14_icache_clobbered_on_csum_error (native demo + proposed fix); passes with the proposed fix"
 ],
 "native": false,
 "defines": [
  "RI_ISIZE=256",
  "RI_BUF=256"
 ],
 "replace": [
  "memcpy"
 ],
 "backend": "cadical",
 "unwindset": {
  "ext2fs_read_inode2.1": 2
 }
}
*/
#include "verif.h"
#include "csumio_in.h"
#include "csumio_spec.h"

struct in_ri {
	struct cs_in c;
	unsigned int ino, inodes_count, group_desc_count, ibpg, first_data_block;
	unsigned long long itable, blocks_count, buffer_blk;
	int cache_last, rflags, which;
	unsigned int cache_ino[4];
	unsigned int slot;		/* ghost slot */
	unsigned char big_inode, big_buf;
};
struct in_ri IN;
#include "verif_in.h"

#define CS_MEMCPY_CONTRACT
#include "lib/ext2fs/inode.c"
#include "csumio_common.h"

#define BS 1024
#define IPG 8192u
static struct ext2_inode_cache IC;
static struct ext2_inode_cache_ent ENT[4];
static unsigned char *ICBUF;
ext2_filsys g_fs_seen;
unsigned int g_itl_group, g_itl_calls;

int ext2fs_inode_csum_verify(ext2_filsys fs, ext2_ino_t inum, struct ext2_inode_large *inode)
{
	g_fs_seen = fs;
	return cs_ev_verify(inode, inum);
}
blk64_t ext2fs_inode_table_loc(ext2_filsys fs, dgrp_t group) { g_itl_calls++; g_itl_group = group; return IN.itable; }
blk64_t ext2fs_blocks_count(struct ext2_super_block *super) { return IN.blocks_count; }
/* other-file callees of functions that are not under contract here */
errcode_t ext2fs_inode_csum_set(ext2_filsys fs, ext2_ino_t inum, struct ext2_inode_large *inode) { return cs_ev_set(inode, inum); }

static void run(const int isize, const int bufsize, const int which)
{
	cs_build_fs(BS);
	ASSUME(cs_k < (unsigned)isize);
	FS.flags &= ~EXT2_FLAG_IMAGE_FILE;
	memset(&SB, 0, sizeof(SB));
	SB.s_rev_level = EXT2_DYNAMIC_REV;
	SB.s_inode_size = isize;
	SB.s_inodes_per_group = IPG;
	SB.s_inodes_count = IN.inodes_count;
	SB.s_first_data_block = IN.first_data_block;
	SB.s_log_block_size = 0;
	FS.group_desc_count = IN.group_desc_count;
	FS.inode_blocks_per_group = IN.ibpg;
	g_itl_calls = 0;
	g_fs_seen = 0;
	/* inode cache: 4 slots, buffers of exactly the inode size */
	memset(&IC, 0, sizeof(IC));
	ICBUF = malloc(BS);
	ASSUME(ICBUF != 0);
	IC.buffer = ICBUF;
	IC.buffer_blk = IN.buffer_blk;
	IC.cache = ENT;
	IC.cache_size = 4;
	ASSUME(IN.cache_last >= -1 && IN.cache_last <= 3);
	IC.cache_last = IN.cache_last;
	IC.refcount = 1;
	for (int i = 0; i < 4; i++) {
		ENT[i].ino = IN.cache_ino[i];
		ENT[i].inode = malloc(isize);
		ASSUME(ENT[i].inode != 0);
	}
	FS.icache = &IC;
	ASSUME(IN.slot < 4);
	const unsigned int s = IN.slot;
	const unsigned int lab0 = ENT[s].ino;
	const unsigned char byte0 = ((unsigned char *)ENT[s].inode)[cs_k];
	unsigned char *out = malloc(bufsize);
	ASSUME(out != 0);

	const unsigned int ino = IN.ino;
	int rflags = IN.rflags;
	errcode_t r;
	if (which == 0)
		r = ext2fs_read_inode2(&FS, ino, (struct ext2_inode *)out, bufsize, rflags);
	else if (which == 1) {
		r = ext2fs_read_inode_full(&FS, ino, (struct ext2_inode *)out, bufsize); rflags = 0;
	} else {
		r = ext2fs_read_inode(&FS, ino, (struct ext2_inode *)out); rflags = 0;
	}

	int cached = 0;
	for (int i = 0; i < 4; i++)
		if (IN.cache_ino[i] == ino)
			cached = 1;
	/* where the format puts the inode */
	unsigned int group = (ino - 1) / IPG, idx = (ino - 1) % IPG;
	unsigned long long boff = (unsigned long long)idx * isize;
	unsigned long long blk = IN.itable + boff / BS;
	unsigned int off = boff % BS;
	int ino_bad = ino == 0 || ino > IN.inodes_count;
	int loc_bad = group > IN.group_desc_count || IN.itable == 0 || IN.itable < IN.first_data_block ||
		      IN.itable + IN.ibpg - 1 >= IN.blocks_count;
	int need_read = blk != IN.buffer_blk;
	int ignore = CS_IGNORE() || (rflags & READ_INODE_NOCSUM);
	int slot = (IN.cache_last + 1) % 4;
	unsigned int ncopy = bufsize > isize ? isize : bufsize;

	if (ino_bad) REACH("bad inode number");
	else if (cached) REACH("served from the cache");
	else if (loc_bad) REACH("bad inode table location");
	else if (need_read && IN.c.rd_fail) REACH("read error");
	else if (!IN.c.cv_ok && !ignore) REACH("mismatch reported");
	else if (!IN.c.cv_ok) REACH("mismatch tolerated (flag)");
	else REACH("match");

	CHECK(cs.wr.n == 0 && cs.st.n == 0, "a read path neither writes nor sets checksums");
	if (ino_bad) {
		CHECK(r == EXT2_ET_BAD_INODE_NUM && cs.rd.n == 0 && cs.vf.n == 0, "inode number out of range");
	} else if (cached) {
		CHECK(r == 0 && cs.rd.n == 0 && cs.vf.n == 0, "cached inode: no I/O");
	} else if (loc_bad) {
		CHECK(r != 0 && cs.rd.n == 0 && cs.vf.n == 0, "implausible inode table location: error before any I/O");
	} else if (need_read && IN.c.rd_fail) {
		CHECK(r == IN.c.rd_ret && cs.vf.n == 0, "read error returned, nothing verified");
		CHECK(IC.cache_last == IN.cache_last, "read error: cache bookkeeping untouched");
	} else {
		const unsigned char *iptr = (const unsigned char *)ENT[slot].inode;
		CHECK(g_itl_calls == 1 && g_itl_group == group, "inode table of the inode's own group");
		CHECK(cs.rd.n == (need_read ? 1u : 0u) && (!need_read || (cs.rd.id == blk && cs.rd.count == 1 && cs.rd.buf == (const void *)ICBUF)), "the inode-table block the format names is read (unless it is the block already buffered)");
		CHECK(cs.vf.n == 1 && cs.vf.seq > cs.rd.seq && cs.vf.id == ino && g_fs_seen == &FS, "verified exactly once, after the read, for this inode number");
		CHECK(cs.vf.buf == (const void *)iptr, "verified in the next cache slot's buffer");
		CHECK(cs.vf.wit == ICBUF[off + cs_k], "the bytes verified are the inode's bytes in the table block (ghost offset)");
		CHECK(r == ((IN.c.cv_ok || ignore) ? 0 : EXT2_ET_INODE_CSUM_INVALID), "checksum mismatch <=> EXT2_ET_INODE_CSUM_INVALID (without IGNORE flag / READ_INODE_NOCSUM)");
		CHECK(cs_k >= ncopy || out[cs_k] == cs.vf.wit, "the caller receives the bytes verified");
		if (IN.c.cv_ok) {
			CHECK(IC.cache_last == slot && ENT[slot].ino == ino, "verified inode entered into the next slot");
		} else {
			CHECK(IC.cache_last == IN.cache_last, "rejected inode: cache_last unchanged");
			CHECK(ENT[s].ino != ino, "rejected inode: no slot is labelled with its number");
		}
#ifdef VERIF_UNIT_read_inode2_cache_coherent
		if (!IN.c.cv_ok && s == (unsigned)slot && lab0 != 0) REACH("victim slot held another inode");
		CHECK(ENT[s].ino != lab0 || lab0 == 0 || ((unsigned char *)ENT[s].inode)[cs_k] == byte0, "a slot still labelled with another inode still holds that inode's bytes");
#endif
		CHECK(s == (unsigned)slot || (ENT[s].ino == lab0 && ((unsigned char *)ENT[s].inode)[cs_k] == byte0), "the other slots are untouched");
	}
}

/* RI_ISIZE / RI_BUF select the configuration (one unit each); without them: 256-byte inodes into a 256-byte buffer */
#ifndef RI_ISIZE
#define RI_ISIZE 256
#endif
#ifndef RI_BUF
#define RI_BUF 256
#endif
void h_read_inode2(void)
{
	LOAD_IN();
#if RI_BUF == 128
	if (IN.which == 2) run(RI_ISIZE, 128, 2); else
#endif
	if (IN.which == 1) run(RI_ISIZE, RI_BUF, 1);
	else run(RI_ISIZE, RI_BUF, 0);
	REACH("end");
}
