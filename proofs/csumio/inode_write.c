/*
 * C14 "set on every write path": lib/ext2fs/inode.c:ext2fs_write_inode2 (and ext2fs_write_inode_full / ext2fs_write_inode).
 *
 * Statement (property text + inodes.rst), for a writable handle:
 *   - the on-disk image of the inode is assembled in a private buffer from the caller's bytes (and, when the caller's buffer is
 *     shorter than the on-disk inode, from the inode as it is on disk);
 *   - unless the caller passed WRITE_INODE_NOCSUM, ext2fs_inode_csum_set (csum.c; definition proved in csum/inode_csum_set) is
 *     applied exactly once to that image, for this inode number, AFTER the last update of the image;
 *   - the image is then stored at the place the format names -- block inode_table(g) + (i * inode_size) / blocksize, byte offset
 *     (i * inode_size) % blocksize, g = (ino-1) / s_inodes_per_group, i = (ino-1) % s_inodes_per_group -- and that block is
 *     written exactly once, after the checksum was set; the bytes that reach the device at that offset are the bytes of the image
 *     at the time the checksum was set, INCLUDING the checksum field the setter stored (the setter stub stores a stamp in
 *     i_checksum_lo, le16 @0x7C; ghost offset cs_k ranges over the whole inode);
 *   - the table block is read first when it is not the block already buffered (the neighbours in the block are kept);
 *   - a failing setter / read / write is reported and (setter, read) nothing is written; success marks the handle changed.
 */
/* VERIF-UNIT
{
 "name": "write_inode2_csum",
 "props": [
  "C14"
 ],
 "level": "U/k",
 "tier": "quick",
 "harness": "h_write_inode2",
 "replace": [
  "memcpy",
  "ext2fs_get_mem",
  "ext2fs_free_mem",
  "ext2fs_read_inode2"
 ],
 "sources": [
  "lib/ext2fs/io_manager.c"
 ],
 "unwind": 6,
 "unwindset": {
  "ext2fs_write_inode2.1": 2
 },
 "unwind_reason": "cache update loop: cache_size = 4 (global bound 6); copy loop `while (length)` (unwindset 2): the inode size divides the block size, exactly one iteration -- proved by the unwinding assertion",
 "backend": "cadical",
 "cbmc_flags": [
  "--object-bits",
  "12"
 ],
 "defines": [
  "WI_ISIZE=256",
  "WI_BUF=256"
 ],
 "functions": [
  "lib/ext2fs/inode.c:ext2fs_write_inode2",
  "lib/ext2fs/inode.c:ext2fs_write_inode_full",
  "lib/ext2fs/inode.c:ext2fs_write_inode"
 ],
 "assumes": [
  "configuration of this unit: inode size 256 (dynamic revision), caller buffer 256 bytes; block size 1024; s_inodes_per_group = 8192 (the location arithmetic divides by it); inode number, inode table location, blocks count, flags arbitrary",
  "inode cache present with cache_size = 4, labels / buffer_blk arbitrary; no fs->write_inode override hook; not a journal device",
  "ext2fs_inode_csum_set is a monitor stub: stores the stamp IN.stamp in i_checksum_lo and may fail; ext2fs_inode_table_loc / ext2fs_blocks_count are stubs returning arbitrary values; io manager read / write are monitor stubs that may fail",
  "ext2fs_read_inode2 (same file; only called when the caller's buffer is shorter than the inode) replaced by a contract: arbitrary result, arbitrary bytes into the buffer it is given, no event",
  "libc memcpy replaced by its contract (bounds asserted; faithful at the ghost offset, other destination bytes unconstrained); ext2fs_get_mem / ext2fs_free_mem replaced by contracts (fresh object or EXT2_ET_NO_MEMORY; pointer cleared, object not released: use-after-free not checked here)",
  "little-endian host"
 ],
 "native": false
}
*/
/* VERIF-UNIT
{
 "name": "write_inode2_csum_partial",
 "props": [
  "C14"
 ],
 "level": "U/k",
 "tier": "thorough",
 "harness": "h_write_inode2",
 "replace": [
  "memcpy",
  "ext2fs_get_mem",
  "ext2fs_free_mem",
  "ext2fs_read_inode2"
 ],
 "sources": [
  "lib/ext2fs/io_manager.c"
 ],
 "unwind": 6,
 "unwindset": {
  "ext2fs_write_inode2.1": 2
 },
 "unwind_reason": "cache update loop: cache_size = 4 (global bound 6); copy loop `while (length)` (unwindset 2): the inode size divides the block size, exactly one iteration -- proved by the unwinding assertion",
 "backend": "cadical",
 "cbmc_flags": [
  "--object-bits",
  "12"
 ],
 "defines": [
  "WI_ISIZE=256",
  "WI_BUF=128"
 ],
 "functions": [
  "lib/ext2fs/inode.c:ext2fs_write_inode2",
  "lib/ext2fs/inode.c:ext2fs_write_inode_full",
  "lib/ext2fs/inode.c:ext2fs_write_inode"
 ],
 "assumes": [
  "configuration of this unit: inode size 256 (dynamic revision), caller buffer 128 bytes; block size 1024; s_inodes_per_group = 8192 (the location arithmetic divides by it); inode number, inode table location, blocks count, flags arbitrary",
  "inode cache present with cache_size = 4, labels / buffer_blk arbitrary; no fs->write_inode override hook; not a journal device",
  "ext2fs_inode_csum_set is a monitor stub: stores the stamp IN.stamp in i_checksum_lo and may fail; ext2fs_inode_table_loc / ext2fs_blocks_count are stubs returning arbitrary values; io manager read / write are monitor stubs that may fail",
  "ext2fs_read_inode2 (same file; only called when the caller's buffer is shorter than the inode) replaced by a contract: arbitrary result, arbitrary bytes into the buffer it is given, no event",
  "libc memcpy replaced by its contract (bounds asserted; faithful at the ghost offset, other destination bytes unconstrained); ext2fs_get_mem / ext2fs_free_mem replaced by contracts (fresh object or EXT2_ET_NO_MEMORY; pointer cleared, object not released: use-after-free not checked here)",
  "little-endian host"
 ],
 "native": false
}
*/
/* VERIF-UNIT
{
 "name": "write_inode2_csum_small",
 "props": [
  "C14"
 ],
 "level": "U/k",
 "tier": "thorough",
 "harness": "h_write_inode2",
 "replace": [
  "memcpy",
  "ext2fs_get_mem",
  "ext2fs_free_mem",
  "ext2fs_read_inode2"
 ],
 "sources": [
  "lib/ext2fs/io_manager.c"
 ],
 "unwind": 6,
 "unwindset": {
  "ext2fs_write_inode2.1": 2
 },
 "unwind_reason": "cache update loop: cache_size = 4 (global bound 6); copy loop `while (length)` (unwindset 2): the inode size divides the block size, exactly one iteration -- proved by the unwinding assertion",
 "backend": "cadical",
 "cbmc_flags": [
  "--object-bits",
  "12"
 ],
 "defines": [
  "WI_ISIZE=128",
  "WI_BUF=128"
 ],
 "functions": [
  "lib/ext2fs/inode.c:ext2fs_write_inode2",
  "lib/ext2fs/inode.c:ext2fs_write_inode_full",
  "lib/ext2fs/inode.c:ext2fs_write_inode"
 ],
 "assumes": [
  "configuration of this unit: inode size 128 (dynamic revision), caller buffer 128 bytes; block size 1024; s_inodes_per_group = 8192 (the location arithmetic divides by it); inode number, inode table location, blocks count, flags arbitrary",
  "inode cache present with cache_size = 4, labels / buffer_blk arbitrary; no fs->write_inode override hook; not a journal device",
  "ext2fs_inode_csum_set is a monitor stub: stores the stamp IN.stamp in i_checksum_lo and may fail; ext2fs_inode_table_loc / ext2fs_blocks_count are stubs returning arbitrary values; io manager read / write are monitor stubs that may fail",
  "ext2fs_read_inode2 (same file; only called when the caller's buffer is shorter than the inode) replaced by a contract: arbitrary result, arbitrary bytes into the buffer it is given, no event",
  "libc memcpy replaced by its contract (bounds asserted; faithful at the ghost offset, other destination bytes unconstrained); ext2fs_get_mem / ext2fs_free_mem replaced by contracts (fresh object or EXT2_ET_NO_MEMORY; pointer cleared, object not released: use-after-free not checked here)",
  "little-endian host"
 ],
 "native": false
}
*/
#include "verif.h"
#include "csumio_in.h"
#include "csumio_spec.h"

struct in_wi {
	struct cs_in c;
	unsigned int ino, inodes_count, ibpg, first_data_block;
	unsigned long long itable, blocks_count, buffer_blk;
	int wflags, which;
	unsigned int cache_ino[4];
	unsigned short stamp;
	unsigned char big_buf;
	long ri_ret;
};
struct in_wi IN;
#include "verif_in.h"

#include "config.h"
#include "ext2_fs.h"
#include "ext2fs.h"
unsigned int g_ri_calls;
errcode_t g_ri_ret;
errcode_t ext2fs_read_inode2(ext2_filsys fs, ext2_ino_t ino, struct ext2_inode *inode, int bufsize, int flags)
	REQUIRES(bufsize == 128 || bufsize == 256)
	REQUIRES(flags == READ_INODE_NOCSUM)	/* the old on-disk image may well have a stale checksum: it is about to be replaced */
	ASSIGNS(g_ri_calls, g_ri_ret, __CPROVER_object_whole(inode))
	ENSURES(g_ri_calls == OLD(g_ri_calls) + 1 && g_ri_ret == RET);

#define CS_MEMCPY_CONTRACT
#define CS_MEM_CONTRACTS
#include "lib/ext2fs/inode.c"
#include "csumio_common.h"

#ifndef WI_ISIZE
#define WI_ISIZE 256
#endif
#define BS 1024
#define IPG 8192u
#define SPEC_I_CHECKSUM_LO 0x7C		/* inodes.rst: osd2 @0x74, l_i_checksum_lo @0x74 + 0x8 */
static struct ext2_inode_cache IC;
static struct ext2_inode_cache_ent ENT[4];
static unsigned char *ICBUF;
ext2_filsys g_fs_seen;
unsigned int g_itl_group, g_itl_calls;

errcode_t ext2fs_inode_csum_set(ext2_filsys fs, ext2_ino_t inum, struct ext2_inode_large *inode)
{
	g_fs_seen = fs;
	if (!IN.c.set_fail) {
		((unsigned char *)inode)[SPEC_I_CHECKSUM_LO] = IN.stamp & 0xFF;
		((unsigned char *)inode)[SPEC_I_CHECKSUM_LO + 1] = IN.stamp >> 8;
	}
	return cs_ev_set(inode, inum);
}
int ext2fs_inode_csum_verify(ext2_filsys fs, ext2_ino_t inum, struct ext2_inode_large *inode) { return cs_ev_verify(inode, inum); }
blk64_t ext2fs_inode_table_loc(ext2_filsys fs, dgrp_t group) { g_itl_calls++; g_itl_group = group; return IN.itable; }
blk64_t ext2fs_blocks_count(struct ext2_super_block *super) { return IN.blocks_count; }

static void run(const int isize, const int bufsize, const int which)
{
	cs_build_fs(BS);
	ASSUME(cs_k < (unsigned)isize);
	memset(&SB, 0, sizeof(SB));
	SB.s_rev_level = EXT2_DYNAMIC_REV;
	SB.s_inode_size = isize;
	SB.s_inodes_per_group = IPG;
	SB.s_inodes_count = IN.inodes_count;
	SB.s_first_data_block = IN.first_data_block;
	FS.inode_blocks_per_group = IN.ibpg;
	g_itl_calls = g_ri_calls = 0;
	g_fs_seen = 0;
	g_ri_ret = 0;
	cs_gm_ret = 0;
	memset(&IC, 0, sizeof(IC));
	ICBUF = malloc(BS);
	ASSUME(ICBUF != 0);
	IC.buffer = ICBUF;
	IC.buffer_blk = IN.buffer_blk;
	IC.cache = ENT;
	IC.cache_size = 4;
	IC.cache_last = -1;
	IC.refcount = 1;
	for (int i = 0; i < 4; i++) {
		ENT[i].ino = IN.cache_ino[i];
		ENT[i].inode = malloc(isize);
		ASSUME(ENT[i].inode != 0);
	}
	FS.icache = &IC;
	unsigned char *in = malloc(bufsize);
	ASSUME(in != 0);
	const unsigned char in_k = cs_k < (unsigned)bufsize ? in[cs_k] : 0;
	const unsigned int ino = IN.ino;
	/* where the format puts the inode */
	unsigned int group = (ino - 1) / IPG, idx = (ino - 1) % IPG;
	unsigned long long boff = (unsigned long long)idx * isize;
	unsigned long long blk = IN.itable + boff / BS;
	unsigned int off = boff % BS;
	cs_wr_off = off;
	const int f0 = FS.flags;
	int wflags = IN.wflags;
	errcode_t r;
	if (which == 0)
		r = ext2fs_write_inode2(&FS, ino, (struct ext2_inode *)in, bufsize, wflags);
	else if (which == 1) {
		r = ext2fs_write_inode_full(&FS, ino, (struct ext2_inode *)in, bufsize); wflags = 0;
	} else {
		r = ext2fs_write_inode(&FS, ino, (struct ext2_inode *)in); wflags = 0;
	}

	int ino_bad = ino == 0 || ino > IN.inodes_count;
	int partial = bufsize < isize;
	int rw = (f0 & EXT2_FLAG_RW) != 0;
	int nocsum = (wflags & WRITE_INODE_NOCSUM) != 0;
	int loc_bad = IN.itable == 0 || IN.itable < IN.first_data_block || IN.itable + IN.ibpg - 1 >= IN.blocks_count;
	int need_read = blk != IN.buffer_blk;
	int pre_ok = !ino_bad && cs_gm_ret == 0 && !(partial && g_ri_ret != 0) && rw;

	if (ino_bad) REACH("bad inode number");
	else if (!rw) REACH("read-only handle");
	else if (!nocsum && IN.c.set_fail) REACH("set failed");
	else if (loc_bad) REACH("bad inode table location");
	else if (need_read && IN.c.rd_fail) REACH("read error");
	else if (IN.c.wr_fail) REACH("write error");
	else if (nocsum) REACH("written without checksum (WRITE_INODE_NOCSUM)");
	else REACH("written");
#if WI_BUF < WI_ISIZE
	REACH("short caller buffer");
#endif

	CHECK(cs.vf.n == 0, "a write path does not verify");
	if (ino_bad) {
		CHECK(r == EXT2_ET_BAD_INODE_NUM && cs.st.n == 0 && cs.wr.n == 0, "inode number out of range");
	} else if (!pre_ok) {
		CHECK(r != 0 && cs.st.n == 0 && cs.wr.n == 0, "no memory / old inode unreadable / read-only handle: error, nothing set, nothing written");
	} else if (!nocsum && IN.c.set_fail) {
		CHECK(r == IN.c.set_ret && cs.st.n == 1 && cs.wr.n == 0 && cs.rd.n == 0, "no checksum could be set: error returned, nothing written");
	} else {
		CHECK(g_ri_calls == (partial ? 1u : 0u), "the on-disk inode is fetched exactly when the caller's buffer is shorter");
		CHECK(cs.st.n == (nocsum ? 0u : 1u), "checksum set exactly once (not at all with WRITE_INODE_NOCSUM)");
		CHECK(nocsum || (cs.st.id == ino && g_fs_seen == &FS), "checksum set for this inode number");
		CHECK(nocsum || cs.st.buf != (const void *)in, "checksum set on the private image, not on the caller's buffer");
		if (!nocsum && cs_k < (unsigned)bufsize && cs_k != SPEC_I_CHECKSUM_LO && cs_k != SPEC_I_CHECKSUM_LO + 1)
			CHECK(cs.st.wit == in_k, "the image checksummed carries the caller's bytes");
		if (!nocsum && cs_k == SPEC_I_CHECKSUM_LO)
			CHECK(cs.st.wit == (IN.stamp & 0xFF), "the image carries the checksum the setter stored");
		if (loc_bad) {
			CHECK(r != 0 && cs.wr.n == 0 && cs.rd.n == 0, "implausible inode table location: error, nothing written");
		} else {
			CHECK(g_itl_calls == 1 && g_itl_group == group, "inode table of the inode's own group");
			CHECK(cs.rd.n == (need_read ? 1u : 0u) && (!need_read || (cs.rd.id == blk && cs.rd.buf == (const void *)ICBUF && cs.rd.count == 1)), "the table block is read first unless it is the block already buffered");
			if (need_read && IN.c.rd_fail) {
				CHECK(r == IN.c.rd_ret && cs.wr.n == 0, "read error: reported, nothing written");
			} else {
				CHECK(cs.wr.n == 1 && cs.wr.id == blk && cs.wr.count == 1 && cs.wr.buf == (const void *)ICBUF, "the table block the format names is written exactly once");
				CHECK(cs.wr.seq > cs.rd.seq, "read-modify-write order");
				CHECK(nocsum || cs.wr.seq > cs.st.seq, "checksum set BEFORE the block is handed to the channel");
				CHECK(nocsum || cs.wr.wit == cs.st.wit, "the bytes that reach the device at the inode's offset are the bytes the checksum was set on (ghost offset, checksum field included)");
				CHECK(!nocsum || cs_k >= (unsigned)bufsize || cs.wr.wit == in_k, "WRITE_INODE_NOCSUM: the caller's bytes reach the device unchanged");
				CHECK(r == (IN.c.wr_fail ? IN.c.wr_ret : 0), "write error reported");
				CHECK(FS.flags == (IN.c.wr_fail ? f0 : (f0 | EXT2_FLAG_CHANGED)), "handle marked changed exactly after a successful write");
			}
		}
	}
}

#ifndef WI_BUF
#define WI_BUF 256
#endif
void h_write_inode2(void)
{
	LOAD_IN();
#if WI_BUF == 128
	if (IN.which == 2) run(WI_ISIZE, 128, 2); else
#endif
	if (IN.which == 1) run(WI_ISIZE, WI_BUF, 1);
	else run(WI_ISIZE, WI_BUF, 0);
	REACH("end");
}
