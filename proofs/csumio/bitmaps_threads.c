/*
 * C17 (sequential half of "loading the bitmaps with any number of threads yields the same bitmaps and flags as single-threaded
 * loading") and C14 (a worker's checksum error reaches the caller): lib/ext2fs/rw_bitmaps.c:ext2fs_rw_bitmaps, the code
 * AROUND the worker threads -- partitioning the groups, and the aggregation loop that runs after the workers were joined.
 *
 * THREAD INTERLEAVINGS ARE NOT MODELLED.  pthread_create is a stub that does not run anything concurrently: it records the
 * group range the worker was given and stores an arbitrary outcome (rbt_retval, rbt_tail_flags) into the worker's info block --
 * the outcome a worker produces is the subject of unit read_bitmaps_group_step.  pthread_join is a stub returning an arbitrary
 * code.  What is verified is purely sequential code of ext2fs_rw_bitmaps:
 *   partition   the ranges handed to the workers are non-empty, contiguous and disjoint, start at group 0 and end at the last
 *               group: every group is loaded by exactly one worker (checked in the pthread_create stub, thread by thread);
 *   aggregation (loop cut by an in-place loop contract, U/iter)
 *               - tail flags: the flags handed to read_bitmaps_range_end are the bitwise OR of ALL workers' rbt_tail_flags:
 *                 lower bound pointwise for one ghost worker t (its flags are contained), upper bound for an arbitrary mask M
 *                 containing every worker's flags (nothing outside M) -- exactly what single-threaded loading computes with
 *                 its single `|=` accumulator;
 *               - result: the FIRST error wins, in the order: thread creation, then per worker in thread order (join, then the
 *                 worker's own result, e.g. EXT2_ET_BLOCK_BITMAP_CSUM_INVALID), then pthread_attr_destroy, then
 *                 read_bitmaps_range_end; a worker's error is never overwritten by a later success;
 *               - on any error the half-loaded bitmaps are dropped (read_bitmaps_cleanup_on_error), on success
 *                 read_bitmaps_range_end is what publishes the flags;
 *   the channel's cache is switched off before the workers start and on again afterwards.
 */
/* VERIF-UNIT
{
 "name": "rw_bitmaps_join",
 "props": [
  "C17",
  "C14"
 ],
 "level": "U/iter",
 "tier": "quick",
 "harness": "h_rw_bitmaps",
 "replace": [
  "read_bitmaps_range_prepare",
  "read_bitmaps_range_end",
  "read_bitmaps_cleanup_on_error",
  "read_bitmaps_range",
  "write_bitmaps"
 ],
 "loop_contracts": true,
 "unwind": 16,
 "unwind_reason": "the join loop is cut by its loop contract; the thread-creation loop runs num_threads <= 4 times (enumerated); bound 16 covers the DFCC library's loops over assigns targets",
 "cbmc_flags": [
  "--object-bits",
  "10"
 ],
 "functions": [
  "lib/ext2fs/rw_bitmaps.c:ext2fs_rw_bitmaps"
 ],
 "assumes": [
  "NEEDS the hooks in hooks-pending/csr.diff (named loop anchors in lib/ext2fs/rw_bitmaps.c and lib/ext2fs/csum.c): tier wip until they are merged; green with VERIF_REPO=<tree with the hooks>",
  "THREAD INTERLEAVINGS NOT MODELLED: pthread_create / pthread_join are sequential stubs (see file comment); data races are outside this unit",
  "(num_threads, group_desc_count, flex_bg) ENUMERATED, one call site each: (2,2,no) (2,37,no) (3,100,no) (4,4,no) (4,1001,no) (2,40,yes) (4,100,yes) -- the function lowers num_threads to the group count when there are fewer groups, so with symbolic values the partition has a symbolic divisor and symbolic loop bounds (formula > 10 GB); s_log_groups_per_flex = 4; the AGGREGATION statements do not depend on these values; channel has CHANNEL_FLAGS_THREADS, no EXT2_FLAG_IMAGE_FILE, flags = BLOCK | INODE read request",
  "read_bitmaps_range_prepare / _end / _cleanup_on_error / read_bitmaps_range / write_bitmaps replaced by contracts (arbitrary result, call recorded; _end: REQUIRES = the two tail-flag statements); calloc is a unit stub (malloc + memset) that does not fail; free is the CBMC library model",
  "a worker's outcome is arbitrary; every worker's tail flags lie inside the ghost mask M (by construction of the stub: M is arbitrary)"
 ],
 "native": false
}
*/
/* VERIF-UNIT
{
 "name": "rw_bitmaps_join_nomem",
 "props": [
  "C17",
  "C14"
 ],
 "level": "U/iter",
 "tier": "obs",
 "harness": "h_rw_bitmaps",
 "replace": [
  "read_bitmaps_range_prepare",
  "read_bitmaps_range_end",
  "read_bitmaps_cleanup_on_error",
  "read_bitmaps_range",
  "write_bitmaps"
 ],
 "loop_contracts": true,
 "unwind": 16,
 "unwind_reason": "the join loop is cut by its loop contract; the thread-creation loop runs num_threads <= 4 times (enumerated); bound 16 covers the DFCC library's loops over assigns targets",
 "cbmc_flags": [
  "--object-bits",
  "10"
 ],
 "functions": [
  "lib/ext2fs/rw_bitmaps.c:ext2fs_rw_bitmaps"
 ],
 "assumes": [
  "NEEDS the hooks in hooks-pending/csr.diff (named loop anchors in lib/ext2fs/rw_bitmaps.c and lib/ext2fs/csum.c): tier wip until they are merged; green with VERIF_REPO=<tree with the hooks>",
  "as rw_bitmaps_join, but calloc may fail: observation unit -- the precondition of read_bitmaps_range_end (all workers were started) FAILS when the second calloc fails: ext2fs_rw_bitmaps then returns 0 without having allocated or read any bitmap (allocation-failure path, outside the statements of C14/C17/C06; reported as a side observation)"
 ],
 "native": false,
 "defines": [
  "RJ_CALLOC_MAY_FAIL"
 ]
}
*/
#include "verif.h"

struct in_rj {
	unsigned int group_desc_count, fs_flags, feature_ro_compat, feature_incompat;
	int nt_sel;
	unsigned int t;			/* ghost worker */
	int mask;			/* ghost mask M */
	int wtf[4];			/* worker tail flags (before masking) */
	long wret[4], jret[4], cret[4];	/* worker result, join result, create result */
	unsigned char cfail[4];
	long attr_init_ret, attr_destroy_ret, prepare_ret, end_ret;
};
struct in_rj IN;
#include "verif_in.h"
unsigned long long verif_k;

#include "config.h"
#include <pthread.h>
#include "ext2_fs.h"
#include "ext2fs.h"

struct rj_mon {
	errcode_t first;		/* ghost fold: first error so far, in the documented order */
	unsigned int joins;
};
struct rj_mon rj;
/* written outside the cut loop only */
unsigned int g_created, g_prev_end, g_prepare_calls, g_end_calls, g_cleanup_calls, g_cache_off, g_cache_on, g_seq, g_cache_off_seq, g_cache_on_seq, g_first_create_seq, g_end_seq;
int g_t_flags;			/* tail flags of the ghost worker t */
int g_end_tail, g_nthreads;
static struct struct_ext2_filsys FS;
static void *g_infos[4];

static errcode_t read_bitmaps_range_prepare(ext2_filsys fs, int flags)
	ASSIGNS(g_prepare_calls)
	ENSURES(g_prepare_calls == OLD(g_prepare_calls) + 1 && RET == (errcode_t)IN.prepare_ret);
static errcode_t read_bitmaps_range_end(ext2_filsys fs, int flags, int tail_flags)
	/* upper bound: nothing that no worker reported */
	REQUIRES((tail_flags & ~IN.mask) == 0)
	/* lower bound: the ghost worker's flags are in */
	REQUIRES((tail_flags & g_t_flags) == g_t_flags)
	REQUIRES(rj.first == 0 && g_created == (unsigned)g_nthreads)
	ASSIGNS(g_end_calls, g_end_tail)
	ENSURES(g_end_calls == OLD(g_end_calls) + 1 && g_end_tail == tail_flags && RET == (errcode_t)IN.end_ret);
static void read_bitmaps_cleanup_on_error(ext2_filsys fs, int flags)
	ASSIGNS(g_cleanup_calls)
	ENSURES(g_cleanup_calls == OLD(g_cleanup_calls) + 1);
static errcode_t read_bitmaps_range(ext2_filsys fs, int flags, dgrp_t start, dgrp_t end)
	REQUIRES(0)	/* the single-threaded fallback is not taken in the situation of this unit */
	ASSIGNS();
static errcode_t write_bitmaps(ext2_filsys fs, int do_inode, int do_block)
	REQUIRES(0)
	ASSIGNS();

/* join loop: i counts the workers joined so far */
#define VERIF_INV_RW_BITMAPS_JOIN \
	__CPROVER_assigns(i, rc, retval, tail_flags, rj) \
	__CPROVER_loop_invariant(0 <= i && i <= num_threads) \
	__CPROVER_loop_invariant(retval == rj.first) \
	__CPROVER_loop_invariant((tail_flags & ~IN.mask) == 0) \
	__CPROVER_loop_invariant(!((int)IN.t < i && IN.t < g_created) || (tail_flags & g_t_flags) == g_t_flags) \
	__CPROVER_loop_invariant(g_created == (unsigned)num_threads || rj.first != 0) \
	__CPROVER_decreases(num_threads - i)

#include "lib/ext2fs/rw_bitmaps.c"

/* ---- stubs ---- */
errcode_t io_channel_set_options(io_channel channel, const char *opts)
{
	g_seq++;
	if (strcmp(opts, "cache=off") == 0) { g_cache_off++; g_cache_off_seq = g_seq; }
	else if (strcmp(opts, "cache=on") == 0) { g_cache_on++; g_cache_on_seq = g_seq; }
	else CHECK(0, "only cache=off / cache=on are requested");
	return 0;
}
int pthread_attr_init(pthread_attr_t *a) { return (int)IN.attr_init_ret; }
int pthread_attr_destroy(pthread_attr_t *a) { return (int)IN.attr_destroy_ret; }
int pthread_create(pthread_t *tid, const pthread_attr_t *attr, void *(*fn)(void *), void *arg)
{
	struct read_bitmaps_thread_info *info = arg;
	unsigned int n = g_created;
	g_seq++;
	if (n == 0) g_first_create_seq = g_seq;
	CHECK(fn == read_bitmaps_thread, "the worker is read_bitmaps_thread");
	CHECK(n < 4 && n < (unsigned)g_nthreads, "no more workers than requested");
	CHECK(info->rbt_fs == &FS && info->rbt_tail_flags == 0 && info->rbt_mutex != 0, "worker set-up: handle, clean tail flags, the shared mutex");
	/* partition: contiguous, disjoint, non-empty, from group 0 to the last group */
	CHECK(info->rbt_grp_start == (n == 0 ? 0u : g_prev_end + 1), "partition: a worker starts right behind its predecessor (the first at group 0)");
	CHECK(info->rbt_grp_start <= info->rbt_grp_end + 1 && info->rbt_grp_end < FS.group_desc_count, "partition: range inside the filesystem (it may be empty: start == end + 1, e.g. the last of 2 workers on 2 groups)");
	CHECK(n != (unsigned)g_nthreads - 1 || info->rbt_grp_end == FS.group_desc_count - 1, "partition: the last worker ends at the last group");
	if (IN.cfail[n]) {
		REACH("thread creation fails");
		rj.first = (errcode_t)(int)IN.cret[n];	/* creation failure: the first error (nothing failed before) */
		return (int)IN.cret[n];
	}
	g_prev_end = info->rbt_grp_end;
	g_infos[n] = info;
	/* the worker's outcome (not run concurrently; arbitrary) */
	info->rbt_retval = (errcode_t)IN.wret[n];
	info->rbt_tail_flags = IN.wtf[n] & IN.mask;
	if (n == IN.t) g_t_flags = info->rbt_tail_flags;
	*tid = (pthread_t)(n + 1);
	g_created = n + 1;
	return 0;
}
int pthread_join(pthread_t tid, void **ret)
{
	unsigned int idx = (unsigned int)tid - 1;
	CHECK(tid != 0 && idx < g_created, "only created workers are joined");
	struct read_bitmaps_thread_info *info = g_infos[idx & 3];
	int jr = (int)IN.jret[idx & 3];
	rj.joins++;
	REACH("a worker is joined");
	if (info->rbt_tail_flags) REACH("a worker reports tail flags");
	if (info->rbt_retval) REACH("a worker reports an error");
	/* ghost fold, written from the statement: first error in thread order -- join result, then the worker's own result */
	if (rj.first == 0)
		rj.first = jr ? (errcode_t)jr : info->rbt_retval;
	return jr;
}
int pthread_mutex_lock(pthread_mutex_t *m) { return 0; }
int pthread_mutex_unlock(pthread_mutex_t *m) { return 0; }
long sysconf(int name) { return 4; }
/* calloc: the two arrays (thread ids, worker info blocks).  Unit rw_bitmaps_join: allocation succeeds.  Unit
 * rw_bitmaps_join_nomem (tier obs): it may fail -- and shows the side observation described at the harness. */
unsigned int g_callocs, g_calloc_failed;
void *calloc(size_t n, size_t sz)
{
	void *p = malloc(n * sz);
	g_callocs++;
#ifdef RJ_CALLOC_MAY_FAIL
	if (!p) {
		if (!g_calloc_failed) g_calloc_failed = g_callocs;
		return 0;
	}
#else
	ASSUME(p != 0);
#endif
	memset(p, 0, n * sz);
	return p;
}

static struct ext2_super_block SB;
static struct struct_io_channel IO;
static void run(const int num_threads, const unsigned int count, const int flex)
{
	memset(&FS, 0, sizeof(FS));
	memset(&IO, 0, sizeof(IO));
	memset(&SB, 0, sizeof(SB));
	memset(&rj, 0, sizeof(rj));
	IO.flags = CHANNEL_FLAGS_THREADS;
	FS.magic = EXT2_ET_MAGIC_EXT2FS_FILSYS;
	FS.super = &SB;
	FS.io = &IO;
	FS.blocksize = 1024;
	FS.flags = IN.fs_flags & ~EXT2_FLAG_IMAGE_FILE;
	FS.group_desc_count = count;
	SB.s_feature_ro_compat = IN.feature_ro_compat;
	SB.s_feature_incompat = flex ? EXT4_FEATURE_INCOMPAT_FLEX_BG : 0;
	SB.s_log_groups_per_flex = 4;
	ASSUME(IN.t < (unsigned)num_threads);
	for (int n = 0; n < 4; n++)
		ASSUME((int)IN.cret[n] != 0 && (int)IN.cret[n] == IN.cret[n] && (int)IN.jret[n] == IN.jret[n]);
	ASSUME((int)IN.attr_init_ret == IN.attr_init_ret && (int)IN.attr_destroy_ret == IN.attr_destroy_ret);
	g_created = g_prev_end = g_prepare_calls = g_end_calls = g_cleanup_calls = g_cache_off = g_cache_on = g_seq = 0;
	g_cache_off_seq = g_cache_on_seq = g_first_create_seq = 0;
	g_t_flags = 0; g_end_tail = 0;
	g_callocs = g_calloc_failed = 0;
	g_nthreads = num_threads;
	verif_k = IN.t;

	errcode_t r = ext2fs_rw_bitmaps(&FS, EXT2FS_BITMAPS_BLOCK | EXT2FS_BITMAPS_INODE, num_threads);

	/* SIDE OBSERVATION (allocation failure, outside C14/C17's statements; unit rw_bitmaps_join_nomem): when the calloc of the
	 * worker info blocks fails the code does `goto out` with retval still 0 (the result of pthread_attr_init): no bitmap is
	 * allocated or read, read_bitmaps_range_end is called (its precondition fails in that unit) and the function returns 0. */
	if (g_calloc_failed == 1) {
		CHECK(r == ENOMEM && g_created == 0, "no memory for the thread ids: ENOMEM");
		return;
	}
	if (IN.attr_init_ret) {
		CHECK(r == (errcode_t)IN.attr_init_ret && g_created == 0, "attribute set-up failed: that error, no worker started");
		return;
	}
	CHECK(g_cache_off == 1 && (g_created == 0 || g_cache_off_seq < g_first_create_seq), "cache switched off before the first worker starts");
	if (g_prepare_calls && IN.prepare_ret) {
		CHECK(g_created == 0, "bitmaps could not be prepared: no worker started");
	}
	if (g_created == (unsigned)num_threads) {
		/* everything was started: result = first error in the documented order */
		errcode_t want = rj.first ? rj.first : IN.attr_destroy_ret ? (errcode_t)(int)IN.attr_destroy_ret : (errcode_t)IN.end_ret;
		CHECK(r == want, "result: first error wins (workers in thread order, then attr_destroy, then range_end)");
		CHECK(g_end_calls == ((rj.first == 0 && IN.attr_destroy_ret == 0) ? 1u : 0u), "the flags are published (read_bitmaps_range_end) exactly when nothing failed");
	}
	CHECK(r == 0 || g_cleanup_calls == 1 || g_prepare_calls == 0, "any error after the bitmaps were allocated: half-loaded bitmaps dropped");
	CHECK(r != 0 || (g_end_calls == 1 && g_cleanup_calls == 0), "success: flags published, bitmaps kept");
	CHECK(rj.first == 0 || r != 0, "a worker's error (e.g. a bitmap checksum error) is never turned into success");
	CHECK(g_prepare_calls == 0 || (g_cache_on == 1 && g_cache_on_seq > g_cache_off_seq), "cache switched on again afterwards");
}

void h_rw_bitmaps(void)
{
	LOAD_IN();
	/* (threads, groups, flex_bg) ENUMERATED, one call site each: the partition arithmetic divides by the thread count, which
	 * the function itself lowers to the group count when there are fewer groups -- with symbolic values that is a symbolic
	 * divisor and symbolic loop bounds (formula > 10 GB).  With flex_bg the share is rounded down to a multiple of 16. */
	switch (IN.nt_sel) {
	case 0: run(2, 2, 0); break;
	case 1: run(2, 37, 0); break;
	case 2: run(3, 100, 0); break;
	case 3: run(4, 4, 0); break;
	case 4: run(4, 1001, 0); break;
	case 5: run(2, 40, 1); break;
	default: run(4, 100, 1); break;
	}
	REACH("end");
}
