/*
 * C14 / C06: lib/ext2fs/extent.c:ext2fs_extent_get, case EXT2_EXTENT_DOWN / EXT2_EXTENT_DOWN_AND_LAST, and
 * ext2fs_extent_open2 (inode root).
 *
 * Statement (from the property texts, not from the code):
 *  C06  "extent headers are bounds-checked before use": the bytes of a child block read from the device are ARBITRARY.
 *       Before anything derives a position or a length from the header (eh_max gives the position of the checksum tail
 *       and the number of bytes fed to the CRC; eh_entries gives the last valid slot) the header must have been accepted
 *       for a node of exactly fs->blocksize bytes (root: the 60 bytes of i_block).  This is stated as the REQUIRES of the
 *       contract that REPLACES ext2fs_extent_block_csum_verify (csum.c):  magic valid and 12 + 12*eh_max + 4 <= blocksize
 *       -- the same precondition under which unit csum/extent_block_csum_verify proves that function memory safe --
 *       and is therefore checked at the call site inside the real ext2fs_extent_get.
 *  C14  "changing a covered byte is detected: the library reports a checksum error": when the verifier answers "mismatch"
 *       (and EXT2_FLAG_IGNORE_CSUM_ERRORS is not set) the call fails; it fails with EXT2_ET_EXTENT_CSUM_INVALID when the
 *       node has at least one entry (an empty node is refused with EXT2_ET_EXTENT_NO_DOWN whatever its checksum), and in
 *       that case the handle has been positioned on the child's first (DOWN) / last (DOWN_AND_LAST) entry as the code
 *       documents, so that e2fsck can inspect and repair the block.  With the flag the verifier is not consulted.
 *       A header that is not acceptable => EXT2_ET_EXTENT_HEADER_BAD, handle->level restored, checksum never looked at.
 *       A failed read => that error, level unchanged.
 *  Handle invariant HINV(l) (established by ext2fs_extent_open2 for l = 0 -- unit extent_open2 -- and by the DOWN step
 *  for the new level -- this unit): entries == le16 eh_entries and max_entries == le16 eh_max of the node buffer,
 *  entries <= max_entries, 12 + 12*max_entries <= node size, and either curr == NULL and left == entries, or
 *  curr == buf + 12 + 12*j with 0 <= j < entries and left == entries - 1 - j.
 *
 * Not modelled: contents delivered by the device are "whatever is in the buffer" (fresh malloc'ed memory is arbitrary for
 * the verifier; the read stub only records the event and may fail).
 */
/* VERIF-UNIT
{
 "name": "extent_get_down_1k",
 "props": [
  "C14",
  "C06"
 ],
 "level": "P",
 "tier": "quick",
 "harness": "h_extent_get_down",
 "replace": [
  "ext2fs_extent_block_csum_verify"
 ],
 "sources": [
  "lib/ext2fs/io_manager.c"
 ],
 "unwind": 6,
 "unwind_reason": "harness caps the tree depth at 3: the cycle-check walk `for (l = handle->level ...)` runs <= 3 times; the `goto retry` back edge is only taken for NEXT_LEAF/PREV_LEAF/LAST_LEAF, not for the ops of this unit (unwinding assertions on)",
 "functions": [
  "lib/ext2fs/extent.c:ext2fs_extent_get"
 ],
 "assumes": [
  "op is EXT2_EXTENT_DOWN or EXT2_EXTENT_DOWN_AND_LAST, no flag bits outside EXT2_EXTENT_MOVE_MASK (the function ignores them)",
  "handle satisfies the handle invariant HINV at the current level (see file comment); current level 0, 1 or 2 of a tree of depth <= 3 (harness cap); levels above the current one only provide .blk (nothing else of them is read)",
  "fs->blocksize = 1024 (one unit per enumerated block size); parent node: 60 bytes (level 0, i_block) or blocksize bytes, content arbitrary within HINV; child buffer absent (allocated by the function) or present with exactly blocksize bytes",
  "device content arbitrary: the read stub records the event, may fail with an arbitrary code, and leaves the (arbitrary) buffer as the block content",
  "ext2fs_extent_block_csum_verify replaced by a contract: REQUIRES = the precondition of unit csum/extent_block_csum_verify (magic, tail inside the block) plus 'this buffer was read before'; returns an arbitrary 0/1",
  "no frame enforcement (no `enforce`): statements are harness CHECKs, callee preconditions and CBMC's built-in memory-safety checks on the real function"
 ],
 "native": false,
 "defines": [
  "EG_BS=1024"
 ],
 "cbmc_flags": [
  "--object-bits",
  "10"
 ],
 "timeout": 600
}
*/
/* VERIF-UNIT
{
 "name": "extent_get_down_4k_root",
 "props": [
  "C14",
  "C06"
 ],
 "level": "P",
 "tier": "quick",
 "harness": "h_extent_get_down",
 "replace": [
  "ext2fs_extent_block_csum_verify"
 ],
 "sources": [
  "lib/ext2fs/io_manager.c"
 ],
 "unwind": 6,
 "unwind_reason": "harness caps the tree depth at 3: the cycle-check walk `for (l = handle->level ...)` runs <= 3 times; the `goto retry` back edge is only taken for NEXT_LEAF/PREV_LEAF/LAST_LEAF, not for the ops of this unit (unwinding assertions on)",
 "functions": [
  "lib/ext2fs/extent.c:ext2fs_extent_get"
 ],
 "assumes": [
  "op is EXT2_EXTENT_DOWN or EXT2_EXTENT_DOWN_AND_LAST, no flag bits outside EXT2_EXTENT_MOVE_MASK (the function ignores them)",
  "handle satisfies the handle invariant HINV at the current level (see file comment); current level 0 (parent = inode root) of a tree of depth <= 3; levels above the current one only provide .blk (nothing else of them is read)",
  "fs->blocksize = 4096 (one unit per enumerated block size); parent node: 60 bytes (level 0, i_block) or blocksize bytes, content arbitrary within HINV; child buffer absent (allocated by the function) or present with exactly blocksize bytes",
  "device content arbitrary: the read stub records the event, may fail with an arbitrary code, and leaves the (arbitrary) buffer as the block content",
  "ext2fs_extent_block_csum_verify replaced by a contract: REQUIRES = the precondition of unit csum/extent_block_csum_verify (magic, tail inside the block) plus 'this buffer was read before'; returns an arbitrary 0/1",
  "no frame enforcement (no `enforce`): statements are harness CHECKs, callee preconditions and CBMC's built-in memory-safety checks on the real function"
 ],
 "native": false,
 "defines": [
  "EG_BS=4096",
  "EG_LEVEL=0"
 ],
 "cbmc_flags": [
  "--object-bits",
  "10"
 ],
 "timeout": 600
}
*/
/* VERIF-UNIT
{
 "name": "extent_get_down_4k_int",
 "props": [
  "C14",
  "C06"
 ],
 "level": "P",
 "tier": "thorough",
 "harness": "h_extent_get_down",
 "replace": [
  "ext2fs_extent_block_csum_verify"
 ],
 "sources": [
  "lib/ext2fs/io_manager.c"
 ],
 "unwind": 6,
 "unwind_reason": "harness caps the tree depth at 3: the cycle-check walk `for (l = handle->level ...)` runs <= 3 times; the `goto retry` back edge is only taken for NEXT_LEAF/PREV_LEAF/LAST_LEAF, not for the ops of this unit (unwinding assertions on)",
 "functions": [
  "lib/ext2fs/extent.c:ext2fs_extent_get"
 ],
 "assumes": [
  "op is EXT2_EXTENT_DOWN or EXT2_EXTENT_DOWN_AND_LAST, no flag bits outside EXT2_EXTENT_MOVE_MASK (the function ignores them)",
  "handle satisfies the handle invariant HINV at the current level (see file comment); current level 1 (parent = interior block) of a tree of depth <= 3; levels above the current one only provide .blk (nothing else of them is read)",
  "fs->blocksize = 4096 (one unit per enumerated block size); parent node: 60 bytes (level 0, i_block) or blocksize bytes, content arbitrary within HINV; child buffer absent (allocated by the function) or present with exactly blocksize bytes",
  "device content arbitrary: the read stub records the event, may fail with an arbitrary code, and leaves the (arbitrary) buffer as the block content",
  "ext2fs_extent_block_csum_verify replaced by a contract: REQUIRES = the precondition of unit csum/extent_block_csum_verify (magic, tail inside the block) plus 'this buffer was read before'; returns an arbitrary 0/1",
  "no frame enforcement (no `enforce`): statements are harness CHECKs, callee preconditions and CBMC's built-in memory-safety checks on the real function"
 ],
 "native": false,
 "defines": [
  "EG_BS=4096",
  "EG_LEVEL=1"
 ],
 "cbmc_flags": [
  "--object-bits",
  "10"
 ],
 "timeout": 600
}
*/
#include "verif.h"

struct in_eg {
	unsigned int bs_sel, fs_flags, ino;
	unsigned char op_last, have_newbuf, image_file, same_io, rd_fail, read64, cv_ok;
	int level, max_depth;
	int j;				/* index of the current entry of the parent node, -1: none */
	int visit;
	unsigned long long blk[4], end_blk;
	long rd_ret;
};
struct in_eg IN;
#include "verif_in.h"
#include "csumio_spec.h"

#include "config.h"
#include "ext2_fs.h"
#include "ext2fs.h"
#include "ext3_extents.h"

/* ---- ghost monitor ---- */
unsigned int g_rd_calls, g_cv_calls;
const void *g_rd_buf, *g_cv_eh;
unsigned long long g_rd_blk;
unsigned int g_cv_ino;
int g_cv_ret;
ext2_filsys g_cv_fs;

int ext2fs_extent_block_csum_verify(ext2_filsys fs, ext2_ino_t inum, struct ext3_extent_header *eh)
	/* C06: the header of THIS block was accepted for a node of blocksize bytes */
	REQUIRES(CS_EH_MAGIC(eh) == CS_EXT_MAGIC)
	REQUIRES(CS_EXT_TAIL_OFF(eh) + 4ul <= fs->blocksize)
	/* ... and it is the buffer the block was just read into */
	REQUIRES(g_rd_calls == 1 && g_rd_buf == (const void *)eh)
	REQUIRES(g_cv_calls == 0)
	ASSIGNS(g_cv_calls, g_cv_eh, g_cv_ino, g_cv_ret, g_cv_fs)
	ENSURES(g_cv_calls == 1 && g_cv_eh == (const void *)eh && g_cv_ino == inum && g_cv_fs == fs)
	/* the answer is an input of the harness (IN.cv_ok): canaries can then be phrased over the situation */
	ENSURES(RET == (IN.cv_ok ? 1 : 0) && g_cv_ret == RET);

#include "lib/ext2fs/extent.c"

static struct struct_ext2_filsys FS;
static struct ext2_super_block SB;
static struct struct_io_channel IO, IO2;
static struct struct_io_manager MGR;

static errcode_t st_read(const void *buf, unsigned long long block, int count)
{
	CHECK(count == 1, "exactly one block is read");
	g_rd_calls++;
	g_rd_buf = buf;
	g_rd_blk = block;
	return IN.rd_fail ? (errcode_t)IN.rd_ret : 0;
}
static errcode_t st_read_blk64(io_channel ch, unsigned long long block, int count, void *buf) { return st_read(buf, block, count); }
static errcode_t st_read_blk(io_channel ch, unsigned long block, int count, void *buf) { return st_read(buf, block, count); }

static struct ext2_extent_handle HND;
static struct extent_path PATH[4];
#define HDR 12
static void run(const int level, const unsigned int bs)
{
	memset(&FS, 0, sizeof(FS));
	memset(&IO, 0, sizeof(IO));
	memset(&MGR, 0, sizeof(MGR));
	MGR.magic = EXT2_ET_MAGIC_IO_MANAGER;
	MGR.read_blk = st_read_blk;
	if (IN.read64)
		MGR.read_blk64 = st_read_blk64;
	IO.magic = EXT2_ET_MAGIC_IO_CHANNEL;
	IO.manager = &MGR;
	IO.block_size = bs;
	FS.magic = EXT2_ET_MAGIC_EXT2FS_FILSYS;
	FS.super = &SB;		/* content arbitrary (static storage is havocked by DFCC; nothing here reads it) */
	FS.io = &IO;
	FS.image_io = IN.same_io ? &IO : &IO2;
	FS.blocksize = bs;
	FS.flags = IN.fs_flags;
	if (!IN.image_file)
		FS.flags &= ~EXT2_FLAG_IMAGE_FILE;
	else
		FS.flags |= EXT2_FLAG_IMAGE_FILE;
	ASSUME(!IN.rd_fail || IN.rd_ret != 0);

	ASSUME(IN.max_depth >= 1 && IN.max_depth <= 3);
	ASSUME(level <= IN.max_depth);
	struct ext2_extent_handle *h = &HND;
	struct extent_path *P = PATH;
	memset(h, 0, sizeof(*h));
	h->magic = EXT2_ET_MAGIC_EXTENT_HANDLE;
	h->fs = &FS;
	h->ino = IN.ino;
	h->level = level;
	h->max_depth = IN.max_depth;
	h->max_paths = IN.max_depth + 1;
	h->path = P;
	for (int l = 0; l <= IN.max_depth; l++) {
		memset(&P[l], 0, sizeof(P[l]));
		P[l].blk = l < 4 ? IN.blk[l] : 0;
	}
	/* parent node: exactly its size, arbitrary content, HINV */
	unsigned int psize = level == 0 ? 60 : bs;
	unsigned char *pbuf = malloc(psize);
	ASSUME(pbuf != 0);
	unsigned int pent = CS_EH_ENTRIES(pbuf), pmax = CS_EH_MAX(pbuf);
	ASSUME(pent <= pmax && HDR + 12ul * pmax <= psize);
	ASSUME(IN.j >= -1 && IN.j < (int)pent);
	P[level].buf = (char *)pbuf;
	P[level].entries = pent;
	P[level].max_entries = pmax;
	P[level].curr = IN.j < 0 ? 0 : pbuf + HDR + 12 * IN.j;
	P[level].left = IN.j < 0 ? (int)pent : (int)pent - 1 - IN.j;
	P[level].visit_num = IN.visit;
	P[level].end_blk = IN.end_blk;
	/* child buffer: absent or exactly one block */
	unsigned char *cbuf0 = 0;
	if (level < IN.max_depth && IN.have_newbuf) {
		cbuf0 = malloc(bs);
		ASSUME(cbuf0 != 0);
		P[level + 1].buf = (char *)cbuf0;
	}
	g_rd_calls = g_cv_calls = 0;
	g_rd_buf = g_cv_eh = 0;
	g_cv_ret = -1;

	/* one call site per op: the op is then a constant inside the inlined body and symbolic execution drops the
	 * `goto retry` back edge (NEXT_LEAF / PREV_LEAF / LAST_LEAF only) instead of unwinding the whole body */
	struct ext2fs_extent ext;
	errcode_t r;
	if (IN.op_last)
		r = ext2fs_extent_get(h, EXT2_EXTENT_DOWN_AND_LAST, &ext);
	else
		r = ext2fs_extent_get(h, EXT2_EXTENT_DOWN, &ext);

	int ignore = (FS.flags & EXT2_FLAG_IGNORE_CSUM_ERRORS) != 0;
	if (IN.j < 0 || level >= IN.max_depth) {
		REACH("no down");
		CHECK(r == EXT2_ET_EXTENT_NO_DOWN && h->level == level && g_rd_calls == 0 && g_cv_calls == 0, "nothing below: EXT2_ET_EXTENT_NO_DOWN, nothing read");
	} else {
		unsigned char *cbuf = (unsigned char *)P[level + 1].buf;
		unsigned long long want = CS_EI_LEAF(pbuf + HDR + 12 * IN.j);
		int cyc = 0;
		for (int l = 1; l <= level; l++)
			if (P[l].blk == want)
				cyc = 1;
		if (cbuf == 0) {
			CHECK(r == EXT2_ET_NO_MEMORY && h->level == level, "no buffer: out of memory reported");
		} else if (cyc) {
#if !defined(EG_LEVEL) || EG_LEVEL > 0
			REACH("cycle");
#endif
			CHECK(r == EXT2_ET_EXTENT_CYCLE && h->level == level && g_rd_calls == 0, "a block already on the path is not descended into");
		} else {
			int from_dev = !(IN.image_file && !IN.same_io);
			if (from_dev && !IN.read64 && (want >> 32) != 0) {
				/* a manager without a 64-bit read method cannot address the block (io_manager.c) */
				REACH("no 64-bit read");
				CHECK(r == EXT2_ET_IO_CHANNEL_NO_SUPPORT_64 && h->level == level && g_rd_calls == 0 && g_cv_calls == 0, "32-bit-only manager: block beyond 2^32 refused");
				return;
			}
			/* canaries first and over the inputs only (an obligation behind a failed one is reported UNKNOWN) */
			int hdr_ok = CS_EXT_HEADER_OK(cbuf, bs);
			int rd_err = from_dev && IN.rd_fail;
			unsigned int cent = CS_EH_ENTRIES(cbuf);
			int bad = !ignore && !IN.cv_ok;
			if (rd_err) REACH("read error");
			else if (!hdr_ok) REACH("header bad");
			else if (cent == 0) REACH("empty node");
			else if (bad) REACH("csum invalid reported");
			else if (ignore) REACH("ignore flag");
			else REACH("success");
			CHECK(!IN.have_newbuf || cbuf == cbuf0, "an existing child buffer is reused");
			CHECK(g_rd_calls == (from_dev ? 1u : 0u), "the child block is read exactly once (not at all from an image file's data channel)");
			CHECK(!from_dev || (g_rd_blk == want && g_rd_buf == (const void *)cbuf), "the block the index entry names (48 bits) is read into the child buffer");
			if (rd_err) {
				CHECK(r == IN.rd_ret && h->level == level && g_cv_calls == 0, "read error returned, level unchanged, nothing verified");
			} else if (!hdr_ok) {
				CHECK(r == EXT2_ET_EXTENT_HEADER_BAD, "unacceptable header: EXT2_ET_EXTENT_HEADER_BAD");
				CHECK(h->level == level, "unacceptable header: level restored");
				CHECK(g_cv_calls == 0, "unacceptable header: the checksum code is never run on the block");
			} else {
				CHECK(g_cv_calls == (ignore ? 0u : 1u), "checksum verified exactly once unless EXT2_FLAG_IGNORE_CSUM_ERRORS");
				CHECK(ignore || (g_cv_eh == (const void *)cbuf && g_cv_ino == IN.ino && g_cv_fs == &FS), "checksum verified for this inode on the block just read");
				CHECK(h->level == level + 1, "accepted header: handle is one level down");
				CHECK(P[level + 1].entries == (int)cent && P[level + 1].max_entries == (int)CS_EH_MAX(cbuf), "HINV: entries / max_entries mirror the header");
				CHECK(P[level + 1].blk == want, "child level remembers its block number");
				if (cent == 0) {
					CHECK(r == EXT2_ET_EXTENT_NO_DOWN, "empty node refused");
				} else {
					CHECK(r == (bad ? EXT2_ET_EXTENT_CSUM_INVALID : 0), "checksum mismatch <=> EXT2_ET_EXTENT_CSUM_INVALID (without the IGNORE flag); else success");
					unsigned int cj = IN.op_last ? cent - 1 : 0;
					CHECK(P[level + 1].curr == (void *)(cbuf + HDR + 12 * cj), "positioned on the first (DOWN) / last (DOWN_AND_LAST) entry, also when the checksum failed");
					CHECK(P[level + 1].left == (int)(cent - 1 - cj), "HINV: left == entries - 1 - index");
					CHECK(((ext.e_flags & EXT2_EXTENT_FLAGS_LEAF) != 0) == (level + 1 == IN.max_depth), "extent decoded as leaf exactly at max_depth");
				}
			}
		}
	}
	CHECK(r != 0 || g_cv_ret != 0, "never success after the verifier answered mismatch");
}

/* level and block size are ENUMERATED with one call site per value (constants inside the inlined body): with a symbolic
 * level the parent node is an object of symbolic size addressed through path[level] and the propositional encoding
 * exhausts 10 GB */
#ifndef EG_BS
#define EG_BS 1024
#endif
void h_extent_get_down(void)
{
	LOAD_IN();
#ifdef EG_LEVEL
	run(EG_LEVEL, EG_BS);
#else
	if (IN.level == 0) run(0, EG_BS);
	else if (IN.level == 1) run(1, EG_BS);
	else run(2, EG_BS);
#endif
	REACH("end");
}
