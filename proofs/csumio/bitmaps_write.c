/*
 * C14 "set on every write path": lib/ext2fs/rw_bitmaps.c:write_bitmaps, ONE ARBITRARY GROUP (loop cut by an in-place loop
 * contract, U/iter) -- reached through ext2fs_write_bitmaps / ext2fs_write_block_bitmap / ext2fs_write_inode_bitmap and the
 * fs->write_bitmaps hook of ext2fs_flush / ext2fs_close (those wrappers only choose do_inode / do_block: unit
 * readonly/write_bitmaps_wrappers_ro).
 *
 * Statement for the block bitmap of group g (same text for the inode bitmap), writable handle:
 *   - unless the group is BLOCK_UNINIT on a checksummed filesystem (then nothing is written for it), the group's bits are taken
 *     from the in-memory bitmap at  first_cluster + g * clusters_per_group  (exactly clusters_per_group bits);
 *   - for the LAST group the bits behind the end of the filesystem, up to the end of the block, are forced to 1 (padding),
 *     the real bits below are left as fetched (ghost bit);
 *   - THEN ext2fs_block_bitmap_csum_set is applied, for group g, to that buffer, on exactly clusters_per_group / 8 bytes;
 *   - THEN the group descriptor's own checksum is recomputed (ext2fs_group_desc_csum_set(g)): the bitmap checksum lives in
 *     the descriptor, so the descriptor checksum must be taken after it was stored (C14 clause on descriptors) and the
 *     superblock/descriptors are marked dirty so that they are flushed;
 *   - THEN the buffer is written, once, to the block the descriptor names (if that is a block of the device), and the byte at
 *     the ghost offset is still the one the checksum was set on: the checksum is set on the bytes that are written, after the
 *     last update;
 *   - a failing callee ends the function with an error (EXT2_ET_BLOCK_BITMAP_WRITE / EXT2_ET_INODE_BITMAP_WRITE for the
 *     device) and nothing else happens afterwards.
 */
/* VERIF-UNIT
{
 "name": "write_bitmaps_block_step",
 "props": [
  "C14"
 ],
 "level": "U/iter",
 "tier": "thorough",
 "harness": "h_write_bitmaps",
 "sources": [
  "lib/ext2fs/bitops.c"
 ],
 "loop_contracts": true,
 "unwind": 16,
 "unwind_reason": "the group loop and the padding loop are cut by their in-place loop contracts; bound 16 covers the DFCC library's loops over assigns targets",
 "cbmc_flags": [
  "--object-bits",
  "10"
 ],
 "functions": [
  "lib/ext2fs/rw_bitmaps.c:write_bitmaps"
 ],
 "assumes": [
  "NEEDS the hooks in hooks-pending/csr.diff (named loop anchors in lib/ext2fs/rw_bitmaps.c and lib/ext2fs/csum.c): tier wip until they are merged; green with VERIF_REPO=<tree with the hooks>",
  "configuration of this unit: write_bitmaps(fs, do_inode = 0, do_block = 1); block size 1024, s_clusters_per_group = s_blocks_per_group = 4096 (512 bytes), s_inodes_per_group 2048 (256 bytes), cluster ratio 1 (the per-group byte counts are constants: the cursor invariant multiplies the group number by them); group count, s_first_data_block, blocks count, feature bits, fs->flags (with EXT2_FLAG_RW) arbitrary",
  "callees from other files are monitor stubs with arbitrary answers drawn independently per call (bg flags, get_range result, checksum setter result, bitmap location, write result); ext2fs_blocks_count returns one arbitrary value; io_channel_alloc_buf is malloc of one block (may fail); ext2fs_set_bit is the real bitops.c",
  "in-memory bitmap content arbitrary (get_range leaves the arbitrary buffer as the bits fetched)"
 ],
 "native": false,
 "defines": [
  "WB_SEL=0"
 ]
}
*/
/* VERIF-UNIT
{
 "name": "write_bitmaps_inode_step",
 "props": [
  "C14"
 ],
 "level": "U/iter",
 "tier": "quick",
 "harness": "h_write_bitmaps",
 "sources": [
  "lib/ext2fs/bitops.c"
 ],
 "loop_contracts": true,
 "unwind": 16,
 "unwind_reason": "the group loop and the padding loop are cut by their in-place loop contracts; bound 16 covers the DFCC library's loops over assigns targets",
 "cbmc_flags": [
  "--object-bits",
  "10"
 ],
 "functions": [
  "lib/ext2fs/rw_bitmaps.c:write_bitmaps"
 ],
 "assumes": [
  "NEEDS the hooks in hooks-pending/csr.diff (named loop anchors in lib/ext2fs/rw_bitmaps.c and lib/ext2fs/csum.c): tier wip until they are merged; green with VERIF_REPO=<tree with the hooks>",
  "configuration of this unit: write_bitmaps(fs, do_inode = 1, do_block = 0); block size 1024, s_clusters_per_group = s_blocks_per_group = 4096 (512 bytes), s_inodes_per_group 2048 (256 bytes), cluster ratio 1 (the per-group byte counts are constants: the cursor invariant multiplies the group number by them); group count, s_first_data_block, blocks count, feature bits, fs->flags (with EXT2_FLAG_RW) arbitrary",
  "callees from other files are monitor stubs with arbitrary answers drawn independently per call (bg flags, get_range result, checksum setter result, bitmap location, write result); ext2fs_blocks_count returns one arbitrary value; io_channel_alloc_buf is malloc of one block (may fail); ext2fs_set_bit is the real bitops.c",
  "in-memory bitmap content arbitrary (get_range leaves the arbitrary buffer as the bits fetched)"
 ],
 "native": false,
 "defines": [
  "WB_SEL=1"
 ]
}
*/
/* VERIF-UNIT
{
 "name": "write_bitmaps_both_step",
 "props": [
  "C14"
 ],
 "level": "U/iter",
 "tier": "thorough",
 "harness": "h_write_bitmaps",
 "sources": [
  "lib/ext2fs/bitops.c"
 ],
 "loop_contracts": true,
 "unwind": 16,
 "unwind_reason": "the group loop and the padding loop are cut by their in-place loop contracts; bound 16 covers the DFCC library's loops over assigns targets",
 "cbmc_flags": [
  "--object-bits",
  "10"
 ],
 "functions": [
  "lib/ext2fs/rw_bitmaps.c:write_bitmaps"
 ],
 "assumes": [
  "NEEDS the hooks in hooks-pending/csr.diff (named loop anchors in lib/ext2fs/rw_bitmaps.c and lib/ext2fs/csum.c): tier wip until they are merged; green with VERIF_REPO=<tree with the hooks>",
  "configuration of this unit: write_bitmaps(fs, do_inode = 1, do_block = 1); block size 1024, s_clusters_per_group = s_blocks_per_group = 4096 (512 bytes), s_inodes_per_group 2048 (256 bytes), cluster ratio 1 (the per-group byte counts are constants: the cursor invariant multiplies the group number by them); group count, s_first_data_block, blocks count, feature bits, fs->flags (with EXT2_FLAG_RW) arbitrary",
  "callees from other files are monitor stubs with arbitrary answers drawn independently per call (bg flags, get_range result, checksum setter result, bitmap location, write result); ext2fs_blocks_count returns one arbitrary value; io_channel_alloc_buf is malloc of one block (may fail); ext2fs_set_bit is the real bitops.c",
  "in-memory bitmap content arbitrary (get_range leaves the arbitrary buffer as the bits fetched)"
 ],
 "native": false,
 "defines": [
  "WB_SEL=2"
 ]
}
*/
#include "verif.h"

#define NANS 16
struct in_wb {
	unsigned int fs_flags, feature_ro_compat, first_data_block, group_desc_count;
	unsigned long long blocks_count;
	int sel;
	unsigned long long ans[NANS];
	unsigned int k, kbit;
};
struct in_wb IN;
#include "verif_in.h"
unsigned long long verif_k;

#include "config.h"
#include "ext2_fs.h"
#include "ext2fs.h"

struct wb_mon {
	unsigned int n;
	errcode_t fail;
	/* block part / inode part of the current group: phase 1 fetched, 2 bitmap checksum set, 3 descriptor checksum set, 4 written */
	unsigned int b_phase, i_phase, b_grp, i_grp;
	unsigned long long b_start, i_start, b_loc, i_loc;
	unsigned char b_wit, i_wit;
	int b_getbit;
	int uninit;
	unsigned int writes;
};
struct wb_mon wb;
const unsigned char *wb_bbuf, *wb_ibuf;
unsigned int wb_kbit;		/* ghost bit position inside the block (padding statement) */
static struct struct_ext2_filsys FS;
static struct ext2_super_block SB;
static struct struct_io_channel IO;
static int DUMMY_BMAP, DUMMY_IMAP;
static int wb_alloc_failed, wb_want_block;

#define WB_BS 1024
#define WB_BLOCK_NBYTES 512
#define WB_INODE_NBYTES 256
#define WB_ANS() (IN.ans[(wb.n++) & (NANS - 1)])
#define WB_BIT(buf, b) ((((const unsigned char *)(buf))[(b) >> 3] >> ((b) & 7)) & 1)

#define VERIF_INV_WRITE_BITMAPS_GROUPS \
	__CPROVER_assigns(i, j, nbits, retval, blk, blk_itr, ino_itr, fs->flags, wb; \
			  block_buf != 0: __CPROVER_object_whole(block_buf); inode_buf != 0: __CPROVER_object_whole(inode_buf)) \
	__CPROVER_loop_invariant(i <= fs->group_desc_count) \
	__CPROVER_loop_invariant(wb.fail == 0) \
	__CPROVER_loop_invariant(blk_itr == (blk64_t)IN.first_data_block + (blk64_t)i * (blk64_t)(block_nbytes << 3)) \
	__CPROVER_loop_invariant(ino_itr == (ext2_ino_t)(1 + i * (unsigned)(inode_nbytes << 3))) \
	__CPROVER_loop_invariant((fs->flags & ~EXT2_FLAG_DIRTY) == ((IN.fs_flags | EXT2_FLAG_RW) & ~EXT2_FLAG_DIRTY)) \
	__CPROVER_decreases(fs->group_desc_count - i)

#define VERIF_INV_WRITE_BITMAPS_PAD \
	__CPROVER_assigns(j, __CPROVER_object_whole(block_buf)) \
	__CPROVER_loop_invariant(nbits <= j && j <= fs->blocksize * 8) \
	__CPROVER_loop_invariant(!(wb_kbit >= nbits && wb_kbit < j) || WB_BIT(block_buf, wb_kbit) == 1) \
	__CPROVER_loop_invariant(!(wb_kbit < nbits || wb_kbit >= j) || \
		WB_BIT(block_buf, wb_kbit) == ((__CPROVER_loop_entry(((const unsigned char *)block_buf)[wb_kbit >> 3]) >> (wb_kbit & 7)) & 1)) \
	__CPROVER_decreases(fs->blocksize * 8 - j)

#include "lib/ext2fs/rw_bitmaps.c"

#define WB_ALIVE(what) CHECK(wb.fail == 0, "nothing runs after a failure: " what)
#define WB_CSUM() (ext2fs_has_group_desc_csum(&FS))
#define WB_LAST_NBITS ((unsigned int)((IN.blocks_count - (unsigned long long)IN.first_data_block) % (WB_BLOCK_NBYTES * 8)))

int ext2fs_bg_flags_test(ext2_filsys fs, dgrp_t group, __u16 bg_flags)
{
	WB_ALIVE("bg_flags_test");
	CHECK(WB_CSUM(), "UNINIT flags are only consulted on a checksummed filesystem");
	wb.uninit = (int)(WB_ANS() & 1);
	if (bg_flags == EXT2_BG_BLOCK_UNINIT) { wb.b_grp = group; wb.b_phase = 0; }
	else { CHECK(bg_flags == EXT2_BG_INODE_UNINIT, "flag asked for"); wb.i_grp = group; wb.i_phase = 0; }
	return wb.uninit;
}
blk64_t ext2fs_blocks_count(struct ext2_super_block *super) { return IN.blocks_count; }
errcode_t io_channel_alloc_buf(io_channel io, int count, void *ptr)
{
	void *p = malloc(WB_BS);
	if (!p) { wb_alloc_failed = 1; return EXT2_ET_NO_MEMORY; }
	*(void **)ptr = p;
	if (wb_want_block) { wb_bbuf = p; wb_want_block = 0; } else wb_ibuf = p;
	return 0;
}
errcode_t ext2fs_get_block_bitmap_range2(ext2fs_block_bitmap bmap, blk64_t start, size_t num, void *out)
{
	WB_ALIVE("get_block_bitmap_range2");
	CHECK(bmap == (ext2fs_block_bitmap)&DUMMY_BMAP && (const unsigned char *)out == wb_bbuf && num == WB_BLOCK_NBYTES * 8, "exactly the group's bits are fetched from the handle's block bitmap into the block buffer");
	CHECK(!(WB_CSUM() && wb.uninit), "a BLOCK_UNINIT group's bitmap is not fetched");
	wb.b_start = start; wb.b_phase = 1;
	wb.b_getbit = WB_BIT(out, wb_kbit);
	wb.uninit = 0;
	if (WB_ANS() & 1) { wb.fail = (errcode_t)(1 + (WB_ANS() & 0xffff)); return wb.fail; }
	return 0;
}
errcode_t ext2fs_get_inode_bitmap_range2(ext2fs_inode_bitmap bmap, ext2_ino_t start, size_t num, void *out)
{
	WB_ALIVE("get_inode_bitmap_range2");
	CHECK(bmap == (ext2fs_inode_bitmap)&DUMMY_IMAP && (const unsigned char *)out == wb_ibuf && num == WB_INODE_NBYTES * 8, "exactly the group's bits are fetched from the handle's inode bitmap into the inode buffer");
	CHECK(!(WB_CSUM() && wb.uninit), "an INODE_UNINIT group's bitmap is not fetched");
	wb.i_start = start; wb.i_phase = 1;
	wb.uninit = 0;
	if (WB_ANS() & 1) { wb.fail = (errcode_t)(1 + (WB_ANS() & 0xffff)); return wb.fail; }
	return 0;
}
errcode_t ext2fs_block_bitmap_csum_set(ext2_filsys fs, dgrp_t group, char *bitmap, int size)
{
	WB_ALIVE("block_bitmap_csum_set");
	CHECK(wb.b_phase == 1 && (const unsigned char *)bitmap == wb_bbuf && fs == &FS, "block bitmap checksum set on the buffer just fetched");
	CHECK(size == WB_BLOCK_NBYTES, "block bitmap checksum over exactly clusters_per_group / 8 bytes");
	CHECK(wb.b_start == (unsigned long long)IN.first_data_block + (unsigned long long)group * (WB_BLOCK_NBYTES * 8), "the bits fetched are those of this group: first_cluster + g * clusters_per_group");
	if (group == IN.group_desc_count - 1 && WB_LAST_NBITS != 0 && wb_kbit >= WB_LAST_NBITS) {
#if !defined(WB_SEL) || WB_SEL != 1
		REACH("last group padded");
#endif
		CHECK(WB_BIT(bitmap, wb_kbit) == 1, "last group: bits behind the end of the filesystem are forced to 1 BEFORE the checksum is taken");
	} else {
		CHECK(WB_BIT(bitmap, wb_kbit) == wb.b_getbit, "the bits checksummed are the bits fetched (ghost bit)");
	}
	wb.b_grp = group; wb.b_phase = 2;
	wb.b_wit = ((const unsigned char *)bitmap)[verif_k];
	if (WB_ANS() & 1) { wb.fail = (errcode_t)(1 + (WB_ANS() & 0xffff)); return wb.fail; }
	return 0;
}
errcode_t ext2fs_inode_bitmap_csum_set(ext2_filsys fs, dgrp_t group, char *bitmap, int size)
{
	WB_ALIVE("inode_bitmap_csum_set");
	CHECK(wb.i_phase == 1 && (const unsigned char *)bitmap == wb_ibuf && fs == &FS, "inode bitmap checksum set on the buffer just fetched");
	CHECK(size == WB_INODE_NBYTES, "inode bitmap checksum over exactly inodes_per_group / 8 bytes");
	CHECK(wb.i_start == (unsigned int)(1 + group * (WB_INODE_NBYTES * 8)), "the bits fetched are those of this group: 1 + g * inodes_per_group");
	wb.i_grp = group; wb.i_phase = 2;
	wb.i_wit = ((const unsigned char *)bitmap)[verif_k];
	if (WB_ANS() & 1) { wb.fail = (errcode_t)(1 + (WB_ANS() & 0xffff)); return wb.fail; }
	return 0;
}
static int wb_do_block, wb_do_inode;	/* what the call under test writes (constants of the call site) */
void ext2fs_group_desc_csum_set(ext2_filsys fs, dgrp_t group)
{
	WB_ALIVE("group_desc_csum_set");
	if (wb_do_block && wb.b_phase == 2) {
		CHECK(group == wb.b_grp, "descriptor checksum recomputed for this group, right after its block-bitmap checksum was stored");
		wb.b_phase = 3;
	} else {
		CHECK(wb_do_inode && wb.i_phase == 2 && group == wb.i_grp, "descriptor checksum recomputed for this group, right after its inode-bitmap checksum was stored");
		wb.i_phase = 3;
	}
}
blk64_t ext2fs_block_bitmap_loc(ext2_filsys fs, dgrp_t group)
{
	WB_ALIVE("block_bitmap_loc");
	CHECK(wb.b_phase == 3 && group == wb.b_grp, "location looked up for the group whose bitmap is in the buffer, after both checksums");
	CHECK(FS.flags & EXT2_FLAG_DIRTY, "descriptors marked dirty (their checksum fields changed)");
	wb.b_loc = WB_ANS();
	return wb.b_loc;
}
blk64_t ext2fs_inode_bitmap_loc(ext2_filsys fs, dgrp_t group)
{
	WB_ALIVE("inode_bitmap_loc");
	CHECK(wb.i_phase == 3 && group == wb.i_grp, "location looked up for the group whose bitmap is in the buffer, after both checksums");
	CHECK(FS.flags & EXT2_FLAG_DIRTY, "descriptors marked dirty (their checksum fields changed)");
	wb.i_loc = WB_ANS();
	return wb.i_loc;
}
errcode_t io_channel_write_blk64(io_channel channel, unsigned long long block, int count, const void *data)
{
	WB_ALIVE("write");
	CHECK(count == 1 && channel == &IO, "one block is written to the filesystem's channel");
	wb.writes++;
	if ((const unsigned char *)data == wb_bbuf) {
#if !defined(WB_SEL) || WB_SEL != 1
		REACH("block bitmap written");
#endif
		CHECK(wb.b_phase == 3, "block bitmap: written after its checksum and the descriptor checksum were set");
		CHECK(block == wb.b_loc && block != 0 && block < IN.blocks_count, "block bitmap: written to the block the descriptor names, inside the device");
		CHECK(wb_bbuf[verif_k] == wb.b_wit, "block bitmap: the bytes written are the bytes the checksum was set on (ghost offset)");
		wb.b_phase = 4;
		if (WB_ANS() & 1) { wb.fail = EXT2_ET_BLOCK_BITMAP_WRITE; return (errcode_t)(1 + (WB_ANS() & 0xffff)); }
	} else {
#if !defined(WB_SEL) || WB_SEL != 0
		REACH("inode bitmap written");
#endif
		CHECK((const unsigned char *)data == wb_ibuf && wb.i_phase == 3, "inode bitmap: written from its buffer after its checksum and the descriptor checksum were set");
		CHECK(block == wb.i_loc && block != 0 && block < IN.blocks_count, "inode bitmap: written to the block the descriptor names, inside the device");
		CHECK(wb_ibuf[verif_k] == wb.i_wit, "inode bitmap: the bytes written are the bytes the checksum was set on (ghost offset)");
		wb.i_phase = 4;
		if (WB_ANS() & 1) { wb.fail = EXT2_ET_INODE_BITMAP_WRITE; return (errcode_t)(1 + (WB_ANS() & 0xffff)); }
	}
	return 0;
}
/* other callees of the translation unit that are not reached here */
int ext2fs_group_desc_csum_verify(ext2_filsys fs, dgrp_t group) { return 1; }
errcode_t io_channel_read_blk64(io_channel channel, unsigned long long block, int count, void *data) { return 0; }

static void run(const int do_inode, const int do_block, const int entry)
{
	memset(&FS, 0, sizeof(FS));
	memset(&IO, 0, sizeof(IO));
	memset(&SB, 0, sizeof(SB));
	memset(&wb, 0, sizeof(wb));
	IO.block_size = WB_BS;
	FS.magic = EXT2_ET_MAGIC_EXT2FS_FILSYS;
	FS.super = &SB;
	FS.io = &IO;
	FS.blocksize = WB_BS;
	FS.flags = IN.fs_flags | EXT2_FLAG_RW;
	FS.cluster_ratio_bits = 0;
	FS.group_desc_count = IN.group_desc_count;
	FS.block_map = (ext2fs_block_bitmap)&DUMMY_BMAP;
	FS.inode_map = (ext2fs_inode_bitmap)&DUMMY_IMAP;
	SB.s_clusters_per_group = WB_BLOCK_NBYTES * 8;
	SB.s_blocks_per_group = WB_BLOCK_NBYTES * 8;
	SB.s_inodes_per_group = WB_INODE_NBYTES * 8;
	SB.s_first_data_block = IN.first_data_block;
	SB.s_feature_ro_compat = IN.feature_ro_compat;
	ASSUME(IN.k < WB_BS && IN.kbit < WB_BS * 8);
	ASSUME(IN.group_desc_count >= 1 && IN.blocks_count > IN.first_data_block);
	verif_k = IN.k;
	wb_kbit = IN.kbit;
	wb_bbuf = wb_ibuf = 0;
	wb_want_block = do_block;
	wb_do_block = do_block; wb_do_inode = do_inode;
	wb_alloc_failed = 0;
	errcode_t r;
	if (entry == 0)
		r = write_bitmaps(&FS, do_inode, do_block);
	else if (entry == 1)
		r = ext2fs_write_block_bitmap(&FS);
	else
		r = ext2fs_write_inode_bitmap(&FS);
	CHECK(wb_alloc_failed ? r == EXT2_ET_NO_MEMORY : r == wb.fail, "result: the first failure (0 when there was none)");
	CHECK(r != 0 || wb_alloc_failed || ((FS.flags & (do_block ? EXT2_FLAG_BB_DIRTY : 0)) == 0 && (FS.flags & (do_inode ? EXT2_FLAG_IB_DIRTY : 0)) == 0), "success: the bitmaps written are no longer marked dirty");
}

void h_write_bitmaps(void)
{
	LOAD_IN();
#ifdef WB_SEL
	switch (WB_SEL) {
#else
	switch (IN.sel) {
#endif
	case 0: run(0, 1, 0); break;
	case 1: run(1, 0, 0); break;
	default: run(1, 1, 0); break;
	}
	REACH("end");
}
