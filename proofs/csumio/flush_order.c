/*
 * C14 "every group descriptor / the superblock written carries the checksum of its final content":
 * lib/ext2fs/closefs.c:ext2fs_flush2 -- ORDER of checksum updates and writes (protocol unit; which descriptor blocks are
 * written where is unit geometry/flush2_groups, whose ghost protocol for the in-place loop contract is reused here).
 *
 * ext2fs_flush2 does not compute descriptor checksums itself: they are kept up to date by whoever modifies a descriptor
 * (ext2fs_group_desc_csum_set: units csumio/set_gdt_csum_group_step, csumio/write_bitmaps_*_step).  What flush2 must do:
 *   (1) the fs->write_bitmaps hook -- which stores the bitmap checksums INTO the descriptors and recomputes their checksums --
 *       runs BEFORE any descriptor block is handed to the channel; if it fails nothing else is written;
 *   (2) flush2 itself does not touch the descriptor table between the hook's return and the writes (ghost byte), and writes
 *       straight from fs->group_desc (little-endian host): the bytes written are the bytes the checksums were set on;
 *   (3) the primary superblock: ext2fs_superblock_csum_set is applied AFTER the last field update (s_block_group_nr back to 0,
 *       s_state and s_feature_incompat restored) and write_primary_superblock then gets exactly that, unmodified, superblock;
 *       a failing setter ends the call;
 *   (4) the channel is flushed before the primary superblock is written unless EXT2_FLAG_FLUSH_NO_SYNC.
 */
/* VERIF-UNIT
{
 "name": "flush2_csum_order",
 "props": [
  "C14"
 ],
 "level": "P",
 "tier": "quick",
 "harness": "h_flush2_order",
 "replace": [
  "ext2fs_super_and_bgd_loc2",
  "write_backup_super",
  "write_primary_superblock"
 ],
 "loop_contracts": true,
 "unwind": 16,
 "unwind_reason": "no loop of the code is unwound (the group loop carries an in-place loop contract); the bound only serves the DFCC library loops, unwinding assertions on",
 "functions": [
  "lib/ext2fs/closefs.c:ext2fs_flush2"
 ],
 "assumes": [
  "little-endian host; no progress callbacks; fs->now set (no time() call); not a journal device",
  "fs->write_bitmaps is a stub hook: may fail; models the checksum updates by storing an arbitrary byte at the ghost offset of the descriptor table",
  "ext2fs_super_and_bgd_loc2 / write_backup_super / write_primary_superblock replaced by the contracts of unit geometry/flush2_groups (arbitrary locations, ghost log for the ghost group) -- write_primary_superblock additionally REQUIRES that the checksum was set on the unmodified superblock it is given",
  "ext2fs_superblock_csum_set, io_channel_write_blk64 and the channel's flush are monitor stubs; the descriptor table is a 64-byte stand-in (flush2 only passes pointers into it on a little-endian host; any access by flush2 itself outside it is a bounds violation)",
  "block size / descriptor size legal, descriptor table smaller than 4 GiB (as geometry/flush2_groups)"
 ],
 "native": false
}
*/
#include "verif.h"

struct in_fo {
	unsigned int log_bs, log_desc, desc_size_if_32, incompat_other, meta_bg, first_meta_bg;
	unsigned int desc_blocks, group_desc_count;
	int fs_flags, flush_flags;
	unsigned int k, koff, sbk;
	long ret_choice[8];
	unsigned int now;
	unsigned char have_hook, hook_fail, newbyte, sbcs_fail;
	long hook_ret, sbcs_ret, wps_ret, flush_ret;
	unsigned short state;
	unsigned int new_csum;
};
struct in_fo IN;
#include "verif_in.h"

#include "lib/ext2fs/closefs.c"

unsigned long long verif_k;
unsigned long long verif_g0, verif_g1, verif_g2, verif_g3, verif_g4, verif_g5, verif_g6, verif_g7;

static int g_flags0;
static unsigned long long g_old_count, g_new_off;
static char GD[64];
static const char *g_gd;
/* events outside the group loop */
unsigned int g_seq, g_hook_calls, g_hook_seq, g_sbcs_calls, g_sbcs_seq, g_flush_calls, g_flush_seq, g_wps_calls;
unsigned char g_wit, g_sb_wit;
unsigned int g_koff, g_sbk;
static struct struct_ext2_filsys FS;
static struct ext2_super_block SB;
static unsigned short g_state0;
static unsigned int g_incompat0;

static errcode_t st_write_bitmaps(ext2_filsys fs)
{
	g_hook_calls++;
	g_hook_seq = ++g_seq;
	CHECK(fs == &FS, "hook called for this handle");
	GD[g_koff] = (char)IN.newbyte;		/* bitmap / descriptor checksum fields updated */
	g_wit = (unsigned char)GD[g_koff];
	return IN.hook_fail ? (errcode_t)IN.hook_ret : 0;
}
errcode_t ext2fs_superblock_csum_set(ext2_filsys fs, struct ext2_super_block *sb)
{
	g_sbcs_calls++;
	g_sbcs_seq = ++g_seq;
	CHECK(fs == &FS && sb == &SB, "superblock checksum set on the superblock that is written (little-endian host: fs->super itself)");
	CHECK(sb->s_block_group_nr == 0, "primary superblock: s_block_group_nr back to 0 before the checksum is taken");
	CHECK(sb->s_state == g_state0 && sb->s_feature_incompat == g_incompat0, "primary superblock: s_state and s_feature_incompat restored before the checksum is taken");
	if (IN.sbcs_fail)
		return (errcode_t)IN.sbcs_ret;
	sb->s_checksum = IN.new_csum;
	g_sb_wit = ((const unsigned char *)sb)[g_sbk];
	return 0;
}
static errcode_t stub_flush(io_channel channel)
{
	g_flush_calls++;
	g_flush_seq = ++g_seq;
	return (errcode_t)IN.flush_ret;
}
/* called inside the cut group loop: may only write the ghost registers named in the in-place loop contract */
errcode_t io_channel_write_blk64(io_channel channel, unsigned long long block, int count, const void *data)
{
	CHECK(!IN.have_hook || g_hook_calls == 1, "descriptors are written only after the write_bitmaps hook has run (bitmap checksums live in the descriptors)");
	CHECK(!IN.have_hook || (unsigned char)g_gd[g_koff] == g_wit, "the descriptor table was not modified since the hook returned (ghost byte)");
	CHECK(g_sbcs_calls == 0, "descriptor blocks go out before the primary superblock is finalised");
	if (verif_g4 == verif_k) {
		if (verif_g6 != 0 && block == verif_g6 && (unsigned long long)count == g_old_count && data == (const void *)g_gd)
			verif_g2++;
		else if (verif_g7 != 0 && block == verif_g7 && count == 1 && data == (const void *)(g_gd + g_new_off))
			verif_g3++;
		else
			CHECK(0, "a descriptor write in the ghost group's iteration goes to a reported location, straight from fs->group_desc");
	}
	return IN.ret_choice[4 + ((block + (unsigned int)count) & 3)];
}

errcode_t ext2fs_super_and_bgd_loc2(ext2_filsys fs, dgrp_t group, blk64_t *ret_super_blk,
				    blk64_t *ret_old_desc_blk, blk64_t *ret_new_desc_blk, blk_t *ret_used_blks)
	REQUIRES(ret_super_blk != 0 && ret_old_desc_blk != 0 && ret_new_desc_blk != 0 && ret_used_blks == 0)
	ENSURES(RET == 0)
	ENSURES(*ret_old_desc_blk == 0 || *ret_new_desc_blk == 0)
	ENSURES(verif_g4 == group)
	ENSURES(group == verif_k ? (verif_g5 == *ret_super_blk && verif_g6 == *ret_old_desc_blk && verif_g7 == *ret_new_desc_blk)
				 : (verif_g5 == OLD(verif_g5) && verif_g6 == OLD(verif_g6) && verif_g7 == OLD(verif_g7)))
	ASSIGNS(*ret_super_blk, *ret_old_desc_blk, *ret_new_desc_blk, verif_g4, verif_g5, verif_g6, verif_g7);

static errcode_t write_backup_super(ext2_filsys fs, dgrp_t group, blk64_t group_block,
				    struct ext2_super_block *super_shadow)
	ENSURES(group == verif_k ? (verif_g0 == OLD(verif_g0) + 1 && verif_g1 == group_block)
				 : (verif_g0 == OLD(verif_g0) && verif_g1 == OLD(verif_g1)))
	ASSIGNS(super_shadow->s_block_group_nr, super_shadow->s_checksum, verif_g0, verif_g1);

static errcode_t write_primary_superblock(ext2_filsys fs, struct ext2_super_block *super)
	/* (3): the checksum was set, on this superblock, and nothing changed since (ghost byte) */
	REQUIRES(g_sbcs_calls == 1 && super == &SB && ((const unsigned char *)super)[g_sbk] == g_sb_wit)
	/* (4) */
	REQUIRES((IN.flush_flags & EXT2_FLAG_FLUSH_NO_SYNC) ? g_flush_calls == 0 : (g_flush_calls == 1 && g_flush_seq > g_sbcs_seq))
	ASSIGNS(g_wps_calls)
	ENSURES(g_wps_calls == OLD(g_wps_calls) + 1 && RET == (errcode_t)IN.wps_ret);

#define F_MASTER(f) (((f) & EXT2_FLAG_MASTER_SB_ONLY) != 0)
#define F_SUPERONLY(f) (((f) & EXT2_FLAG_SUPER_ONLY) != 0)

void h_flush2_order(void)
{
	static struct struct_io_channel CH;
	static struct struct_io_manager MGR;
	ext2_filsys fs = &FS;

	LOAD_IN();
	ASSUME(IN.log_bs <= 6 && IN.log_desc >= 5 && IN.log_desc <= 10);
	memset(&FS, 0, sizeof(FS));
	memset(&SB, 0, sizeof(SB));
	memset(&CH, 0, sizeof(CH));
	memset(&MGR, 0, sizeof(MGR));
	FS.magic = EXT2_ET_MAGIC_EXT2FS_FILSYS;
	FS.super = &SB;
	FS.io = &CH;
	CH.manager = &MGR;
	MGR.flush = stub_flush;
	FS.flags = IN.fs_flags;
	FS.now = IN.now;
	ASSUME(IN.now != 0);
	FS.blocksize = 1024u << IN.log_bs;
	FS.group_desc = (struct opaque_ext2_group_desc *)GD;
	FS.group_desc_count = IN.group_desc_count;
	FS.desc_blocks = IN.desc_blocks;
	if (IN.have_hook)
		FS.write_bitmaps = st_write_bitmaps;
	SB.s_log_block_size = IN.log_bs;
	SB.s_state = IN.state;
	SB.s_feature_incompat = IN.incompat_other & ~(EXT4_FEATURE_INCOMPAT_64BIT | EXT2_FEATURE_INCOMPAT_META_BG | EXT3_FEATURE_INCOMPAT_JOURNAL_DEV);
	if (IN.log_desc == 5)
		SB.s_desc_size = IN.desc_size_if_32;
	else {
		SB.s_feature_incompat |= EXT4_FEATURE_INCOMPAT_64BIT;
		SB.s_desc_size = 1u << IN.log_desc;
	}
	if (IN.meta_bg)
		SB.s_feature_incompat |= EXT2_FEATURE_INCOMPAT_META_BG;
	SB.s_first_meta_bg = IN.first_meta_bg;
	g_state0 = SB.s_state;
	g_incompat0 = SB.s_feature_incompat;

	ASSUME(IN.k < IN.group_desc_count && IN.koff < sizeof(GD) && IN.sbk < sizeof(SB));
	ASSUME(!IN.hook_fail || IN.hook_ret != 0);
	ASSUME(!IN.sbcs_fail || IN.sbcs_ret != 0);
	verif_k = IN.k;
	verif_g0 = verif_g2 = verif_g3 = 0;
	g_flags0 = FS.flags;
	g_gd = GD;
	g_koff = IN.koff; g_sbk = IN.sbk;
	g_seq = g_hook_calls = g_hook_seq = g_sbcs_calls = g_sbcs_seq = g_flush_calls = g_flush_seq = g_wps_calls = 0;
	g_wit = g_sb_wit = 0;
	g_old_count = IN.meta_bg ? (IN.first_meta_bg < IN.desc_blocks ? IN.first_meta_bg : IN.desc_blocks) : IN.desc_blocks;
	unsigned int ldpb = IN.log_bs + 10 - IN.log_desc;
	g_new_off = (unsigned long long)(IN.k >> ldpb) << (10 + IN.log_bs);
	ASSUME(((unsigned long long)IN.desc_blocks << (10 + IN.log_bs)) < 0x100000000ULL && (IN.k >> ldpb) < IN.desc_blocks);

	if (IN.have_hook && IN.hook_fail) REACH("hook fails");
	else if (IN.sbcs_fail) REACH("superblock checksum setter fails");
	else REACH("normal");
	if (IN.have_hook) REACH("with hook");

	errcode_t r = ext2fs_flush2(fs, IN.flush_flags);

	CHECK(g_hook_calls == (IN.have_hook ? 1u : 0u), "the write_bitmaps hook runs exactly once when installed");
	if (IN.have_hook && IN.hook_fail) {
		CHECK(r == IN.hook_ret, "hook failure is the result");
		CHECK(verif_g0 == 0 && verif_g2 == 0 && verif_g3 == 0 && g_sbcs_calls == 0 && g_wps_calls == 0, "hook failed: no descriptor, no superblock is written");
	} else {
		CHECK(r != 0 || g_sbcs_calls == 1, "success: the primary superblock's checksum was set");
		CHECK(r != 0 || g_wps_calls == 1, "success: the primary superblock was written");
		CHECK(!(g_sbcs_calls == 1 && IN.sbcs_fail) || (r == IN.sbcs_ret && g_wps_calls == 0), "checksum setter failed: error, primary superblock not written");
		CHECK(g_wps_calls == 0 || g_sbcs_calls == 1, "primary superblock never written without its checksum");
		CHECK(!IN.have_hook || (unsigned char)GD[g_koff] == g_wit, "descriptor table untouched by flush2 after the hook");
	}
	CHECK(SB.s_state == g_state0, "in-memory s_state restored");
	REACH("end");
}
