/*
 * C06 (closing the induction that the C14/C06 unit extent_get_down starts): lib/ext2fs/extent.c:ext2fs_extent_get, the
 * PRIMITIVE moves inside the nodes already loaded -- EXT2_EXTENT_CURRENT, ROOT, FIRST_SIB, NEXT_SIB, PREV_SIB, LAST_SIB, UP.
 *
 * Node contents (the 60 bytes of i_block, tree blocks read from the device) are ARBITRARY; all the handle knows about them is the
 * handle invariant HINV(l) for every level l <= handle->level (established by ext2fs_extent_open2 -- unit extent_open2_root --
 * and by the DOWN step -- unit extent_get_down):
 *     path[l].entries == le16 eh_entries and path[l].max_entries == le16 eh_max of the node buffer, entries <= max_entries,
 *     12 + 12 * max_entries <= node size (60 at level 0, blocksize below), and either curr == NULL and left == entries, or
 *     curr == buf + 12 + 12*j with 0 <= j < entries and left == entries - 1 - j.
 * Statement: under HINV every primitive move (a) stays memory safe -- every slot it decodes lies inside the node (CBMC's built-in
 * checks on the real function, node objects of exactly their size) --, (b) leaves HINV intact at the level it ends on, with the
 * current entry where the operation's name says, (c) reports EXT2_ET_EXTENT_NO_NEXT / NO_PREV / NO_UP / EXT2_ET_NO_CURRENT_NODE
 * instead of stepping outside the valid entries.
 * Exception found and stated (not a memory-safety violation): EXT2_EXTENT_LAST_SIB on a node with ZERO entries positions the
 * handle on the slot BEFORE the first one -- the 12 header bytes -- and decodes them as an extent (j == -1: HINV does not hold
 * afterwards).  The harness therefore requires entries >= 1 for LAST_SIB and says so.
 * The composite moves NEXT / PREV / NEXT_LEAF / PREV_LEAF / LAST_LEAF are sequences of these primitives and DOWN (the `goto retry`
 * loop); they are not unrolled here.
 */
/* VERIF-UNIT
{
 "name": "extent_get_moves",
 "props": [
  "C06"
 ],
 "level": "P",
 "tier": "quick",
 "harness": "h_extent_moves",
 "replace": [
  "ext2fs_extent_block_csum_verify"
 ],
 "unwind": 4,
 "unwind_reason": "the primitive moves are loop-free; the `goto retry` back edge is only taken by the composite ops (unwinding assertions on); bound 4 is for the harness loop over <= 3 levels",
 "cbmc_flags": [
  "--object-bits",
  "10"
 ],
 "functions": [
  "lib/ext2fs/extent.c:ext2fs_extent_get"
 ],
 "assumes": [
  "op is one of CURRENT, ROOT, FIRST_SIB, NEXT_SIB, PREV_SIB, LAST_SIB, UP (one call site each)",
  "HINV(l) for every level l <= handle->level (see file comment); handle->level enumerated over 0, 1, 2 in a tree of depth <= 3 (harness cap); node objects have exactly their size (60 bytes / blocksize = 1024), content arbitrary within HINV",
  "LAST_SIB: the node has at least one entry (see the exception in the file comment)",
  "no I/O and no checksum code is reached by these moves (ext2fs_extent_block_csum_verify replaced by a contract with precondition false)"
 ],
 "native": false
}
*/
#include "verif.h"

struct in_em {
	int op_sel, level_sel, max_depth;
	int j[3], visit[3];
	unsigned long long end_blk[3];
	unsigned int ino;
};
struct in_em IN;
#include "verif_in.h"
#include "csumio_spec.h"

#include "config.h"
#include "ext2_fs.h"
#include "ext2fs.h"
#include "ext3_extents.h"

int ext2fs_extent_block_csum_verify(ext2_filsys fs, ext2_ino_t inum, struct ext3_extent_header *eh)
	REQUIRES(0)
	ASSIGNS();

#include "lib/ext2fs/extent.c"

static struct struct_ext2_filsys FS;
static struct ext2_extent_handle HND;
static struct extent_path PATH[4];
static unsigned char *NODE[3];
#define HDR 12
#define BS 1024

/* HINV at level l, with the index of the current entry made explicit */
static int hinv(int l, int *jout)
{
	struct extent_path *p = &PATH[l];
	unsigned int size = l == 0 ? 60 : BS;
	const unsigned char *b = NODE[l];
	int ok = p->buf == (char *)b && p->entries == (int)CS_EH_ENTRIES(b) && p->max_entries == (int)CS_EH_MAX(b) &&
		 p->entries <= p->max_entries && HDR + 12ul * p->max_entries <= size;
	if (!ok)
		return 0;
	if (p->curr == 0) {
		*jout = -1;
		return p->left == p->entries;
	}
	long d = (const unsigned char *)p->curr - (b + HDR);
	if (d < 0 || d % 12 != 0 || d / 12 >= p->entries)
		return 0;
	*jout = (int)(d / 12);
	return p->left == p->entries - 1 - *jout;
}

static void run(const int level, const int op)
{
	memset(&FS, 0, sizeof(FS));
	FS.blocksize = BS;
	memset(&HND, 0, sizeof(HND));
	ASSUME(IN.max_depth >= level && IN.max_depth <= 3 && IN.max_depth >= 0);
	HND.magic = EXT2_ET_MAGIC_EXTENT_HANDLE;
	HND.fs = &FS;
	HND.ino = IN.ino;
	HND.level = level;
	HND.max_depth = IN.max_depth;
	HND.max_paths = IN.max_depth + 1;
	HND.path = PATH;
	for (int l = 0; l <= level; l++) {
		unsigned int size = l == 0 ? 60 : BS;
		unsigned char *b = malloc(size);	/* exactly the node's size, arbitrary content */
		ASSUME(b != 0);
		unsigned int ent = CS_EH_ENTRIES(b), max = CS_EH_MAX(b);
		ASSUME(ent <= max && HDR + 12ul * max <= size);
		ASSUME(IN.j[l] >= -1 && IN.j[l] < (int)ent);
		NODE[l] = b;
		memset(&PATH[l], 0, sizeof(PATH[l]));
		PATH[l].buf = (char *)b;
		PATH[l].entries = ent;
		PATH[l].max_entries = max;
		PATH[l].curr = IN.j[l] < 0 ? 0 : b + HDR + 12 * IN.j[l];
		PATH[l].left = IN.j[l] < 0 ? (int)ent : (int)ent - 1 - IN.j[l];
		PATH[l].visit_num = IN.visit[l];
		PATH[l].end_blk = IN.end_blk[l];
	}
	const int ent = PATH[level].entries, j0 = IN.j[level];
	if (op == EXT2_EXTENT_LAST_SIB)
		ASSUME(ent >= 1);	/* see the exception in the file comment */
	struct ext2fs_extent ext;
	errcode_t r = ext2fs_extent_get(&HND, op, &ext);

	int nl = HND.level, j = -2;
	CHECK(nl >= 0 && nl <= level, "the primitive moves never go down");
	CHECK(hinv(nl, &j), "HINV holds at the level the move ends on");
	const int ent_root = PATH[0].entries;
	switch (op) {
	case EXT2_EXTENT_CURRENT:
		CHECK(nl == level && j == j0, "CURRENT does not move");
		CHECK(r == (j0 < 0 ? EXT2_ET_NO_CURRENT_NODE : 0), "CURRENT: error iff there is no current entry");
		break;
	case EXT2_EXTENT_ROOT:
		CHECK(nl == 0, "ROOT goes to level 0");
		CHECK(ent_root == 0 ? (r == EXT2_ET_EXTENT_NO_NEXT) : (r == 0 && j == 0), "ROOT: first entry of the root, NO_NEXT for an empty root");
		break;
	case EXT2_EXTENT_FIRST_SIB:
		CHECK(nl == level, "FIRST_SIB stays on its level");
		CHECK(ent == 0 ? (r == EXT2_ET_EXTENT_NO_NEXT) : (r == 0 && j == 0), "FIRST_SIB: first entry, NO_NEXT for an empty node");
		break;
	case EXT2_EXTENT_NEXT_SIB:
		CHECK(nl == level, "NEXT_SIB stays on its level");
		CHECK(j0 + 1 >= ent ? (r == EXT2_ET_EXTENT_NO_NEXT && j == j0) : (r == 0 && j == j0 + 1), "NEXT_SIB: one entry forward, NO_NEXT (and no move) behind the last valid entry");
		break;
	case EXT2_EXTENT_PREV_SIB:
		CHECK(nl == level, "PREV_SIB stays on its level");
		CHECK(j0 <= 0 ? (r == EXT2_ET_EXTENT_NO_PREV && j == j0) : (r == 0 && j == j0 - 1), "PREV_SIB: one entry back, NO_PREV (and no move) at the first entry / without a current entry");
		break;
	case EXT2_EXTENT_LAST_SIB:
		CHECK(nl == level && r == 0 && j == ent - 1, "LAST_SIB: last valid entry");
		break;
	case EXT2_EXTENT_UP:
		if (level == 0)
			CHECK(r == EXT2_ET_EXTENT_NO_UP && nl == 0 && j == j0, "UP at the root: NO_UP, no move");
		else {
			CHECK(nl == level - 1 && j == IN.j[level - 1], "UP: the parent's current entry");
			CHECK(r == (j < 0 ? EXT2_ET_NO_CURRENT_NODE : 0), "UP: error iff the parent has no current entry");
		}
		break;
	}
	if (r == 0)
		CHECK(((ext.e_flags & EXT2_EXTENT_FLAGS_LEAF) != 0) == (nl == IN.max_depth), "the entry is decoded as a leaf extent exactly at max_depth");
}

#define RUN_OP(L) do { switch (IN.op_sel) { \
	case 0: run(L, EXT2_EXTENT_CURRENT); break; case 1: run(L, EXT2_EXTENT_ROOT); break; \
	case 2: run(L, EXT2_EXTENT_FIRST_SIB); break; case 3: run(L, EXT2_EXTENT_NEXT_SIB); break; \
	case 4: run(L, EXT2_EXTENT_PREV_SIB); break; case 5: run(L, EXT2_EXTENT_LAST_SIB); break; \
	default: run(L, EXT2_EXTENT_UP); break; } } while (0)
void h_extent_moves(void)
{
	LOAD_IN();
#ifdef EM_LEVEL
	RUN_OP(EM_LEVEL);
#else
	if (IN.level_sel == 0) RUN_OP(0);
	else if (IN.level_sel == 1) RUN_OP(1);
	else RUN_OP(2);
#endif
	REACH("end");
}
