/* stub answers shared by the csumio units: member `c` of every unit's IN (see csumio_common.h) */
#ifndef CSUMIO_IN_H
#define CSUMIO_IN_H
struct cs_in {
	unsigned int fs_flags;
	unsigned char cv_ok, rd_fail, wr_fail, set_fail;
	long rd_ret, wr_ret, set_ret;
	unsigned int k;
};
#endif
