/*
 * C14 "every group descriptor carries the checksum of its final content": lib/ext2fs/csum.c:ext2fs_set_gdt_csum
 * (called by mke2fs, tune2fs, resize2fs, e2fsck and ext2fs_close before the descriptors are flushed), ONE ARBITRARY GROUP
 * (loop cut by an in-place loop contract, U/iter).
 *
 * Statement, per group g:
 *   - the lazy-init fields are brought up to date first (group_descr.rst: bg_flags BLOCK_UNINIT 0x2 when every block of a
 *     group other than the last is free; INODE_UNINIT 0x1 and bg_itable_unused = inodes_per_group when every inode is free,
 *     otherwise INODE_UNINIT cleared and bg_itable_unused = inodes_per_group - (last used inode of the group));
 *   - THEN ext2fs_group_desc_csum_set(fs, g) is applied exactly once (definition proved in csum/group_desc_csum_set), and
 *     NOTHING modifies the descriptor afterwards: the checksum is the checksum of the final content.  Invariant of the group
 *     loop: "number of descriptors whose checksum was set after their last update == i";
 *   - if any of bg_flags / bg_itable_unused / bg_checksum differs from what it was, the superblock+descriptors are marked
 *     dirty, so that ext2fs_flush2 writes them (invariant: dirty <=> some group changed so far).
 * Precondition failures: no inode bitmap loaded => EXT2_ET_NO_INODE_BITMAP; no group-descriptor checksums => nothing to do.
 */
/* VERIF-UNIT
{
 "name": "set_gdt_csum_group_step",
 "props": [
  "C14"
 ],
 "level": "U/iter",
 "tier": "quick",
 "harness": "h_set_gdt_csum",
 "replace": [
  "ext2fs_group_desc_csum_set",
  "find_last_inode_ingrp"
 ],
 "loop_contracts": true,
 "unwind": 16,
 "unwind_reason": "the group loop is cut by its in-place loop contract; bound 16 covers the DFCC library's loops over assigns targets",
 "functions": [
  "lib/ext2fs/csum.c:ext2fs_set_gdt_csum"
 ],
 "assumes": [
  "NEEDS the hooks in hooks-pending/csr.diff (named loop anchors in lib/ext2fs/rw_bitmaps.c and lib/ext2fs/csum.c): tier wip until they are merged; green with VERIF_REPO=<tree with the hooks>",
  "the group-descriptor accessors of blknum.c (ext2fs_bg_flags/_set/_clear, ext2fs_bg_itable_unused/_set, ext2fs_bg_checksum, ext2fs_bg_free_blocks_count, ext2fs_bg_free_inodes_count) are stubs over ONE ghost descriptor for the current group: the getters deliver arbitrary initial field values, the setters update it and record 'descriptor modified'",
  "ext2fs_group_desc_csum_set (same file) replaced by a contract: REQUIRES the group is the one being processed, stores an arbitrary checksum in the ghost descriptor and records 'checksum set, nothing modified since'; find_last_inode_ingrp replaced by a contract (1 <= result <= inodes_per_group)",
  "superblock (s_blocks_per_group, s_inodes_per_group, feature bits), group count, fs->flags arbitrary; inode bitmap present or absent"
 ],
 "native": false
}
*/
#include "verif.h"

#define NANS 16
struct in_gd {
	unsigned int fs_flags, feature_ro_compat, blocks_per_group, inodes_per_group, group_desc_count;
	unsigned char have_imap;
	unsigned int ans[NANS];
};
struct in_gd IN;
#include "verif_in.h"
unsigned long long verif_k;

#include "config.h"
#include "ext2_fs.h"
#include "ext2fs.h"

struct gd_mon {
	unsigned int n;
	unsigned int sets;		/* descriptors whose checksum was set (in group order) */
	int pending;			/* the current descriptor was modified after its checksum was last set */
	/* ghost descriptor of the group being processed */
	unsigned int cur, flags, unused, csum, fic, fbc;
	unsigned int old_flags, old_unused, old_csum;
	int changed_any;		/* some group's flags / unused / checksum changed so far */
};
struct gd_mon gd;
#define GD_ANS() (IN.ans[(gd.n++) & (NANS - 1)])
static struct struct_ext2_filsys FS;
static struct ext2_super_block SB;
static int DUMMY_IMAP;

void ext2fs_group_desc_csum_set(ext2_filsys fs, dgrp_t group)
	REQUIRES(fs == &FS && group == gd.sets && group == gd.cur)
	/* the lazy-init fields are final when the checksum is taken (group_descr.rst; BLOCK_UNINIT 0x2, INODE_UNINIT 0x1) */
	REQUIRES(!(gd.fbc == IN.blocks_per_group && group != IN.group_desc_count - 1) || (gd.flags & 0x2))
	REQUIRES(gd.fic == IN.inodes_per_group ? ((gd.flags & 0x1) && gd.unused == IN.inodes_per_group)
					       : (!(gd.flags & 0x1) && gd.unused < IN.inodes_per_group))
	ASSIGNS(gd.sets, gd.pending, gd.csum, gd.changed_any)
	ENSURES(gd.sets == OLD(gd.sets) + 1 && gd.pending == 0 && gd.csum <= 0xFFFF)
	ENSURES(gd.changed_any == (OLD(gd.changed_any) || gd.flags != gd.old_flags || gd.unused != gd.old_unused || gd.csum != gd.old_csum));

static __u32 find_last_inode_ingrp(ext2fs_inode_bitmap bitmap, __u32 inodes_per_grp, dgrp_t grp_no)
	REQUIRES(bitmap == (ext2fs_inode_bitmap)&DUMMY_IMAP && inodes_per_grp == IN.inodes_per_group && grp_no == gd.cur)
	ASSIGNS()
	ENSURES(RET >= 1 && RET <= inodes_per_grp);

#define VERIF_INV_SET_GDT_CSUM_GROUPS \
	__CPROVER_assigns(i, dirty, gd) \
	__CPROVER_loop_invariant(i <= fs->group_desc_count) \
	__CPROVER_loop_invariant(gd.sets == i && gd.pending == 0) \
	__CPROVER_loop_invariant((dirty != 0) == (gd.changed_any != 0)) \
	__CPROVER_decreases(fs->group_desc_count - i)

#include "lib/ext2fs/csum.c"

/* ---- blknum.c accessors over the ghost descriptor ---- */
#define GD_CUR(what) CHECK(group == gd.cur && fs == &FS, what ": the group being processed")
__u16 ext2fs_bg_checksum(ext2_filsys fs, dgrp_t group)
{
	if (gd.sets == group && !gd.pending) {
		/* first access of a new group: its descriptor as it is before the update */
		gd.cur = group;
		gd.flags = GD_ANS() & 0xFFFF; gd.unused = GD_ANS(); gd.csum = GD_ANS() & 0xFFFF; gd.fic = GD_ANS(); gd.fbc = GD_ANS();
		gd.old_flags = gd.flags; gd.old_unused = gd.unused; gd.old_csum = gd.csum;
		REACH("a group is processed");
	} else
		GD_CUR("bg_checksum");
	return gd.csum;
}
__u32 ext2fs_bg_itable_unused(ext2_filsys fs, dgrp_t group) { GD_CUR("bg_itable_unused"); return gd.unused; }
__u16 ext2fs_bg_flags(ext2_filsys fs, dgrp_t group) { GD_CUR("bg_flags"); return gd.flags; }
__u32 ext2fs_bg_free_inodes_count(ext2_filsys fs, dgrp_t group) { GD_CUR("bg_free_inodes_count"); return gd.fic; }
__u32 ext2fs_bg_free_blocks_count(ext2_filsys fs, dgrp_t group) { GD_CUR("bg_free_blocks_count"); return gd.fbc; }
#define GD_UPDATE(what) do { GD_CUR(what); CHECK(gd.sets == group, what ": a descriptor is only modified BEFORE its checksum is set"); gd.pending = 1; } while (0)
void ext2fs_bg_flags_set(ext2_filsys fs, dgrp_t group, __u16 bg_flags) { GD_UPDATE("bg_flags_set"); gd.flags |= bg_flags; }
void ext2fs_bg_flags_clear(ext2_filsys fs, dgrp_t group, __u16 bg_flags) { GD_UPDATE("bg_flags_clear"); gd.flags &= ~bg_flags; }
void ext2fs_bg_itable_unused_set(ext2_filsys fs, dgrp_t group, __u32 n) { GD_UPDATE("bg_itable_unused_set"); gd.unused = n; }
/* other-file callees of csum.c functions that are not under contract here */
__u32 ext2fs_crc32c_le(__u32 crc, unsigned char const *p, size_t len) { return 0; }
crc16_t ext2fs_crc16(crc16_t crc, const void *buffer, unsigned int len) { return 0; }
errcode_t ext2fs_read_inode(ext2_filsys fs, ext2_ino_t ino, struct ext2_inode *inode) { return 0; }
struct ext2_group_desc *ext2fs_group_desc(ext2_filsys fs, struct opaque_ext2_group_desc *gdp, dgrp_t group) { return 0; }
errcode_t ext2fs_get_rec_len(ext2_filsys fs, struct ext2_dir_entry *dirent, unsigned int *rec_len) { return 0; }

void h_set_gdt_csum(void)
{
	LOAD_IN();
	memset(&FS, 0, sizeof(FS));
	memset(&SB, 0, sizeof(SB));
	memset(&gd, 0, sizeof(gd));
	FS.magic = EXT2_ET_MAGIC_EXT2FS_FILSYS;
	FS.super = &SB;
	FS.flags = IN.fs_flags;
	FS.group_desc_count = IN.group_desc_count;
	FS.inode_map = IN.have_imap ? (ext2fs_inode_bitmap)&DUMMY_IMAP : 0;
	SB.s_feature_ro_compat = IN.feature_ro_compat;
	SB.s_blocks_per_group = IN.blocks_per_group;
	SB.s_inodes_per_group = IN.inodes_per_group;
	ASSUME(IN.inodes_per_group >= 1);
	int csum = ext2fs_has_group_desc_csum(&FS);
	if (!IN.have_imap) REACH("no inode bitmap");
	else if (!csum) REACH("no descriptor checksums");
	else REACH("checksummed filesystem");

	errcode_t r = ext2fs_set_gdt_csum(&FS);

	if (!IN.have_imap) {
		CHECK(r == EXT2_ET_NO_INODE_BITMAP && gd.sets == 0 && FS.flags == IN.fs_flags, "no inode bitmap: refused, nothing touched");
	} else if (!csum) {
		CHECK(r == 0 && gd.sets == 0 && FS.flags == IN.fs_flags, "no descriptor checksums: nothing to do");
	} else {
		CHECK(r == 0, "success");
		CHECK(gd.sets == IN.group_desc_count && gd.pending == 0, "every group's checksum was set, each after the last update of its descriptor");
		CHECK(!gd.changed_any || (FS.flags & (EXT2_FLAG_DIRTY | EXT2_FLAG_CHANGED)) == (EXT2_FLAG_DIRTY | EXT2_FLAG_CHANGED), "a changed descriptor marks the filesystem dirty (so that it is flushed)");
		CHECK(gd.changed_any || FS.flags == IN.fs_flags, "nothing changed: flags untouched");
	}
	REACH("end");
}
