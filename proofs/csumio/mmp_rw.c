/*
 * C14 "read paths report the error / write paths set the checksum": lib/ext2fs/mmp.c  ext2fs_mmp_read, ext2fs_mmp_write.
 *
 * Statement:
 *  read:  the MMP block is read (through the private descriptor, read(2)) into fs->mmp_cmp; a bad block number, a failed
 *         open / seek / short read is an error and nothing is verified.  Otherwise, unless EXT2_FLAG_IGNORE_CSUM_ERRORS,
 *         ext2fs_mmp_csum_verify (csum.c; definition proved in csum/mmp_csum_verify) is consulted exactly once, after the
 *         read, on the bytes read;  verifier answered "mismatch"  =>  the call FAILS: EXT2_ET_MMP_CSUM_INVALID when the
 *         magic (mmp.rst: le32 0x004D4D50 @0) is right, EXT2_ET_MMP_MAGIC_INVALID when it is not.  The caller's buffer
 *         receives the block in every case that got as far as the read.
 *  write: the time stamp is stored first, then ext2fs_mmp_csum_set is applied once to the caller's buffer, then exactly
 *         sizeof(struct mmp_struct) = 1024 BYTES (count = -1024) of that buffer are written to the block named, then the
 *         channel is flushed; nothing is modified between set and write (ghost offset); set failure => nothing written.
 * Little-endian host.
 */
/* VERIF-UNIT
{
 "name": "mmp_read",
 "props": [
  "C14"
 ],
 "level": "P",
 "tier": "quick",
 "harness": "h_mmp_read",
 "backend": "cadical",
 "unwind": 1,
 "unwind_reason": "loop-free (memcpy of the constant 1024 bytes is the CBMC library model, no loop)",
 "cbmc_flags": [
  "--object-bits",
  "10"
 ],
 "functions": [
  "lib/ext2fs/mmp.c:ext2fs_mmp_read"
 ],
 "assumes": [
  "little-endian host; CONFIG_MMP defined",
  "fs->blocksize = 1024 (the byte offset mmp_blk * blocksize is a product: block size fixed, mmp_blk arbitrary)",
  "libc / other-file callees are stubs with arbitrary results: stat, open, ext2fs_llseek, read (monitor READ event; returns 1024 or an arbitrary other count; the arbitrary content of fs->mmp_cmp is the block read), ext2fs_get_dio_alignment, ext2fs_get_memalign (malloc, may fail), ext2fs_blocks_count",
  "ext2fs_mmp_csum_verify (csum.c) is a monitor stub answering IN.c.cv_ok",
  "fs->mmp_cmp absent or a 1024-byte buffer; caller buffer absent, equal to fs->mmp_cmp, or a separate 1024-byte buffer"
 ],
 "native": false
}
*/
/* VERIF-UNIT
{
 "name": "mmp_write",
 "props": [
  "C14"
 ],
 "level": "P",
 "tier": "quick",
 "harness": "h_mmp_write",
 "sources": [
  "lib/ext2fs/io_manager.c"
 ],
 "unwind": 1,
 "unwind_reason": "loop-free",
 "cbmc_flags": [
  "--object-bits",
  "10"
 ],
 "functions": [
  "lib/ext2fs/mmp.c:ext2fs_mmp_write"
 ],
 "assumes": [
  "little-endian host; CONFIG_MMP defined",
  "gettimeofday, ext2fs_blocks_count are stubs with arbitrary results; ext2fs_mmp_csum_set (csum.c) is a monitor stub that may fail",
  "io manager methods are monitor stubs (write may fail, flush counted); caller buffer: 1024 bytes, arbitrary content; superblock arbitrary"
 ],
 "native": false
}
*/
#include "verif.h"
#include "csumio_in.h"
#include "csumio_spec.h"

struct in_mmp {
	struct cs_in c;
	unsigned long long mmp_blk, blocks_count, seek_ret;
	unsigned int first_data_block, s_mmp_block;
	int mmp_fd, open_ret, stat_ret;
	unsigned int st_mode;
	long read_ret, tv_sec;
	unsigned char have_cmp, buf_sel;
};
struct in_mmp IN;
#include "verif_in.h"

#include "lib/ext2fs/mmp.c"
#include "csumio_common.h"

unsigned int g_opens, g_seeks;
ext2_filsys g_fs_seen;

int open(const char *pathname, int flags, ...) { g_opens++; return IN.open_ret; }
int stat(const char *path, struct stat *st) { st->st_mode = IN.st_mode; return IN.stat_ret; }
ext2_loff_t ext2fs_llseek(int fd, ext2_loff_t offset, int origin) { g_seeks++; return (ext2_loff_t)IN.seek_ret; }
ssize_t read(int fd, void *buf, size_t count)
{
	(void) cs_ev_read(buf, (unsigned long long)fd, (int)count);
	return IN.c.rd_fail ? (ssize_t)IN.read_ret : (ssize_t)count;
}
int ext2fs_get_dio_alignment(int fd) { return 0; }
errcode_t ext2fs_get_memalign(unsigned long size, unsigned long align, void *ptr)
{
	void *p = malloc(size);
	if (!p)
		return EXT2_ET_NO_MEMORY;
	memcpy(ptr, &p, sizeof(p));
	return 0;
}
blk64_t ext2fs_blocks_count(struct ext2_super_block *super) { return IN.blocks_count; }
int gettimeofday(struct timeval *tv, void *tz) { tv->tv_sec = IN.tv_sec; tv->tv_usec = 0; return 0; }
int ext2fs_mmp_csum_verify(ext2_filsys fs, struct mmp_struct *mmp) { g_fs_seen = fs; return cs_ev_verify(mmp, 0); }
errcode_t ext2fs_mmp_csum_set(ext2_filsys fs, struct mmp_struct *mmp) { g_fs_seen = fs; return cs_ev_set(mmp, 0); }
/* reached only from functions that are not under contract here (kept so that no callee is undefined) */
long random(void) { return 0; }
void srandom(unsigned int seed) { }
pid_t getpid(void) { return 1; }
uid_t getuid(void) { return 0; }
unsigned int sleep(unsigned int s) { return 0; }
int close(int fd) { return 0; }
int gethostname(char *name, size_t len) { if (len) name[0] = 0; return 0; }

#define BS 1024
static char DEVNAME[2];

void h_mmp_read(void)
{
	LOAD_IN();
	cs_build_fs(BS);
	ASSUME(cs_k < BS);
	ASSUME(!IN.c.rd_fail || IN.read_ret != BS);
	g_opens = g_seeks = 0;
	g_fs_seen = 0;
	SB.s_first_data_block = IN.first_data_block;
	FS.device_name = DEVNAME;
	FS.mmp_fd = IN.mmp_fd;
	unsigned char *cmp0 = 0, *own = 0, *buf = 0;
	if (IN.have_cmp) {
		cmp0 = malloc(BS);
		ASSUME(cmp0 != 0);
		FS.mmp_cmp = cmp0;
	}
	if (IN.buf_sel == 1 && IN.have_cmp)
		buf = cmp0;
	else if (IN.buf_sel == 2) {
		own = malloc(BS);
		ASSUME(own != 0);
		buf = own;
	}
	errcode_t r = ext2fs_mmp_read(&FS, IN.mmp_blk, buf);

	int ignore = CS_IGNORE();
	int blk_bad = IN.mmp_blk <= IN.first_data_block || IN.mmp_blk >= IN.blocks_count;
	int need_open = IN.mmp_fd <= 0;
	int open_bad = need_open && IN.open_ret < 0;
	int got_cmp = FS.mmp_cmp != 0;
	int seek_bad = IN.seek_ret != IN.mmp_blk * BS;
	int io_ok = !blk_bad && !open_bad && got_cmp && !seek_bad && !IN.c.rd_fail;
	if (blk_bad) REACH("bad block number");
	else if (open_bad) REACH("open failed");
	else if (!got_cmp) REACH("no memory");
	else if (seek_bad) REACH("seek failed");
	else if (IN.c.rd_fail) REACH("short read");
	else if (ignore) REACH("ignore flag");
	else if (!IN.c.cv_ok) REACH("mismatch");
	else REACH("match");
	if (io_ok && buf == own && own) REACH("separate buffer");

	CHECK(cs.wr.n == 0 && cs.st.n == 0, "a read path neither writes nor sets checksums");
	if (blk_bad) {
		CHECK(r == EXT2_ET_MMP_BAD_BLOCK && cs.rd.n == 0 && cs.vf.n == 0 && g_opens == 0, "block number outside the filesystem refused before anything is opened or read");
	} else if (open_bad) {
		CHECK(r == EXT2_ET_MMP_OPEN_DIRECT && cs.rd.n == 0 && cs.vf.n == 0, "descriptor cannot be opened: error, nothing read");
	} else if (!got_cmp) {
		CHECK(r == EXT2_ET_NO_MEMORY && cs.rd.n == 0 && cs.vf.n == 0, "no buffer: error, nothing read");
	} else if (seek_bad) {
		CHECK(r == EXT2_ET_LLSEEK_FAILED && cs.rd.n == 0 && cs.vf.n == 0, "seek failed: error, nothing read");
	} else {
		const unsigned char *cmp = (const unsigned char *)FS.mmp_cmp;
		CHECK(!IN.have_cmp || cmp == cmp0, "an existing comparison buffer is reused");
		CHECK(cs.rd.n == 1 && cs.rd.buf == (const void *)cmp && cs.rd.count == BS, "one block is read into fs->mmp_cmp");
		CHECK(cs.rd.id == (unsigned long long)(need_open ? IN.open_ret : IN.mmp_fd), "read through the private descriptor");
		if (IN.c.rd_fail) {
			CHECK(r == EXT2_ET_SHORT_READ && cs.vf.n == 0, "short read: error, nothing verified");
		} else {
			int bad = !ignore && !IN.c.cv_ok;
			int magic_ok = CS_LE32(cmp, 0) == CS_MMP_MAGIC;
			if (ignore) {
				CHECK(cs.vf.n == 0, "EXT2_FLAG_IGNORE_CSUM_ERRORS: verifier not consulted");
			} else {
				CHECK(cs.vf.n == 1 && cs.vf.seq > cs.rd.seq && cs.vf.buf == (const void *)cmp && g_fs_seen == &FS, "verified exactly once, after the read, on the bytes read");
			}
			CHECK(!bad || r != 0, "checksum mismatch => the call fails");
			CHECK(r == (!magic_ok ? EXT2_ET_MMP_MAGIC_INVALID : bad ? EXT2_ET_MMP_CSUM_INVALID : 0), "right magic: mismatch <=> EXT2_ET_MMP_CSUM_INVALID; wrong magic: EXT2_ET_MMP_MAGIC_INVALID");
			CHECK(buf == 0 || buf[cs_k] == cmp[cs_k], "the caller's buffer holds the block read (ghost offset)");
			CHECK(cs.vf.n == 0 || cs.vf.wit == cmp[cs_k], "the bytes verified are the bytes handed over");
		}
	}
	REACH("end");
}

void h_mmp_write(void)
{
	LOAD_IN();
	cs_build_fs(BS);
	ASSUME(cs_k < BS);
	SB.s_first_data_block = IN.first_data_block;
	SB.s_mmp_block = IN.s_mmp_block;
	unsigned char *buf = malloc(BS);
	ASSUME(buf != 0);
	errcode_t r = ext2fs_mmp_write(&FS, IN.mmp_blk, buf);

	int blk_bad = IN.s_mmp_block < IN.first_data_block || IN.s_mmp_block > IN.blocks_count;
	if (blk_bad) REACH("bad block number");
	else if (IN.c.set_fail) REACH("set failed");
	else if (IN.c.wr_fail) REACH("write error");
	else REACH("written");

	CHECK(cs.rd.n == 0 && cs.vf.n == 0, "a write path neither reads nor verifies");
	if (blk_bad) {
		CHECK(r == EXT2_ET_MMP_BAD_BLOCK && cs.st.n == 0 && cs.wr.n == 0, "MMP block outside the filesystem: refused, nothing written");
	} else {
		CHECK(cs.st.n == 1 && cs.st.buf == (const void *)buf && g_fs_seen == &FS, "checksum set exactly once on the caller's block");
		/* mmp.rst: mmp_time le64 @8 */
		CHECK((CS_LE32(buf, 8) | ((unsigned long long)CS_LE32(buf, 12) << 32)) == (unsigned long long)IN.tv_sec, "the time stamp is in the block");
		if (IN.c.set_fail) {
			CHECK(r == IN.c.set_ret && cs.wr.n == 0, "no checksum could be set: error returned, nothing written");
		} else {
			CHECK(cs.wr.n == 1 && cs.wr.id == IN.mmp_blk && cs.wr.count == -1024, "exactly the 1024 bytes of the MMP structure are written to the block named");
			CHECK(cs.wr.seq > cs.st.seq, "checksum set BEFORE the block is handed to the channel (and after the time stamp)");
			CHECK(cs.wr.buf == cs.st.buf && cs.wr.wit == cs.st.wit && buf[cs_k] == cs.st.wit, "the bytes written are the bytes the checksum was set on (ghost offset)");
			CHECK(cs.flushes == 1, "the channel is flushed after the write");
			CHECK(r == (IN.c.wr_fail ? IN.c.wr_ret : 0), "write error reported");
		}
	}
	REACH("end");
}
