/*
 * C10 — lib/ext2fs/link.c: dx_grow_tree — make room in a full htree: add a leaf, split an interior index node, or add a level.
 *
 * Specification (kernel fs/ext4/namei.c:ext4_dx_add_entry and the on-disk format, specs/htree_index.h; not from link.c).
 * Let i be the DEEPEST index level whose node still has room (count < limit), levels = indirect_levels + 1:
 *   NOSPACE  every level full and levels == maximum (3 with largedir, else 2): EXT2_ET_DIR_NO_SPACE, NOTHING is touched;
 *   APPEND   otherwise the directory grows by exactly one block: logical block lblk = i_size / blocksize, i_size += blocksize,
 *            the block is allocated and zeroed (ext2fs_fallocate FORCE_INIT | ZERO_BLOCKS, one block at lblk), the inode is
 *            written, the block is mapped (ext2fs_bmap2) — in this order; any error is returned before an index block changes;
 *   LEAF     i is the last level: dx_split_leaf(leaf buffer, leaf block, lblk, pblk) and its result;
 *   NODE     0 <= i < last level: node N = frames[i+1] (full) is split in the middle, count1 = count/2 stay:
 *            the new block is a dx_node: fake dirent (inode 0, rec_len blocksize, name_len 0, type 0), its entries are
 *            N.entries[count1 .. count) in order (ghost entry), count = count - count1, limit = (blocksize - 8 - tail) / 8;
 *            N keeps entries[0 .. count1) and only its count changes (ghost byte);
 *            the parent gets (hash of N.entries[count1], lblk) via dx_insert_entry(level i);
 *            N and the new block are written (N's physical block / pblk);
 *   DEPTH    no level has room and levels < maximum: the new block is a dx_node holding ALL root entries (ghost entry; its
 *            count is the root's old count), limit = node limit; the root keeps ONE entry pointing to lblk (count 1, limit and
 *            everything else unchanged: ghost byte), indirect_levels + 1; root and new block are written.
 *   node limit with metadata_csum leaves room for the 8-byte dx_tail (kernel dx_node_limit()).
 */
/* VERIF-UNIT
{
 "name": "ht_dx_grow_tree_128",
 "props": ["C10"],
 "level": "P",
 "tier": "quick",
 "harness": "h_grow",
 "replace": ["dx_split_leaf", "dx_insert_entry"],
 "defines": ["GX_BS=128", "EXT2_CUSTOM_MEMORY_ROUTINES"],
 "sources": ["lib/ext2fs/dir_iterate.c"],
 "unwind": 6,
 "unwind_reason": "at most EXT4_HTREE_LEVEL = 3 index levels (loop over levels); everything else is loop-free; unwinding assertions on",
 "timeout": 900,
 "functions": ["lib/ext2fs/link.c:dx_grow_tree"],
 "assumes": ["SYMBOLIC INDEX BLOCKS OF 128 BYTES with arbitrary contents (smaller than a legal ext2 block; dx_grow_tree depends on the block size only through the node limit (blocksize - 8 - tail) / 8 and i_size / blocksize)", "the frames are as dx_lookup leaves them (ht_dx_lookup_*): levels 1..3, root entries at byte 32, node entries at byte 8, 1 <= count <= limit, limit entries inside the block", "every node has limit >= 2 (the limits the format prescribes are >= 124; the kernel rejects any other limit in dx_probe, libext2fs dx_lookup only checks that the limit fits the block — with limit 1 the split of an interior node would leave it with count 0: observation on crafted images)", "i_size is a multiple of the block size below 2^40 (directory sizes are); logical block numbers of index children are stored in 32 bits", "stubs that log into a ghost monitor and return arbitrary errors: ext2fs_inode_size_set (sets the size), ext2fs_fallocate, ext2fs_write_inode, ext2fs_bmap2 (arbitrary physical block), ext2fs_write_dir_block4; dx_split_leaf and dx_insert_entry are replaced by contracts that record their arguments (own proofs: ht_dx_split_leaf, ht_dx_insert_entry_*)", "libc memcpy is an over-approximating stub in the unit: the whole new block becomes arbitrary except that, at every byte the specification later reads (header, count/limit, ghost entry, ghost byte), the ISO C result holds; ranges asserted to lie inside the blocks"],
 "native": false
}
*/
#include "verif.h"
#include "htree_index.h"

#ifndef GX_BS
#define GX_BS 128
#endif
#define BS ((unsigned)GX_BS)

struct in_gx {
	unsigned int levels;
	unsigned int sb_incompat, sb_ro_compat;
	unsigned long long isize, leaf_pblk, new_pblk;
	unsigned long long fpblk[3];
	long size_err, fa_err, wi_err, bmap_err, wr_err[2], split_ret, ins_ret;
	unsigned int k;			/* ghost entry index */
	unsigned int j;			/* ghost byte index */
	unsigned int dir;
};
struct in_gx IN;
#include "verif_in.h"

#include "config.h"
#include "ext2_fs.h"
#include "ext2fs.h"
errcode_t ext2fs_get_mem(unsigned long size, void *ptr);
errcode_t ext2fs_get_array(unsigned long count, unsigned long size, void *ptr);
errcode_t ext2fs_free_mem(void *ptr);

#include "lib/ext2fs/link.c"

static unsigned char F0[GX_BS] __attribute__((aligned(8))), F1[GX_BS] __attribute__((aligned(8))), F2[GX_BS] __attribute__((aligned(8)));
static unsigned char NB[GX_BS] __attribute__((aligned(8)));	/* the caller's block buffer, reused for the new index block */
static unsigned char O0[GX_BS], O1[GX_BS], O2[GX_BS];	/* pre-state copies of the frame blocks */
static struct struct_ext2_filsys FS;
static struct ext2_super_block SB;
static struct ext2_inode DIRI;
static struct dx_lookup_info INFO;

#define FB(l) ((l) == 0 ? F0 : (l) == 1 ? F1 : F2)
#define OB(l) ((l) == 0 ? O0 : (l) == 1 ? O1 : O2)
#define EOF_(l) ((l) == 0 ? HX_ROOT_ENTRIES : HX_NODE_ENTRIES)
#define CSUM ((IN.sb_ro_compat & EXT4_FEATURE_RO_COMPAT_METADATA_CSUM) != 0)
#define NODE_LIMIT HX_MAX_LIMIT(BS, HX_NODE_ENTRIES, CSUM)

static int g_seq;
static int g_size_calls, g_size_seq, g_fa_calls, g_fa_seq, g_wi_calls, g_wi_seq, g_bm_calls, g_bm_seq;
static unsigned long long g_size_val, g_fa_lblk, g_fa_len, g_bm_lblk, g_wi_size;
static int g_fa_flags;
static int g_wr_calls, g_wr_seq[2];
static blk64_t g_wr_blk[2];
static void *g_wr_buf[2];
static int g_split_calls, g_split_seq, g_ins_calls, g_ins_seq, g_ins_level;
static void *g_split_buf;
static blk64_t g_split_leaf, g_split_lblk, g_split_pblk, g_ins_lblk;
static __u32 g_ins_hash;

errcode_t ext2fs_inode_size_set(ext2_filsys fs, struct ext2_inode *inode, ext2_off64_t size)
{
	g_size_calls++;
	g_size_seq = ++g_seq;
	g_size_val = size;
	if (IN.size_err)
		return IN.size_err;
	inode->i_size = (__u32)size;
	inode->i_size_high = (__u32)(size >> 32);
	return 0;
}

errcode_t ext2fs_fallocate(ext2_filsys fs, int flags, ext2_ino_t ino, struct ext2_inode *inode, blk64_t goal, blk64_t start, blk64_t len)
{
	g_fa_calls++;
	g_fa_seq = ++g_seq;
	g_fa_flags = flags;
	g_fa_lblk = start;
	g_fa_len = len;
	__CPROVER_assert(ino == IN.dir && inode == &DIRI, "CHECK:allocation for this directory");
	return IN.fa_err;
}

errcode_t ext2fs_write_inode(ext2_filsys fs, ext2_ino_t ino, struct ext2_inode *inode)
{
	g_wi_calls++;
	g_wi_seq = ++g_seq;
	g_wi_size = inode->i_size | ((unsigned long long)inode->i_size_high << 32);
	__CPROVER_assert(ino == IN.dir && inode == &DIRI, "CHECK:this directory's inode is written");
	return IN.wi_err;
}

errcode_t ext2fs_bmap2(ext2_filsys fs, ext2_ino_t ino, struct ext2_inode *inode, char *block_buf, int bmap_flags,
		       blk64_t block, int *ret_flags, blk64_t *phys_blk)
{
	g_bm_calls++;
	g_bm_seq = ++g_seq;
	g_bm_lblk = block;
	__CPROVER_assert(ino == IN.dir && bmap_flags == 0, "CHECK:read-only mapping of this directory");
	if (IN.bmap_err)
		return IN.bmap_err;
	*phys_blk = IN.new_pblk;
	return 0;
}

errcode_t ext2fs_write_dir_block4(ext2_filsys fs, blk64_t block, void *buf, int flags, ext2_ino_t ino)
{
	int n = g_wr_calls++;
	__CPROVER_assert(n < 2 && ino == IN.dir && flags == 0, "CHECK:at most two index blocks are written by dx_grow_tree itself");
	if (n >= 2)
		return EXT2_ET_DIR_CORRUPTED;
	g_wr_blk[n] = block;
	g_wr_buf[n] = buf;
	g_wr_seq[n] = ++g_seq;
	return IN.wr_err[n];
}

static errcode_t dx_split_leaf(ext2_filsys fs, ext2_ino_t dir, struct ext2_inode *diri, struct dx_lookup_info *info, void *buf,
			       blk64_t leaf_pblk, blk64_t new_lblk, blk64_t new_pblk)
	REQUIRES(fs == &FS && dir == IN.dir && diri == &DIRI && info == &INFO)
	ENSURES(g_split_calls == OLD(g_split_calls) + 1 && g_seq == OLD(g_seq) + 1 && g_split_seq == g_seq && g_split_buf == buf &&
		g_split_leaf == leaf_pblk && g_split_lblk == new_lblk && g_split_pblk == new_pblk && RET == IN.split_ret)
	ASSIGNS(g_split_calls, g_seq, g_split_seq, g_split_buf, g_split_leaf, g_split_lblk, g_split_pblk);

static errcode_t dx_insert_entry(ext2_filsys fs, ext2_ino_t dir, struct dx_lookup_info *info, int level, __u32 hash, blk64_t lblk)
	REQUIRES(fs == &FS && dir == IN.dir && info == &INFO && level >= 0 && level < (int)IN.levels)
	/* call-site guarantee the insert relies on (ht_dx_insert_entry_* precondition): the level has room */
	REQUIRES(HX_COUNT(FB(level), EOF_(level)) < HX_LIMIT(FB(level), EOF_(level)))
	ENSURES(g_ins_calls == OLD(g_ins_calls) + 1 && g_seq == OLD(g_seq) + 1 && g_ins_seq == g_seq && g_ins_level == level &&
		g_ins_hash == hash && g_ins_lblk == lblk && RET == IN.ins_ret)
	ASSIGNS(g_ins_calls, g_seq, g_ins_seq, g_ins_level, g_ins_hash, g_ins_lblk);

#ifndef VERIF_NATIVE
/* libc memcpy: over-approximating stub, exact at the bytes the specification reads (see dx_index.c:memmove) */
#define OBS(q) do { unsigned q_ = (q); if (q_ < BS) { \
		if (q_ >= d && q_ - d < n) __CPROVER_assume(T[q_] == ((const unsigned char *)src)[q_ - d]); \
		else __CPROVER_assume(T[q_] == NB[q_]); } } while (0)
#define OBS4(q) do { OBS(q); OBS((q) + 1); OBS((q) + 2); OBS((q) + 3); } while (0)
void *memcpy(void *dst, const void *src, __CPROVER_size_t n)
{
	__CPROVER_assert(__CPROVER_same_object(dst, NB) && n <= BS && __CPROVER_w_ok(dst, n), "CHECK:memcpy fills the new index block only, inside the block");
	__CPROVER_assert(__CPROVER_r_ok(src, n) && !__CPROVER_same_object(src, NB), "CHECK:memcpy source lies inside a frame block");
	unsigned d = (unsigned)((unsigned char *)dst - NB);
	unsigned char T[GX_BS];
	OBS4(0); OBS4(4);			/* fake dirent */
	OBS4(HX_NODE_ENTRIES);			/* limit, count */
	OBS4(HX_NODE_ENTRIES + 8 * IN.k); OBS4(HX_NODE_ENTRIES + 8 * IN.k + 4);	/* ghost entry */
	OBS(IN.j);
	__CPROVER_array_replace(NB, T);
	return dst;
}
#endif

static int frames_ok(void)
{
	int ok = IN.levels >= 1 && IN.levels <= 3;
	for (unsigned l = 0; l < 3; l++)
		if (l < IN.levels) {
			unsigned eo = EOF_(l), c = HX_COUNT(FB(l), eo), lim = HX_LIMIT(FB(l), eo);
			if (!(c >= 1 && c <= lim && lim >= 2 && eo + 8 * lim <= BS))
				ok = 0;
		}
	return ok;
}

static void grow_setup(void)
{
	for (unsigned l = 0; l < 3; l++) {
		INFO.frames[l].buf = FB(l);
		INFO.frames[l].pblock = IN.fpblk[l];
		INFO.frames[l].head = (struct ext2_dx_countlimit *)(FB(l) + EOF_(l));
		INFO.frames[l].entries = (struct ext2_dx_entry *)(FB(l) + EOF_(l));
		INFO.frames[l].at = (struct ext2_dx_entry *)(FB(l) + EOF_(l));
	}
}

void h_grow(void)
{
	errcode_t r;
	int si = -1;		/* the specification's i */

	LOAD_IN();
	{ unsigned char nd[GX_BS]; __CPROVER_array_replace(F0, nd); }
	{ unsigned char nd[GX_BS]; __CPROVER_array_replace(F1, nd); }
	{ unsigned char nd[GX_BS]; __CPROVER_array_replace(F2, nd); }
	{ unsigned char nd[GX_BS]; __CPROVER_array_replace(NB, nd); }
	ASSUME(frames_ok() && IN.k < BS / 8 && IN.j < BS);
	ASSUME(IN.isize < (1ULL << 40) && (IN.isize & (BS - 1)) == 0);
	__CPROVER_array_copy(O0, F0);
	__CPROVER_array_copy(O1, F1);
	__CPROVER_array_copy(O2, F2);
	unsigned char old_nb_j = NB[IN.j];
	FS.blocksize = BS;
	FS.super = &SB;
	SB.s_feature_incompat = IN.sb_incompat;
	SB.s_feature_ro_compat = IN.sb_ro_compat;
	DIRI.i_size = (__u32)IN.isize;
	DIRI.i_size_high = (__u32)(IN.isize >> 32);
	grow_setup();
	g_seq = 0;
	g_size_calls = g_fa_calls = g_wi_calls = g_bm_calls = g_wr_calls = g_split_calls = g_ins_calls = 0;
	g_wr_seq[0] = g_wr_seq[1] = 0;
	for (unsigned l = 0; l < 3; l++)
		if (l < IN.levels && HX_COUNT(FB(l), EOF_(l)) < HX_LIMIT(FB(l), EOF_(l)))
			si = (int)l;
	unsigned maxlev = (IN.sb_incompat & EXT4_FEATURE_INCOMPAT_LARGEDIR) ? 3 : 2;
	unsigned long long lblk = IN.isize / BS;

	/* constant number of levels per call */
	if (IN.levels == 1) { INFO.levels = 1; r = dx_grow_tree(&FS, IN.dir, &DIRI, &INFO, NB, IN.leaf_pblk); }
	else if (IN.levels == 2) { INFO.levels = 2; r = dx_grow_tree(&FS, IN.dir, &DIRI, &INFO, NB, IN.leaf_pblk); }
	else { INFO.levels = 3; r = dx_grow_tree(&FS, IN.dir, &DIRI, &INFO, NB, IN.leaf_pblk); }

	int frames_untouched = F0[IN.j] == O0[IN.j] && F1[IN.j] == O1[IN.j] && F2[IN.j] == O2[IN.j];
	if (si < 0 && IN.levels >= maxlev) {
		CHECK(r == EXT2_ET_DIR_NO_SPACE && g_seq == 0 && frames_untouched && NB[IN.j] == old_nb_j, "NOSPACE: full tree of maximal depth: refused, nothing touched");
		REACH("no space");
	} else {
		errcode_t e = IN.size_err ? IN.size_err : IN.fa_err ? IN.fa_err : IN.wi_err ? IN.wi_err : IN.bmap_err;
		CHECK(g_size_calls == 1 && g_size_val == IN.isize + BS, "APPEND: i_size grows by exactly one block");
		CHECK(IN.size_err || (g_fa_calls == 1 && g_fa_lblk == lblk && g_fa_len == 1 && g_fa_seq > g_size_seq &&
				      g_fa_flags == (EXT2_FALLOCATE_FORCE_INIT | EXT2_FALLOCATE_ZERO_BLOCKS)),
		      "APPEND: one zeroed, initialised block is allocated at logical block i_size / blocksize");
		CHECK(IN.size_err || IN.fa_err || (g_wi_calls == 1 && g_wi_seq > g_fa_seq && g_wi_size == IN.isize + BS), "APPEND: then the inode is written with the new size");
		CHECK(IN.size_err || IN.fa_err || IN.wi_err || (g_bm_calls == 1 && g_bm_lblk == lblk && g_bm_seq > g_wi_seq), "APPEND: then the new block is mapped");
		if (e) {
			CHECK(r == e && frames_untouched && g_wr_calls == 0 && g_split_calls == 0 && g_ins_calls == 0, "APPEND: an error is returned before any index block changes");
		} else if (si == (int)IN.levels - 1) {
			CHECK(g_split_calls == 1 && g_split_buf == (void *)NB && g_split_leaf == IN.leaf_pblk && g_split_lblk == lblk && g_split_pblk == IN.new_pblk &&
			      g_split_seq > g_bm_seq && r == IN.split_ret && frames_untouched && g_wr_calls == 0 && g_ins_calls == 0,
			      "LEAF: the last level has room: the leaf is split into the new block, nothing else");
			REACH("leaf split");
		} else {
			unsigned src_l = (unsigned)(si + 1);		/* the node that is copied / split: frames[i+1] */
			const unsigned char *os = OB(src_l);
			unsigned seo = EOF_(src_l), cnt = HX_COUNT(os, seo), c1 = si < 0 ? 0 : cnt / 2, c2 = cnt - c1;
			CHECK(g_split_calls == 0, "no leaf split in this round");
			/* the new index block */
			CHECK(HX_LE32(NB, 0) == 0 && HX_LE16(NB, 4) == BS && NB[6] == 0 && NB[7] == 0, "new block: dx_node fake dirent (inode 0, rec_len blocksize, name_len 0, type 0)");
			CHECK(HX_LIMIT(NB, 8) == NODE_LIMIT && HX_COUNT(NB, 8) == c2, "new block: limit = (blocksize - 8 - tail) / 8, count = number of entries received");
			CHECK(IN.k >= c2 || (HX_BLOCK(NB, 8, IN.k) == HX_BLOCK(os, seo, c1 + IN.k) && (IN.k == 0 || HX_HASH(NB, 8, IN.k) == HX_HASH(os, seo, c1 + IN.k))),
			      "new block: entry k is entry c1 + k of the node that was full (ghost entry; entry 0's hash field is count/limit)");
			CHECK(c2 <= NODE_LIMIT, "new block: the entries fit below its limit");
			if (si < 0) {
				/* DEPTH */
				CHECK(HX_COUNT(F0, 32) == 1 && HX_LIMIT(F0, 32) == HX_LIMIT(O0, 32) && HX_BLOCK(F0, 32, 0) == (unsigned)lblk &&
				      F0[HX_ROOT_INFO + 6] == (unsigned char)(O0[HX_ROOT_INFO + 6] + 1), "DEPTH: root keeps one entry -> new block, indirect_levels + 1, limit unchanged");
				CHECK(F0[IN.j] == O0[IN.j] || (IN.j >= 34 && IN.j < 40) || IN.j == HX_ROOT_INFO + 6, "DEPTH: nothing else in the root changes");
				CHECK(F1[IN.j] == O1[IN.j] && F2[IN.j] == O2[IN.j] && g_ins_calls == 0, "DEPTH: no other index block changes");
				CHECK(g_wr_calls >= 1 && g_wr_blk[0] == IN.fpblk[0] && g_wr_buf[0] == (void *)F0, "DEPTH: the root is written to its block");
				if (IN.levels == 2) REACH("third level added"); else REACH("second level added");
			} else {
				/* NODE */
				unsigned char *fn = FB(src_l);
				CHECK(HX_COUNT(fn, 8) == c1 && c1 >= 1, "NODE: the full node keeps its first count/2 entries (at least entry 0)");
				CHECK(fn[IN.j] == os[IN.j] || (IN.j >= 10 && IN.j < 12), "NODE: only its count changes");
				CHECK(g_ins_calls == 1 && g_ins_level == si && g_ins_lblk == lblk && g_ins_hash == HX_HASH(os, seo, c1),
				      "NODE: the parent level gets (hash of the first moved entry, new logical block)");
				if (!IN.ins_ret)
					CHECK(g_wr_calls >= 1 && g_wr_blk[0] == IN.fpblk[src_l] && g_wr_buf[0] == (void *)fn && g_wr_seq[0] > g_ins_seq, "NODE: the shrunk node is written to its block");
				else
					CHECK(r == IN.ins_ret && g_wr_calls == 0, "NODE: error of the parent update returned");
				if (si == 0 && IN.levels == 3) REACH("interior split below the root");
			}
			if (!(si >= 0 && IN.ins_ret)) {
				if (IN.wr_err[0]) {
					CHECK(r == IN.wr_err[0] && g_wr_calls == 1, "write error returned");
				} else {
					CHECK(g_wr_calls == 2 && g_wr_blk[1] == IN.new_pblk && g_wr_buf[1] == (void *)NB, "the new index block is written to the block just mapped");
					CHECK(r == IN.wr_err[1], "result of the last write is the result");
				}
			}
		}
	}
	REACH("end");
}
