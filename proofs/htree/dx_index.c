/*
 * C10 — lib/ext2fs/link.c: the index side of the htree insert: dx_search_entry, dx_lookup, dx_insert_entry.
 *
 * Specification: specs/htree_index.h (on-disk format of dx_root / dx_node / dx_entry / dx_countlimit and the kernel's
 * dx_probe walk), written independently of link.c.
 *
 *   dx_search_entry   binary search in one index node: frame->at is the entry that COVERS the hash
 *                     (a == 0 || hash_a <= h) && (a == count-1 || h < hash_{a+1}); holds for arbitrary (also unsorted) node
 *                     bytes; no access outside entries[0 .. count)                                                     (U/k)
 *   dx_lookup         walk from the root through <= 3 index levels over ARBITRARY block bytes (C06 flavour: all accesses
 *                     stay inside the block buffers): hash version as the kernel (unsigned variants by superblock flag),
 *                     indirect_levels bounded by the largedir feature, count/limit respected, every level's `at` covers the
 *                     hash, the next level is the block `at->block & 0x0fffffff` of the level above; on error every frame
 *                     buffer is released exactly once and info->levels is 0                                             (U/k + P)
 *   dx_insert_entry   (hash, block) lands directly behind `at`, everything behind moves up by one entry, everything in
 *                     front and outside the entry array is unchanged, count+1, limit untouched, block written with the
 *                     frame's physical block, write error returned                                                      (U)
 *
 * Block size: the index code depends on the block size only through comparisons (csum.c:__get_dx_countlimit) — the units use
 * small symbolic blocks (256 B quick, 1 KiB thorough), stated in `assumes`.
 */
/* VERIF-UNIT
{
 "name": "ht_dx_search_entry_256",
 "props": ["C10"],
 "level": "U/k",
 "tier": "quick",
 "harness": "h_search",
 "enforce": ["dx_search_entry"],
 "defines": ["HX_BS=256", "EXT2_CUSTOM_MEMORY_ROUTINES"],
 "unwind": 7,
 "unwind_reason": "binary search over at most (256-8)/8 = 31 entries halves the interval: at most 5 iterations; unwinding assertions on",
 "timeout": 300,
 "functions": ["lib/ext2fs/link.c:dx_search_entry"],
 "assumes": ["SYMBOLIC BLOCK OF 256 BYTES (smaller than a legal block; dx_search_entry does not depend on the block size); entries at byte 8 (node) or 32 (root); 1 <= count and the count entries end inside the block (what dx_lookup has checked: count != 0, count <= limit, and csum.c:__get_dx_countlimit's fit test); node bytes otherwise arbitrary (not necessarily sorted)"],
 "native": false
}
*/
/* VERIF-UNIT
{
 "name": "ht_dx_search_entry_1k",
 "props": ["C10"],
 "level": "U/k",
 "tier": "thorough",
 "harness": "h_search",
 "enforce": ["dx_search_entry"],
 "defines": ["HX_BS=1024", "EXT2_CUSTOM_MEMORY_ROUTINES"],
 "unwind": 9,
 "unwind_reason": "binary search over at most (1024-8)/8 = 127 entries halves the interval: at most 7 iterations; unwinding assertions on",
 "timeout": 300,
 "functions": ["lib/ext2fs/link.c:dx_search_entry"],
 "assumes": ["index node inside a 1 KiB block (the smallest ext2 block); entries at byte 8 (node) or 32 (root); 1 <= count and the count entries end inside the block (what dx_lookup has checked: count != 0, count <= limit, and csum.c:__get_dx_countlimit's fit test); node bytes otherwise arbitrary (not necessarily sorted)"],
 "native": false
}
*/
/* VERIF-UNIT
{
 "name": "ht_dx_search_entry_4k",
 "props": ["C10"],
 "level": "U/k",
 "tier": "wip",
 "harness": "h_search",
 "enforce": ["dx_search_entry"],
 "defines": ["HX_BS=4096", "EXT2_CUSTOM_MEMORY_ROUTINES"],
 "unwind": 11,
 "unwind_reason": "binary search over at most (4096-8)/8 = 511 entries: at most 9 iterations; unwinding assertions on",
 "timeout": 900,
 "functions": ["lib/ext2fs/link.c:dx_search_entry"],
 "assumes": ["NOT RUN TO COMPLETION (1 KiB needs 150 s, the cost grows about 10x per 4x block): kept wip", "as ht_dx_search_entry_1k with a 4 KiB block"],
 "native": false
}
*/
/* VERIF-UNIT
{
 "name": "ht_dx_insert_entry_256",
 "props": ["C10"],
 "level": "U",
 "tier": "quick",
 "harness": "h_insert",
 "enforce": ["dx_insert_entry"],
 "defines": ["HX_BS=256", "EXT2_CUSTOM_MEMORY_ROUTINES"],
 "unwind": 6,
 "unwind_reason": "dx_insert_entry is loop-free; the bound serves the contract library's loops; unwinding assertions on",
 "timeout": 300,
 "functions": ["lib/ext2fs/link.c:dx_insert_entry"],
 "assumes": ["SYMBOLIC BLOCK OF 256 BYTES (smaller than a legal ext2 block: dx_insert_entry does not depend on the block size at all; 1 KiB: ht_dx_insert_entry_1k)", "the frame is as dx_lookup leaves it: head == entries == buf + 8 or buf + 32, at inside entries[0..count), and — call sites dx_split_leaf / dx_grow_tree insert only into a level found with count < limit — 1 <= count < limit, limit entries end inside the block", "libc memmove is an over-approximating stub in the unit: the whole block becomes arbitrary except that, at every byte the specification later reads (ghost entry, ghost byte, count/limit header), the ISO C result holds; source and destination ranges are asserted to lie inside the block", "ext2fs_write_dir_block4 is a stub that records its arguments and returns an arbitrary error code"],
 "native": false
}
*/
/* VERIF-UNIT
{
 "name": "ht_dx_insert_entry_1k",
 "props": ["C10"],
 "level": "U",
 "tier": "thorough",
 "harness": "h_insert",
 "enforce": ["dx_insert_entry"],
 "defines": ["HX_BS=1024", "EXT2_CUSTOM_MEMORY_ROUTINES"],
 "unwind": 6,
 "unwind_reason": "see ht_dx_insert_entry_256",
 "timeout": 900,
 "functions": ["lib/ext2fs/link.c:dx_insert_entry"],
 "assumes": ["block of 1024 bytes", "as ht_dx_insert_entry_256"],
 "native": false
}
*/
/* VERIF-UNIT
{
 "name": "ht_dx_lookup_64",
 "props": ["C10"],
 "level": "U/k",
 "tier": "thorough",
 "harness": "h_lookup",
 "defines": ["HX_BS=64", "EXT2_CUSTOM_MEMORY_ROUTINES"],
 "sources": ["lib/ext2fs/csum.c"],
 "unwind": 5,
 "unwind_reason": "at most EXT4_HTREE_LEVEL = 3 index levels (loop over levels, dx_release); binary search over at most (64-8)/8 = 7 entries: at most 3 iterations; unwinding assertions on",
 "timeout": 600,
 "functions": ["lib/ext2fs/link.c:dx_lookup", "lib/ext2fs/link.c:dx_search_entry", "lib/ext2fs/link.c:load_logical_dir_block", "lib/ext2fs/link.c:dx_release", "lib/ext2fs/link.c:alloc_dx_frame", "lib/ext2fs/csum.c:__get_dx_countlimit"],
 "assumes": ["SYMBOLIC BLOCKS OF 64 BYTES with ARBITRARY contents (smaller than a legal ext2 block; the code depends on the block size only through comparisons; 128 B: ht_dx_lookup_128, 256 B: ht_dx_lookup_256, 1 KiB: ht_dx_lookup_1k)", "stubs: ext2fs_get_mem hands out three distinct block-sized buffers or fails; ext2fs_free_mem records the release; ext2fs_bmap2 returns an arbitrary error / flags / physical block and records the logical block asked for; ext2fs_read_dir_block4 returns an arbitrary error and leaves arbitrary bytes in the buffer; ext2fs_dirhash2 returns an arbitrary error or an arbitrary hash and records the version it was asked for (the hash itself: proofs/htree/dirhash.c)", "superblock s_flags and feature words arbitrary; inode i_flags arbitrary", "a block 0 that csum.c:__get_dx_countlimit reads as a dx NODE (first rec_len == blocksize) is walked with entries at byte 8 although dx_lookup takes hash version / levels from byte 24 (kernel: always 24 + info_length): accepted here as an observation on corrupted directories, safety and the cover property are checked for it too"],
 "native": false
}
*/
/* VERIF-UNIT
{
 "name": "ht_dx_lookup_128",
 "props": ["C10"],
 "level": "U/k",
 "tier": "thorough",
 "harness": "h_lookup",
 "defines": ["HX_BS=128", "EXT2_CUSTOM_MEMORY_ROUTINES"],
 "sources": ["lib/ext2fs/csum.c"],
 "unwind": 6,
 "unwind_reason": "at most EXT4_HTREE_LEVEL = 3 index levels (loop over levels, dx_release); binary search over at most (128-8)/8 = 15 entries: at most 4 iterations; unwinding assertions on",
 "timeout": 600,
 "functions": ["lib/ext2fs/link.c:dx_lookup", "lib/ext2fs/link.c:dx_search_entry", "lib/ext2fs/link.c:load_logical_dir_block", "lib/ext2fs/link.c:dx_release", "lib/ext2fs/link.c:alloc_dx_frame", "lib/ext2fs/csum.c:__get_dx_countlimit"],
 "assumes": ["SYMBOLIC BLOCKS OF 128 BYTES with ARBITRARY contents (smaller than a legal ext2 block; the code depends on the block size only through comparisons; 256 B: ht_dx_lookup_256, 1 KiB: ht_dx_lookup_1k)", "stubs: ext2fs_get_mem hands out three distinct block-sized buffers or fails; ext2fs_free_mem records the release; ext2fs_bmap2 returns an arbitrary error / flags / physical block and records the logical block asked for; ext2fs_read_dir_block4 returns an arbitrary error and leaves arbitrary bytes in the buffer; ext2fs_dirhash2 returns an arbitrary error or an arbitrary hash and records the version it was asked for (the hash itself: proofs/htree/dirhash.c)", "superblock s_flags and feature words arbitrary; inode i_flags arbitrary", "a block 0 that csum.c:__get_dx_countlimit reads as a dx NODE (first rec_len == blocksize) is walked with entries at byte 8 although dx_lookup takes hash version / levels from byte 24 (kernel: always 24 + info_length): accepted here as an observation on corrupted directories, safety and the cover property are checked for it too"],
 "native": false
}
*/
/* VERIF-UNIT
{
 "name": "ht_dx_lookup_256",
 "props": ["C10"],
 "level": "U/k",
 "tier": "thorough",
 "harness": "h_lookup",
 "defines": ["HX_BS=256", "EXT2_CUSTOM_MEMORY_ROUTINES"],
 "sources": ["lib/ext2fs/csum.c"],
 "unwind": 7,
 "unwind_reason": "at most EXT4_HTREE_LEVEL = 3 index levels (loop over levels, dx_release); binary search over at most (256-8)/8 = 31 entries: at most 5 iterations; unwinding assertions on",
 "timeout": 1200,
 "functions": ["lib/ext2fs/link.c:dx_lookup", "lib/ext2fs/link.c:dx_search_entry", "lib/ext2fs/link.c:load_logical_dir_block", "lib/ext2fs/link.c:dx_release", "lib/ext2fs/link.c:alloc_dx_frame", "lib/ext2fs/csum.c:__get_dx_countlimit"],
 "assumes": ["SYMBOLIC BLOCKS OF 256 BYTES with ARBITRARY contents (smaller than a legal ext2 block; the code depends on the block size only through comparisons; 1 KiB: ht_dx_lookup_1k)", "stubs: ext2fs_get_mem hands out three distinct block-sized buffers or fails; ext2fs_free_mem records the release; ext2fs_bmap2 returns an arbitrary error / flags / physical block and records the logical block asked for; ext2fs_read_dir_block4 returns an arbitrary error and leaves arbitrary bytes in the buffer; ext2fs_dirhash2 returns an arbitrary error or an arbitrary hash and records the version it was asked for (the hash itself: proofs/htree/dirhash.c)", "superblock s_flags and feature words arbitrary; inode i_flags arbitrary", "a block 0 that csum.c:__get_dx_countlimit reads as a dx NODE (first rec_len == blocksize) is walked with entries at byte 8 although dx_lookup takes hash version / levels from byte 24 (kernel: always 24 + info_length): accepted here as an observation on corrupted directories, safety and the cover property are checked for it too"],
 "native": false
}
*/
/* VERIF-UNIT
{
 "name": "ht_dx_lookup_1k",
 "props": ["C10"],
 "level": "U/k",
 "tier": "wip",
 "harness": "h_lookup",
 "defines": ["HX_BS=1024", "EXT2_CUSTOM_MEMORY_ROUTINES"],
 "sources": ["lib/ext2fs/csum.c"],
 "unwind": 9,
 "unwind_reason": "3 index levels; binary search over at most 127 entries: at most 7 iterations; unwinding assertions on",
 "timeout": 1800,
 "functions": ["lib/ext2fs/link.c:dx_lookup", "lib/ext2fs/link.c:dx_search_entry", "lib/ext2fs/link.c:load_logical_dir_block", "lib/ext2fs/link.c:dx_release", "lib/ext2fs/link.c:alloc_dx_frame", "lib/ext2fs/csum.c:__get_dx_countlimit"],
 "assumes": ["NOT RUN TO COMPLETION (256 B needs 7 min): kept wip", "blocks of 1024 bytes with arbitrary contents", "as ht_dx_lookup_256"],
 "native": false
}
*/
#include "verif.h"
#include "htree_index.h"

#ifndef HX_BS
#define HX_BS 256
#endif
#define BS ((unsigned)HX_BS)

struct in_dx {
	unsigned int eo_root;		/* 0: node layout (8), 1: root layout (32) */
	unsigned int count;
	unsigned int hash;
	unsigned int a;			/* index of `at` */
	unsigned int level;
	unsigned int new_hash;
	unsigned long long lblk, pblock;
	unsigned int k;			/* ghost entry index */
	unsigned int j;			/* ghost byte index */
	unsigned int dir;
	long wr_ret;
	/* dx_lookup */
	unsigned char alloc_fail[3];
	long bmap_err[3];
	int bmap_flags[3];
	unsigned long long pblk[3];
	long rd_err[3];
	long hash_err;
	unsigned int sb_flags, sb_incompat, sb_ro_compat, i_flags;
	unsigned char name[16];
	int namelen;
};
struct in_dx IN;
#include "verif_in.h"

/* with EXT2_CUSTOM_MEMORY_ROUTINES ext2fs.h leaves the allocation wrappers to the application: prototypes first, stubs below */
#include "config.h"
#include "ext2_fs.h"
#include "ext2fs.h"
errcode_t ext2fs_get_mem(unsigned long size, void *ptr);
errcode_t ext2fs_get_array(unsigned long count, unsigned long size, void *ptr);
errcode_t ext2fs_free_mem(void *ptr);

#include "lib/ext2fs/link.c"

static unsigned char BLK[HX_BS] __attribute__((aligned(8)));
static struct dx_frame FR;
static struct struct_ext2_filsys FS;
static struct ext2_super_block SB;
static struct dx_lookup_info INFO;

#define EO (IN.eo_root ? HX_ROOT_ENTRIES : HX_NODE_ENTRIES)

/* ------------------------------------------------------------------ dx_search_entry */

static void dx_search_entry(struct dx_frame *frame, int count, __u32 hash)
	REQUIRES(frame == &FR && FR.entries == (struct ext2_dx_entry *)(BLK + EO))
	REQUIRES(count >= 1 && (unsigned)count <= (BS - EO) / 8u)
	ENSURES(FR.at >= FR.entries && FR.at < FR.entries + count)
	ENSURES(HX_COVERS(BLK, EO, (unsigned)count, (unsigned)(FR.at - FR.entries), hash))
	ASSIGNS(FR.at);

void h_search(void)
{
	LOAD_IN();
	{ unsigned char nd[HX_BS]; __CPROVER_array_replace(BLK, nd); }	/* arbitrary node bytes */
	ASSUME(IN.eo_root <= 1 && IN.count >= 1 && IN.count <= (BS - EO) / 8u);
	FR.buf = BLK;
	FR.head = (struct ext2_dx_countlimit *)(BLK + EO);
	FR.entries = (struct ext2_dx_entry *)(BLK + EO);
	FR.at = 0;
	dx_search_entry(&FR, (int)IN.count, IN.hash);
	unsigned a = (unsigned)(FR.at - FR.entries);
	CHECK(FR.at >= FR.entries && a < IN.count, "at points to one of the count entries");
	CHECK(a == 0 || HX_HASH(BLK, EO, a) <= IN.hash, "the chosen entry starts at or below the hash (or is entry 0)");
	CHECK(a + 1 == IN.count || IN.hash < HX_HASH(BLK, EO, a + 1), "the next entry starts above the hash (or there is none)");
	if (IN.count > 20 && a > 3 && a + 3 < IN.count) REACH("interior entry of a big node");
	if (IN.count == 1) REACH("single entry");
	REACH("end");
}

/* ------------------------------------------------------------------ dx_insert_entry */

static unsigned g_old_count, g_old_limit;
static unsigned g_old_hash_k, g_old_block_k, g_old_hash_km1, g_old_block_km1;
static unsigned char g_old_j;
static int g_wr_calls;
static unsigned long long g_wr_block;
static void *g_wr_buf;
static unsigned g_wr_ino;
static int g_wr_count_at_write;

errcode_t ext2fs_write_dir_block4(ext2_filsys fs, blk64_t block, void *buf, int flags, ext2_ino_t ino)
{
	g_wr_calls++;
	g_wr_block = block;
	g_wr_buf = buf;
	g_wr_ino = ino;
	g_wr_count_at_write = HX_COUNT(BLK, EO);
	return IN.wr_ret;
}

#ifndef VERIF_NATIVE
/*
 * libc memmove as an over-approximating stub (see link_proc.c for the pattern): the whole block becomes arbitrary (T) and T is
 * tied to the ISO C result only at the bytes the specification reads afterwards (OBS): inside [dst, dst+n) the byte is the
 * OLD byte at the corresponding source position, outside it is unchanged.  Ranges are asserted to lie inside the block.
 */
#define OBS(q) do { unsigned q_ = (q); if (q_ < BS) { \
		if (q_ >= d && q_ - d < n) __CPROVER_assume(T[q_] == BLK[q_ - d + s]); \
		else __CPROVER_assume(T[q_] == BLK[q_]); } } while (0)
#define OBS4(q) do { OBS(q); OBS((q) + 1); OBS((q) + 2); OBS((q) + 3); } while (0)
void *memmove(void *dst, const void *src, __CPROVER_size_t n)
{
	__CPROVER_assert(__CPROVER_same_object(dst, BLK) && __CPROVER_same_object(src, BLK), "CHECK:memmove stays in the index block");
	__CPROVER_assert(n <= BS && __CPROVER_w_ok(dst, n) && __CPROVER_r_ok(src, n), "CHECK:memmove ranges lie inside the block");
	unsigned d = (unsigned)((unsigned char *)dst - BLK), s = (unsigned)((const unsigned char *)src - BLK);
	unsigned char T[HX_BS];
	OBS4(EO);				/* limit, count */
	OBS4(EO + 8 * IN.k); OBS4(EO + 8 * IN.k + 4);	/* ghost entry */
	OBS(IN.j);				/* ghost byte */
	__CPROVER_array_replace(BLK, T);
	return dst;
}
#endif

static int ins_pre(void)
{
	return IN.eo_root <= 1 && IN.count >= 1 && EO + 8u * HX_LIMIT(BLK, EO) <= BS && HX_COUNT(BLK, EO) == IN.count &&
	       IN.count < HX_LIMIT(BLK, EO) && IN.a < IN.count && IN.k <= IN.count && IN.j < BS && IN.level <= 2;
}

/* violated clauses of the postcondition */
#define I_COUNT 1u
#define I_KEEP 2u
#define I_NEW 4u
#define I_SHIFT 8u
#define I_FRAME 16u
#define I_WRITE 32u
static unsigned ins_post(errcode_t ret)
{
	unsigned bad = 0;
	unsigned hk = HX_HASH(BLK, EO, IN.k), bk = HX_BLOCK(BLK, EO, IN.k);

	if (!(HX_COUNT(BLK, EO) == g_old_count + 1 && HX_LIMIT(BLK, EO) == g_old_limit))
		bad |= I_COUNT;
	if (IN.k >= 1 && IN.k <= IN.a && !(hk == g_old_hash_k && bk == g_old_block_k))
		bad |= I_KEEP;				/* entries up to `at` keep hash and block */
	if (IN.k == 0 && bk != g_old_block_k)
		bad |= I_KEEP;				/* entry 0 keeps its block (its hash field is count/limit) */
	if (IN.k == IN.a + 1 && !(hk == IN.new_hash && bk == (unsigned)IN.lblk))
		bad |= I_NEW;
	if (IN.k > IN.a + 1 && !(hk == g_old_hash_km1 && bk == g_old_block_km1))
		bad |= I_SHIFT;				/* entries behind move up by one */
	if (BLK[IN.j] != g_old_j && !(IN.j >= EO + 2 && IN.j < EO + 4) &&
	    !(IN.j >= EO + 8 * (IN.a + 1) && IN.j < EO + 8 * (g_old_count + 1)))
		bad |= I_FRAME;				/* nothing else in the block changes */
	if (!(g_wr_calls == 1 && g_wr_block == IN.pblock && g_wr_buf == (void *)BLK && g_wr_ino == IN.dir &&
	      g_wr_count_at_write == (int)g_old_count + 1 && ret == IN.wr_ret))
		bad |= I_WRITE;				/* the finished node is written to the frame's block; result handed up */
	return bad;
}

static errcode_t dx_insert_entry(ext2_filsys fs, ext2_ino_t dir, struct dx_lookup_info *info, int level, __u32 hash, blk64_t lblk)
	REQUIRES(fs == &FS && info == &INFO && level == (int)IN.level && dir == IN.dir && hash == IN.new_hash && lblk == IN.lblk)
	REQUIRES(INFO.frames[level].buf == (void *)BLK && INFO.frames[level].pblock == IN.pblock)
	REQUIRES(INFO.frames[level].head == (struct ext2_dx_countlimit *)(BLK + EO) && INFO.frames[level].entries == (struct ext2_dx_entry *)(BLK + EO))
	REQUIRES(INFO.frames[level].at == (struct ext2_dx_entry *)(BLK + EO) + IN.a)
	REQUIRES(ins_pre() && g_wr_calls == 0)
	ENSURES(ins_post(RET) == 0)
	ASSIGNS(__CPROVER_object_whole(BLK), g_wr_calls, g_wr_block, g_wr_buf, g_wr_ino, g_wr_count_at_write);

static void ins_setup(int level)
{
	INFO.levels = 3;
	INFO.frames[level].buf = BLK;
	INFO.frames[level].pblock = IN.pblock;
	INFO.frames[level].head = (struct ext2_dx_countlimit *)(BLK + EO);
	INFO.frames[level].entries = (struct ext2_dx_entry *)(BLK + EO);
	INFO.frames[level].at = (struct ext2_dx_entry *)(BLK + EO) + IN.a;
}

void h_insert(void)
{
	errcode_t r;

	LOAD_IN();
	{ unsigned char nd[HX_BS]; __CPROVER_array_replace(BLK, nd); }
	ASSUME(ins_pre());
	g_old_count = HX_COUNT(BLK, EO);
	g_old_limit = HX_LIMIT(BLK, EO);
	g_old_hash_k = HX_HASH(BLK, EO, IN.k);
	g_old_block_k = HX_BLOCK(BLK, EO, IN.k);
	g_old_hash_km1 = IN.k ? HX_HASH(BLK, EO, IN.k - 1) : 0;
	g_old_block_km1 = IN.k ? HX_BLOCK(BLK, EO, IN.k - 1) : 0;
	g_old_j = BLK[IN.j];
	g_wr_calls = 0;
	FS.blocksize = BS;
	FS.super = &SB;
	/* constant level per call (the frames of the other levels are not set up) */
	if (IN.level == 0) { ins_setup(0); r = dx_insert_entry(&FS, IN.dir, &INFO, 0, IN.new_hash, IN.lblk); }
	else if (IN.level == 1) { ins_setup(1); r = dx_insert_entry(&FS, IN.dir, &INFO, 1, IN.new_hash, IN.lblk); }
	else { ins_setup(2); r = dx_insert_entry(&FS, IN.dir, &INFO, 2, IN.new_hash, IN.lblk); }

	unsigned bad = ins_post(r);
	CHECK(!(bad & I_COUNT), "COUNT: count + 1, limit untouched");
	CHECK(!(bad & I_KEEP), "KEEP: entries up to `at` unchanged");
	CHECK(!(bad & I_NEW), "NEW: the new (hash, block) sits directly behind `at`");
	CHECK(!(bad & I_SHIFT), "SHIFT: every entry behind moved up by exactly one slot");
	CHECK(!(bad & I_FRAME), "FRAME: no byte outside count and the moved entries changes");
	CHECK(!(bad & I_WRITE), "WRITE: the updated node is written once to the frame's physical block, result handed up");
	/* sortedness is preserved when the new hash lies in the gap (consequence of KEEP/NEW/SHIFT, stated for the ghost entry) */
	if (IN.a + 1 < IN.count && IN.k == IN.a + 2) REACH("insert in the middle, ghost entry is the first moved one");
	if (IN.a + 1 == IN.count && IN.k == IN.count) REACH("append behind the last entry");
	REACH("end");
}

/* ------------------------------------------------------------------ dx_lookup */

/* three separate block buffers (separate objects: one per index level) */
static unsigned char P0[HX_BS] __attribute__((aligned(8))), P1[HX_BS] __attribute__((aligned(8))), P2[HX_BS] __attribute__((aligned(8)));
#define POOL(i) ((i) == 0 ? P0 : (i) == 1 ? P1 : P2)
static int g_allocs, g_frees, g_bad_free;
static unsigned g_freed_mask;
static int g_bmaps, g_reads;
static unsigned long long g_lblk[3];
static int g_hash_calls, g_hash_version, g_hash_flags;
static const char *g_hash_name;
static int g_hash_len;
static struct ext2_inode DIRI;

errcode_t ext2fs_get_mem(unsigned long size, void *ptr)
{
	int n = g_allocs;
	__CPROVER_assert(size == BS, "CHECK:frame buffers have the block size");
	__CPROVER_assert(n < 3, "CHECK:at most three frame buffers");
	if (n >= 3 || IN.alloc_fail[n])
		return EXT2_ET_NO_MEMORY;
	g_allocs = n + 1;
	*(void **)ptr = POOL(n);
	return 0;
}

errcode_t ext2fs_free_mem(void *ptr)
{
	void **pp = (void **)ptr;
	int hit = 0;
	for (int i = 0; i < 3; i++)
		if (*pp == (void *)POOL(i)) {
			hit = 1;
			if (i >= g_allocs || (g_freed_mask & (1u << i)))
				g_bad_free = 1;
			g_freed_mask |= 1u << i;
		}
	if (!hit)
		g_bad_free = 1;
	g_frees++;
	*pp = 0;
	return 0;
}

errcode_t ext2fs_bmap2(ext2_filsys fs, ext2_ino_t ino, struct ext2_inode *inode, char *block_buf, int bmap_flags,
		       blk64_t block, int *ret_flags, blk64_t *phys_blk)
{
	int n = g_bmaps;
	__CPROVER_assert(n < 3 && ino == IN.dir && inode == &DIRI && bmap_flags == 0, "CHECK:bmap of the directory, read-only");
	if (n >= 3)
		return EXT2_ET_DIR_CORRUPTED;
	g_bmaps = n + 1;
	g_lblk[n] = block;
	if (IN.bmap_err[n])
		return IN.bmap_err[n];
	if (ret_flags)
		*ret_flags = IN.bmap_flags[n];
	*phys_blk = IN.pblk[n];
	return 0;
}

errcode_t ext2fs_read_dir_block4(ext2_filsys fs, blk64_t block, void *buf, int flags, ext2_ino_t ino)
{
	int n = g_reads;
	__CPROVER_assert(n < 3 && n + 1 == g_bmaps && block == IN.pblk[n] && buf == (void *)POOL(n) && ino == IN.dir,
			 "CHECK:the block read is the one just mapped, into this level's frame buffer");
	if (n >= 3)
		return EXT2_ET_DIR_CORRUPTED;
	g_reads = n + 1;
	/* the buffer holds arbitrary bytes (set up by the harness): whatever is on disk */
	return IN.rd_err[n];
}

errcode_t ext2fs_dirhash2(int version, const char *name, int len, const struct ext2fs_nls_table *charset, int hash_flags,
			  const __u32 *seed, ext2_dirhash_t *ret_hash, ext2_dirhash_t *ret_minor_hash)
{
	g_hash_calls++;
	g_hash_version = version;
	g_hash_name = name;
	g_hash_len = len;
	g_hash_flags = hash_flags;
	__CPROVER_assert(seed == SB.s_hash_seed && charset == FS.encoding, "CHECK:hash seed and encoding of this filesystem");
	if (IN.hash_err)
		return IN.hash_err;
	*ret_hash = IN.hash;
	if (ret_minor_hash)
		*ret_minor_hash = 0;
	return 0;
}

/* format: where does a block keep its entries (the two shapes csum.c:__get_dx_countlimit accepts; specs/htree_index.h) */
#define IS_NODE_SHAPE(b) (HX_LE16(b, 4) == BS && HX_LE16(b, 6) == 0)
#define IS_ROOT_SHAPE(b) (HX_LE16(b, 4) == 12 && HX_LE16(b, 16) == BS - 12 && HX_LE32(b, 24) == 0 && (b)[29] == 8)

void h_lookup(void)
{
	errcode_t r;

	LOAD_IN();
	{ unsigned char nd[HX_BS]; __CPROVER_array_replace(P0, nd); }	/* arbitrary block contents */
	{ unsigned char nd[HX_BS]; __CPROVER_array_replace(P1, nd); }
	{ unsigned char nd[HX_BS]; __CPROVER_array_replace(P2, nd); }
	g_allocs = g_frees = g_bad_free = 0;
	g_freed_mask = 0;
	g_bmaps = g_reads = 0;
	g_hash_calls = 0;
	g_lblk[0] = g_lblk[1] = g_lblk[2] = ~0ULL;
	ASSUME(IN.namelen >= 0 && IN.namelen <= 15);
	FS.blocksize = BS;
	FS.super = &SB;
	FS.encoding = 0;
	SB.s_flags = IN.sb_flags;
	SB.s_feature_incompat = IN.sb_incompat;
	SB.s_feature_ro_compat = IN.sb_ro_compat;
	DIRI.i_flags = IN.i_flags;
	INFO.name = (const char *)IN.name;
	INFO.namelen = IN.namelen;
	INFO.levels = 0;
	for (int i = 0; i < 3; i++) {
		INFO.frames[i].buf = 0;
		INFO.frames[i].head = 0;
		INFO.frames[i].entries = 0;
		INFO.frames[i].at = 0;
	}

	r = dx_lookup(&FS, IN.dir, &DIRI, &INFO);

	int largedir = (IN.sb_incompat & EXT4_FEATURE_INCOMPAT_LARGEDIR) != 0;
	unsigned hv = P0[HX_ROOT_INFO + 4], il = P0[HX_ROOT_INFO + 6];
	if (r == 0) {
		unsigned L = il + 1;
		CHECK(hv <= 2, "only legacy, half-MD4 and TEA roots are walked");
		CHECK(L <= (largedir ? 3u : 2u), "indirect_levels below the limit of the largedir feature (3) or 2");
		CHECK(INFO.levels == L && (unsigned)g_allocs == L && g_frees == 0, "one frame per level, none released");
		CHECK(g_hash_calls == 1 && g_hash_name == (const char *)IN.name && g_hash_len == IN.namelen &&
		      g_hash_version == (int)(hv + ((IN.sb_flags & EXT2_FLAGS_UNSIGNED_HASH) ? 3 : 0)) &&
		      INFO.hash_alg == g_hash_version && INFO.hash == IN.hash,
		      "the name is hashed once with the root's version, unsigned variant iff the superblock says so (kernel s_hash_unsigned)");
		CHECK(g_hash_flags == (int)(IN.i_flags & EXT4_CASEFOLD_FL), "casefold flag of the directory inode is what the hash sees");
		CHECK(g_lblk[0] == 0, "the walk starts at logical block 0");
		for (unsigned l = 0; l < 3; l++) {
			if (l >= L)
				continue;
			const unsigned char *b = POOL(l);
			CHECK(IS_NODE_SHAPE(b) || IS_ROOT_SHAPE(b), "every walked block has a dx header");
			unsigned eo = IS_NODE_SHAPE(b) ? HX_NODE_ENTRIES : HX_ROOT_ENTRIES;
			unsigned count = HX_COUNT(b, eo), limit = HX_LIMIT(b, eo);
			CHECK(INFO.frames[l].buf == (void *)b && INFO.frames[l].pblock == IN.pblk[l], "frame l holds block l of the walk");
			CHECK((unsigned char *)INFO.frames[l].head == b + eo && (unsigned char *)INFO.frames[l].entries == b + eo,
			      "entries start at byte 8 (node) / 32 (root)");
			CHECK(count >= 1 && count <= limit && eo + 8 * limit <= BS, "count and limit respected: 1 <= count <= limit, limit entries inside the block");
			unsigned a = (unsigned)(INFO.frames[l].at - INFO.frames[l].entries);
			CHECK(INFO.frames[l].at >= INFO.frames[l].entries && HX_COVERS(b, eo, count, a, IN.hash),
			      "at is the entry whose hash range contains the target hash");
			if (l + 1 < L)
				CHECK(g_lblk[l + 1] == (HX_BLOCK(b, eo, a) & 0x0fffffff), "the next level is the child block of `at` (low 28 bits)");
		}
		if (L == 3 && HX_COUNT(P2, 8) > 5) REACH("three levels");
		if (L == 1) REACH("root only");
	} else {
		CHECK(g_allocs == 0 || INFO.levels == 0, "on error no frame stays registered");
		CHECK(!g_bad_free && g_frees == g_allocs, "on error every frame buffer handed out was released exactly once");
		if (g_allocs == 3) REACH("error at the third level");
		if (g_allocs == 0) REACH("first allocation fails");
	}
	CHECK(r == 0 || r == EXT2_ET_NO_MEMORY || r == EXT2_ET_DIRHASH_UNSUPP || r == EXT2_ET_DIR_CORRUPTED ||
	      r == EXT2_ET_DB_NOT_FOUND || r == EXT2_ET_DIR_NO_SPACE_FOR_CSUM ||
	      r == IN.hash_err || r == IN.bmap_err[0] || r == IN.bmap_err[1] || r == IN.bmap_err[2] ||
	      r == IN.rd_err[0] || r == IN.rd_err[1] || r == IN.rd_err[2], "errors are the documented ones or those of the callees");
	REACH("end");
}
