/*
 * C10 — lib/ext2fs/link.c: dx_split_leaf — a full htree leaf is split in two by hash order — and dx_move_dirents.
 *
 * Specification (kernel fs/ext4/namei.c:do_split / dx_make_map / dx_sort_map / dx_move_dirents semantics and the on-disk
 * format of specs/dirs_dirent.h, specs/htree_index.h — not from link.c).  With h(e) the hash of an entry's name:
 *  dx_split_leaf (unit ht_dx_split_leaf; dx_move_dirents and dx_insert_entry are replaced by contracts that record their arguments)
 *   MAP       the map handed to the movers lists EXACTLY the live entries of the leaf (offset, rec_len, hash of the name),
 *             each once, sorted by hash (ghost entry / ghost index);
 *   PARTITION the map is cut at ONE index i: the first mover gets map[i .. count) (for the new block), the second map[0 .. i)
 *             (repacking the old leaf), nothing is listed twice or dropped — "the namespace stays exact";
 *   NONEMPTY  1 <= i <= count - 1: both blocks keep at least one entry (kernel: "if (i > 0) split = count - move; else
 *             split = count/2"); the mover's contract REQUIRES count >= 1;
 *   ORDER     every hash in the old block <= every hash in the new block (from MAP sorted);
 *   BALANCE   the new block receives the longest tail of the sorted map whose rec_lens, counting the last one half, fit into
 *             half a block (kernel: "is more than half of this entry in 2nd half of the block?");
 *   WRITES    the scratch block is written to the NEW physical block after the first move, then to the OLD leaf block after the
 *             second, then the index is updated — in this order, each step only if the previous one succeeded;
 *   INDEX     dx_insert_entry is called once, for the last index level, with the new logical block and
 *             hash = h(map[i]) + continuation bit, the bit being set iff h(map[i-1]) == h(map[i]) (equal hashes straddle the split);
 *   CLEAN     the two temporary buffers are released exactly once on every path; the caller's leaf buffer is not modified;
 *             errors of the callees are returned.
 *  dx_move_dirents (units ht_dx_move_dirents_*): the `count` entries listed in the map are copied in map order to the front of
 *             the target block with minimal rec_len, the last one is stretched to the end of the block (minus checksum tail), the
 *             tail is initialised with metadata_csum: the target is a valid directory block holding exactly those entries.
 *
 * Sizes: symbolic 64-byte blocks for dx_split_leaf (it never writes a directory block itself); dx_move_dirents on fixed 64-byte
 * layouts (bounded scenarios, level B): with symbolic rec_lens every memcpy / rec_len store lands at a symbolic offset of two
 * buffers and a 64-byte instance already exceeds 10 GB in the SAT back end.
 *
 * FINDING C10_ht_split_all_move: when every entry qualifies for the move (the loop "for (i = count-1; i >= 0; i--)" runs off the
 * front: the lowest-hash entry is a long-named entry with much slack, the rest is small), libext2fs moves ALL entries to the new
 * block, "repacks" the old block with count 0 — dx_move_dirents then stretches whatever the scratch buffer holds (the first moved
 * entry) over the whole old leaf: a DUPLICATE name — and reads map[-1].  The kernel has the i > 0 guard.  Unit
 * ht_dx_split_leaf_full fails on NONEMPTY (callee precondition count >= 1) and on the out-of-bounds read of map[-1]; unit
 * ht_dx_split_leaf assumes the situation away (see assumes).
 */
/* VERIF-UNIT
{
 "name": "ht_dx_split_leaf",
 "props": [
  "C10"
 ],
 "level": "P",
 "tier": "quick",
 "harness": "h_split",
 "replace": [
  "dx_insert_entry",
  "dx_move_dirents"
 ],
 "defines": [
  "SP_BS=48",
  "SP_SPLITTABLE",
  "EXT2_CUSTOM_MEMORY_ROUTINES"
 ],
 "sources": [
  "lib/ext2fs/dir_iterate.c"
 ],
 "unwind": 8,
 "unwindset": {"h_split.0": 50},
 "unwind_reason": "48-byte block: at most 6 entries of >= 8 bytes (scan loop, specification walkers), at most 4 = 48/12 live entries (sort, split loop); unwinding assertions on",
 "timeout": 600,
 "functions": [
  "lib/ext2fs/link.c:dx_split_leaf",
  "lib/ext2fs/link.c:dx_hash_map_cmp"
 ],
 "assumes": [
  "SYMBOLIC BLOCK OF 48 BYTES (smaller than any legal ext2 block; dx_split_leaf depends on the block size through blocksize/2 and blocksize/12 only): layout, liveness, names and hashes arbitrary",
  "the leaf is a valid directory block (what add_dirent_to_buf's iteration has checked before dx_link gets EXT2_ET_DIR_NO_SPACE): entries tile the block, rec_len >= 8, multiple of 4, name_len + 8 <= rec_len, csum tail present iff metadata_csum; no live entry with an empty name",
  "NOT EVERY ENTRY QUALIFIES FOR THE MOVE: for each live entry e with the lowest hash, (sum of the other live rec_lens) + rec_len(e)/2 > blocksize/2 (otherwise: finding C10_ht_split_all_move, unit ht_dx_split_leaf_full)",
  "ext2fs_dirhash2 is a stub: an arbitrary function of the first name byte (4 classes, so collisions are frequent) with bit 0 clear (dirhash.c units); libc qsort is an insertion sort in the unit that calls the real comparator; ext2fs_get_mem / get_array / free_mem hand out and track two harness buffers; ext2fs_write_dir_block4 records its arguments and returns an arbitrary error; dx_insert_entry and dx_move_dirents are replaced by contracts that record their arguments (their own proofs: ht_dx_insert_entry_*, ht_dx_move_dirents_*); the contract of dx_move_dirents REQUIRES count >= 1"
 ],
 "native": false
}
*/
/* VERIF-UNIT
{
 "name": "ht_dx_split_leaf_full",
 "props": [
  "C10"
 ],
 "level": "P",
 "tier": "quick",
 "harness": "h_split",
 "replace": [
  "dx_insert_entry",
  "dx_move_dirents"
 ],
 "defines": [
  "SP_BS=48",
  "EXT2_CUSTOM_MEMORY_ROUTINES"
 ],
 "sources": [
  "lib/ext2fs/dir_iterate.c"
 ],
 "unwind": 8,
 "unwindset": {"h_split.0": 50},
 "unwind_reason": "see ht_dx_split_leaf",
 "timeout": 600,
 "functions": [
  "lib/ext2fs/link.c:dx_split_leaf",
  "lib/ext2fs/link.c:dx_hash_map_cmp"
 ],
 "assumes": [
  "FAILS ON THE TREE (finding C10_ht_split_all_move): as ht_dx_split_leaf WITHOUT the assumption that some entry stays behind",
  "the leaf is a valid directory block (what add_dirent_to_buf's iteration has checked before dx_link gets EXT2_ET_DIR_NO_SPACE): entries tile the block, rec_len >= 8, multiple of 4, name_len + 8 <= rec_len, csum tail present iff metadata_csum; no live entry with an empty name",
  "ext2fs_dirhash2 is a stub: an arbitrary function of the first name byte (4 classes, so collisions are frequent) with bit 0 clear (dirhash.c units); libc qsort is an insertion sort in the unit that calls the real comparator; ext2fs_get_mem / get_array / free_mem hand out and track two harness buffers; ext2fs_write_dir_block4 records its arguments and returns an arbitrary error; dx_insert_entry and dx_move_dirents are replaced by contracts that record their arguments (their own proofs: ht_dx_insert_entry_*, ht_dx_move_dirents_*); the contract of dx_move_dirents REQUIRES count >= 1"
 ],
 "native": false
}
*/
/* VERIF-UNIT
{
 "name": "ht_dx_move_dirents_a",
 "props": [
  "C10"
 ],
 "level": "B(64)",
 "tier": "quick",
 "harness": "h_move",
 "defines": [
  "SP_BS=64",
  "SP_MOVE_UNIT",
  "SP_LAYOUT=0",
  "SP_CSUM=0",
  "EXT2_CUSTOM_MEMORY_ROUTINES"
 ],
 "sources": [
  "lib/ext2fs/dir_iterate.c",
  "lib/ext2fs/csum.c"
 ],
 "unwind": 14,
 "unwindset": {
  "h_move.0": 66
 },
 "unwind_reason": "at most 3 map entries (cap of the scenario), names <= 12 bytes, 64-byte buffers; unwinding assertions on",
 "timeout": 600,
 "functions": [
  "lib/ext2fs/link.c:dx_move_dirents",
  "lib/ext2fs/dir_iterate.c:ext2fs_set_rec_len",
  "lib/ext2fs/csum.c:ext2fs_initialize_dirent_tail"
 ],
 "assumes": [
  "BOUNDED SCENARIO: 64-byte source block (smaller than any legal ext2 block) with the FIXED entry layout rec_len 12,12,12,12,16 with 4-byte names, no checksum tail; inode numbers, name bytes and file types arbitrary; the map lists 1..3 DISTINCT entries of that block in arbitrary order (what dx_split_leaf's scan produces: ht_dx_split_leaf MAP clause); target block arbitrary bytes",
  "count >= 1 (NONEMPTY clause of ht_dx_split_leaf; count == 0 is finding C10_ht_split_all_move)",
  "libc memcpy / memset are CBMC's built-in models"
 ],
 "native": false
}
*/
/* VERIF-UNIT
{
 "name": "ht_dx_move_dirents_b",
 "props": [
  "C10"
 ],
 "level": "B(64)",
 "tier": "quick",
 "harness": "h_move",
 "defines": [
  "SP_BS=64",
  "SP_MOVE_UNIT",
  "SP_LAYOUT=1",
  "SP_CSUM=0",
  "EXT2_CUSTOM_MEMORY_ROUTINES"
 ],
 "sources": [
  "lib/ext2fs/dir_iterate.c",
  "lib/ext2fs/csum.c"
 ],
 "unwind": 14,
 "unwindset": {
  "h_move.0": 66
 },
 "unwind_reason": "at most 3 map entries (cap of the scenario), names <= 12 bytes, 64-byte buffers; unwinding assertions on",
 "timeout": 600,
 "functions": [
  "lib/ext2fs/link.c:dx_move_dirents",
  "lib/ext2fs/dir_iterate.c:ext2fs_set_rec_len",
  "lib/ext2fs/csum.c:ext2fs_initialize_dirent_tail"
 ],
 "assumes": [
  "BOUNDED SCENARIO: 64-byte source block (smaller than any legal ext2 block) with the FIXED entry layout rec_len 20,12,32 with names of 12, 2, 9 bytes, no checksum tail; inode numbers, name bytes and file types arbitrary; the map lists 1..3 DISTINCT entries of that block in arbitrary order (what dx_split_leaf's scan produces: ht_dx_split_leaf MAP clause); target block arbitrary bytes",
  "count >= 1 (NONEMPTY clause of ht_dx_split_leaf; count == 0 is finding C10_ht_split_all_move)",
  "libc memcpy / memset are CBMC's built-in models"
 ],
 "native": false
}
*/
/* VERIF-UNIT
{
 "name": "ht_dx_move_dirents_c",
 "props": [
  "C10"
 ],
 "level": "B(64)",
 "tier": "quick",
 "harness": "h_move",
 "defines": [
  "SP_BS=64",
  "SP_MOVE_UNIT",
  "SP_LAYOUT=2",
  "SP_CSUM=1",
  "EXT2_CUSTOM_MEMORY_ROUTINES"
 ],
 "sources": [
  "lib/ext2fs/dir_iterate.c",
  "lib/ext2fs/csum.c"
 ],
 "unwind": 14,
 "unwindset": {
  "h_move.0": 66
 },
 "unwind_reason": "at most 3 map entries (cap of the scenario), names <= 12 bytes, 64-byte buffers; unwinding assertions on",
 "timeout": 600,
 "functions": [
  "lib/ext2fs/link.c:dx_move_dirents",
  "lib/ext2fs/dir_iterate.c:ext2fs_set_rec_len",
  "lib/ext2fs/csum.c:ext2fs_initialize_dirent_tail"
 ],
 "assumes": [
  "BOUNDED SCENARIO: 64-byte source block (smaller than any legal ext2 block) with the FIXED entry layout rec_len 12,12,12,16 + checksum tail, names of 1, 4, 3, 5 bytes; inode numbers, name bytes and file types arbitrary; the map lists 1..3 DISTINCT entries of that block in arbitrary order (what dx_split_leaf's scan produces: ht_dx_split_leaf MAP clause); target block arbitrary bytes",
  "count >= 1 (NONEMPTY clause of ht_dx_split_leaf; count == 0 is finding C10_ht_split_all_move)",
  "libc memcpy / memset are CBMC's built-in models"
 ],
 "native": false
}
*/
#include "verif.h"
#include "dirs_dirent.h"

#ifndef SP_BS
#define SP_BS 64
#endif
#define BS ((unsigned)SP_BS)
#define NAMECAP 12u
#define DE_LE32_AT(b, o) DE_INO(b, o)
#define MAXENT (SP_BS / 8)
#define MAXLIVE (SP_BS / 12)

struct in_sp {
	unsigned char csum;
	unsigned int sb_ro_compat;
	unsigned int htab[4];
	unsigned int i_flags;
	unsigned long long leaf_pblk, new_lblk, new_pblk;
	long wr_err[2], ins_ret, mv_ret[2];
	unsigned char alloc_fail[2];
	unsigned int go;		/* ghost: offset of an entry of the original leaf */
	unsigned int gm;		/* ghost: index into the map */
	unsigned int k;			/* ghost byte index */
	unsigned int dir;
	unsigned int levels;
	unsigned char raw[SP_BS], raw2[SP_BS];
	/* dx_move_dirents scenarios */
	unsigned char sel[3];		/* which layout entries are listed, in map order */
	unsigned int mcount;
};
struct in_sp IN;
#include "verif_in.h"

#include "config.h"
#include "ext2_fs.h"
#include "ext2fs.h"
errcode_t ext2fs_get_mem(unsigned long size, void *ptr);
errcode_t ext2fs_get_array(unsigned long count, unsigned long size, void *ptr);
errcode_t ext2fs_free_mem(void *ptr);

#include "lib/ext2fs/link.c"

/* arrays of at most 64 elements are tracked element by element by the symbolic execution */
static unsigned char BUF[SP_BS] __attribute__((aligned(8)));	/* the leaf as the caller read it */
static unsigned char BUF2[SP_BS] __attribute__((aligned(8)));	/* scratch block */
static struct dx_hash_map MAP[MAXLIVE];
static struct struct_ext2_filsys FS;
static struct ext2_super_block SB;
static struct ext2_inode DIRI;
static struct dx_lookup_info INFO;

static int g_seq;
static int g_mem_calls, g_arr_calls, g_free_buf2, g_free_map, g_bad_free;
static int g_wr_calls, g_wr_seq[2];
static blk64_t g_wr_blk[2];
static int g_ins_calls, g_ins_level, g_ins_seq;
static __u32 g_ins_hash;
static blk64_t g_ins_lblk;
static int g_mv_calls, g_mv_first0, g_mv_count0, g_mv_seq0, g_mv_first1, g_mv_count1, g_mv_seq1;
static unsigned char g_old_k;

#ifndef SP_CSUM
#define CSZ (IN.csum ? DE_TAIL : 0u)
#else
#define CSZ (SP_CSUM ? DE_TAIL : 0u)
#endif
/* the stub hash: a function of the first name byte */
#define HASHOF(b, o) (IN.htab[(b)[(o) + DE_HDR] & 3] & ~1u)

errcode_t ext2fs_get_mem(unsigned long size, void *ptr)
{
	g_mem_calls++;
	__CPROVER_assert(size == BS && g_mem_calls == 1, "CHECK:one scratch block of the block size");
	if (IN.alloc_fail[0])
		return EXT2_ET_NO_MEMORY;
	*(void **)ptr = BUF2;
	return 0;
}

errcode_t ext2fs_get_array(unsigned long count, unsigned long size, void *ptr)
{
	g_arr_calls++;
	__CPROVER_assert(count == BS / 12 && size == sizeof(struct dx_hash_map) && g_arr_calls == 1, "CHECK:map of blocksize/12 entries");
	if (IN.alloc_fail[1])
		return EXT2_ET_NO_MEMORY;
	*(void **)ptr = MAP;
	return 0;
}

errcode_t ext2fs_free_mem(void *ptr)
{
	void **pp = (void **)ptr;
	if (*pp == (void *)BUF2)
		g_free_buf2++;
	else if (*pp == (void *)MAP)
		g_free_map++;
	else
		g_bad_free = 1;
	*pp = 0;
	return 0;
}

errcode_t ext2fs_dirhash2(int version, const char *name, int len, const struct ext2fs_nls_table *charset, int hash_flags,
			  const __u32 *seed, ext2_dirhash_t *ret_hash, ext2_dirhash_t *ret_minor_hash)
{
	__CPROVER_assert(version == INFO.hash_alg && seed == SB.s_hash_seed && len >= 1 && hash_flags == (int)(IN.i_flags & EXT4_CASEFOLD_FL),
			 "CHECK:entries are hashed like the lookup hashed the new name");
	*ret_hash = IN.htab[((const unsigned char *)name)[0] & 3] & ~1u;
	if (ret_minor_hash)
		*ret_minor_hash = 0;
	return 0;
}

errcode_t ext2fs_write_dir_block4(ext2_filsys fs, blk64_t block, void *buf, int flags, ext2_ino_t ino)
{
	int n = g_wr_calls++;
	__CPROVER_assert(n < 2 && buf == (void *)BUF2 && ino == IN.dir && flags == 0, "CHECK:the scratch block is written for this directory");
	if (n >= 2)
		return EXT2_ET_DIR_CORRUPTED;
	g_wr_blk[n] = block;
	g_wr_seq[n] = ++g_seq;
	return IN.wr_err[n];
}

#ifndef VERIF_NATIVE
/* libc qsort: insertion sort over the (at most 5) map entries with the REAL comparator */
void qsort(void *base, __CPROVER_size_t n, __CPROVER_size_t size, int (*cmp)(const void *, const void *))
{
	struct dx_hash_map *a = base;
	__CPROVER_assert(base == (void *)MAP && size == sizeof(struct dx_hash_map) && n <= MAXLIVE, "CHECK:the map is sorted");
	for (unsigned i = 1; i < MAXLIVE; i++) {
		if (i >= n)
			break;
		for (unsigned j = i; j > 0; j--) {
			if (cmp(&a[j - 1], &a[j]) <= 0)
				break;
			struct dx_hash_map t = a[j - 1];
			a[j - 1] = a[j];
			a[j] = t;
		}
	}
}
#endif

#ifndef SP_MOVE_UNIT
static errcode_t dx_insert_entry(ext2_filsys fs, ext2_ino_t dir, struct dx_lookup_info *info, int level, __u32 hash, blk64_t lblk)
	REQUIRES(fs == &FS && dir == IN.dir && info == &INFO)
	ENSURES(g_ins_calls == OLD(g_ins_calls) + 1 && g_ins_level == level && g_ins_hash == hash && g_ins_lblk == lblk &&
		g_seq == OLD(g_seq) + 1 && g_ins_seq == g_seq && RET == IN.ins_ret)
	ASSIGNS(g_ins_calls, g_ins_level, g_ins_hash, g_ins_lblk, g_seq, g_ins_seq);

/* NONEMPTY is the precondition count >= 1; the map slice must lie inside the map */
static errcode_t dx_move_dirents(ext2_filsys fs, struct dx_hash_map *map, int count, void *from, void *to)
	REQUIRES(fs == &FS && from == (void *)BUF && to == (void *)BUF2 && g_mv_calls >= 0 && g_mv_calls < 2)
	REQUIRES(count >= 1 && map >= MAP && count <= (int)MAXLIVE && map + count <= MAP + MAXLIVE)
	ENSURES(g_mv_calls == OLD(g_mv_calls) + 1 && g_seq == OLD(g_seq) + 1)
	ENSURES(g_mv_calls != 1 || (g_mv_first0 == (int)(map - MAP) && g_mv_count0 == count && g_mv_seq0 == g_seq && RET == IN.mv_ret[0]))
	ENSURES(g_mv_calls != 2 || (g_mv_first1 == (int)(map - MAP) && g_mv_count1 == count && g_mv_seq1 == g_seq && RET == IN.mv_ret[1]))
	ASSIGNS(g_mv_calls, g_seq; g_mv_calls == 0: g_mv_first0, g_mv_count0, g_mv_seq0; g_mv_calls == 1: g_mv_first1, g_mv_count1, g_mv_seq1);
#endif

/* ---- specification walker over a block image (at most MAXENT entries) ---- */
struct scan {
	int valid;		/* entries tile [0, BS - csz) exactly, each valid; tail ok */
	unsigned live;		/* entries with inode != 0 */
	unsigned min_hash;
	unsigned total_live_rec;
	int empty_name;		/* a live entry with name_len 0 */
	int go_is_live_entry;
};

static struct scan scan_block(const unsigned char *b)
{
	struct scan s;
	unsigned off = 0, end = BS - CSZ;
	s.valid = 1; s.live = 0; s.min_hash = 0xffffffffu; s.total_live_rec = 0; s.empty_name = 0; s.go_is_live_entry = 0;
	for (unsigned n = 0; n < MAXENT; n++) {
		if (off >= end)
			break;
		if (off + DE_HDR > end) {
			s.valid = 0;
			break;
		}
		unsigned rec = DE_REC(b, off), nl = DE_NL(b, off), ino = DE_INO(b, off);
		if (!(rec >= DE_HDR && (rec & 3) == 0 && off + rec <= end && nl + DE_HDR <= rec)) {
			s.valid = 0;
			break;
		}
		if (ino != 0) {
			s.live++;
			s.total_live_rec += rec;
			if (nl == 0)
				s.empty_name = 1;
			else if (HASHOF(b, off) < s.min_hash)
				s.min_hash = HASHOF(b, off);
			if (off == IN.go)
				s.go_is_live_entry = 1;
		}
		off += rec;
	}
	if (off != end)
		s.valid = 0;
	if (CSZ && !DE_IS_TAIL(b, BS - DE_TAIL, BS))
		s.valid = 0;
	return s;
}

/* not every entry qualifies for the move: for each live entry e with the lowest hash, (T - rec_e) + rec_e/2 > BS/2 */
static int splittable(const unsigned char *b, unsigned min_hash, unsigned total)
{
	unsigned off = 0, end = BS - CSZ;
	int ok = 1;
	for (unsigned n = 0; n < MAXENT; n++) {
		if (off >= end)
			break;
		if (off + DE_HDR > end)
			break;
		unsigned rec = DE_REC(b, off);
		if (DE_INO(b, off) != 0 && DE_NL(b, off) != 0 && HASHOF(b, off) == min_hash && !((total - rec) + rec / 2 > BS / 2))
			ok = 0;
		off += rec;
	}
	return ok;
}

#ifndef SP_MOVE_UNIT
void h_split(void)
{
	errcode_t r;
	struct scan so;

	LOAD_IN();
	for (unsigned i = 0; i < BS; i++) {
		BUF[i] = IN.raw[i];		/* arbitrary leaf */
		BUF2[i] = IN.raw2[i];		/* fresh malloc memory: arbitrary */
	}
	ASSUME(IN.csum <= 1 && IN.csum == !!(IN.sb_ro_compat & EXT4_FEATURE_RO_COMPAT_METADATA_CSUM));
	ASSUME(IN.levels >= 1 && IN.levels <= 3 && IN.k < BS && IN.go < BS && IN.gm < MAXLIVE);
	FS.blocksize = BS;
	FS.super = &SB;
	FS.encoding = 0;
	SB.s_feature_ro_compat = IN.sb_ro_compat;
	DIRI.i_flags = IN.i_flags;
	INFO.levels = IN.levels;
	INFO.hash_alg = EXT2_HASH_HALF_MD4;
	so = scan_block(BUF);
	ASSUME(so.valid && !so.empty_name && so.go_is_live_entry);
#ifdef SP_SPLITTABLE
	ASSUME(splittable(BUF, so.min_hash, so.total_live_rec));
#endif
	g_old_k = BUF[IN.k];
	g_seq = 0;
	g_mem_calls = g_arr_calls = g_free_buf2 = g_free_map = g_bad_free = 0;
	g_wr_calls = g_ins_calls = g_mv_calls = 0;
	g_mv_first0 = g_mv_first1 = g_mv_count0 = g_mv_count1 = -1;
	g_mv_seq0 = g_mv_seq1 = 0;

	r = dx_split_leaf(&FS, IN.dir, &DIRI, &INFO, BUF, IN.leaf_pblk, IN.new_lblk, IN.new_pblk);

	unsigned count = so.live;
	CHECK(!g_bad_free && g_free_buf2 == (g_mem_calls && !IN.alloc_fail[0]) && g_free_map == (g_arr_calls && !IN.alloc_fail[1]),
	      "CLEAN: scratch block and map released exactly once on every path");
	CHECK(BUF[IN.k] == g_old_k, "CLEAN: the caller's leaf buffer is not modified");
	if (IN.alloc_fail[0] || IN.alloc_fail[1]) {
		CHECK(r == EXT2_ET_NO_MEMORY && g_wr_calls == 0 && g_ins_calls == 0 && g_mv_calls == 0, "allocation failure: nothing moved or written");
	} else {
		/* every entry qualifies for the move (the situation of finding C10_ht_split_all_move; excluded by SP_SPLITTABLE) */
		int allq = !splittable(BUF, so.min_hash, so.total_live_rec);
		if (allq && count < 2) {
			CHECK(r != 0 && g_mv_calls == 0 && g_wr_calls == 0 && g_ins_calls == 0, "a leaf with a single entry cannot be split: refused, nothing written");
			return;
		}
		/* MAP: sorted, and it lists exactly the live entries */
		CHECK(IN.gm + 1 >= count || MAP[IN.gm].hash <= MAP[IN.gm + 1].hash, "MAP: sorted by hash (ghost index)");
		{
			unsigned hits = 0;
			for (unsigned m = 0; m < MAXLIVE; m++)
				if (m < count && (unsigned)MAP[m].off == IN.go) {
					hits++;
					CHECK((unsigned)MAP[m].size == DE_REC(BUF, IN.go) && MAP[m].hash == HASHOF(BUF, IN.go), "MAP: the ghost entry is listed with its rec_len and the hash of its name");
				}
			CHECK(hits == 1, "MAP: every live entry of the leaf is listed exactly once (ghost entry)");
		}
		CHECK(IN.gm >= count || (DE_INO(BUF, MAP[IN.gm].off) != 0 && (unsigned)MAP[IN.gm].off < BS), "MAP: every listed entry is a live entry of the leaf (ghost index)");
		CHECK(g_mv_calls >= 1 && g_mv_first0 >= 1 && g_mv_first0 + g_mv_count0 == (int)count, "PARTITION/NONEMPTY: the first move takes map[i .. count) with i >= 1");
		unsigned i = (unsigned)g_mv_first0;
		/* BALANCE: entry i qualified, entry i-1 did not */
		{
			unsigned moved = 0;
			for (unsigned m = 0; m < MAXLIVE; m++)
				if (m > i && m < count)
					moved += MAP[m].size;
			/* when every entry qualifies the kernel splits by count instead (count/2): BALANCE is not demanded then */
			CHECK(allq || moved + MAP[i].size / 2 <= BS / 2, "BALANCE: the first moved entry still lies (more than half) in the upper half");
			CHECK(allq || moved + MAP[i].size + MAP[i - 1].size / 2 > BS / 2, "BALANCE: the last entry that stays would not");
		}
		if (IN.mv_ret[0]) {
			CHECK(r == IN.mv_ret[0] && g_wr_calls == 0 && g_ins_calls == 0, "mover error: nothing written");
		} else {
			CHECK(g_wr_calls >= 1 && g_wr_blk[0] == IN.new_pblk && g_wr_seq[0] > g_mv_seq0 && (g_mv_calls < 2 || g_wr_seq[0] < g_mv_seq1),
			      "WRITES: the new block is written after the first move and before the scratch block is reused");
			if (IN.wr_err[0]) {
				CHECK(r == IN.wr_err[0] && g_wr_calls == 1 && g_mv_calls == 1 && g_ins_calls == 0, "write error of the new block: old leaf and index untouched");
			} else {
				CHECK(g_mv_calls == 2 && g_mv_first1 == 0 && g_mv_count1 == (int)i, "PARTITION: the second move repacks exactly map[0 .. i) into the old leaf");
				if (IN.mv_ret[1]) {
					CHECK(r == IN.mv_ret[1] && g_wr_calls == 1 && g_ins_calls == 0, "mover error: old leaf and index untouched");
				} else {
					CHECK(g_wr_calls == 2 && g_wr_blk[1] == IN.leaf_pblk && g_wr_seq[1] > g_mv_seq1, "WRITES: then the old leaf block");
					if (IN.wr_err[1]) {
						CHECK(r == IN.wr_err[1] && g_ins_calls == 0, "write error of the old leaf: index untouched");
					} else {
						CHECK(g_ins_calls == 1 && g_ins_seq > g_wr_seq[1] && g_ins_level == (int)IN.levels - 1 && g_ins_lblk == IN.new_lblk,
						      "INDEX: one new index entry, after both blocks are written, at the last level, for the new logical block");
						CHECK(g_ins_hash == MAP[i].hash + (MAP[i - 1].hash == MAP[i].hash ? 1u : 0u),
						      "INDEX: hash of the first moved entry, continuation bit iff equal hashes straddle the split");
						CHECK(r == IN.ins_ret, "result of the index update is the result");
						if (MAP[i - 1].hash == MAP[i].hash && count >= 3) REACH("collision straddles the split");
						if (MAP[i - 1].hash < MAP[i].hash && IN.csum) REACH("clean split, checksum feature on");
					}
				}
			}
		}
	}
	REACH("end");
}
#endif

#ifdef SP_MOVE_UNIT
/* ------------------------------------------------------------------ dx_move_dirents on a fixed layout */
#if SP_LAYOUT == 0
#define L_N 5
#define L_REC(n) ((n) == 4 ? 16u : 12u)
#define L_NL(n) 4u
#elif SP_LAYOUT == 1
#define L_N 3
#define L_REC(n) ((n) == 0 ? 20u : (n) == 1 ? 12u : 32u)
#define L_NL(n) ((n) == 0 ? 12u : (n) == 1 ? 2u : 9u)
#else
#define L_N 4
#define L_REC(n) ((n) == 3 ? 16u : 12u)
#define L_NL(n) ((n) == 0 ? 1u : (n) == 1 ? 4u : (n) == 2 ? 3u : 5u)
#endif
static unsigned l_off(unsigned n)
{
	unsigned o = 0;
	for (unsigned i = 0; i < L_N; i++)
		if (i < n)
			o += L_REC(i);
	return o;
}

void h_move(void)
{
	errcode_t r;
	unsigned end = BS - CSZ;

	LOAD_IN();
	for (unsigned i = 0; i < BS; i++) {
		BUF[i] = IN.raw[i];
		BUF2[i] = IN.raw2[i];
	}
	ASSUME(IN.csum == SP_CSUM && IN.csum == !!(IN.sb_ro_compat & EXT4_FEATURE_RO_COMPAT_METADATA_CSUM));
	ASSUME(IN.mcount >= 1 && IN.mcount <= 3 && IN.mcount <= L_N && IN.k < BS);
	ASSUME(IN.sel[0] < L_N && IN.sel[1] < L_N && IN.sel[2] < L_N);
	ASSUME(IN.sel[0] != IN.sel[1] && IN.sel[0] != IN.sel[2] && IN.sel[1] != IN.sel[2]);
	/* the scenario's layout: rec_len and name_len concrete */
	{
		unsigned off = 0;
		for (unsigned n = 0; n < L_N; n++) {
			BUF[off + 4] = L_REC(n); BUF[off + 5] = 0;
			BUF[off + 6] = L_NL(n);
			off += L_REC(n);
		}
	}
	FS.blocksize = BS;
	FS.super = &SB;
	SB.s_feature_ro_compat = IN.sb_ro_compat;
	for (unsigned n = 0; n < 3; n++) {
		MAP[n].off = l_off(IN.sel[n]);
		MAP[n].size = L_REC(IN.sel[n]);
		MAP[n].hash = IN.htab[n];
	}
	g_old_k = BUF[IN.k];

	r = dx_move_dirents(&FS, MAP, (int)IN.mcount, BUF, BUF2);

	CHECK(r == 0, "the entries fit: no error");
	CHECK(BUF[IN.k] == g_old_k, "the source block is not modified");
	{
		unsigned off = 0;
		for (unsigned n = 0; n < 3; n++) {
			if (n >= IN.mcount)
				break;
			unsigned so = l_off(IN.sel[n]), nl = L_NL(IN.sel[n]);
			unsigned want = (n + 1 == IN.mcount) ? end - off : DE_NEED(nl);
			CHECK(off + DE_HDR <= end && DE_REC(BUF2, off) == want, "entry n of the target: minimal rec_len, the last one stretched to the end of the block (minus tail)");
			CHECK(DE_INO(BUF2, off) == DE_INO(BUF, so) && DE_NL(BUF2, off) == nl && DE_FT(BUF2, off) == DE_FT(BUF, so), "entry n of the target carries inode, name_len and file type of map[n]");
			for (unsigned j = 0; j < NAMECAP; j++)
				if (j < nl)
					CHECK(BUF2[off + DE_HDR + j] == BUF[so + DE_HDR + j], "entry n of the target carries the name of map[n]");
			off += DE_REC(BUF2, off);
		}
		CHECK(off == end, "the entries tile the target block exactly");
	}
	CHECK(!SP_CSUM || (DE_IS_TAIL(BUF2, BS - DE_TAIL, BS) && DE_LE32_AT(BUF2, BS - 4) == 0), "metadata_csum: the tail is initialised (checksum field 0 until the block is written)");
	if (IN.mcount == 3 && IN.sel[0] > IN.sel[1]) REACH("three entries, not in block order");
	if (IN.mcount == 1) REACH("single entry stretched over the block");
	REACH("end");
}
#endif
