/*
 * C10 — lib/ext2fs/expanddir.c: expand_dir_proc (block-iterator callback) and ext2fs_expand_dir.  Level P: every callee is a
 * stub that logs into a ghost monitor and may fail; the verified text is the real expanddir.c.
 *
 * Properties (from the property text: a full linear directory is expanded by exactly one valid empty block, "the resulting
 * filesystem is consistent"):
 *  expand_dir_proc, one call
 *   SKIP     a mapped block is left alone (result 0); for data blocks (blockcnt >= 0) it becomes the allocation goal;
 *   DATA     the hole behind the last data block (blockcnt > 0, *blocknr == 0): the block stored in *blocknr was
 *            (a) allocated by ext2fs_new_block2 with the cluster-aligned goal and counted by ext2fs_block_alloc_stats2(+1),
 *                or is goal+1 inside the goal's cluster (bigalloc: no allocation, no count);
 *            (b) WRITTEN, before it is stored in *blocknr, with exactly the buffer ext2fs_new_dir_block(fs, 0, 0) produced —
 *                a valid empty directory block (ext2fs_new_dir_block: proofs/dirs/new_dir_block.c) — and that buffer is freed;
 *            result BLOCK_CHANGED | BLOCK_ABORT, es->done set;
 *   META     a missing mapping block (blockcnt < 0): allocated the same way, zero-filled (ext2fs_zero_blocks2) before it is
 *            stored, result BLOCK_CHANGED, not done;
 *   ERR      when a callee fails: es->err is that error, result BLOCK_ABORT, *blocknr untouched (no pointer to an unwritten block);
 *   COUNT    es->newblocks grows by exactly the number of ext2fs_new_block2 allocations.
 *  ext2fs_expand_dir
 *   GUARD    read-only filesystem, missing block bitmap, not a directory: refused before anything is touched;
 *   GROW     on success the inode written back is the inode as re-read AFTER the block iteration, with i_size exactly one block
 *            larger and i_blocks grown by exactly es.newblocks filesystem blocks (ext2fs_iblk_add_blocks), written exactly once,
 *            after the iteration (hence after the new block was written);
 *   INLINE   EXT2_ET_INLINE_DATA_CANT_ITERATE is handed to ext2fs_inline_data_expand;
 *   FAIL     an error of the callback or "no block appended" (EXT2_ET_EXPAND_DIR_ERR) is returned and the inode is not written.
 *
 * OBSERVATION (not claimed, outside the units' assumptions): for a directory WITHOUT any block the iterator offers the hole
 * with blockcnt == 0; expand_dir_proc then zero-fills block 0 (no directory block), carries on, makes block 1 the empty
 * directory block, and ext2fs_expand_dir adds ONE block to i_size but two to i_blocks.  A linear directory always has block 0
 * (ext2fs_mkdir), so the units assume blockcnt != 0 for holes.
 */
/* VERIF-UNIT
{
 "name": "ht_expand_dir_proc",
 "props": ["C10"],
 "level": "P",
 "tier": "quick",
 "harness": "h_proc",
 "enforce": ["expand_dir_proc"],
 "defines": ["EXT2_CUSTOM_MEMORY_ROUTINES"],
 "unwind": 6,
 "unwind_reason": "expand_dir_proc is loop-free; the bound serves the contract library's loops; unwinding assertions on",
 "timeout": 300,
 "functions": ["lib/ext2fs/expanddir.c:expand_dir_proc"],
 "assumes": ["callees are stubs that log into a ghost monitor and return arbitrary results: ext2fs_new_block2 (arbitrary block or error), ext2fs_block_alloc_stats2, ext2fs_new_dir_block (hands out one harness buffer or fails), ext2fs_write_dir_block4, ext2fs_zero_blocks2 (arbitrary error), ext2fs_free_mem", "cluster_ratio_bits enumerated: 0 (no bigalloc) or 4", "a hole is never offered with blockcnt == 0 (the directory has its first block; see OBSERVATION in the file header)", "es->err == 0, es->done == 0 on entry (the iterator stops after BLOCK_ABORT), newblocks < 2^30"],
 "native": false
}
*/
/* VERIF-UNIT
{
 "name": "ht_expand_dir",
 "props": ["C10"],
 "level": "P",
 "tier": "quick",
 "harness": "h_expand",
 "defines": ["EXT2_CUSTOM_MEMORY_ROUTINES", "XD_NO_ITER_ERROR"],
 "unwind": 6,
 "unwindset": {"same_except_size_blocks.0": 130},
 "unwind_reason": "ext2fs_expand_dir is loop-free; the iterator stub calls the callback at most 3 times; unwinding assertions on",
 "timeout": 300,
 "functions": ["lib/ext2fs/expanddir.c:ext2fs_expand_dir", "lib/ext2fs/expanddir.c:expand_dir_proc"],
 "assumes": ["callees are stubs that log into a ghost monitor: ext2fs_check_directory, ext2fs_read_inode (returns the current ghost on-disk inode), ext2fs_find_inode_goal, ext2fs_block_iterate3 (asserts BLOCK_FLAG_APPEND, calls the callback up to 3 times until BLOCK_ABORT, then changes the on-disk inode's block map / i_blocks arbitrarily — it is the iterator that stores new block pointers), ext2fs_inline_data_expand, ext2fs_write_inode; ext2fs_inode_size_set and ext2fs_iblk_add_blocks are stubs with their documented effect on the in-memory inode (size := value; i_blocks += n * (blocksize/512), or an arbitrary error)", "the real expand_dir_proc runs as the callback, on what the iterator stub offers: up to 3 calls, each a mapped block or a hole with blockcnt != 0, results of the allocation / write stubs arbitrary per call", "ext2fs_block_iterate3 itself returns 0 or EXT2_ET_INLINE_DATA_CANT_ITERATE (its other errors: unit ht_expand_dir_full, which FAILS — finding C10_ht_expand_dir_iter_error)", "block size enumerated 1024 / 4096; i_size < 2^40"],
 "native": false
}
*/
/* VERIF-UNIT
{
 "name": "ht_expand_dir_full",
 "props": ["C10"],
 "level": "P",
 "tier": "quick",
 "harness": "h_expand",
 "defines": ["EXT2_CUSTOM_MEMORY_ROUTINES"],
 "unwind": 6,
 "unwindset": {"same_except_size_blocks.0": 130},
 "unwind_reason": "ext2fs_expand_dir is loop-free; the iterator stub calls the callback at most 3 times; unwinding assertions on",
 "timeout": 300,
 "functions": ["lib/ext2fs/expanddir.c:ext2fs_expand_dir", "lib/ext2fs/expanddir.c:expand_dir_proc"],
 "assumes": ["callees are stubs that log into a ghost monitor: ext2fs_check_directory, ext2fs_read_inode (returns the current ghost on-disk inode), ext2fs_find_inode_goal, ext2fs_block_iterate3 (asserts BLOCK_FLAG_APPEND, calls the callback up to 3 times until BLOCK_ABORT, then changes the on-disk inode's block map / i_blocks arbitrarily — it is the iterator that stores new block pointers), ext2fs_inline_data_expand, ext2fs_write_inode; ext2fs_inode_size_set and ext2fs_iblk_add_blocks are stubs with their documented effect on the in-memory inode (size := value; i_blocks += n * (blocksize/512), or an arbitrary error)", "the real expand_dir_proc runs as the callback, on what the iterator stub offers: up to 3 calls, each a mapped block or a hole with blockcnt != 0, results of the allocation / write stubs arbitrary per call", "FAILS ON THE TREE (finding C10_ht_expand_dir_iter_error): ext2fs_block_iterate3 may return any error (I/O error on a mapping block, ext2fs_extent_set_bmap out of space, inode write failure); ext2fs_expand_dir drops it unless it is EXT2_ET_INLINE_DATA_CANT_ITERATE", "block size enumerated 1024 / 4096; i_size < 2^40"],
 "native": false
}
*/
#include "verif.h"

struct in_xd {
	unsigned long long blocknr, goal, new_blk[3];
	long long blockcnt;
	long nb_err[3], ndb_err[3], wr_err[3], zero_err[3];	/* stub results, one per call */
	unsigned int cbits;
	int newblocks;
	unsigned int dir;
	/* ext2fs_expand_dir */
	unsigned int flags, has_map, blocksize;
	long chk_err, rd_err[2], iter_ret, size_err, iblk_err, wi_err, inline_ret;
	unsigned long long isize, iblocks, goal0;
	unsigned long long cb_blk[3];		/* what the iterator offers: a mapped block or 0 (hole) */
	long long cb_cnt[3];
	unsigned int iter_blocks_delta;
};
struct in_xd IN;
#include "verif_in.h"

#include "config.h"
#include "ext2_fs.h"
#include "ext2fs.h"
errcode_t ext2fs_get_mem(unsigned long size, void *ptr);
errcode_t ext2fs_free_mem(void *ptr);

#include "lib/ext2fs/expanddir.c"

static struct struct_ext2_filsys FS;
static struct ext2_super_block SB;
static struct expand_dir_struct ES;
static blk64_t BLOCKNR;
static char DIRBLOCK[64];	/* what ext2fs_new_dir_block hands out (contents: proofs/dirs/new_dir_block.c) */

/* ghost monitor */
static int g_seq;				/* event counter */
static int g_nb_calls, g_stats_calls, g_ndb_calls, g_wr_calls, g_zero_calls, g_free_calls;
static blk64_t g_nb_goal, g_stats_blk, g_wr_blk, g_zero_blk;
static int g_stats_inuse, g_wr_seq, g_zero_seq, g_zero_num;
static void *g_wr_buf;
static ext2_ino_t g_wr_ino, g_ndb_dir, g_ndb_parent;
static blk64_t g_blocknr_at_write;

errcode_t ext2fs_new_block2(ext2_filsys fs, blk64_t goal, ext2fs_block_bitmap map, blk64_t *ret)
{
	int n = g_nb_calls++;
	g_nb_goal = goal;
	__CPROVER_assert(map == 0 && n < 3, "CHECK:allocation from the filesystem's own bitmap");
	if (n >= 3 || IN.nb_err[n])
		return n >= 3 ? EXT2_ET_BLOCK_ALLOC_FAIL : IN.nb_err[n];
	*ret = IN.new_blk[n];
	return 0;
}

void ext2fs_block_alloc_stats2(ext2_filsys fs, blk64_t blk, int inuse)
{
	g_stats_calls++;
	g_stats_blk = blk;
	g_stats_inuse = inuse;
}

errcode_t ext2fs_new_dir_block(ext2_filsys fs, ext2_ino_t dir_ino, ext2_ino_t parent_ino, char **block)
{
	int n = g_ndb_calls++;
	g_ndb_dir = dir_ino;
	g_ndb_parent = parent_ino;
	if (n >= 3 || IN.ndb_err[n])
		return n >= 3 ? EXT2_ET_NO_MEMORY : IN.ndb_err[n];
	*block = DIRBLOCK;
	return 0;
}

errcode_t ext2fs_write_dir_block4(ext2_filsys fs, blk64_t block, void *buf, int flags, ext2_ino_t ino)
{
	int n = g_wr_calls++;
	g_wr_blk = block;
	g_wr_buf = buf;
	g_wr_ino = ino;
	g_wr_seq = ++g_seq;
	g_blocknr_at_write = BLOCKNR;
	__CPROVER_assert(g_free_calls == 0, "CHECK:the buffer is written before it is freed");
	return n < 3 ? IN.wr_err[n] : 0;
}

errcode_t ext2fs_zero_blocks2(ext2_filsys fs, blk64_t blk, int num, blk64_t *ret_blk, int *ret_count)
{
	int n = g_zero_calls++;
	g_zero_blk = blk;
	g_zero_num = num;
	g_zero_seq = ++g_seq;
	g_blocknr_at_write = BLOCKNR;
	return n < 3 ? IN.zero_err[n] : 0;
}

errcode_t ext2fs_free_mem(void *ptr)
{
	void **pp = (void **)ptr;
	__CPROVER_assert(*pp == (void *)DIRBLOCK, "CHECK:only the directory block buffer is freed");
	g_free_calls++;
	*pp = 0;
	return 0;
}

/* ------------------------------------------------------------------ expand_dir_proc */

#define CMASK ((1ULL << IN.cbits) - 1)

static int proc_pre(void)
{
	return (IN.cbits == 0 || IN.cbits == 4) && IN.newblocks >= 0 && IN.newblocks < (1 << 30) &&
	       !(IN.blocknr == 0 && IN.blockcnt == 0) && IN.goal < (1ULL << 62);
}

#define P_SKIP 1u
#define P_ALLOC 2u
#define P_DATA 4u
#define P_META 8u
#define P_ERR 16u
#define P_COUNT 32u
static unsigned proc_post(int ret)
{
	unsigned bad = 0;
	int same_cluster = IN.blockcnt != 0 && ((IN.goal >> IN.cbits) == ((IN.goal + 1) >> IN.cbits));

	if (IN.blocknr != 0) {
		if (!(ret == 0 && BLOCKNR == IN.blocknr && ES.goal == (IN.blockcnt >= 0 ? IN.blocknr : IN.goal) && ES.done == 0 && ES.err == 0 &&
		      g_nb_calls == 0 && g_stats_calls == 0 && g_wr_calls == 0 && g_zero_calls == 0))
			bad |= P_SKIP;
		if (ES.newblocks != IN.newblocks)
			bad |= P_COUNT;
		return bad;
	}
	/* a hole */
	blk64_t nb = same_cluster ? IN.goal + 1 : IN.new_blk[0];
	if (same_cluster ? !(g_nb_calls == 0 && g_stats_calls == 0)
			 : !(g_nb_calls == 1 && g_nb_goal == (IN.goal & ~CMASK) &&
			     (IN.nb_err[0] ? g_stats_calls == 0 : (g_stats_calls == 1 && g_stats_blk == IN.new_blk[0] && g_stats_inuse == +1))))
		bad |= P_ALLOC;
	if (ES.newblocks != IN.newblocks + ((!same_cluster && !IN.nb_err[0]) ? 1 : 0))
		bad |= P_COUNT;
	errcode_t e = (!same_cluster && IN.nb_err[0]) ? IN.nb_err[0] :
		      IN.blockcnt > 0 ? (IN.ndb_err[0] ? IN.ndb_err[0] : IN.wr_err[0]) : IN.zero_err[0];
	if (e) {
		if (!(ES.err == e && ret == BLOCK_ABORT && BLOCKNR == 0))
			bad |= P_ERR;
		return bad;
	}
	if (IN.blockcnt > 0) {
		if (!(ret == (BLOCK_CHANGED | BLOCK_ABORT) && ES.done == 1 && ES.err == 0 && BLOCKNR == nb && ES.goal == nb &&
		      g_ndb_calls == 1 && g_ndb_dir == 0 && g_ndb_parent == 0 &&
		      g_wr_calls == 1 && g_wr_blk == nb && g_wr_buf == (void *)DIRBLOCK && g_wr_ino == IN.dir &&
		      g_blocknr_at_write == 0 && g_free_calls == 1 && g_zero_calls == 0))
			bad |= P_DATA;
	} else {
		/* the goal is only cluster-aligned on the way (it is a hint) */
		if (!(ret == BLOCK_CHANGED && ES.done == 0 && ES.err == 0 && BLOCKNR == nb && ES.goal == (same_cluster ? IN.goal : (IN.goal & ~CMASK)) &&
		      g_zero_calls == 1 && g_zero_blk == nb && g_zero_num == 1 && g_blocknr_at_write == 0 &&
		      g_ndb_calls == 0 && g_wr_calls == 0))
			bad |= P_META;
	}
	return bad;
}

static int expand_dir_proc(ext2_filsys fs, blk64_t *blocknr, e2_blkcnt_t blockcnt, blk64_t ref_block, int ref_offset, void *priv_data)
	REQUIRES(fs == &FS && blocknr == &BLOCKNR && priv_data == (void *)&ES && blockcnt == IN.blockcnt && BLOCKNR == IN.blocknr)
	REQUIRES(ES.done == 0 && ES.err == 0 && ES.goal == IN.goal && ES.newblocks == IN.newblocks && ES.dir == IN.dir)
	REQUIRES(proc_pre() && FS.cluster_ratio_bits == (int)IN.cbits)
	REQUIRES(g_seq == 0 && g_nb_calls == 0 && g_stats_calls == 0 && g_ndb_calls == 0 && g_wr_calls == 0 && g_zero_calls == 0 && g_free_calls == 0)
	ENSURES(proc_post(RET) == 0)
	ASSIGNS(BLOCKNR, ES.done, ES.err, ES.goal, ES.newblocks, g_seq, g_nb_calls, g_nb_goal, g_stats_calls, g_stats_blk, g_stats_inuse,
		g_ndb_calls, g_ndb_dir, g_ndb_parent, g_wr_calls, g_wr_blk, g_wr_buf, g_wr_ino, g_wr_seq, g_blocknr_at_write,
		g_zero_calls, g_zero_blk, g_zero_num, g_zero_seq, g_free_calls);

void h_proc(void)
{
	LOAD_IN();
	ASSUME(proc_pre());
	FS.super = &SB;
	FS.blocksize = 1024;
	FS.cluster_ratio_bits = 0;
	if (IN.cbits == 4)
		FS.cluster_ratio_bits = 4;	/* constants: shift distances stay constant */
	ES.done = 0;
	ES.err = 0;
	ES.goal = IN.goal;
	ES.newblocks = IN.newblocks;
	ES.dir = IN.dir;
	BLOCKNR = IN.blocknr;
	g_seq = g_nb_calls = g_stats_calls = g_ndb_calls = g_wr_calls = g_zero_calls = g_free_calls = 0;

	int ret = expand_dir_proc(&FS, &BLOCKNR, IN.blockcnt, 0, 0, &ES);

	unsigned bad = proc_post(ret);
	CHECK(!(bad & P_SKIP), "SKIP: a mapped block is left alone and (data blocks) becomes the goal");
	CHECK(!(bad & P_ALLOC), "ALLOC: one allocation with the cluster-aligned goal, counted once with +1; none inside the goal's cluster");
	CHECK(!(bad & P_DATA), "DATA: the appended block is the buffer of ext2fs_new_dir_block(fs,0,0), written before it is stored, buffer freed, CHANGED|ABORT");
	CHECK(!(bad & P_META), "META: a new mapping block is zero-filled before it is stored, CHANGED");
	CHECK(!(bad & P_ERR), "ERR: callee error -> es->err, BLOCK_ABORT, *blocknr untouched");
	CHECK(!(bad & P_COUNT), "COUNT: newblocks grows by the number of allocations");
	if (IN.blocknr == 0 && IN.blockcnt > 0 && !IN.nb_err[0] && !IN.ndb_err[0] && !IN.wr_err[0] && IN.cbits == 0) REACH("data block appended");
	if (IN.blocknr == 0 && IN.blockcnt > 0 && IN.cbits == 4 && (IN.goal & 15) != 15 && !IN.ndb_err[0] && !IN.wr_err[0]) REACH("bigalloc: next block of the goal's cluster");
	if (IN.blocknr == 0 && IN.blockcnt < 0 && !IN.nb_err[0] && !IN.zero_err[0]) REACH("mapping block");
	if (IN.blocknr == 0 && IN.blockcnt > 0 && !IN.nb_err[0] && !IN.ndb_err[0] && IN.wr_err[0]) REACH("write error");
	REACH("end");
}

/* ------------------------------------------------------------------ ext2fs_expand_dir */

static struct ext2_inode DISK;		/* ghost: the directory's on-disk inode */
static int g_chk_calls, g_rd_calls, g_iter_calls, g_iter_seq, g_wi_calls, g_wi_seq, g_inl_calls, g_size_calls, g_iblk_calls;
static struct ext2_inode g_written, g_disk_at_second_read;
static int g_rd2_seq;
static int g_es_newblocks_after_iter, g_es_done, g_cb_calls;
static errcode_t g_es_err;

errcode_t ext2fs_check_directory(ext2_filsys fs, ext2_ino_t ino)
{
	g_chk_calls++;
	__CPROVER_assert(ino == IN.dir && g_iter_calls == 0 && g_wi_calls == 0, "CHECK:directory check first");
	return IN.chk_err;
}

errcode_t ext2fs_read_inode(ext2_filsys fs, ext2_ino_t ino, struct ext2_inode *inode)
{
	int n = g_rd_calls++;
	__CPROVER_assert(ino == IN.dir && n < 2, "CHECK:the directory inode is read");
	if (n < 2 && IN.rd_err[n])
		return IN.rd_err[n];
	*inode = DISK;
	if (n == 1) {
		g_disk_at_second_read = DISK;
		g_rd2_seq = ++g_seq;
	}
	return 0;
}

blk64_t ext2fs_find_inode_goal(ext2_filsys fs, ext2_ino_t ino, struct ext2_inode *inode, blk64_t lblk)
{
	return IN.goal0;
}

errcode_t ext2fs_block_iterate3(ext2_filsys fs, ext2_ino_t ino, int flags, char *block_buf,
				int (*func)(ext2_filsys fs, blk64_t *blocknr, e2_blkcnt_t blockcnt, blk64_t ref_blk, int ref_offset, void *priv_data),
				void *priv_data)
{
	struct expand_dir_struct *es = priv_data;
	g_iter_calls++;
	g_iter_seq = ++g_seq;
	__CPROVER_assert(ino == IN.dir && (flags & BLOCK_FLAG_APPEND) && !(flags & BLOCK_FLAG_READ_ONLY), "CHECK:appending iteration over the directory");
	__CPROVER_assert(es->done == 0 && es->err == 0 && es->newblocks == 0 && es->goal == IN.goal0 && es->dir == IN.dir, "CHECK:callback state initialised");
	__CPROVER_assert(g_wi_calls == 0, "CHECK:inode not written before the blocks");
#ifdef XD_NO_ITER_ERROR
	__CPROVER_assume(IN.iter_ret == 0 || IN.iter_ret == EXT2_ET_INLINE_DATA_CANT_ITERATE);
#endif
	if (IN.iter_ret == EXT2_ET_INLINE_DATA_CANT_ITERATE)
		return IN.iter_ret;
	for (int n = 0; n < 3; n++) {
		BLOCKNR = IN.cb_blk[n];
		g_cb_calls++;
		if (func(fs, &BLOCKNR, IN.cb_cnt[n], 0, 0, priv_data) & BLOCK_ABORT)
			break;
	}
	/* the iterator stores changed block pointers in the on-disk inode (block map / extent tree, i_blocks of new tree blocks) */
	DISK.i_block[0] ^= IN.iter_blocks_delta;
	g_es_newblocks_after_iter = es->newblocks;
	g_es_done = es->done;
	g_es_err = es->err;
	return IN.iter_ret;
}

errcode_t ext2fs_inline_data_expand(ext2_filsys fs, ext2_ino_t ino)
{
	g_inl_calls++;
	__CPROVER_assert(ino == IN.dir && g_wi_calls == 0, "CHECK:inline expansion of this directory");
	return IN.inline_ret;
}

errcode_t ext2fs_inode_size_set(ext2_filsys fs, struct ext2_inode *inode, ext2_off64_t size)
{
	g_size_calls++;
	if (IN.size_err)
		return IN.size_err;
	inode->i_size = (__u32)size;
	inode->i_size_high = (__u32)(size >> 32);
	return 0;
}

errcode_t ext2fs_iblk_add_blocks(ext2_filsys fs, struct ext2_inode *inode, blk64_t num_blocks)
{
	g_iblk_calls++;
	if (IN.iblk_err)
		return IN.iblk_err;
	inode->i_blocks += (__u32)(num_blocks * (IN.blocksize / 512));
	return 0;
}

errcode_t ext2fs_write_inode(ext2_filsys fs, ext2_ino_t ino, struct ext2_inode *inode)
{
	g_wi_calls++;
	g_wi_seq = ++g_seq;
	__CPROVER_assert(ino == IN.dir, "CHECK:the directory inode is written");
	g_written = *inode;
	if (IN.wi_err)
		return IN.wi_err;
	DISK = *inode;
	return 0;
}

static int same_except_size_blocks(const struct ext2_inode *a, const struct ext2_inode *b)
{
	struct ext2_inode x = *a, y = *b;
	x.i_size = y.i_size = 0;
	x.i_size_high = y.i_size_high = 0;
	x.i_blocks = y.i_blocks = 0;
	int same = 1;
	for (unsigned i = 0; i < sizeof(x); i++)
		if (((unsigned char *)&x)[i] != ((unsigned char *)&y)[i])
			same = 0;
	return same;
}

void h_expand(void)
{
	errcode_t r;

	LOAD_IN();
	ASSUME(IN.blocksize == 1024 || IN.blocksize == 4096);
	ASSUME(IN.isize < (1ULL << 40) && IN.goal0 < (1ULL << 62));
	for (int n = 0; n < 3; n++)
		ASSUME(!(IN.cb_blk[n] == 0 && IN.cb_cnt[n] == 0) && IN.cb_blk[n] < (1ULL << 62) && IN.new_blk[n] < (1ULL << 62));
	FS.cluster_ratio_bits = 0;
	FS.magic = EXT2_ET_MAGIC_EXT2FS_FILSYS;
	FS.super = &SB;
	FS.flags = IN.flags;
	FS.blocksize = IN.blocksize;
	FS.block_map = IN.has_map ? (ext2fs_block_bitmap)&SB : 0;
	{ struct ext2_inode nd; DISK = nd; }
	DISK.i_size = (__u32)IN.isize;
	DISK.i_size_high = (__u32)(IN.isize >> 32);
	DISK.i_blocks = (__u32)IN.iblocks;
	DISK.i_mode = LINUX_S_IFDIR | 0755;
	g_nb_calls = g_stats_calls = g_ndb_calls = g_wr_calls = g_zero_calls = g_free_calls = 0;
	g_seq = g_chk_calls = g_rd_calls = g_iter_calls = g_wi_calls = g_inl_calls = g_size_calls = g_iblk_calls = g_cb_calls = 0;
	g_es_newblocks_after_iter = 0;
	g_es_done = 0;
	g_es_err = 0;

	r = ext2fs_expand_dir(&FS, IN.dir);

	if (!(IN.flags & EXT2_FLAG_RW)) {
		CHECK(r == EXT2_ET_RO_FILSYS && g_chk_calls == 0 && g_rd_calls == 0 && g_iter_calls == 0 && g_wi_calls == 0, "GUARD: read-only filesystem refused untouched");
	} else if (!IN.has_map) {
		CHECK(r == EXT2_ET_NO_BLOCK_BITMAP && g_iter_calls == 0 && g_wi_calls == 0, "GUARD: no block bitmap loaded");
	} else if (IN.chk_err) {
		CHECK(r == IN.chk_err && g_iter_calls == 0 && g_wi_calls == 0, "GUARD: not a directory");
	} else if (IN.rd_err[0]) {
		CHECK(r == IN.rd_err[0] && g_iter_calls == 0 && g_wi_calls == 0, "GUARD: inode unreadable");
	} else if (IN.iter_ret == EXT2_ET_INLINE_DATA_CANT_ITERATE) {
		CHECK(r == IN.inline_ret && g_inl_calls == 1 && g_wi_calls == 0, "INLINE: inline-data directories are expanded by ext2fs_inline_data_expand");
	} else if (IN.iter_ret) {
		CHECK(r == IN.iter_ret && g_wi_calls == 0, "FAIL: iterator error returned, inode not written");
	} else if (g_es_err) {
		CHECK(r == g_es_err && g_wi_calls == 0, "FAIL: callback error returned, inode not written");
	} else if (!g_es_done) {
		CHECK(r == EXT2_ET_EXPAND_DIR_ERR && g_wi_calls == 0, "FAIL: no block appended");
	} else if (IN.rd_err[1] || IN.size_err) {
		CHECK(r == (IN.rd_err[1] ? IN.rd_err[1] : IN.size_err) && g_wi_calls == 0, "FAIL: re-read / size error returned, inode not written");
	} else {
		unsigned long long wsize = g_written.i_size | ((unsigned long long)g_written.i_size_high << 32);
		CHECK(g_wi_calls == 1 && g_iter_calls == 1 && g_wi_seq > g_iter_seq && g_wi_seq > g_rd2_seq && g_rd2_seq > g_iter_seq,
		      "GROW: the inode is re-read after the block iteration and written exactly once, last");
		CHECK(wsize == IN.isize + IN.blocksize, "GROW: i_size grows by exactly one block");
		CHECK(IN.iblk_err || g_written.i_blocks == (__u32)(g_disk_at_second_read.i_blocks + (unsigned)g_es_newblocks_after_iter * (IN.blocksize / 512)),
		      "GROW: i_blocks grows by exactly the blocks the callback allocated");
		CHECK(same_except_size_blocks(&g_written, &g_disk_at_second_read), "GROW: every other field is the one the iterator left on disk (no stale copy written back)");
		CHECK(r == IN.wi_err, "GROW: result of the inode write is the result");
		CHECK(g_es_newblocks_after_iter == g_nb_calls - (g_nb_calls > 0 && IN.nb_err[g_nb_calls - 1] != 0), "GROW: newblocks is the number of successful allocations");
		if (!IN.wi_err && IN.iter_blocks_delta && g_es_newblocks_after_iter == 2) REACH("grown with a new mapping block, iterator changed the block map");

	}
	if (r == EXT2_ET_EXPAND_DIR_ERR) REACH("nothing appended");
	REACH("end");
}
