/*
 * C10 — lib/ext2fs/lookup.c: lookup_proc (per-entry callback) and ext2fs_lookup.
 *
 * Spec (from the property text: "each name resolves to [its] inode"; a name is the byte string of length name_len):
 *   lookup_proc   MATCH  the entry matches iff its name_len equals the key length and all name_len bytes equal the key's
 *                        (no prefix match in either direction);
 *                 HIT    on a match: *ls->inode = the entry's inode, found + 1, result DIRENT_ABORT (stops the iteration, so
 *                        the FIRST matching entry wins);
 *                 MISS   otherwise: result 0 and nothing is written;                                                  (U/k)
 *   ext2fs_lookup iterates with flags 0 (the iterator then never shows deleted entries — inode 0 — to the callback), maps
 *                 "no entry matched" to EXT2_ET_FILE_NOT_FOUND, an iterator error to that error, and returns the inode of the
 *                 first matching live entry in iteration order.                                                        (P)
 */
/* VERIF-UNIT
{
 "name": "ht_lookup_proc",
 "props": ["C10"],
 "level": "U/k",
 "tier": "quick",
 "harness": "h_lookup_proc",
 "enforce": ["lookup_proc"],
 "unwind": 257,
 "unwind_reason": "strncmp and the specification's comparison loop run over at most 255 name bytes (name_len is an 8-bit on-disk field); unwinding assertions on",
 "timeout": 300,
 "functions": ["lib/ext2fs/lookup.c:lookup_proc"],
 "assumes": ["the key has no NUL byte inside its len bytes (callers pass path components / strlen-delimited names); the ENTRY's name bytes are arbitrary (may contain NUL)", "key length arbitrary int (a length outside 0..255 can never match), name_len 0..255, entry inode arbitrary (the iterator filters deleted entries, see ht_lookup)", "libc strncmp is CBMC's built-in model"],
 "native": true
}
*/
/* VERIF-UNIT
{
 "name": "ht_lookup",
 "props": ["C10"],
 "level": "P",
 "tier": "quick",
 "harness": "h_lookup_api",
 "unwind": 10,
 "unwind_reason": "the iterator stub offers at most 3 entries with names of at most 4 bytes (caps of the stub, see assumes); unwinding assertions on",
 "timeout": 300,
 "functions": ["lib/ext2fs/lookup.c:ext2fs_lookup", "lib/ext2fs/lookup.c:lookup_proc"],
 "assumes": ["ext2fs_dir_iterate is a stub with the documented interface: it requires flags == 0 (asserted) and therefore skips entries with inode 0, calls the callback on up to 3 entries with names of up to 4 bytes in order, stops when the callback returns DIRENT_ABORT, returns an arbitrary error code", "key without NUL inside its length, key length 0..4"],
 "native": false
}
*/
#include "verif.h"

struct in_lk {
	unsigned char key[256];
	int len;
	unsigned int d_inode;
	unsigned char d_name_len, d_type;
	unsigned char d_name[255];
	unsigned int old_inode;
	int old_found;
	/* ext2fs_lookup */
	unsigned int e_inode[3];
	unsigned char e_len[3];
	unsigned char e_name[3][4];
	long iter_ret;
	unsigned int dir;
};
struct in_lk IN;
#include "verif_in.h"

#include "lib/ext2fs/lookup.c"

static struct ext2_dir_entry DE;
static struct lookup_struct LS;
static ext2_ino_t OUT_INO;

/* MATCH: same length and the same bytes */
static int spec_match(void)
{
	int eq = 1;
	if (IN.len != (int)IN.d_name_len)
		return 0;
	for (int i = 0; i < 255; i++)
		if (i < (int)IN.d_name_len && IN.key[i] != IN.d_name[i])
			eq = 0;
	return eq;
}

static int lookup_proc(struct ext2_dir_entry *dirent, int offset, int blocksize, char *buf, void *priv_data)
	REQUIRES(dirent == &DE && priv_data == (void *)&LS && LS.name == (const char *)IN.key && LS.len == IN.len && LS.inode == &OUT_INO)
	REQUIRES(LS.found == IN.old_found && IN.old_found >= 0 && IN.old_found < 1000 && OUT_INO == IN.old_inode)
	ENSURES(RET == (spec_match() ? DIRENT_ABORT : 0))
	ENSURES(spec_match() ? (OUT_INO == IN.d_inode && LS.found == IN.old_found + 1) : (OUT_INO == IN.old_inode && LS.found == IN.old_found))
	ASSIGNS(OUT_INO, LS.found);

void h_lookup_proc(void)
{
	LOAD_IN();
	/* the key is a name without NUL inside its length */
	for (int i = 0; i < 255; i++)
		if (i < IN.len)
			ASSUME(IN.key[i] != 0);
	ASSUME(IN.old_found >= 0 && IN.old_found < 1000);
	DE.inode = IN.d_inode;
	DE.rec_len = 264;
	DE.name_len = (__u16)(IN.d_name_len | (IN.d_type << 8));	/* name_len in the low byte, file type in the high byte */
	for (int i = 0; i < 255; i++)
		DE.name[i] = IN.d_name[i];
	LS.name = (const char *)IN.key;
	LS.len = IN.len;
	LS.inode = &OUT_INO;
	LS.found = IN.old_found;
	OUT_INO = IN.old_inode;

	int r = lookup_proc(&DE, 0, 1024, (char *)&DE, &LS);

	int m = spec_match();
	CHECK(r == (m ? DIRENT_ABORT : 0), "DIRENT_ABORT exactly on a match");
	CHECK(!m || (OUT_INO == IN.d_inode && LS.found == IN.old_found + 1), "HIT: the entry's inode is reported and counted");
	CHECK(m || (OUT_INO == IN.old_inode && LS.found == IN.old_found), "MISS: nothing is written");
	if (m && IN.len == 255) REACH("match of a 255-byte name");
	if (!m && IN.len == (int)IN.d_name_len && IN.len > 3 && IN.key[0] == IN.d_name[0] && IN.key[1] == IN.d_name[1]) REACH("same length, common prefix, differs later");
	if (!m && IN.len < (int)IN.d_name_len) REACH("key is shorter than the entry name (possible prefix)");
	if (!m && IN.len > (int)IN.d_name_len) REACH("entry name is shorter than the key (possible prefix)");
	REACH("end");
}

/* ------------------------------------------------------------------ ext2fs_lookup */

static struct struct_ext2_filsys FS;
static int g_iter_calls, g_cb_calls, g_first_match;
static struct ext2_dir_entry E;

errcode_t ext2fs_dir_iterate(ext2_filsys fs, ext2_ino_t dir, int flags, char *block_buf,
			     int (*func)(struct ext2_dir_entry *dirent, int offset, int blocksize, char *buf, void *priv_data),
			     void *priv_data)
{
	g_iter_calls++;
	__CPROVER_assert(fs == &FS && dir == IN.dir, "CHECK:the directory asked for is iterated");
	__CPROVER_assert(flags == 0, "CHECK:iteration without DIRENT_FLAG_INCLUDE_EMPTY / _REMOVED: deleted entries are never shown");
	for (int n = 0; n < 3; n++) {
		if (IN.e_inode[n] == 0)
			continue;			/* flags == 0: unused entries are skipped by the iterator */
		E.inode = IN.e_inode[n];
		E.rec_len = 12;
		E.name_len = IN.e_len[n];
		for (int i = 0; i < 4; i++)
			E.name[i] = IN.e_name[n][i];
		g_cb_calls++;
		if (func(&E, 0, 1024, block_buf, priv_data) & DIRENT_ABORT)
			break;
	}
	return IN.iter_ret;
}

static int entry_matches(int n)
{
	if (IN.e_inode[n] == 0 || IN.e_len[n] != IN.len)
		return 0;
	for (int i = 0; i < 4; i++)
		if (i < IN.len && IN.e_name[n][i] != IN.key[i])
			return 0;
	return 1;
}

void h_lookup_api(void)
{
	ext2_ino_t ino;
	errcode_t r;

	LOAD_IN();
	ino = IN.old_inode;
	ASSUME(IN.len >= 0 && IN.len <= 4);
	for (int i = 0; i < 4; i++)
		if (i < IN.len)
			ASSUME(IN.key[i] != 0);
	for (int n = 0; n < 3; n++)
		ASSUME(IN.e_len[n] <= 4);
	FS.magic = EXT2_ET_MAGIC_EXT2FS_FILSYS;
	g_iter_calls = g_cb_calls = 0;

	r = ext2fs_lookup(&FS, IN.dir, (const char *)IN.key, IN.len, 0, &ino);

	int first = entry_matches(0) ? 0 : entry_matches(1) ? 1 : entry_matches(2) ? 2 : -1;
	CHECK(g_iter_calls == 1, "one iteration over the directory");
	if (IN.iter_ret) {
		CHECK(r == IN.iter_ret, "an iterator error is handed up");
	} else if (first >= 0) {
		CHECK(r == 0 && ino == IN.e_inode[first], "the name resolves to the inode of the FIRST live entry with exactly this name");
		CHECK(g_cb_calls == first + 1 - (first > 0 && IN.e_inode[0] == 0) - (first > 1 && IN.e_inode[1] == 0), "the iteration stops at the match");
	} else {
		CHECK(r == EXT2_ET_FILE_NOT_FOUND && ino == IN.old_inode, "no live entry has this name: EXT2_ET_FILE_NOT_FOUND, *inode untouched");
	}
	if (first == 1 && entry_matches(2) && IN.e_inode[2] != IN.e_inode[1] && !IN.iter_ret) REACH("two matching entries: the first wins");
	if (first < 0 && IN.e_inode[0] == 0 && IN.e_len[0] == IN.len && IN.len == 0 && !IN.iter_ret) REACH("a deleted entry with the key's name does not match");
	REACH("end");
}
