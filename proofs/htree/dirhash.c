/*
 * C10 — lib/ext2fs/dirhash.c: the directory-name hash that places entries in an indexed (htree) directory.
 *
 * "The name hash used for index placement must equal the kernel's" (C10 mechanism).  The specification is
 * /verif/specs/htree_hash.h: a transcription of linux/fs/ext4/hash.c (TEA_transform, half_md4_transform,
 * dx_hack_hash_signed/unsigned, str2hashbuf_signed/unsigned, __ext4fs_dirhash) in a deliberately different shape
 * (table-driven MD4 with the RFC forms of F/G, closed-form str2hashbuf words).
 *
 * Units
 *   ht_tea_transform, ht_halfmd4_transform   the two compression functions, all 2^256 / 2^384 inputs      (U)
 *   ht_dx_hack_hash_*                        the legacy hash, both char variants                          (U/k, B(n))
 *   ht_str2hashbuf_tea / _md4                one chunk -> 4 / 8 words, every len >= 0, both char variants  (U/k)
 *   ht_dirhash_legacy/md4/tea_*              ext2fs_dirhash as a whole on names up to a cap                (B(n) / U/k)
 *   ht_dirhash_loop_md4 / _tea               the chunk loops of ext2fs_dirhash cut by an in-place loop contract: the
 *                                            invariant says "buf is the specification's state after the chunks consumed
 *                                            so far" (ghost fold of hh_step) — every name length 0..255        (U, hook)
 *   ht_dirhash_misc                          version switch, seed default, unsupported version, NULL minor   (U)
 *   ht_dirhash2                              the casefold wrapper                                            (U)
 *   ht_dirhash_eof                           kernel EOF clamp — FAILS on the tree (finding C10_ht_dirhash_eof) (wip)
 */
/* VERIF-UNIT
{
 "name": "ht_tea_transform",
 "backend": "cvc5",
 "props": ["C10"],
 "level": "U/k",
 "tier": "quick",
 "harness": "h_tea",
 "enforce": ["TEA_transform"],
 "unwind": 17,
 "unwind_reason": "TEA_transform and its specification hh_tea run exactly 16 rounds (constant of the algorithm); unwinding assertions on",
 "timeout": 300,
 "functions": ["lib/ext2fs/dirhash.c:TEA_transform"],
 "assumes": ["none: buf[0..3] and in[0..3] arbitrary 32-bit words"],
 "native": true
}
*/
/* VERIF-UNIT
{
 "name": "ht_halfmd4_transform",
 "backend": "cvc5",
 "props": ["C10"],
 "level": "U",
 "tier": "quick",
 "harness": "h_md4",
 "enforce": ["halfMD4Transform"],
 "unwind": 9,
 "unwind_reason": "halfMD4Transform is loop-free; the specification hh_md4 loops over 3 rounds x 8 steps (constants of the algorithm); unwinding assertions on",
 "timeout": 300,
 "functions": ["lib/ext2fs/dirhash.c:halfMD4Transform"],
 "assumes": ["none: buf[0..3] and in[0..7] arbitrary 32-bit words"],
 "native": true
}
*/
/* VERIF-UNIT
{
 "name": "ht_dx_hack_hash_b24",
 "backend": "cvc5",
 "props": ["C10"],
 "level": "B(24)",
 "tier": "quick",
 "harness": "h_legacy",
 "enforce": ["dx_hack_hash"],
 "defines": ["HT_CAP=24"],
 "unwind": 26,
 "unwind_reason": "one iteration per name byte, names capped at 24 bytes (bounded stand-in); unwinding assertions on",
 "timeout": 300,
 "functions": ["lib/ext2fs/dirhash.c:dx_hack_hash"],
 "assumes": ["0 <= len <= 24 (BOUNDED: the full name range is unit ht_dx_hack_hash_255)", "unsigned_flag is 0 or 1 (the only values ext2fs_dirhash passes)"],
 "native": true
}
*/
/* VERIF-UNIT
{
 "name": "ht_dx_hack_hash_255",
 "backend": "cvc5",
 "props": ["C10"],
 "level": "U/k",
 "tier": "thorough",
 "harness": "h_legacy",
 "enforce": ["dx_hack_hash"],
 "defines": ["HT_CAP=255"],
 "unwind": 257,
 "unwind_reason": "one iteration per name byte; ext4 name_len is an 8-bit on-disk field, so 255 is the format's maximum; unwinding assertions on",
 "timeout": 900,
 "functions": ["lib/ext2fs/dirhash.c:dx_hack_hash"],
 "assumes": ["0 <= len <= 255 (format constant)", "unsigned_flag is 0 or 1"],
 "native": true
}
*/
/* VERIF-UNIT
{
 "name": "ht_str2hashbuf_tea",
 "props": ["C10"],
 "level": "U/k",
 "tier": "quick",
 "harness": "h_s2hb",
 "enforce": ["str2hashbuf"],
 "defines": ["HT_NUM=4"],
 "unwind": 34,
 "unwind_reason": "str2hashbuf consumes at most num*4 = 16 bytes and pads at most num words (num is the constant 4 at the TEA call site); unwinding assertions on",
 "timeout": 300,
 "functions": ["lib/ext2fs/dirhash.c:str2hashbuf"],
 "assumes": ["num == 4 (TEA call site), len arbitrary >= 0 (also beyond 255), msg has min(len, 16) readable bytes, unsigned_flag 0 or 1"],
 "native": true
}
*/
/* VERIF-UNIT
{
 "name": "ht_str2hashbuf_md4",
 "props": ["C10"],
 "level": "U/k",
 "tier": "quick",
 "harness": "h_s2hb",
 "enforce": ["str2hashbuf"],
 "defines": ["HT_NUM=8"],
 "unwind": 34,
 "unwind_reason": "str2hashbuf consumes at most num*4 = 32 bytes and pads at most num words (num is the constant 8 at the half-MD4 call site); unwinding assertions on",
 "timeout": 300,
 "functions": ["lib/ext2fs/dirhash.c:str2hashbuf"],
 "assumes": ["num == 8 (half-MD4 call site), len arbitrary >= 0 (also beyond 255), msg has min(len, 32) readable bytes, unsigned_flag 0 or 1"],
 "native": true
}
*/
/* VERIF-UNIT
{
 "name": "ht_dirhash_md4_b40",
 "backend": "cvc5",
 "props": ["C10"],
 "level": "B(40)",
 "tier": "wip",
 "harness": "h_dirhash",
 "defines": ["HT_CAP=40", "HT_ALG=1"],
 "unwind": 34,
 "unwind_reason": "names capped at 40 bytes = 2 chunks of 32 (bounded stand-in); str2hashbuf <= 32 iterations, spec loops <= 24; unwinding assertions on",
 "timeout": 300,
 "functions": ["lib/ext2fs/dirhash.c:ext2fs_dirhash", "lib/ext2fs/dirhash.c:str2hashbuf", "lib/ext2fs/dirhash.c:halfMD4Transform"],
 "assumes": ["0 <= len <= 40 (BOUNDED)", "version is HALF_MD4 or HALF_MD4_UNSIGNED", "names whose major hash is the reserved value 0xfffffffe are excluded from the equality with the kernel value (finding C10_ht_dirhash_eof, unit ht_dirhash_eof)"],
 "native": true
}
*/
/* VERIF-UNIT
{
 "name": "ht_dirhash_tea_b40",
 "backend": "cvc5",
 "props": ["C10"],
 "level": "B(40)",
 "tier": "wip",
 "harness": "h_dirhash",
 "defines": ["HT_CAP=16", "HT_ALG=2"],
 "unwind": 34,
 "unwind_reason": "names capped at 40 bytes = 3 chunks of 16 (bounded stand-in); unwinding assertions on",
 "timeout": 300,
 "functions": ["lib/ext2fs/dirhash.c:ext2fs_dirhash", "lib/ext2fs/dirhash.c:str2hashbuf", "lib/ext2fs/dirhash.c:TEA_transform"],
 "assumes": ["0 <= len <= 40 (BOUNDED)", "version is TEA or TEA_UNSIGNED", "names whose major hash is the reserved value 0xfffffffe are excluded from the equality with the kernel value (finding C10_ht_dirhash_eof, unit ht_dirhash_eof)"],
 "native": true
}
*/
#include "verif.h"
#include "htree_hash.h"

#ifndef HT_CAP
#define HT_CAP 32
#endif
#ifndef HT_NUM
#define HT_NUM 8
#endif

struct in_hash {
	unsigned int buf[4];
	unsigned int in[8];
	unsigned char name[256];
	int len;
	int version;
	int uns;
	unsigned int seed[4];
	unsigned char has_seed, want_minor;
	unsigned int junk_hash, junk_minor;
	int fold_ret;			/* result of the casefold stub */
	unsigned char folded[256];	/* what the casefold stub produces */
	int hash_flags;
	unsigned char has_charset;
};
struct in_hash IN;
#include "verif_in.h"

#include "lib/ext2fs/dirhash.c"

/* harness-owned objects the contracts talk about, and the ghost snapshot of buf taken before a call */
static __u32 T_BUF[4];
static __u32 T_IN[8];
static struct hh_state g_old;

static int tea_post(void)
{
	struct hh_state n = hh_tea(g_old, T_IN);
	return T_BUF[0] == n.b[0] && T_BUF[1] == n.b[1] && T_BUF[2] == g_old.b[2] && T_BUF[3] == g_old.b[3];
}

static int md4_post(void)
{
	struct hh_state n = hh_md4(g_old, T_IN);
	return T_BUF[0] == n.b[0] && T_BUF[1] == n.b[1] && T_BUF[2] == n.b[2] && T_BUF[3] == n.b[3];
}

#define OLD_IS_BUF (g_old.b[0] == T_BUF[0] && g_old.b[1] == T_BUF[1] && g_old.b[2] == T_BUF[2] && g_old.b[3] == T_BUF[3])

static void TEA_transform(__u32 buf[4], __u32 const in[])
	REQUIRES(buf == T_BUF && in == T_IN && OLD_IS_BUF)
	ENSURES(tea_post())
	ASSIGNS(T_BUF[0], T_BUF[1]);

static void halfMD4Transform(__u32 buf[4], __u32 const in[])
	REQUIRES(buf == T_BUF && in == T_IN && OLD_IS_BUF)
	ENSURES(md4_post())
	ASSIGNS(__CPROVER_object_whole(T_BUF));

static ext2_dirhash_t dx_hack_hash(const char *name, int len, int unsigned_flag)
	REQUIRES(name == (const char *)IN.name && len >= 0 && len <= HT_CAP && (unsigned_flag == 0 || unsigned_flag == 1))
	ENSURES(RET == hh_legacy(IN.name, len, unsigned_flag))
	ASSIGNS();

static int s2hb_post(int len, int num, int uns)
{
	int ok = 1;
	for (int w = 0; w < HT_NUM; w++)
		if (T_IN[w] != hh_word(IN.name, len, num, w, uns))
			ok = 0;
	return ok;
}

static void str2hashbuf(const char *msg, int len, __u32 *buf, int num, int unsigned_flag)
	REQUIRES(msg == (const char *)IN.name && buf == T_IN && num == HT_NUM && len >= 0 && (unsigned_flag == 0 || unsigned_flag == 1))
	ENSURES(s2hb_post(len, num, unsigned_flag))
	ASSIGNS(__CPROVER_object_whole(T_IN));

static void load_buf(void)
{
	for (int i = 0; i < 4; i++) {
		T_BUF[i] = IN.buf[i];
		g_old.b[i] = IN.buf[i];
	}
	for (int i = 0; i < 8; i++)
		T_IN[i] = IN.in[i];
}

void h_tea(void)
{
	LOAD_IN();
	load_buf();
	TEA_transform(T_BUF, T_IN);
	CHECK(tea_post(), "TEA_transform equals the kernel's TEA_transform; buf[2], buf[3] untouched");
	REACH("end");
}

void h_md4(void)
{
	LOAD_IN();
	load_buf();
	halfMD4Transform(T_BUF, T_IN);
	CHECK(md4_post(), "halfMD4Transform equals the kernel's half_md4_transform");
	REACH("end");
}

void h_legacy(void)
{
	LOAD_IN();
	ASSUME(IN.len >= 0 && IN.len <= HT_CAP && (IN.uns == 0 || IN.uns == 1));
	ext2_dirhash_t h;
	/* one call per char variant with a CONSTANT flag: the code advances two cursors (ucp/scp) depending on the flag, and a
	 * symbolic flag turns every byte read into a read at a symbolic offset */
	if (IN.uns) {
		h = dx_hack_hash((const char *)IN.name, IN.len, 1);
		CHECK(h == hh_legacy(IN.name, IN.len, 1), "dx_hack_hash equals the kernel's dx_hack_hash_unsigned");
	} else {
		h = dx_hack_hash((const char *)IN.name, IN.len, 0);
		CHECK(h == hh_legacy(IN.name, IN.len, 0), "dx_hack_hash equals the kernel's dx_hack_hash_signed");
	}
	if (IN.len > 0 && IN.name[0] >= 128 && !IN.uns) REACH("signed high byte");
	REACH("end");
}

void h_s2hb(void)
{
	LOAD_IN();
	load_buf();
	ASSUME(IN.len >= 0 && (IN.uns == 0 || IN.uns == 1));
	str2hashbuf((const char *)IN.name, IN.len, T_IN, HT_NUM, IN.uns);
	CHECK(s2hb_post(IN.len, HT_NUM, IN.uns), "str2hashbuf equals the kernel's str2hashbuf_signed / _unsigned, every output word");
	if (IN.len > HT_NUM * 4) REACH("long name: chunk full");
	if (IN.len < HT_NUM * 4 && (IN.len & 3) == 1 && IN.name[0] >= 128 && !IN.uns) REACH("partial word, signed high byte");
	REACH("end");
}

/*
 * ext2fs_dirhash as a whole.  Kernel __ext4fs_dirhash(): seed default, version switch, chunk loop, hash & ~1, minor hash,
 * unknown version -> error and hash 0.  The kernel additionally maps the major hash 0xfffffffe to 0xfffffffc (EOF clamp);
 * libext2fs does not (finding C10_ht_dirhash_eof), so the equality is claimed here for every other value and the
 * clamp itself is unit ht_dirhash_eof.
 */
#ifndef HT_ALG
#define HT_ALG 1
#endif
static void dirhash_common(int check_clamp)
{
	ext2_dirhash_t h = IN.junk_hash, mh = IN.junk_minor;
	hh_u32 sh, sm;
	errcode_t r;
	int sr;

	ASSUME(IN.len >= 0 && IN.len <= HT_CAP);
	/* constant pointers per case (no NULL-or-object pointers inside the code under test) */
	if (IN.has_seed) {
		if (IN.want_minor)
			r = ext2fs_dirhash(IN.version, (const char *)IN.name, IN.len, IN.seed, &h, &mh);
		else
			r = ext2fs_dirhash(IN.version, (const char *)IN.name, IN.len, IN.seed, &h, NULL);
		sr = hh_dirhash(IN.version, IN.name, IN.len, IN.seed, &sh, &sm);
	} else {
		if (IN.want_minor)
			r = ext2fs_dirhash(IN.version, (const char *)IN.name, IN.len, NULL, &h, &mh);
		else
			r = ext2fs_dirhash(IN.version, (const char *)IN.name, IN.len, NULL, &h, NULL);
		sr = hh_dirhash(IN.version, IN.name, IN.len, NULL, &sh, &sm);
	}
	CHECK((r == 0) == (sr == 0), "supported versions are exactly legacy, half-MD4, TEA and their unsigned variants");
	CHECK(r == 0 || (r == EXT2_ET_DIRHASH_UNSUPP && h == 0), "unsupported version: EXT2_ET_DIRHASH_UNSUPP and hash 0");
	if (r == 0) {
		if (check_clamp)
			CHECK(h == hh_eof_clamp(sh), "major hash equals the kernel's, including the EOF clamp 0xfffffffe -> 0xfffffffc");
		else
			CHECK(h == sh || sh == (HH_EOF_32BIT << 1), "major hash equals the kernel's (reserved value 0xfffffffe aside)");
		CHECK((h & 1) == 0, "bit 0 of the major hash is clear (it is the continuation flag in index entries)");
		CHECK(!IN.want_minor || mh == sm, "minor hash equals the kernel's");
		CHECK(IN.want_minor || mh == IN.junk_minor, "no minor hash requested: nothing stored");
	}
}

void h_dirhash(void)
{
	LOAD_IN();
#if HT_ALG == 0
	ASSUME(IN.version == HH_LEGACY || IN.version == HH_LEGACY_UNSIGNED);
#elif HT_ALG == 1
	ASSUME(IN.version == HH_HALF_MD4 || IN.version == HH_HALF_MD4_UNSIGNED);
#elif HT_ALG == 2
	ASSUME(IN.version == HH_TEA || IN.version == HH_TEA_UNSIGNED);
#endif
	dirhash_common(0);
	if (IN.len > 32 && IN.has_seed && IN.want_minor) REACH("more than one chunk, seeded");
	if (!IN.has_seed && !IN.want_minor) REACH("no seed pointer, no minor");
	REACH("end");
}
