/*
 * C10 — lib/ext2fs/dirhash.c: the directory-name hash that places entries in an indexed (htree) directory.
 *
 * "The name hash used for index placement must equal the kernel's" (C10 mechanism).  The specification is
 * /verif/specs/htree_hash.h: a transcription of linux/fs/ext4/hash.c (TEA_transform, half_md4_transform,
 * dx_hack_hash_signed/unsigned, str2hashbuf_signed/unsigned, __ext4fs_dirhash) in a deliberately different shape
 * (table-driven MD4 with the RFC forms of F/G, closed-form str2hashbuf words).
 *
 * Units
 *   ht_tea_transform, ht_halfmd4_transform   the two compression functions, all 2^192 / 2^384 inputs                 (U/k, U)
 *   ht_str2hashbuf_tea / _md4                one chunk -> 4 / 8 words, every len >= 0, both char variants             (U/k)
 *   ht_dx_hack_hash_b24 / _255               the legacy hash against the closed kernel function, both char variants   (B(24); 255: wip, does not finish)
 *   ht_dirhash_loop_legacy                   ext2fs_dirhash, legacy versions, per-byte loop closed by an in-place loop
 *                                            contract (hook): every length 0..255                                      (U, hook)
 *   ht_dirhash_legacy_b24                    ext2fs_dirhash, legacy versions, against the closed hh_dirhash()         (B(24))
 *   ht_dirhash_md4, ht_dirhash_tea           ext2fs_dirhash against hh_dirhash() for every length 0..255; the helpers are
 *                                            replaced by their contracts and the compression function is an
 *                                            UNINTERPRETED symbol (parametric composition proof)                       (U/k)
 *   ht_dirhash_md4_b40, ht_dirhash_tea_b40   the same on names <= 40 bytes, quick tier                                 (B(40))
 *   ht_dirhash_unsupp                        every version outside 0..5: EXT2_ET_DIRHASH_UNSUPP, hash 0               (U/k)
 *   ht_dirhash_eof                           kernel EOF clamp 0xfffffffe -> 0xfffffffc — FAILS on the tree
 *                                            (finding C10_ht_dirhash_eof)                                             (wip)
 * Back ends: the arithmetic equivalences (transforms, legacy) need cvc5 (minisat does not finish); the composition
 * units need minisat (cvc5 does not finish on the contract instrumentation).  NOTE for whoever runs these: when the driver's
 * time-out kills cbmc, the cvc5 child survives as an orphan and keeps a core busy.
 */
/* VERIF-UNIT
{
 "name": "ht_tea_transform",
 "backend": "cvc5",
 "props": ["C10"],
 "level": "U/k",
 "tier": "quick",
 "harness": "h_tea",
 "enforce": ["TEA_transform"],
 "unwind": 17,
 "unwind_reason": "TEA_transform and its specification hh_tea run exactly 16 rounds (constant of the algorithm); unwinding assertions on",
 "timeout": 300,
 "functions": ["lib/ext2fs/dirhash.c:TEA_transform"],
 "assumes": ["none: buf[0..3] and in[0..3] arbitrary 32-bit words"],
 "native": true
}
*/
/* VERIF-UNIT
{
 "name": "ht_halfmd4_transform",
 "backend": "cvc5",
 "props": ["C10"],
 "level": "U",
 "tier": "quick",
 "harness": "h_md4",
 "enforce": ["halfMD4Transform"],
 "unwind": 9,
 "unwind_reason": "halfMD4Transform is loop-free; the specification hh_md4 loops over 3 rounds x 8 steps (constants of the algorithm); unwinding assertions on",
 "timeout": 300,
 "functions": ["lib/ext2fs/dirhash.c:halfMD4Transform"],
 "assumes": ["none: buf[0..3] and in[0..7] arbitrary 32-bit words"],
 "native": true
}
*/
/* VERIF-UNIT
{
 "name": "ht_dx_hack_hash_b8",
 "backend": "cvc5",
 "props": ["C10"],
 "level": "B(8)",
 "tier": "quick",
 "harness": "h_legacy",
 "enforce": ["dx_hack_hash"],
 "defines": ["HT_CAP=8"],
 "unwind": 10,
 "unwind_reason": "one iteration per name byte, names capped at 8 bytes (bounded stand-in; every length: ht_dirhash_loop_legacy); unwinding assertions on",
 "timeout": 300,
 "functions": ["lib/ext2fs/dirhash.c:dx_hack_hash"],
 "assumes": ["0 <= len <= 8 (BOUNDED)", "unsigned_flag is 0 or 1 (the only values ext2fs_dirhash passes)"],
 "native": true
}
*/
/* VERIF-UNIT
{
 "name": "ht_dx_hack_hash_b24",
 "backend": "cvc5",
 "props": ["C10"],
 "level": "B(24)",
 "tier": "quick",
 "harness": "h_legacy",
 "enforce": ["dx_hack_hash"],
 "defines": ["HT_CAP=24"],
 "unwind": 26,
 "unwind_reason": "one iteration per name byte, names capped at 24 bytes (bounded stand-in); unwinding assertions on",
 "timeout": 300,
 "functions": ["lib/ext2fs/dirhash.c:dx_hack_hash"],
 "assumes": ["0 <= len <= 24 (BOUNDED: the full name range is unit ht_dx_hack_hash_255)", "unsigned_flag is 0 or 1 (the only values ext2fs_dirhash passes)"],
 "native": true
}
*/
/* VERIF-UNIT
{
 "name": "ht_dx_hack_hash_255",
 "backend": "cvc5",
 "props": ["C10"],
 "level": "U/k",
 "tier": "wip",
 "harness": "h_legacy",
 "enforce": ["dx_hack_hash"],
 "defines": ["HT_CAP=255"],
 "unwind": 257,
 "unwind_reason": "one iteration per name byte; ext4 name_len is an 8-bit on-disk field, so 255 is the format's maximum; unwinding assertions on",
 "timeout": 900,
 "functions": ["lib/ext2fs/dirhash.c:dx_hack_hash"],
 "assumes": ["DOES NOT FINISH (cvc5 > 300 s, minisat > 300 s; the ite chain over 255 loop exits): kept wip for the record; every length is covered by ht_dirhash_loop_legacy (loop contract)", "0 <= len <= 255 (format constant)", "unsigned_flag is 0 or 1"],
 "native": true
}
*/
/* VERIF-UNIT
{
 "name": "ht_str2hashbuf_tea",
 "props": ["C10"],
 "level": "U/k",
 "tier": "quick",
 "harness": "h_s2hb",
 "enforce": ["str2hashbuf"],
 "defines": ["HT_NUM=4"],
 "unwind": 34,
 "unwind_reason": "str2hashbuf consumes at most num*4 = 16 bytes and pads at most num words (num is the constant 4 at the TEA call site); unwinding assertions on",
 "timeout": 300,
 "functions": ["lib/ext2fs/dirhash.c:str2hashbuf"],
 "assumes": ["num == 4 (TEA call site), len arbitrary >= 0 (also beyond 255), msg has min(len, 16) readable bytes, unsigned_flag 0 or 1"],
 "native": true
}
*/
/* VERIF-UNIT
{
 "name": "ht_str2hashbuf_md4",
 "props": ["C10"],
 "level": "U/k",
 "tier": "quick",
 "harness": "h_s2hb",
 "enforce": ["str2hashbuf"],
 "defines": ["HT_NUM=8"],
 "unwind": 34,
 "unwind_reason": "str2hashbuf consumes at most num*4 = 32 bytes and pads at most num words (num is the constant 8 at the half-MD4 call site); unwinding assertions on",
 "timeout": 300,
 "functions": ["lib/ext2fs/dirhash.c:str2hashbuf"],
 "assumes": ["num == 8 (half-MD4 call site), len arbitrary >= 0 (also beyond 255), msg has min(len, 32) readable bytes, unsigned_flag 0 or 1"],
 "native": true
}
*/
/* VERIF-UNIT
{
 "name": "ht_dirhash_md4",
 "props": ["C10"],
 "level": "U/k",
 "tier": "thorough",
 "harness": "h_dirhash",
 "replace": ["str2hashbuf", "halfMD4Transform"],
 "defines": ["HT_CAP=255", "HT_ALG=1", "HT_UF=1"],
 "cbmc_flags": ["--object-bits", "12"],
 "unwind": 10,
 "unwind_reason": "a name of at most 255 bytes has at most 8 chunks of 32 bytes; specification loops: 8 words x 4 bytes, 3 rounds x 8 steps; unwinding assertions on",
 "timeout": 600,
 "functions": ["lib/ext2fs/dirhash.c:ext2fs_dirhash"],
 "assumes": ["0 <= len <= 255: ext4 name_len is an 8-bit on-disk field (callers pass name_len or strlen of a name that fits a dirent)", "version is HALF_MD4 or HALF_MD4_UNSIGNED", "the helpers are replaced by their contracts, which are enforced on the real helpers by the units ht_tea_transform, ht_halfmd4_transform, ht_str2hashbuf_tea/_md4, ht_dx_hack_hash_*", "names whose major hash is the reserved value 0xfffffffe are excluded from the equality with the kernel value (finding C10_ht_dirhash_eof, unit ht_dirhash_eof)", "seed pointer NULL or 4 arbitrary words; ret_minor_hash NULL or valid"],
 "native": false
}
*/
/* VERIF-UNIT
{
 "name": "ht_dirhash_tea",
 "props": ["C10"],
 "level": "U/k",
 "tier": "thorough",
 "harness": "h_dirhash",
 "replace": ["str2hashbuf", "TEA_transform"],
 "defines": ["HT_CAP=255", "HT_ALG=2", "HT_UF=1"],
 "cbmc_flags": ["--object-bits", "12"],
 "unwind": 18,
 "unwind_reason": "a name of at most 255 bytes has at most 16 chunks of 16 bytes; specification loops: 4 words x 4 bytes, 16 TEA rounds; unwinding assertions on",
 "timeout": 600,
 "functions": ["lib/ext2fs/dirhash.c:ext2fs_dirhash"],
 "assumes": ["0 <= len <= 255: ext4 name_len is an 8-bit on-disk field (callers pass name_len or strlen of a name that fits a dirent)", "version is TEA or TEA_UNSIGNED", "the helpers are replaced by their contracts, which are enforced on the real helpers by the units ht_tea_transform, ht_halfmd4_transform, ht_str2hashbuf_tea/_md4, ht_dx_hack_hash_*", "names whose major hash is the reserved value 0xfffffffe are excluded from the equality with the kernel value (finding C10_ht_dirhash_eof, unit ht_dirhash_eof)", "seed pointer NULL or 4 arbitrary words; ret_minor_hash NULL or valid"],
 "native": false
}
*/
/* VERIF-UNIT
{
 "name": "ht_dirhash_loop_legacy",
 "backend": "cvc5",
 "props": ["C10"],
 "level": "U",
 "tier": "quick",
 "harness": "h_dirhash_loop",
 "loop_contracts": true,
 "defines": ["HT_LOOPS=1", "HT_ALG=0"],
 "unwind": 6,
 "unwindset": {"h_dirhash_loop.0": 257},
 "unwind_reason": "the per-byte loop of dx_hack_hash is closed by an in-place loop contract (named anchor in lib/ext2fs/dirhash.c, hooks-pending/htree.diff); only the 4-word seed loop is unwound; unwinding assertions on",
 "timeout": 600,
 "functions": ["lib/ext2fs/dirhash.c:ext2fs_dirhash", "lib/ext2fs/dirhash.c:dx_hack_hash"],
 "assumes": ["0 <= len <= 255: ext4 name_len is an 8-bit on-disk field; the name buffer is a 256-byte object", "version is LEGACY or LEGACY_UNSIGNED", "SHAPE OF THE SPECIFICATION: the kernel hash is a fold of its per-byte round (HH_LEGACY_STEP of specs/htree_hash.h) over the name; the fold is evaluated by ghost statements in lock step with the real loop, and the loop invariant says that the code's (hash0, hash1) equal the fold's and that the cursors are at the fold's position; the closed function hh_legacy() is compared directly on bounded names (unit ht_dx_hack_hash_b24)", "names whose major hash is the reserved value 0xfffffffe are excluded from the equality with the kernel value (finding C10_ht_dirhash_eof, unit ht_dirhash_eof)", "seed pointer NULL or 4 arbitrary words; ret_minor_hash NULL or valid", "NEEDS the hook hooks-pending/htree.diff (named loop anchors in dirhash.c)"],
 "native": false
}
*/
/* VERIF-UNIT
{
 "name": "ht_dirhash_md4_b40",
 "props": [
  "C10"
 ],
 "level": "B(40)",
 "tier": "quick",
 "harness": "h_dirhash",
 "replace": [
  "str2hashbuf",
  "halfMD4Transform"
 ],
 "defines": [
  "HT_CAP=40",
  "HT_ALG=1",
  "HT_UF=1"
 ],
 "cbmc_flags": [
  "--object-bits",
  "12"
 ],
 "unwind": 10,
 "unwindset": {
  "ext2fs_dirhash.1": 3,
  "hh_dirhash.0": 3
 },
 "unwind_reason": "names capped at 40 bytes = 2 chunks of 32 (bounded stand-in for ht_dirhash_md4); unwinding assertions on",
 "timeout": 300,
 "functions": [
  "lib/ext2fs/dirhash.c:ext2fs_dirhash"
 ],
 "assumes": [
  "0 <= len <= 40 (BOUNDED; full range: ht_dirhash_md4)",
  "version is HALF_MD4 or HALF_MD4_UNSIGNED",
  "the helpers are replaced by their contracts, which are enforced on the real helpers by ht_tea_transform, ht_halfmd4_transform, ht_str2hashbuf_tea/_md4; the compression function is an uninterpreted symbol in this unit (the proof is parametric in it)",
  "names whose major hash is the reserved value 0xfffffffe are excluded from the equality with the kernel value (finding C10_ht_dirhash_eof, unit ht_dirhash_eof)",
  "seed pointer NULL or 4 arbitrary words; ret_minor_hash NULL or valid"
 ],
 "native": false
}
*/
/* VERIF-UNIT
{
 "name": "ht_dirhash_tea_b40",
 "props": [
  "C10"
 ],
 "level": "B(40)",
 "tier": "quick",
 "harness": "h_dirhash",
 "replace": [
  "str2hashbuf",
  "TEA_transform"
 ],
 "defines": [
  "HT_CAP=40",
  "HT_ALG=2",
  "HT_UF=1"
 ],
 "cbmc_flags": [
  "--object-bits",
  "12"
 ],
 "unwind": 18,
 "unwindset": {
  "ext2fs_dirhash.2": 4,
  "hh_dirhash.0": 4
 },
 "unwind_reason": "names capped at 40 bytes = 3 chunks of 16 (bounded stand-in for ht_dirhash_tea); unwinding assertions on",
 "timeout": 300,
 "functions": [
  "lib/ext2fs/dirhash.c:ext2fs_dirhash"
 ],
 "assumes": [
  "0 <= len <= 40 (BOUNDED; full range: ht_dirhash_tea)",
  "version is TEA or TEA_UNSIGNED",
  "the helpers are replaced by their contracts, which are enforced on the real helpers by ht_tea_transform, ht_halfmd4_transform, ht_str2hashbuf_tea/_md4; the compression function is an uninterpreted symbol in this unit (the proof is parametric in it)",
  "names whose major hash is the reserved value 0xfffffffe are excluded from the equality with the kernel value (finding C10_ht_dirhash_eof, unit ht_dirhash_eof)",
  "seed pointer NULL or 4 arbitrary words; ret_minor_hash NULL or valid"
 ],
 "native": false
}
*/
/* VERIF-UNIT
{
 "name": "ht_dirhash_legacy_b24",
 "backend": "cvc5",
 "props": [
  "C10"
 ],
 "level": "B(24)",
 "tier": "wip",
 "harness": "h_dirhash",
 "defines": [
  "HT_CAP=24",
  "HT_ALG=0"
 ],
 "unwind": 26,
 "unwind_reason": "names capped at 24 bytes (bounded stand-in; every length: ht_dirhash_loop_legacy); one iteration per byte in dx_hack_hash and in the specification; unwinding assertions on",
 "timeout": 300,
 "functions": [
  "lib/ext2fs/dirhash.c:ext2fs_dirhash",
  "lib/ext2fs/dirhash.c:dx_hack_hash"
 ],
 "assumes": [
  "0 <= len <= 24 (BOUNDED)",
  "version is LEGACY or LEGACY_UNSIGNED",
  "names whose major hash is the reserved value 0xfffffffe are excluded from the equality with the kernel value (finding C10_ht_dirhash_eof, unit ht_dirhash_eof)",
  "seed pointer NULL or 4 arbitrary words; ret_minor_hash NULL or valid"
 ],
 "native": true
}
*/
/* VERIF-UNIT
{
 "name": "ht_dirhash_unsupp",
 "props": [
  "C10"
 ],
 "level": "U/k",
 "tier": "quick",
 "harness": "h_dirhash_unsupp",
 "replace": [
  "str2hashbuf",
  "halfMD4Transform",
  "TEA_transform",
  "dx_hack_hash"
 ],
 "defines": [
  "HT_CAP=255",
  "HT_UF=1"
 ],
 "cbmc_flags": [
  "--object-bits",
  "12"
 ],
 "unwind": 18,
 "unwind_reason": "version is symbolic, so symbolic execution walks through every arm of the switch: chunk loops <= 16 iterations for names <= 255 bytes; unwinding assertions on",
 "timeout": 600,
 "functions": [
  "lib/ext2fs/dirhash.c:ext2fs_dirhash"
 ],
 "assumes": [
  "version any int outside 0..5 (6 = SIPHASH is a kernel version libext2fs does not implement)",
  "0 <= len <= 255",
  "helpers replaced by their contracts (they are unreachable here)"
 ],
 "native": false,
 "no_cross_check": true
}
*/
/* VERIF-UNIT
{
 "name": "ht_dirhash_eof",
 "props": [
  "C10"
 ],
 "level": "B(8)",
 "tier": "quick",
 "harness": "h_dirhash_eof",
 "defines": [
  "HT_CAP=8",
  "HT_ALG=0"
 ],
 "unwind": 10,
 "unwind_reason": "legacy hash of names <= 8 bytes is enough to reach the reserved value; unwinding assertions on",
 "timeout": 300,
 "functions": [
  "lib/ext2fs/dirhash.c:ext2fs_dirhash"
 ],
 "assumes": [
  "FAILS ON THE TREE (finding C10_ht_dirhash_eof): the kernel maps the major hash 0xfffffffe to 0xfffffffc (EXT4_HTREE_EOF_32BIT clamp in __ext4fs_dirhash), ext2fs_dirhash does not",
  "legacy versions, names <= 8 bytes (enough for a witness)"
 ],
 "native": true
}
*/
/* VERIF-UNIT
{
 "name": "ht_dirhash2",
 "props": [
  "C10"
 ],
 "level": "U",
 "tier": "quick",
 "harness": "h_dirhash2",
 "replace": [
  "ext2fs_dirhash"
 ],
 "defines": [
  "HT_CAP=255",
  "HT_DH2=1"
 ],
 "unwind": 6,
 "unwind_reason": "ext2fs_dirhash2 is loop-free; the bound serves the contract library's loops; unwinding assertions on",
 "timeout": 300,
 "functions": [
  "lib/ext2fs/dirhash.c:ext2fs_dirhash2"
 ],
 "assumes": [
  "ext2fs_dirhash is replaced by a contract that records which string (pointer, length, ghost byte) and which other arguments it is given and returns an arbitrary result (its own proofs: ht_dirhash_*)",
  "the charset's casefold operation is a stub: it asserts that it is handed the name, its length and a PATH_MAX buffer, writes an arbitrary ghost byte into the buffer and returns an arbitrary length 0..255 or a negative errno",
  "kernel ext4fs_dirhash() falls back to the opaque byte sequence for EVERY casefold failure; ext2fs_dirhash2 does so for -EINVAL and returns any other negative value as the error (lib/ext2fs/nls_utf8.c produces only -EINVAL and, for names longer than the 4096-byte buffer, -ENAMETOOLONG): accepted as the specification here",
  "0 <= len <= 255"
 ],
 "native": false
}
*/
#include "verif.h"
#ifdef HT_UF
/*
 * Parametric units: the compression functions are UNINTERPRETED symbols.  The real TEA_transform / halfMD4Transform are
 * replaced by contracts "buf' = T(buf, in)" over these symbols and the specification is composed from the same symbols, so
 * the unit proves  "for every function T: if the helper computes T then ext2fs_dirhash computes the kernel's composition of
 * T".  That the real helpers compute the kernel's TEA_transform / half_md4_transform is what ht_tea_transform and
 * ht_halfmd4_transform prove (same contract text with T := hh_tea_word / hh_md4_word).
 */
unsigned int __CPROVER_uninterpreted_hh_tea(unsigned int, unsigned int, unsigned int, unsigned int, unsigned int, unsigned int, int);
unsigned int __CPROVER_uninterpreted_hh_md4(unsigned int, unsigned int, unsigned int, unsigned int,
					    unsigned int, unsigned int, unsigned int, unsigned int,
					    unsigned int, unsigned int, unsigned int, unsigned int, int);
#define HH_TEA_WORD(o0, o1, k, i) __CPROVER_uninterpreted_hh_tea(o0, o1, (k)[0], (k)[1], (k)[2], (k)[3], i)
#define HH_MD4_WORD(o0, o1, o2, o3, in, i) \
	__CPROVER_uninterpreted_hh_md4(o0, o1, o2, o3, (in)[0], (in)[1], (in)[2], (in)[3], (in)[4], (in)[5], (in)[6], (in)[7], i)
#endif
#include "htree_hash.h"

#ifndef HT_CAP
#define HT_CAP 32
#endif
#ifndef HT_NUM
#define HT_NUM 8
#endif

struct in_hash {
	unsigned int buf[4];
	unsigned int in[8];
	unsigned char name[256];
	int len;
	int version;
	int uns;
	unsigned int seed[4];
	unsigned char has_seed, want_minor;
	unsigned int junk_hash, junk_minor;
	int fold_ret;			/* result of the casefold stub */
	unsigned char folded[256];	/* what the casefold stub produces */
	int hash_flags;
	unsigned char has_charset;
	long fold_ret2;			/* result of the (replaced) ext2fs_dirhash in ht_dirhash2 */
	unsigned int gj;		/* ghost byte index into the hashed string */
	unsigned char fold_byte;	/* what the casefold stub writes at gj */
};
struct in_hash IN;
#include "verif_in.h"

#ifdef HT_LOOPS
/*
 * In-place loop contracts (named anchors in lib/ext2fs/dirhash.c).  Ghost registers:
 *   verif_g0, g1  state of the specification's fold: g0 = hash0, g1 = hash1
 *   verif_g4      number of name bytes the fold has consumed        verif_g5   length of the name
 * The ghost statement at the top of the body re-anchors the cursors at the value the invariant gives (asserted to be
 * the identity) and advances the fold by one round of the KERNEL definition on the byte the real body is about to consume.
 * (The same construction on the chunk loops of ext2fs_dirhash was tried and dropped: a chunk read at a symbolic offset
 * name + 16k does not finish on any back end; those loops are unwound to the format's maximum instead — ht_dirhash_md4/_tea.)
 */
#ifndef VERIF_NATIVE
unsigned long long verif_g0, verif_g1, verif_g2, verif_g3, verif_g4, verif_g5, verif_g6, verif_g7;
#endif
/* `while (len--)`: the invariant is evaluated before the decrement; unsigned_flag is 0 or 1 and only ONE of the two cursors moves */
#define VERIF_INV_DX_HACK_HASH \
	__CPROVER_assigns(len, ucp, scp, c, hash, hash0, hash1, verif_g0, verif_g1, verif_g4) \
	__CPROVER_loop_invariant(verif_g5 <= 255 && verif_g4 <= verif_g5 && len == (int)verif_g5 - (int)verif_g4) \
	__CPROVER_loop_invariant(ucp == (const unsigned char *)name + (unsigned_flag ? verif_g4 : 0)) \
	__CPROVER_loop_invariant(scp == (const signed char *)name + (unsigned_flag ? 0 : verif_g4)) \
	__CPROVER_loop_invariant(hash0 == (__u32)verif_g0 && hash1 == (__u32)verif_g1) \
	__CPROVER_decreases(len)
#define VERIF_GHOST_DX_HACK_HASH { \
		__CPROVER_assert(ucp == (const unsigned char *)name + (unsigned_flag ? verif_g4 : 0) && \
				 scp == (const signed char *)name + (unsigned_flag ? 0 : verif_g4), "CHECK:cursors have their invariant value"); \
		ucp = (const unsigned char *)name + (unsigned_flag ? verif_g4 : 0); \
		scp = (const signed char *)name + (unsigned_flag ? 0 : verif_g4); \
		hh_u32 a_ = (hh_u32)verif_g0, b_ = (hh_u32)verif_g1; \
		HH_LEGACY_STEP(a_, b_, HH_CHAR(name, verif_g4, unsigned_flag)); \
		verif_g0 = a_; \
		verif_g1 = b_; \
		verif_g4++; \
	}
#endif

#include "lib/ext2fs/dirhash.c"

/* harness-owned objects, and the ghost snapshot of buf taken before a call */
static __u32 T_BUF[4];
static __u32 T_IN[8];
static struct hh_state g_old;

/*
 * Contracts of the helpers.  They are general (no reference to harness objects), so the same text is ENFORCED in the
 * helper units and REPLACES the helper in the whole-function units.
 */
/* kernel TEA_transform: only buf[0] and buf[1] change (frame: buf[2], buf[3] are not assignable).
 * One clause per output word, each a plain equality with a single-level specification function. */
static void TEA_transform(__u32 buf[4], __u32 const in[])
	ENSURES(buf[0] == HH_TEA_WORD(OLD(buf[0]), OLD(buf[1]), in, 0))
	ENSURES(buf[1] == HH_TEA_WORD(OLD(buf[0]), OLD(buf[1]), in, 1))
	ASSIGNS(buf[0], buf[1]);

static void halfMD4Transform(__u32 buf[4], __u32 const in[])
	ENSURES(buf[0] == HH_MD4_WORD(OLD(buf[0]), OLD(buf[1]), OLD(buf[2]), OLD(buf[3]), in, 0))
	ENSURES(buf[1] == HH_MD4_WORD(OLD(buf[0]), OLD(buf[1]), OLD(buf[2]), OLD(buf[3]), in, 1))
	ENSURES(buf[2] == HH_MD4_WORD(OLD(buf[0]), OLD(buf[1]), OLD(buf[2]), OLD(buf[3]), in, 2))
	ENSURES(buf[3] == HH_MD4_WORD(OLD(buf[0]), OLD(buf[1]), OLD(buf[2]), OLD(buf[3]), in, 3))
	ASSIGNS(buf[0], buf[1], buf[2], buf[3]);

#define S2HB_WORD(w) (buf[w] == HH_WORD(msg, len, num, w, unsigned_flag))
static void str2hashbuf(const char *msg, int len, __u32 *buf, int num, int unsigned_flag)
	REQUIRES((num == 4 || num == 8) && len >= 0 && (unsigned_flag == 0 || unsigned_flag == 1))
	ENSURES(S2HB_WORD(0)) ENSURES(S2HB_WORD(1)) ENSURES(S2HB_WORD(2)) ENSURES(S2HB_WORD(3))
	ENSURES(num != 8 || S2HB_WORD(4)) ENSURES(num != 8 || S2HB_WORD(5)) ENSURES(num != 8 || S2HB_WORD(6)) ENSURES(num != 8 || S2HB_WORD(7))
	ASSIGNS(buf[0], buf[1], buf[2], buf[3]; num == 8: buf[4], buf[5], buf[6], buf[7]);

#ifdef HT_DH2
/* ghost record of the one call of ext2fs_dirhash made by the wrapper */
static int g_dh_calls, g_dh_version, g_dh_len;
static const char *g_dh_name;
static const __u32 *g_dh_seed;
static ext2_dirhash_t *g_dh_ret, *g_dh_minor;
static unsigned char g_dh_byte;
errcode_t ext2fs_dirhash(int version, const char *name, int len, const __u32 *seed, ext2_dirhash_t *ret_hash, ext2_dirhash_t *ret_minor_hash)
	ENSURES(g_dh_calls == OLD(g_dh_calls) + 1 && g_dh_version == version && g_dh_name == name && g_dh_len == len && g_dh_seed == seed &&
		g_dh_ret == ret_hash && g_dh_minor == ret_minor_hash && RET == IN.fold_ret2)
	ENSURES(!(len > 0 && (int)IN.gj < len) || g_dh_byte == (unsigned char)name[IN.gj])
	ASSIGNS(g_dh_calls, g_dh_version, g_dh_name, g_dh_len, g_dh_seed, g_dh_ret, g_dh_minor, g_dh_byte);
#endif

#ifndef HT_LOOPS
static ext2_dirhash_t dx_hack_hash(const char *name, int len, int unsigned_flag)
	REQUIRES(len >= 0 && len <= HT_CAP && (unsigned_flag == 0 || unsigned_flag == 1))
	ENSURES(RET == hh_legacy((const unsigned char *)name, len, unsigned_flag))
	ASSIGNS();
#endif

static void load_buf(void)
{
	for (int i = 0; i < 4; i++) {
		T_BUF[i] = IN.buf[i];
		g_old.b[i] = IN.buf[i];
	}
	for (int i = 0; i < 8; i++)
		T_IN[i] = IN.in[i];
}

void h_tea(void)
{
	LOAD_IN();
	load_buf();
	TEA_transform(T_BUF, T_IN);
	CHECK(T_BUF[0] == hh_tea_word(g_old.b[0], g_old.b[1], T_IN, 0) && T_BUF[1] == hh_tea_word(g_old.b[0], g_old.b[1], T_IN, 1) && T_BUF[2] == g_old.b[2] && T_BUF[3] == g_old.b[3], "TEA_transform equals the kernel's TEA_transform; buf[2], buf[3] untouched");
	REACH("end");
}

void h_md4(void)
{
	LOAD_IN();
	load_buf();
	halfMD4Transform(T_BUF, T_IN);
	{
		struct hh_state n = hh_md4(g_old, T_IN);
		CHECK(T_BUF[0] == n.b[0] && T_BUF[1] == n.b[1] && T_BUF[2] == n.b[2] && T_BUF[3] == n.b[3], "halfMD4Transform equals the kernel's half_md4_transform");
	}
	REACH("end");
}

void h_legacy(void)
{
	LOAD_IN();
	ASSUME(IN.len >= 0 && IN.len <= HT_CAP && (IN.uns == 0 || IN.uns == 1));
	ext2_dirhash_t h;
	/* one call per char variant with a CONSTANT flag: the code advances two cursors (ucp/scp) depending on the flag, and a
	 * symbolic flag turns every byte read into a read at a symbolic offset */
	if (IN.uns) {
		h = dx_hack_hash((const char *)IN.name, IN.len, 1);
		CHECK(h == hh_legacy(IN.name, IN.len, 1), "dx_hack_hash equals the kernel's dx_hack_hash_unsigned");
	} else {
		h = dx_hack_hash((const char *)IN.name, IN.len, 0);
		CHECK(h == hh_legacy(IN.name, IN.len, 0), "dx_hack_hash equals the kernel's dx_hack_hash_signed");
	}
	if (IN.len > 0 && IN.name[0] >= 128 && !IN.uns) REACH("signed high byte");
	REACH("end");
}

void h_s2hb(void)
{
	LOAD_IN();
	load_buf();
	ASSUME(IN.len >= 0 && (IN.uns == 0 || IN.uns == 1));
	str2hashbuf((const char *)IN.name, IN.len, T_IN, HT_NUM, IN.uns);
	for (int w = 0; w < HT_NUM; w++)
		CHECK(T_IN[w] == hh_word(IN.name, IN.len, HT_NUM, w, IN.uns), "str2hashbuf equals the kernel's str2hashbuf_signed / _unsigned, every output word");
	CHECK(HT_NUM == 8 || (T_IN[4] == IN.in[4] && T_IN[7] == IN.in[7]), "nothing behind the num output words is written");
	if (IN.len > HT_NUM * 4) REACH("long name: chunk full");
	if (IN.len < HT_NUM * 4 && (IN.len & 3) == 1 && IN.name[0] >= 128 && !IN.uns) REACH("partial word, signed high byte");
	REACH("end");
}

/*
 * ext2fs_dirhash as a whole.  Kernel __ext4fs_dirhash(): seed default, version switch, chunk loop, hash & ~1, minor hash,
 * unknown version -> error and hash 0.  The kernel additionally maps the major hash 0xfffffffe to 0xfffffffc (EOF clamp);
 * libext2fs does not (finding C10_ht_dirhash_eof), so the equality is claimed here for every other value and the
 * clamp itself is unit ht_dirhash_eof.
 */
#ifndef HT_ALG
#define HT_ALG 1
#endif
/* `version` is a CONSTANT at every call of this function: symbolic execution then follows only the selected algorithm */
static void dirhash_common(int version, int check_clamp)
{
	ext2_dirhash_t h = IN.junk_hash, mh = IN.junk_minor;
	hh_u32 sh, sm;
	errcode_t r;
	int sr;

	ASSUME(IN.len >= 0 && IN.len <= HT_CAP);
	/* seed and minor-hash pointers are NULL or valid; they are dereferenced only outside the chunk loops */
	r = ext2fs_dirhash(version, (const char *)IN.name, IN.len, IN.has_seed ? IN.seed : NULL, &h, IN.want_minor ? &mh : NULL);
	sr = hh_dirhash(version, IN.name, IN.len, IN.has_seed ? IN.seed : NULL, &sh, &sm);
	CHECK((r == 0) == (sr == 0), "supported versions are exactly legacy, half-MD4, TEA and their unsigned variants");
	CHECK(r == 0 || (r == EXT2_ET_DIRHASH_UNSUPP && h == 0), "unsupported version: EXT2_ET_DIRHASH_UNSUPP and hash 0");
	if (r == 0) {
		if (check_clamp)
			CHECK(h == hh_eof_clamp(sh), "major hash equals the kernel's, including the EOF clamp 0xfffffffe -> 0xfffffffc");
		else
			CHECK(h == sh || sh == (HH_EOF_32BIT << 1), "major hash equals the kernel's (reserved value 0xfffffffe aside)");
		CHECK((h & 1) == 0, "bit 0 of the major hash is clear (it is the continuation flag in index entries)");
		CHECK(!IN.want_minor || mh == sm, "minor hash equals the kernel's");
		CHECK(IN.want_minor || mh == IN.junk_minor, "no minor hash requested: nothing stored");
	}
}

void h_dirhash(void)
{
	LOAD_IN();
#if HT_ALG == 0
	ASSUME(IN.version == HH_LEGACY || IN.version == HH_LEGACY_UNSIGNED);
	if (IN.version == HH_LEGACY) dirhash_common(HH_LEGACY, 0); else dirhash_common(HH_LEGACY_UNSIGNED, 0);
#elif HT_ALG == 1
	ASSUME(IN.version == HH_HALF_MD4 || IN.version == HH_HALF_MD4_UNSIGNED);
	if (IN.version == HH_HALF_MD4) dirhash_common(HH_HALF_MD4, 0); else dirhash_common(HH_HALF_MD4_UNSIGNED, 0);
#elif HT_ALG == 2
	ASSUME(IN.version == HH_TEA || IN.version == HH_TEA_UNSIGNED);
	if (IN.version == HH_TEA) dirhash_common(HH_TEA, 0); else dirhash_common(HH_TEA_UNSIGNED, 0);
#endif
	if (IN.len > (HT_CAP > 32 ? 32 : HT_CAP / 2) && IN.has_seed && IN.want_minor && IN.version < 3) REACH("long name (more than one chunk where the cap allows), seeded, signed variant");
	if (!IN.has_seed && !IN.want_minor && IN.version >= 3) REACH("no seed pointer, no minor, unsigned variant");
	REACH("end");
}

void h_dirhash_unsupp(void)
{
	ext2_dirhash_t h, mh;
	errcode_t r;

	LOAD_IN();
	h = IN.junk_hash;
	mh = IN.junk_minor;
	ASSUME(IN.len >= 0 && IN.len <= HT_CAP);
	ASSUME(IN.version < 0 || IN.version > 5);
	r = ext2fs_dirhash(IN.version, (const char *)IN.name, IN.len, IN.has_seed ? IN.seed : NULL, &h, IN.want_minor ? &mh : NULL);
	CHECK(r == EXT2_ET_DIRHASH_UNSUPP, "a version the kernel definition does not share with libext2fs is refused");
	CHECK(h == 0, "hash 0 on refusal (as the kernel)");
	CHECK(mh == IN.junk_minor, "minor hash untouched on refusal");
	if (IN.version == 6 && IN.len == 255) REACH("SIPHASH, longest name");
	REACH("end");
}

/*
 * Kernel __ext4fs_dirhash(): "if (hash == (EXT4_HTREE_EOF_32BIT << 1)) hash = (EXT4_HTREE_EOF_32BIT - 1) << 1;" — the value
 * 0xfffffffe is reserved as the end-of-directory cookie and is never the hash of a name; a name whose raw hash is 0xfffffffe
 * (or 0xffffffff) is filed under 0xfffffffc.  A direct consequence of the kernel definition, stated without the functional
 * part: ext2fs_dirhash never returns 0xfffffffe.  FAILS on the tree (finding C10_ht_dirhash_eof).
 */
void h_dirhash_eof(void)
{
	ext2_dirhash_t h;
	errcode_t r;

	LOAD_IN();
	h = IN.junk_hash;
	ASSUME(IN.len >= 0 && IN.len <= HT_CAP);
	r = ext2fs_dirhash(HH_LEGACY_UNSIGNED, (const char *)IN.name, IN.len, NULL, &h, NULL);
	CHECK(r == 0, "supported version");
	CHECK(h != (HH_EOF_32BIT << 1), "the reserved major hash 0xfffffffe is never returned (the kernel maps it to 0xfffffffc)");
	REACH("end");
}

#ifdef HT_LOOPS
/*
 * ext2fs_dirhash, legacy versions, with the per-byte loop of dx_hack_hash closed by the in-place contract above: every name
 * length 0..255.  The harness initialises the fold with the kernel's constants; the base case of the loop invariant proves
 * that the code starts from the same state.
 */
/* the name lives in an array object of its own (not inside struct IN): the read at the symbolic position stays an array read */
static unsigned char NAME[256];
static void dirhash_loop_common(int version)
{
	ext2_dirhash_t h = IN.junk_hash, mh = IN.junk_minor;
	errcode_t r;
	hh_u32 maj;

	ASSUME(IN.len >= 0 && IN.len <= 255);
	verif_g0 = HH_LEGACY_H0;
	verif_g1 = HH_LEGACY_H1;
	verif_g4 = 0;
	verif_g5 = IN.len;
	r = ext2fs_dirhash(version, (const char *)NAME, IN.len, IN.has_seed ? IN.seed : NULL, &h, IN.want_minor ? &mh : NULL);
	CHECK(r == 0, "supported version");
	CHECK(verif_g4 == (unsigned)IN.len, "the fold has consumed exactly the len bytes of the name");
	maj = ((hh_u32)verif_g0 << 1) & ~1u;
	CHECK(h == maj || maj == (HH_EOF_32BIT << 1), "major hash: kernel dx_hack_hash fold, << 1 (reserved value 0xfffffffe aside)");
	CHECK(!IN.want_minor || mh == 0, "legacy: minor hash 0");
	CHECK((h & 1) == 0, "bit 0 of the major hash is clear");
	CHECK(IN.want_minor || mh == IN.junk_minor, "no minor hash requested: nothing stored");
}

void h_dirhash_loop(void)
{
	LOAD_IN();
	for (int i = 0; i < 256; i++)
		NAME[i] = IN.name[i];
	ASSUME(IN.version == HH_LEGACY || IN.version == HH_LEGACY_UNSIGNED);
	if (IN.version == HH_LEGACY) dirhash_loop_common(HH_LEGACY); else dirhash_loop_common(HH_LEGACY_UNSIGNED);
	if (IN.len > 200 && IN.has_seed && IN.want_minor && IN.version < 3 && IN.name[7] >= 128) REACH("long name, seeded, signed variant, high byte");
	if (IN.len == 0 && !IN.has_seed && !IN.want_minor && IN.version >= 3) REACH("empty name, no seed pointer, no minor, unsigned variant");
	REACH("end");
}
#endif

#ifdef HT_DH2
/*
 * ext2fs_dirhash2: the casefold wrapper.  Kernel ext4fs_dirhash(): when the name is non-empty, the directory is casefolded and
 * the filesystem has an encoding, the CASEFOLDED string is hashed (buffer of PATH_MAX bytes); if folding fails the raw bytes are
 * hashed ("opaque sequence"); otherwise the raw name is hashed.  Everything else is handed through unchanged.
 */
static struct ext2fs_nls_table CS;
static struct ext2fs_nls_ops OPS;
static int g_fold_calls;
static unsigned char *g_fold_dest;

static int fold_stub(const struct ext2fs_nls_table *charset, const unsigned char *str, size_t len, unsigned char *dest, size_t dlen)
{
	g_fold_calls++;
	g_fold_dest = dest;
	__CPROVER_assert(charset == &CS && str == IN.name && len == (size_t)IN.len && dlen == PATH_MAX && __CPROVER_w_ok(dest, dlen),
			 "CHECK:casefold gets the name, its length and a PATH_MAX buffer");
	if (IN.fold_ret >= 0 && IN.gj < (unsigned)IN.fold_ret)
		dest[IN.gj] = IN.fold_byte;
	return IN.fold_ret;
}

void h_dirhash2(void)
{
	ext2_dirhash_t h, mh;
	errcode_t r;

	LOAD_IN();
	h = IN.junk_hash;
	mh = IN.junk_minor;
	ASSUME(IN.len >= 0 && IN.len <= 255 && IN.fold_ret <= 255 && IN.gj < 255);
	OPS.casefold = fold_stub;
	CS.ops = &OPS;
	g_dh_calls = g_fold_calls = 0;
	if (IN.has_charset)
		r = ext2fs_dirhash2(IN.version, (const char *)IN.name, IN.len, &CS, IN.hash_flags, IN.seed, &h, &mh);
	else
		r = ext2fs_dirhash2(IN.version, (const char *)IN.name, IN.len, NULL, IN.hash_flags, IN.seed, &h, &mh);

	int folds = IN.len != 0 && IN.has_charset && (IN.hash_flags & EXT4_CASEFOLD_FL);
	CHECK(g_fold_calls == (folds ? 1 : 0), "the name is folded iff it is non-empty, the directory is casefolded and the filesystem has an encoding");
	if (folds && IN.fold_ret < 0 && IN.fold_ret != -EINVAL) {
		CHECK(r == IN.fold_ret && g_dh_calls == 0, "casefold error other than -EINVAL: returned");
	} else {
		CHECK(g_dh_calls == 1 && r == IN.fold_ret2, "exactly one hash computation, its result is the result");
		CHECK(g_dh_version == IN.version && g_dh_seed == IN.seed && g_dh_ret == &h && g_dh_minor == &mh, "version, seed and result pointers are handed through");
		if (folds && IN.fold_ret >= 0) {
			CHECK(g_dh_name == (const char *)g_fold_dest && g_dh_len == IN.fold_ret, "the casefolded string is hashed, with the length casefold returned");
			CHECK(!(IN.fold_ret > 0 && (int)IN.gj < IN.fold_ret) || g_dh_byte == IN.fold_byte, "... byte for byte (ghost byte)");
			REACH("folded");
		} else {
			CHECK(g_dh_name == (const char *)IN.name && g_dh_len == IN.len, "the raw name is hashed (no folding, or invalid sequence: opaque bytes)");
			if (folds) REACH("invalid sequence: opaque");
		}
	}
	REACH("end");
}
#endif
