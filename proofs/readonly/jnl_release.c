/*
 * C13 / e2fsck/journal.c:e2fsck_journal_release() — "READONLY => the journal superblock is not dirtied".
 *
 * Statement (from the property: a read-only e2fsck must not change the journal device): when
 * ctx->options & E2F_OPT_READONLY, e2fsck_journal_release
 *   - does not touch the journal superblock contents (s_sequence, s_start, checksum) and does not dirty its buffer;
 *   - therefore reaches a channel write method only if the buffer was ALREADY dirty on entry and drop == 0
 *     (brelse writes a dirty buffer; that is the caller's doing — see unit check_ext3_journal_ro for the one caller
 *     that does it);
 *   - with drop != 0 never writes (any mode);
 *   - closes the journal channel iff it is not the filesystem's own channel.
 * Everything called is real (mark_buffer_dirty, mark_buffer_clean, brelse, ll_rw_block, io_channel_write_blk64 of
 * io_manager.c); the manager's write methods are the monitor events.
 */
/* VERIF-UNIT
{
 "name": "journal_release_ro",
 "props": ["C13"],
 "level": "P",
 "tier": "quick",
 "harness": "h_release",
 "includes": ["e2fsck"],
 "sources": ["lib/ext2fs/io_manager.c"],
 "unwind": 2,
 "unwind_reason": "ll_rw_block is called with nr == 1 (brelse): one iteration; no other loop is reachable",
 "functions": ["e2fsck/journal.c:e2fsck_journal_release", "e2fsck/journal.c:brelse", "e2fsck/journal.c:ll_rw_block"],
 "assumes": ["block size 1 KiB or 4 KiB; journal superblock content, j_format_version in {1,2}, buffer dirty state on entry, reset, drop, ctx->options arbitrary",
	     "journal_io is either the filesystem channel (internal journal) or a separate channel (external journal)",
	     "no frame enforcement (the function frees its arguments); the statements are harness CHECKs and monitor events in the stub manager's write methods",
	     "ext2fs_crc32c_le is a stub returning an arbitrary value"],
 "native": false
}
*/
#include "ro_jnl_common.h"
#define RO_EXCUSE (IN.buf_dirty & 1)	/* a buffer dirtied by the caller is written by brelse: the caller's unit */
#include "e2fsck/journal.c"
#define RO_JNL_PART2
#include "ro_jnl_common.h"

void h_release(void)
{
	LOAD_IN();
	ro_build();
	unsigned int bs = IN.bs4k ? 4096 : 1024;
	journal_t *journal = malloc(sizeof(journal_t));
	struct kdev_s *dev = malloc(2 * sizeof(struct kdev_s));
	struct buffer_head *bh = malloc(sizeof(*bh));
	ASSUME(journal && dev && bh);
	memset(journal, 0, sizeof(*journal));
	memset(bh, 0, sizeof(*bh));
	dev[0].k_ctx = dev[1].k_ctx = &CTX;
	dev[0].k_dev = K_DEV_FS;
	dev[1].k_dev = K_DEV_JOURNAL;
	CTX.journal_io = IN.same_io ? &FSCH : &JCH;
	if (!IN.same_io) {
		memset(&JCH, 0, sizeof(JCH));
		JCH.magic = EXT2_ET_MAGIC_IO_CHANNEL;
		JCH.manager = &RO_MGR;
		JCH.block_size = bs;
		ch_rw[1] = (unsigned char)(IN.choice[RO_NCHOICE - 1] & 1);	/* however it was opened */
	}
	memcpy(bh->b_data, IN.jsb, 1024);
	bh->b_ctx = &CTX;
	bh->b_io = CTX.journal_io;
	bh->b_size = bs;
	bh->b_dirty = IN.buf_dirty & 1;
	bh->b_uptodate = 1;
	bh->b_blocknr = g_jsb_blocknr = IN.it_blk;
	journal->j_dev = &dev[1];
	journal->j_fs_dev = &dev[0];
	journal->j_blocksize = bs;
	journal->j_sb_buffer = bh;
	journal->j_superblock = (journal_superblock_t *) bh->b_data;
	journal->j_tail_sequence = IN.tail_sequence;
	journal->j_format_version = 1 + (IN.j_internal & 1);
	if (IN.j_internal & 2) {
		journal->j_inode = malloc(sizeof(struct inode));
		ASSUME(journal->j_inode);
	}

	e2fsck_journal_release(&CTX, journal, IN.reset, IN.drop);

	CHECK(CTX.journal_io == 0, "journal channel forgotten");
	CHECK(ro_mon.closes == (IN.same_io ? 0 : 1), "the journal channel is closed iff it is not the filesystem's channel");
	CHECK(ro_mon.writes <= 1, "at most one write: the journal superblock");
	CHECK(ro_mon.writes == g_jsb_writes, "only the journal superblock block is written");
	if (IN.drop) {
		CHECK(ro_mon.writes == 0, "drop: nothing is written");
		REACH("drop");
	}
	if (RO) {
		CHECK(ro_mon.writes == ((IN.buf_dirty & 1) && !IN.drop ? 1 : 0),
		      "read-only: release writes only a buffer that was already dirty on entry");
		if (!(IN.buf_dirty & 1)) {
			CHECK(ro_mon.writes == 0, "read-only and buffer clean on entry: no write");
			REACH("ro-clean");
		}
	} else if (!IN.drop) {
		CHECK(ro_mon.writes == 1, "read-write, not dropped: the journal superblock is written back");
		REACH("rw-write");
	}
	REACH("end");
}
